/-
  Model of the time grid and of the observable bookkeeping, statement by statement,
  polymorphic in the scalar.

  * `emu_base/pulser_adapter.py`: `_unique_observable_times`, `_get_target_times` (floor, the
    set unions as a sorted duplicate-free list, the merge loop of commits c68c973/a740bae/b8e723e/7585532), the
    mid-points that give the rows of Ω, the `reps` expansion of `PulserData.get_sequences`.
  * `pulser/backend/config.py`: `is_time_in_evaluation_times`, `is_evaluation_time`;
    `pulser/backend/observable.py`: `_validate_eval_times`, `Observable.__call__` (second
    filter); `pulser/backend/results.py`: `Results._store_raw`.
  * `emu_sv/sv_backend_impl.py`: `_is_evaluation_time`, `_apply_observables`, `_run`;
    `emu_mps/mps_backend_impl.py`: `_is_evaluation_time`, `fill_results`, `timestep_complete`
    (the three call sites: t = 0 before the loop, after each step).

  Int → scalar conversion (`nat`), `math.floor` (`fl`) and the float literals
  (`2e-12`, `1e-10`, `0.5`, `1e-6`) are parameters, so that the same definitions run at
  `Float`/`Rat` and are read over an ordered field in `Props/`.
-/
import EmuVerif.Model.Scalar

namespace EmuVerif.TimeGrid

/-- Python exceptions that the modelled code can raise. -/
inductive Err
  | zeroDiv      -- ZeroDivisionError (`duration / dt`, `i*dt / duration`)
  | valueError   -- ValueError (`default_evaluation_times == "Full"` where a list is needed; bad times)
  | indexError   -- IndexError (`target_times[k]` out of range)
  | dupTime      -- RuntimeError "A value is already stored for observable"
  | notSorted    -- AssertionError "Evaluation times are not sorted."
  deriving DecidableEq, Repr

def Err.tag : Err → String
  | .zeroDiv => "zerodiv" | .valueError => "valueerror" | .indexError => "indexerror"
  | .dupTime => "duptime" | .notSorted => "notsorted"

variable {α : Type} [Add α] [Sub α] [Mul α] [Div α] [Neg α] [LT α] [DecidableLT α]
  [LE α] [DecidableLE α] [OfNat α 0] [OfNat α 1]

/-- `x == y` on scalars (no NaN in the models). -/
def eqv (x y : α) : Bool := !decide (x < y) && !decide (y < x)

/-! ### `_unique_observable_times` -/

/-- An observable's `evaluation_times` (`none` = use the config default); the config's
`default_evaluation_times` (`none` = the string `"Full"`). The result is the concatenation:
the Python `set` semantics is applied once, in `sortedSet`. -/
def uniqueObsTimes (dflt : Option (List α)) : List (Option (List α)) → Except Err (List α)
  | [] => .ok []
  | o :: os =>
    match o, dflt with
    | some ts, _ => (uniqueObsTimes dflt os).map (ts ++ ·)
    | none, some ds => (uniqueObsTimes dflt os).map (ds ++ ·)
    | none, none => .error .valueError

/-! ### `_get_target_times` -/

/-- `{i * float(dt) / duration for i in range(n_steps + 1)}` (as a list). -/
def relGrid (nat : Nat → α) (n : Int) (dt duration : α) : List α :=
  (List.range (n + 1).toNat).map (fun i => nat i * dt / duration)

/-- `evolution_times_rel | {1.0} | observable_times`. -/
def relCands (nat : Nat → α) (n : Int) (dt duration : α) (obs : List α) : List α :=
  relGrid nat n dt duration ++ (1 :: obs)

/-- `t * duration for t in target_times_rel`. -/
def absCands (nat : Nat → α) (n : Int) (dt duration : α) (obs : List α) : List α :=
  (relCands nat n dt duration obs).map (· * duration)

def leB (a b : α) : Bool := decide (a ≤ b)

/-- Drop the repeated elements of a sorted list. -/
def dedupAdj : List α → List α
  | [] => []
  | [a] => [a]
  | a :: b :: l => if a < b then a :: dedupAdj (b :: l) else dedupAdj (b :: l)

/-- `sorted(set(l))`. -/
def sortedSet (l : List α) : List α := dedupAdj (l.mergeSort leB)

/-- One iteration of `for t in reversed(target_times)`: `acc` is `merged` read backwards
(its head is `merged[-1]`). -/
def mergeStep (tol : α) (t : α) (acc : List α) : List α :=
  match acc with
  | [] => [t]
  | m :: _ => if tol < m - t then t :: acc else acc

/-- The merge loop; the result is `merged[::-1]` before `merged[-1] = target_times[0]`. -/
def mergeDesc (tol : α) (l : List α) : List α := l.foldr (mergeStep tol) []

/-- `merged[-1] = target_times[0]` seen on the reversed list. -/
def fixFirst (first : α) : List α → List α
  | [] => []
  | _ :: r => first :: r

/-- The merged grid built from the sorted candidates (`none` = IndexError on an empty list,
unreachable because `duration` is always a candidate). -/
def mergeGrid (tol : α) (s : List α) : Option (List α) :=
  match s with
  | [] => none
  | first :: _ => some (fixFirst first (mergeDesc tol s))

/-- `merged[0] = duration` seen on the reversed list (commit 7585532): the last point is
overwritten, because `floor(duration/dt)*dt/duration*duration` can round past the duration. -/
def setLast (d : α) : List α → List α
  | [] => []
  | [_] => [d]
  | a :: b :: l => a :: setLast d (b :: l)

def isZero (x : α) : Bool := eqv x 0

/-- `_get_target_times` given the observable times (`relTol` is the literal `2e-12`; `1e-9` before a740bae, `1e-12` before b8e723e). -/
def targetTimesOf (nat : Nat → α) (fl : α → Int) (relTol duration dt : α) (obs : List α) :
    Except Err (List α) :=
  if isZero dt then .error .zeroDiv
  else
    let n := fl (duration / dt)
    if isZero duration && decide (0 ≤ n) then .error .zeroDiv
    else
      match mergeGrid (relTol * duration) (sortedSet (absCands nat n dt duration obs)) with
      | none => .error .indexError
      | some g => .ok (setLast duration g)

/-- `_get_target_times(sequence, config, dt)`: the grid is computed before the observable
times are collected (so a zero division wins over the "Full" ValueError). -/
def targetTimes (nat : Nat → α) (fl : α → Int) (relTol duration dt : α)
    (dflt : Option (List α)) (observables : List (Option (List α))) : Except Err (List α) :=
  if isZero dt then .error .zeroDiv
  else if isZero duration && decide (0 ≤ fl (duration / dt)) then .error .zeroDiv
  else
    match uniqueObsTimes dflt observables with
    | .error e => .error e
    | .ok obs => targetTimesOf nat fl relTol duration dt obs

/-- `t_mid = 0.5 * (target_t[:-1] + target_t[1:])`: one row of Ω, δ, φ per mid-point. -/
def midpoints (half : α) (g : List α) : List α :=
  List.zipWith (fun a b => half * (a + b)) g g.tail

/-! ### `reps` expansion in `PulserData.get_sequences` -/

/-- `for samples in noisy_samples: … for _ in range(samples.reps): yield SequenceData(…)`. -/
def expandReps {σ τ : Type} (mk : σ → τ) (samples : List (σ × Nat)) : List τ :=
  samples.flatMap (fun s => List.replicate s.2 (mk s.1))

/-- `PulserData.__init__`: the noise model handed to `HamiltonianData.from_sequence` (the device's
default one iff `prefer_device_noise_model`) and the number of trajectories requested — always
`config.n_trajectories`, wherever the noise model came from. -/
def trajectoryRequest {ν : Type} (prefer : Bool) (deviceNoise configNoise : ν) (n : Nat) : ν × Nat :=
  (if prefer then deviceNoise else configNoise, n)

/-! ### evaluation-time tests (pulser `EmulationConfig`) -/

/-- `is_time_in_evaluation_times(t, evaluation_times, tol)`. -/
def inTimes (tol : α) (ts : List α) (t : α) : Bool :=
  decide (0 ≤ t) && decide (t ≤ 1) && ts.any (fun s => decide (absv (s - t) ≤ tol))

/-- `config.is_evaluation_time(t, tol)`: with `"Full"` every `t ∈ [0,1]` (outside, the `and` of
`is_time_in_evaluation_times` short-circuits before numpy sees the string: `False`). Never raises;
the `Except` type is kept for the callers' uniformity. -/
def isEvalTimeCfg (dflt : Option (List α)) (tol t : α) : Except Err Bool :=
  match dflt with
  | none => .ok (decide (0 ≤ t) && decide (t ≤ 1))
  | some ds => .ok (inTimes tol ds t)

/-- The test shared by the back-ends' `_is_evaluation_time` and by `Observable.__call__`: the
observable's own times if it has some, otherwise the config default. -/
def evalTest (tol : α) (dflt own : Option (List α)) (t : α) : Except Err Bool :=
  match own with
  | some ts => .ok (inTimes tol ts t)
  | none => isEvalTimeCfg dflt tol t

/-- `_is_evaluation_time(observable, t, tolerance=1e-10)` of both back-ends (since cd44121). -/
def pass1 (tol1 : α) (dflt own : Option (List α)) (t : α) : Except Err Bool :=
  evalTest tol1 dflt own t

/-- `_is_evaluation_time` as found before commit cd44121 (kept for the counterexample D20):
`is_observable_eval_time or is_default_eval_time`, both operands evaluated. -/
def pass1Old (tol1 : α) (dflt own : Option (List α)) (t : α) : Except Err Bool :=
  let o := match own with
    | some ts => inTimes tol1 ts t
    | none => false
  (isEvalTimeCfg dflt tol1 t).map (o || ·)

/-- `time_tol` of `Observable.__call__` (`half = 0.5`, `tiny = 1e-6`); `td = total_duration`. -/
def timeTol (nat : Nat → α) (half tiny : α) (td : Int) : α :=
  if td = 0 then tiny else if 0 < td then half / nat td.toNat else half / (-(nat td.natAbs))

/-- The test of `Observable.__call__`. -/
def pass2 (tol2 : α) (dflt own : Option (List α)) (t : α) : Except Err Bool :=
  evalTest tol2 dflt own t

/-- `Results._store_raw` on the list of times of one observable; the payload stored with the
time is the index of the grid point whose state `apply` was given. -/
def storeRaw (rec : List (α × Nat)) (t : α) (k : Nat) : Except Err (List (α × Nat)) :=
  if rec.any (fun r => eqv r.1 t) then .error .dupTime
  else
    match rec.getLast? with
    | none => .ok [(t, k)]
    | some l => if l.1 < t then .ok (rec ++ [(t, k)]) else .error .notSorted

/-- `Observable.__call__(config, t, state_k, H, results)`. -/
def callObs (tol2 : α) (dflt own : Option (List α)) (rec : List (α × Nat)) (t : α) (k : Nat) :
    Except Err (List (α × Nat)) :=
  match pass2 tol2 dflt own t with
  | .error e => .error e
  | .ok false => .ok rec
  | .ok true => storeRaw rec t k

/-- One observable at one visit of `_apply_observables` / `fill_results` (`old` = the
`_is_evaluation_time` found before cd44121). -/
def visitObs (old : Bool) (tol1 tol2 : α) (dflt own : Option (List α)) (rec : List (α × Nat)) (t : α)
    (k : Nat) : Except Err (List (α × Nat)) :=
  match (if old then pass1Old tol1 dflt own t else pass1 tol1 dflt own t) with
  | .error e => .error e
  | .ok false => .ok rec
  | .ok true => callObs tol2 dflt own rec t k

/-- The visits `k, k+1, …` at the fractional times `fr`. -/
def runFrom (old : Bool) (tol1 tol2 : α) (dflt own : Option (List α)) :
    Nat → List α → List (α × Nat) → Except Err (List (α × Nat))
  | _, [], rec => .ok rec
  | k, t :: ts, rec =>
    match visitObs old tol1 tol2 dflt own rec t k with
    | .error e => .error e
    | .ok rec' => runFrom old tol1 tol2 dflt own (k + 1) ts rec'

/-- The absolute times at which the back-end applies the observables: before the loop and after
each of the `nsteps` steps (`nsteps` = rows of Ω). emu-sv reads `target_times[k]`; emu-mps
starts from `current_time = 0.0` and then reads `target_times[k]`. `none` = IndexError. -/
def visitTimes (mps : Bool) (g : List α) (nsteps : Nat) : Option (List α) :=
  if g.length < nsteps + 1 ∨ g.length < 2 then none
  else
    let v := g.take (nsteps + 1)
    some (if mps then fixFirst 0 v else v)

/-- `norm_time = target_times[k] / target_times[-1]`. -/
def fractions (v : List α) (last : α) : List α := v.map (· / last)

/-- All records of one observable over a whole run of a back-end. -/
def runObs (old mps : Bool) (tol1 tol2 : α) (dflt own : Option (List α)) (g : List α) (nsteps : Nat) :
    Except Err (List (α × Nat)) :=
  match visitTimes mps g nsteps, g.getLast? with
  | some v, some last => runFrom old tol1 tol2 dflt own 0 (fractions v last) []
  | _, _ => .error .indexError

/-- `_validate_eval_times` (`eps = TIME_TOLERANCE = 1e-12`): in `[0,1]`, adjacent entries at
least `eps` apart, strictly ascending. -/
def validTimes (eps : α) : List α → Bool
  | [] => true
  | [a] => decide (0 ≤ a) && decide (a ≤ 1)
  | a :: b :: l =>
    decide (0 ≤ a) && decide (a ≤ 1) && !decide (absv (a - b) < eps) && decide (a < b)
      && validTimes eps (b :: l)

end EmuVerif.TimeGrid
