/-
  `TreeVec` — 2ⁿ-dimensional vectors as depth-`n` binary trees, 2×2 and block-recursive dense
  matrices (Mathlib-free, scalar-polymorphic, executable).

  Conventions (shared by every model that reuses this file: C06, C12, C13, C25, C29, C30):

  * `Vec β n`: `node a b` splits on **qubit 0 = the most significant bit** of the flat index
    (`a` = the half where qubit 0 is `g`/0, `b` = where it is `r`/1). `toList` is therefore the
    flat torch tensor, and descending `k` levels is what `.view(2**k, 2, -1)` does.
  * The entry type `β` is arbitrary: scalars for state vectors, `Vec κ n` (a row) for a
    2ⁿ×2ⁿ matrix stored row-major (`RMat κ n := Vec (Vec κ n) n`; `toList ∘ map toList` is
    the flat `(2ⁿ,2ⁿ)` tensor, and a depth-(n+k) `view` is "level k inside every row").
    Scalars `κ` act on entries through `SMul κ β` (core Lean's class; for `β = κ` the caller
    supplies multiplication).
  * `M2 κ` = 2×2 matrix `[[a, b], [c, d]]`. `Mat κ n` = block-recursive dense 2ⁿ×2ⁿ matrix
    `[[A00, A01], [A10, A11]]` (blocks split on qubit 0 of the row and of the column) — the
    form in which Kronecker products are structural (`kron2 m A = m ⊗ A`, `kronR A m = A ⊗ m`,
    `embed n k m = I⊗…⊗m⊗…⊗I`). `Mat.toRows`/`Mat.ofRows` convert to/from row-major.
-/
import EmuVerif.Model.Cx

namespace EmuVerif.TreeVec
open EmuVerif

/-- A vector with `2ⁿ` entries, split on the most significant index bit first. -/
inductive Vec (β : Type) : Nat → Type
  | leaf : β → Vec β 0
  | node {n : Nat} : Vec β n → Vec β n → Vec β (n + 1)
  deriving DecidableEq, Repr

namespace Vec
variable {β γ δ κ : Type}

def map (f : β → γ) : {n : Nat} → Vec β n → Vec γ n
  | _, leaf x => leaf (f x)
  | _, node a b => node (map f a) (map f b)

def zipWith (f : β → γ → δ) : {n : Nat} → Vec β n → Vec γ n → Vec δ n
  | _, leaf x, leaf y => leaf (f x y)
  | _, node a b, node c d => node (zipWith f a c) (zipWith f b d)

/-- the constant vector (`torch.zeros`/`full`) -/
def replicate : (n : Nat) → β → Vec β n
  | 0, x => leaf x
  | n + 1, x => node (replicate n x) (replicate n x)

/-- the flat tensor (`.view(-1)`), index 0 first -/
def toList : {n : Nat} → Vec β n → List β
  | _, leaf x => [x]
  | _, node a b => toList a ++ toList b

/-- inverse of `toList`; `none` unless the list has exactly `2ⁿ` entries -/
def ofList : (n : Nat) → List β → Option (Vec β n)
  | 0, [x] => some (leaf x)
  | 0, _ => none
  | n + 1, l =>
    match ofList n (l.take (2 ^ n)), ofList n (l.drop (2 ^ n)) with
    | some a, some b => some (node a b)
    | _, _ => none

/-- the half where qubit 0 is 0 / 1 -/
def left : Vec β (n + 1) → Vec β n
  | node a _ => a
def right : Vec β (n + 1) → Vec β n
  | node _ b => b

/-- entry at a flat index (`data[i]`); indices ≥ 2ⁿ are the caller's problem (`setIdx?` checks) -/
def getIdx : {n : Nat} → Vec β n → Nat → β
  | _, leaf x, _ => x
  | n + 1, node a b, i => if i < 2 ^ n then getIdx a i else getIdx b (i - 2 ^ n)

/-- `data[i] = x`; `none` = `IndexError` -/
def setIdx? : {n : Nat} → Vec β n → Nat → β → Option (Vec β n)
  | _, leaf _, i, x => if i = 0 then some (leaf x) else none
  | n + 1, node a b, i, x =>
    if i < 2 ^ n then (setIdx? a i x).map (fun a' => node a' b)
    else (setIdx? b (i - 2 ^ n) x).map (fun b' => node a b')

/-- entry addressed by the bit of every qubit (`p q = true` ⇔ qubit `q` is `r`/1) -/
def get : {n : Nat} → Vec β n → (Nat → Bool) → β
  | _, leaf x, _ => x
  | _, node a b, p => if p 0 then get b (fun q => p (q + 1)) else get a (fun q => p (q + 1))

/-- `v` with the entry at path `p` replaced -/
def set : {n : Nat} → Vec β n → (Nat → Bool) → β → Vec β n
  | _, leaf _, _, x => leaf x
  | _, node a b, p, x =>
    if p 0 then node a (set b (fun q => p (q + 1)) x) else node (set a (fun q => p (q + 1)) x) b

/-- flat index of a path: qubit 0 is the most significant of `n` bits -/
def bitIndex : (n : Nat) → (Nat → Bool) → Nat
  | 0, _ => 0
  | n + 1, p => (if p 0 then 2 ^ n else 0) + bitIndex n (fun q => p (q + 1))

/-- sum of all entries (no zero needed: a tree is never empty) -/
def sum [Add β] : {n : Nat} → Vec β n → β
  | _, leaf x => x
  | _, node a b => sum a + sum b

instance [Add β] : Add (Vec β n) := ⟨zipWith (· + ·)⟩
instance [Sub β] : Sub (Vec β n) := ⟨zipWith (· - ·)⟩
instance [Neg β] : Neg (Vec β n) := ⟨map (- ·)⟩
/-- scalar · tensor, entry-wise; nests (`κ` acts on rows of a row-major matrix) -/
instance [SMul κ β] : SMul κ (Vec β n) := ⟨fun c => map (c • ·)⟩

/-- `diag * vec` / `diag.view(-1,1) * rho`: entry `i` of the left factor scales entry `i` -/
def hmul [SMul κ β] (d : Vec κ n) (v : Vec β n) : Vec β n := zipWith (· • ·) d v

/-- `Σ_c w_c • y_c` (a row of a matrix times a vector of entries) -/
def dotG [Add β] [SMul κ β] : {n : Nat} → Vec κ n → Vec β n → β
  | _, leaf w, leaf y => w • y
  | _, node a b, node x y => dotG a x + dotG b y

/-- `torch.vdot(a, b) = Σ conj(a_i) b_i` -/
def vdot [Add κ] [Mul κ] [CxLike κ] : {n : Nat} → Vec κ n → Vec κ n → κ
  | _, leaf x, leaf y => CxLike.conj x * y
  | _, node a b, node c d => vdot a c + vdot b d

/-- transpose of a row-major `2ⁿ × 2ᵐ` array -/
def transpose : {n m : Nat} → Vec (Vec β m) n → Vec (Vec β n) m
  | _, _, leaf row => map leaf row
  | _, _, node t b => zipWith node (transpose t) (transpose b)

/-- `torch.outer(a, b)` row-major -/
def outer [Mul κ] (a : Vec κ n) (b : Vec κ m) : Vec (Vec κ m) n := a.map (fun x => b.map (fun y => x * y))

/-- main diagonal of a row-major square array -/
def diagonal : {n : Nat} → Vec (Vec β n) n → Vec β n
  | _, leaf (leaf x) => leaf x
  | _, node t b => node (diagonal (map left t)) (diagonal (map right b))

end Vec

/-- row-major dense `2ⁿ × 2ⁿ` matrix (what a torch `(2ⁿ,2ⁿ)` tensor is) -/
abbrev RMat (κ : Type) (n : Nat) := Vec (Vec κ n) n

/-! ### 2×2 matrices -/

/-- `[[a, b], [c, d]]` -/
structure M2 (κ : Type) where
  a : κ
  b : κ
  c : κ
  d : κ
  deriving DecidableEq, Repr

namespace M2
variable {κ : Type}

instance [Add κ] : Add (M2 κ) := ⟨fun x y => ⟨x.a + y.a, x.b + y.b, x.c + y.c, x.d + y.d⟩⟩
instance [Sub κ] : Sub (M2 κ) := ⟨fun x y => ⟨x.a - y.a, x.b - y.b, x.c - y.c, x.d - y.d⟩⟩
instance [Mul κ] : SMul κ (M2 κ) := ⟨fun s x => ⟨s * x.a, s * x.b, s * x.c, s * x.d⟩⟩
/-- matrix product -/
instance [Add κ] [Mul κ] : Mul (M2 κ) :=
  ⟨fun x y => ⟨x.a * y.a + x.b * y.c, x.a * y.b + x.b * y.d, x.c * y.a + x.d * y.c, x.c * y.b + x.d * y.d⟩⟩

def zero [OfNat κ 0] : M2 κ := ⟨0, 0, 0, 0⟩
def one [OfNat κ 0] [OfNat κ 1] : M2 κ := ⟨1, 0, 0, 1⟩
def map (f : κ → κ) (x : M2 κ) : M2 κ := ⟨f x.a, f x.b, f x.c, f x.d⟩
def transpose (x : M2 κ) : M2 κ := ⟨x.a, x.c, x.b, x.d⟩
/-- `.conj()` -/
def conj [CxLike κ] (x : M2 κ) : M2 κ := x.map CxLike.conj
/-- `.mH` -/
def dagger [CxLike κ] (x : M2 κ) : M2 κ := x.conj.transpose
/-- entry `[r, c]` -/
def get (x : M2 κ) (r c : Bool) : κ :=
  match r, c with
  | false, false => x.a
  | false, true => x.b
  | true, false => x.c
  | true, true => x.d

variable [OfNat κ 0] [OfNat κ 1]
/-- σˣ, σʸ, n = |r⟩⟨r| exactly as `lindblad_operator.py` defines them -/
def sigmaX : M2 κ := ⟨0, 1, 1, 0⟩
def sigmaY [Neg κ] [CxLike κ] : M2 κ := ⟨0, -CxLike.I, CxLike.I, 0⟩
def nOp : M2 κ := ⟨0, 0, 0, 1⟩
/-- the four basis operators of `_from_operator_repr`: "gg", "gr", "rg", "rr" (`|row⟩⟨col|`) -/
def ketbra (r c : Bool) : M2 κ :=
  ⟨if !r && !c then 1 else 0, if !r && c then 1 else 0, if r && !c then 1 else 0, if r && c then 1 else 0⟩

end M2

/-! ### block-recursive dense matrices -/

/-- `[[A00, A01], [A10, A11]]`, blocks split on qubit 0. -/
inductive Mat (κ : Type) : Nat → Type
  | leaf : κ → Mat κ 0
  | node {n : Nat} : Mat κ n → Mat κ n → Mat κ n → Mat κ n → Mat κ (n + 1)
  deriving DecidableEq, Repr

namespace Mat
variable {κ β : Type}

def map (f : κ → κ) : {n : Nat} → Mat κ n → Mat κ n
  | _, leaf x => leaf (f x)
  | _, node a b c d => node (map f a) (map f b) (map f c) (map f d)

def zipWith (f : κ → κ → κ) : {n : Nat} → Mat κ n → Mat κ n → Mat κ n
  | _, leaf x, leaf y => leaf (f x y)
  | _, node a b c d, node a' b' c' d' => node (zipWith f a a') (zipWith f b b') (zipWith f c c') (zipWith f d d')

def zero [OfNat κ 0] : (n : Nat) → Mat κ n
  | 0 => leaf 0
  | n + 1 => node (zero n) (zero n) (zero n) (zero n)

/-- identity -/
def one [OfNat κ 0] [OfNat κ 1] : (n : Nat) → Mat κ n
  | 0 => leaf 1
  | n + 1 => node (one n) (zero n) (zero n) (one n)

instance [Add κ] : Add (Mat κ n) := ⟨zipWith (· + ·)⟩
instance [Sub κ] : Sub (Mat κ n) := ⟨zipWith (· - ·)⟩
instance [Neg κ] : Neg (Mat κ n) := ⟨map (- ·)⟩
instance [Mul κ] : SMul κ (Mat κ n) := ⟨fun s => map (s * ·)⟩

/-- matrix product -/
def mul [Add κ] [Mul κ] : {n : Nat} → Mat κ n → Mat κ n → Mat κ n
  | _, leaf x, leaf y => leaf (x * y)
  | _, node a b c d, node a' b' c' d' =>
    node (mul a a' + mul b c') (mul a b' + mul b d') (mul c a' + mul d c') (mul c b' + mul d d')
instance [Add κ] [Mul κ] : Mul (Mat κ n) := ⟨mul⟩

/-- matrix · vector of entries (`β = κ`: state vector; `β = Vec κ n`: row-major matrix) -/
def mulVec [Add β] [SMul κ β] : {n : Nat} → Mat κ n → Vec β n → Vec β n
  | _, leaf a, .leaf x => .leaf (a • x)
  | _, node a b c d, .node x y => .node (mulVec a x + mulVec b y) (mulVec c x + mulVec d y)

def transpose : {n : Nat} → Mat κ n → Mat κ n
  | _, leaf x => leaf x
  | _, node a b c d => node (transpose a) (transpose c) (transpose b) (transpose d)

def conj [CxLike κ] (A : Mat κ n) : Mat κ n := A.map CxLike.conj
/-- conjugate transpose -/
def dagger [CxLike κ] (A : Mat κ n) : Mat κ n := A.conj.transpose

/-- diagonal matrix of a vector -/
def diag [OfNat κ 0] : {n : Nat} → Vec κ n → Mat κ n
  | _, .leaf x => leaf x
  | n + 1, .node a b => node (diag a) (zero n) (zero n) (diag b)

/-- `m ⊗ A` -/
def kron2 [Mul κ] (m : M2 κ) (A : Mat κ n) : Mat κ (n + 1) := node (m.a • A) (m.b • A) (m.c • A) (m.d • A)

/-- `A ⊗ m` (one step of `reduce(torch.kron, …)`) -/
def kronR [Mul κ] : {n : Nat} → Mat κ n → M2 κ → Mat κ (n + 1)
  | _, leaf x, m => node (leaf (x * m.a)) (leaf (x * m.b)) (leaf (x * m.c)) (leaf (x * m.d))
  | _, node a b c d, m => node (kronR a m) (kronR b m) (kronR c m) (kronR d m)

/-- `I ⊗ … ⊗ m ⊗ … ⊗ I` with `m` on qubit `k` of `n` (identity if `k ≥ n`) -/
def embed [Mul κ] [OfNat κ 0] [OfNat κ 1] : (n k : Nat) → M2 κ → Mat κ n
  | 0, _, _ => leaf 1
  | n + 1, 0, m => kron2 m (one n)
  | n + 1, k + 1, m => node (embed n k m) (zero n) (zero n) (embed n k m)

/-- entry addressed by row / column qubit bits -/
def get : {n : Nat} → Mat κ n → (Nat → Bool) → (Nat → Bool) → κ
  | _, leaf x, _, _ => x
  | _, node a b c d, r, s =>
    let r' := fun q => r (q + 1)
    let s' := fun q => s (q + 1)
    match r 0, s 0 with
    | false, false => get a r' s'
    | false, true => get b r' s'
    | true, false => get c r' s'
    | true, true => get d r' s'

/-- row-major form (the torch tensor) -/
def toRows : {n : Nat} → Mat κ n → RMat κ n
  | _, leaf x => .leaf (.leaf x)
  | _, node a b c d =>
    .node (Vec.zipWith Vec.node (toRows a) (toRows b)) (Vec.zipWith Vec.node (toRows c) (toRows d))

/-- inverse of `toRows` -/
def ofRows : {n : Nat} → RMat κ n → Mat κ n
  | 0, .leaf (.leaf x) => leaf x
  | _ + 1, .node t b =>
    node (ofRows (t.map Vec.left)) (ofRows (t.map Vec.right)) (ofRows (b.map Vec.left)) (ofRows (b.map Vec.right))

/-- trace -/
def trace [Add κ] : {n : Nat} → Mat κ n → κ
  | _, leaf x => x
  | _, node a _ _ d => trace a + trace d

end Mat

/-! ### matrix-free application of a 2×2 operator on one qubit -/

/-- `local_op @ x.view(2**k, 2, -1)`: the 2×2 matrix `m` applied on qubit `k` (the CPU path;
torch broadcasts the `(2,2)` matrix over the leading batch axis). `k ≥ n` cannot be viewed
(torch raises) — the typed model returns the input unchanged and drivers reject it first. -/
def applyAt {κ β : Type} [Add β] [SMul κ β] : {n : Nat} → Nat → M2 κ → Vec β n → Vec β n
  | _, _, _, .leaf x => .leaf x
  | _, 0, m, .node a b => .node (m.a • a + m.b • b) (m.c • a + m.d • b)
  | _, k + 1, m, .node a b => .node (applyAt k m a) (applyAt k m b)

/-- `result.view(2**k,2,-1).index_add_(1, dst, src_vec.view(2**k,2,-1)[:, src, :].unsqueeze(1),
alpha=c)`: `result[:, dst, :] += c * vec[:, src, :]`. -/
def indexAddAt {κ β : Type} [Add β] [SMul κ β] : {n : Nat} → Nat → Bool → Bool → κ → Vec β n → Vec β n → Vec β n
  | _, _, _, _, _, _, .leaf r => .leaf r
  | _, 0, dst, src, c, .node v0 v1, .node r0 r1 =>
    let s := if src then v1 else v0
    if dst then .node r0 (r1 + c • s) else .node (r0 + c • s) r1
  | _, k + 1, dst, src, c, .node v0 v1, .node r0 r1 =>
    .node (indexAddAt k dst src c v0 r0) (indexAddAt k dst src c v1 r1)

/-- `f` applied to the sub-tensor `x.view(2**k, 2, -1)[:, 1, :]` in place (the half where qubit
`k` is excited). `f` must work at every depth, like a torch in-place op on a view. -/
def mapAt1 {β : Type} (f : ∀ m, Vec β m → Vec β m) : {n : Nat} → Nat → Vec β n → Vec β n
  | _, _, .leaf x => .leaf x
  | _, 0, .node a b => .node a (f _ b)
  | _, k + 1, .node a b => .node (mapAt1 f k a) (mapAt1 f k b)

end EmuVerif.TreeVec
