/- Helper lemmas for `Props/C34.lean` about `Model.Aggregate`. -/
import EmuVerif.Model.Aggregate
import Mathlib.Algebra.BigOperators.Group.List.Basic
import Mathlib.Tactic.Ring

namespace EmuVerif.Aggregate

/-! ### reps expansion -/

theorem expand_cons {σ : Type} (s : σ) (r : Int) (rest : List (σ × Int)) :
    expand ((s, r) :: rest) = List.replicate r.toNat s ++ expand rest := by
  simp [expand]

theorem expand_eq_flatMap {σ : Type} (l : List (σ × Int)) :
    expand l = l.flatMap (fun p => List.replicate p.2.toNat p.1) := by
  induction l with
  | nil => simp [expand]
  | cons p rest ih => obtain ⟨s, r⟩ := p; simp [expand_cons, ih]

theorem expand_length {σ : Type} (l : List (σ × Int)) :
    (expand l).length = (l.map (fun p => p.2.toNat)).sum := by
  induction l with
  | nil => simp [expand]
  | cons p rest ih => obtain ⟨s, r⟩ := p; simp [expand_cons, ih]

theorem expand_append {σ : Type} (a b : List (σ × Int)) :
    expand (a ++ b) = expand a ++ expand b := by
  simp [expand_eq_flatMap]

theorem expand_map {σ τ : Type} (f : σ → τ) (l : List (σ × Int)) :
    (expand l).map f = expand (l.map (fun p => (f p.1, p.2))) := by
  induction l with
  | nil => simp [expand]
  | cons p rest ih => obtain ⟨s, r⟩ := p; simp [expand_cons, ih]

/-- A sum over the expanded list weights every entry by its `reps`. -/
theorem sum_expand {σ M : Type} [AddCommMonoid M] (f : σ → M) (l : List (σ × Int)) :
    ((expand l).map f).sum = (l.map (fun p => p.2.toNat • f p.1)).sum := by
  induction l with
  | nil => simp [expand]
  | cons p rest ih => obtain ⟨s, r⟩ := p; simp [expand_cons, ih, List.sum_replicate]

/-! ### the run loop -/

/-- What the loop computes, as a structural recursion: the state is threaded through. -/
def runSpec {S σ ρ : Type} (run : S → σ → ρ × S) : S → List σ → List ρ
  | _, [] => []
  | st, sd :: rest => (run st sd).1 :: runSpec run (run st sd).2 rest

/-- State seen by the `k`-th call. -/
def stateAt {S σ ρ : Type} (run : S → σ → ρ × S) : S → List σ → Nat → S
  | st, [], _ => st
  | st, _ :: _, 0 => st
  | st, sd :: rest, k + 1 => stateAt run (run st sd).2 rest k

theorem runLoop_fst {S σ ρ : Type} (run : S → σ → ρ × S) (st : S) (seqs : List σ) (acc : List ρ) :
    (runLoop run st seqs acc).1 = acc ++ runSpec run st seqs := by
  induction seqs generalizing st acc with
  | nil => simp [runLoop, runSpec]
  | cons sd rest ih => simp [runLoop, runSpec, ih]

theorem runSpec_length {S σ ρ : Type} (run : S → σ → ρ × S) (st : S) (seqs : List σ) :
    (runSpec run st seqs).length = seqs.length := by
  induction seqs generalizing st with
  | nil => simp [runSpec]
  | cons sd rest ih => simp [runSpec, ih]

theorem runSpec_getElem {S σ ρ : Type} (run : S → σ → ρ × S) (st : S) (seqs : List σ) (k : Nat)
    (hk : k < seqs.length) :
    (runSpec run st seqs)[k]'(by rw [runSpec_length]; exact hk)
      = (run (stateAt run st seqs k) seqs[k]).1 := by
  induction seqs generalizing st k with
  | nil => simp at hk
  | cons sd rest ih =>
    cases k with
    | zero => simp [runSpec, stateAt]
    | succ k =>
      simp only [runSpec, stateAt, List.getElem_cons_succ]
      exact ih _ k (by simpa using hk)

theorem runSpec_stateless {S σ ρ : Type} (f : σ → ρ) (st : S) (seqs : List σ) :
    runSpec (fun st sd => (f sd, st)) st seqs = seqs.map f := by
  induction seqs with
  | nil => simp [runSpec]
  | cons sd rest ih => simp [runSpec, ih]

/-- If no simulation changes the shared state (e.g. the configured initial state), every result is
the simulation of its own item from that same state: the trajectories are independent. -/
theorem runSpec_preserving {S σ ρ : Type} (run : S → σ → ρ × S) (st : S) (seqs : List σ)
    (h : ∀ sd ∈ seqs, (run st sd).2 = st) :
    runSpec run st seqs = seqs.map (fun sd => (run st sd).1) := by
  induction seqs with
  | nil => simp [runSpec]
  | cons sd rest ih =>
    simp only [runSpec, List.map_cons]
    rw [h sd (List.mem_cons_self ..), ih (fun x hx => h x (List.mem_cons_of_mem _ hx))]

/-! ### counters -/

theorem total_bump (c : Counter) (k : String) (v : Nat) :
    Counter.total (Counter.bump c k v) = Counter.total c + v := by
  induction c with
  | nil => simp [Counter.bump, Counter.total]
  | cons kv rest ih =>
    obtain ⟨k', v'⟩ := kv
    unfold Counter.bump
    by_cases h : k' = k
    · simp [h, Counter.total]; ring
    · simp only [h, if_false]
      simp only [Counter.total, List.map_cons, List.sum_cons] at ih ⊢
      rw [ih]; ring

theorem get_bump (c : Counter) (k : String) (v : Nat) (q : String) :
    Counter.get (Counter.bump c k v) q = Counter.get c q + (if k = q then v else 0) := by
  induction c with
  | nil =>
    by_cases h : k = q
    · simp [Counter.bump, Counter.get, List.lookup, h]
    · have h' : (q == k) = false := by simpa using fun e => h e.symm
      simp [Counter.bump, Counter.get, List.lookup, h, h']
  | cons kv rest ih =>
    obtain ⟨k', v'⟩ := kv
    unfold Counter.bump
    by_cases h : k' = k
    · subst h
      by_cases hq : k' = q
      · subst hq; simp [Counter.get, List.lookup]
      · have h' : (q == k') = false := by simpa using fun e => hq e.symm
        simp [Counter.get, List.lookup, hq, h']
    · simp only [h, if_false]
      by_cases hq : q = k'
      · subst hq
        have : ¬ k = q := fun e => h e.symm
        simp [Counter.get, List.lookup, this]
      · have h' : (q == k') = false := by simpa using hq
        simp only [Counter.get, List.lookup, h'] at ih ⊢
        exact ih

theorem total_foldl_bump (b a : Counter) :
    Counter.total (b.foldl (fun acc kv => Counter.bump acc kv.1 kv.2) a)
      = Counter.total a + Counter.total b := by
  induction b generalizing a with
  | nil => simp [Counter.total]
  | cons kv rest ih =>
    simp only [List.foldl_cons]
    rw [ih, total_bump]
    simp [Counter.total]; ring

theorem total_add (a b : Counter) :
    Counter.total (Counter.add a b) = Counter.total a + Counter.total b :=
  total_foldl_bump b a

theorem get_add (a b : Counter) (q : String) :
    Counter.get (Counter.add a b) q = Counter.get a q + ((b.filter (·.1 = q)).map (·.2)).sum := by
  unfold Counter.add
  induction b generalizing a with
  | nil => simp
  | cons kv rest ih =>
    simp only [List.foldl_cons]
    rw [ih, get_bump]
    by_cases h : kv.1 = q
    · simp [h]; ring
    · simp [h]

theorem total_foldl_add (cs : List Counter) (a : Counter) :
    Counter.total (cs.foldl Counter.add a) = Counter.total a + (cs.map Counter.total).sum := by
  induction cs generalizing a with
  | nil => simp
  | cons c rest ih => simp only [List.foldl_cons, List.map_cons, List.sum_cons]; rw [ih, total_add]; ring

theorem total_bagUnion (cs : List Counter) :
    Counter.total (bagUnion cs) = (cs.map Counter.total).sum := by
  unfold bagUnion; rw [total_foldl_add]; simp [Counter.total]

/-- How often `q` was counted in `c` (for a `Counter` with distinct keys this is `c[q]`). -/
def Counter.count (c : Counter) (q : String) : Nat := ((c.filter (·.1 = q)).map (·.2)).sum

theorem get_foldl_add (cs : List Counter) (a : Counter) (q : String) :
    Counter.get (cs.foldl Counter.add a) q = Counter.get a q + (cs.map (Counter.count · q)).sum := by
  induction cs generalizing a with
  | nil => simp
  | cons c rest ih =>
    simp only [List.foldl_cons, List.map_cons, List.sum_cons]
    rw [ih, get_add]; simp only [Counter.count]; ring

theorem get_bagUnion (cs : List Counter) (q : String) :
    Counter.get (bagUnion cs) q = (cs.map (Counter.count · q)).sum := by
  unfold bagUnion; rw [get_foldl_add]; simp [Counter.get, List.lookup]

end EmuVerif.Aggregate
