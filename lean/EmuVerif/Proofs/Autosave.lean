/-
  Helper lemmas about `Model.Autosave` (file operations, the run loop, monadic iteration).
  Core Lean only (no Mathlib needed for this bookkeeping).
-/
import EmuVerif.Model.Autosave

namespace EmuVerif.Autosave

variable {σ ρ : Type}

/-! ### `save_simulation` (current code) -/

/-- Directory after a completed `save_simulation`. -/
def savedFS (fs : FS σ) (w : σ) : FS σ := ⟨.complete w, .absent, fs.bak⟩

theorem runOps_saveNew (fs : FS σ) (w : σ) : runOps fs (saveNew w) = savedFS fs w := by
  simp [saveNew, runOps, applyOp, FS.set, FS.get, move, savedFS]

theorem runOps_append_saveNew (fs : FS σ) (w : σ) (rest : List (Op σ)) :
    runOps fs (saveNew w ++ rest) = runOps (savedFS fs w) rest := by
  simp [saveNew, runOps, applyOp, FS.set, FS.get, move, savedFS]

/-- The crash states of one `save_simulation`: before `open`, after `open`, inside the write, after the
(buffered) write, after the close, after the replace. -/
theorem crashStates_saveNew (fs : FS σ) (w : σ) :
    crashStates fs (saveNew w) =
      [fs, fs.set .new .part, fs.set .new .part, fs.set .new .part, fs.set .new (.complete w),
        savedFS fs w] := by
  simp [saveNew, crashStates, midStates, applyOp, FS.set, FS.get, move, savedFS]

theorem afterSaves_snoc (fs : FS σ) (vs : List σ) (v : σ) :
    afterSaves fs (vs ++ [v]) = savedFS (afterSaves fs vs) v := by
  simp [afterSaves, List.foldl_append, runOps_saveNew]

theorem afterSaves_snoc_base (fs : FS σ) (vs : List σ) (v : σ) :
    (afterSaves fs (vs ++ [v])).base = .complete v := by
  rw [afterSaves_snoc]; rfl

theorem load_of_base {fs : FS σ} {v : σ} (h : fs.base = .complete v) : load fs = some v := by
  simp [load, h]

/-! ### The loop -/

theorem iter_add (f : σ → σ) (m n : Nat) (s : σ) : iter f (m + n) s = iter f n (iter f m s) := by
  induction m generalizing s with
  | zero => simp [iter]
  | succ m ih => rw [Nat.succ_add]; simp only [iter]; exact ih (f s)

theorem iter_succ' (f : σ → σ) (n : Nat) (s : σ) : iter f (n + 1) s = f (iter f n s) := by
  rw [iter_add]; rfl

/-- If the first finished iterate is the `n`-th, the loop returns it (given `n` units of fuel). -/
theorem loop_eq_of_first (M : Machine σ ρ) (n : Nat) :
    ∀ (s : σ) (fuel : Nat), n ≤ fuel →
      (∀ k, k < n → M.finished (iter M.progress k s) = false) →
      M.finished (iter M.progress n s) = true →
      loop M fuel s = some (iter M.progress n s) := by
  induction n with
  | zero =>
    intro s fuel _ _ hfin
    cases fuel <;> simp [loop, iter] at * <;> simp [hfin]
  | succ n ih =>
    intro s fuel hfuel hmin hfin
    have h0 : M.finished s = false := by simpa [iter] using hmin 0 (Nat.succ_pos n)
    cases fuel with
    | zero => omega
    | succ fuel =>
      simp only [loop, h0, iter]
      apply ih (M.progress s) fuel (by omega)
      · intro k hk; simpa [iter] using hmin (k + 1) (by omega)
      · simpa [iter] using hfin

/-- Conversely a returning loop returns the first finished iterate. -/
theorem loop_some (M : Machine σ ρ) :
    ∀ (fuel : Nat) (s sf : σ), loop M fuel s = some sf →
      ∃ n, n ≤ fuel ∧ sf = iter M.progress n s ∧ M.finished sf = true ∧
        ∀ k, k < n → M.finished (iter M.progress k s) = false := by
  intro fuel
  induction fuel with
  | zero =>
    intro s sf h
    by_cases hf : M.finished s = true
    · simp [loop, hf] at h; subst h; exact ⟨0, Nat.le_refl _, rfl, hf, by intro k hk; omega⟩
    · simp [loop, hf] at h
  | succ fuel ih =>
    intro s sf h
    by_cases hf : M.finished s = true
    · simp [loop, hf] at h; subst h; exact ⟨0, Nat.zero_le _, rfl, hf, by intro k hk; omega⟩
    · simp only [loop, hf] at h
      obtain ⟨n, hn, he, hfin, hmin⟩ := ih (M.progress s) sf (by simpa using h)
      refine ⟨n + 1, by omega, by simpa [iter] using he, hfin, ?_⟩
      intro k hk
      cases k with
      | zero => simpa [iter] using hf
      | succ k => simpa [iter] using hmin k (by omega)

/-- Restarting the loop from the `m`-th iterate (`m ≤ n`) reaches the same final state. -/
theorem loop_from_iterate (M : Machine σ ρ) (s0 : σ) (n m fuel : Nat) (hm : m ≤ n)
    (hfuel : n - m ≤ fuel)
    (hmin : ∀ k, k < n → M.finished (iter M.progress k s0) = false)
    (hfin : M.finished (iter M.progress n s0) = true) :
    loop M fuel (iter M.progress m s0) = some (iter M.progress n s0) := by
  have hsplit : iter M.progress n s0 = iter M.progress (n - m) (iter M.progress m s0) := by
    rw [← iter_add]; congr 1; omega
  rw [hsplit]
  apply loop_eq_of_first M (n - m) _ fuel hfuel
  · intro k hk
    rw [← iter_add]; exact hmin (m + k) (by omega)
  · rw [← hsplit]; exact hfin

/-! ### The loop with clock and directory -/

theorem runTrace_loop (M : Machine σ ρ) (dt : Int) :
    ∀ (clock : List Int) (p : Proc σ) (s : σ) (ops : List (Op σ)),
      runTrace M dt clock p = some (s, ops) → loop M clock.length p.st = some s := by
  intro clock
  induction clock with
  | nil =>
    intro p s ops h
    by_cases hf : M.finished p.st = true <;> simp [runTrace, hf] at h
    obtain ⟨rfl, rfl⟩ := h
    simp [loop, hf]
  | cons now clock ih =>
    intro p s ops h
    by_cases hf : M.finished p.st = true
    · simp [runTrace, hf] at h
      obtain ⟨rfl, rfl⟩ := h
      simp [loop, hf]
    · simp only [runTrace, hf] at h
      simp only [List.length_cons, loop, hf]
      cases hr : runTrace M dt clock (progressW M dt now p).1 with
      | none => simp [hr] at h
      | some r =>
        obtain ⟨s', rest⟩ := r
        simp [hr] at h
        have := ih _ s' rest hr
        have hst : (progressW M dt now p).1.st = M.progress p.st := by
          unfold progressW; split <;> rfl
        rw [hst] at this
        simpa [h.1] using this

/-- A list of operations is a concatenation of complete `save_simulation`s of iterates
`iter progress m s` with `1 ≤ m ≤ n`. -/
def SavesOf (M : Machine σ ρ) (s : σ) (n : Nat) (ops : List (Op σ)) : Prop :=
  ∃ ms : List Nat, (∀ m ∈ ms, 1 ≤ m ∧ m ≤ n) ∧
    ops = (ms.map (fun m => saveNew (iter M.progress m s))).flatten

theorem runTrace_saves (M : Machine σ ρ) (dt : Int) :
    ∀ (clock : List Int) (p : Proc σ) (s : σ) (ops : List (Op σ)),
      runTrace M dt clock p = some (s, ops) →
      ∃ n, s = iter M.progress n p.st ∧ SavesOf M p.st n ops := by
  intro clock
  induction clock with
  | nil =>
    intro p s ops h
    by_cases hf : M.finished p.st = true <;> simp [runTrace, hf] at h
    exact ⟨0, by simp [iter, h.1], [], by simp, by simp [h.2]⟩
  | cons now clock ih =>
    intro p s ops h
    by_cases hf : M.finished p.st = true
    · simp [runTrace, hf] at h
      exact ⟨0, by simp [iter, h.1], [], by simp, by simp [h.2]⟩
    · simp only [runTrace, hf] at h
      cases hr : runTrace M dt clock (progressW M dt now p).1 with
      | none => simp [hr] at h
      | some r =>
        obtain ⟨s', rest⟩ := r
        simp [hr] at h
        obtain ⟨n, hs, ms, hms, hrest⟩ := ih _ s' rest hr
        have hst : (progressW M dt now p).1.st = M.progress p.st := by
          unfold progressW; split <;> rfl
        rw [hst] at hs hrest
        refine ⟨n + 1, by rw [← h.1, hs]; rfl, ?_⟩
        have hshift : (ms.map (fun m => saveNew (iter M.progress m (M.progress p.st)))) =
            ((ms.map (· + 1)).map (fun m => saveNew (iter M.progress m p.st))) := by
          simp [List.map_map, Function.comp_def, iter]
        by_cases hd : saveDue p.last now dt = true
        · refine ⟨1 :: ms.map (· + 1), ?_, ?_⟩
          · intro m hm
            simp at hm
            rcases hm with rfl | ⟨a, ha, rfl⟩
            · omega
            · have := hms a ha; omega
          · rw [← h.2, hrest, hshift]
            simp [progressW, hd, iter]
        · refine ⟨ms.map (· + 1), ?_, ?_⟩
          · intro m hm
            simp at hm
            obtain ⟨a, ha, rfl⟩ := hm
            have := hms a ha; omega
          · rw [← h.2, hrest, hshift]
            simp [progressW, hd]

theorem runOps_finalOps_base (fs : FS σ) : (runOps fs (finalOps fs)).base = .absent := by
  obtain ⟨b, n, k⟩ := fs
  cases b <;> simp [finalOps, FileSt.present, runOps, applyOp, FS.get, FS.set]

/-! ### Monadic iteration (RNG tapes, laws) -/

theorem iterM_add {m : Type → Type} [Monad m] [LawfulMonad m] (f : σ → m σ) (a b : Nat) (s : σ) :
    iterM f (a + b) s = iterM f a s >>= iterM f b := by
  induction a generalizing s with
  | zero => simp [iterM]
  | succ a ih =>
    rw [Nat.succ_add]
    simp only [iterM, bind_assoc]
    congr 1
    funext x
    exact ih x

end EmuVerif.Autosave
