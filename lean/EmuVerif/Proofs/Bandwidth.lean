/- Helper lemmas about `Model.Bandwidth` over an arbitrary linear ordered field. -/
import EmuVerif.Model.Bandwidth
import EmuVerif.Proofs.Perm
import EmuVerif.Proofs.Scalar

set_option linter.unusedSectionVars false

namespace EmuVerif.Bandwidth
open EmuVerif EmuVerif.Perm

variable {α : Type} [Field α] [LinearOrder α] [IsStrictOrderedRing α]

/-! ### `torch.max` -/

theorem foldl_pmax_spec : ∀ (xs : List α) (x : α),
    (xs.foldl pmax x ∈ x :: xs) ∧ ∀ y ∈ x :: xs, y ≤ xs.foldl pmax x
  | [], x => by simp
  | z :: xs, x => by
    obtain ⟨hm, hub⟩ := foldl_pmax_spec xs (pmax x z)
    rw [List.foldl_cons]
    have hx : x ≤ pmax x z := by rw [pmax_eq_max]; exact le_max_left _ _
    have hz : z ≤ pmax x z := by rw [pmax_eq_max]; exact le_max_right _ _
    have hp : pmax x z = x ∨ pmax x z = z := by
      rw [pmax_eq_max]; exact max_choice x z
    refine ⟨?_, ?_⟩
    · rcases List.mem_cons.mp hm with e | hm'
      · rw [e]
        rcases hp with e' | e' <;> simp [e']
      · simp [hm']
    · intro y hy
      rcases List.mem_cons.mp hy with e | hy'
      · rw [e]; exact le_trans hx (hub _ List.mem_cons_self)
      · rcases List.mem_cons.mp hy' with e | hy''
        · rw [e]; exact le_trans hz (hub _ List.mem_cons_self)
        · exact hub y (List.mem_cons_of_mem _ hy'')

/-- `maxOf` returns the maximum: an element that bounds all the others. -/
theorem maxOf_eq_some_iff {l : List α} {b : α} :
    maxOf l = some b ↔ b ∈ l ∧ ∀ x ∈ l, x ≤ b := by
  cases l with
  | nil => simp [maxOf]
  | cons x xs =>
    obtain ⟨hm, hub⟩ := foldl_pmax_spec xs x
    simp only [maxOf, Option.some.injEq]
    constructor
    · rintro rfl; exact ⟨hm, hub⟩
    · rintro ⟨hb, hbub⟩
      exact le_antisymm (hbub _ hm) (hub _ hb)

theorem maxOf_eq_none_iff {l : List α} : maxOf l = none ↔ l = [] := by
  cases l <;> simp [maxOf]

/-! ### `matrix_bandwidth` -/

theorem weight_eq (i j : Nat) (m : α) : weight i j m = |m * (((j : ℤ) - (i : ℤ) : ℤ) : α)| := by
  simp [weight, absv_eq_abs]

theorem mem_weightRow {i : Nat} {row : List α} {w : α} :
    w ∈ weightRow i row ↔ ∃ j m, row[j]? = some m ∧ w = weight i j m := by
  simp only [weightRow, List.mem_map, Prod.exists, List.mem_zipIdx_iff_getElem?]
  constructor
  · rintro ⟨m, j, h, rfl⟩; exact ⟨j, m, h, rfl⟩
  · rintro ⟨j, m, h, rfl⟩; exact ⟨m, j, h, rfl⟩

/-- The entries of `abs(mat * (j_arr - i_arr))` are exactly the `|M[i][j]·(j−i)|`. -/
theorem mem_weights {m : Mat α} {w : α} :
    w ∈ weights m ↔ ∃ i j x, (m[i]?.bind (fun row => row[j]?)) = some x ∧ w = weight i j x := by
  simp only [weights, List.mem_flatten, List.mem_map, Prod.exists, List.mem_zipIdx_iff_getElem?]
  constructor
  · rintro ⟨l, ⟨row, i, hrow, rfl⟩, hw⟩
    obtain ⟨j, x, hx, rfl⟩ := mem_weightRow.mp hw
    exact ⟨i, j, x, by simp [hrow, hx], rfl⟩
  · rintro ⟨i, j, x, hx, rfl⟩
    cases hrow : m[i]? with
    | none => simp [hrow] at hx
    | some row =>
      simp only [hrow, Option.bind_some] at hx
      exact ⟨weightRow i row, ⟨row, i, hrow, rfl⟩, mem_weightRow.mpr ⟨j, x, hx, rfl⟩⟩

theorem weight_abs (i j : Nat) (x : α) : weight i j (absv x) = weight i j x := by
  simp [weight_eq, absv_eq_abs, abs_mul]

theorem weights_absMat (m : Mat α) : weights (absMat m) = weights m := by
  unfold weights absMat
  rw [List.zipIdx_map, List.map_map]
  congr 1
  apply List.map_congr_left
  intro ri _
  simp only [Function.comp, Prod.map, id, weightRow]
  rw [List.zipIdx_map, List.map_map]
  apply List.map_congr_left
  intro mj _
  simp [weight_abs]

/-- The sign of the interactions does not matter: `matrix_bandwidth(|M|) = matrix_bandwidth(M)`. -/
theorem matrixBandwidth_absMat (m : Mat α) : matrixBandwidth (absMat m) = matrixBandwidth m := by
  simp [matrixBandwidth, weights_absMat]

theorem IsSquareN.absMat {n : Nat} {m : Mat α} (h : IsSquareN n m) : IsSquareN n (absMat m) := by
  refine ⟨by simp [Bandwidth.absMat, h.1], ?_⟩
  intro row hrow
  simp only [Bandwidth.absMat, List.mem_map] at hrow
  obtain ⟨r, hr, rfl⟩ := hrow
  simp [h.2 r hr]

theorem bwOf_range {n : Nat} {m : Mat α} (h : IsSquareN n m) :
    bwOf m (List.range n) = matrixBandwidth m := by
  simp [bwOf, permuteMatT_range h]

/-! ### `min(…, key=…)` over the thresholds -/

theorem scanMin_spec (m : Mat α) : ∀ (cs : List (List Nat)) (b : List Nat) (kb : α)
    (r : List Nat × α), scanMin m b kb cs = .ok r → bwOf m b = some kb →
    bwOf m r.1 = some r.2 ∧ r.2 ≤ kb ∧ (r.1 = b ∨ r.1 ∈ cs)
  | [], b, kb, r, h, hb => by
    simp only [scanMin, Except.ok.injEq] at h
    subst h
    exact ⟨hb, le_refl _, Or.inl rfl⟩
  | c :: cs, b, kb, r, h, hb => by
    unfold scanMin at h
    cases hk : bwOf m c with
    | none => simp [hk] at h
    | some k =>
      simp only [hk] at h
      by_cases hlt : k < kb
      · simp only [hlt, if_true] at h
        obtain ⟨h1, h2, h3⟩ := scanMin_spec m cs c k r h hk
        refine ⟨h1, le_trans h2 (le_of_lt hlt), ?_⟩
        rcases h3 with e | hm
        · exact Or.inr (by simp [e])
        · exact Or.inr (by simp [hm])
      · simp only [hlt, if_false] at h
        obtain ⟨h1, h2, h3⟩ := scanMin_spec m cs b kb r h hb
        refine ⟨h1, h2, ?_⟩
        rcases h3 with e | hm
        · exact Or.inl e
        · exact Or.inr (by simp [hm])

/-- `minimize_bandwidth_global` returns one of the oracle's candidates, with its bandwidth. -/
theorem globalStep_spec {m : Mat α} {cands : List (List Nat)} {r : List Nat × α}
    (h : globalStep m cands = .ok r) : r.1 ∈ cands ∧ bwOf m r.1 = some r.2 := by
  cases cands with
  | nil => simp [globalStep] at h
  | cons c cs =>
    unfold globalStep at h
    cases hk : bwOf m c with
    | none => simp [hk] at h
    | some k =>
      simp only [hk] at h
      obtain ⟨h1, _, h3⟩ := scanMin_spec m cs c k r h hk
      refine ⟨?_, h1⟩
      rcases h3 with e | hm
      · simp [e]
      · simp [hm]

theorem takeChunk_spec {n k : Nat} {tape c t' : List (List Nat)}
    (h : takeChunk n k tape = .ok (c, t')) :
    (∀ x ∈ c, IsPerm n x) ∧ tape = c ++ t' := by
  unfold takeChunk at h
  split_ifs at h with h1 h2
  simp only [Except.ok.injEq, Prod.mk.injEq] at h
  obtain ⟨rfl, rfl⟩ := h
  refine ⟨?_, (List.take_append_drop k tape).symm⟩
  intro x hx
  simp only [Bool.not_eq_true'] at h2
  have := List.all_eq_true.mp (by simpa using h2) x hx
  exact isPermOf_iff.mp this

/-! ### the oracle contract is never reported violated on a tape that satisfies it -/

/-- Every entry of the tape is a permutation of `0..n-1`. -/
def ValidTape (n : Nat) (tape : List (List Nat)) : Prop := ∀ x ∈ tape, IsPerm n x

theorem takeChunk_valid {n k : Nat} {tape : List (List Nat)} (hv : ValidTape n tape) :
    takeChunk n k tape ≠ .error .contract ∧
      ∀ c t', takeChunk n k tape = .ok (c, t') → ValidTape n t' := by
  unfold takeChunk
  split_ifs with h1 h2
  · simp
  · exfalso
    simp only [Bool.not_eq_true', List.all_eq_false] at h2
    obtain ⟨x, hx, hx'⟩ := h2
    exact hx' (isPermOf_iff.mpr (hv x (List.mem_of_mem_take hx)))
  · refine ⟨by simp, ?_⟩
    intro c t' h
    simp only [Except.ok.injEq, Prod.mk.injEq] at h
    intro x hx
    exact hv x (List.mem_of_mem_drop (h.2 ▸ hx))

theorem scanMin_not_contract (m : Mat α) : ∀ (cs : List (List Nat)) (b : List Nat) (kb : α),
    scanMin m b kb cs ≠ .error .contract
  | [], b, kb => by simp [scanMin]
  | c :: cs, b, kb => by
    unfold scanMin
    cases bwOf m c with
    | none => simp
    | some k =>
      simp only
      split_ifs
      · exact scanMin_not_contract m cs c k
      · exact scanMin_not_contract m cs b kb

theorem globalStep_not_contract (m : Mat α) (cands : List (List Nat)) :
    globalStep m cands ≠ .error .contract := by
  cases cands with
  | nil => simp [globalStep]
  | cons c cs =>
    cases hb : bwOf m c with
    | none => simp [globalStep, hb]
    | some k =>
      simp only [globalStep, hb]
      exact scanMin_not_contract m cs c k

theorem implLoop_valid {nThr n : Nat} : ∀ (fuel : Nat) (m : Mat α) (acc : List Nat) (bw : α)
    (tape : List (List Nat)), ValidTape n tape →
    implLoop nThr n fuel m acc bw tape ≠ .error .contract ∧
      ∀ r, implLoop nThr n fuel m acc bw tape = .ok r → ValidTape n r.2.2
  | 0, _, _, _, _, _ => by simp [implLoop]
  | fuel + 1, m, acc, bw, tape, hv => by
    obtain ⟨hc1, hc2⟩ := takeChunk_valid (k := nThr) hv
    unfold implLoop
    cases hc : takeChunk n nThr tape with
    | error e =>
      refine ⟨?_, by simp⟩
      intro h
      simp only [Except.error.injEq] at h
      exact hc1 (h ▸ hc)
    | ok ct =>
      obtain ⟨cands, tape'⟩ := ct
      have hv' := hc2 cands tape' hc
      simp only
      cases hg : globalStep m cands with
      | error e =>
        refine ⟨?_, by simp⟩
        intro h
        simp only [Except.error.injEq] at h
        exact globalStep_not_contract m cands (h ▸ hg)
      | ok ok =>
        obtain ⟨opt, k⟩ := ok
        simp only
        cases matrixBandwidth (permuteMatT m opt) with
        | none => simp
        | some newBw =>
          simp only
          split_ifs
          · refine ⟨by simp, ?_⟩
            intro r h
            simp only [Except.ok.injEq] at h
            subst h
            exact hv'
          · exact implLoop_valid fuel _ _ newBw tape' hv'

theorem impl_valid {nThr : Nat} (m : Mat α) (init : List Nat) {tape : List (List Nat)}
    (hv : ValidTape m.length tape) :
    minimizeBandwidthImpl nThr m init tape ≠ .error .contract ∧
      ∀ r, minimizeBandwidthImpl nThr m init tape = .ok r → ValidTape m.length r.2.2 := by
  unfold minimizeBandwidthImpl
  simp only
  cases matrixBandwidth (if init = List.range m.length then m else permuteMatT m init) with
  | none => simp
  | some bw => exact implLoop_valid 100 _ init bw tape hv

theorem runStarts_valid {nThr : Nat} (m : Mat α) : ∀ (starts tape : List (List Nat)) (b : List Nat)
    (kb : α), ValidTape m.length tape → runStarts nThr m starts tape b kb ≠ .error .contract
  | [], _, _, _, _ => by simp [runStarts]
  | s :: ss, tape, b, kb, hv => by
    obtain ⟨h1, h2⟩ := impl_valid (nThr := nThr) m s hv
    unfold runStarts
    cases hi : minimizeBandwidthImpl nThr m s tape with
    | error e =>
      intro h
      simp only [Except.error.injEq] at h
      exact h1 (h ▸ hi)
    | ok res =>
      obtain ⟨p, bw, tape'⟩ := res
      have hv' := h2 _ hi
      simp only
      split_ifs
      · exact runStarts_valid m ss tape' p bw hv'
      · exact runStarts_valid m ss tape' b kb hv'

theorem chooseBest_valid {nThr : Nat} (a : Mat α) (starts : List (List Nat))
    {tape : List (List Nat)} (hv : ValidTape a.length tape) :
    chooseBest nThr a starts tape ≠ .error .contract := by
  obtain ⟨h1, h2⟩ := impl_valid (nThr := nThr) a (List.range a.length) hv
  unfold chooseBest
  cases hi : minimizeBandwidthImpl nThr a (List.range a.length) tape with
  | error e =>
    intro h
    simp only [Except.error.injEq] at h
    exact h1 (h ▸ hi)
  | ok res =>
    obtain ⟨p, bw, tape'⟩ := res
    exact runStarts_valid a starts tape' p bw (h2 _ hi)

end EmuVerif.Bandwidth
