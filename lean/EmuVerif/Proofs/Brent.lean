/- Helper lemmas about `Model.Brent` over an arbitrary linear ordered field. -/
import EmuVerif.Model.Brent
import EmuVerif.Proofs.Scalar

set_option linter.unusedSectionVars false

namespace EmuVerif.Brent
open EmuVerif

variable {α : Type} [Field α] [LinearOrder α] [IsStrictOrderedRing α]

/-- Closed hull of the current bracket. -/
def lo (s : St α) : α := min s.a s.b
def hi (s : St α) : α := max s.a s.b

/-- What `__init__` establishes and `provide_ordinate` maintains: the ordinates at the two
ends do not have the same strict sign, and `b` is the better guess. -/
structure Inv (s : St α) : Prop where
  sign : s.fa * s.fb ≤ 0
  better : |s.fb| ≤ |s.fa|

/-- The ordinates stored in the state are the values of `f` at the stored abscissae. -/
def Tracks (f : α → α) (s : St α) : Prop := s.fa = f s.a ∧ s.fb = f s.b

/-! ### `swapIfNeeded` -/

theorem swap_cases (s : St α) :
    (swapIfNeeded s = s ∧ |s.fb| ≤ |s.fa|) ∨
    (swapIfNeeded s = { s with a := s.b, b := s.a, fa := s.fb, fb := s.fa } ∧ |s.fa| < |s.fb|) := by
  unfold swapIfNeeded
  simp only [absv_eq_abs]
  by_cases h : |s.fa| < |s.fb|
  · right; simp [h]
  · left; simp [h]; exact not_lt.mp h

theorem swap_lo (s : St α) : lo (swapIfNeeded s) = lo s := by
  rcases swap_cases s with ⟨h, _⟩ | ⟨h, _⟩ <;> rw [h] <;> simp [lo, min_comm]

theorem swap_hi (s : St α) : hi (swapIfNeeded s) = hi s := by
  rcases swap_cases s with ⟨h, _⟩ | ⟨h, _⟩ <;> rw [h] <;> simp [hi, max_comm]

theorem swap_width (s : St α) :
    |(swapIfNeeded s).b - (swapIfNeeded s).a| = |s.b - s.a| := by
  rcases swap_cases s with ⟨h, _⟩ | ⟨h, _⟩ <;> rw [h] <;> simp [abs_sub_comm]

theorem swap_inv (s : St α) (h : s.fa * s.fb ≤ 0) : Inv (swapIfNeeded s) := by
  rcases swap_cases s with ⟨e, hb⟩ | ⟨e, hb⟩ <;> rw [e]
  · exact ⟨h, hb⟩
  · exact ⟨by simpa [mul_comm] using h, le_of_lt hb⟩

theorem swap_tracks (f : α → α) (s : St α) (h : Tracks f s) : Tracks f (swapIfNeeded s) := by
  rcases swap_cases s with ⟨e, _⟩ | ⟨e, _⟩ <;> rw [e]
  · exact h
  · exact ⟨h.2, h.1⟩

theorem swap_eps (s : St α) : (swapIfNeeded s).eps = s.eps := by
  rcases swap_cases s with ⟨e, _⟩ | ⟨e, _⟩ <;> rw [e]

theorem swap_bisection (s : St α) : (swapIfNeeded s).bisection = s.bisection := by
  rcases swap_cases s with ⟨e, _⟩ | ⟨e, _⟩ <;> rw [e]

theorem swap_c (s : St α) : (swapIfNeeded s).c = s.c := by
  rcases swap_cases s with ⟨e, _⟩ | ⟨e, _⟩ <;> rw [e]

/-! ### the NaN guard -/

theorem isNan_false (dx : α) : isNan dx = false := by simp [isNan]

/-- Over an ordered field the test of `get_next_abscissa` is the five-clause test. -/
theorem useBisect_eq (s : St α) (dx : α) : useBisect s dx = useBisect5 s dx := by
  simp [useBisect, isNan_false]

/-! ### the sign test -/

/-- Over an ordered field the sign comparison `_opposite_signs` is the old product test. -/
theorem oppSign_iff (x y : α) : oppSign x y = true ↔ x * y < 0 := by
  unfold oppSign
  simp only [Bool.or_eq_true, Bool.and_eq_true, decide_eq_true_eq]
  rw [mul_neg_iff]
  constructor
  · rintro (⟨h1, h2⟩ | ⟨h1, h2⟩)
    · right; exact ⟨h1, h2⟩
    · left; exact ⟨h2, h1⟩
  · rintro (⟨h1, h2⟩ | ⟨h1, h2⟩)
    · right; exact ⟨h2, h1⟩
    · left; exact ⟨h1, h2⟩

/-! ### `__init__` -/

theorem init_some {start stop fS fE eps : α} {s : St α}
    (h : init start stop fS fE eps = some s) :
    start ≤ stop ∧ fS * fE < 0 ∧ Inv s ∧ lo s = start ∧ hi s = stop ∧ s.eps = eps
      ∧ s.bisection = true ∧ s.c = s.a ∧
      ((s.a = start ∧ s.b = stop ∧ s.fa = fS ∧ s.fb = fE) ∨
       (s.a = stop ∧ s.b = start ∧ s.fa = fE ∧ s.fb = fS)) := by
  unfold init at h
  split at h; · exact absurd h (by simp)
  split at h; · exact absurd h (by simp)
  rename_i h1 h2
  have h1 : start ≤ stop := not_not.mp h1
  have h2 : fS * fE < 0 := (oppSign_iff fS fE).mp (not_not.mp h2)
  simp only [Option.some.injEq] at h
  subst h
  set s0 : St α := { eps := eps, a := start, b := stop, fa := fS, fb := fE,
                     c := start, d := start, fc := fS, bisection := true, next := none } with hs0
  have hinv := swap_inv s0 (le_of_lt h2)
  have hlo := swap_lo s0
  have hhi := swap_hi s0
  refine ⟨h1, h2, ⟨hinv.sign, hinv.better⟩, ?_, ?_, swap_eps s0, swap_bisection s0, rfl, ?_⟩
  · show min (swapIfNeeded s0).a (swapIfNeeded s0).b = start
    have : lo (swapIfNeeded s0) = min start stop := hlo
    rw [min_eq_left h1] at this; exact this
  · show max (swapIfNeeded s0).a (swapIfNeeded s0).b = stop
    have : hi (swapIfNeeded s0) = max start stop := hhi
    rw [max_eq_right h1] at this; exact this
  · rcases swap_cases s0 with ⟨e, _⟩ | ⟨e, _⟩
    · left; simp only [e]; exact ⟨rfl, rfl, rfl, rfl⟩
    · right; simp only [e]; exact ⟨rfl, rfl, rfl, rfl⟩

/-! ### `get_next_abscissa` -/

/-- Whatever the interpolation produced, the step taken from `b` points towards `a` and
is at most as long as the bracket: the five-clause test guarantees it. -/
theorem stepDx_between (s : St α) :
    0 ≤ stepDx s * (s.a - s.b) ∧ |stepDx s| ≤ |s.a - s.b| := by
  unfold stepDx
  generalize interpDx s = dx
  by_cases hb : useBisect s dx = true
  · simp only [hb, if_true]
    constructor
    · have : (s.a - s.b) / 2 * (s.a - s.b) = (s.a - s.b) ^ 2 / 2 := by ring
      rw [this]; positivity
    · rw [abs_div, abs_two]
      have := abs_nonneg (s.a - s.b)
      linarith
  · simp only [hb]
    simp only [useBisect_eq, useBisect5, Bool.or_eq_true, decide_eq_true_eq, not_or, absv_eq_abs,
      Bool.not_eq_true] at hb
    obtain ⟨⟨⟨⟨⟨h1, h2⟩, _⟩, _⟩, _⟩, _⟩ := hb
    have h1 : |dx| < |3 * (s.a - s.b) / 4| := not_le.mp h1
    have h2 : 0 ≤ dx * (s.a - s.b) := not_lt.mp h2
    refine ⟨by simpa using h2, ?_⟩
    have : |3 * (s.a - s.b) / 4| = 3 / 4 * |s.a - s.b| := by
      rw [show 3 * (s.a - s.b) / 4 = (3 / 4) * (s.a - s.b) by ring, abs_mul]
      congr 1
      exact abs_of_pos (by norm_num)
    rw [this] at h1
    have := abs_nonneg (s.a - s.b)
    simp only [Bool.false_eq_true, if_false]
    linarith

/-- A step of size `dx` from `b` towards `a`, no longer than `|a-b|`, lands in the hull. -/
theorem between_of_step {a b dx : α} (h1 : 0 ≤ dx * (a - b)) (h2 : |dx| ≤ |a - b|) :
    min a b ≤ b + dx ∧ b + dx ≤ max a b := by
  rcases le_total a b with hab | hab
  · rw [min_eq_left hab, max_eq_right hab]
    have hd : dx ≤ 0 := by
      by_contra hpos
      have hpos : 0 < dx := not_le.mp hpos
      rcases eq_or_lt_of_le hab with e | l
      · subst e; simp at h2; linarith
      · have : dx * (a - b) < 0 := mul_neg_of_pos_of_neg hpos (by linarith)
        linarith
    rw [abs_of_nonpos hd, abs_of_nonpos (by linarith : a - b ≤ 0)] at h2
    constructor <;> linarith
  · rw [min_eq_right hab, max_eq_left hab]
    have hd : 0 ≤ dx := by
      by_contra hneg
      have hneg : dx < 0 := not_le.mp hneg
      rcases eq_or_lt_of_le hab with e | l
      · subst e; simp at h2; linarith
      · have : dx * (a - b) < 0 := mul_neg_of_neg_of_pos hneg (by linarith)
        linarith
    rw [abs_of_nonneg hd, abs_of_nonneg (by linarith : 0 ≤ a - b)] at h2
    constructor <;> linarith

theorem getNext_snd (s : St α) : (getNext s).2 = s.b + stepDx s := by
  simp only [getNext, stepDx]

theorem getNext_mem (s : St α) : lo s ≤ (getNext s).2 ∧ (getNext s).2 ≤ hi s := by
  rw [getNext_snd]
  obtain ⟨h1, h2⟩ := stepDx_between s
  exact between_of_step h1 h2

theorem getNext_fst (s : St α) :
    (getNext s).1 = { s with bisection := useBisect s (interpDx s),
                             next := some (getNext s).2, d := s.c, c := s.b, fc := s.fb } := by
  simp only [getNext]

/-! ### `provide_ordinate` -/

theorem updateInterval_cases (s : St α) (x y : α) :
    (updateInterval s x y = { s with b := x, fb := y } ∧ s.fa * y < 0) ∨
    (updateInterval s x y = { s with a := x, fa := y } ∧ 0 ≤ s.fa * y) := by
  unfold updateInterval
  by_cases h : s.fa * y < 0
  · left; simp [(oppSign_iff s.fa y).mpr h, h]
  · right
    have h' : oppSign s.fa y = false := by
      cases hh : oppSign s.fa y
      · rfl
      · exact absurd ((oppSign_iff s.fa y).mp hh) h
    simp [h']; exact not_lt.mp h

/-- Key sign lemma: replacing the end whose ordinate has the sign of `y` keeps the bracket. -/
theorem sign_keep {fa fb y : α} (hs : fa * fb ≤ 0) (hb : |fb| ≤ |fa|) (hy : 0 ≤ fa * y) :
    y * fb ≤ 0 := by
  rcases lt_trichotomy fa 0 with h | h | h
  · have hy' : y ≤ 0 := by
      by_contra hc; have hc : 0 < y := not_le.mp hc
      have : fa * y < 0 := mul_neg_of_neg_of_pos h hc; linarith
    have hfb : 0 ≤ fb := by
      by_contra hc; have hc : fb < 0 := not_le.mp hc
      have : 0 < fa * fb := mul_pos_of_neg_of_neg h hc; linarith
    exact mul_nonpos_of_nonpos_of_nonneg hy' hfb
  · subst h
    have : fb = 0 := by simpa using hb
    simp [this]
  · have hy' : 0 ≤ y := by
      by_contra hc; have hc : y < 0 := not_le.mp hc
      have : fa * y < 0 := mul_neg_of_pos_of_neg h hc; linarith
    have hfb : fb ≤ 0 := by
      by_contra hc; have hc : 0 < fb := not_le.mp hc
      have : 0 < fa * fb := mul_pos h hc; linarith
    exact mul_nonpos_of_nonneg_of_nonpos hy' hfb

theorem provide_inv (s : St α) (x y : α) (h : Inv s) : Inv (provide s x y) := by
  unfold provide
  apply swap_inv
  rcases updateInterval_cases s x y with ⟨e, hy⟩ | ⟨e, hy⟩ <;> rw [e]
  · exact le_of_lt hy
  · exact sign_keep h.sign h.better hy

theorem provide_tracks (f : α → α) (s : St α) (x : α) (h : Tracks f s) :
    Tracks f (provide s x (f x)) := by
  unfold provide
  apply swap_tracks
  rcases updateInterval_cases s x (f x) with ⟨e, _⟩ | ⟨e, _⟩ <;> rw [e]
  · exact ⟨h.1, rfl⟩
  · exact ⟨rfl, h.2⟩

theorem provide_hull (s : St α) (x y : α) (hx : lo s ≤ x ∧ x ≤ hi s) :
    lo s ≤ lo (provide s x y) ∧ hi (provide s x y) ≤ hi s := by
  unfold provide
  rw [swap_lo, swap_hi]
  unfold lo hi at *
  rcases updateInterval_cases s x y with ⟨e, _⟩ | ⟨e, _⟩ <;> rw [e] <;> simp only
  · exact ⟨le_min (min_le_left _ _) hx.1, max_le (le_max_left _ _) hx.2⟩
  · exact ⟨le_min hx.1 (min_le_right _ _), max_le hx.2 (le_max_right _ _)⟩

theorem provide_eps (s : St α) (x y : α) : (provide s x y).eps = s.eps := by
  unfold provide; rw [swap_eps]
  rcases updateInterval_cases s x y with ⟨e, _⟩ | ⟨e, _⟩ <;> rw [e]

theorem provide_bisection (s : St α) (x y : α) : (provide s x y).bisection = s.bisection := by
  unfold provide; rw [swap_bisection]
  rcases updateInterval_cases s x y with ⟨e, _⟩ | ⟨e, _⟩ <;> rw [e]

theorem provide_c (s : St α) (x y : α) : (provide s x y).c = s.c := by
  unfold provide; rw [swap_c]
  rcases updateInterval_cases s x y with ⟨e, _⟩ | ⟨e, _⟩ <;> rw [e]

/-- width of the hull -/
theorem width_eq (s : St α) : hi s - lo s = |s.b - s.a| := by
  unfold hi lo
  rcases le_total s.a s.b with h | h
  · rw [max_eq_right h, min_eq_left h, abs_of_nonneg (by linarith)]
  · rw [max_eq_left h, min_eq_right h, abs_of_nonpos (by linarith)]; ring

/-- One loop iteration never widens the bracket. -/
theorem iter_width_le (s : St α) (y : α) :
    |(provide (getNext s).1 (getNext s).2 y).b - (provide (getNext s).1 (getNext s).2 y).a|
      ≤ |s.b - s.a| := by
  have hm := getNext_mem s
  have hlo : lo (getNext s).1 = lo s := by rw [getNext_fst]; rfl
  have hhi : hi (getNext s).1 = hi s := by rw [getNext_fst]; rfl
  have := provide_hull (getNext s).1 (getNext s).2 y (by rw [hlo, hhi]; exact hm)
  rw [hlo, hhi] at this
  rw [← width_eq, ← width_eq]
  linarith [this.1, this.2]

/-- A bisection step halves the bracket exactly. -/
theorem iter_width_bisect (s : St α) (y : α) (hb : useBisect s (interpDx s) = true) :
    |(provide (getNext s).1 (getNext s).2 y).b - (provide (getNext s).1 (getNext s).2 y).a|
      = |s.b - s.a| / 2 := by
  have hx : (getNext s).2 = s.b + (s.a - s.b) / 2 := by
    rw [getNext_snd]; unfold stepDx; simp [hb]
  unfold provide
  rw [swap_width]
  rcases updateInterval_cases (getNext s).1 (getNext s).2 y with ⟨e, _⟩ | ⟨e, _⟩ <;> rw [e] <;>
    simp only [getNext_fst, hx]
  · rw [show s.b + (s.a - s.b) / 2 - s.a = (s.b - s.a) / 2 by ring, abs_div, abs_two]
  · rw [show s.b - (s.b + (s.a - s.b) / 2) = (s.b - s.a) / 2 by ring, abs_div, abs_two]

end EmuVerif.Brent
