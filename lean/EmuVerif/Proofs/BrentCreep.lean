/-
  A bracket with 0 strictly inside on which `find_root_brents` (ε = 1, tolerance 1) never
  terminates in exact arithmetic, for a smooth increasing function (helper lemmas for
  Props/C19Term.lean).

  f(x) = x / (8 + x) / 8 on [−4, 1]:  f(−4) = −1/8,  root at 0.  With `a = −4`, `f a = −1/8`,
  `b > 0`, `f b = b/(8(8+b))` the secant step is exactly `dx = −b/2`; it passes the five-clause
  test as long as `|b−c|` resp. `|c−d|` is `≥ 2b = δ`, and it re-establishes that for the next
  step (`c, d ← b, c`, new `b = b/2`). The far end `a = −4` never moves: `|b − a| > 4 ≥ tol`.
-/
import EmuVerif.Proofs.BrentTerm

set_option linter.unusedSectionVars false

namespace EmuVerif.Brent
open EmuVerif

variable {α : Type} [Field α] [LinearOrder α] [IsStrictOrderedRing α]

/-- `x ↦ x/(8+x)/8` — increasing on `(−8, ∞)`, zero at 0 -/
def creepF (x : α) : α := x / (8 + x) / 8

/-- the invariant of the creeping run -/
structure Creep (s : St α) : Prop where
  eps1 : s.eps = 1
  a4 : s.a = -4
  fa8 : s.fa = -(1 / 8)
  bpos : 0 < s.b
  ble : s.b ≤ 1
  fbv : s.fb = creepF s.b
  fcl : -(1 / 8) ≤ s.fc
  fch : s.fc ≤ 1 / 8
  big : 2 * s.b ≤ (if s.bisection = true then |s.b - s.c| else |s.c - s.d|)
  bc : s.b ≤ |s.b - s.c|

theorem creepF_pos {x : α} (h : 0 < x) : 0 < creepF x := by
  unfold creepF; positivity

theorem creepF_le {x : α} (h0 : 0 < x) (h1 : x ≤ 1) : creepF x ≤ 1 / 72 := by
  unfold creepF
  rw [div_div, div_le_div_iff₀ (by positivity) (by norm_num)]
  nlinarith

theorem creep_secant (s : St α) (h : Creep s) : useSecant s = true := by
  have h1 := creepF_pos h.bpos
  have h2 := creepF_le h.bpos h.ble
  have : |s.fc - s.fb| < s.eps := by
    rw [h.eps1, h.fbv, abs_lt]
    constructor <;> linarith [h.fcl, h.fch]
  simp [useSecant, absv_eq_abs, this]

theorem creep_dx (s : St α) (h : Creep s) : interpDx s = -(s.b / 2) := by
  have hb := h.bpos
  unfold interpDx
  rw [creep_secant s h]
  simp only [if_true, secantDx, h.a4, h.fa8, h.fbv, creepF]
  have h8 : (8 + s.b) ≠ 0 := by positivity
  have h4 : (4 + s.b) ≠ 0 := by positivity
  have hden : -(1 / 8) - s.b / (8 + s.b) / 8 ≠ 0 := by
    have : -(1 / 8) - s.b / (8 + s.b) / 8 = -((4 + s.b) / (4 * (8 + s.b))) := by
      field_simp; ring
    rw [this]
    exact neg_ne_zero.mpr (div_ne_zero h4 (by positivity))
  rw [div_eq_iff hden]
  field_simp
  ring

theorem creep_interp (s : St α) (h : Creep s) : useBisect s (interpDx s) = false := by
  rw [creep_dx s h]
  have hb := h.bpos
  have hbig := h.big
  have e1 : |(-(s.b / 2))| = s.b / 2 := by rw [abs_neg, abs_of_pos (by positivity)]
  have e2 : |3 * (s.a - s.b) / 4| = 3 * (4 + s.b) / 4 := by
    rw [h.a4, show 3 * (-4 - s.b) / 4 = -(3 * (4 + s.b) / 4) by ring, abs_neg,
      abs_of_pos (by positivity)]
  have e3 : |2 * s.eps * s.b| = 2 * s.b := by
    rw [h.eps1, mul_one, abs_of_pos (by positivity)]
  have c1 : ¬ (|(-(s.b / 2))| ≥ |3 * (s.a - s.b) / 4|) := by
    rw [e1, e2]; intro hc; linarith
  have c2 : ¬ (-(s.b / 2) * (s.a - s.b) < 0) := by
    rw [h.a4]; intro hc; nlinarith
  rw [Bool.eq_false_iff]
  intro hu
  simp only [useBisect_eq, useBisect5, absv_eq_abs, Bool.or_eq_true, Bool.and_eq_true, decide_eq_true_eq,
    Bool.not_eq_true'] at hu
  rcases hu with ((((hu | hu) | ⟨hb1, hu⟩) | ⟨hb0, hu⟩) | ⟨hb1, hu⟩) | ⟨hb0, hu⟩
  · exact c1 hu
  · exact c2 hu
  · rw [if_pos hb1] at hbig; rw [e1] at hu; linarith
  · rw [if_neg (by simp [hb0])] at hbig; rw [e1] at hu; linarith
  · rw [if_pos hb1] at hbig; rw [e3] at hu; linarith
  · rw [if_neg (by simp [hb0])] at hbig; rw [e3] at hu; linarith

theorem creep_query (s : St α) (h : Creep s) : (getNext s).2 = s.b / 2 := by
  rw [getNext_snd]
  have hi := creep_interp s h
  rw [creep_dx s h] at hi
  simp only [stepDx, creep_dx s h, hi, Bool.false_eq_true, if_false]
  ring

/-- one iteration of the loop on `creepF` keeps the invariant and halves `b` -/
theorem creep_step (s : St α) (h : Creep s) :
    Creep (nextSt s (creepF (getNext s).2)) ∧ (nextSt s (creepF (getNext s).2)).b = s.b / 2 := by
  have hb := h.bpos
  have hx := creep_query s h
  have hy0 : 0 < creepF (s.b / 2) := creepF_pos (by positivity)
  have hy1 : creepF (s.b / 2) ≤ 1 / 72 := creepF_le (by positivity) (by linarith [h.ble])
  -- the state handed to `provide_ordinate`
  have hg := getNext_fst s
  rw [hx] at hg ⊢
  -- `provide_ordinate`: `b := x`, no swap
  have hprov : nextSt s (creepF (s.b / 2))
      = { (getNext s).1 with b := s.b / 2, fb := creepF (s.b / 2) } := by
    unfold nextSt
    rw [hx]
    unfold provide
    have hfa : (getNext s).1.fa = -(1 / 8) := by rw [hg]; exact h.fa8
    have hu : updateInterval (getNext s).1 (s.b / 2) (creepF (s.b / 2))
        = { (getNext s).1 with b := s.b / 2, fb := creepF (s.b / 2) } := by
      unfold updateInterval
      have : (getNext s).1.fa * creepF (s.b / 2) < 0 := by rw [hfa]; nlinarith
      simp [(oppSign_iff _ _).mpr this]
    rw [hu]
    unfold swapIfNeeded
    have : ¬ (absv (getNext s).1.fa < absv (creepF (s.b / 2))) := by
      rw [absv_eq_abs, absv_eq_abs, hfa, abs_neg, abs_of_pos (by norm_num), abs_of_pos hy0]
      intro hc; linarith
    simp [this]
  rw [hprov, hg]
  refine ⟨⟨h.eps1, h.a4, h.fa8, by show 0 < s.b / 2; positivity, by show s.b / 2 ≤ 1; linarith [h.ble],
    rfl, ?_, ?_, ?_, ?_⟩, rfl⟩
  · show -(1 / 8) ≤ s.fb
    rw [h.fbv]; linarith [creepF_pos hb]
  · show s.fb ≤ 1 / 8
    rw [h.fbv]; linarith [creepF_le hb h.ble]
  · show 2 * (s.b / 2) ≤ (if useBisect s (interpDx s) = true then |s.b / 2 - s.b| else |s.b - s.c|)
    rw [creep_interp s h]
    simp only [Bool.false_eq_true, if_false]
    linarith [h.bc]
  · show s.b / 2 ≤ |s.b / 2 - s.b|
    rw [show s.b / 2 - s.b = -(s.b / 2) by ring, abs_neg, abs_of_pos (by positivity)]

theorem creep_not_converged (s : St α) (h : Creep s) : isConverged s 1 = false := by
  have : ¬ |s.b - s.a| < 1 := by
    rw [h.a4, abs_of_pos (by linarith [h.bpos])]
    intro hc; linarith [h.bpos]
  simpa [isConverged, absv_eq_abs] using this

/-- **No amount of fuel suffices.** -/
theorem creep_never (fuel : Nat) : ∀ (s : St α) (acc : List α), Creep s →
    findRoot creepF 1 fuel s acc = none := by
  induction fuel with
  | zero => intro s acc _; rfl
  | succ k ih =>
    intro s acc h
    unfold findRoot
    simp only [creep_not_converged s h, Bool.false_eq_true, if_false]
    exact ih _ _ (creep_step s h).1

/-- the state built by `__init__` on `[−4, 1]` with ε = 1 satisfies the invariant -/
theorem creep_init {s0 : St α} (h : init (-4 : α) 1 (creepF (-4)) (creepF 1) 1 = some s0) : Creep s0 := by
  have hf4 : creepF (-4 : α) = -(1 / 8) := by unfold creepF; norm_num
  have hf1 : creepF (1 : α) = 1 / 72 := by unfold creepF; norm_num
  obtain ⟨hle, hlt, hinv, _, _, he, hbis, hc, hcase⟩ := init_some h
  have hfc : s0.fc = s0.fa := by
    unfold init at h
    simp only [hle, (oppSign_iff _ _).mpr hlt, not_true_eq_false, if_false, Option.some.injEq] at h
    rw [← h]
  have hnoswap : s0.a = -4 ∧ s0.b = 1 ∧ s0.fa = creepF (-4) ∧ s0.fb = creepF 1 := by
    rcases hcase with hcase | ⟨_, _, e1, e2⟩
    · exact hcase
    · exfalso
      have := hinv.better
      rw [e1, e2, hf4, hf1, abs_neg, abs_of_pos (by norm_num), abs_of_pos (by norm_num)] at this
      norm_num at this
  obtain ⟨ea, eb, efa, efb⟩ := hnoswap
  refine ⟨he, ea, by rw [efa, hf4], by rw [eb]; norm_num, by rw [eb], by rw [efb, eb], ?_, ?_, ?_, ?_⟩
  · rw [hfc, efa, hf4]
  · rw [hfc, efa, hf4]; norm_num
  · rw [hbis, hc, ea, eb]; norm_num
  · rw [hc, ea, eb]; norm_num

theorem creep_init_some : ∃ s0 : St α, init (-4 : α) 1 (creepF (-4)) (creepF 1) 1 = some s0 := by
  have hf4 : creepF (-4 : α) = -(1 / 8) := by unfold creepF; norm_num
  have hf1 : creepF (1 : α) = 1 / 72 := by unfold creepF; norm_num
  unfold init
  have h1 : ¬ ¬ ((-4 : α) ≤ 1) := by norm_num
  have h2 : ¬ ¬ (oppSign (creepF (-4 : α)) (creepF 1) = true) := by
    rw [not_not, oppSign_iff, hf4, hf1]; norm_num
  rw [if_neg h1, if_neg h2]
  exact ⟨_, rfl⟩

end EmuVerif.Brent
