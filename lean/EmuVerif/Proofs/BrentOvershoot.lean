/-
  For ε = 1/4 no iteration bound depending only on the bracket, ε and the tolerance exists, even
  on a bracket far from 0 (helper lemmas for Props/C19Term.lean).

  The adversary answers every query with `y = −R · f(a)`: the ordinates alternate in sign and grow
  by the factor `R > 1` (all of them tiny, so that the secant branch is taken). Then
    * the secant step is `dx = (a − b)/(R + 1)`: it removes only the fraction `1/(R+1)` of the bracket;
    * `f(a)·y < 0`, so `b := x`; `|f(a)| < |y|`, so the ends are swapped: new `a = x`, new `b = a`;
    * hence `|b − c|` and `|c − d|` are (at least) bracket widths, and the test `|c − d| ≥ δ = |b|/2`
      passes as long as the width stays `≥ 500 ≥ 1000/2`.
  With `R + 1 ≥ 3N` the width is still `≥ 500` after `N` steps.
-/
import EmuVerif.Proofs.BrentTerm

set_option linter.unusedSectionVars false

namespace EmuVerif.Brent
open EmuVerif

variable {α : Type} [Field α] [LinearOrder α] [IsStrictOrderedRing α]

/-- the adversary's tape: each ordinate is `−R` times the ordinate stored at `a` -/
def ovTape (R : α) : α → Nat → List α
  | _, 0 => []
  | fa, k + 1 => (-R * fa) :: ovTape R (-R * fa) k

theorem ovTape_length (R fa : α) (k : Nat) : (ovTape R fa k).length = k := by
  induction k generalizing fa with
  | zero => rfl
  | succ k ih => simp [ovTape, ih]

/-- invariant of the overshoot run with `k` steps still to go -/
structure Over (R : α) (k : Nat) (s : St α) : Prop where
  eps4 : s.eps = 1 / 4
  rel : s.fa = -R * s.fb
  fb0 : s.fb ≠ 0
  small : |s.fa| * R ^ k ≤ 1 / 16
  fcs : |s.fc| ≤ |s.fa|
  loL : 10 ≤ lo s
  hiH : hi s ≤ 1000
  wide : 500 + 990 / (R + 1) * k ≤ |s.b - s.a|
  big : |s.b - s.a| ≤ (if s.bisection = true then |s.b - s.c| else |s.c - s.d|)
  bc : |s.b - s.a| ≤ |s.b - s.c|

theorem init_eq_of_better {start stop fS fE eps : α} (h1 : start ≤ stop) (h2 : fS * fE < 0)
    (h3 : ¬ |fS| < |fE|) :
    init start stop fS fE eps = some (⟨eps, start, stop, fS, fE, start, start, fS, true, none⟩ : St α) := by
  unfold init swapIfNeeded
  simp [h1, (oppSign_iff fS fE).mpr h2, absv_eq_abs, h3]

section step
variable {R : α} {k : Nat} {s : St α}

theorem over_width_le (h : Over R k s) : |s.b - s.a| ≤ 990 := by
  rw [← width_eq]; linarith [h.loL, h.hiH]

theorem over_width_ge (hR : 1 < R) (h : Over R k s) : 500 ≤ |s.b - s.a| := by
  have : 0 ≤ 990 / (R + 1) * (k : α) := by
    have : (0 : α) < R + 1 := by linarith
    positivity
  linarith [h.wide]

theorem over_b (h : Over R k s) : 10 ≤ s.b ∧ s.b ≤ 1000 :=
  ⟨le_trans h.loL (min_le_right _ _), le_trans (le_max_right _ _) h.hiH⟩

theorem over_fa_small (hR : 1 < R) (h : Over R k s) : |s.fa| ≤ 1 / 16 := by
  have h1 : (1 : α) ≤ R ^ k := one_le_pow₀ (le_of_lt hR)
  have h2 := abs_nonneg s.fa
  nlinarith [h.small]

theorem over_secant (hR : 1 < R) (h : Over R k s) : useSecant s = true := by
  have h1 := over_fa_small hR h
  have : |s.fc - s.fa| < s.eps := by
    rw [h.eps4]
    have := abs_sub s.fc s.fa
    have := h.fcs
    linarith
  simp [useSecant, absv_eq_abs, this]

theorem over_dx (hR : 1 < R) (h : Over R k s) : interpDx s = (s.a - s.b) / (R + 1) := by
  unfold interpDx
  rw [over_secant hR h]
  simp only [if_true, secantDx, h.rel]
  have hfb := h.fb0
  have hR1 : R + 1 ≠ 0 := by linarith
  have hden : -R * s.fb - s.fb ≠ 0 := by
    rw [show -R * s.fb - s.fb = -((R + 1) * s.fb) by ring]
    exact neg_ne_zero.mpr (mul_ne_zero hR1 hfb)
  rw [div_eq_div_iff hden hR1]
  ring

theorem over_absdx (hR : 1 < R) (_h : Over R k s) :
    |(s.a - s.b) / (R + 1)| = |s.b - s.a| / (R + 1) := by
  rw [abs_div, abs_sub_comm, abs_of_pos (by linarith : (0 : α) < R + 1)]

theorem over_interp (hR : 1 < R) (h : Over R k s) : useBisect s (interpDx s) = false := by
  rw [over_dx hR h]
  have hw := over_width_ge hR h
  have hbig := h.big
  have hb := over_b h
  have hR1 : (0 : α) < R + 1 := by linarith
  have e1 := over_absdx hR h
  have hdxlt : |s.b - s.a| / (R + 1) < |s.b - s.a| / 2 := by
    apply div_lt_div_of_pos_left (by linarith) (by norm_num) (by linarith)
  have e2 : |3 * (s.a - s.b) / 4| = 3 * |s.b - s.a| / 4 := by
    rw [abs_div, abs_mul, abs_sub_comm s.a s.b, abs_of_pos (by norm_num : (0 : α) < 3),
      abs_of_pos (by norm_num : (0 : α) < 4)]
  have e3 : |2 * s.eps * s.b| = s.b / 2 := by
    rw [h.eps4, abs_of_pos (by nlinarith [hb.1])]; ring
  rw [Bool.eq_false_iff]
  intro hu
  simp only [useBisect_eq, useBisect5, absv_eq_abs, Bool.or_eq_true, Bool.and_eq_true, decide_eq_true_eq,
    Bool.not_eq_true'] at hu
  rcases hu with ((((hu | hu) | ⟨hb1, hu⟩) | ⟨hb0, hu⟩) | ⟨hb1, hu⟩) | ⟨hb0, hu⟩
  · rw [e1, e2] at hu; linarith
  · have : (s.a - s.b) / (R + 1) * (s.a - s.b) = (s.a - s.b) ^ 2 / (R + 1) := by ring
    rw [this] at hu
    have : 0 ≤ (s.a - s.b) ^ 2 / (R + 1) := by positivity
    linarith
  · rw [if_pos hb1] at hbig; rw [e1] at hu; linarith
  · rw [if_neg (by simp [hb0])] at hbig; rw [e1] at hu; linarith
  · rw [if_pos hb1] at hbig; rw [e3] at hu; linarith [hb.2]
  · rw [if_neg (by simp [hb0])] at hbig; rw [e3] at hu; linarith [hb.2]

theorem over_query (hR : 1 < R) (h : Over R k s) : (getNext s).2 = s.b + (s.a - s.b) / (R + 1) := by
  rw [getNext_snd]
  have hi := over_interp hR h
  rw [over_dx hR h] at hi
  simp only [stepDx, over_dx hR h, hi, Bool.false_eq_true, if_false]

theorem over_not_converged (hR : 1 < R) (h : Over R k s) : isConverged s 1 = false := by
  have hw := over_width_ge hR h
  have : ¬ |s.b - s.a| < 1 := by intro hc; linarith
  simpa [isConverged, absv_eq_abs] using this

/-- one iteration against the adversary: the ends are swapped, the bracket loses `1/(R+1)` of
its width, the invariant holds with one step less to go -/
theorem over_step (hR : 1 < R) (h : Over R (k + 1) s) :
    Over R k (nextSt s (-R * s.fa)) ∧ (nextSt s (-R * s.fa)).fa = -R * s.fa := by
  have hx := over_query hR h
  have hR0 : 0 < R := by linarith
  have hR1 : (0 : α) < R + 1 := by linarith
  have hfa0 : s.fa ≠ 0 := by
    rw [h.rel]; exact mul_ne_zero (neg_ne_zero.mpr (ne_of_gt hR0)) h.fb0
  have hfapos : 0 < |s.fa| := abs_pos.mpr hfa0
  have hg := getNext_fst s
  have hfa : (getNext s).1.fa = s.fa := by rw [hg]
  have hprov : nextSt s (-R * s.fa)
      = { (getNext s).1 with a := (getNext s).2, fa := -R * s.fa, b := s.a, fb := s.fa } := by
    unfold nextSt provide
    have hu : updateInterval (getNext s).1 (getNext s).2 (-R * s.fa)
        = { (getNext s).1 with b := (getNext s).2, fb := -R * s.fa } := by
      unfold updateInterval
      have : (getNext s).1.fa * (-R * s.fa) < 0 := by
        rw [hfa, show s.fa * (-R * s.fa) = -(R * s.fa ^ 2) by ring]
        have : 0 < R * s.fa ^ 2 := by positivity
        linarith
      rw [if_pos ((oppSign_iff _ _).mpr this)]
    rw [hu]
    unfold swapIfNeeded
    have : absv (getNext s).1.fa < absv (-R * s.fa) := by
      rw [absv_eq_abs, absv_eq_abs, hfa, abs_mul, abs_neg, abs_of_pos hR0]
      nlinarith
    rw [if_pos this, hg]
  have hwle := over_width_le h
  have hwge := over_width_ge hR h
  -- new width
  have hnw : |s.a - (s.b + (s.a - s.b) / (R + 1))| = |s.b - s.a| - |s.b - s.a| / (R + 1) := by
    have : s.a - (s.b + (s.a - s.b) / (R + 1)) = (s.a - s.b) * (R / (R + 1)) := by
      field_simp; ring
    rw [this, abs_mul, abs_sub_comm s.a s.b, abs_of_pos (by positivity : 0 < R / (R + 1))]
    field_simp; ring
  have hnw_le : |s.a - (s.b + (s.a - s.b) / (R + 1))| ≤ |s.b - s.a| := by
    rw [hnw]
    have : 0 ≤ |s.b - s.a| / (R + 1) := by positivity
    linarith
  have hhull := nextSt_hull s (-R * s.fa)
  refine ⟨⟨?_, ?_, ?_, ?_, ?_, le_trans h.loL hhull.1, le_trans hhull.2 h.hiH, ?_, ?_, ?_⟩, ?_⟩
  · rw [nextSt_eps]; exact h.eps4
  · rw [hprov]
  · rw [hprov]; exact hfa0
  · rw [hprov]
    show |(-R * s.fa)| * R ^ k ≤ 1 / 16
    rw [abs_mul, abs_neg, abs_of_pos hR0]
    have := h.small
    rw [pow_succ] at this
    calc R * |s.fa| * R ^ k = |s.fa| * (R ^ k * R) := by ring
      _ ≤ 1 / 16 := this
  · rw [hprov, hg]
    show |s.fb| ≤ |(-R * s.fa)|
    rw [abs_mul, abs_neg, abs_of_pos hR0]
    have : |s.fa| = R * |s.fb| := by rw [h.rel, abs_mul, abs_neg, abs_of_pos hR0]
    have h0 := abs_nonneg s.fb
    nlinarith
  · rw [hprov, hx]
    show 500 + 990 / (R + 1) * (k : α) ≤ |s.a - (s.b + (s.a - s.b) / (R + 1))|
    rw [hnw]
    have h1 := h.wide
    have h2 : |s.b - s.a| / (R + 1) ≤ 990 / (R + 1) := by
      apply div_le_div_of_nonneg_right hwle (le_of_lt hR1)
    push_cast at h1
    have : 990 / (R + 1) * ((k : α) + 1) = 990 / (R + 1) * k + 990 / (R + 1) := by ring
    linarith
  · rw [hprov, hg, hx]
    show |s.a - (s.b + (s.a - s.b) / (R + 1))|
      ≤ (if useBisect s (interpDx s) = true then |s.a - s.b| else |s.b - s.c|)
    rw [over_interp hR h]
    simp only [Bool.false_eq_true, if_false]
    exact le_trans hnw_le h.bc
  · rw [hprov, hg, hx]
    show |s.a - (s.b + (s.a - s.b) / (R + 1))| ≤ |s.a - s.b|
    rw [abs_sub_comm s.a s.b]; exact hnw_le
  · rw [hprov]

end step

/-- **`k` iterations against the adversary do not converge.** -/
theorem over_run {R : α} (hR : 1 < R) : ∀ (k : Nat) (s : St α) (acc : List α), Over R k s →
    (runTape 1 (ovTape R s.fa k) s acc).2.2 = false
  | 0, s, acc, h => by
    simp [ovTape, runTape, over_not_converged hR h]
  | k + 1, s, acc, h => by
    unfold ovTape runTape
    simp only [over_not_converged hR h, Bool.false_eq_true, if_false]
    obtain ⟨h1, h2⟩ := over_step hR h
    have := over_run hR k _ ((getNext s).2 :: acc) h1
    rw [h2] at this
    exact this

/-- the start of the adversarial run on `[10, 1000]`, ε = 1/4: `f(10) = R t`, `f(1000) = −t` with
`R = 4N + 4` and `t = 1/(16 R^(N+1))` -/
theorem over_init (N : Nat) (R t : α) (hR : R = 4 * (N : α) + 4) (ht : t = 1 / (16 * R ^ (N + 1))) :
    1 < R ∧ init (10 : α) 1000 (R * t) (-t) (1 / 4)
        = some (⟨1 / 4, 10, 1000, R * t, -t, 10, 10, R * t, true, none⟩ : St α)
      ∧ Over R N (⟨1 / 4, 10, 1000, R * t, -t, 10, 10, R * t, true, none⟩ : St α) := by
  have hN : (0 : α) ≤ N := Nat.cast_nonneg N
  have hR1 : 1 < R := by rw [hR]; linarith
  have hR0 : 0 < R := by linarith
  have ht0 : 0 < t := by rw [ht]; positivity
  have hRt : 0 < R * t := by positivity
  refine ⟨hR1, ?_, ?_⟩
  · apply init_eq_of_better (by norm_num)
    · nlinarith
    · rw [abs_of_pos hRt, abs_neg, abs_of_pos ht0]
      intro hc; nlinarith
  · refine ⟨rfl, by show R * t = -R * -t; ring, by show -t ≠ 0; exact neg_ne_zero.mpr (ne_of_gt ht0),
      ?_, le_refl _, ?_, ?_, ?_, ?_, le_refl _⟩
    · show |R * t| * R ^ N ≤ 1 / 16
      rw [abs_of_pos hRt, ht]
      have : R * (1 / (16 * R ^ (N + 1))) * R ^ N = 1 / 16 := by
        rw [pow_succ]; field_simp
      rw [this]
    · show 10 ≤ min (10 : α) 1000
      rw [min_eq_left (by norm_num)]
    · show max (10 : α) 1000 ≤ 1000
      rw [max_eq_right (by norm_num)]
    · show 500 + 990 / (R + 1) * (N : α) ≤ |(1000 : α) - 10|
      rw [show (1000 : α) - 10 = 990 by norm_num, abs_of_pos (by norm_num)]
      have h1 : (0 : α) < R + 1 := by linarith
      have : 990 / (R + 1) * (N : α) ≤ 490 := by
        rw [div_mul_eq_mul_div, div_le_iff₀ h1, hR]
        nlinarith
      linarith
    · show |(1000 : α) - 10| ≤ (if true = true then |(1000 : α) - 10| else |(10 : α) - 10|)
      simp

end EmuVerif.Brent
