/-
  Helper lemmas for the termination of `Model.Brent` on brackets bounded away from 0
  (Props/C19Term.lean, Props/C18Term.lean).

  `Within tol k s` : from state `s` the loop of `find_root_brents` has converged after at most
  `k` further iterations **whatever ordinate is fed back at each iteration** (the ordinates are
  universally quantified one at a time, so they need not even be a function of the abscissa).

  The argument (ε ≥ 1/2, all of a, b, c, d in [L, H], 0 < L):
    * an interpolated step taken right after another interpolated step passes the fifth clause
      of the test, `|c − d| ≥ δ = |2 ε b|`; as `c, d > 0`, `|c − d| < max c d`, hence
      `2 ε b < max c d`                                                    (`interp_needs_small_b`);
    * after the step `c, d` become `b, c`: along a run of interpolated steps `max c d` does not
      grow and is divided by more than `2 ε` every second step; it cannot drop below `L`, so if
      `H ≤ L (2ε)^m` a run has at most `2m` further steps before a bisection (`run_within`);
    * a bisection halves the bracket exactly, no step widens it (`Proofs/Brent.lean`), and the
      loop stops when the width is `< tol`                                 (`pos_within`).
-/
import EmuVerif.Proofs.Brent

set_option linter.unusedSectionVars false

namespace EmuVerif.Brent
open EmuVerif

variable {α : Type} [Field α] [LinearOrder α] [IsStrictOrderedRing α]

/-- The state after one loop iteration in which the ordinate `y` is fed back. -/
def nextSt (s : St α) (y : α) : St α := provide (getNext s).1 (getNext s).2 y

theorem swap_d (s : St α) : (swapIfNeeded s).d = s.d := by
  rcases swap_cases s with ⟨e, _⟩ | ⟨e, _⟩ <;> rw [e]

theorem provide_d (s : St α) (x y : α) : (provide s x y).d = s.d := by
  unfold provide; rw [swap_d]
  rcases updateInterval_cases s x y with ⟨e, _⟩ | ⟨e, _⟩ <;> rw [e]

theorem nextSt_c (s : St α) (y : α) : (nextSt s y).c = s.b := by
  unfold nextSt; rw [provide_c, getNext_fst]

theorem nextSt_d (s : St α) (y : α) : (nextSt s y).d = s.c := by
  unfold nextSt; rw [provide_d, getNext_fst]

theorem nextSt_eps (s : St α) (y : α) : (nextSt s y).eps = s.eps := by
  unfold nextSt; rw [provide_eps, getNext_fst]

theorem nextSt_bisection (s : St α) (y : α) :
    (nextSt s y).bisection = useBisect s (interpDx s) := by
  unfold nextSt; rw [provide_bisection, getNext_fst]

theorem nextSt_hull (s : St α) (y : α) : lo s ≤ lo (nextSt s y) ∧ hi (nextSt s y) ≤ hi s := by
  have hm := getNext_mem s
  have hlo : lo (getNext s).1 = lo s := by rw [getNext_fst]; rfl
  have hhi : hi (getNext s).1 = hi s := by rw [getNext_fst]; rfl
  have hh := provide_hull (getNext s).1 (getNext s).2 y (by rw [hlo, hhi]; exact hm)
  rw [hlo, hhi] at hh
  exact hh

theorem nextSt_width_le (s : St α) (y : α) : |(nextSt s y).b - (nextSt s y).a| ≤ |s.b - s.a| :=
  iter_width_le s y

theorem nextSt_width_bisect (s : St α) (y : α) (hb : useBisect s (interpDx s) = true) :
    |(nextSt s y).b - (nextSt s y).a| = |s.b - s.a| / 2 :=
  iter_width_bisect s y hb

/-! ### Convergence within `k` iterations for every ordinate sequence -/

/-- `Within tol k s`: converged now, or after one more iteration — whatever ordinate comes back —
`Within tol (k-1)`. -/
def Within (tol : α) : Nat → St α → Prop
  | 0, s => isConverged s tol = true
  | k + 1, s => isConverged s tol = true ∨ ∀ y, Within tol k (nextSt s y)

theorem within_of_converged (tol : α) (k : Nat) (s : St α) (h : isConverged s tol = true) :
    Within tol k s := by
  cases k with
  | zero => exact h
  | succ k => exact Or.inl h

theorem within_succ (tol : α) : ∀ (k : Nat) (s : St α), Within tol k s → Within tol (k + 1) s
  | 0, _, h => Or.inl h
  | k + 1, s, h => by
    rcases h with h | h
    · exact Or.inl h
    · exact Or.inr (fun y => within_succ tol k _ (h y))

theorem within_mono (tol : α) {k k' : Nat} (hk : k ≤ k') (s : St α) (h : Within tol k s) :
    Within tol k' s := by
  induction hk with
  | refl => exact h
  | step _ ih => exact within_succ tol _ s ih

/-- one more iteration: it is enough to look at the unconverged case -/
theorem within_step (tol : α) (k : Nat) (s : St α)
    (h : isConverged s tol = false → ∀ y, Within tol k (nextSt s y)) : Within tol (k + 1) s := by
  by_cases hc : isConverged s tol = true
  · exact Or.inl hc
  · exact Or.inr (h (by simpa using hc))

theorem converged_iff (s : St α) (tol : α) : isConverged s tol = true ↔ |s.b - s.a| < tol := by
  simp [isConverged, absv_eq_abs]

/-- `find_root_brents` returns if it is given `k + 1` units of fuel. -/
theorem findRoot_of_within (f : α → α) (tol : α) :
    ∀ (k : Nat) (s : St α) (acc : List α), Within tol k s →
      ∃ r, findRoot f tol (k + 1) s acc = some r
  | 0, s, acc, h => by
    refine ⟨(s, acc.reverse), ?_⟩
    unfold findRoot
    have h' : isConverged s tol = true := h
    simp [h']
  | k + 1, s, acc, h => by
    unfold findRoot
    by_cases hc : isConverged s tol = true
    · exact ⟨(s, acc.reverse), by simp [hc]⟩
    · simp only [hc, Bool.false_eq_true, if_false]
      rcases h with h | h
      · exact absurd h hc
      · exact findRoot_of_within f tol k _ _ (h (f (getNext s).2))

/-- The tape-driven protocol reports convergence on every tape of at least `k` ordinates. -/
theorem runTape_of_within (tol : α) :
    ∀ (k : Nat) (ys : List α) (s : St α) (acc : List α), Within tol k s → k ≤ ys.length →
      (runTape tol ys s acc).2.2 = true
  | 0, [], s, acc, h, _ => by
    have h' : isConverged s tol = true := h
    simp [runTape, h']
  | 0, y :: ys, s, acc, h, _ => by
    have h' : isConverged s tol = true := h
    simp [runTape, h']
  | k + 1, [], s, acc, _, hl => by simp at hl
  | k + 1, y :: ys, s, acc, h, hl => by
    unfold runTape
    by_cases hc : isConverged s tol = true
    · simp [hc]
    · simp only [hc, Bool.false_eq_true, if_false]
      rcases h with h | h
      · exact absurd h hc
      · exact runTape_of_within tol k ys _ _ (h y) (by simpa using hl)

/-! ### The bracket and the two previous iterates stay in `[L, H]` -/

/-- `a, b, c, d ∈ [L, H]`, `0 < L`, and the state's `epsilon` is `e`. -/
structure PosB (L H e : α) (s : St α) : Prop where
  posL : 0 < L
  epsEq : s.eps = e
  loL : L ≤ lo s
  hiH : hi s ≤ H
  cL : L ≤ s.c
  cH : s.c ≤ H
  dL : L ≤ s.d
  dH : s.d ≤ H

theorem PosB.bL {L H e : α} {s : St α} (h : PosB L H e s) : L ≤ s.b :=
  le_trans h.loL (min_le_right _ _)

theorem PosB.bH {L H e : α} {s : St α} (h : PosB L H e s) : s.b ≤ H :=
  le_trans (le_max_right _ _) h.hiH

theorem posB_step {L H e : α} (s : St α) (y : α) (h : PosB L H e s) : PosB L H e (nextSt s y) := by
  obtain ⟨h1, h2⟩ := nextSt_hull s y
  refine ⟨h.posL, by rw [nextSt_eps]; exact h.epsEq, le_trans h.loL h1, le_trans h2 h.hiH, ?_, ?_, ?_, ?_⟩
  · rw [nextSt_c]; exact h.bL
  · rw [nextSt_c]; exact h.bH
  · rw [nextSt_d]; exact h.cL
  · rw [nextSt_d]; exact h.cH

theorem posB_init {start stop fS fE eps : α} {s : St α}
    (h : init start stop fS fE eps = some s) (hpos : 0 < start) : PosB start stop eps s := by
  obtain ⟨hle, hlt, _, hlo, hhi, he, _, hc, _⟩ := init_some h
  have hd : s.d = s.a := by
    unfold init at h
    simp only [hle, (oppSign_iff _ _).mpr hlt, not_true_eq_false, if_false, Option.some.injEq] at h
    rw [← h]
  have haL : start ≤ s.a := by rw [← hlo]; exact min_le_left _ _
  have haH : s.a ≤ stop := by rw [← hhi]; exact le_max_left _ _
  refine ⟨hpos, he, le_of_eq hlo.symm, le_of_eq hhi, ?_, ?_, ?_, ?_⟩
  · rw [hc]; exact haL
  · rw [hc]; exact haH
  · rw [hd]; exact haL
  · rw [hd]; exact haH

/-- **What an accepted interpolation after an interpolation needs**: `2 ε b < max c d`. -/
theorem interp_needs_small_b {L H e : α} (s : St α) (h : PosB L H e s) (he : 0 < e) (dx : α)
    (hb : s.bisection = false) (hu : useBisect s dx = false) : 2 * e * s.b < max s.c s.d := by
  have hb0 : 0 < s.b := lt_of_lt_of_le h.posL h.bL
  have hc0 : 0 < s.c := lt_of_lt_of_le h.posL h.cL
  have hd0 : 0 < s.d := lt_of_lt_of_le h.posL h.dL
  have hu' : ¬ useBisect s dx = true := by rw [hu]; simp
  simp only [useBisect_eq, useBisect5, absv_eq_abs, hb, Bool.false_and, Bool.or_false, Bool.not_false,
    Bool.true_and, Bool.or_eq_true, decide_eq_true_eq, not_or, h.epsEq] at hu'
  obtain ⟨_, h5⟩ := hu'
  have h5 : |2 * e * s.b| ≤ |s.c - s.d| := not_lt.mp h5
  rw [abs_of_pos (by positivity)] at h5
  have h6 : |s.c - s.d| < max s.c s.d := by
    rcases le_total s.c s.d with hcd | hcd
    · rw [abs_of_nonpos (by linarith), max_eq_right hcd]; linarith
    · rw [abs_of_nonneg (by linarith), max_eq_left hcd]; linarith
  linarith

/-- A run of interpolated steps is cut after `2 i + 1` iterations at the latest when
`max c d ≤ L (2ε)^i`; `G` iterations suffice once the width has been halved. -/
theorem run_within (tol : α) {L H e : α} (he : 1 ≤ 2 * e) (n G : Nat)
    (hG : ∀ s : St α, PosB L H e s → |s.b - s.a| < tol * 2 ^ n → Within tol G s) :
    ∀ (i : Nat) (s : St α), PosB L H e s → s.bisection = false →
      max s.c s.d ≤ L * (2 * e) ^ i → |s.b - s.a| < tol * 2 ^ (n + 1) →
      Within tol (2 * i + 1 + G) s := by
  have he0 : 0 < e := by linarith
  have hhalf : ∀ (s : St α) (y : α), |s.b - s.a| < tol * 2 ^ (n + 1) →
      useBisect s (interpDx s) = true → |(nextSt s y).b - (nextSt s y).a| < tol * 2 ^ n := by
    intro s y hw hb
    rw [nextSt_width_bisect s y hb]
    have : tol * 2 ^ (n + 1) = tol * 2 ^ n * 2 := by ring
    rw [this] at hw
    linarith
  intro i
  induction i with
  | zero =>
    intro s hp hbis hM hw
    rw [show 2 * 0 + 1 + G = G + 1 by ring]
    apply within_step
    intro _ y
    have hb : useBisect s (interpDx s) = true := by
      by_contra hnb
      have hnb : useBisect s (interpDx s) = false := by simpa using hnb
      have h1 := interp_needs_small_b s hp he0 _ hbis hnb
      have h2 : 0 < s.b := lt_of_lt_of_le hp.posL hp.bL
      have h3 := hp.bL
      simp only [pow_zero, mul_one] at hM
      nlinarith
    exact hG _ (posB_step s y hp) (hhalf s y hw hb)
  | succ i ih =>
    intro s hp hbis hM hw
    have hLp : 0 ≤ L * (2 * e) ^ i := by
      have := hp.posL
      positivity
    have hpow : L * (2 * e) ^ (i + 1) = 2 * e * (L * (2 * e) ^ i) := by ring
    rw [show 2 * (i + 1) + 1 + G = (2 * i + 1 + G + 1) + 1 by ring]
    apply within_step
    intro _ y
    have hp1 := posB_step s y hp
    by_cases hb : useBisect s (interpDx s) = true
    · exact within_mono tol (by omega) _ (hG _ hp1 (hhalf s y hw hb))
    · have hb : useBisect s (interpDx s) = false := by simpa using hb
      have h1 := interp_needs_small_b s hp he0 _ hbis hb
      -- b < L (2e)^i
      have hbi : s.b < L * (2 * e) ^ i := by
        have : 2 * e * s.b < 2 * e * (L * (2 * e) ^ i) := by
          rw [← hpow]; exact lt_of_lt_of_le h1 hM
        exact lt_of_mul_lt_mul_left this (by linarith)
      have hbis1 : (nextSt s y).bisection = false := by rw [nextSt_bisection]; exact hb
      have hw1 : |(nextSt s y).b - (nextSt s y).a| < tol * 2 ^ (n + 1) :=
        lt_of_le_of_lt (nextSt_width_le s y) hw
      apply within_step
      intro _ y1
      have hp2 := posB_step _ y1 hp1
      by_cases hb1 : useBisect (nextSt s y) (interpDx (nextSt s y)) = true
      · exact within_mono tol (by omega) _ (hG _ hp2 (hhalf _ y1 hw1 hb1))
      · have hb1 : useBisect (nextSt s y) (interpDx (nextSt s y)) = false := by simpa using hb1
        have h2 := interp_needs_small_b _ hp1 he0 _ hbis1 hb1
        rw [nextSt_c, nextSt_d] at h2
        have hcM : s.c ≤ L * (2 * e) ^ (i + 1) := le_trans (le_max_left _ _) hM
        have hbM : s.b ≤ L * (2 * e) ^ (i + 1) := by
          rw [hpow]
          have : L * (2 * e) ^ i ≤ 2 * e * (L * (2 * e) ^ i) := by nlinarith
          linarith
        have hb1i : (nextSt s y).b < L * (2 * e) ^ i := by
          have : 2 * e * (nextSt s y).b < 2 * e * (L * (2 * e) ^ i) := by
            rw [← hpow]; exact lt_of_lt_of_le h2 (max_le hbM hcM)
          exact lt_of_mul_lt_mul_left this (by linarith)
        apply ih _ hp2
        · rw [nextSt_bisection]; exact hb1
        · rw [nextSt_c, nextSt_d, nextSt_c]
          exact max_le (le_of_lt hb1i) (le_of_lt hbi)
        · exact lt_of_le_of_lt (nextSt_width_le _ y1) hw1

/-- **Termination bound for brackets bounded away from 0 (ε ≥ 1/2).** With `H ≤ L (2ε)^m` and a
bracket narrower than `tol · 2^n`, at most `n (2m + 2)` iterations — for every ordinate sequence. -/
theorem pos_within (tol : α) {L H e : α} (he : 1 ≤ 2 * e) (m : Nat) (hm : H ≤ L * (2 * e) ^ m) :
    ∀ (n : Nat) (s : St α), PosB L H e s → |s.b - s.a| < tol * 2 ^ n →
      Within tol (n * (2 * m + 2)) s := by
  intro n
  induction n with
  | zero =>
    intro s _ hw
    simp only [pow_zero, mul_one] at hw
    rw [Nat.zero_mul]
    exact (converged_iff s tol).mpr hw
  | succ n ih =>
    intro s hp hw
    rw [show (n + 1) * (2 * m + 2) = (2 * m + 1 + n * (2 * m + 2)) + 1 by ring]
    apply within_step
    intro _ y
    have hp1 := posB_step s y hp
    by_cases hb : useBisect s (interpDx s) = true
    · apply within_mono tol (by omega) _ (ih _ hp1 ?_)
      rw [nextSt_width_bisect s y hb]
      have : tol * 2 ^ (n + 1) = tol * 2 ^ n * 2 := by ring
      rw [this] at hw
      linarith
    · have hb : useBisect s (interpDx s) = false := by simpa using hb
      apply run_within tol he n _ ih m _ hp1
      · rw [nextSt_bisection]; exact hb
      · exact le_trans (max_le hp1.cH hp1.dH) hm
      · exact lt_of_le_of_lt (nextSt_width_le s y) hw

end EmuVerif.Brent
