/-
  Termination bound for brackets in `[0, H]` — the lower end may be 0 — when ε ≥ 1/2
  (helper lemmas for Props/C19Term.lean, Props/C18Term.lean).

  `Proofs/BrentTerm.lean` uses `max(c, d) ≥ L > 0` to stop a run of interpolated steps. With
  `L = 0` the tolerance takes over: once `max(c, d) ≤ θ < tol`
    * an accepted step has `b ≤ 2εb ≤ max(c, d) ≤ θ < tol`; the loop has not converged, so
      `|a − b| ≥ tol`, and `a ≥ 0` leaves only `a > b`: `b` is the lower end of the bracket and the
      next `b` (a point of the new bracket) is not smaller;
    * three accepted steps in a row then give `b₀ ≤ b₁ ≤ b₂` and `2ε b₂ ≤ max(b₁, b₀) = b₁`, so
      `b₂ = b₁`, the next state has `c = d`, and `|dx| ≥ |c − d|/2 = 0` forces a bisection
      (`tail_within`).
  Hence at most `2m + 4` iterations between two bisections when `H ≤ θ (2ε)^m`.
-/
import EmuVerif.Proofs.BrentTerm

set_option linter.unusedSectionVars false

namespace EmuVerif.Brent
open EmuVerif

variable {α : Type} [Field α] [LinearOrder α] [IsStrictOrderedRing α]

/-- `a, b, c, d ∈ [0, H]` and the state's `epsilon` is `e` -/
structure NnB (H e : α) (s : St α) : Prop where
  epsEq : s.eps = e
  lo0 : 0 ≤ lo s
  hiH : hi s ≤ H
  c0 : 0 ≤ s.c
  cH : s.c ≤ H
  d0 : 0 ≤ s.d
  dH : s.d ≤ H

theorem NnB.b0 {H e : α} {s : St α} (h : NnB H e s) : 0 ≤ s.b := le_trans h.lo0 (min_le_right _ _)
theorem NnB.bH {H e : α} {s : St α} (h : NnB H e s) : s.b ≤ H := le_trans (le_max_right _ _) h.hiH
theorem NnB.a0 {H e : α} {s : St α} (h : NnB H e s) : 0 ≤ s.a := le_trans h.lo0 (min_le_left _ _)

theorem nnB_step {H e : α} (s : St α) (y : α) (h : NnB H e s) : NnB H e (nextSt s y) := by
  obtain ⟨h1, h2⟩ := nextSt_hull s y
  refine ⟨by rw [nextSt_eps]; exact h.epsEq, le_trans h.lo0 h1, le_trans h2 h.hiH, ?_, ?_, ?_, ?_⟩
  · rw [nextSt_c]; exact h.b0
  · rw [nextSt_c]; exact h.bH
  · rw [nextSt_d]; exact h.c0
  · rw [nextSt_d]; exact h.cH

theorem nnB_init {start stop fS fE eps : α} {s : St α}
    (h : init start stop fS fE eps = some s) (hpos : 0 ≤ start) : NnB stop eps s := by
  obtain ⟨hle, hlt, _, hlo, hhi, he, _, hc, _⟩ := init_some h
  have hd : s.d = s.a := by
    unfold init at h
    simp only [hle, (oppSign_iff _ _).mpr hlt, not_true_eq_false, if_false, Option.some.injEq] at h
    rw [← h]
  have haL : start ≤ s.a := by rw [← hlo]; exact min_le_left _ _
  have haH : s.a ≤ stop := by rw [← hhi]; exact le_max_left _ _
  refine ⟨he, by rw [hlo]; exact hpos, le_of_eq hhi, ?_, ?_, ?_, ?_⟩
  · rw [hc]; linarith
  · rw [hc]; exact haH
  · rw [hd]; linarith
  · rw [hd]; exact haH

/-- an accepted interpolation after an interpolation: `2 ε b ≤ max c d` (non-strict: `c, d ≥ 0`) -/
theorem interp_needs_small_b0 {H e : α} (s : St α) (h : NnB H e s) (he : 0 < e) (dx : α)
    (hb : s.bisection = false) (hu : useBisect s dx = false) : 2 * e * s.b ≤ max s.c s.d := by
  have hb0 := h.b0
  have hc0 := h.c0
  have hd0 := h.d0
  have hu' : ¬ useBisect s dx = true := by rw [hu]; simp
  simp only [useBisect_eq, useBisect5, absv_eq_abs, hb, Bool.false_and, Bool.or_false, Bool.not_false,
    Bool.true_and, Bool.or_eq_true, decide_eq_true_eq, not_or, h.epsEq] at hu'
  obtain ⟨_, h5⟩ := hu'
  have h5 : |2 * e * s.b| ≤ |s.c - s.d| := not_lt.mp h5
  rw [abs_of_nonneg (by positivity)] at h5
  have h6 : |s.c - s.d| ≤ max s.c s.d := by
    rcases le_total s.c s.d with hcd | hcd
    · rw [abs_of_nonpos (by linarith), max_eq_right hcd]; linarith
    · rw [abs_of_nonneg (by linarith), max_eq_left hcd]; linarith
  linarith

/-- `c = d` after an interpolation forces a bisection (`|dx| ≥ |c − d|/2 = 0`) -/
theorem bisect_of_c_eq_d (s : St α) (dx : α) (hb : s.bisection = false) (hcd : s.c = s.d) :
    useBisect s dx = true := by
  have : absv dx ≥ absv (s.c - s.d) / 2 := by
    rw [absv_eq_abs, absv_eq_abs, hcd, sub_self, abs_zero, zero_div]; exact abs_nonneg dx
  simp [useBisect_eq, useBisect5, hb, this]

/-- not converged and `b < tol`: `b` is the lower end of the bracket, so the next `b` is `≥ b` -/
theorem next_b_ge {H e : α} (s : St α) (y tol : α) (h : NnB H e s)
    (hconv : isConverged s tol = false) (hb : s.b < tol) : s.b ≤ (nextSt s y).b := by
  have hnc : ¬ |s.b - s.a| < tol := by
    intro hc; rw [(converged_iff s tol).mpr hc] at hconv; simp at hconv
  have hab : s.b ≤ s.a := by
    by_contra hlt
    have hlt : s.a < s.b := not_le.mp hlt
    apply hnc
    rw [abs_of_pos (by linarith)]
    linarith [h.a0]
  have hlo : lo s = s.b := by unfold lo; exact min_eq_right hab
  have := (nextSt_hull s y).1
  rw [hlo] at this
  exact le_trans this (min_le_right _ _)

/-- Once `max c d ≤ θ < tol`, a bisection (or convergence) comes within 4 iterations. -/
theorem tail_within (tol : α) {H e θ : α} (he : 1 ≤ 2 * e) (hθ : θ < tol) (n G : Nat)
    (hG : ∀ s : St α, NnB H e s → |s.b - s.a| < tol * 2 ^ n → Within tol G s)
    (s : St α) (hp : NnB H e s) (hbis : s.bisection = false) (hM : max s.c s.d ≤ θ)
    (hw : |s.b - s.a| < tol * 2 ^ (n + 1)) : Within tol (4 + G) s := by
  have he0 : 0 < e := by linarith
  have hhalf : ∀ (s : St α) (y : α), |s.b - s.a| < tol * 2 ^ (n + 1) →
      useBisect s (interpDx s) = true → |(nextSt s y).b - (nextSt s y).a| < tol * 2 ^ n := by
    intro s y hw hb
    rw [nextSt_width_bisect s y hb]
    have : tol * 2 ^ (n + 1) = tol * 2 ^ n * 2 := by ring
    rw [this] at hw
    linarith
  -- iteration 0
  rw [show 4 + G = (3 + G) + 1 by ring]
  apply within_step
  intro hc0 y0
  have hp1 := nnB_step s y0 hp
  by_cases hb0 : useBisect s (interpDx s) = true
  · exact within_mono tol (by omega) _ (hG _ hp1 (hhalf s y0 hw hb0))
  have hb0 : useBisect s (interpDx s) = false := by simpa using hb0
  have h0 := interp_needs_small_b0 s hp he0 _ hbis hb0
  have hbnn := hp.b0
  have hbθ : s.b ≤ θ := by nlinarith
  have hmono0 : s.b ≤ (nextSt s y0).b := next_b_ge s y0 tol hp hc0 (by linarith)
  have hbis1 : (nextSt s y0).bisection = false := by rw [nextSt_bisection]; exact hb0
  have hw1 : |(nextSt s y0).b - (nextSt s y0).a| < tol * 2 ^ (n + 1) :=
    lt_of_le_of_lt (nextSt_width_le s y0) hw
  -- iteration 1
  rw [show 3 + G = (2 + G) + 1 by ring]
  apply within_step
  intro hc1 y1
  have hp2 := nnB_step _ y1 hp1
  by_cases hb1 : useBisect (nextSt s y0) (interpDx (nextSt s y0)) = true
  · exact within_mono tol (by omega) _ (hG _ hp2 (hhalf _ y1 hw1 hb1))
  have hb1 : useBisect (nextSt s y0) (interpDx (nextSt s y0)) = false := by simpa using hb1
  have h1 := interp_needs_small_b0 _ hp1 he0 _ hbis1 hb1
  rw [nextSt_c, nextSt_d] at h1
  have hcθ : s.c ≤ θ := le_trans (le_max_left _ _) hM
  have hb1nn := hp1.b0
  have hb1θ : (nextSt s y0).b ≤ θ := by
    have : max s.b s.c ≤ θ := max_le hbθ hcθ
    nlinarith
  have hmono1 : (nextSt s y0).b ≤ (nextSt (nextSt s y0) y1).b :=
    next_b_ge _ y1 tol hp1 hc1 (by linarith)
  have hbis2 : (nextSt (nextSt s y0) y1).bisection = false := by rw [nextSt_bisection]; exact hb1
  have hw2 : |(nextSt (nextSt s y0) y1).b - (nextSt (nextSt s y0) y1).a| < tol * 2 ^ (n + 1) :=
    lt_of_le_of_lt (nextSt_width_le _ y1) hw1
  -- iteration 2
  rw [show 2 + G = (1 + G) + 1 by ring]
  apply within_step
  intro _ y2
  have hp3 := nnB_step _ y2 hp2
  by_cases hb2 : useBisect (nextSt (nextSt s y0) y1) (interpDx (nextSt (nextSt s y0) y1)) = true
  · exact within_mono tol (by omega) _ (hG _ hp3 (hhalf _ y2 hw2 hb2))
  have hb2 : useBisect (nextSt (nextSt s y0) y1) (interpDx (nextSt (nextSt s y0) y1)) = false := by
    simpa using hb2
  have h2 := interp_needs_small_b0 _ hp2 he0 _ hbis2 hb2
  rw [nextSt_c, nextSt_d, nextSt_c, max_eq_left hmono0] at h2
  have hb2nn := hp2.b0
  have heq : (nextSt (nextSt s y0) y1).b = (nextSt s y0).b := by
    apply le_antisymm _ hmono1
    nlinarith
  have hbis3 : (nextSt (nextSt (nextSt s y0) y1) y2).bisection = false := by
    rw [nextSt_bisection]; exact hb2
  have hw3 : |(nextSt (nextSt (nextSt s y0) y1) y2).b - (nextSt (nextSt (nextSt s y0) y1) y2).a|
      < tol * 2 ^ (n + 1) := lt_of_le_of_lt (nextSt_width_le _ y2) hw2
  -- iteration 3: `c = d`, bisection forced
  rw [show 1 + G = G + 1 by ring]
  apply within_step
  intro _ y3
  have hcd : (nextSt (nextSt (nextSt s y0) y1) y2).c = (nextSt (nextSt (nextSt s y0) y1) y2).d := by
    rw [nextSt_c, nextSt_d, nextSt_c]; exact heq
  have hb3 := bisect_of_c_eq_d _ (interpDx (nextSt (nextSt (nextSt s y0) y1) y2)) hbis3 hcd
  exact hG _ (nnB_step _ y3 hp3) (hhalf _ y3 hw3 hb3)

/-- A run of interpolated steps is cut after `2 i + 4` iterations at the latest when
`max c d ≤ θ (2ε)^i`, `0 < θ < tol`. -/
theorem run0_within (tol : α) {H e θ : α} (he : 1 ≤ 2 * e) (hθ0 : 0 < θ) (hθ : θ < tol) (n G : Nat)
    (hG : ∀ s : St α, NnB H e s → |s.b - s.a| < tol * 2 ^ n → Within tol G s) :
    ∀ (i : Nat) (s : St α), NnB H e s → s.bisection = false →
      max s.c s.d ≤ θ * (2 * e) ^ i → |s.b - s.a| < tol * 2 ^ (n + 1) →
      Within tol (2 * i + 4 + G) s := by
  have he0 : 0 < e := by linarith
  have hhalf : ∀ (s : St α) (y : α), |s.b - s.a| < tol * 2 ^ (n + 1) →
      useBisect s (interpDx s) = true → |(nextSt s y).b - (nextSt s y).a| < tol * 2 ^ n := by
    intro s y hw hb
    rw [nextSt_width_bisect s y hb]
    have : tol * 2 ^ (n + 1) = tol * 2 ^ n * 2 := by ring
    rw [this] at hw
    linarith
  intro i
  induction i with
  | zero =>
    intro s hp hbis hM hw
    rw [show 2 * 0 + 4 + G = 4 + G by ring]
    simp only [pow_zero, mul_one] at hM
    exact tail_within tol he hθ n G hG s hp hbis hM hw
  | succ i ih =>
    intro s hp hbis hM hw
    have hLp : 0 ≤ θ * (2 * e) ^ i := by positivity
    have hpow : θ * (2 * e) ^ (i + 1) = 2 * e * (θ * (2 * e) ^ i) := by ring
    rw [show 2 * (i + 1) + 4 + G = (2 * i + 4 + G + 1) + 1 by ring]
    apply within_step
    intro _ y
    have hp1 := nnB_step s y hp
    by_cases hb : useBisect s (interpDx s) = true
    · exact within_mono tol (by omega) _ (hG _ hp1 (hhalf s y hw hb))
    · have hb : useBisect s (interpDx s) = false := by simpa using hb
      have h1 := interp_needs_small_b0 s hp he0 _ hbis hb
      have hbi : s.b ≤ θ * (2 * e) ^ i := by
        have : 2 * e * s.b ≤ 2 * e * (θ * (2 * e) ^ i) := by
          rw [← hpow]; exact le_trans h1 hM
        exact le_of_mul_le_mul_left this (by linarith)
      have hbis1 : (nextSt s y).bisection = false := by rw [nextSt_bisection]; exact hb
      have hw1 : |(nextSt s y).b - (nextSt s y).a| < tol * 2 ^ (n + 1) :=
        lt_of_le_of_lt (nextSt_width_le s y) hw
      apply within_step
      intro _ y1
      have hp2 := nnB_step _ y1 hp1
      by_cases hb1 : useBisect (nextSt s y) (interpDx (nextSt s y)) = true
      · exact within_mono tol (by omega) _ (hG _ hp2 (hhalf _ y1 hw1 hb1))
      · have hb1 : useBisect (nextSt s y) (interpDx (nextSt s y)) = false := by simpa using hb1
        have h2 := interp_needs_small_b0 _ hp1 he0 _ hbis1 hb1
        rw [nextSt_c, nextSt_d] at h2
        have hcM : s.c ≤ θ * (2 * e) ^ (i + 1) := le_trans (le_max_left _ _) hM
        have hbM : s.b ≤ θ * (2 * e) ^ (i + 1) := by
          rw [hpow]
          have : θ * (2 * e) ^ i ≤ 2 * e * (θ * (2 * e) ^ i) := by nlinarith
          linarith
        have hb1i : (nextSt s y).b ≤ θ * (2 * e) ^ i := by
          have : 2 * e * (nextSt s y).b ≤ 2 * e * (θ * (2 * e) ^ i) := by
            rw [← hpow]; exact le_trans h2 (max_le hbM hcM)
          exact le_of_mul_le_mul_left this (by linarith)
        apply ih _ hp2
        · rw [nextSt_bisection]; exact hb1
        · rw [nextSt_c, nextSt_d, nextSt_c]
          exact max_le hb1i hbi
        · exact lt_of_le_of_lt (nextSt_width_le _ y1) hw1

/-- **Termination bound for brackets in `[0, H]` (ε ≥ 1/2).** With `H ≤ θ (2ε)^m`, `0 < θ < tol`,
and a bracket narrower than `tol · 2^n`: at most `n (2m + 5)` iterations, for every ordinate
sequence. -/
theorem nonneg_within (tol : α) {H e θ : α} (he : 1 ≤ 2 * e) (hθ0 : 0 < θ) (hθ : θ < tol) (m : Nat)
    (hm : H ≤ θ * (2 * e) ^ m) :
    ∀ (n : Nat) (s : St α), NnB H e s → |s.b - s.a| < tol * 2 ^ n →
      Within tol (n * (2 * m + 5)) s := by
  intro n
  induction n with
  | zero =>
    intro s _ hw
    simp only [pow_zero, mul_one] at hw
    rw [Nat.zero_mul]
    exact (converged_iff s tol).mpr hw
  | succ n ih =>
    intro s hp hw
    rw [show (n + 1) * (2 * m + 5) = (2 * m + 4 + n * (2 * m + 5)) + 1 by ring]
    apply within_step
    intro _ y
    have hp1 := nnB_step s y hp
    by_cases hb : useBisect s (interpDx s) = true
    · apply within_mono tol (by omega) _ (ih _ hp1 ?_)
      rw [nextSt_width_bisect s y hb]
      have : tol * 2 ^ (n + 1) = tol * 2 ^ n * 2 := by ring
      rw [this] at hw
      linarith
    · have hb : useBisect s (interpDx s) = false := by simpa using hb
      apply run0_within tol he hθ0 hθ n _ ih m _ hp1
      · rw [nextSt_bisection]; exact hb
      · exact le_trans (max_le hp1.cH hp1.dH) hm
      · exact lt_of_le_of_lt (nextSt_width_le s y) hw

end EmuVerif.Brent
