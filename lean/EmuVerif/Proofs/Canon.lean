/- Helper lemmas about `Model.Canon`: closed forms of the sweeps, and preservation of the
   canonical-form invariant by every transition. Pure `Nat` bookkeeping. -/
import EmuVerif.Model.Canon
import Mathlib.Tactic.SplitIfs
import Mathlib.Tactic.Cases

namespace EmuVerif.Canon

/-- **The canonical-form invariant**: what a declared centre claims is backed by what was done. -/
structure Inv (s : St) : Prop where
  pos : 0 < s.n
  ctr : ∀ c, s.centre = some c →
    c < s.n ∧ (∀ j, j < c → (s.flags j).isL = true) ∧ (∀ j, c < j → j < s.n → (s.flags j).isR = true)

/-! ### closed forms of the two sweeps -/

theorem lrSweep_apply (fl : Nat → Flag) (a k j : Nat) :
    lrSweep fl a k j =
      if a ≤ j ∧ j < a + k then Flag.L else if j = a + k ∧ 0 < k then Flag.U else fl j := by
  induction k generalizing fl a with
  | zero =>
    simp only [lrSweep]
    split_ifs <;> first | rfl | (exfalso; omega)
  | succ k ih =>
    rw [lrSweep, ih]
    simp only [upd]
    split_ifs <;> first | rfl | (exfalso; omega)

theorem rlSweep_apply (fl : Nat → Flag) (a k j : Nat) (hk : k ≤ a) :
    rlSweep fl a k j =
      if a - k < j ∧ j ≤ a then Flag.R else if j = a - k ∧ 0 < k then Flag.U else fl j := by
  induction k generalizing fl a with
  | zero =>
    simp only [rlSweep]
    split_ifs <;> first | rfl | (exfalso; omega)
  | succ k ih =>
    rw [rlSweep, ih _ _ (by omega)]
    simp only [upd]
    split_ifs <;> first | rfl | (exfalso; omega)

/-! ### `orthogonalize` -/

theorem orthogonalize_some {s s' : St} {k : Nat} (h : orthogonalize s k = some s') :
    k < s.n ∧ s'.n = s.n ∧ s'.centre = some k ∧
    s'.flags = rlSweep (lrSweep s.flags (s.centre.getD 0) (k - s.centre.getD 0))
      (s.centre.getD (s.n - 1)) (s.centre.getD (s.n - 1) - k) := by
  unfold orthogonalize at h
  split at h
  · simp only [Option.some.injEq] at h
    subst h
    exact ⟨‹_›, rfl, rfl, rfl⟩
  · exact absurd h (by simp)

theorem orthogonalize_isSome {s : St} {k : Nat} (hk : k < s.n) : ∃ s', orthogonalize s k = some s' := by
  unfold orthogonalize
  simp [hk]

theorem orthogonalize_inv {s s' : St} {k : Nat} (hi : Inv s) (h : orthogonalize s k = some s') :
    Inv s' ∧ s'.n = s.n ∧ s'.centre = some k := by
  obtain ⟨hk, hn, hc, hf⟩ := orthogonalize_some h
  refine ⟨⟨by rw [hn]; exact hi.pos, ?_⟩, hn, hc⟩
  intro c hcc
  rw [hc] at hcc
  simp only [Option.some.injEq] at hcc
  subst hcc
  rw [hn, hf]
  refine ⟨hk, ?_, ?_⟩
  · intro j hj
    cases hcen : s.centre with
    | none =>
      simp only [Option.getD_none]
      rw [rlSweep_apply _ _ _ _ (by omega), lrSweep_apply]
      split_ifs <;> first | rfl | (exfalso; omega)
    | some c =>
      obtain ⟨hcn, hL, hR⟩ := hi.ctr c hcen
      simp only [Option.getD_some]
      rw [rlSweep_apply _ _ _ _ (by omega), lrSweep_apply]
      split_ifs <;> first | rfl | (exfalso; omega) | (apply hL; omega)
  · intro j hj hjn
    cases hcen : s.centre with
    | none =>
      simp only [Option.getD_none]
      rw [rlSweep_apply _ _ _ _ (by omega), lrSweep_apply]
      split_ifs <;> first | rfl | (exfalso; omega)
    | some c =>
      obtain ⟨hcn, hL, hR⟩ := hi.ctr c hcen
      simp only [Option.getD_some]
      rw [rlSweep_apply _ _ _ _ (by omega), lrSweep_apply]
      split_ifs <;> first | rfl | (exfalso; omega) | (apply hR <;> omega)

/-! ### the other transitions -/

theorem truncateImpl_apply (n : Nat) (fl : Nat → Flag) (j : Nat) (h0 : 0 < j) (hj : j < n) :
    truncateImpl n fl j = Flag.R := by
  unfold truncateImpl
  rw [rlSweep_apply _ _ _ _ (Nat.le_refl _)]
  split_ifs <;> first | rfl | (exfalso; omega)

theorem truncate_inv {s s' : St} (hi : Inv s) (h : truncate s = some s') :
    Inv s' ∧ s'.n = s.n ∧ s'.centre = some 0 := by
  unfold truncate at h
  cases ho : orthogonalize s (s.n - 1) with
  | none => rw [ho] at h; exact absurd h (by simp)
  | some s1 =>
    rw [ho] at h
    simp only [Option.some.injEq] at h
    subst h
    obtain ⟨hi1, hn1, _⟩ := orthogonalize_inv hi ho
    refine ⟨⟨hi1.pos, ?_⟩, hn1, rfl⟩
    intro c hc
    simp only [Option.some.injEq] at hc
    subst hc
    refine ⟨hi1.pos, fun j hj => absurd hj (by omega), ?_⟩
    intro j h0 hj
    show (truncateImpl s1.n s1.flags j).isR = true
    rw [truncateImpl_apply _ _ _ h0 hj]
    rfl

theorem fresh_inv {n : Nat} (hn : 0 < n) : Inv (fresh n) :=
  ⟨hn, fun c hc => absurd hc (by simp [fresh])⟩

theorem make_inv {n : Nat} (hn : 0 < n) : Inv (make n) :=
  ⟨hn, fun c hc => by
    simp only [make, Option.some.injEq] at hc
    subst hc
    exact ⟨hn, fun _ _ => rfl, fun _ _ _ => rfl⟩⟩

theorem scale_inv {s : St} (hi : Inv s) : Inv (scale s) ∧ (scale s).n = s.n ∧ (scale s).centre = s.centre := by
  refine ⟨⟨hi.pos, ?_⟩, rfl, rfl⟩
  intro c hc
  have hc' : s.centre = some c := hc
  obtain ⟨hcn, hL, hR⟩ := hi.ctr c hc'
  refine ⟨hcn, ?_, ?_⟩
  · intro j hj
    show (upd s.flags (s.centre.getD 0) Flag.U j).isL = true
    rw [hc']
    simp only [Option.getD_some, upd]
    rw [if_neg (by omega)]
    exact hL j hj
  · intro j hj hjn
    show (upd s.flags (s.centre.getD 0) Flag.U j).isR = true
    rw [hc']
    simp only [Option.getD_some, upd]
    rw [if_neg (by omega)]
    exact hR j hj hjn

/-- Overwriting the centre factor itself never touches the claim. -/
theorem upd_centre_inv {s : St} {k : Nat} (f : Flag) (hi : Inv s) (hc : s.centre = some k) :
    Inv { s with flags := upd s.flags k f } := by
  refine ⟨hi.pos, ?_⟩
  intro c hcc
  have : c = k := by
    have h2 : s.centre = some c := hcc
    rw [hc] at h2
    simpa using h2.symm
  subst this
  obtain ⟨hcn, hL, hR⟩ := hi.ctr c hc
  refine ⟨hcn, ?_, ?_⟩
  · intro j hj
    show (upd s.flags c f j).isL = true
    simp only [upd]
    rw [if_neg (by omega)]
    exact hL j hj
  · intro j hj hjn
    show (upd s.flags c f j).isR = true
    simp only [upd]
    rw [if_neg (by omega)]
    exact hR j hj hjn

theorem applyOp_inv {s s' : St} {k : Nat} (hi : Inv s) (h : applyOp s k = some s') :
    Inv s' ∧ s'.n = s.n ∧ s'.centre = some k := by
  unfold applyOp at h
  cases ho : orthogonalize s k with
  | none => rw [ho] at h; exact absurd h (by simp)
  | some s1 =>
    rw [ho] at h
    simp only [Option.some.injEq] at h
    subst h
    obtain ⟨hi1, hn1, hc1⟩ := orthogonalize_inv hi ho
    exact ⟨upd_centre_inv _ hi1 hc1, hn1, hc1⟩

theorem ensureCentre_inv {s s' : St} (hi : Inv s) (h : ensureCentre s = some s') : Inv s' ∧ s'.n = s.n := by
  unfold ensureCentre at h
  cases hc : s.centre with
  | none =>
    rw [hc] at h
    obtain ⟨a, b, _⟩ := orthogonalize_inv hi h
    exact ⟨a, b⟩
  | some c =>
    rw [hc] at h
    simp only [Option.some.injEq] at h
    subst h
    exact ⟨hi, rfl⟩

theorem corrLoop_inv : ∀ (k left : Nat) {s s' : St}, Inv s → corrLoop k left s = some s' →
    Inv s' ∧ s'.n = s.n
  | 0, _, s, s', hi, h => by
    simp only [corrLoop, Option.some.injEq] at h
    subst h
    exact ⟨hi, rfl⟩
  | k + 1, left, s, s', hi, h => by
    unfold corrLoop at h
    cases ho : orthogonalize s left with
    | none => rw [ho] at h; exact absurd h (by simp)
    | some s1 =>
      rw [ho] at h
      obtain ⟨hi1, hn1, _⟩ := orthogonalize_inv hi ho
      obtain ⟨a, b⟩ := corrLoop_inv k (left + 1) hi1 h
      exact ⟨a, by rw [b, hn1]⟩

theorem applyTo_inv {s : St} (hi : Inv s) :
    Inv { n := s.n, flags := truncateImpl s.n (upd (fun _ => Flag.L) (s.n - 1) Flag.U), centre := some 0 } := by
  refine ⟨hi.pos, ?_⟩
  intro c hc
  simp only [Option.some.injEq] at hc
  subst hc
  refine ⟨hi.pos, fun j hj => absurd hj (by omega), ?_⟩
  intro j h0 hj
  show (truncateImpl s.n _ j).isR = true
  rw [truncateImpl_apply _ _ _ h0 hj]
  rfl

/-- The two-site write keeps the invariant **provided the old centre is one of the two sites**. -/
theorem pairWrite_inv {s : St} {l : Nat} (ocr : Bool) (hi : Inv s)
    (hc : s.centre = some l ∨ s.centre = some (l + 1)) (hl : l + 1 < s.n) :
    Inv (pairWrite s l ocr) ∧ (pairWrite s l ocr).n = s.n := by
  have key : ∀ j, j < l → (s.flags j).isL = true := by
    intro j hj
    rcases hc with hc | hc
    · exact (hi.ctr _ hc).2.1 j hj
    · exact (hi.ctr _ hc).2.1 j (by omega)
  have key2 : ∀ j, l + 1 < j → j < s.n → (s.flags j).isR = true := by
    intro j hj hjn
    rcases hc with hc | hc
    · exact (hi.ctr _ hc).2.2 j (by omega) hjn
    · exact (hi.ctr _ hc).2.2 j hj hjn
  cases ocr with
  | true =>
    refine ⟨⟨hi.pos, ?_⟩, rfl⟩
    intro c hcc
    simp only [pairWrite, if_true, Option.some.injEq] at hcc
    subst hcc
    refine ⟨hl, ?_, ?_⟩
    · intro j hj
      show (upd (upd s.flags l Flag.L) (l + 1) Flag.U j).isL = true
      simp only [upd]
      split_ifs <;> first | rfl | (exfalso; omega) | (apply key; omega)
    · intro j hj hjn
      show (upd (upd s.flags l Flag.L) (l + 1) Flag.U j).isR = true
      simp only [upd]
      split_ifs <;> first | rfl | (exfalso; omega) | (apply key2 <;> first | omega | exact hjn)
  | false =>
    refine ⟨⟨hi.pos, ?_⟩, rfl⟩
    intro c hcc
    simp only [pairWrite, Bool.false_eq_true, if_false, Option.some.injEq] at hcc
    subst hcc
    refine ⟨show l < s.n by omega, ?_, ?_⟩
    · intro j hj
      show (upd (upd s.flags l Flag.U) (l + 1) Flag.R j).isL = true
      simp only [upd]
      split_ifs <;> first | rfl | (exfalso; omega) | (apply key; omega)
    · intro j hj hjn
      show (upd (upd s.flags l Flag.U) (l + 1) Flag.R j).isR = true
      simp only [upd]
      split_ifs <;> first | rfl | (exfalso; omega) | (apply key2 <;> first | omega | exact hjn)

end EmuVerif.Canon
