/-
  Helper lemmas for `Props/C10Bridge.lean`: the bridge between the orthogonality *flags* of
  `Model/Canon.lean` and the *actual factor tensors* of `Model/Tensor.lean` / `Model/CanonOps.lean`.

  * `LeftIso` / `RightIso`: a site tensor `(χl, d, χr)` is a left isometry (`A.view(χl·d, χr)ᴴ A.view(…) = 1`)
    resp. a right isometry (`A.view(χl, d·χr) A.view(…)ᴴ = 1`), written as sums over `Finset.range`
    (the form the `Site` model works in); `leftIso_iff_matrix` / `rightIso_iff_matrix` show these are exactly the
    hypotheses `Aᴴ * A = 1` / `A * Aᴴ = 1` of `Isometry.LeftChain.snoc` / `Isometry.RightChain.cons`.
  * one QR step of `orthogonalize` / one `split_matrix` step of `truncate_impl` writes an isometry (given the
    kernel contract), and the sweeps preserve `FlagsTrue` — "every flag the flag machine sets is true of the
    tensor it is set on".
-/
import EmuVerif.Model.CanonOps
import EmuVerif.Proofs.TensorValid
import EmuVerif.Proofs.Canon

set_option linter.unusedSectionVars false
set_option linter.unusedVariables false
set_option linter.unusedSimpArgs false

namespace EmuVerif.CanonBridge
open EmuVerif EmuVerif.Tensor EmuVerif.CanonOps Finset

variable {K : Type} [CommRing K] [StarRing K]

/-! ### isometries in the `Site` model -/

/-- `A.view(χl·d, χr)` has orthonormal columns. -/
def LeftIso (A : Site K) : Prop :=
  ∀ r < A.dr, ∀ r' < A.dr,
    ∑ x ∈ range A.d, ∑ l ∈ range A.dl, star (A.t x l r) * A.t x l r' = if r = r' then 1 else 0

/-- `A.view(χl, d·χr)` has orthonormal rows. -/
def RightIso (A : Site K) : Prop :=
  ∀ l < A.dl, ∀ l' < A.dl,
    ∑ x ∈ range A.d, ∑ r ∈ range A.dr, A.t x l r * star (A.t x l' r) = if l = l' then 1 else 0

/-- isometry half of the `torch.linalg.qr` contract in the left-to-right sweep: `qᴴ q = 1`
(`q` of shape `(χl·d, k)`) -/
def LrIso (f : QRl K) (A : Site K) : Prop :=
  ∀ k < f.k, ∀ k' < f.k,
    ∑ x ∈ range A.d, ∑ l ∈ range A.dl, star (f.q x l k) * f.q x l k' = if k = k' then 1 else 0

/-- isometry half of the `qr` contract in the right-to-left sweep: `qᴴ q = 1` for `q` of shape `(d·χr, k)`,
stated on `q.mT.view(k, d, χr)` as the model stores it -/
def RlIso (f : QRr K) (B : Site K) : Prop :=
  ∀ k < f.k, ∀ k' < f.k,
    ∑ x ∈ range B.d, ∑ r ∈ range B.dr, f.q x k r * star (f.q x k' r) = if k = k' then 1 else 0

/-- what the `eigh` contract gives for the kept block: `q[:, mb:]ᴴ q[:, mb:] = 1` -/
def SplitIso (g : Split K) (B : Site K) : Prop :=
  ∀ j < g.k, ∀ j' < g.k,
    ∑ x ∈ range B.d, ∑ r ∈ range B.dr, star (g.qk x r j) * g.qk x r j' = if j = j' then 1 else 0

theorem leftIso_lrStep (f : QRl K) (A B : Site K) (h : LrIso f A) : LeftIso (lrStep f A B).1 := h

theorem rightIso_rlStep (f : QRr K) (A B : Site K) (h : RlIso f B) : RightIso (rlStep f A B).2 := h

theorem rightIso_truncStep (g : Split K) (A B : Site K) (h : SplitIso g B) :
    RightIso (truncStep g A B).2 := by
  intro j hj j' hj'
  simp only [truncStep, Site.make_dl] at hj hj'
  simp only [truncStep, Site.make_t, Site.make_d, Site.make_dr, conj_eq_star, star_star]
  exact h j hj j' hj'

/-! ### flags that are true of the tensors -/

/-- what a flag claims about the factor it sits on -/
def FlagTrue (f : Canon.Flag) (A : Site K) : Prop :=
  (f.isL = true → LeftIso A) ∧ (f.isR = true → RightIso A)

/-- every flag is true of its factor -/
def FlagsTrue (fl : Nat → Canon.Flag) (fs : List (Site K)) : Prop :=
  ∀ j A, fs[j]? = some A → FlagTrue (fl j) A

theorem flagTrue_U (A : Site K) : FlagTrue Canon.Flag.U A :=
  ⟨fun h => by simp [Canon.Flag.isL] at h, fun h => by simp [Canon.Flag.isR] at h⟩

theorem flagTrue_L (A : Site K) (h : LeftIso A) : FlagTrue Canon.Flag.L A :=
  ⟨fun _ => h, fun h' => by simp [Canon.Flag.isR] at h'⟩

theorem flagTrue_R (A : Site K) (h : RightIso A) : FlagTrue Canon.Flag.R A :=
  ⟨fun h' => by simp [Canon.Flag.isL] at h', fun _ => h⟩

theorem flagsTrue_fresh (fs : List (Site K)) : FlagsTrue (fun _ => Canon.Flag.U) fs :=
  fun _ A _ => flagTrue_U A

theorem flagsTrue_set (fl : Nat → Canon.Flag) (fs : List (Site K)) (i : Nat) (A' : Site K) (f : Canon.Flag)
    (h : FlagsTrue fl fs) (h1 : FlagTrue f A') : FlagsTrue (Canon.upd fl i f) (fs.set i A') := by
  intro j A hj
  by_cases hji : j = i
  · subst hji
    rw [List.getElem?_set] at hj
    simp only [if_true] at hj
    split at hj
    · simp only [Option.some.injEq] at hj
      subst hj
      simpa [Canon.upd] using h1
    · exact absurd hj (by simp)
  · rw [List.getElem?_set, if_neg (fun e => hji e.symm)] at hj
    simp only [Canon.upd, if_neg hji]
    exact h j A hj

theorem flagsTrue_setPair (fl : Nat → Canon.Flag) (fs : List (Site K)) (i : Nat) (p : Site K × Site K)
    (f1 f2 : Canon.Flag) (h : FlagsTrue fl fs) (h1 : FlagTrue f1 p.1) (h2 : FlagTrue f2 p.2) :
    FlagsTrue (Canon.upd (Canon.upd fl i f1) (i + 1) f2) (setPair fs i p) :=
  flagsTrue_set _ _ _ _ _ (flagsTrue_set _ _ _ _ _ h h1) h2

theorem upd_comm (fl : Nat → Canon.Flag) (i j : Nat) (f g : Canon.Flag) (hij : i ≠ j) :
    Canon.upd (Canon.upd fl i f) j g = Canon.upd (Canon.upd fl j g) i f := by
  funext k
  simp only [Canon.upd]
  by_cases h1 : k = j <;> by_cases h2 : k = i
  · exact absurd (h2.symm.trans h1) hij
  · subst h1; simp [h2]
  · subst h2; simp [h1]
  · simp [h1, h2]

theorem setPair_length (fs : List (Site K)) (i : Nat) (p : Site K × Site K) :
    (setPair fs i p).length = fs.length := by
  simp [setPair]

/-! ### the sweeps keep the flags true -/

/-- isometry contract of every recorded `qr` of the left-to-right sweep -/
def LrSweepIso : Nat → Nat → List (Site K) → List (QRl K) → Prop
  | 0, _, _, _ => True
  | cnt + 1, i, fs, f :: tape =>
    ∀ A B, fs[i]? = some A → fs[i + 1]? = some B →
      LrIso f A ∧ LrSweepIso cnt (i + 1) (setPair fs i (lrStep f A B)) tape
  | _ + 1, _, _, [] => True

/-- isometry contract of every recorded `qr` of the right-to-left sweep -/
def RlSweepIso : Nat → Nat → List (Site K) → List (QRr K) → Prop
  | 0, _, _, _ => True
  | cnt + 1, i, fs, f :: tape =>
    match i with
    | 0 => True
    | i' + 1 => ∀ A B, fs[i']? = some A → fs[i' + 1]? = some B →
        RlIso f B ∧ RlSweepIso cnt i' (setPair fs i' (rlStep f A B)) tape
  | _ + 1, _, _, [] => True

/-- isometry contract of every recorded `eigh` of the `truncate_impl` sweep -/
def TruncSweepIso : Nat → Nat → List (Site K) → List (Split K) → Prop
  | 0, _, _, _ => True
  | cnt + 1, i, fs, g :: tape =>
    match i with
    | 0 => True
    | i' + 1 => ∀ A B, fs[i']? = some A → fs[i' + 1]? = some B →
        SplitIso g B ∧ TruncSweepIso cnt i' (setPair fs i' (truncStep g A B)) tape
  | _ + 1, _, _, [] => True

theorem flagsTrue_lrSweep (cnt i : Nat) (fs fs' : List (Site K)) (tape : List (QRl K)) (fl : Nat → Canon.Flag)
    (h : lrSweep cnt i fs tape = some fs') (hiso : LrSweepIso cnt i fs tape) (hf : FlagsTrue fl fs) :
    FlagsTrue (Canon.lrSweep fl i cnt) fs' ∧ fs'.length = fs.length := by
  induction cnt generalizing i fs tape fl with
  | zero => simp [lrSweep] at h; subst h; exact ⟨hf, rfl⟩
  | succ cnt ih =>
    cases tape with
    | nil => simp [lrSweep] at h
    | cons f tape =>
      simp only [lrSweep] at h
      split at h
      · rename_i A B hA hB
        obtain ⟨h1, h2⟩ := hiso A B hA hB
        obtain ⟨a, b⟩ := ih (i + 1) _ tape (Canon.upd (Canon.upd fl i Canon.Flag.L) (i + 1) Canon.Flag.U) h h2
          (flagsTrue_setPair fl fs i _ _ _ hf (flagTrue_L _ (leftIso_lrStep f A B h1)) (flagTrue_U _))
        exact ⟨a, by rw [b, setPair_length]⟩
      · exact absurd h (by simp)

theorem flagsTrue_rlSweep (cnt i : Nat) (fs fs' : List (Site K)) (tape : List (QRr K)) (fl : Nat → Canon.Flag)
    (h : rlSweep cnt i fs tape = some fs') (hiso : RlSweepIso cnt i fs tape) (hf : FlagsTrue fl fs) :
    FlagsTrue (Canon.rlSweep fl i cnt) fs' ∧ fs'.length = fs.length := by
  induction cnt generalizing i fs tape fl with
  | zero => simp [rlSweep] at h; subst h; exact ⟨hf, rfl⟩
  | succ cnt ih =>
    cases tape with
    | nil => simp [rlSweep] at h
    | cons f tape =>
      cases i with
      | zero => simp [rlSweep] at h
      | succ i' =>
        simp only [rlSweep] at h
        split at h
        · rename_i A B hA hB
          obtain ⟨h1, h2⟩ := hiso A B hA hB
          have hfl : FlagsTrue (Canon.upd (Canon.upd fl (i' + 1) Canon.Flag.R) (i' + 1 - 1) Canon.Flag.U)
              (setPair fs i' (rlStep f A B)) := by
            rw [Nat.add_sub_cancel, upd_comm _ _ _ _ _ (by omega)]
            exact flagsTrue_setPair fl fs i' _ _ _ hf (flagTrue_U _) (flagTrue_R _ (rightIso_rlStep f A B h1))
          obtain ⟨a, b⟩ := ih i' _ tape _ h h2 hfl
          exact ⟨a, by rw [b, setPair_length]⟩
        · exact absurd h (by simp)

theorem flagsTrue_truncSweep (cnt i : Nat) (fs fs' : List (Site K)) (tape : List (Split K)) (fl : Nat → Canon.Flag)
    (h : truncSweep cnt i fs tape = some fs') (hiso : TruncSweepIso cnt i fs tape) (hf : FlagsTrue fl fs) :
    FlagsTrue (Canon.rlSweep fl i cnt) fs' ∧ fs'.length = fs.length := by
  induction cnt generalizing i fs tape fl with
  | zero => simp [truncSweep] at h; subst h; exact ⟨hf, rfl⟩
  | succ cnt ih =>
    cases tape with
    | nil => simp [truncSweep] at h
    | cons g tape =>
      cases i with
      | zero => simp [truncSweep] at h
      | succ i' =>
        simp only [truncSweep] at h
        split at h
        · rename_i A B hA hB
          obtain ⟨h1, h2⟩ := hiso A B hA hB
          have hfl : FlagsTrue (Canon.upd (Canon.upd fl (i' + 1) Canon.Flag.R) (i' + 1 - 1) Canon.Flag.U)
              (setPair fs i' (truncStep g A B)) := by
            rw [Nat.add_sub_cancel, upd_comm _ _ _ _ _ (by omega)]
            exact flagsTrue_setPair fl fs i' _ _ _ hf (flagTrue_U _) (flagTrue_R _ (rightIso_truncStep g A B h1))
          obtain ⟨a, b⟩ := ih i' _ tape _ h h2 hfl
          exact ⟨a, by rw [b, setPair_length]⟩
        · exact absurd h (by simp)

end EmuVerif.CanonBridge
