/-
  From an actual factor list in mixed-canonical form to the abstract objects of `Proofs/Isometry.lean`:
  the left-orthonormal prefix is an `Isometry.LeftChain`, the right-orthonormal tail an `Isometry.RightChain`
  (bond index types `Unit` at the ends and `Fin χ` inside, tied to the `Nat`-indexed `Site` model by an
  enumeration `e : B → ℕ`), so that `Isometry.norm_eq_centre` (= `Props.C10.norm_eq_centre_norm`) applies to the
  factor list and gives `frob2 (U ⊗ 1 · C · V) = frobSite C`.
-/
import EmuVerif.Proofs.CanonBridgeMatrix
import EmuVerif.Proofs.CanonBridgeNorm

set_option linter.unusedSectionVars false
set_option linter.unusedVariables false
set_option linter.unusedSimpArgs false

namespace EmuVerif.CanonBridge
open EmuVerif EmuVerif.Tensor EmuVerif.CanonOps EmuVerif.Isometry Finset Matrix

variable {K : Type} [CommRing K] [StarRing K]

/-- `e` enumerates `0..n-1` (as far as sums can tell) -/
def Enum (K : Type) [CommRing K] {B : Type} [Fintype B] (e : B → ℕ) (n : ℕ) : Prop :=
  ∀ f : ℕ → K, ∑ b, f (e b) = ∑ l ∈ range n, f l

theorem enum_fin (n : ℕ) : Enum K (fun i : Fin n => i.val) n :=
  fun f => Fin.sum_univ_eq_sum_range f n

theorem enum_unit : Enum K (fun _ : Unit => 0) 1 := by
  intro f; simp

/-- a factor as a matrix `(left bond × level) → right bond`, left bond enumerated by `e` -/
def siteMatL {B : Type} (e : B → ℕ) (A : Site K) (d br : ℕ) : Matrix (B × Fin d) (Fin br) K :=
  fun p r => A.t p.2.val (e p.1) r.val

/-- a factor as a matrix `left bond → (right bond × level)`, right bond enumerated by `e` -/
def siteMatR {B : Type} (e : B → ℕ) (A : Site K) (bl d : ℕ) : Matrix (Fin bl) (B × Fin d) K :=
  fun l p => A.t p.2.val l.val (e p.1)

theorem siteMatL_iso {B : Type} [Fintype B] [DecidableEq B] (e : B → ℕ) (A : Site K) (d br : ℕ)
    (he : Enum K e A.dl) (hd : A.d = d) (hbr : A.dr = br) (hA : LeftIso A) :
    (siteMatL e A d br)ᴴ * siteMatL e A d br = 1 := by
  subst hd; subst hbr
  ext r r'
  simp only [Matrix.mul_apply, Matrix.conjTranspose_apply, siteMatL, Fintype.sum_prod_type]
  rw [he (fun l => ∑ x : Fin A.d, star (A.t x.val l r.val) * A.t x.val l r'.val), Finset.sum_comm]
  rw [Fin.sum_univ_eq_sum_range (fun x => ∑ l ∈ range A.dl, star (A.t x l r.val) * A.t x l r'.val) A.d]
  rw [hA r.val r.isLt r'.val r'.isLt, Matrix.one_apply]
  simp [Fin.ext_iff]

theorem siteMatR_iso {B : Type} [Fintype B] [DecidableEq B] (e : B → ℕ) (A : Site K) (bl d : ℕ)
    (he : Enum K e A.dr) (hd : A.d = d) (hbl : A.dl = bl) (hA : RightIso A) :
    siteMatR e A bl d * (siteMatR e A bl d)ᴴ = 1 := by
  subst hd; subst hbl
  ext l l'
  simp only [Matrix.mul_apply, Matrix.conjTranspose_apply, siteMatR, Fintype.sum_prod_type]
  rw [he (fun r => ∑ x : Fin A.d, A.t x.val l.val r * star (A.t x.val l'.val r)), Finset.sum_comm]
  rw [Fin.sum_univ_eq_sum_range (fun x => ∑ r ∈ range A.dr, A.t x l.val r * star (A.t x l'.val r)) A.d]
  rw [hA l.val l.isLt l'.val l'.isLt, Matrix.one_apply]
  simp [Fin.ext_iff]

/-- a left chain in the sense of `Proofs/Isometry.lean` whose open bond enumerates `0..n-1` -/
structure LChain (K : Type) [CommRing K] [StarRing K] (d n : ℕ) where
  P : Type
  B : Type
  [fP : Fintype P]
  [dP : DecidableEq P]
  [fB : Fintype B]
  [dB : DecidableEq B]
  e : B → ℕ
  U : Matrix P B K
  chain : LeftChain K (Fin d) P B U
  enum : Enum K e n

attribute [instance] LChain.fP LChain.dP LChain.fB LChain.dB

/-- a right chain in the sense of `Proofs/Isometry.lean` whose open bond enumerates `0..n-1` -/
structure RChain (K : Type) [CommRing K] [StarRing K] (d n : ℕ) where
  B : Type
  P : Type
  [fB : Fintype B]
  [dB : DecidableEq B]
  [fP : Fintype P]
  [dP : DecidableEq P]
  e : B → ℕ
  V : Matrix B P K
  chain : RightChain K (Fin d) B P V
  enum : Enum K e n

attribute [instance] RChain.fP RChain.dP RChain.fB RChain.dB

/-- the empty left chain (outer bond of dimension 1) -/
def LChain.nil (K : Type) [CommRing K] [StarRing K] (d : ℕ) : LChain K d 1 :=
  { P := Unit, B := Unit, e := fun _ => 0, U := 1, chain := LeftChain.nil, enum := enum_unit }

/-- append a left-orthonormal factor -/
def LChain.snoc {d : ℕ} (A : Site K) (c : LChain K d A.dl) (hd : A.d = d) (hA : LeftIso A) : LChain K d A.dr :=
  { P := c.P × Fin d, B := Fin A.dr, e := fun i => i.val,
    U := kronOne (Fin d) c.U * siteMatL c.e A d A.dr,
    chain := LeftChain.snoc c.U (siteMatL c.e A d A.dr) c.chain (siteMatL_iso c.e A d A.dr c.enum hd rfl hA),
    enum := enum_fin A.dr }

/-- a left-orthonormal prefix of a well-formed chain extends any left chain ending at its first bond -/
theorem lchain_prefix (d : ℕ) (L rest : List (Site K)) (hL : ∀ A ∈ L, LeftIso A) (hd : ∀ A ∈ L, A.d = d)
    (hw : Wf (L ++ rest)) (c0 : LChain K d (headDl (L ++ rest))) : Nonempty (LChain K d (headDl rest)) := by
  induction L with
  | nil => exact ⟨c0⟩
  | cons A L ih =>
    have hw' : Wf (A :: (L ++ rest)) := hw
    have c1 : LChain K d A.dr :=
      LChain.snoc A c0 (hd A (List.mem_cons_self ..)) (hL A (List.mem_cons_self ..))
    exact ih (fun B hB => hL B (List.mem_cons_of_mem _ hB)) (fun B hB => hd B (List.mem_cons_of_mem _ hB)) hw'.2
      (hw'.1 ▸ c1)

/-- a right-orthonormal, well-formed tail is a right chain starting at its first bond -/
theorem rchain_tail (d : ℕ) (R : List (Site K)) (hR : ∀ A ∈ R, RightIso A) (hd : ∀ A ∈ R, A.d = d) (hw : Wf R) :
    Nonempty (RChain K d (headDl R)) := by
  induction R with
  | nil =>
    exact ⟨{ B := Unit, P := Unit, e := fun _ => 0, V := 1, chain := RightChain.nil, enum := enum_unit }⟩
  | cons A R ih =>
    obtain ⟨c⟩ := ih (fun B hB => hR B (List.mem_cons_of_mem _ hB)) (fun B hB => hd B (List.mem_cons_of_mem _ hB)) hw.2
    have hen : Enum K c.e A.dr := by rw [hw.1]; exact c.enum
    exact ⟨{ B := Fin A.dl, P := c.P × Fin d, e := fun i => i.val,
             V := siteMatR c.e A A.dl d * kronOne (Fin d) c.V,
             chain := RightChain.cons (siteMatR c.e A A.dl d) c.V c.chain
               (siteMatR_iso c.e A A.dl d hen (hd A (List.mem_cons_self ..)) rfl (hR A (List.mem_cons_self ..))),
             enum := enum_fin A.dl }⟩

/-- the centre factor between two enumerated bonds -/
def centreMat {B B' : Type} (e : B → ℕ) (e' : B' → ℕ) (C : Site K) (d : ℕ) : Matrix (B × Fin d) B' K :=
  fun p r => C.t p.2.val (e p.1) (e' r)

theorem frob2_centreMat {B B' : Type} [Fintype B] [Fintype B'] [DecidableEq B] [DecidableEq B']
    (e : B → ℕ) (e' : B' → ℕ) (C : Site K) (d : ℕ) (he : Enum K e C.dl) (he' : Enum K e' C.dr) (hd : C.d = d) :
    frob2 (centreMat e e' C d) = ∑ x ∈ range C.d, ∑ l ∈ range C.dl, ∑ r ∈ range C.dr, star (C.t x l r) * C.t x l r := by
  subst hd
  simp only [frob2, centreMat, Fintype.sum_prod_type]
  rw [he (fun l => ∑ x : Fin C.d, ∑ r : B', star (C.t x.val l (e' r)) * C.t x.val l (e' r)), Finset.sum_comm]
  rw [Fin.sum_univ_eq_sum_range (fun x => ∑ l ∈ range C.dl, ∑ r : B', star (C.t x l (e' r)) * C.t x l (e' r)) C.d]
  refine Finset.sum_congr rfl (fun x _ => Finset.sum_congr rfl (fun l _ => ?_))
  exact he' (fun r => star (C.t x l r) * C.t x l r)

/-- **`norm_eq_centre` applies to an actual factor list in canonical form**: there are a `LeftChain` `U`
(built from the factors left of the centre) and a `RightChain` `V` (from those right of it) such that the dense
state `(U ⊗ 1)·C·V` has squared Frobenius norm `frobSite C`. -/
theorem canonical_chains (d : ℕ) (L : List (Site K)) (C : Site K) (R : List (Site K))
    (hL : ∀ A ∈ L, LeftIso A) (hR : ∀ A ∈ R, RightIso A) (hw : Wf (L ++ C :: R))
    (h1 : headDl (L ++ C :: R) = 1) (hd : ∀ A ∈ L ++ C :: R, A.d = d) :
    ∃ (lc : LChain K d C.dl) (rc : RChain K d C.dr),
      frob2 (kronOne (Fin d) lc.U * centreMat lc.e rc.e C d * rc.V) = frobSite C := by
  have hw2 : Wf (C :: R) := by
    clear h1 hd hL
    induction L with
    | nil => exact hw
    | cons A L ih => exact ih hw.2
  obtain ⟨lc⟩ := lchain_prefix d L (C :: R) hL (fun A hA => hd A (List.mem_append_left _ hA)) hw
    (h1 ▸ LChain.nil K d)
  obtain ⟨rc0⟩ := rchain_tail d R hR (fun A hA => hd A (List.mem_append_right _ (List.mem_cons_of_mem _ hA))) hw2.2
  have rc : RChain K d C.dr := hw2.1 ▸ rc0
  refine ⟨lc, rc, ?_⟩
  rw [norm_eq_centre lc.chain rc.chain, frobSite_eq]
  exact frob2_centreMat lc.e rc.e C d lc.enum rc.enum
    (hd C (List.mem_append_right _ (List.mem_cons_self ..)))

/-- a list in canonical form around `c`, split at `c` -/
theorem canonical_split (fs : List (Site K)) (c : Nat) (C : Site K) (hcan : Canonical fs c) (hC : fs[c]? = some C) :
    fs = fs.take c ++ C :: fs.drop (c + 1) ∧ (∀ A ∈ fs.take c, LeftIso A) ∧ (∀ A ∈ fs.drop (c + 1), RightIso A) := by
  refine ⟨split_at fs c C hC, ?_, ?_⟩
  · intro A hA
    obtain ⟨j, hj, e⟩ := List.getElem_of_mem hA
    rw [List.getElem_take] at e
    have hj' : j < c := by
      have := hj; rw [List.length_take] at this; omega
    have hjl : j < fs.length := by
      have := hj; rw [List.length_take] at this; omega
    exact hcan.2.1 j A hj' (by rw [List.getElem?_eq_getElem hjl, e])
  · intro A hA
    obtain ⟨j, hj, e⟩ := List.getElem_of_mem hA
    rw [List.getElem_drop] at e
    have hjl : c + 1 + j < fs.length := by
      have := hj; rw [List.length_drop] at this; omega
    exact hcan.2.2 (c + 1 + j) A (by omega) (by rw [List.getElem?_eq_getElem hjl, e])

end EmuVerif.CanonBridge
