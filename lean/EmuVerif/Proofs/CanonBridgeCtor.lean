/-
  Shapes of the two operations that build a *new* factor list before truncating it
  (`add_factors` for `MPS.__add__`, `zip_right` for `MPO.apply_to`), and `tstep_shape`:
  every modelled operation turns a valid chain into a valid chain.
-/
import EmuVerif.Proofs.CanonBridgeMachine

set_option linter.unusedSectionVars false
set_option linter.unusedVariables false
set_option linter.unusedSimpArgs false

namespace EmuVerif.CanonBridge
open EmuVerif EmuVerif.Tensor EmuVerif.CanonOps Finset

variable {K : Type} [CommRing K] [StarRing K]

/-! ### `add_factors` -/

theorem addSite_d (n i : Nat) (A B c : Site K) (h : addSite n i A B = some c) : c.d = A.d ∧ (i ≠ 0 → i = n - 1 → c.dr = A.dr) := by
  unfold addSite at h
  split at h
  · split at h
    · simp only [Option.some.injEq] at h; subst h
      exact ⟨by simp [catRight], fun h0 => absurd ‹i = 0› h0⟩
    · exact absurd h (by simp)
  · split at h
    · split at h
      · simp only [Option.some.injEq] at h; subst h
        exact ⟨by simp [catLeft], fun _ _ => by simp [catLeft]⟩
      · exact absurd h (by simp)
    · split at h
      · simp only [Option.some.injEq] at h; subst h
        exact ⟨by simp [blockDiag], fun _ hl => absurd hl ‹¬ i = n - 1›⟩
      · exact absurd h (by simp)

theorem addAux_d (d n i : Nat) (L R S : List (Site K)) (h : addAux n i L R = some S) (hd : ∀ A ∈ L, A.d = d) :
    ∀ X ∈ S, X.d = d := by
  induction L generalizing i R S with
  | nil =>
    cases R with
    | nil => simp only [addAux, Option.some.injEq] at h; subst h; simp
    | cons _ _ => simp [addAux] at h
  | cons A L ih =>
    cases R with
    | nil => simp [addAux] at h
    | cons B R =>
      simp only [addAux] at h
      split at h
      · rename_i c rest hc hrest
        simp only [Option.some.injEq] at h
        subst h
        intro X hX
        rcases List.mem_cons.mp hX with rfl | hX
        · rw [(addSite_d n i A B _ hc).1]; exact hd A (List.mem_cons_self ..)
        · exact ih (i + 1) R rest hrest (fun A' h' => hd A' (List.mem_cons_of_mem _ h')) X hX
      · exact absurd h (by simp)

theorem addAux_length (n i : Nat) (L R S : List (Site K)) (h : addAux n i L R = some S) : S.length = L.length := by
  induction L generalizing i R S with
  | nil =>
    cases R with
    | nil => simp only [addAux, Option.some.injEq] at h; rw [← h]
    | cons _ _ => simp [addAux] at h
  | cons A L ih =>
    cases R with
    | nil => simp [addAux] at h
    | cons B R =>
      simp only [addAux] at h
      split at h
      · rename_i c rest _ hrest
        simp only [Option.some.injEq] at h
        rw [← h]
        simp [ih (i + 1) R rest hrest]
      · exact absurd h (by simp)

theorem addAux_lastDr (n i : Nat) (L R S : List (Site K)) (hi : 0 < i) (hn : i + L.length = n) (hL : L ≠ [])
    (h : addAux n i L R = some S) : S.getLast?.map (·.dr) = L.getLast?.map (·.dr) := by
  induction L generalizing i R S with
  | nil => exact absurd rfl hL
  | cons A L ih =>
    cases R with
    | nil => simp [addAux] at h
    | cons B R =>
      simp only [addAux] at h
      split at h
      · rename_i c rest hc hrest
        simp only [Option.some.injEq] at h
        subst h
        have hlen := addAux_length n (i + 1) L R rest hrest
        cases L with
        | nil =>
          have : rest = [] := by simpa using hlen
          subst this
          have hlast : i = n - 1 := by simp at hn; omega
          simp [(addSite_d n i A B c hc).2 (by omega) hlast]
        | cons A' L' =>
          cases rest with
          | nil => simp at hlen
          | cons c' rest' =>
            rw [List.getLast?_cons_cons, List.getLast?_cons_cons]
            exact ih (i + 1) R (c' :: rest') (by omega) (by simp at hn ⊢; omega) (by simp) hrest
      · exact absurd h (by simp)

/-- `add_factors` of two valid chains is a valid chain (what `MPS(new_tt, …)` then asserts) -/
theorem shape_addFactors (d : Nat) (L R S : List (Site K)) (h : addFactors L R = some S) (hL : Shape d L)
    (hR : Shape d R) : Shape d S := by
  obtain ⟨l2, lw, l1, ld⟩ := hL
  obtain ⟨r2, rw_, r1, rd⟩ := hR
  obtain ⟨c1, c2, c3⟩ := addFactors_dims L R S h l2 (chainOk_of_wf L lw) (chainOk_of_wf R rw_)
  have hlastL := wf_getLast L (by intro e; simp [e] at l2) lw
  unfold addFactors at h
  split at h
  · exact absurd h (by simp)
  · cases L with
    | nil => simp at l2
    | cons A L1 =>
      cases L1 with
      | nil => simp at l2
      | cons A' L' =>
        cases R with
        | nil => simp [addAux] at h
        | cons B R' =>
          simp only [addAux] at h
          split at h
          · rename_i c rest hc hrest
            simp only [Option.some.injEq] at h
            subst h
            have hlen := addAux_length _ _ (A' :: L') R' rest hrest
            have hlast : (c :: rest).getLast?.map (·.dr) = some 1 := by
              cases rest with
              | nil => simp at hlen
              | cons c' rest' =>
                rw [List.getLast?_cons_cons]
                rw [addAux_lastDr _ _ (A' :: L') R' (c' :: rest') (by omega) (by simp; omega) (by simp) hrest]
                rw [List.getLast?_cons_cons] at hlastL
                exact hlastL
            refine ⟨by rw [c2]; exact l2, wf_of_chainOk _ c1 hlast, by rw [c3]; exact l1, ?_⟩
            intro X hX
            rcases List.mem_cons.mp hX with rfl | hX
            · rw [(addSite_d _ _ A B _ hc).1]; exact ld A (List.mem_cons_self ..)
            · exact addAux_d d _ _ (A' :: L') R' rest hrest (fun A'' h' => ld A'' (List.mem_cons_of_mem _ h')) X hX
          · exact absurd h (by simp)

theorem getD_getLast_cons (a b : Nat) (x : Site K) (xs : List (Site K)) :
    ((x :: xs).getLast?.map (·.dr)).getD a = ((x :: xs).getLast?.map (·.dr)).getD b := by
  rw [List.getLast?_eq_some_getLast (by simp)]
  rfl

/-! ### `zip_right` -/

theorem zipLoop_shape (d m : Nat) (tops bots : List (Site K)) (tape : List (QR3 K)) (S Sf : Slider K)
    (fs : List (Site K)) (h : zipLoop d m tops bots tape S = some (fs, Sf)) :
    chainOk fs = true ∧ (fs ≠ [] → headDl fs = S.sa) ∧ (∀ X ∈ fs, X.d = d * m) ∧
      Sf.sb = (tops.getLast?.map (·.dr)).getD S.sb ∧ (fs.getLast?.map (·.dr)).getD S.sa = Sf.sa := by
  induction tops generalizing bots tape S fs with
  | nil =>
    cases bots with
    | nil =>
      simp only [zipLoop, Option.some.injEq, Prod.mk.injEq] at h
      obtain ⟨rfl, rfl⟩ := h
      simp [chainOk]
    | cons _ _ => simp [zipLoop] at h
  | cons top tops ih =>
    cases bots with
    | nil => simp [zipLoop] at h
    | cons bot bots =>
      cases tape with
      | nil => simp [zipLoop] at h
      | cons f tape =>
        by_cases hc : S.sb ≠ top.dl ∨ S.sc ≠ bot.dl
        · simp [zipLoop, zipStep, hc] at h
        · simp only [zipLoop, zipStep, hc, if_false] at h
          cases hrec : zipLoop d m tops bots tape { sa := f.k, sb := top.dr, sc := bot.dr, s := f.r } with
          | none => simp [hrec] at h
          | some p =>
            obtain ⟨rest, Sf'⟩ := p
            simp only [hrec, Option.some.injEq, Prod.mk.injEq] at h
            obtain ⟨rfl, rfl⟩ := h
            obtain ⟨i1, i2, i3, i4, i5⟩ := ih bots tape _ rest hrec
            refine ⟨?_, fun _ => rfl, ?_, ?_, ?_⟩
            · rw [chainOk_cons]
              exact ⟨fun hne => by rw [i2 hne], i1⟩
            · intro X hX
              rcases List.mem_cons.mp hX with rfl | hX
              · rfl
              · exact i3 X hX
            · cases tops with
              | nil => simpa using i4
              | cons t' ts' =>
                rw [List.getLast?_cons_cons, getD_getLast_cons _ top.dr]
                exact i4
            · cases rest with
              | nil => simpa using i5
              | cons r' rs' =>
                rw [List.getLast?_cons_cons, getD_getLast_cons _ f.k]
                exact i5

theorem absorbLast_shape (S : Slider K) (fs : List (Site K)) (hne : fs ≠ []) (hok : chainOk fs = true) :
    chainOk (absorbLast S fs) = true ∧ headDl (absorbLast S fs) = headDl fs ∧
      (∀ d, (∀ X ∈ fs, X.d = d) → ∀ X ∈ absorbLast S fs, X.d = d) ∧
      (absorbLast S fs).getLast?.map (·.dr) = some S.sb := by
  induction fs with
  | nil => exact absurd rfl hne
  | cons A fs ih =>
    cases fs with
    | nil =>
      refine ⟨rfl, by simp [absorbLast], ?_, by simp [absorbLast]⟩
      intro d hd X hX
      simp only [absorbLast, List.mem_singleton] at hX
      subst hX
      simpa using hd A (List.mem_cons_self ..)
    | cons B fs =>
      obtain ⟨i1, i2, i3, i4⟩ := ih (by simp) (chainOk_tail A _ hok)
      have hA := ((chainOk_cons_cons A B fs).mp hok).1
      have e : absorbLast S (A :: B :: fs) = A :: absorbLast S (B :: fs) := by simp [absorbLast]
      rw [e]
      refine ⟨?_, rfl, ?_, ?_⟩
      · rw [chainOk_cons]
        exact ⟨fun _ => by rw [i2]; exact hA, i1⟩
      · intro d hd X hX
        rcases List.mem_cons.mp hX with rfl | hX
        · exact hd _ (List.mem_cons_self ..)
        · exact i3 d (fun Y hY => hd Y (List.mem_cons_of_mem _ hY)) X hX
      · cases hrest : absorbLast S (B :: fs) with
        | nil =>
          have := absorbLast_length S (B :: fs)
          rw [hrest] at this
          simp at this
        | cons c cs =>
          rw [List.getLast?_cons_cons, ← hrest]
          exact i4

/-- `zip_right` (before `truncate_impl`) of a valid MPO and a valid MPS is a valid chain -/
theorem shape_zipRight (d : Nat) (tops bots fs : List (Site K)) (tape : List (QR3 K))
    (h : zipRight d 1 tops bots tape = some fs) (hT : Shape (d * d) tops) (hB : Shape d bots) : Shape d fs := by
  have hlen := zipRight_length d 1 tops bots fs tape h
  unfold zipRight at h
  split at h
  · exact absurd h (by simp)
  · rename_i hl
    split at h
    · exact absurd h (by simp)
    · rename_i gs Sf hloop
      simp only [Option.some.injEq] at h
      subst h
      obtain ⟨i1, i2, i3, i4, i5⟩ := zipLoop_shape d 1 tops bots tape slider0 Sf gs hloop
      have gl := zipLoop_length d 1 tops bots tape slider0 Sf gs hloop
      have gne : gs ≠ [] := by
        intro e
        rw [e] at gl
        have := hB.1
        simp at gl
        omega
      obtain ⟨a1, a2, a3, a4⟩ := absorbLast_shape Sf gs gne i1
      have hTl := wf_getLast tops (by intro e; have := hT.1; simp [e] at this) hT.2.1
      have hsb : Sf.sb = 1 := by rw [i4, hTl]; rfl
      refine ⟨by rw [hlen]; exact hB.1, wf_of_chainOk _ a1 (by rw [a4, hsb]), ?_, ?_⟩
      · rw [a2, i2 gne]; rfl
      · exact a3 d (fun X hX => by rw [i3 X hX, Nat.mul_one])

/-! ### one step of the machine keeps the chain valid -/

/-- the operand of a binary operation is itself a valid object -/
def OpShape (d : Nat) : TOp K → Prop
  | .add other _ _ => Shape d other
  | .applyTo mpo _ _ => Shape (d * d) mpo
  | _ => True

theorem tstep_shape (d : Nat) {t t' : TSt K} (op : TOp K) (hs : Shape d t.fs) (hop : OpShape d op)
    (h : tstep t op = some t') : Shape d t'.fs := by
  cases op with
  | orthogonalize k o => exact orth_shape d h hs
  | truncate o st => exact trunc_shape d h hs
  | add other o st =>
    simp only [tstep] at h
    split at h
    · exact absurd h (by simp)
    · rename_i S hS
      exact trunc_shape d h (shape_addFactors d _ _ _ hS hs hop)
  | scale c =>
    simp only [tstep, Option.some.injEq] at h
    subst h
    exact scale_shape d t c hs
  | apply k op o => exact applyOp_shape d h hs
  | applyTo mpo zt st =>
    simp only [tstep] at h
    split at h
    · exact absurd h (by simp)
    · rename_i fs1 h1
      split at h
      · exact absurd h (by simp)
      · rename_i fs' h2
        simp only [Option.some.injEq] at h
        subst h
        have hd : (t.fs.head?.map (·.d)).getD 0 = d := by
          obtain ⟨h2', _, _, hd⟩ := hs
          cases hfs : t.fs with
          | nil => rw [hfs] at h2'; simp at h2'
          | cons A rest =>
            rw [hfs] at hd
            simpa using hd A (List.mem_cons_self ..)
        rw [hd] at h1
        exact shape_truncSweep d _ _ _ _ _ h2 (shape_zipRight d _ _ _ _ h1 hop hs)
  | expectBatch o => exact ensureCentre_shape d h hs
  | norm o => exact ensureCentre_shape d h hs
  | inner =>
    simp only [tstep, Option.some.injEq] at h
    subst h; exact hs
  | correlation os => exact corrLoop_shape d _ _ h hs
  | sample o => exact orth_shape d h hs
  | entropy k o1 o2 =>
    simp only [tstep] at h
    split at h
    · exact absurd h (by simp)
    · rename_i t1 h1
      exact orth_shape d h (orth_shape d h1 hs)
  | jump k op o1 o2 c =>
    simp only [tstep] at h
    split at h
    · exact absurd h (by simp)
    · rename_i t1 h1
      split at h
      · exact absurd h (by simp)
      · rename_i t2 h2
        simp only [Option.some.injEq] at h
        subst h
        exact scale_shape d t2 c (orth_shape d h2 (applyOp_shape d h1 hs))

end EmuVerif.CanonBridge
