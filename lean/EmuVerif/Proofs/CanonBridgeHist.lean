/-
  Glue lemmas for `Props/C10Bridge.lean`: entries of `setPair`, flag states built from / read back into
  `Canonical`, the bond dimensions written by the `truncate_impl` sweep, product states.
-/
import EmuVerif.Proofs.CanonBridgeCtor

set_option linter.unusedSectionVars false
set_option linter.unusedVariables false
set_option linter.unusedSimpArgs false

namespace EmuVerif.CanonBridge
open EmuVerif EmuVerif.Tensor EmuVerif.CanonOps Finset

variable {K : Type} [CommRing K] [StarRing K]

/-! ### entries of `setPair` -/

theorem lt_length_of_getElem? {fs : List (Site K)} {i : Nat} {A : Site K} (h : fs[i]? = some A) : i < fs.length := by
  by_contra hc
  rw [List.getElem?_eq_none (by omega)] at h
  exact absurd h (by simp)

theorem setPair_fst (fs : List (Site K)) (i : Nat) (p : Site K × Site K) (hi : i < fs.length) :
    (setPair fs i p)[i]? = some p.1 := by
  unfold setPair
  rw [List.getElem?_set, if_neg (by omega), List.getElem?_set, if_pos rfl, if_pos hi]

theorem setPair_snd (fs : List (Site K)) (i : Nat) (p : Site K × Site K) (hi : i + 1 < fs.length) :
    (setPair fs i p)[i + 1]? = some p.2 := by
  unfold setPair
  rw [List.getElem?_set, if_pos rfl, if_pos (by rw [List.length_set]; exact hi)]

theorem setPair_other (fs : List (Site K)) (i j : Nat) (p : Site K × Site K) (h1 : j ≠ i) (h2 : j ≠ i + 1) :
    (setPair fs i p)[j]? = fs[j]? := by
  unfold setPair
  rw [List.getElem?_set, if_neg (fun e => h2 e.symm), List.getElem?_set, if_neg (fun e => h1 e.symm)]

/-! ### `Canonical` ⇄ flag states -/

/-- the flags a caller claims by declaring the centre `center` -/
def claimFlags (center : Option Nat) : Nat → Canon.Flag := fun j =>
  match center with
  | none => Canon.Flag.U
  | some c => if j < c then Canon.Flag.L else if c < j then Canon.Flag.R else Canon.Flag.U

/-- a chain whose declared centre (if any) is backed by real isometries is described by a flag state that
satisfies the invariant — the start of every induction below; `center = none` needs nothing -/
theorem sem_of_canonical (fs : List (Site K)) (center : Option Nat) (hne : 0 < fs.length)
    (hstart : ∀ c, center = some c → Canonical fs c) :
    Sem { n := fs.length, flags := claimFlags center, centre := center } ({ fs := fs, centre := center } : TSt K) ∧
      Canon.Inv { n := fs.length, flags := claimFlags center, centre := center } := by
  refine ⟨⟨rfl, rfl, ?_⟩, ⟨hne, ?_⟩⟩
  · intro j A hj
    show FlagTrue (claimFlags center j) A
    cases center with
    | none => exact flagTrue_U A
    | some c =>
      obtain ⟨_, hL, hR⟩ := hstart c rfl
      simp only [claimFlags]
      by_cases h1 : j < c
      · rw [if_pos h1]; exact flagTrue_L A (hL j A h1 hj)
      · rw [if_neg h1]
        by_cases h2 : c < j
        · rw [if_pos h2]; exact flagTrue_R A (hR j A h2 hj)
        · rw [if_neg h2]; exact flagTrue_U A
  · intro c hc
    have hc' : center = some c := hc
    subst hc'
    refine ⟨(hstart c rfl).1, ?_, ?_⟩
    · intro j hj
      show (claimFlags (some c) j).isL = true
      simp [claimFlags, hj, Canon.Flag.isL]
    · intro j hj _
      show (claimFlags (some c) j).isR = true
      have : ¬ j < c := by omega
      simp [claimFlags, hj, this, Canon.Flag.isR]

/-- reading the invariant back on the tensors -/
theorem canonical_of_sem {s : Canon.St} {t : TSt K} (hs : Sem s t) (hi : Canon.Inv s) {c : Nat}
    (hc : t.centre = some c) : Canonical t.fs c := by
  obtain ⟨hcn, hL, hR⟩ := hi.ctr c (by rw [← hs.ctr]; exact hc)
  refine ⟨by rw [hs.len]; exact hcn, ?_, ?_⟩
  · intro j A hj hA
    exact (hs.flags j A hA).1 (hL j hj)
  · intro j A hj hA
    exact (hs.flags j A hA).2 (hR j hj (by rw [← hs.len]; exact lt_length_of_getElem? hA))

theorem sem_fresh (fs : List (Site K)) : Sem (Canon.fresh fs.length) ({ fs := fs, centre := none } : TSt K) :=
  ⟨rfl, rfl, flagsTrue_fresh fs⟩

/-! ### product states (`MPS.make`) -/

theorem leftIso_basisSite (dim : Nat) (hdim : 0 < dim) : LeftIso (basisSite (α := K) dim 0) := by
  intro r hr r' hr'
  simp only [basisSite] at hr hr' ⊢
  have e1 : r = 0 := by omega
  have e2 : r' = 0 := by omega
  subst e1; subst e2
  simp only [Finset.range_one, Finset.sum_singleton, if_true]
  rw [Finset.sum_eq_single 0]
  · simp
  · intro x _ hx; simp [hx]
  · intro h; exact absurd (Finset.mem_range.mpr hdim) h

theorem rightIso_basisSite (dim : Nat) (hdim : 0 < dim) : RightIso (basisSite (α := K) dim 0) := by
  intro l hl l' hl'
  simp only [basisSite] at hl hl' ⊢
  have e1 : l = 0 := by omega
  have e2 : l' = 0 := by omega
  subst e1; subst e2
  simp only [Finset.range_one, Finset.sum_singleton, if_true]
  rw [Finset.sum_eq_single 0]
  · simp
  · intro x _ hx; simp [hx]
  · intro h; exact absurd (Finset.mem_range.mpr hdim) h

/-- `MPS.make(n)`: the `B` flags of the flag machine are true of the `|0⟩` factors -/
theorem sem_make (dim n : Nat) (hdim : 0 < dim) :
    Sem (Canon.make n) ({ fs := List.replicate n (basisSite (α := K) dim 0), centre := some 0 } : TSt K) := by
  refine ⟨by simp [Canon.make], rfl, ?_⟩
  intro j A hj
  have hA : A = basisSite dim 0 := by
    have := List.mem_of_getElem? hj
    exact (List.mem_replicate.mp this).2
  subst hA
  exact ⟨fun _ => leftIso_basisSite dim hdim, fun _ => rightIso_basisSite dim hdim⟩

/-! ### bonds written by the `truncate_impl` sweep -/

theorem truncSweep_above (cnt i : Nat) (fs fs' : List (Site K)) (tape : List (Split K))
    (h : truncSweep cnt i fs tape = some fs') (j : Nat) (hj : i < j) : fs'[j]? = fs[j]? := by
  induction cnt generalizing i fs tape with
  | zero => simp [truncSweep] at h; subst h; rfl
  | succ cnt ih =>
    cases tape with
    | nil => simp [truncSweep] at h
    | cons g tape =>
      cases i with
      | zero => simp [truncSweep] at h
      | succ i' =>
        simp only [truncSweep] at h
        split at h
        · rename_i A B hA hB
          rw [ih i' _ tape h (by omega), setPair_other _ _ _ _ (by omega) (by omega)]
        · exact absurd h (by simp)

/-- after the sweep, the left bond of factor `i − m` is the rank kept by the `m`-th split -/
theorem truncSweep_bonds (cnt i : Nat) (fs fs' : List (Site K)) (tape : List (Split K))
    (h : truncSweep cnt i fs tape = some fs') (m : Nat) (hm : m < cnt) :
    ∃ X g, fs'[i - m]? = some X ∧ tape[m]? = some g ∧ X.dl = g.k := by
  induction cnt generalizing i fs tape m with
  | zero => omega
  | succ cnt ih =>
    cases tape with
    | nil => simp [truncSweep] at h
    | cons g tape =>
      cases i with
      | zero => simp [truncSweep] at h
      | succ i' =>
        simp only [truncSweep] at h
        split at h
        · rename_i A B hA hB
          cases m with
          | zero =>
            refine ⟨(truncStep g A B).2, g, ?_, rfl, by simp [truncStep]⟩
            rw [Nat.sub_zero, truncSweep_above cnt i' _ fs' tape h (i' + 1) (by omega)]
            exact setPair_snd fs i' _ (lt_length_of_getElem? hB)
          | succ m =>
            obtain ⟨X, g', e1, e2, e3⟩ := ih i' _ tape h m (by omega)
            refine ⟨X, g', ?_, by simpa using e2, e3⟩
            have : i' + 1 - (m + 1) = i' - m := by omega
            rw [this]; exact e1
        · exact absurd h (by simp)

/-! ### histories keep the chain valid -/

def HistShape (d : Nat) (ops : List (TOp K)) : Prop := ∀ op ∈ ops, OpShape d op

theorem trun_shape (d : Nat) (ops : List (TOp K)) {t t' : TSt K} (hs : Shape d t.fs) (hops : HistShape d ops)
    (h : trun t ops = some t') : Shape d t'.fs := by
  induction ops generalizing t with
  | nil =>
    simp only [trun, Option.some.injEq] at h
    subst h; exact hs
  | cons op ops ih =>
    simp only [trun] at h
    split at h
    · exact absurd h (by simp)
    · rename_i t1 h1
      exact ih (tstep_shape d op hs (hops op (List.mem_cons_self ..)) h1)
        (fun o ho => hops o (List.mem_cons_of_mem _ ho)) h

end EmuVerif.CanonBridge
