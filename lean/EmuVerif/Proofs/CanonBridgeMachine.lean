/-
  The tensor-level machine `Model/CanonOps.lean` refines the flag machine `Model/Canon.lean`:
  `Sem s t` = "the flag state `s` describes the tensor state `t` and every flag is true of its factor".
  Each modelled operation, run with kernel answers that satisfy the isometry contracts (`OpIso`),
  takes `Sem`-related states to `Sem`-related states (`tstep_sem`), and keeps valid chains valid (`tstep_shape`).
-/
import EmuVerif.Proofs.CanonBridgeShape

set_option linter.unusedSectionVars false
set_option linter.unusedVariables false
set_option linter.unusedSimpArgs false

namespace EmuVerif.CanonBridge
open EmuVerif EmuVerif.Tensor EmuVerif.CanonOps Finset

variable {K : Type} [CommRing K] [StarRing K]

/-- the flag state `s` describes the tensor state `t`, and its flags are true -/
structure Sem (s : Canon.St) (t : TSt K) : Prop where
  len : t.fs.length = s.n
  ctr : t.centre = s.centre
  flags : FlagsTrue s.flags t.fs

theorem flagsTrue_congr (fl fl' : Nat → Canon.Flag) (fs : List (Site K))
    (h : ∀ j, j < fs.length → fl j = fl' j) (hf : FlagsTrue fl fs) : FlagsTrue fl' fs := by
  intro j A hj
  have hlt : j < fs.length := by
    by_contra hc
    rw [List.getElem?_eq_none (by omega)] at hj
    exact absurd hj (by simp)
  rw [← h j hlt]
  exact hf j A hj

/-! ### contracts -/

/-- isometry contract (`qᴴ q = 1`) of every `qr` recorded during one `orthogonalize` call -/
def OrthIso (fs : List (Site K)) (center : Option Nat) (desired : Nat) (o : OTape K) : Prop :=
  LrSweepIso (desired - center.getD 0) (center.getD 0) fs o.lt ∧
    ∀ fs1, lrSweep (desired - center.getD 0) (center.getD 0) fs o.lt = some fs1 →
      RlSweepIso (center.getD (fs.length - 1) - desired) (center.getD (fs.length - 1)) fs1 o.rt

/-- isometry contract of every kept eigenvector block recorded during one `truncate_impl` call -/
def TruncIso (fs : List (Site K)) (st : List (Split K)) : Prop :=
  TruncSweepIso (fs.length - 1) (fs.length - 1) fs st

/-- contracts of one `MPS.truncate()` call -/
def TruncOk (t : TSt K) (o : OTape K) (st : List (Split K)) : Prop :=
  OrthIso t.fs t.centre (t.fs.length - 1) o ∧
    ∀ t1, orth t (t.fs.length - 1) o = some t1 → TruncIso t1.fs st

def CorrIso : Nat → Nat → TSt K → List (OTape K) → Prop
  | 0, _, _, _ => True
  | k + 1, left, t, o :: os =>
    OrthIso t.fs t.centre left o ∧ ∀ t', orth t left o = some t' → CorrIso k (left + 1) t' os
  | _ + 1, _, _, [] => True

/-- the kernel answers recorded for `op`, run in state `t`, are isometries -/
def OpIso (t : TSt K) : TOp K → Prop
  | .orthogonalize k o => OrthIso t.fs t.centre k o
  | .truncate o st => TruncOk t o st
  | .add other o st => ∀ S, addFactors t.fs other = some S → TruncOk { fs := S, centre := none } o st
  | .scale _ => True
  | .apply k _ o => OrthIso t.fs t.centre k o
  | .applyTo mpo zt st =>
    ∀ fs1, zipRight ((t.fs.head?.map (·.d)).getD 0) 1 mpo t.fs zt = some fs1 → TruncIso fs1 st
  | .expectBatch o => t.centre = none → OrthIso t.fs none 0 o
  | .norm o => t.centre = none → OrthIso t.fs none 0 o
  | .inner => True
  | .correlation os => CorrIso t.fs.length 0 t os
  | .sample o => OrthIso t.fs t.centre 0 o
  | .entropy k o1 o2 =>
    OrthIso t.fs t.centre k o1 ∧ ∀ t1, orth t k o1 = some t1 → OrthIso t1.fs t1.centre 0 o2
  | .jump k op o1 o2 _ =>
    OrthIso t.fs t.centre k o1 ∧ ∀ t1, applyOp t k op o1 = some t1 → OrthIso t1.fs t1.centre 0 o2

/-! ### `orthogonalize` -/

theorem orth_sem {s : Canon.St} {t t' : TSt K} {k : Nat} {o : OTape K} (hs : Sem s t)
    (hiso : OrthIso t.fs t.centre k o) (h : orth t k o = some t') :
    ∃ s', Canon.orthogonalize s k = some s' ∧ Sem s' t' := by
  unfold orth at h
  split at h
  · exact absurd h (by simp)
  · rename_i fs' hfs
    simp only [Option.some.injEq] at h
    subst h
    unfold Tensor.orthogonalize at hfs
    split at hfs
    · exact absurd hfs (by simp)
    · rename_i hk
      simp only at hfs
      split at hfs
      · exact absurd hfs (by simp)
      · rename_i fs1 h1
        obtain ⟨a1, b1⟩ := flagsTrue_lrSweep _ _ _ _ _ s.flags h1 hiso.1 hs.flags
        obtain ⟨a2, b2⟩ := flagsTrue_rlSweep _ _ _ _ _ _ hfs (hiso.2 fs1 h1) a1
        have hk' : k < s.n := by rw [← hs.len]; omega
        refine ⟨_, by unfold Canon.orthogonalize; rw [if_pos hk'], ⟨?_, rfl, ?_⟩⟩
        · show fs'.length = s.n
          rw [b2, b1, hs.len]
        · show FlagsTrue _ fs'
          rw [← hs.ctr, ← hs.len]
          exact a2

theorem orth_centre {t t' : TSt K} {k : Nat} {o : OTape K} (h : orth t k o = some t') : t'.centre = some k := by
  unfold orth at h
  split at h
  · exact absurd h (by simp)
  · simp only [Option.some.injEq] at h
    subst h; rfl

theorem orth_shape (d : Nat) {t t' : TSt K} {k : Nat} {o : OTape K} (h : orth t k o = some t')
    (hs : Shape d t.fs) : Shape d t'.fs := by
  unfold orth at h
  split at h
  · exact absurd h (by simp)
  · rename_i fs' hfs
    simp only [Option.some.injEq] at h
    subst h
    exact shape_orthogonalize d _ _ _ _ _ _ hfs hs

/-! ### `truncate` -/

theorem trunc_sem {s : Canon.St} {t t' : TSt K} {o : OTape K} {st : List (Split K)} (hs : Sem s t)
    (hok : TruncOk t o st) (h : trunc t o st = some t') :
    ∃ s', Canon.truncate s = some s' ∧ Sem s' t' := by
  unfold trunc at h
  split at h
  · exact absurd h (by simp)
  · rename_i t1 h1
    split at h
    · exact absurd h (by simp)
    · rename_i fs' h2
      simp only [Option.some.injEq] at h
      subst h
      obtain ⟨s1, e1, hs1⟩ := orth_sem hs hok.1 h1
      obtain ⟨a, b⟩ := flagsTrue_truncSweep _ _ _ _ _ s1.flags h2 (hok.2 t1 h1) hs1.flags
      refine ⟨_, by unfold Canon.truncate; rw [← hs.len, e1], ⟨?_, rfl, ?_⟩⟩
      · show fs'.length = s1.n
        rw [b, hs1.len]
      · show FlagsTrue (Canon.truncateImpl s1.n s1.flags) fs'
        unfold Canon.truncateImpl
        rw [← hs1.len]
        exact a

theorem trunc_shape (d : Nat) {t t' : TSt K} {o : OTape K} {st : List (Split K)} (h : trunc t o st = some t')
    (hs : Shape d t.fs) : Shape d t'.fs := by
  unfold trunc at h
  split at h
  · exact absurd h (by simp)
  · rename_i t1 h1
    split at h
    · exact absurd h (by simp)
    · rename_i fs' h2
      simp only [Option.some.injEq] at h
      subst h
      exact shape_truncSweep d _ _ _ _ _ h2 (orth_shape d h1 hs)

/-! ### `scale`, `apply` -/

theorem scale_sem {s : Canon.St} {t : TSt K} (c : K) (hs : Sem s t) : Sem (Canon.scale s) (scale t c) := by
  refine ⟨?_, hs.ctr, ?_⟩
  · show (scaleFactors c (t.centre.getD 0) t.fs).length = s.n
    rw [scaleFactors, (scaleAux_dims c _ 0 t.fs).2.1, hs.len]
  · show FlagsTrue (Canon.upd s.flags (s.centre.getD 0) Canon.Flag.U) (scaleFactors c (t.centre.getD 0) t.fs)
    rw [← hs.ctr]
    cases hA : t.fs[t.centre.getD 0]? with
    | none =>
      have : scaleFactors c (t.centre.getD 0) t.fs = t.fs := by
        apply List.ext_getElem?
        intro j
        rw [scaleFactors, scaleAux_getElem?]
        simp only [Nat.zero_add]
        split
        · rename_i e; subst e; simp [hA]
        · rfl
      rw [this]
      intro j A hj
      by_cases e : j = t.centre.getD 0
      · subst e; rw [hA] at hj; exact absurd hj (by simp)
      · simp only [Canon.upd, if_neg e]; exact hs.flags j A hj
    | some A =>
      rw [scaleFactors_eq_set c _ t.fs A hA]
      exact flagsTrue_set _ _ _ _ _ hs.flags (flagTrue_U _)

theorem scale_shape (d : Nat) (t : TSt K) (c : K) (hs : Shape d t.fs) : Shape d (scale t c).fs := by
  show Shape d (scaleFactors c (t.centre.getD 0) t.fs)
  cases hA : t.fs[t.centre.getD 0]? with
  | none =>
    have : scaleFactors c (t.centre.getD 0) t.fs = t.fs := by
      apply List.ext_getElem?
      intro j
      rw [scaleFactors, scaleAux_getElem?]
      simp only [Nat.zero_add]
      split
      · rename_i e; subst e; simp [hA]
      · rfl
    rw [this]; exact hs
  | some A =>
    rw [scaleFactors_eq_set c _ t.fs A hA]
    exact shape_set d t.fs _ A _ hA (by simp [scaleSite]) (by simp [scaleSite]) (by simp [scaleSite]) hs

theorem applyOp_sem {s : Canon.St} {t t' : TSt K} {k : Nat} {op : Nat → Nat → K} {o : OTape K} (hs : Sem s t)
    (hiso : OrthIso t.fs t.centre k o) (h : applyOp t k op o = some t') :
    ∃ s', Canon.applyOp s k = some s' ∧ Sem s' t' := by
  unfold applyOp at h
  split at h
  · exact absurd h (by simp)
  · rename_i t1 h1
    split at h
    · exact absurd h (by simp)
    · rename_i A hA
      simp only [Option.some.injEq] at h
      subst h
      obtain ⟨s1, e1, hs1⟩ := orth_sem hs hiso h1
      refine ⟨{ s1 with flags := Canon.upd s1.flags k Canon.Flag.U }, by simp only [Canon.applyOp, e1],
        ⟨?_, hs1.ctr, ?_⟩⟩
      · show (t1.fs.set k _).length = s1.n
        rw [List.length_set, hs1.len]
      · show FlagsTrue (Canon.upd s1.flags k Canon.Flag.U) (t1.fs.set k _)
        exact flagsTrue_set _ _ _ _ _ hs1.flags (flagTrue_U _)

theorem applyOp_shape (d : Nat) {t t' : TSt K} {k : Nat} {op : Nat → Nat → K} {o : OTape K}
    (h : applyOp t k op o = some t') (hs : Shape d t.fs) : Shape d t'.fs := by
  unfold applyOp at h
  split at h
  · exact absurd h (by simp)
  · rename_i t1 h1
    split at h
    · exact absurd h (by simp)
    · rename_i A hA
      simp only [Option.some.injEq] at h
      subst h
      exact shape_set d t1.fs k A _ hA (by simp [applySite]) (by simp [applySite]) (by simp [applySite])
        (orth_shape d h1 hs)

theorem applyOp_centre {t t' : TSt K} {k : Nat} {op : Nat → Nat → K} {o : OTape K}
    (h : applyOp t k op o = some t') : t'.centre = some k := by
  unfold applyOp at h
  split at h
  · exact absurd h (by simp)
  · rename_i t1 h1
    split at h
    · exact absurd h (by simp)
    · simp only [Option.some.injEq] at h
      subst h
      show t1.centre = some k
      exact orth_centre h1

/-! ### `norm` / `expect_batch`, `get_correlation_matrix` -/

theorem ensureCentre_sem {s : Canon.St} {t t' : TSt K} {o : OTape K} (hs : Sem s t)
    (hiso : t.centre = none → OrthIso t.fs none 0 o) (h : ensureCentre t o = some t') :
    ∃ s', Canon.ensureCentre s = some s' ∧ Sem s' t' := by
  unfold ensureCentre at h
  cases hc : t.centre with
  | none =>
    rw [hc] at h
    simp only at h
    have hiso' : OrthIso t.fs t.centre 0 o := by rw [hc]; exact hiso hc
    obtain ⟨s', e, hs'⟩ := orth_sem hs hiso' h
    refine ⟨s', ?_, hs'⟩
    unfold Canon.ensureCentre
    rw [← hs.ctr, hc]
    exact e
  | some c =>
    rw [hc] at h
    simp only [Option.some.injEq] at h
    subst h
    refine ⟨s, ?_, hs⟩
    unfold Canon.ensureCentre
    rw [← hs.ctr, hc]

theorem ensureCentre_shape (d : Nat) {t t' : TSt K} {o : OTape K} (h : ensureCentre t o = some t')
    (hs : Shape d t.fs) : Shape d t'.fs := by
  unfold ensureCentre at h
  split at h
  · simp only [Option.some.injEq] at h; subst h; exact hs
  · exact orth_shape d h hs

theorem corrLoop_sem (k left : Nat) {s : Canon.St} {t t' : TSt K} {os : List (OTape K)} (hs : Sem s t)
    (hiso : CorrIso k left t os) (h : corrLoop k left t os = some t') :
    ∃ s', Canon.corrLoop k left s = some s' ∧ Sem s' t' := by
  induction k generalizing left s t os with
  | zero =>
    simp only [corrLoop, Option.some.injEq] at h
    subst h
    exact ⟨s, rfl, hs⟩
  | succ k ih =>
    cases os with
    | nil => simp [corrLoop] at h
    | cons o os =>
      simp only [corrLoop] at h
      split at h
      · exact absurd h (by simp)
      · rename_i t1 h1
        obtain ⟨s1, e1, hs1⟩ := orth_sem hs hiso.1 h1
        obtain ⟨s', e', hs'⟩ := ih (left + 1) hs1 (hiso.2 t1 h1) h
        exact ⟨s', by simp only [Canon.corrLoop, e1]; exact e', hs'⟩

theorem corrLoop_shape (d k left : Nat) {t t' : TSt K} {os : List (OTape K)}
    (h : corrLoop k left t os = some t') (hs : Shape d t.fs) : Shape d t'.fs := by
  induction k generalizing left t os with
  | zero =>
    simp only [corrLoop, Option.some.injEq] at h
    subst h; exact hs
  | succ k ih =>
    cases os with
    | nil => simp [corrLoop] at h
    | cons o os =>
      simp only [corrLoop] at h
      split at h
      · exact absurd h (by simp)
      · rename_i t1 h1
        exact ih (left + 1) h (orth_shape d h1 hs)

/-! ### `MPO.apply_to`: `zip_right` then `truncate_impl` -/

theorem zipLoop_length (d m : Nat) (tops bots : List (Site K)) (tape : List (QR3 K)) (S Sf : Slider K)
    (fs : List (Site K)) (h : zipLoop d m tops bots tape S = some (fs, Sf)) : fs.length = bots.length := by
  induction tops generalizing bots tape S fs with
  | nil =>
    cases bots with
    | nil => simp only [zipLoop, Option.some.injEq, Prod.mk.injEq] at h; rw [← h.1]
    | cons _ _ => simp [zipLoop] at h
  | cons top tops ih =>
    cases bots with
    | nil => simp [zipLoop] at h
    | cons bot bots =>
      cases tape with
      | nil => simp [zipLoop] at h
      | cons f tape =>
        simp only [zipLoop] at h
        split at h
        · exact absurd h (by simp)
        · rename_i A S' _
          split at h
          · exact absurd h (by simp)
          · rename_i rest Sf' hrec
            simp only [Option.some.injEq, Prod.mk.injEq] at h
            obtain ⟨rfl, rfl⟩ := h
            simp [ih bots tape S' rest hrec]

theorem absorbLast_length (S : Slider K) (fs : List (Site K)) : (absorbLast S fs).length = fs.length := by
  induction fs with
  | nil => rfl
  | cons A fs ih =>
    cases fs with
    | nil => rfl
    | cons B fs => simp only [absorbLast, List.length_cons] at ih ⊢; rw [ih]

theorem zipRight_length (d m : Nat) (tops bots fs : List (Site K)) (tape : List (QR3 K))
    (h : zipRight d m tops bots tape = some fs) : fs.length = bots.length := by
  unfold zipRight at h
  split at h
  · exact absurd h (by simp)
  · split at h
    · exact absurd h (by simp)
    · rename_i gs Sf hloop
      simp only [Option.some.injEq] at h
      rw [← h, absorbLast_length]
      exact zipLoop_length d m tops bots tape slider0 Sf gs hloop

/-- the flags the machine declares after `apply_to` agree, on the sites that exist, with a sweep started from
"no claim at all" — the `L` flags of the zip-up are all overwritten -/
theorem applyTo_flags (n j : Nat) (hj : j < n) :
    Canon.truncateImpl n (Canon.upd (fun _ => Canon.Flag.L) (n - 1) Canon.Flag.U) j
      = Canon.rlSweep (fun _ => Canon.Flag.U) (n - 1) (n - 1) j := by
  unfold Canon.truncateImpl
  rw [Canon.rlSweep_apply _ _ _ _ (Nat.le_refl _), Canon.rlSweep_apply _ _ _ _ (Nat.le_refl _)]
  by_cases h1 : n - 1 - (n - 1) < j ∧ j ≤ n - 1
  · rw [if_pos h1, if_pos h1]
  · rw [if_neg h1, if_neg h1]
    by_cases h2 : j = n - 1 - (n - 1) ∧ 0 < n - 1
    · rw [if_pos h2, if_pos h2]
    · rw [if_neg h2, if_neg h2]
      have : j = n - 1 := by omega
      simp [Canon.upd, this]

/-! ### one step of the machine -/

theorem tstep_sem {s : Canon.St} {t t' : TSt K} (op : TOp K) (hs : Sem s t) (hok : OpIso t op)
    (h : tstep t op = some t') : ∃ s', Canon.step s (shadow op) = some s' ∧ Sem s' t' := by
  cases op with
  | orthogonalize k o => exact orth_sem hs hok h
  | truncate o st => exact trunc_sem hs hok h
  | add other o st =>
    simp only [tstep] at h
    split at h
    · exact absurd h (by simp)
    · rename_i S hS
      have hs0 : Sem (Canon.fresh s.n) ({ fs := S, centre := none } : TSt K) := by
        refine ⟨?_, rfl, flagsTrue_fresh S⟩
        show S.length = s.n
        have : S.length = t.fs.length := by
          unfold addFactors at hS
          split at hS
          · exact absurd hS (by simp)
          · rename_i hl
            have aux : ∀ (n i : Nat) (L R S : List (Site K)), addAux n i L R = some S → S.length = L.length := by
              intro n i L
              induction L generalizing i with
              | nil =>
                intro R S hh
                cases R with
                | nil => simp only [addAux, Option.some.injEq] at hh; rw [← hh]
                | cons _ _ => simp [addAux] at hh
              | cons A L ih =>
                intro R S hh
                cases R with
                | nil => simp [addAux] at hh
                | cons B R =>
                  simp only [addAux] at hh
                  split at hh
                  · rename_i c rest _ hrest
                    simp only [Option.some.injEq] at hh
                    rw [← hh]
                    simp [ih (i + 1) R rest hrest]
                  · exact absurd hh (by simp)
            exact aux _ _ _ _ _ hS
        rw [this, hs.len]
      exact trunc_sem hs0 (hok S hS) h
  | scale c =>
    simp only [tstep, Option.some.injEq] at h
    subst h
    exact ⟨_, rfl, scale_sem c hs⟩
  | apply k op o => exact applyOp_sem hs hok h
  | applyTo mpo zt st =>
    simp only [tstep] at h
    split at h
    · exact absurd h (by simp)
    · rename_i fs1 h1
      split at h
      · exact absurd h (by simp)
      · rename_i fs' h2
        simp only [Option.some.injEq] at h
        subst h
        have hl1 : fs1.length = s.n := by rw [zipRight_length _ _ _ _ _ _ h1, hs.len]
        obtain ⟨a, b⟩ := flagsTrue_truncSweep _ _ _ _ _ (fun _ => Canon.Flag.U) h2 (hok fs1 h1) (flagsTrue_fresh fs1)
        refine ⟨_, rfl, ⟨?_, rfl, ?_⟩⟩
        · show fs'.length = s.n
          rw [b, hl1]
        · show FlagsTrue (Canon.truncateImpl s.n _) fs'
          refine flagsTrue_congr _ _ fs' (fun j hj => ?_) a
          rw [hl1]
          exact (applyTo_flags s.n j (by rw [← hl1, ← b]; exact hj)).symm
  | expectBatch o => exact ensureCentre_sem hs hok h
  | norm o => exact ensureCentre_sem hs hok h
  | inner =>
    simp only [tstep, Option.some.injEq] at h
    subst h
    exact ⟨s, rfl, hs⟩
  | correlation os =>
    simp only [tstep] at h
    obtain ⟨s', e, hs'⟩ := corrLoop_sem _ _ hs hok h
    exact ⟨s', by simp only [shadow, Canon.step]; rw [← hs.len]; exact e, hs'⟩
  | sample o => exact orth_sem hs hok h
  | entropy k o1 o2 =>
    simp only [tstep] at h
    split at h
    · exact absurd h (by simp)
    · rename_i t1 h1
      obtain ⟨s1, e1, hs1⟩ := orth_sem hs hok.1 h1
      obtain ⟨s', e', hs'⟩ := orth_sem hs1 (hok.2 t1 h1) h
      exact ⟨s', by simp only [shadow, Canon.step, e1]; exact e', hs'⟩
  | jump k op o1 o2 c =>
    simp only [tstep] at h
    split at h
    · exact absurd h (by simp)
    · rename_i t1 h1
      split at h
      · exact absurd h (by simp)
      · rename_i t2 h2
        simp only [Option.some.injEq] at h
        subst h
        obtain ⟨s1, e1, hs1⟩ := applyOp_sem hs hok.1 h1
        obtain ⟨s2, e2, hs2⟩ := orth_sem hs1 (hok.2 t1 h1) h2
        exact ⟨_, by simp only [shadow, Canon.step, e1, e2], scale_sem c hs2⟩

end EmuVerif.CanonBridge
