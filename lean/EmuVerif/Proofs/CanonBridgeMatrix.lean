/-
  Link between the `Site`-model isometry predicates and Mathlib matrices:
  `LeftIso A ↔ (leftMat A)ᴴ * leftMat A = 1` with `leftMat A : Matrix (Fin χl × Fin d) (Fin χr) K`
  — exactly the hypothesis of `Isometry.LeftChain.snoc` — and the mirror statement for `RightIso` /
  `Isometry.RightChain.cons`; and the index bookkeeping (`Σ_{i < a·b} g i = Σ_{x<a} Σ_{r<b} g (x·b + r)`) that turns
  the flattened `eigh` contract of `Proofs/CutoffMatrix.lean` into the un-flattened `SplitIso`.
-/
import EmuVerif.Proofs.CanonBridge
import EmuVerif.Proofs.Isometry
import EmuVerif.Proofs.CutoffMatrix
import Mathlib.Algebra.BigOperators.Fin

set_option linter.unusedSectionVars false
set_option linter.unusedVariables false
set_option linter.unusedSimpArgs false

namespace EmuVerif.CanonBridge
open EmuVerif EmuVerif.Tensor EmuVerif.CanonOps Finset Matrix

variable {K : Type} [CommRing K] [StarRing K]

/-- `A.view(χl·d, χr)` as a Mathlib matrix (row index `(l, x)`) -/
def leftMat (A : Site K) : Matrix (Fin A.dl × Fin A.d) (Fin A.dr) K := fun p r => A.t p.2.val p.1.val r.val

/-- `A.view(χl, d·χr)` as a Mathlib matrix (column index `(r, x)`; the order of the pair is immaterial) -/
def rightMat (A : Site K) : Matrix (Fin A.dl) (Fin A.dr × Fin A.d) K := fun l p => A.t p.2.val l.val p.1.val

theorem leftMat_gram (A : Site K) (r r' : Fin A.dr) :
    ((leftMat A)ᴴ * leftMat A) r r'
      = ∑ x ∈ range A.d, ∑ l ∈ range A.dl, star (A.t x l r) * A.t x l r' := by
  simp only [Matrix.mul_apply, Matrix.conjTranspose_apply, leftMat, Fintype.sum_prod_type]
  rw [Finset.sum_comm]
  rw [← Fin.sum_univ_eq_sum_range (fun x => ∑ l ∈ range A.dl, star (A.t x l r) * A.t x l r') A.d]
  refine Finset.sum_congr rfl (fun x _ => ?_)
  rw [← Fin.sum_univ_eq_sum_range (fun l => star (A.t x l r) * A.t x l r') A.dl]

theorem rightMat_gram (A : Site K) (l l' : Fin A.dl) :
    (rightMat A * (rightMat A)ᴴ) l l'
      = ∑ x ∈ range A.d, ∑ r ∈ range A.dr, A.t x l r * star (A.t x l' r) := by
  simp only [Matrix.mul_apply, Matrix.conjTranspose_apply, rightMat, Fintype.sum_prod_type]
  rw [Finset.sum_comm]
  rw [← Fin.sum_univ_eq_sum_range (fun x => ∑ r ∈ range A.dr, A.t x l r * star (A.t x l' r)) A.d]
  refine Finset.sum_congr rfl (fun x _ => ?_)
  rw [← Fin.sum_univ_eq_sum_range (fun r => A.t x l r * star (A.t x l' r)) A.dr]

/-- `LeftIso` is the hypothesis `Aᴴ * A = 1` of `Isometry.LeftChain.snoc`. -/
theorem leftIso_iff_matrix (A : Site K) : LeftIso A ↔ (leftMat A)ᴴ * leftMat A = 1 := by
  constructor
  · intro h
    ext r r'
    rw [leftMat_gram, Matrix.one_apply, h r.val r.isLt r'.val r'.isLt]
    simp [Fin.ext_iff]
  · intro h r hr r' hr'
    have := congrFun (congrFun h ⟨r, hr⟩) ⟨r', hr'⟩
    rw [leftMat_gram, Matrix.one_apply] at this
    simpa [Fin.ext_iff] using this

/-- `RightIso` is the hypothesis `A * Aᴴ = 1` of `Isometry.RightChain.cons`. -/
theorem rightIso_iff_matrix (A : Site K) : RightIso A ↔ rightMat A * (rightMat A)ᴴ = 1 := by
  constructor
  · intro h
    ext l l'
    rw [rightMat_gram, Matrix.one_apply, h l.val l.isLt l'.val l'.isLt]
    simp [Fin.ext_iff]
  · intro h l hl l' hl'
    have := congrFun (congrFun h ⟨l, hl⟩) ⟨l', hl'⟩
    rw [rightMat_gram, Matrix.one_apply] at this
    simpa [Fin.ext_iff] using this

/-- row-major un-flattening of a sum -/
theorem sum_range_mul (a b : Nat) (g : Nat → K) :
    ∑ i ∈ range (a * b), g i = ∑ x ∈ range a, ∑ r ∈ range b, g (x * b + r) := by
  induction a with
  | zero => simp
  | succ a ih => rw [Nat.succ_mul, Finset.sum_range_add, ih, Finset.sum_range_succ]

theorem unflatten_div (x b r : Nat) (hr : r < b) : (x * b + r) / b = x := by
  rw [Nat.add_comm, Nat.add_mul_div_right _ _ (by omega), Nat.div_eq_of_lt hr, Nat.zero_add]

theorem unflatten_mod (x b r : Nat) (hr : r < b) : (x * b + r) % b = r := by
  rw [Nat.add_comm, Nat.add_mul_mod_self_right, Nat.mod_eq_of_lt hr]

/-- the recorded eigenvector matrix `q x r col = q[x·dr + r, col]` as a flattened Mathlib matrix -/
def flatQ (n dr : Nat) (q : Nat → Nat → Nat → K) : Matrix (Fin n) (Fin n) K :=
  fun i j => q (i.val / dr) (i.val % dr) j.val

/-- an isometry of flattened columns `mb + j`, un-flattened -/
theorem splitIso_of_kept_isometry {mb k : Nat} (B : Site K) (hlen : mb + k = B.d * B.dr)
    (q : Nat → Nat → Nat → K)
    (h : ((flatQ (mb + k) B.dr q).submatrix id (Fin.natAdd mb : Fin k → Fin (mb + k)))ᴴ
          * (flatQ (mb + k) B.dr q).submatrix id (Fin.natAdd mb) = 1) :
    SplitIso (keptBlock mb k q) B := by
  intro j hj j' hj'
  simp only [keptBlock] at hj hj' ⊢
  have e := congrFun (congrFun h ⟨j, hj⟩) ⟨j', hj'⟩
  simp only [Matrix.mul_apply, Matrix.conjTranspose_apply, Matrix.submatrix_apply, id, flatQ, Fin.val_natAdd,
    Matrix.one_apply, Fin.ext_iff] at e
  rw [Fin.sum_univ_eq_sum_range (fun i => star (q (i / B.dr) (i % B.dr) (mb + j)) * q (i / B.dr) (i % B.dr) (mb + j'))
    (mb + k), hlen, sum_range_mul] at e
  rw [← e]
  refine Finset.sum_congr rfl (fun x _ => Finset.sum_congr rfl (fun r hr => ?_))
  rw [unflatten_div x B.dr r (Finset.mem_range.mp hr), unflatten_mod x B.dr r (Finset.mem_range.mp hr)]

end EmuVerif.CanonBridge
