/-
  Norm of a chain in mixed-canonical form, in the `Site` model (sums over `Finset.range`, amplitudes `amp`):
  if every factor left of position `c` is a `LeftIso` and every factor right of it a `RightIso`, then the loop of
  `MPS.inner(self, self)` — hence `Σ_s |amp s|²` — equals the squared Frobenius norm of factor `c`.
  Every statement is an induction over the list of sites: any number of sites, any bond dimensions.
-/
import EmuVerif.Proofs.CanonBridge

set_option linter.unusedSectionVars false
set_option linter.unusedVariables false
set_option linter.unusedSimpArgs false

namespace EmuVerif.CanonBridge
open EmuVerif EmuVerif.Tensor EmuVerif.CanonOps Finset

variable {K : Type} [CommRing K] [StarRing K]

/-- `acc` is the identity on `range n × range n` -/
def IsDelta (n : Nat) (acc : Nat → Nat → K) : Prop :=
  ∀ a < n, ∀ b < n, acc a b = if a = b then 1 else 0

theorem sum_delta_right (n : Nat) (a : Nat) (ha : a < n) (F : Nat → K) :
    ∑ b ∈ range n, (if a = b then (1 : K) else 0) * F b = F a := by
  rw [Finset.sum_eq_single a]
  · simp
  · intro b _ hba; rw [if_neg (Ne.symm hba)]; simp
  · intro h; exact absurd (Finset.mem_range.mpr ha) h

theorem sum_delta_right' (n : Nat) (a : Nat) (ha : a < n) (F : Nat → K) :
    ∑ b ∈ range n, F b * (if a = b then (1 : K) else 0) = F a := by
  rw [← sum_delta_right n a ha F]
  exact Finset.sum_congr rfl (fun b _ => mul_comm _ _)

theorem innerStepF_leftIso (A : Site K) (hA : LeftIso A) (acc : Nat → Nat → K) (h : IsDelta A.dl acc) :
    IsDelta A.dr (innerStepF acc A A) := by
  intro r hr r' hr'
  simp only [innerStepF]
  have key : ∀ a ∈ range A.dl, ∀ x ∈ range A.d,
      star (A.t x a r) * ∑ b ∈ range A.dl, acc a b * A.t x b r' = star (A.t x a r) * A.t x a r' := by
    intro a ha x _
    congr 1
    rw [Finset.sum_congr rfl (fun b hb => by
      rw [h a (Finset.mem_range.mp ha) b (Finset.mem_range.mp hb)])]
    exact sum_delta_right A.dl a (Finset.mem_range.mp ha) (fun b => A.t x b r')
  rw [Finset.sum_congr rfl (fun a ha => Finset.sum_congr rfl (fun x hx => key a ha x hx)), Finset.sum_comm]
  exact hA r hr r' hr'

/-- the loop of `inner(self, self)` passes a left-orthonormal prefix with the identity -/
theorem innerAccF_skip_left (L rest : List (Site K)) (hL : ∀ A ∈ L, LeftIso A) (hw : Wf (L ++ rest))
    (acc : Nat → Nat → K) (hacc : IsDelta (headDl (L ++ rest)) acc) :
    ∃ acc', IsDelta (headDl rest) acc' ∧ innerAccF (L ++ rest) (L ++ rest) acc = innerAccF rest rest acc' := by
  induction L generalizing acc with
  | nil => exact ⟨acc, hacc, rfl⟩
  | cons A L ih =>
    simp only [List.cons_append, innerAccF]
    simp only [List.cons_append, headDl_cons] at hacc
    have hw' : Wf (A :: (L ++ rest)) := hw
    refine ih (fun B hB => hL B (List.mem_cons_of_mem _ hB)) hw'.2 _ ?_
    rw [← hw'.1]
    exact innerStepF_leftIso A (hL A (List.mem_cons_self ..)) acc hacc

/-- a right-orthonormal tail: its column amplitudes are orthonormal over the strings -/
theorem colAmp_rightIso (d : Nat) (R : List (Site K)) (hR : ∀ A ∈ R, RightIso A) (hw : Wf R)
    (hd : ∀ A ∈ R, A.d = d) :
    ∀ r < headDl R, ∀ r' < headDl R,
      sumStrings d R.length (fun s => colAmp R s r * star (colAmp R s r')) = if r = r' then 1 else 0 := by
  induction R with
  | nil =>
    intro r hr r' hr'
    simp only [headDl_nil] at hr hr'
    have e1 : r = 0 := by omega
    have e2 : r' = 0 := by omega
    subst e1; subst e2
    simp [sumStrings, colAmp]
  | cons A R ih =>
    intro l hl l' hl'
    simp only [headDl_cons] at hl hl'
    have hdA : A.d = d := hd A (List.mem_cons_self ..)
    have ihR := ih (fun B hB => hR B (List.mem_cons_of_mem _ hB)) hw.2 (fun B hB => hd B (List.mem_cons_of_mem _ hB))
    simp only [List.length_cons, sumStrings, sumTo_eq, colAmp]
    have step : ∀ x, sumStrings d R.length (fun s =>
        (∑ r ∈ range A.dr, A.t x l r * colAmp R s r) * star (∑ r ∈ range A.dr, A.t x l' r * colAmp R s r))
        = ∑ r ∈ range A.dr, A.t x l r * star (A.t x l' r) := by
      intro x
      have e : ∀ s, (∑ r ∈ range A.dr, A.t x l r * colAmp R s r) * star (∑ r ∈ range A.dr, A.t x l' r * colAmp R s r)
          = ∑ r ∈ range A.dr, ∑ r' ∈ range A.dr,
              (A.t x l r * star (A.t x l' r')) * (colAmp R s r * star (colAmp R s r')) := by
        intro s
        rw [star_sum, Finset.sum_mul_sum]
        exact Finset.sum_congr rfl (fun r _ => Finset.sum_congr rfl (fun r' _ => by rw [star_mul']; ring))
      rw [sumStrings_congr _ _ _ _ (fun s _ => e s), sumStrings_sum]
      refine Finset.sum_congr rfl (fun r hr => ?_)
      rw [sumStrings_sum]
      rw [Finset.sum_congr rfl (fun r' hr' => by
        rw [sumStrings_mul_left, ihR r (by rw [← hw.1]; exact Finset.mem_range.mp hr) r'
          (by rw [← hw.1]; exact Finset.mem_range.mp hr')])]
      exact sum_delta_right' A.dr r (Finset.mem_range.mp hr) (fun r' => A.t x l r * star (A.t x l' r'))
    rw [Finset.sum_congr rfl (fun x _ => step x), ← hdA]
    exact hR A (List.mem_cons_self ..) l hl l' hl'

/-- the centre and a right-orthonormal tail, entered with the identity: squared Frobenius norm of the centre -/
theorem innerAccF_centre_tail (d : Nat) (C : Site K) (R : List (Site K)) (hR : ∀ A ∈ R, RightIso A)
    (hw : Wf (C :: R)) (hd : ∀ A ∈ C :: R, A.d = d) (acc : Nat → Nat → K) (hacc : IsDelta C.dl acc) :
    innerAccF (C :: R) (C :: R) acc 0 0
      = ∑ x ∈ range C.d, ∑ l ∈ range C.dl, ∑ r ∈ range C.dr, star (C.t x l r) * C.t x l r := by
  have hdC : C.d = d := hd C (List.mem_cons_self ..)
  have hdR : ∀ A ∈ R, A.d = d := fun B hB => hd B (List.mem_cons_of_mem _ hB)
  rw [innerAccF_eq d (C :: R) (C :: R) rfl hw hw hd]
  simp only [List.length_cons, sumStrings, sumTo_eq, headDl_cons, colAmp, hdC]
  refine Finset.sum_congr rfl (fun x _ => ?_)
  have e : ∀ s, (∑ a ∈ range C.dl, ∑ b ∈ range C.dl,
        acc a b * star (∑ r ∈ range C.dr, C.t x a r * colAmp R s r) * ∑ r ∈ range C.dr, C.t x b r * colAmp R s r)
      = ∑ a ∈ range C.dl, ∑ r ∈ range C.dr, ∑ r' ∈ range C.dr,
          (star (C.t x a r) * C.t x a r') * (colAmp R s r' * star (colAmp R s r)) := by
    intro s
    refine Finset.sum_congr rfl (fun a ha => ?_)
    rw [Finset.sum_congr rfl (fun b hb => by
      rw [hacc a (Finset.mem_range.mp ha) b (Finset.mem_range.mp hb), mul_assoc])]
    rw [sum_delta_right C.dl a (Finset.mem_range.mp ha)
      (fun b => star (∑ r ∈ range C.dr, C.t x a r * colAmp R s r) * ∑ r ∈ range C.dr, C.t x b r * colAmp R s r)]
    rw [star_sum, Finset.sum_mul_sum]
    exact Finset.sum_congr rfl (fun r _ => Finset.sum_congr rfl (fun r' _ => by rw [star_mul']; ring))
  rw [sumStrings_congr _ _ _ _ (fun s _ => e s), sumStrings_sum]
  refine Finset.sum_congr rfl (fun a _ => ?_)
  rw [sumStrings_sum]
  refine Finset.sum_congr rfl (fun r hr => ?_)
  rw [sumStrings_sum]
  rw [Finset.sum_congr rfl (fun r' hr' => by
    rw [sumStrings_mul_left, colAmp_rightIso d R hR hw.2 hdR r' (by rw [← hw.1]; exact Finset.mem_range.mp hr') r
      (by rw [← hw.1]; exact Finset.mem_range.mp hr)])]
  have : ∀ r' ∈ range C.dr, star (C.t x a r) * C.t x a r' * (if r' = r then (1 : K) else 0)
      = star (C.t x a r) * C.t x a r' * (if r = r' then (1 : K) else 0) := by
    intro r' _
    by_cases h : r = r'
    · subst h; simp
    · rw [if_neg h, if_neg (Ne.symm h)]
  rw [Finset.sum_congr rfl this]
  exact sum_delta_right' C.dr r (Finset.mem_range.mp hr) (fun r' => star (C.t x a r) * C.t x a r')

/-- **Mixed-canonical form ⇒ ⟨ψ|ψ⟩ (as `MPS.inner` computes it) = ‖centre tensor‖_F²**, split form. -/
theorem innerAccF_canonical (d : Nat) (L : List (Site K)) (C : Site K) (R : List (Site K))
    (hL : ∀ A ∈ L, LeftIso A) (hR : ∀ A ∈ R, RightIso A) (hw : Wf (L ++ C :: R))
    (h1 : headDl (L ++ C :: R) = 1) (hd : ∀ A ∈ L ++ C :: R, A.d = d) :
    innerAccF (L ++ C :: R) (L ++ C :: R) (fun _ _ => 1) 0 0
      = ∑ x ∈ range C.d, ∑ l ∈ range C.dl, ∑ r ∈ range C.dr, star (C.t x l r) * C.t x l r := by
  have h0 : IsDelta (headDl (L ++ C :: R)) (fun _ _ => (1 : K)) := by
    rw [h1]
    intro a ha b hb
    have : a = b := by omega
    simp [this]
  obtain ⟨acc', hacc', e⟩ := innerAccF_skip_left L (C :: R) hL hw _ h0
  rw [e]
  have hw2 : Wf (C :: R) := by
    clear e hacc' h0 h1 hd hL
    induction L with
    | nil => exact hw
    | cons A L ih => exact ih hw.2
  exact innerAccF_centre_tail d C R hR hw2 (fun A hA => hd A (List.mem_append_right _ hA)) acc' hacc'

/-- the squared Frobenius norm of the model (`frobSite`) as a `Finset` sum -/
theorem frobSite_eq (C : Site K) :
    frobSite C = ∑ x ∈ range C.d, ∑ l ∈ range C.dl, ∑ r ∈ range C.dr, star (C.t x l r) * C.t x l r := by
  simp only [frobSite, sumTo_eq, conj_eq_star]

/-- mixed-canonical form around position `c` -/
def Canonical (fs : List (Site K)) (c : Nat) : Prop :=
  c < fs.length ∧ (∀ j A, j < c → fs[j]? = some A → LeftIso A) ∧ (∀ j A, c < j → fs[j]? = some A → RightIso A)

theorem split_at (fs : List (Site K)) (c : Nat) (C : Site K) (hC : fs[c]? = some C) :
    fs = fs.take c ++ C :: fs.drop (c + 1) := by
  have hc : c < fs.length := by
    by_contra h
    rw [List.getElem?_eq_none (by omega)] at hC
    exact absurd hC (by simp)
  have : fs[c] = C := by
    rw [List.getElem?_eq_getElem hc] at hC
    exact Option.some.inj hC
  rw [← this, List.getElem_cons_drop, List.take_append_drop]

/-- **norm² = ‖centre tensor‖_F²**: `self.inner(self)` of a valid chain in canonical form around `c`. -/
theorem inner_canonical (d : Nat) (fs : List (Site K)) (c : Nat) (C : Site K) (hv : validChain d fs = true)
    (hcan : Canonical fs c) (hC : fs[c]? = some C) : inner fs fs = some (frobSite C) := by
  obtain ⟨_, _, hw, h1, hd⟩ := validChain_spec d fs hv
  unfold inner
  rw [if_neg (by simp)]
  congr 1
  rw [innerAcc_get2, frobSite_eq]
  have hones : get2 (ones2 : Arr (Arr K)) = fun _ _ => 1 := by
    funext a b; simp [ones2]
  rw [hones]
  have hsplit := split_at fs c C hC
  have hL : ∀ A ∈ fs.take c, LeftIso A := by
    intro A hA
    obtain ⟨j, hj, e⟩ := List.getElem_of_mem hA
    rw [List.getElem_take] at e
    have hj' : j < c := by
      have := hj; rw [List.length_take] at this; omega
    have hjl : j < fs.length := by
      have := hj; rw [List.length_take] at this; omega
    exact hcan.2.1 j A hj' (by rw [List.getElem?_eq_getElem hjl, e])
  have hR : ∀ A ∈ fs.drop (c + 1), RightIso A := by
    intro A hA
    obtain ⟨j, hj, e⟩ := List.getElem_of_mem hA
    rw [List.getElem_drop] at e
    have hjl : c + 1 + j < fs.length := by
      have := hj; rw [List.length_drop] at this; omega
    exact hcan.2.2 (c + 1 + j) A (by omega) (by rw [List.getElem?_eq_getElem hjl, e])
  have key := innerAccF_canonical d (fs.take c) C (fs.drop (c + 1)) hL hR (by rw [← hsplit]; exact hw)
    (by rw [← hsplit]; exact h1) (by rw [← hsplit]; exact hd)
  rw [← hsplit] at key
  exact key

end EmuVerif.CanonBridge
