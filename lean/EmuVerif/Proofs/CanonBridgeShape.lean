/-
  Shape bookkeeping for `Props/C10Bridge.lean`: the in-place operations (`orthogonalize`, `truncate_impl`,
  `scale_factors`, `MPS.apply`) turn a valid chain (what the `MPS` constructor asserts: ≥ 2 sites, outer bonds 1,
  matching inner bonds, one physical dimension) into a valid chain.
-/
import EmuVerif.Proofs.CanonBridgeNorm

set_option linter.unusedSectionVars false
set_option linter.unusedVariables false
set_option linter.unusedSimpArgs false

namespace EmuVerif.CanonBridge
open EmuVerif EmuVerif.Tensor EmuVerif.CanonOps Finset

variable {K : Type} [CommRing K] [StarRing K]

/-- `validChain d fs` as a proposition in the form the proofs use -/
def Shape (d : Nat) (fs : List (Site K)) : Prop :=
  2 ≤ fs.length ∧ Wf fs ∧ headDl fs = 1 ∧ ∀ A ∈ fs, A.d = d

theorem shape_of_valid (d : Nat) (fs : List (Site K)) (h : validChain d fs = true) : Shape d fs := by
  obtain ⟨a, _, b, c, e⟩ := validChain_spec d fs h
  exact ⟨a, b, c, e⟩

theorem wf_getLast (fs : List (Site K)) (hne : fs ≠ []) (hw : Wf fs) : fs.getLast?.map (·.dr) = some 1 := by
  induction fs with
  | nil => exact absurd rfl hne
  | cons A fs ih =>
    cases fs with
    | nil => simpa [Wf, headDl] using hw.1
    | cons B fs =>
      rw [List.getLast?_cons_cons]
      exact ih (by simp) hw.2

theorem valid_of_shape (d : Nat) (fs : List (Site K)) (h : Shape d fs) : validChain d fs = true := by
  obtain ⟨h2, hw, h1, hd⟩ := h
  unfold validChain
  simp only [Bool.and_eq_true, decide_eq_true_eq, beq_iff_eq, List.all_eq_true]
  refine ⟨⟨⟨⟨by omega, chainOk_of_wf fs hw⟩, ?_⟩, wf_getLast fs (by intro e; simp [e] at h2) hw⟩, hd⟩
  cases fs with
  | nil => simp at h2
  | cons A fs => simpa using h1

theorem setPair_cons_succ (C : Site K) (rest : List (Site K)) (i : Nat) (p : Site K × Site K) :
    setPair (C :: rest) (i + 1) p = C :: setPair rest i p := by
  simp [setPair, List.set_cons_succ]

theorem wf_setPair (fs : List (Site K)) (i : Nat) (A B : Site K) (p : Site K × Site K)
    (hA : fs[i]? = some A) (hB : fs[i + 1]? = some B) (h1 : p.1.dl = A.dl) (h2 : p.1.dr = p.2.dl)
    (h3 : p.2.dr = B.dr) (hw : Wf fs) : Wf (setPair fs i p) ∧ headDl (setPair fs i p) = headDl fs := by
  induction i generalizing fs with
  | zero =>
    match fs, hA, hB, hw with
    | C :: D :: rest, hA, hB, hw =>
      simp at hA hB
      subst hA; subst hB
      simp only [setPair, List.set_cons_zero, List.set_cons_succ]
      exact ⟨⟨by simpa using h2, by rw [h3]; exact hw.2.1, hw.2.2⟩, by simpa using h1⟩
  | succ i ih =>
    match fs, hA, hB, hw with
    | C :: rest, hA, hB, hw =>
      simp at hA hB
      obtain ⟨a, b⟩ := ih rest hA hB hw.2
      rw [setPair_cons_succ]
      exact ⟨⟨by rw [b]; exact hw.1, a⟩, rfl⟩

theorem mem_of_getElem? (fs : List (Site K)) (i : Nat) (A : Site K) (h : fs[i]? = some A) : A ∈ fs :=
  List.mem_of_getElem? h

theorem shape_setPair (d : Nat) (fs : List (Site K)) (i : Nat) (A B : Site K) (p : Site K × Site K)
    (hA : fs[i]? = some A) (hB : fs[i + 1]? = some B) (h1 : p.1.dl = A.dl) (h2 : p.1.dr = p.2.dl)
    (h3 : p.2.dr = B.dr) (h4 : p.1.d = A.d) (h5 : p.2.d = B.d) (hs : Shape d fs) : Shape d (setPair fs i p) := by
  obtain ⟨hl, hw, hh, hd⟩ := hs
  obtain ⟨a, b⟩ := wf_setPair fs i A B p hA hB h1 h2 h3 hw
  refine ⟨by rw [setPair_length]; exact hl, a, by rw [b]; exact hh, ?_⟩
  intro X hX
  unfold setPair at hX
  rcases List.mem_or_eq_of_mem_set hX with hX | hX
  · rcases List.mem_or_eq_of_mem_set hX with hX | hX
    · exact hd X hX
    · rw [hX, h4]; exact hd A (mem_of_getElem? fs i A hA)
  · rw [hX, h5]; exact hd B (mem_of_getElem? fs (i + 1) B hB)

theorem shape_lrSweep (d cnt i : Nat) (fs fs' : List (Site K)) (tape : List (QRl K))
    (h : lrSweep cnt i fs tape = some fs') (hs : Shape d fs) : Shape d fs' := by
  induction cnt generalizing i fs tape with
  | zero => simp [lrSweep] at h; subst h; exact hs
  | succ cnt ih =>
    cases tape with
    | nil => simp [lrSweep] at h
    | cons f tape =>
      simp only [lrSweep] at h
      split at h
      · rename_i A B hA hB
        exact ih (i + 1) _ tape h (shape_setPair d fs i A B _ hA hB rfl rfl rfl rfl rfl hs)
      · exact absurd h (by simp)

theorem shape_rlSweep (d cnt i : Nat) (fs fs' : List (Site K)) (tape : List (QRr K))
    (h : rlSweep cnt i fs tape = some fs') (hs : Shape d fs) : Shape d fs' := by
  induction cnt generalizing i fs tape with
  | zero => simp [rlSweep] at h; subst h; exact hs
  | succ cnt ih =>
    cases tape with
    | nil => simp [rlSweep] at h
    | cons f tape =>
      cases i with
      | zero => simp [rlSweep] at h
      | succ i' =>
        simp only [rlSweep] at h
        split at h
        · rename_i A B hA hB
          exact ih i' _ tape h (shape_setPair d fs i' A B _ hA hB rfl rfl rfl rfl rfl hs)
        · exact absurd h (by simp)

theorem shape_truncSweep (d cnt i : Nat) (fs fs' : List (Site K)) (tape : List (Split K))
    (h : truncSweep cnt i fs tape = some fs') (hs : Shape d fs) : Shape d fs' := by
  induction cnt generalizing i fs tape with
  | zero => simp [truncSweep] at h; subst h; exact hs
  | succ cnt ih =>
    cases tape with
    | nil => simp [truncSweep] at h
    | cons g tape =>
      cases i with
      | zero => simp [truncSweep] at h
      | succ i' =>
        simp only [truncSweep] at h
        split at h
        · rename_i A B hA hB
          exact ih i' _ tape h (shape_setPair d fs i' A B _ hA hB rfl rfl rfl rfl rfl hs)
        · exact absurd h (by simp)

theorem shape_orthogonalize (d : Nat) (fs fs' : List (Site K)) (center : Option Nat) (desired : Nat)
    (lt : List (QRl K)) (rt : List (QRr K)) (h : orthogonalize fs center desired lt rt = some fs')
    (hs : Shape d fs) : Shape d fs' := by
  unfold orthogonalize at h
  split at h
  · exact absurd h (by simp)
  · simp only at h
    split at h
    · exact absurd h (by simp)
    · rename_i fs1 h1
      exact shape_rlSweep d _ _ _ _ _ h (shape_lrSweep d _ _ _ _ _ h1 hs)

/-- a one-site overwrite that keeps the three dimensions keeps the shape -/
theorem shape_set (d : Nat) (fs : List (Site K)) (k : Nat) (A A' : Site K) (hA : fs[k]? = some A)
    (h1 : A'.dl = A.dl) (h2 : A'.dr = A.dr) (h3 : A'.d = A.d) (hs : Shape d fs) : Shape d (fs.set k A') := by
  obtain ⟨hl, hw, hh, hd⟩ := hs
  have key : Wf (fs.set k A') ∧ headDl (fs.set k A') = headDl fs := by
    clear hl hh hd
    induction k generalizing fs with
    | zero =>
      match fs, hA, hw with
      | C :: rest, hA, hw =>
        simp at hA; subst hA
        simp only [List.set_cons_zero]
        exact ⟨⟨by rw [h2]; exact hw.1, hw.2⟩, by simpa using h1⟩
    | succ k ih =>
      match fs, hA, hw with
      | C :: rest, hA, hw =>
        simp at hA
        obtain ⟨a, b⟩ := ih rest hA hw.2
        simp only [List.set_cons_succ]
        exact ⟨⟨by rw [b]; exact hw.1, a⟩, rfl⟩
  refine ⟨by simpa using hl, key.1, by rw [key.2]; exact hh, ?_⟩
  intro X hX
  rcases List.mem_or_eq_of_mem_set hX with hX | hX
  · exact hd X hX
  · rw [hX, h3]; exact hd A (mem_of_getElem? fs k A hA)

/-- entries of `scale_factors`: only position `which` changes -/
theorem scaleAux_getElem? (c : K) (which i : Nat) (fs : List (Site K)) (j : Nat) :
    (scaleAux c which i fs)[j]? = if i + j = which then fs[j]?.map (scaleSite c) else fs[j]? := by
  induction fs generalizing i j with
  | nil => simp [scaleAux]
  | cons A fs ih =>
    cases j with
    | zero =>
      simp only [scaleAux, List.getElem?_cons_zero, Nat.add_zero]
      split <;> simp
    | succ j =>
      simp only [scaleAux, List.getElem?_cons_succ]
      rw [ih (i + 1) j]
      have : i + 1 + j = i + (j + 1) := by omega
      rw [this]

theorem scaleFactors_eq_set (c : K) (which : Nat) (fs : List (Site K)) (A : Site K) (hA : fs[which]? = some A) :
    scaleFactors c which fs = fs.set which (scaleSite c A) := by
  apply List.ext_getElem?
  intro j
  rw [scaleFactors, scaleAux_getElem?, List.getElem?_set]
  simp only [Nat.zero_add]
  by_cases h : j = which
  · subst h
    have hlt : j < fs.length := by
      by_contra hc
      rw [List.getElem?_eq_none (by omega)] at hA
      exact absurd hA (by simp)
    have hAj : fs[j] = A := by
      rw [List.getElem?_eq_getElem hlt] at hA
      exact Option.some.inj hA
    simp [hlt, hAj]
  · rw [if_neg h, if_neg (fun e => h e.symm)]

end EmuVerif.CanonBridge
