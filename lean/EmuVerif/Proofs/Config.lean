/- Helper lemmas about `Model.Config` (C33: ordered-field reading of the tolerance floor and the
autosave guard, list lemmas for the observable whitelist; C04: the finite feature table and the
abstraction lemma "the outcome depends on a `SequenceData` only through its class"). -/
import EmuVerif.Model.Config
import EmuVerif.Proofs.Scalar
import Mathlib.Tactic.NormNum

set_option linter.unusedSectionVars false

namespace EmuVerif.Config
open EmuVerif

/-! ## C33 — scalar part over a linear ordered field -/

section field
variable {α : Type} [Field α] [LinearOrder α] [IsStrictOrderedRing α]

theorem minKrylovTol_pos : (0 : α) < minKrylovTol := by
  unfold minKrylovTol; positivity

/-- The model's floor is the number the code writes as `1.0e-12`. -/
theorem minKrylovTol_eq : (minKrylovTol : α) = 1e-12 := by
  unfold minKrylovTol; norm_num

theorem isZero_iff (x : α) : isZero x = true ↔ x = 0 := by
  unfold isZero
  simp only [Bool.and_eq_true, Bool.not_eq_true', decide_eq_false_iff_not, not_lt]
  constructor
  · rintro ⟨h1, h2⟩; exact le_antisymm h2 h1
  · rintro rfl; exact ⟨le_refl _, le_refl _⟩

theorem belowFloor_iff (p e : α) : belowFloor p e = true ↔ p * e < minKrylovTol := by
  unfold belowFloor; simp

theorem effExtra_below {p e : α} (h : p * e < minKrylovTol) (hp : p ≠ 0) :
    effExtra p e = some (minKrylovTol / p) := by
  unfold effExtra
  rw [if_pos ((belowFloor_iff p e).2 h)]
  have : ¬ isZero p = true := fun hz => hp ((isZero_iff p).1 hz)
  rw [if_neg this]

theorem effExtra_below_zero {e : α} (h : (0 : α) * e < minKrylovTol) :
    effExtra (0 : α) e = none := by
  unfold effExtra
  rw [if_pos ((belowFloor_iff 0 e).2 h), if_pos ((isZero_iff (0 : α)).2 rfl)]

theorem effExtra_above {p e : α} (h : minKrylovTol ≤ p * e) : effExtra p e = some e := by
  unfold effExtra
  have : ¬ belowFloor p e = true := fun hb => not_lt.2 h ((belowFloor_iff p e).1 hb)
  rw [if_neg this]

theorem autosaveOk_iff (dt : α) : autosaveOk dt = true ↔ 10 < dt := by
  unfold autosaveOk minAutosaveDt; simp
end field

/-! ## C33 — whitelist -/

theorem permutable_iff (tags : List String) :
    permutable tags = true ↔ ∀ t ∈ tags, allowedTag t = true := by
  induction tags with
  | nil => simp [permutable]
  | cons t ts ih => simp [permutable, ih]

theorem allowedTag_iff (t : String) : allowedTag t = true ↔ t ∈ whitelist := by
  unfold allowedTag; simp

/-! ## C04 — classes of a `SequenceData` (the finite feature table) -/

inductive DimC | d2 | d3 | other
  deriving DecidableEq, Repr
/-- Lindblad operator list relative to the level count: none / all `dim × dim` / all the same
wrong size / mixed sizes. -/
inductive OpsC | none | ok | uniformWrong | mixed
  deriving DecidableEq, Repr
/-- fewer than two atoms / at least two atoms but at most one well prepared / enough. -/
inductive AtomsC | tooFew | oneGood | enough
  deriving DecidableEq, Repr

def dimC : Nat → DimC
  | 2 => .d2
  | 3 => .d3
  | _ => .other

def opsC (dim : Nat) (ds : List Nat) : OpsC :=
  if ds.isEmpty then .none
  else if allEq dim ds then .ok
  else if uniform ds then .uniformWrong
  else .mixed

def atomsC (nAtoms nGood : Nat) : AtomsC :=
  if nAtoms < 2 then .tooFew else if nGood ≤ 1 then .oneGood else .enough

/-- One cell of the feature table. -/
structure Cell where
  b : Backend
  ham : HamType
  dim : DimC
  ops : OpsC
  atoms : AtomsC
  s : Solver
  cfgNoise : Bool
  deriving DecidableEq, Repr

/-- The abstraction function: which cell a concrete run falls into. -/
def classify (b : Backend) (d : Seq) (s : Solver) (cn : Bool) : Cell :=
  { b := b, ham := d.ham, dim := dimC d.dim, ops := opsC d.dim d.opDims,
    atoms := atomsC d.nAtoms d.nGood, s := s, cfgNoise := cn }

/-- A concrete representative of each cell (what the harness builds on the real code). -/
def repDim : DimC → Nat
  | .d2 => 2 | .d3 => 3 | .other => 4
def repOps (dim : Nat) : OpsC → List Nat
  | .none => [] | .ok => [dim] | .uniformWrong => [dim + 1] | .mixed => [dim, dim + 1]
def repAtoms : AtomsC → Nat × Nat
  | .tooFew => (1, 1) | .oneGood => (2, 1) | .enough => (2, 2)
def rep (c : Cell) : Seq :=
  { ham := c.ham, dim := repDim c.dim, opDims := repOps (repDim c.dim) c.ops,
    nAtoms := (repAtoms c.atoms).1, nGood := (repAtoms c.atoms).2 }

def hamKindC : HamType → DimC → Option HamKind
  | .rydberg, .d2 => some .rydberg2
  | .rydberg, .d3 => some .rydberg3
  | .xy, .d2 => some .xy2
  | .xy, .d3 => some .xy3
  | _, .other => none

/-- The decision table on cells (current tree). -/
def svTable (c : Cell) : Outcome :=
  if c.ham ≠ .rydberg ∨ c.dim ≠ .d2 then .raise .notImpl
  else if c.ops = .uniformWrong ∨ c.ops = .mixed then .raise .assertion
  else .emulate .rydberg2

def implTable (c : Cell) : R Impl :=
  if c.s = .dmrg then
    (if c.ops ≠ .none then .err .notImpl
     else if c.cfgNoise then .err .notImpl
     else if c.atoms = .tooFew then .err .assertion else .ok .dmrg)
  else if c.atoms = .tooFew then .err .assertion
  else if c.ops ≠ .none then .ok .noisy else .ok .plain

def mpsTable (c : Cell) : Outcome :=
  match implTable c with
  | .err e => .raise e
  | .ok impl =>
    if impl = .noisy ∧ c.ops = .mixed then .raise .runtime
    else if impl = .noisy ∧ c.ops = .uniformWrong then .raise .assertion
    else if c.atoms ≠ .enough then .raise .value
    else match hamKindC c.ham c.dim with
      | none => .raise .value
      | some k => if impl = .dmrg ∧ c.dim = .d3 then .raise .runtime else .emulate k

def table (c : Cell) : Outcome :=
  match c.b with
  | .sv => svTable c
  | .mps => mpsTable c

/-! ### the abstraction lemma -/

theorem dimC_d2 (n : Nat) : dimC n = .d2 ↔ n = 2 := by
  match n with
  | 0 | 1 | 2 | 3 => simp [dimC]
  | n + 4 => simp [dimC]

theorem dimC_d3 (n : Nat) : dimC n = .d3 ↔ n = 3 := by
  match n with
  | 0 | 1 | 2 | 3 => simp [dimC]
  | n + 4 => simp [dimC]

theorem hamKind_dimC (h : HamType) (n : Nat) : hamKind h n = hamKindC h (dimC n) := by
  match n with
  | 0 | 1 | 2 | 3 => cases h <;> simp [hamKind, hamKindC, dimC]
  | n + 4 => cases h <;> simp [hamKind, hamKindC, dimC]

theorem allEq_uniform (d : Nat) (ds : List Nat) (h : allEq d ds = true) : uniform ds = true := by
  cases ds with
  | nil => rfl
  | cons x xs =>
    simp only [allEq, List.all_cons, Bool.and_eq_true, beq_iff_eq] at h
    obtain ⟨rfl, h2⟩ := h
    simpa [uniform, allEq] using h2

theorem opsC_none (dim : Nat) (ds : List Nat) : opsC dim ds = .none ↔ ds = [] := by
  unfold opsC
  cases ds with
  | nil => simp
  | cons x xs => simp only [List.isEmpty_cons, Bool.false_eq_true, if_false]; split_ifs <;> simp

theorem length_pos_iff_opsC (dim : Nat) (ds : List Nat) : 0 < ds.length ↔ opsC dim ds ≠ .none := by
  rw [Ne, opsC_none, List.length_pos_iff]

theorem allEq_iff_opsC (dim : Nat) (ds : List Nat) :
    allEq dim ds = true ↔ (opsC dim ds = .none ∨ opsC dim ds = .ok) := by
  unfold opsC
  cases ds with
  | nil => simp [allEq]
  | cons x xs => simp only [List.isEmpty_cons, Bool.false_eq_true, if_false]; split_ifs <;> simp_all

theorem uniform_iff_opsC (dim : Nat) (ds : List Nat) :
    uniform ds = true ↔ opsC dim ds ≠ .mixed := by
  unfold opsC
  cases ds with
  | nil => simp [uniform]
  | cons x xs =>
    simp only [List.isEmpty_cons, Bool.false_eq_true, if_false]
    split_ifs with h1 h2
    · simpa using allEq_uniform dim _ h1
    · simpa using h2
    · simpa using h2

theorem atomsC_tooFew (a g : Nat) : atomsC a g = .tooFew ↔ a < 2 := by
  unfold atomsC; split_ifs <;> simp_all

theorem atomsC_enough (a g : Nat) (h : ¬ a < 2) : atomsC a g ≠ .enough ↔ g ≤ 1 := by
  unfold atomsC; split_ifs <;> simp_all

theorem svAccept_table (d : Seq) (s : Solver) (cn : Bool) :
    svAccept .repaired d = svTable (classify .sv d s cn) := by
  unfold svAccept svTable classify
  simp only [true_and]
  by_cases hh : d.ham = .rydberg
  · by_cases hd : d.dim = 2
    · have hd' : dimC d.dim = .d2 := (dimC_d2 _).2 hd
      have h1 : ¬ (d.ham ≠ .rydberg ∨ d.dim ≠ 2) := by simp [hh, hd]
      have h2 : ¬ (d.ham ≠ .rydberg ∨ dimC d.dim ≠ .d2) := by simp [hh, hd']
      rw [if_neg h1, if_neg h2]
      by_cases ha : allEq 2 d.opDims = true
      · have := (allEq_iff_opsC d.dim d.opDims).1 (hd ▸ ha)
        have hn : ¬ (opsC d.dim d.opDims = .uniformWrong ∨ opsC d.dim d.opDims = .mixed) := by
          rcases this with h | h <;> simp [h]
        simp [ha, hn]
      · have h3 : ¬ (opsC d.dim d.opDims = .none ∨ opsC d.dim d.opDims = .ok) :=
          fun h => ha (hd ▸ (allEq_iff_opsC d.dim d.opDims).2 h)
        have hp : (opsC d.dim d.opDims = .uniformWrong ∨ opsC d.dim d.opDims = .mixed) := by
          cases hc : opsC d.dim d.opDims <;> simp_all
        simp [ha, hp]
    · have hd' : dimC d.dim ≠ .d2 := fun h => hd ((dimC_d2 _).1 h)
      simp [hd, hd']
  · simp [hh]

theorem createImpl_table (d : Seq) (s : Solver) (cn : Bool) :
    createImpl .repaired s d.opDims.length cn d.nAtoms = implTable (classify .mps d s cn) := by
  unfold createImpl implTable classify
  simp only [length_pos_iff_opsC d.dim, atomsC_tooFew]
  cases s
  · simp; split_ifs <;> rfl
  · simp

/-- `mpsInit` on classes. -/
def initC (impl : Impl) (oc : OpsC) (ac : AtomsC) (dc : DimC) : R Unit :=
  if impl = .noisy ∧ oc = .mixed then .err .runtime
  else if impl = .noisy ∧ oc = .uniformWrong then .err .assertion
  else if ac ≠ .enough then .err .value
  else if dc = .other then .err .value else .ok ()

/-- The run after `init()` on classes. -/
def runC (impl : Impl) (h : HamType) (dc : DimC) : Outcome :=
  match hamKindC h dc with
  | none => .raise .value
  | some k => if impl = .dmrg ∧ dc = .d3 then .raise .runtime else .emulate k

theorem mpsInit_table (impl : Impl) (d : Seq) (hA : ¬ d.nAtoms < 2) :
    mpsInit impl d = initC impl (opsC d.dim d.opDims) (atomsC d.nAtoms d.nGood) (dimC d.dim) := by
  unfold mpsInit initC
  have hu : (!uniform d.opDims) = true ↔ opsC d.dim d.opDims = .mixed := by
    have := uniform_iff_opsC d.dim d.opDims
    cases hU : uniform d.opDims <;> simp_all
  have hdim : (d.dim ≠ 2 ∧ d.dim ≠ 3) ↔ dimC d.dim = .other := by
    have h2 := dimC_d2 d.dim
    have h3 := dimC_d3 d.dim
    constructor
    · rintro ⟨a, b⟩
      cases hc : dimC d.dim
      · exact absurd (h2.1 hc) a
      · exact absurd (h3.1 hc) b
      · rfl
    · intro hc
      refine ⟨fun h => ?_, fun h => ?_⟩
      · rw [h2.2 h] at hc; exact DimC.noConfusion hc
      · rw [h3.2 h] at hc; exact DimC.noConfusion hc
  have hg := atomsC_enough d.nAtoms d.nGood hA
  by_cases hn : impl = .noisy
  · by_cases hm : opsC d.dim d.opDims = .mixed
    · simp [hn, hm, hu.2 hm]
    · have hu' : ¬ ((!uniform d.opDims) = true) := fun h => hm (hu.1 h)
      by_cases hw : opsC d.dim d.opDims = .uniformWrong
      · have ha : ¬ allEq d.dim d.opDims = true := by
          rw [allEq_iff_opsC]; simp [hw]
        simp [hn, hu', hw, ha]
      · have ha : allEq d.dim d.opDims = true := by
          rw [allEq_iff_opsC]
          cases hc : opsC d.dim d.opDims <;> simp_all
        simp only [hn, hu', hm, hw, ha, and_false, if_false, Bool.not_true,
          Bool.false_eq_true, hg.symm, hdim]
  · simp only [hn, false_and, if_false, hg.symm, hdim]

theorem mps_core (impl : Impl) (oc : OpsC) (ac : AtomsC) (dc : DimC) (h : HamType) :
    (match initC impl oc ac dc with
      | .err e => Outcome.raise e
      | .ok () => runC impl h dc) =
    (if impl = .noisy ∧ oc = .mixed then .raise .runtime
     else if impl = .noisy ∧ oc = .uniformWrong then .raise .assertion
     else if ac ≠ .enough then .raise .value
     else match hamKindC h dc with
       | none => .raise .value
       | some k => if impl = .dmrg ∧ dc = .d3 then .raise .runtime else .emulate k) := by
  cases impl <;> cases oc <;> cases ac <;> cases dc <;> cases h <;> rfl

theorem mpsAccept_table (d : Seq) (s : Solver) (cn : Bool) :
    mpsAccept .repaired d s cn = mpsTable (classify .mps d s cn) := by
  unfold mpsAccept mpsTable
  rw [createImpl_table d s cn]
  cases hI : implTable (classify .mps d s cn) with
  | err e => rfl
  | ok impl =>
    have hA : ¬ d.nAtoms < 2 := by
      intro h
      have ht : (classify .mps d s cn).atoms = .tooFew := (atomsC_tooFew _ _).2 h
      unfold implTable at hI
      rw [ht] at hI
      split_ifs at hI <;> contradiction
    have hd3 : d.dim = 3 ↔ dimC d.dim = .d3 := (dimC_d3 _).symm
    simp only [mpsInit_table impl d hA, hamKind_dimC, hd3]
    exact mps_core impl _ _ _ _

/-- **Abstraction lemma**: on the current tree the outcome of a back-end on a `SequenceData`
depends only on the cell the run falls into. -/
theorem acceptSeq_table (b : Backend) (d : Seq) (s : Solver) (cn : Bool) :
    acceptSeq .repaired b d s cn = table (classify b d s cn) := by
  cases b
  · exact svAccept_table d s cn
  · exact mpsAccept_table d s cn

/-! ## C04 — the Hamiltonian in use over the run (the "interaction matrix changes mid-run" axis) -/

theorem stepKinds_same (k : HamKind) (cs : List Bool) :
    stepKinds k cs k = List.replicate (cs.length + 1) k := by
  induction cs with
  | nil => rfl
  | cons c cs ih =>
    simp only [stepKinds, ite_self, ih, List.length_cons]
    rfl

theorem collapse_replicate (k : HamKind) (n : Nat) : collapse (List.replicate (n + 1) k) = [k] := by
  induction n with
  | zero => rfl
  | succ n ih =>
    show collapse (k :: k :: List.replicate n k) = [k]
    simp only [collapse, if_true]
    exact ih

theorem stepKinds_head (k' : HamKind) (cs : List Bool) (cur : HamKind) :
    ∃ t, stepKinds k' cs cur = cur :: t := by
  cases cs with
  | nil => exact ⟨[], rfl⟩
  | cons c cs => exact ⟨_, rfl⟩

/-- The sequence of distinct Hamiltonians of a run: one, unless a rebuild produced another kind. -/
theorem collapse_stepKinds (k k' : HamKind) (cs : List Bool) :
    collapse (stepKinds k' cs k) = if cs.any id = true ∧ k' ≠ k then [k, k'] else [k] := by
  by_cases hk : k' = k
  · subst hk
    rw [stepKinds_same, collapse_replicate]
    simp
  · induction cs with
    | nil => simp [stepKinds, collapse]
    | cons c cs ih =>
      cases c with
      | true =>
        simp only [stepKinds, if_true, List.any_cons, id, Bool.true_or, true_and, ne_eq, hk,
          not_false_eq_true]
        rw [stepKinds_same]
        show collapse (k :: k' :: List.replicate cs.length k') = [k, k']
        have hne : ¬ k = k' := fun h => hk h.symm
        simp only [collapse, hne, if_false]
        have := collapse_replicate k' cs.length
        simpa [List.replicate_succ] using this
      | false =>
        simp only [stepKinds, Bool.false_eq_true, if_false, List.any_cons, id, Bool.false_or]
        obtain ⟨t, ht⟩ := stepKinds_head k' cs k
        rw [ht] at ih ⊢
        simp only [collapse, if_true]
        exact ih

/-- `rebuiltKind` on classes. -/
def rebuiltKindC (rb : Rebuild) (dc : DimC) (k : HamKind) : HamKind :=
  match rb with
  | .passesType => k
  | .defaultRydberg => (hamKindC .rydberg dc).getD k

theorem rebuiltKind_dimC (rb : Rebuild) (n : Nat) (k : HamKind) :
    rebuiltKind rb n k = rebuiltKindC rb (dimC n) k := by
  cases rb
  · rfl
  · simp only [rebuiltKind, rebuiltKindC, hamKind_dimC]

/-- The feature table with the extra axis `slm` = "the interaction matrix changes inside the run":
the outcome with the sequence of distinct Hamiltonians in use. -/
def runTable (rb : Rebuild) (c : Cell) (slm : Bool) : RunOutcome :=
  match table c with
  | .raise e => .raise e
  | .emulate k =>
    if slm = true ∧ c.b = .mps ∧ rebuiltKindC rb c.dim k ≠ k then .emulate [k, rebuiltKindC rb c.dim k]
    else .emulate [k]

/-- **Abstraction lemma with the new axis**: the sequence of distinct Hamiltonians of a run depends
only on the cell and on whether the interaction matrix changes at all. -/
theorem acceptRun_table (rb : Rebuild) (b : Backend) (d : Seq) (s : Solver) (cn : Bool)
    (changes : List Bool) :
    collapseRun (acceptRun rb .repaired b d s cn changes)
      = runTable rb (classify b d s cn) (changes.any id) := by
  unfold acceptRun runTable
  rw [acceptSeq_table]
  cases ht : table (classify b d s cn) with
  | raise e => rfl
  | emulate k =>
    cases b with
    | sv =>
      simp only [collapseRun, collapse_replicate, classify, reduceCtorEq, false_and, and_false, if_false]
    | mps =>
      simp only [collapseRun, collapse_stepKinds, rebuiltKind_dimC, classify, true_and]
      split_ifs <;> rfl

end EmuVerif.Config
