/- Helper lemmas about `Model.Cutoff` over an arbitrary linear ordered field / the integers. -/
import EmuVerif.Model.Cutoff
import EmuVerif.Proofs.Scalar
import Mathlib.Algebra.BigOperators.Group.List.Basic
import Mathlib.Algebra.Order.BigOperators.Group.List
import Mathlib.Tactic.Linarith

set_option linter.unusedSectionVars false

namespace EmuVerif.Cutoff
open EmuVerif

variable {α : Type} [Field α] [LinearOrder α] [IsStrictOrderedRing α]

/-- The left fold standing in for `torch.sum` is the list sum (exact reading). -/
theorem total_eq_sum (d : List α) : total d = d.sum := by
  unfold total
  rw [List.sum_eq_foldl]

/-- **Loop specification.** Entered with `acc ≤ sq`, the loop either never sees a prefix above `sq`
and answers 0, or answers `i + j` for the *first* `j` whose inclusive prefix exceeds `sq`. -/
theorem scan_spec (sq : α) : ∀ (d : List α) (i : Nat) (acc : α), acc ≤ sq →
    (scan sq d i acc = 0 ∧ ∀ k, acc + (d.take k).sum ≤ sq) ∨
    (∃ j, j < d.length ∧ scan sq d i acc = i + j ∧ sq < acc + (d.take (j + 1)).sum
        ∧ ∀ k, k ≤ j → acc + (d.take k).sum ≤ sq)
  | [], i, acc, h => Or.inl ⟨rfl, fun k => by simpa using h⟩
  | x :: xs, i, acc, h => by
    by_cases hx : sq < acc + x
    · right
      refine ⟨0, by simp, by simp [scan, hx], by simpa using hx, ?_⟩
      intro k hk
      have : k = 0 := by omega
      subst this
      simpa using h
    · have h' : acc + x ≤ sq := not_lt.mp hx
      rcases scan_spec sq xs (i + 1) (acc + x) h' with ⟨h0, hall⟩ | ⟨j, hj, hc, hex, hall⟩
      · left
        refine ⟨by simp [scan, hx, h0], ?_⟩
        intro k
        cases k with
        | zero => simpa using h
        | succ k =>
          have := hall k
          simp only [List.take_succ_cons, List.sum_cons]
          linarith
      · right
        refine ⟨j + 1, by simp only [List.length_cons]; omega, ?_, ?_, ?_⟩
        · simp only [scan, hx, if_false, hc]; omega
        · simp only [List.take_succ_cons, List.sum_cons]
          linarith
        · intro k hk
          cases k with
          | zero => simpa using h
          | succ k =>
            have := hall k (by omega)
            simp only [List.take_succ_cons, List.sum_cons]
            linarith

/-- Prefix sums of a non-negative list are monotone. -/
theorem take_sum_mono {d : List α} (hd : ∀ x ∈ d, 0 ≤ x) {a b : Nat} (hab : a ≤ b) :
    (d.take a).sum ≤ (d.take b).sum := by
  have hsplit : d.take b = d.take a ++ (d.take b).drop a := by
    have := List.take_append_drop a (d.take b)
    rw [List.take_take, min_eq_left hab] at this
    exact this.symm
  rw [hsplit, List.sum_append]
  have : 0 ≤ ((d.take b).drop a).sum := by
    apply List.sum_nonneg
    intro x hx
    exact hd x (List.mem_of_mem_take (List.mem_of_mem_drop hx))
  linarith

theorem take_sum_le_total {d : List α} (hd : ∀ x ∈ d, 0 ≤ x) (k : Nat) : (d.take k).sum ≤ d.sum := by
  have := take_sum_mono hd (Nat.le_max_left k d.length)
  rw [List.take_of_length_le (Nat.le_max_right k d.length)] at this
  exact this

/-! ### rank arithmetic (Python integers) -/

theorem maxBond_eq (cut len : Nat) (mr : Int) : maxBond cut len mr = max (cut : Int) ((len : Int) - mr) := by
  unfold maxBond pmax
  split <;> omega

theorem keptRank_eq_min (cut len : Nat) (mr : Int) (h0 : 0 ≤ mr) (hc : cut ≤ len) :
    keptRank cut len mr = min (len - cut) mr.toNat := by
  unfold keptRank
  rw [maxBond_eq]
  omega

theorem capBinds_iff (cut len : Nat) (mr : Int) :
    capBinds cut len mr = true ↔ (cut : Int) < (len : Int) - mr := by
  simp [capBinds]

end EmuVerif.Cutoff
