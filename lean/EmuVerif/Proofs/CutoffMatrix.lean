/-
  What `split_matrix` computes, given the `eigh` contract as a hypothesis (Mathlib matrices over
  any commutative *-ring, e.g. ℂ): the kept eigenvector block is an isometry and the squared
  Frobenius error of the low-rank product is the sum of the discarded eigenvalues.
  `e : κ → n` (injective) enumerates the kept columns `q[:, max_bond:]`.
-/
import Mathlib.LinearAlgebra.Matrix.Trace
import Mathlib.LinearAlgebra.Matrix.ConjTranspose
import Mathlib.Algebra.BigOperators.Fin

set_option linter.unusedSectionVars false

namespace EmuVerif.CutoffMatrix
open Matrix

variable {R : Type} [CommRing R] [StarRing R]
variable {m n κ : Type} [Fintype m] [Fintype n] [Fintype κ] [DecidableEq m] [DecidableEq n] [DecidableEq κ]

/-- Contract of `d, q = torch.linalg.eigh(G)` used by the theorems (the ascending order of `d` only
matters for *which* columns the code keeps, not for the identities below). -/
structure EighContract (G : Matrix n n R) (d : n → R) (Q : Matrix n n R) : Prop where
  unitary : Qᴴ * Q = 1
  decomp : G = Q * diagonal d * Qᴴ

/-- The kept columns `q[:, max_bond:]` form an isometry. -/
theorem kept_isometry {Q : Matrix n n R} (h : Qᴴ * Q = 1) (e : κ → n) (he : Function.Injective e) :
    (Q.submatrix id e)ᴴ * Q.submatrix id e = 1 := by
  rw [conjTranspose_submatrix, ← submatrix_mul _ _ e id e Function.bijective_id, h, submatrix_one e he]

theorem adj_mul_kept {Q : Matrix n n R} (h : Qᴴ * Q = 1) (e : κ → n) :
    Qᴴ * Q.submatrix id e = (1 : Matrix n n R).submatrix id e := by
  calc Qᴴ * Q.submatrix id e = Qᴴ.submatrix id id * Q.submatrix id e := by rw [submatrix_id_id]
    _ = (Qᴴ * Q).submatrix id e := (submatrix_mul _ _ id id e Function.bijective_id).symm
    _ = _ := by rw [h]

theorem kept_adj_mul {Q : Matrix n n R} (h : Qᴴ * Q = 1) (e : κ → n) :
    (Q.submatrix id e)ᴴ * Q = (1 : Matrix n n R).submatrix e id := by
  calc (Q.submatrix id e)ᴴ * Q = Qᴴ.submatrix e id * Q.submatrix id id := by
        rw [conjTranspose_submatrix, submatrix_id_id]
    _ = (Qᴴ * Q).submatrix e id := (submatrix_mul _ _ e id id Function.bijective_id).symm
    _ = _ := by rw [h]

/-- `tr G = Σ d`. -/
theorem trace_of_contract {G : Matrix n n R} {d : n → R} {Q : Matrix n n R} (h : EighContract G d Q) :
    G.trace = ∑ i, d i := by
  rw [h.decomp, trace_mul_cycle, h.unitary, Matrix.one_mul, trace_diagonal]

/-- `tr (P G) = Σ_{kept} d` for the projector `P = Q_k Q_kᴴ`. -/
theorem trace_proj_of_contract {G : Matrix n n R} {d : n → R} {Q : Matrix n n R} (h : EighContract G d Q)
    (e : κ → n) (he : Function.Injective e) :
    (Q.submatrix id e * (Q.submatrix id e)ᴴ * G).trace = ∑ j, d (e j) := by
  have h1 : (Q.submatrix id e * (Q.submatrix id e)ᴴ * G).trace
      = ((Q.submatrix id e)ᴴ * G * Q.submatrix id e).trace := by
    rw [Matrix.mul_assoc, trace_mul_comm, Matrix.mul_assoc]
  have h2 : (Q.submatrix id e)ᴴ * G * Q.submatrix id e
      = (1 : Matrix n n R).submatrix e id * diagonal d * (1 : Matrix n n R).submatrix id e := by
    rw [h.decomp]
    calc (Q.submatrix id e)ᴴ * (Q * diagonal d * Qᴴ) * Q.submatrix id e
        = ((Q.submatrix id e)ᴴ * Q) * diagonal d * (Qᴴ * Q.submatrix id e) := by
          simp only [Matrix.mul_assoc]
      _ = _ := by rw [kept_adj_mul h.unitary, adj_mul_kept h.unitary]
  have h3 : (1 : Matrix n n R).submatrix e id * diagonal d * (1 : Matrix n n R).submatrix id e
      = diagonal (d ∘ e) := by
    calc (1 : Matrix n n R).submatrix e id * diagonal d * (1 : Matrix n n R).submatrix id e
        = (1 : Matrix n n R).submatrix e id * (diagonal d).submatrix id id * (1 : Matrix n n R).submatrix id e := by
          rw [submatrix_id_id]
      _ = ((1 : Matrix n n R) * diagonal d).submatrix e id * (1 : Matrix n n R).submatrix id e := by
          rw [submatrix_mul _ _ e id id Function.bijective_id]
      _ = ((1 : Matrix n n R) * diagonal d * 1).submatrix e e := by
          rw [submatrix_mul _ _ e id e Function.bijective_id]
      _ = diagonal (d ∘ e) := by
          rw [Matrix.one_mul, Matrix.mul_one, submatrix_diagonal d e he]
  rw [h1, h2, h3, trace_diagonal]
  rfl

/-- **Squared Frobenius error = discarded weight**, `orth_center_right=False` branch:
`G = Mᴴ M`, `left = M Q_k`, `right = Q_kᴴ`. -/
theorem frob_error_right (M : Matrix m n R) (d : n → R) (Q : Matrix n n R)
    (h : EighContract (Mᴴ * M) d Q) (e : κ → n) (he : Function.Injective e) :
    ((M - M * Q.submatrix id e * (Q.submatrix id e)ᴴ)ᴴ * (M - M * Q.submatrix id e * (Q.submatrix id e)ᴴ)).trace
      = ∑ i, d i - ∑ j, d (e j) := by
  set Qk := Q.submatrix id e with hQk
  set P := Qk * Qkᴴ with hP
  have hiso : Qkᴴ * Qk = 1 := kept_isometry h.unitary e he
  have hherm : Pᴴ = P := by rw [hP, conjTranspose_mul, conjTranspose_conjTranspose]
  have hidem : P * P = P := by
    rw [hP, Matrix.mul_assoc, ← Matrix.mul_assoc Qkᴴ, hiso, Matrix.one_mul]
  have hE : M - M * Qk * Qkᴴ = M * (1 - P) := by
    rw [Matrix.mul_sub, Matrix.mul_one, hP, Matrix.mul_assoc]
  have hcomp : (1 - P) * (1 - P) = 1 - P := by
    rw [Matrix.sub_mul, Matrix.mul_sub, Matrix.mul_sub, hidem]
    simp
  rw [hE, conjTranspose_mul, conjTranspose_sub, conjTranspose_one, hherm]
  have : (1 - P) * Mᴴ * (M * (1 - P)) = (1 - P) * (Mᴴ * M) * (1 - P) := by
    simp only [Matrix.mul_assoc]
  rw [this, trace_mul_cycle, hcomp, Matrix.sub_mul, Matrix.one_mul, trace_sub, trace_of_contract h,
    trace_proj_of_contract h e he]

/-- Same identity for the `orth_center_right=True` branch: `G = M Mᴴ`, `left = Q_k`, `right = Q_kᴴ M`. -/
theorem frob_error_left (M : Matrix n m R) (d : n → R) (Q : Matrix n n R)
    (h : EighContract (M * Mᴴ) d Q) (e : κ → n) (he : Function.Injective e) :
    ((M - Q.submatrix id e * ((Q.submatrix id e)ᴴ * M)) * (M - Q.submatrix id e * ((Q.submatrix id e)ᴴ * M))ᴴ).trace
      = ∑ i, d i - ∑ j, d (e j) := by
  set Qk := Q.submatrix id e with hQk
  set P := Qk * Qkᴴ with hP
  have hiso : Qkᴴ * Qk = 1 := kept_isometry h.unitary e he
  have hherm : Pᴴ = P := by rw [hP, conjTranspose_mul, conjTranspose_conjTranspose]
  have hidem : P * P = P := by
    rw [hP, Matrix.mul_assoc, ← Matrix.mul_assoc Qkᴴ, hiso, Matrix.one_mul]
  have hE : M - Qk * (Qkᴴ * M) = (1 - P) * M := by
    rw [Matrix.sub_mul, Matrix.one_mul, hP, Matrix.mul_assoc]
  have hcomp : (1 - P) * (1 - P) = 1 - P := by
    rw [Matrix.sub_mul, Matrix.mul_sub, Matrix.mul_sub, hidem]
    simp
  rw [hE, conjTranspose_mul, conjTranspose_sub, conjTranspose_one, hherm]
  have : (1 - P) * M * (Mᴴ * (1 - P)) = (1 - P) * (M * Mᴴ) * (1 - P) := by
    simp only [Matrix.mul_assoc]
  rw [this, trace_mul_cycle, hcomp, Matrix.sub_mul, Matrix.one_mul, trace_sub, trace_of_contract h,
    trace_proj_of_contract h e he]

/-- With the kept columns being the *suffix* `max_bond..` of `Fin (mb + k)`, the discarded weight is
the sum over the prefix `..max_bond` — the list prefix of `_determine_cutoff_index`. -/
theorem discarded_is_prefix {mb k : Nat} (d : Fin (mb + k) → R) :
    ∑ i, d i - ∑ j : Fin k, d (Fin.natAdd mb j) = ∑ i : Fin mb, d (Fin.castAdd k i) := by
  rw [Fin.sum_univ_add]
  ring

theorem natAdd_injective (mb k : Nat) : Function.Injective (Fin.natAdd mb : Fin k → Fin (mb + k)) := by
  intro a b hab
  have := congrArg Fin.val hab
  simp only [Fin.val_natAdd] at this
  exact Fin.ext (by omega)

end EmuVerif.CutoffMatrix
