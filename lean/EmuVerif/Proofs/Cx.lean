/-
  Laws of the complex scalars used by the tensor models.

  `LawfulCx κ`: `κ` is a commutative ring with a star operation in which `CxLike.conj` is the
  star, `I² = −1`, `I* = −I`, `½ + ½ = 1`, `½* = ½`. The theorems of C06/C12 are proved for every
  such `κ`. `Cx α` — the type the driver computes with (at `α = ℚ`) — is shown to be an
  instance for every field `α` of characteristic 0, so the theorems are about the very
  arithmetic that is executed in the correspondence check.
-/
import EmuVerif.Model.Cx
import Mathlib.Algebra.Star.Basic
import Mathlib.Algebra.Field.Basic
import Mathlib.Algebra.CharZero.Defs
import Mathlib.Tactic.Ring
import Mathlib.Tactic.FieldSimp
import Mathlib.Tactic.NormNum

set_option linter.unusedSectionVars false

namespace EmuVerif

class LawfulCx (κ : Type) [CommRing κ] [StarRing κ] [CxLike κ] : Prop where
  conj_eq : ∀ x : κ, CxLike.conj x = star x
  I_mul_I : (CxLike.I : κ) * CxLike.I = -1
  star_I : star (CxLike.I : κ) = -CxLike.I
  half_add : (CxLike.half : κ) + CxLike.half = 1
  star_half : star (CxLike.half : κ) = CxLike.half

namespace Cx
variable {α : Type}

@[ext] theorem ext' {x y : Cx α} (h1 : x.re = y.re) (h2 : x.im = y.im) : x = y := by
  cases x; cases y; simp_all

section ring
variable [CommRing α]

@[simp] theorem add_re (x y : Cx α) : (x + y).re = x.re + y.re := rfl
@[simp] theorem add_im (x y : Cx α) : (x + y).im = x.im + y.im := rfl
@[simp] theorem sub_re (x y : Cx α) : (x - y).re = x.re - y.re := rfl
@[simp] theorem sub_im (x y : Cx α) : (x - y).im = x.im - y.im := rfl
@[simp] theorem neg_re (x : Cx α) : (-x).re = -x.re := rfl
@[simp] theorem neg_im (x : Cx α) : (-x).im = -x.im := rfl
@[simp] theorem mul_re (x y : Cx α) : (x * y).re = x.re * y.re - x.im * y.im := rfl
@[simp] theorem mul_im (x y : Cx α) : (x * y).im = x.re * y.im + x.im * y.re := rfl
@[simp] theorem zero_re : (0 : Cx α).re = 0 := rfl
@[simp] theorem zero_im : (0 : Cx α).im = 0 := rfl
@[simp] theorem one_re : (1 : Cx α).re = 1 := rfl
@[simp] theorem one_im : (1 : Cx α).im = 0 := rfl

/-- Gaussian numbers over a commutative ring form a commutative ring (with the model's
`+ − × 0 1`, i.e. the torch formulas). -/
instance instCommRing : CommRing (Cx α) where
  add := (· + ·)
  mul := (· * ·)
  neg := (- ·)
  sub := (· - ·)
  zero := 0
  one := 1
  add_assoc x y z := by ext <;> simp [add_assoc]
  zero_add x := by ext <;> simp
  add_zero x := by ext <;> simp
  add_comm x y := by ext <;> simp [add_comm]
  neg_add_cancel x := by ext <;> simp
  sub_eq_add_neg x y := by ext <;> simp [sub_eq_add_neg]
  mul_assoc x y z := by ext <;> simp <;> ring
  one_mul x := by ext <;> simp
  mul_one x := by ext <;> simp
  left_distrib x y z := by ext <;> simp <;> ring
  right_distrib x y z := by ext <;> simp <;> ring
  mul_comm x y := by ext <;> simp <;> ring
  zero_mul x := by ext <;> simp
  mul_zero x := by ext <;> simp
  nsmul := nsmulRec
  zsmul := zsmulRec

instance : StarRing (Cx α) where
  star := conj
  star_involutive x := by ext <;> simp [conj]
  star_mul x y := by ext <;> simp [conj] <;> ring
  star_add x y := by ext <;> simp [conj]; ring

@[simp] theorem star_re (x : Cx α) : (star x).re = x.re := rfl
@[simp] theorem star_im (x : Cx α) : (star x).im = -x.im := rfl
end ring

instance [Field α] [CharZero α] : LawfulCx (Cx α) where
  conj_eq _ := rfl
  I_mul_I := by ext <;> simp [CxLike.I]
  star_I := by ext <;> simp [CxLike.I]
  half_add := by ext <;> simp [CxLike.half]; norm_num
  star_half := by ext <;> simp [CxLike.half]

end Cx
end EmuVerif
