/-
  Helper lemmas for `Props/C25.lean`: the padding loop of `extended_mps_factors` / `extended_mpo_factors`
  in amplitude semantics, well-formedness of the padded chain, sums over masked strings, the index map.
-/
import EmuVerif.Model.Dark
import EmuVerif.Proofs.TensorValid

set_option linter.unusedSectionVars false
set_option linter.unusedVariables false
set_option linter.unusedSimpArgs false

namespace EmuVerif.Dark
open EmuVerif.Tensor Finset

variable {K : Type} [CommRing K]

/-- what the generic loop needs to know about a padding factor for bond `b` -/
def IsPad (pass : Nat → Bool) (P : Nat → Site K) (dr : Nat → Nat) : Prop :=
  ∀ b, (P b).dl = b ∧ (P b).dr = dr b ∧ (P b).t = padEntries pass

theorem rowStepF_pad (pass : Nat → Bool) (A : Site K) (b : Nat) (hdl : A.dl = b) (ht : A.t = padEntries pass)
    (v : Nat → K) (x : Nat) :
    rowStepF v A x = fun r => if pass x = true ∧ r < b then v r else 0 := by
  funext r
  simp only [rowStepF, ht, hdl, padEntries]
  by_cases hp : pass x = true
  · simp only [hp, true_and, mul_ite, mul_one, mul_zero]
    rw [Finset.sum_ite_eq' (range b) r (fun l => v l)]
    simp
  · simp [hp]

theorem countGood_cons_true (w : List Bool) : countGood (true :: w) = countGood w + 1 := by simp [countGood]
theorem countGood_cons_false (w : List Bool) : countGood (false :: w) = countGood w := by simp [countGood]

theorem ampVecF_nil_congr (σ : List Nat) (u v : Nat → K) (h : u 0 = v 0) :
    ampVecF ([] : List (Site K)) σ u 0 = ampVecF [] σ v 0 := by
  cases σ <;> simp [ampVecF, h]

/-- the padding loop in amplitude semantics, for any admissible padding factor -/
theorem ampVecF_extend (pass : Nat → Bool) (mid last : Nat → Site K) (dm dl' : Nat → Nat)
    (hm : IsPad pass mid dm) (hl : IsPad pass last dl')
    (w : List Bool) (fs : List (Site K)) (b : Nat) (hw : Wf fs) (hb : b = headDl fs)
    (hc : fs.length = countGood w) (s : List Nat) (hs : s.length = w.length) (v : Nat → K) :
    ampVecF (extendAux mid last fs w b) s v 0 =
      if darkPass pass w s = true then ampVecF fs (restrict w s) v 0 else 0 := by
  induction w generalizing fs b s v with
  | nil =>
    cases s with
    | nil =>
      cases fs with
      | nil => simp [extendAux, darkPass, restrict]
      | cons A fs => simp [countGood] at hc
    | cons _ _ => simp at hs
  | cons g w ih =>
    cases s with
    | nil => simp at hs
    | cons x s =>
      have hs' : s.length = w.length := by simpa using hs
      cases g with
      | true =>
        cases fs with
        | nil => rw [countGood_cons_true] at hc; simp at hc
        | cons A fs =>
          rw [countGood_cons_true] at hc
          simp only [extendAux, ampVecF, darkPass, restrict]
          exact ih fs A.dr hw.2 hw.1 (by simpa using hc) s hs' _
      | false =>
        rw [countGood_cons_false] at hc
        cases fs with
        | nil =>
          simp only [extendAux, ampVecF, darkPass, restrict]
          rw [ih [] 1 trivial rfl hc s hs']
          rw [rowStepF_pad pass (last b) b (hl b).1 (hl b).2.2]
          have hb1 : b = 1 := hb
          by_cases hp : pass x = true
          · simp only [hp, Bool.true_and, true_and]
            split
            · exact ampVecF_nil_congr _ _ _ (by simp [hb1])
            · rfl
          · have : (fun r => if pass x = true ∧ r < b then v r else 0) = fun _ => (0 : K) := by
              funext r; simp [hp]
            rw [this, ampVecF_zero]
            simp [hp]
        | cons A fs =>
          simp only [extendAux, ampVecF, darkPass, restrict]
          rw [ih (A :: fs) b hw hb hc s hs']
          rw [rowStepF_pad pass (mid b) b (hm b).1 (hm b).2.2]
          by_cases hp : pass x = true
          · simp only [hp, Bool.true_and, true_and]
            split
            · have hbA : b = A.dl := hb
              rw [ampVecF_congr_range A fs _ _ v (fun l hl => by simp [hbA, hl])]
            · rfl
          · have : (fun r => if pass x = true ∧ r < b then v r else 0) = fun _ => (0 : K) := by
              funext r; simp [hp]
            rw [this, ampVecF_zero]
            simp [hp]

/-- the padded chain is again well-formed, with the same outer bond -/
theorem wf_extend (pass : Nat → Bool) (mid last : Nat → Site K)
    (hm : IsPad pass mid (fun b => b)) (hl : IsPad pass last (fun _ => 1))
    (w : List Bool) (fs : List (Site K)) (b : Nat) (hw : Wf fs) (hb : b = headDl fs)
    (hc : fs.length = countGood w) :
    Wf (extendAux mid last fs w b) ∧ headDl (extendAux mid last fs w b) = b ∧
      (extendAux mid last fs w b).length = w.length := by
  induction w generalizing fs b with
  | nil =>
    cases fs with
    | nil => simp [extendAux, Wf, hb]
    | cons A fs => simp [countGood] at hc
  | cons g w ih =>
    cases g with
    | true =>
      cases fs with
      | nil => rw [countGood_cons_true] at hc; simp at hc
      | cons A fs =>
        rw [countGood_cons_true] at hc
        obtain ⟨i1, i2, i3⟩ := ih fs A.dr hw.2 hw.1 (by simpa using hc)
        simp only [extendAux]
        exact ⟨⟨i2.symm, i1⟩, by simpa using hb.symm, by simp [i3]⟩
    | false =>
      rw [countGood_cons_false] at hc
      cases fs with
      | nil =>
        obtain ⟨i1, i2, i3⟩ := ih [] 1 trivial rfl hc
        simp only [extendAux]
        exact ⟨⟨by rw [(hl b).2.1, i2], i1⟩, by simp [(hl b).1], by simp [i3]⟩
      | cons A fs =>
        obtain ⟨i1, i2, i3⟩ := ih (A :: fs) b hw hb hc
        simp only [extendAux]
        exact ⟨⟨by rw [(hm b).2.1, i2], i1⟩, by simp [(hm b).1], by simp [i3]⟩

theorem d_extend (dim : Nat) (mid last : Nat → Site K) (hm : ∀ b, (mid b).d = dim) (hl : ∀ b, (last b).d = dim)
    (w : List Bool) (fs : List (Site K)) (b : Nat) (hd : ∀ A ∈ fs, A.d = dim) :
    ∀ A ∈ extendAux mid last fs w b, A.d = dim := by
  induction w generalizing fs b with
  | nil => simp [extendAux]
  | cons g w ih =>
    cases g with
    | true =>
      cases fs with
      | nil => simpa [extendAux] using ih [] b (by simp)
      | cons A fs =>
        intro B hB
        simp only [extendAux, List.mem_cons] at hB
        rcases hB with rfl | hB
        · exact hd _ (List.mem_cons_self ..)
        · exact ih fs _ (fun C hC => hd C (List.mem_cons_of_mem _ hC)) B hB
    | false =>
      cases fs with
      | nil =>
        intro B hB
        simp only [extendAux, List.mem_cons] at hB
        rcases hB with rfl | hB
        · exact hl b
        · exact ih [] 1 (by simp) B hB
      | cons A fs =>
        intro B hB
        simp only [extendAux, List.mem_cons] at hB
        rcases hB with rfl | hB
        · exact hm b
        · exact ih (A :: fs) b hd B hB

/-! ### operator strings under a mask -/

theorem restrict_opString (d : Nat) (w : List Bool) (o i : List Nat) (h : o.length = i.length) :
    restrict w (opString d o i) = opString d (restrict w o) (restrict w i) := by
  induction w generalizing o i with
  | nil => cases o <;> cases i <;> simp [restrict, opString]
  | cons g w ih =>
    cases o with
    | nil => cases i <;> cases g <;> simp [restrict, opString]
    | cons x o =>
      cases i with
      | nil => simp at h
      | cons y i =>
        have := ih o i (by simpa using h)
        simp only [opString] at this ⊢
        cases g <;> simp [restrict, this]

theorem darkPass_opString (d : Nat) (w : List Bool) (o i : List Nat) (h : o.length = i.length)
    (hi : ∀ y ∈ i, y < d) : darkPass (passOp d) w (opString d o i) = darkAgree w o i := by
  induction w generalizing o i with
  | nil => cases o <;> cases i <;> simp [darkPass, darkAgree, opString]
  | cons g w ih =>
    cases o with
    | nil => cases i <;> cases g <;> simp [darkPass, darkAgree, opString]
    | cons x o =>
      cases i with
      | nil => simp at h
      | cons y i =>
        have := ih o i (by simpa using h) (fun z hz => hi z (List.mem_cons_of_mem _ hz))
        have hy : y < d := hi y (List.mem_cons_self ..)
        simp only [opString] at this ⊢
        cases g
        · simp [darkPass, darkAgree, this, passOp, opLevel_div d x y hy, opLevel_mod d x y hy]
        · simp [darkPass, darkAgree, this]

/-! ### sums over masked strings -/

theorem sumStrings_congr' (d n : Nat) (f g : List Nat → K)
    (h : ∀ s, s.length = n → (∀ x ∈ s, x < d) → f s = g s) : sumStrings d n f = sumStrings d n g := by
  induction n generalizing f g with
  | zero => simp [sumStrings, h]
  | succ n ih =>
    simp only [sumStrings, sumTo_eq]
    refine Finset.sum_congr rfl (fun x hx => ih _ _ (fun s hs hd => h _ (by simp [hs]) ?_))
    intro y hy
    rcases List.mem_cons.mp hy with rfl | hy
    · exact Finset.mem_range.mp hx
    · exact hd y hy

/-- summing over all strings with the dark atoms forced to level 0 = summing over the good atoms -/
theorem sumStrings_mask (d : Nat) (hd : 0 < d) (w : List Bool) (f : List Nat → K) :
    sumStrings d w.length (fun s => if darkPass passState w s = true then f (restrict w s) else 0)
      = sumStrings d (countGood w) f := by
  induction w generalizing f with
  | nil => simp [sumStrings, darkPass, restrict, countGood]
  | cons g w ih =>
    cases g with
    | true =>
      rw [countGood_cons_true]
      simp only [List.length_cons, sumStrings, sumTo_eq, darkPass, restrict]
      exact Finset.sum_congr rfl (fun x _ => ih (fun r => f (x :: r)))
    | false =>
      rw [countGood_cons_false]
      simp only [List.length_cons, sumStrings, sumTo_eq, darkPass, restrict]
      rw [Finset.sum_eq_single 0]
      · simpa [passState] using ih f
      · intro x _ hx
        refine (sumStrings_congr d w.length _ (fun _ => 0) (fun s _ => ?_)).trans (sumStrings_zero d w.length)
        simp [passState, hx]
      · intro h0; exact absurd (Finset.mem_range.mpr hd) h0

theorem darkAgree_of_pass (w : List Bool) (s t : List Nat) (hs : darkPass passState w s = true)
    (ht : darkPass passState w t = true) (hl : s.length = t.length) : darkAgree w s t = true := by
  induction w generalizing s t with
  | nil => cases s <;> cases t <;> simp [darkAgree]
  | cons g w ih =>
    cases s with
    | nil => cases t <;> cases g <;> simp [darkAgree]
    | cons x s =>
      cases t with
      | nil => simp at hl
      | cons y t =>
        cases g
        · simp only [darkPass, Bool.and_eq_true, passState, beq_iff_eq] at hs ht
          simp [darkAgree, hs.1, ht.1, ih s t hs.2 ht.2 (by simpa using hl)]
        · simp only [darkPass] at hs ht
          simp [darkAgree, ih s t hs ht (by simpa using hl)]

theorem restrict_length (w : List Bool) {β : Type} (s : List β) (h : s.length = w.length) :
    (restrict w s).length = countGood w := by
  induction w generalizing s with
  | nil => cases s <;> simp [restrict, countGood]
  | cons g w ih =>
    cases s with
    | nil => simp at h
    | cons x s =>
      cases g
      · rw [countGood_cons_false]; simpa [restrict] using ih s (by simpa using h)
      · rw [countGood_cons_true]; simpa [restrict] using ih s (by simpa using h)

/-! ### `get_extended_site_index` -/

theorem extIndex_some (w : List Bool) (k seen pos p : Nat) (hk : seen ≤ k)
    (h : extIndexAux w k seen pos = some p) :
    pos ≤ p ∧ w[p - pos]? = some true ∧ countGood (w.take (p - pos)) = k - seen := by
  induction w generalizing seen pos with
  | nil => simp [extIndexAux] at h
  | cons b w ih =>
    simp only [extIndexAux] at h
    cases b with
    | true =>
      simp only [if_true] at h
      split at h
      · rename_i hsk
        simp only [Option.some.injEq] at h
        subst h; subst hsk
        simp [countGood]
      · rename_i hsk
        obtain ⟨i1, i2, i3⟩ := ih (seen + 1) (pos + 1) (by omega) h
        have e : p - pos = (p - (pos + 1)) + 1 := by omega
        refine ⟨by omega, ?_, ?_⟩
        · rw [e]; simpa using i2
        · rw [e, List.take_succ_cons, countGood_cons_true, i3]; omega
    | false =>
      simp only [Bool.false_eq_true, if_false] at h
      obtain ⟨i1, i2, i3⟩ := ih seen (pos + 1) hk h
      have e : p - pos = (p - (pos + 1)) + 1 := by omega
      refine ⟨by omega, ?_, ?_⟩
      · rw [e]; simpa using i2
      · rw [e, List.take_succ_cons, countGood_cons_false, i3]

theorem extIndex_none_iff (w : List Bool) (k seen pos : Nat) (hk : seen ≤ k) :
    extIndexAux w k seen pos = none ↔ seen + countGood w ≤ k := by
  induction w generalizing seen pos with
  | nil => simp [extIndexAux, countGood]; omega
  | cons b w ih =>
    simp only [extIndexAux]
    cases b with
    | true =>
      rw [countGood_cons_true]
      simp only [if_true]
      split
      · rename_i hsk; simp; omega
      · rename_i hsk
        rw [ih (seen + 1) (pos + 1) (by omega)]; omega
    | false =>
      rw [countGood_cons_false]
      simp only [Bool.false_eq_true, if_false]
      exact ih seen (pos + 1) hk

/-- boolean-mask filtering picks, at reduced index `k`, the entry at the position of the `k`-th good atom -/
theorem restrict_get {β : Type} (w : List Bool) (xs : List β) (hl : xs.length = w.length) (k seen pos p : Nat)
    (hk : seen ≤ k) (h : extIndexAux w k seen pos = some p) :
    (restrict w xs)[k - seen]? = xs[p - pos]? := by
  induction w generalizing xs seen pos with
  | nil => simp [extIndexAux] at h
  | cons b w ih =>
    cases xs with
    | nil => simp at hl
    | cons x xs =>
      simp only [extIndexAux] at h
      cases b with
      | true =>
        simp only [if_true] at h
        split at h
        · rename_i hsk
          simp only [Option.some.injEq] at h
          subst h; subst hsk
          simp [restrict]
        · rename_i hsk
          have hp := (extIndex_some w k (seen + 1) (pos + 1) p (by omega) h).1
          have := ih xs (by simpa using hl) (seen + 1) (pos + 1) (by omega) h
          have e1 : k - seen = (k - (seen + 1)) + 1 := by omega
          have e2 : p - pos = (p - (pos + 1)) + 1 := by omega
          rw [e1, e2]
          simpa [restrict] using this
      | false =>
        simp only [Bool.false_eq_true, if_false] at h
        have hp := (extIndex_some w k seen (pos + 1) p hk h).1
        have := ih xs (by simpa using hl) seen (pos + 1) hk h
        have e2 : p - pos = (p - (pos + 1)) + 1 := by omega
        rw [e2]
        simpa [restrict] using this

end EmuVerif.Dark
