/- Helper lemmas about `Model.Dmrg` (the sweep machine), for every energy tape. -/
import EmuVerif.Model.Dmrg
import EmuVerif.Proofs.Scalar
import Mathlib.Tactic.Linarith
import Mathlib.Tactic.SplitIfs

set_option linter.unusedSectionVars false

namespace EmuVerif.Dmrg
open EmuVerif

variable {α : Type} [Field α] [LinearOrder α] [IsStrictOrderedRing α]

theorem St.ext' {s t : St α} (h1 : s.dir = t.dir) (h2 : s.idx = t.idx) (h3 : s.left = t.left)
    (h4 : s.right = t.right) (h5 : s.centre = t.centre) (h6 : s.prevE = t.prevE)
    (h7 : s.curE = t.curE) (h8 : s.sweepCount = t.sweepCount) (h9 : s.tsIndex = t.tsIndex)
    (h10 : s.curT = t.curT) (h11 : s.tgtT = t.tgtT) : s = t := by
  cases s; cases t; simp_all

/-- The run is not over: `is_finished()` is false. -/
def Unfinished (cfg : Cfg α) (s : St α) : Prop := s.tsIndex < cfg.steps

theorem finished_false {cfg : Cfg α} {s : St α} (h : Unfinished cfg s) : finished cfg s = false := by
  unfold finished Unfinished at *; simp; omega

/-- The configuration at the start of every sweep. -/
structure SweepStart (cfg : Cfg α) (s : St α) : Prop where
  dir : s.dir = .l2r
  idx : s.idx = 0
  left : s.left = 1
  right : s.right = cfg.n - 1
  centre : s.centre = 0

/-! ### `runTape` plumbing -/

theorem runTape_nil (cfg : Cfg α) (s : St α) : runTape cfg [] s = ⟨s, [], none⟩ := rfl

theorem andThen_none {r : Res α} (k : St α → Res α) (h : r.halt = none) :
    r.andThen k = ⟨(k r.st).st, r.evs ++ (k r.st).evs, (k r.st).halt⟩ := by
  unfold Res.andThen; rw [h]

theorem andThen_some {r : Res α} (k : St α → Res α) {hh : Halt} (h : r.halt = some hh) :
    r.andThen k = ⟨r.st, r.evs, some hh⟩ := by
  unfold Res.andThen; rw [h]

theorem andThen_pure (r : Res α) : r.andThen (fun s => ⟨s, [], none⟩) = r := by
  unfold Res.andThen
  cases r with
  | mk st evs halt => cases halt <;> simp

theorem andThen_assoc (r : Res α) (k₁ k₂ : St α → Res α) :
    (r.andThen k₁).andThen k₂ = r.andThen (fun s => (k₁ s).andThen k₂) := by
  cases r with
  | mk st evs halt =>
    cases halt with
    | some h => simp [Res.andThen]
    | none =>
      simp only [Res.andThen]
      cases (k₁ st).halt <;> simp

theorem runTape_cons (cfg : Cfg α) (e : α) (es : List α) (s : St α) (h : Unfinished cfg s) :
    runTape cfg (e :: es) s = (progress cfg s e).andThen (fun s' => runTape cfg es s') := by
  rw [runTape]; simp [finished_false h]

theorem runTape_finished (cfg : Cfg α) (es : List α) (s : St α) (h : ¬ Unfinished cfg s) :
    runTape cfg es s = ⟨s, [], none⟩ := by
  cases es with
  | nil => rfl
  | cons e es =>
    rw [runTape]
    have : finished cfg s = true := by
      unfold finished Unfinished at *; simp; omega
    simp [this]

theorem runTape_single (cfg : Cfg α) (e : α) (s : St α) (h : Unfinished cfg s) :
    runTape cfg [e] s = progress cfg s e := by
  rw [runTape_cons cfg e [] s h]
  exact andThen_pure _

/-- Sequential composition: running `es₁ ++ es₂` is running `es₁`, and — unless an exception
escaped — continuing with `es₂`. -/
theorem runTape_append (cfg : Cfg α) (es₁ es₂ : List α) (s : St α) :
    runTape cfg (es₁ ++ es₂) s = (runTape cfg es₁ s).andThen (fun s' => runTape cfg es₂ s') := by
  induction es₁ generalizing s with
  | nil => simp [runTape_nil, Res.andThen]
  | cons e es ih =>
    by_cases hu : Unfinished cfg s
    · rw [List.cons_append, runTape_cons cfg e _ s hu, runTape_cons cfg e es s hu, andThen_assoc]
      congr 1
      funext s'
      exact ih s'
    · rw [runTape_finished cfg _ s hu, runTape_finished cfg _ s hu]
      simp [Res.andThen, runTape_finished cfg es₂ s hu]

/-! ### One call of `progress` -/

/-- A left-to-right call that is not the last one of its direction. -/
theorem progress_l2r_inner (cfg : Cfg α) (s : St α) (e : α) (hd : s.dir = .l2r)
    (hl : 0 < s.left) (hr : 0 < s.right) (hi : s.idx + 3 < cfg.n) :
    progress cfg s e =
      ⟨{ s with idx := s.idx + 1, left := s.left + 1, right := s.right - 1, centre := s.idx + 1,
                curE := some e }, [.min s.idx true], none⟩ := by
  have h1 : s.idx + 1 < cfg.n := by omega
  have h2 : s.idx + 2 < cfg.n := by omega
  have h3 : ¬ (s.idx + 1 + 2 = cfg.n) := by omega
  simp [progress, bathsOk, hl, hr, h1, hd, afterMin, centreRight, l2rUpdate, h2, h3]

/-- The left-to-right call after which the direction turns (`n ≥ 3`). -/
theorem progress_l2r_turn (cfg : Cfg α) (s : St α) (e : α) (hd : s.dir = .l2r)
    (hl : 0 < s.left) (hr : 0 < s.right) (hi : s.idx + 3 = cfg.n) :
    progress cfg s e =
      ⟨{ s with idx := s.idx + 1, left := s.left + 1, right := s.right - 1, centre := s.idx + 1,
                curE := some e, dir := .r2l }, [.min s.idx true], none⟩ := by
  have h1 : s.idx + 1 < cfg.n := by omega
  have h2 : s.idx + 2 < cfg.n := by omega
  have h3 : s.idx + 1 + 2 = cfg.n := by omega
  simp [progress, bathsOk, hl, hr, h1, hd, afterMin, centreRight, l2rUpdate, h2, h3]

/-- Two atoms: the left-to-right call does not move. -/
theorem progress_l2r_two (cfg : Cfg α) (s : St α) (e : α) (hd : s.dir = .l2r)
    (hl : 0 < s.left) (hr : 0 < s.right) (hi : s.idx = 0) (hn : cfg.n = 2) :
    progress cfg s e =
      ⟨{ s with centre := 1, curE := some e, dir := .r2l }, [.min 0 true], none⟩ := by
  simp [progress, bathsOk, hl, hr, hd, afterMin, centreRight, l2rUpdate, hi, hn]

/-- A right-to-left call that does not end the sweep. -/
theorem progress_r2l_inner (cfg : Cfg α) (s : St α) (e : α) (hd : s.dir = .r2l)
    (hl : 0 < s.left) (hr : 0 < s.right) (hi : 2 ≤ s.idx) (hn : s.idx + 1 < cfg.n) :
    progress cfg s e =
      ⟨{ s with idx := s.idx - 1, left := s.left - 1, right := s.right + 1, centre := s.idx,
                curE := some e }, [.min s.idx false], none⟩ := by
  have h0 : 0 < s.idx := by omega
  have h1 : ¬ (s.idx - 1 = 0) := by omega
  simp [progress, bathsOk, hl, hr, hn, hd, afterMin, centreRight, r2lUpdate, r2lMove, h0, h1]

/-- The object on entry of `sweep_complete` when the last local minimisation of the sweep
returned `e`: everything is back where the sweep started, one more sweep is counted. -/
def sweepEndSt (s : St α) (e : α) : St α :=
  { s with idx := 0, left := s.left - s.idx, right := s.right + s.idx, centre := 0,
           curE := some e, dir := .l2r, sweepCount := s.sweepCount + 1 }

/-- The right-to-left call that ends the sweep (`idx ≤ 1`). -/
theorem progress_r2l_last (cfg : Cfg α) (s : St α) (e : α) (hd : s.dir = .r2l)
    (hl : 0 < s.left) (hr : 0 < s.right) (hi : s.idx ≤ 1) (hn : s.idx + 1 < cfg.n) :
    progress cfg s e =
      ⟨(sweepComplete cfg (sweepEndSt s e)).st,
       .min s.idx false :: (sweepComplete cfg (sweepEndSt s e)).evs,
       (sweepComplete cfg (sweepEndSt s e)).halt⟩ := by
  rcases Nat.le_one_iff_eq_zero_or_eq_one.mp hi with h0 | h1
  · have hn' : 0 + 1 < cfg.n := by omega
    simp [progress, bathsOk, hl, hr, hn', hd, afterMin, centreRight, r2lUpdate, r2lMove, h0,
      sweepEnd, sweepEndSt]
  · have hn' : 1 + 1 < cfg.n := by omega
    simp [progress, bathsOk, hl, hr, hn', hd, afterMin, centreRight, r2lUpdate, r2lMove, h1,
      sweepEnd, sweepEndSt]

/-! ### The two phases of a sweep (`n ≥ 3`) -/

def minEv (b : Bool) (i : Nat) : Event := .min i b

/-- Left-to-right phase: from position `i` the next `d+1 = n-2-i` calls visit
`i, i+1, …, n-3` with the centre pushed right, move one bath from the right stack to the left
one each time, and leave the object at position `n-2` heading left. -/
theorem l2r_phase (cfg : Cfg α) : ∀ (d : Nat) (es : List α) (s : St α),
    es.length = d + 1 → s.dir = .l2r → s.idx + 3 + d = cfg.n → 0 < s.left → s.right = d + 2 →
    Unfinished cfg s →
    runTape cfg es s =
      ⟨{ s with idx := s.idx + (d + 1), left := s.left + (d + 1), right := 1,
                centre := s.idx + (d + 1), curE := es.getLast?, dir := .r2l },
       (List.range' s.idx (d + 1)).map (minEv true), none⟩
  | 0, es, s, hlen, hd, hi, hl, hr, hu => by
    obtain ⟨e, rfl⟩ := List.length_eq_one_iff.mp hlen
    rw [runTape_single cfg e s hu, progress_l2r_turn cfg s e hd hl (by omega) (by omega)]
    simp [minEv, hr]
  | d + 1, es, s, hlen, hd, hi, hl, hr, hu => by
    cases es with
    | nil => simp at hlen
    | cons e es =>
      have hlen' : es.length = d + 1 := by simpa using hlen
      rw [runTape_cons cfg e es s hu, progress_l2r_inner cfg s e hd hl (by omega) (by omega)]
      rw [andThen_none _ rfl]
      have ih := l2r_phase cfg d es
        { s with idx := s.idx + 1, left := s.left + 1, right := s.right - 1, centre := s.idx + 1,
                 curE := some e }
        hlen' hd (by simp only; omega) (by simp) (by simp only; omega) hu
      simp only [ih]
      have hne : es ≠ [] := by intro h; simp [h] at hlen'
      have hlast : (e :: es).getLast? = es.getLast? := by
        cases es with
        | nil => exact absurd rfl hne
        | cons e' es' => simp [List.getLast?_cons_cons]
      rw [hlast]
      refine congrArg₂ (fun a b => Res.mk a b none) ?_ ?_
      · apply St.ext' <;> simp <;> omega
      · simp [minEv, List.range'_succ]

/-- The object on entry of `sweep_complete` after a right-to-left phase of `k` calls. -/
def sweepEndOf (s : St α) (k : Nat) (c : Option α) : St α :=
  { s with idx := 0, left := 1, right := s.right + k, centre := 0, curE := c, dir := .l2r,
           sweepCount := s.sweepCount + 1 }

/-- Right-to-left phase: from position `i+1 ≥ 1` the next `i+1` calls visit `i+1, i, …, 1` with
the centre pushed left, move the baths back, and the last one runs `sweep_complete` on an object
that is back at position 0 with centre 0. The pair `(0, 1)` is not minimised again. -/
theorem r2l_phase (cfg : Cfg α) : ∀ (i : Nat) (es : List α) (s : St α),
    es.length = i + 1 → s.dir = .r2l → s.idx = i + 1 → s.left = i + 2 → i + 2 < cfg.n →
    0 < s.right → Unfinished cfg s →
    runTape cfg es s =
      ⟨(sweepComplete cfg (sweepEndOf s (i + 1) es.getLast?)).st,
       (List.range' 1 (i + 1)).reverse.map (minEv false)
         ++ (sweepComplete cfg (sweepEndOf s (i + 1) es.getLast?)).evs,
       (sweepComplete cfg (sweepEndOf s (i + 1) es.getLast?)).halt⟩
  | 0, es, s, hlen, hd, hi, hl, hn, hr, hu => by
    obtain ⟨e, rfl⟩ := List.length_eq_one_iff.mp hlen
    rw [runTape_single cfg e s hu,
      progress_r2l_last cfg s e hd (by omega) hr (by omega) (by omega)]
    have : sweepEndSt s e = sweepEndOf s (0 + 1) [e].getLast? := by
      apply St.ext' <;> simp [sweepEndSt, sweepEndOf, hi, hl]
    rw [this]
    simp [minEv, hi]
  | i + 1, es, s, hlen, hd, hi, hl, hn, hr, hu => by
    cases es with
    | nil => simp at hlen
    | cons e es =>
      have hlen' : es.length = i + 1 := by simpa using hlen
      rw [runTape_cons cfg e es s hu,
        progress_r2l_inner cfg s e hd (by omega) hr (by omega) (by omega)]
      rw [andThen_none _ rfl]
      have ih := r2l_phase cfg i es
        { s with idx := s.idx - 1, left := s.left - 1, right := s.right + 1, centre := s.idx,
                 curE := some e }
        hlen' hd (by simp only; omega) (by simp only; omega) (by omega) (by simp) hu
      simp only [ih]
      have hne : es ≠ [] := by intro h; simp [h] at hlen'
      have hlast : (e :: es).getLast? = es.getLast? := by
        cases es with
        | nil => exact absurd rfl hne
        | cons e' es' => simp [List.getLast?_cons_cons]
      rw [hlast]
      have hst : sweepEndOf ({ s with idx := s.idx - 1, left := s.left - 1, right := s.right + 1, centre := s.idx, curE := some e } : St α) (i + 1) es.getLast?
          = sweepEndOf s (i + 1 + 1) es.getLast? := by
        apply St.ext' <;> simp [sweepEndOf] <;> omega
      simp only [hst]
      refine congrArg₂ (fun a b => Res.mk a b _) rfl ?_
      have hrg : List.range' 1 (i + 1 + 1) = List.range' 1 (i + 1) ++ [i + 1 + 1] := by
        rw [List.range'_concat]; simp; omega
      rw [hrg]
      simp [minEv, hi]

/-! ### A whole sweep -/

/-- The object on entry of `sweep_complete` at the end of a sweep that started in `s`, when the
last local minimisation returned `c`. -/
def afterSweep (s : St α) (c : Option α) : St α :=
  { s with curE := c, sweepCount := s.sweepCount + 1 }

theorem sweepPositions_two : sweepPositions 2 = [(0, true), (0, false)] := by
  simp [sweepPositions]

theorem sweepPositions_ge_three (m : Nat) :
    (sweepPositions (m + 3)).map (fun p => Event.min p.1 p.2) =
      (List.range' 0 (m + 1)).map (minEv true) ++ (List.range' 1 (m + 1)).reverse.map (minEv false) := by
  simp [sweepPositions, Function.comp_def]
  rfl

theorem sweepPositions_length (n : Nat) (h : 2 ≤ n) :
    (sweepPositions n).length = if n ≤ 3 then 2 else 2 * (n - 2) := by
  unfold sweepPositions
  split_ifs <;> simp <;> omega

/-- **One sweep.** From the start-of-sweep configuration, for every `n ≥ 2` and every energies
`es` (one per call), the calls are exactly `sweepPositions n`, in this order, no exception can
escape before `sweep_complete`, and `sweep_complete` runs on the start configuration with
`current_energy` = the last energy and one more sweep counted. -/
theorem sweep_run (cfg : Cfg α) (s : St α) (es : List α) (hn : 2 ≤ cfg.n)
    (hs : SweepStart cfg s) (hu : Unfinished cfg s)
    (hlen : es.length = (sweepPositions cfg.n).length) :
    runTape cfg es s =
      ⟨(sweepComplete cfg (afterSweep s es.getLast?)).st,
       (sweepPositions cfg.n).map (fun p => Event.min p.1 p.2)
         ++ (sweepComplete cfg (afterSweep s es.getLast?)).evs,
       (sweepComplete cfg (afterSweep s es.getLast?)).halt⟩ := by
  obtain ⟨hd, hi, hl, hr, hc⟩ := hs
  rcases Nat.lt_or_ge cfg.n 3 with h2 | h3
  · -- two atoms
    have hn2 : cfg.n = 2 := by omega
    rw [hn2, sweepPositions_two] at hlen ⊢
    match es, hlen with
    | [e₁, e₂], _ =>
      rw [runTape_cons cfg e₁ [e₂] s hu,
        progress_l2r_two cfg s e₁ hd (by omega) (by omega) hi hn2, andThen_none _ rfl]
      have h2 := runTape_single cfg e₂ ({ s with centre := 1, curE := some e₁, dir := .r2l } : St α) hu
      have h3 := progress_r2l_last cfg ({ s with centre := 1, curE := some e₁, dir := .r2l } : St α) e₂ rfl
        (by simp only; omega) (by simp only; omega) (by simp [hi]) (by simp [hi, hn2])
      have h4 : sweepEndSt ({ s with centre := 1, curE := some e₁, dir := .r2l } : St α) e₂
          = afterSweep s [e₁, e₂].getLast? := by
        apply St.ext' <;> simp [sweepEndSt, afterSweep, hi, hd, hc]
      simp only [h2, h3, h4]
      simp [hi]
  · -- at least three atoms
    obtain ⟨m, hm⟩ : ∃ m, cfg.n = m + 3 := ⟨cfg.n - 3, by omega⟩
    have hlen' : es.length = (m + 1) + (m + 1) := by
      rw [hlen, sweepPositions_length _ hn]; split_ifs <;> omega
    rw [hm, sweepPositions_ge_three]
    obtain ⟨esL, esR, rfl, hL, hR⟩ : ∃ a b, es = a ++ b ∧ a.length = m + 1 ∧ b.length = m + 1 :=
      ⟨es.take (m + 1), es.drop (m + 1), by simp, by simp; omega, by simp; omega⟩
    have hRne : esR ≠ [] := by intro h; simp [h] at hR
    rw [runTape_append, l2r_phase cfg m esL s hL hd (by omega) (by omega) (by omega) hu,
      andThen_none _ rfl]
    simp only
    have h5 := r2l_phase cfg m esR ({ s with idx := s.idx + (m + 1), left := s.left + (m + 1), right := 1, centre := s.idx + (m + 1), curE := esL.getLast?, dir := .r2l } : St α) hR rfl
      (by simp only; omega) (by simp only; omega) (by omega) (by simp) hu
    have hlast : (esL ++ esR).getLast? = esR.getLast? := List.getLast?_append_of_ne_nil _ hRne
    have h6 : sweepEndOf ({ s with idx := s.idx + (m + 1), left := s.left + (m + 1), right := 1, centre := s.idx + (m + 1), curE := esL.getLast?, dir := .r2l } : St α) (m + 1) esR.getLast?
        = afterSweep s (esL ++ esR).getLast? := by
      rw [hlast]
      apply St.ext' <;> simp [sweepEndOf, afterSweep, hi, hd, hc, hl, hr] <;> omega
    simp only [h5, h6]
    simp [hi]

/-! ### `sweep_complete`, sweep by sweep -/

/-- One whole sweep seen from outside: the energy `e` of its last local minimisation is all
that `sweep_complete` looks at. -/
def sweepStep (cfg : Cfg α) (s : St α) (e : α) : Res α := sweepComplete cfg (afterSweep s (some e))

/-- `convergence_check` at the end of a sweep whose last energy is `e`. -/
def Conv (cfg : Cfg α) (s : St α) (e : α) : Prop := ∃ p, s.prevE = some p ∧ |e - p| < cfg.tol

/-- `target_times` has an entry for the end of every step (`SequenceData`: `steps + 1` times). -/
def TimesOk (cfg : Cfg α) : Prop := cfg.steps + 1 ≤ cfg.times.length

theorem convergenceCheck_afterSweep (cfg : Cfg α) (s : St α) (e : α) :
    convergenceCheck cfg.tol (afterSweep s (some e)) = true ↔ Conv cfg s e := by
  unfold convergenceCheck afterSweep Conv
  cases h : s.prevE with
  | none => simp
  | some p => simp [absv_eq_abs]

/-- `target_time` after step `k = s.tsIndex` completes. -/
def nextTarget (cfg : Cfg α) (s : St α) : α :=
  if s.tsIndex + 1 < cfg.steps then (cfg.times[s.tsIndex + 2]?).getD s.tgtT else s.tgtT

/-- `previous_energy` after a converged sweep: untouched in the code as found, `None` in the
repaired variant. -/
def keptPrev (cfg : Cfg α) (s : St α) : Option α := if cfg.resetPrev then none else s.prevE

/-- **Converged sweep**: the step completes (once), time advances to the target, the sweep
count is reset, `previous_energy` is *kept as it was* (it is neither reset nor set to the
converged energy), `current_energy` is cleared, the object is at a sweep start again. -/
theorem sweepStep_converged (cfg : Cfg α) (s : St α) (e : α) (hs : SweepStart cfg s)
    (ht : TimesOk cfg) (hc : Conv cfg s e) :
    sweepStep cfg s e =
      ⟨{ s with curT := s.tgtT, sweepCount := 0, tsIndex := s.tsIndex + 1,
                tgtT := nextTarget cfg s, curE := none, prevE := keptPrev cfg s },
       [.sweepDone true, .stepDone s.tsIndex], none⟩ := by
  obtain ⟨hd, hi, hl, hr, hce⟩ := hs
  have hcc := (convergenceCheck_afterSweep cfg s e).mpr hc
  unfold sweepStep sweepComplete
  rw [if_pos hcc]
  unfold timestepComplete nextTarget
  by_cases hf : s.tsIndex + 1 < cfg.steps
  · have hfin : finished cfg ({ ({ afterSweep s (some e) with curT := (afterSweep s (some e)).tgtT, sweepCount := 0, prevE := if cfg.resetPrev then none else (afterSweep s (some e)).prevE } : St α) with tsIndex := (afterSweep s (some e)).tsIndex + 1 } : St α) = false := by
      unfold finished; exact decide_eq_false (by simp only [afterSweep]; omega)
    have hidx : s.tsIndex + 2 < cfg.times.length := by unfold TimesOk at ht; omega
    simp only [hfin]
    simp [afterSweep, List.getElem?_eq_getElem hidx, sweepTail, assertsOk, hi, hce, hd, hf, hl, hr, keptPrev]
  · have hfin : finished cfg ({ ({ afterSweep s (some e) with curT := (afterSweep s (some e)).tgtT, sweepCount := 0, prevE := if cfg.resetPrev then none else (afterSweep s (some e)).prevE } : St α) with tsIndex := (afterSweep s (some e)).tsIndex + 1 } : St α) = true := by
      unfold finished; exact decide_eq_true (by simp only [afterSweep]; omega)
    simp only [hfin]
    simp [afterSweep, sweepTail, assertsOk, hi, hce, hd, hf, keptPrev]

/-- **Unconverged sweep, budget left**: `previous_energy` becomes this sweep's energy. -/
theorem sweepStep_continue (cfg : Cfg α) (s : St α) (e : α) (hs : SweepStart cfg s)
    (hc : ¬ Conv cfg s e) (hm : s.sweepCount + 2 ≤ cfg.maxSweeps) :
    sweepStep cfg s e =
      ⟨{ s with prevE := some e, sweepCount := s.sweepCount + 1, curE := none },
       [.sweepDone false], none⟩ := by
  obtain ⟨hd, hi, hl, hr, hce⟩ := hs
  have hcc : ¬ convergenceCheck cfg.tol (afterSweep s (some e)) = true :=
    fun h => hc ((convergenceCheck_afterSweep cfg s e).mp h)
  unfold sweepStep sweepComplete
  rw [if_neg hcc]
  have hex : exhausted cfg (afterSweep s (some e)) = false := by
    unfold exhausted; exact decide_eq_false (by simp only [afterSweep]; omega)
  rw [hex]
  simp [sweepTail, assertsOk, afterSweep, hi, hce, hd]

/-- **Unconverged sweep, budget exhausted** (`sweep_count + 1 > max_sweeps` after the
increment): `RuntimeError`. -/
theorem sweepStep_raise (cfg : Cfg α) (s : St α) (e : α)
    (hc : ¬ Conv cfg s e) (hm : cfg.maxSweeps < s.sweepCount + 2) :
    (sweepStep cfg s e).evs = [.sweepDone false, .raise]
      ∧ (sweepStep cfg s e).halt = some .notConverged := by
  have hcc : ¬ convergenceCheck cfg.tol (afterSweep s (some e)) = true :=
    fun h => hc ((convergenceCheck_afterSweep cfg s e).mp h)
  unfold sweepStep sweepComplete
  rw [if_neg hcc]
  have hex : exhausted cfg (afterSweep s (some e)) = true := by
    unfold exhausted; exact decide_eq_true (by simp only [afterSweep]; omega)
  rw [hex]
  simp

/-- The three cases are exhaustive. -/
theorem sweepStep_cases (cfg : Cfg α) (s : St α) (e : α) (hs : SweepStart cfg s)
    (ht : TimesOk cfg) :
    (Conv cfg s e ∧ sweepStep cfg s e =
        ⟨{ s with curT := s.tgtT, sweepCount := 0, tsIndex := s.tsIndex + 1,
                  tgtT := nextTarget cfg s, curE := none, prevE := keptPrev cfg s },
         [.sweepDone true, .stepDone s.tsIndex], none⟩)
    ∨ (¬ Conv cfg s e ∧ s.sweepCount + 2 ≤ cfg.maxSweeps ∧ sweepStep cfg s e =
        ⟨{ s with prevE := some e, sweepCount := s.sweepCount + 1, curE := none },
         [.sweepDone false], none⟩)
    ∨ (¬ Conv cfg s e ∧ cfg.maxSweeps < s.sweepCount + 2
        ∧ (sweepStep cfg s e).evs = [.sweepDone false, .raise]
        ∧ (sweepStep cfg s e).halt = some .notConverged) := by
  by_cases hc : Conv cfg s e
  · exact Or.inl ⟨hc, sweepStep_converged cfg s e hs ht hc⟩
  · by_cases hm : s.sweepCount + 2 ≤ cfg.maxSweeps
    · exact Or.inr (Or.inl ⟨hc, hm, sweepStep_continue cfg s e hs hc hm⟩)
    · exact Or.inr (Or.inr ⟨hc, by omega, sweepStep_raise cfg s e hc (by omega)⟩)

/-- The run, one energy per sweep. -/
def runSweeps (cfg : Cfg α) : List α → St α → Res α
  | [], s => ⟨s, [], none⟩
  | e :: es, s =>
    if finished cfg s then ⟨s, [], none⟩
    else (sweepStep cfg s e).andThen (fun s' => runSweeps cfg es s')

theorem runSweeps_cons (cfg : Cfg α) (e : α) (es : List α) (s : St α) (h : Unfinished cfg s) :
    runSweeps cfg (e :: es) s = (sweepStep cfg s e).andThen (fun s' => runSweeps cfg es s') := by
  rw [runSweeps]; simp [finished_false h]

theorem runSweeps_finished (cfg : Cfg α) (es : List α) (s : St α) (h : ¬ Unfinished cfg s) :
    runSweeps cfg es s = ⟨s, [], none⟩ := by
  cases es with
  | nil => rfl
  | cons e es =>
    rw [runSweeps]
    have : finished cfg s = true := by
      unfold finished Unfinished at *; simp; omega
    simp [this]

/-- Insert the local minimisations of a sweep in front of every `sweepDone`. -/
def expandEvs (n : Nat) : List Event → List Event
  | [] => []
  | .sweepDone b :: r =>
    (sweepPositions n).map (fun p => Event.min p.1 p.2) ++ .sweepDone b :: expandEvs n r
  | ev :: r => ev :: expandEvs n r

theorem expandEvs_sweepStep (cfg : Cfg α) (s : St α) (e : α) (hs : SweepStart cfg s)
    (ht : TimesOk cfg) (rest : List Event) :
    expandEvs cfg.n ((sweepStep cfg s e).evs ++ rest) =
      (sweepPositions cfg.n).map (fun p => Event.min p.1 p.2) ++ (sweepStep cfg s e).evs
        ++ expandEvs cfg.n rest := by
  rcases sweepStep_cases cfg s e hs ht with ⟨_, h⟩ | ⟨_, _, h⟩ | ⟨_, _, h, _⟩ <;>
    simp [h, expandEvs]

theorem sweepStart_after (cfg : Cfg α) (s : St α) (e : α) (hs : SweepStart cfg s)
    (ht : TimesOk cfg) (hh : (sweepStep cfg s e).halt = none) :
    SweepStart cfg (sweepStep cfg s e).st := by
  obtain ⟨hd, hi, hl, hr, hce⟩ := hs
  rcases sweepStep_cases cfg s e ⟨hd, hi, hl, hr, hce⟩ ht with ⟨_, h⟩ | ⟨_, _, h⟩ | ⟨_, _, _, h⟩
  · rw [h]; exact ⟨hd, hi, hl, hr, hce⟩
  · rw [h]; exact ⟨hd, hi, hl, hr, hce⟩
  · rw [h] at hh; cases hh

/-- **Refinement.** The call-by-call machine fed with whole sweeps (`p.1 ++ [p.2]`, of the
right length) is the sweep-by-sweep machine fed with the last energy of each sweep, with the
fixed position pattern inserted before every `sweepDone` — same final object, same exception. -/
theorem runTape_eq_runSweeps (cfg : Cfg α) (hn : 2 ≤ cfg.n) (ht : TimesOk cfg) :
    ∀ (ess : List (List α × α)) (s : St α), SweepStart cfg s →
      (∀ p ∈ ess, p.1.length + 1 = (sweepPositions cfg.n).length) →
      runTape cfg (ess.flatMap (fun p => p.1 ++ [p.2])) s =
        ⟨(runSweeps cfg (ess.map Prod.snd) s).st,
         expandEvs cfg.n (runSweeps cfg (ess.map Prod.snd) s).evs,
         (runSweeps cfg (ess.map Prod.snd) s).halt⟩
  | [], s, _, _ => by simp [runTape_nil, runSweeps, expandEvs]
  | p :: ess, s, hs, hl => by
    by_cases hu : Unfinished cfg s
    · have hlen : (p.1 ++ [p.2]).length = (sweepPositions cfg.n).length := by
        simpa using hl p (by simp)
      have hlast : (p.1 ++ [p.2]).getLast? = some p.2 := by simp
      rw [List.flatMap_cons, runTape_append, sweep_run cfg s _ hn hs hu hlen, hlast,
        List.map_cons, runSweeps_cons cfg p.2 _ s hu]
      have hss : sweepComplete cfg (afterSweep s (some p.2)) = sweepStep cfg s p.2 := rfl
      rw [hss]
      have hex := expandEvs_sweepStep cfg s p.2 hs ht
      cases hh : (sweepStep cfg s p.2).halt with
      | some h =>
        have := hex []
        simp only [List.append_nil, expandEvs] at this
        simp [Res.andThen, hh, this]
      | none =>
        have ih := runTape_eq_runSweeps cfg hn ht ess (sweepStep cfg s p.2).st
          (sweepStart_after cfg s p.2 hs ht hh) (fun q hq => hl q (by simp [hq]))
        simp only [Res.andThen, hh, ih, hex]
    · rw [runTape_finished cfg _ s hu, runSweeps_finished cfg _ s hu]
      simp [expandEvs]

/-! ### The invariant of every single call -/

/-- What holds before every call of `progress` of a run: the stack sizes follow the position,
the position is legal for the direction, and the orthogonality centre sits on one of the two
sites about to be minimised. -/
structure Inv (cfg : Cfg α) (s : St α) : Prop where
  left : s.left = s.idx + 1
  right : s.right + s.idx + 1 = cfg.n
  l2r : s.dir = .l2r → s.centre = s.idx ∧ (s.idx + 3 ≤ cfg.n ∨ (s.idx = 0 ∧ cfg.n = 2))
  r2l : s.dir = .r2l →
    (s.centre = s.idx ∨ s.centre = s.idx + 1) ∧ s.idx + 2 ≤ cfg.n ∧ (3 ≤ cfg.n → 1 ≤ s.idx)

theorem Inv.two_le {cfg : Cfg α} {s : St α} (h : Inv cfg s) : s.idx + 2 ≤ cfg.n := by
  cases hd : s.dir with
  | l2r => rcases (h.l2r hd).2 with h1 | ⟨h1, h2⟩ <;> omega
  | r2l => exact (h.r2l hd).2.1

theorem SweepStart.inv {cfg : Cfg α} {s : St α} (h : SweepStart cfg s) (hn : 2 ≤ cfg.n) :
    Inv cfg s := by
  obtain ⟨hd, hi, hl, hr, hc⟩ := h
  refine ⟨by omega, by omega, fun _ => ⟨by omega, by omega⟩, fun h => by rw [hd] at h; cases h⟩

theorem init_sweepStart {cfg : Cfg α} {s : St α} (h : init cfg = some s) :
    SweepStart cfg s ∧ 2 ≤ cfg.n ∧ s.prevE = none ∧ s.sweepCount = 0 ∧ s.tsIndex = 0 := by
  unfold init at h
  split_ifs at h with h2
  cases ht : cfg.times[1]? with
  | none => simp [ht] at h
  | some t =>
    simp only [ht, Option.some.injEq] at h
    subst h
    exact ⟨⟨rfl, rfl, rfl, rfl, rfl⟩, by omega, rfl, rfl, rfl⟩

/-- **Safety of one call.** From any object satisfying `Inv`, a call of `progress`
(i) minimises the pair at the current position with the centre on one of its two sites and
`orth_center_right` = "heading right", (ii) can only fail with the `RuntimeError` of
`sweep_complete` — never an `IndexError` on a bath stack or a factor, never one of the three
asserts — and (iii) re-establishes `Inv`. -/
theorem progress_inv (cfg : Cfg α) (s : St α) (e : α) (h : Inv cfg s) (ht : TimesOk cfg) :
    (s.centre = s.idx ∨ s.centre = s.idx + 1)
    ∧ (progress cfg s e).evs.head? = some (.min s.idx (decide (s.dir = .l2r)))
    ∧ ((progress cfg s e).halt = none ∨ (progress cfg s e).halt = some .notConverged)
    ∧ ((progress cfg s e).halt = none → Inv cfg (progress cfg s e).st) := by
  have hn := h.two_le
  have hl : 0 < s.left := by rw [h.left]; omega
  have hr : 0 < s.right := by have := h.right; omega
  cases hd : s.dir with
  | l2r =>
    obtain ⟨hc, hpos⟩ := h.l2r hd
    rcases hpos with h3 | ⟨h0, h2⟩
    · rcases Nat.lt_or_ge (s.idx + 3) cfg.n with hlt | hge
      · rw [progress_l2r_inner cfg s e hd hl hr hlt]
        refine ⟨Or.inl hc, by simp, Or.inl rfl, fun _ => ⟨?_, ?_, ?_, ?_⟩⟩
        · simp [h.left]
        · have := h.right; simp only; omega
        · intro _; simp only; exact ⟨trivial, Or.inl (by omega)⟩
        · intro hh; simp only at hh; rw [hd] at hh; cases hh
      · rw [progress_l2r_turn cfg s e hd hl hr (by omega)]
        refine ⟨Or.inl hc, by simp, Or.inl rfl, fun _ => ⟨?_, ?_, ?_, ?_⟩⟩
        · simp [h.left]
        · have := h.right; simp only; omega
        · intro hh; simp only at hh; cases hh
        · intro _; simp only; exact ⟨Or.inl trivial, by omega, fun _ => by omega⟩
    · rw [progress_l2r_two cfg s e hd hl hr h0 h2]
      refine ⟨Or.inl hc, by simp [h0], Or.inl rfl, fun _ => ⟨?_, ?_, ?_, ?_⟩⟩
      · simp [h.left]
      · have := h.right; simp only; omega
      · intro hh; simp only at hh; cases hh
      · intro _; simp only; exact ⟨Or.inr (by omega), by omega, fun _ => by omega⟩
  | r2l =>
    obtain ⟨hc, hle, h1⟩ := h.r2l hd
    rcases Nat.lt_or_ge 1 s.idx with hgt | hle1
    · rw [progress_r2l_inner cfg s e hd hl hr (by omega) (by omega)]
      refine ⟨hc, by simp, Or.inl rfl, fun _ => ⟨?_, ?_, ?_, ?_⟩⟩
      · simp only; rw [h.left]; omega
      · have := h.right; simp only; omega
      · intro hh; simp only at hh; rw [hd] at hh; cases hh
      · intro _; simp only; exact ⟨Or.inr (by omega), by omega, fun _ => by omega⟩
    · rw [progress_r2l_last cfg s e hd hl hr hle1 (by omega)]
      have hs0 : SweepStart cfg ({ s with idx := 0, left := 1, right := cfg.n - 1, centre := 0, dir := .l2r } : St α) :=
        ⟨rfl, rfl, rfl, rfl, rfl⟩
      have heq : sweepEndSt s e = afterSweep ({ s with idx := 0, left := 1, right := cfg.n - 1, centre := 0, dir := .l2r } : St α) (some e) := by
        have := h.right
        apply St.ext' <;> simp [sweepEndSt, afterSweep, h.left] <;> omega
      have hss : sweepComplete cfg (sweepEndSt s e) = sweepStep cfg ({ s with idx := 0, left := 1, right := cfg.n - 1, centre := 0, dir := .l2r } : St α) e := by
        rw [heq]; rfl
      rw [hss]
      refine ⟨hc, by simp, ?_, ?_⟩
      · rcases sweepStep_cases cfg _ e hs0 ht with ⟨_, hh⟩ | ⟨_, _, hh⟩ | ⟨_, _, _, hh⟩
        · left; rw [hh]
        · left; rw [hh]
        · right; exact hh
      · intro hnone
        exact (sweepStart_after cfg _ e hs0 ht hnone).inv (by omega)

end EmuVerif.Dmrg
