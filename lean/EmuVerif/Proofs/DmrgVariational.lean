/-
  The variational principle behind clause 1 of C09: for a symmetric (Hermitian) operator on a
  finite-dimensional complex inner-product space the Rayleigh quotient of *any* non-zero vector
  is at least the least eigenvalue. Built on Mathlib's
  `LinearMap.IsSymmetric.hasEigenvalue_iInf_of_finiteDimensional`.
-/
import Mathlib.Analysis.InnerProductSpace.Rayleigh

namespace EmuVerif.Dmrg

open Module.End

variable {E : Type*} [NormedAddCommGroup E] [InnerProductSpace ℂ E] [FiniteDimensional ℂ E]

/-- Rayleigh quotient `Re⟨Tx, x⟩ / ‖x‖²`. -/
noncomputable def rayleigh (T : E →ₗ[ℂ] E) (x : E) : ℝ := RCLike.re (inner ℂ (T x) x) / ‖x‖ ^ 2

/-- The exact ground energy: the infimum of the Rayleigh quotient over non-zero vectors. -/
noncomputable def groundEnergy (T : E →ₗ[ℂ] E) : ℝ := ⨅ x : { x : E // x ≠ 0 }, rayleigh T x

theorem rayleigh_bddBelow (T : E →ₗ[ℂ] E) :
    BddBelow (Set.range fun x : { x : E // x ≠ 0 } => rayleigh T x) := by
  refine ⟨-‖LinearMap.toContinuousLinearMap T‖, ?_⟩
  rintro _ ⟨x, rfl⟩
  have h := ContinuousLinearMap.rayleighQuotient_le_norm (LinearMap.toContinuousLinearMap T) (x : E)
  have : (LinearMap.toContinuousLinearMap T).rayleighQuotient (x : E) = rayleigh T x := by
    simp [ContinuousLinearMap.rayleighQuotient, ContinuousLinearMap.reApplyInnerSelf, rayleigh]
  rw [this] at h
  exact (abs_le.mp h).1

/-- Every non-zero vector has Rayleigh quotient at least the ground energy. -/
theorem groundEnergy_le_rayleigh (T : E →ₗ[ℂ] E) {x : E} (hx : x ≠ 0) :
    groundEnergy T ≤ rayleigh T x :=
  ciInf_le (rayleigh_bddBelow T) ⟨x, hx⟩

/-- The ground energy is an eigenvalue (Mathlib). -/
theorem groundEnergy_hasEigenvalue [Nontrivial E] {T : E →ₗ[ℂ] E} (hT : T.IsSymmetric) :
    HasEigenvalue T ((groundEnergy T : ℝ) : ℂ) :=
  hT.hasEigenvalue_iInf_of_finiteDimensional

/-- … and it is the least one. -/
theorem groundEnergy_le_eigenvalue (T : E →ₗ[ℂ] E) {ν : ℝ} (h : HasEigenvalue T (ν : ℂ)) :
    groundEnergy T ≤ ν := by
  obtain ⟨v, hv⟩ := h.exists_hasEigenvector
  have hne : v ≠ 0 := hv.2
  have hTv : T v = (ν : ℂ) • v := hv.apply_eq_smul
  have hnorm : (‖v‖ : ℝ) ^ 2 ≠ 0 := by positivity
  have : rayleigh T v = ν := by
    unfold rayleigh
    rw [hTv, inner_smul_left, inner_self_eq_norm_sq_to_K]
    simp only [Complex.conj_ofReal]
    have hre : ∀ z : ℂ, z = ((ν * ‖v‖ ^ 2 : ℝ) : ℂ) → RCLike.re z = ν * ‖v‖ ^ 2 := by
      rintro z rfl; exact Complex.ofReal_re _
    rw [hre _ (by push_cast; rfl)]
    field_simp
  rw [← this]
  exact groundEnergy_le_rayleigh T hne

end EmuVerif.Dmrg
