/-
  Bookkeeping lemmas for `Model.DoubleKrylov` (`block_diag`, the corner entry, the `[:size_s, size_s:]` slice, sizes of
  `lanczos`) and their reading as Mathlib block matrices.

  * `getM_blockDiag`, `shape_blockDiag`, `getM_bigMat`, `getM_sliceTR`         entries, Mathlib-free reasoning on arrays
  * `blk_bigMat`      read with index set `Fin a ⊕ Fin b`, `big_mat = [[Ts, c·e₀e₀ᵀ],[0, Tg]]` (`Matrix.fromBlocks`)
  * `sliceTR_eq_toBlocks₁₂`   the returned `dS` is the top-right block of whatever `matrix_exp` returned
  * `lanLoop_spec`    `lanczos` only raises `RecursionError`; `len(lanczos_vectors) = iters` (happy breakdown) or `iters + 1`
-/
import EmuVerif.Model.DoubleKrylov
import EmuVerif.Proofs.KrylovMat
import Mathlib.Data.Matrix.Block
import Mathlib.Data.Matrix.Basis

set_option linter.unusedSectionVars false
set_option linter.unusedVariables false

namespace EmuVerif.DoubleKrylov
open EmuVerif EmuVerif.Krylov

section arrays
variable {S : Type} [OfNat S 0]

theorem ncols_of_shape {n : Nat} {A : Mat S} (h : Shape n A) : ncols A = n := by
  unfold ncols
  by_cases hn : 0 < A.size
  · have := h.2 0 hn
    simp [Array.getD_eq_getD_getElem?, hn, this]
  · have h0 : A.size = 0 := by omega
    have : n = 0 := by rw [← h.1]; exact h0
    simp [Array.getD_eq_getD_getElem?, h0, this]

theorem getM_blockDiag (A B : Mat S) (i j : Nat) :
    getM (blockDiag A B) i j =
      if i < A.size + B.size ∧ j < ncols A + ncols B then
        (if i < A.size then (if j < ncols A then getM A i j else 0)
         else (if j < ncols A then 0 else getM B (i - A.size) (j - ncols A)))
      else 0 := by
  unfold blockDiag
  by_cases hi : i < A.size + B.size
  · by_cases hj : j < ncols A + ncols B
    · simp [getM, Array.getD_eq_getD_getElem?, hi, hj]
    · simp [getM, Array.getD_eq_getD_getElem?, hi, hj]
  · simp [getM, Array.getD_eq_getD_getElem?, hi]

theorem shape_blockDiag {a b : Nat} {A B : Mat S} (hA : Shape a A) (hB : Shape b B) :
    Shape (a + b) (blockDiag A B) := by
  have ha := ncols_of_shape hA
  have hb := ncols_of_shape hB
  refine ⟨by simp [blockDiag, hA.1, hB.1], ?_⟩
  intro i h
  simp [blockDiag, ha, hb]

/-- entries of `big_mat = block_diag(Ts, Tg); big_mat[0, size_s] = c` -/
theorem getM_bigMat {a b : Nat} {Ts Tg : Mat S} (hA : Shape a Ts) (hB : Shape b Tg) (ha : 0 < a) (hb : 0 < b) (c : S)
    (i j : Nat) (hi : i < a + b) (hj : j < a + b) :
    getM (bigMat Ts Tg a c) i j =
      if i = 0 ∧ j = a then c
      else if i < a ∧ j < a then getM Ts i j
      else if a ≤ i ∧ a ≤ j then getM Tg (i - a) (j - a)
      else 0 := by
  unfold bigMat
  rw [getM_setM (shape_blockDiag hA hB) (by omega) (by omega), getM_blockDiag, ncols_of_shape hA, ncols_of_shape hB,
    hA.1, hB.1]
  by_cases h0 : 0 = i ∧ a = j
  · obtain ⟨rfl, rfl⟩ := h0; simp
  · have h0' : ¬ (i = 0 ∧ j = a) := fun h => h0 ⟨h.1.symm, h.2.symm⟩
    rw [if_neg h0, if_neg h0', if_pos ⟨hi, hj⟩]
    by_cases hia : i < a <;> by_cases hja : j < a <;> simp [hia, hja]

theorem shape_bigMat {a b : Nat} {Ts Tg : Mat S} (hA : Shape a Ts) (hB : Shape b Tg) (c : S) :
    Shape (a + b) (bigMat Ts Tg a c) := shape_setM (shape_blockDiag hA hB) _ _ _

/-- `M[:r, c:]` entrywise -/
theorem getM_sliceTR {n : Nat} {M : Mat S} (hM : Shape n M) (r c i j : Nat) (hr : r ≤ n) (hi : i < r) (hj : c + j < n) :
    getM (sliceTR M r c) i j = getM M i (c + j) := by
  have hi' : i < M.size := by rw [hM.1]; omega
  have hrow : M[i].size = n := hM.2 i hi'
  simp [sliceTR, getM, Array.getD_eq_getD_getElem?, hi, hi', hrow, hj, Array.getElem?_extract]
  have hjc : j < n - c := by omega
  simp [hjc]

theorem shape_sliceM {N : Nat} {T : Mat S} (hT : Shape N T) (m : Nat) (hm : m ≤ N) : Shape m (sliceM T m) := by
  refine ⟨by simp [sliceM, hT.1, hm], ?_⟩
  intro i hi
  simp only [sliceM, Array.size_map, Array.size_extract, hT.1] at hi
  have hi' : i < T.size := by rw [hT.1]; omega
  have := hT.2 i hi'
  simp [sliceM, this, hm]

theorem getM_sliceM {N : Nat} {T : Mat S} (hT : Shape N T) (m i j : Nat) (hm : m ≤ N) (hi : i < m) (hj : j < m) :
    getM (sliceM T m) i j = getM T i j := by
  have hi' : i < T.size := by rw [hT.1]; omega
  have hrow : T[i].size = N := hT.2 i hi'
  have hjN : j < N := by omega
  simp [sliceM, getM, Array.getD_eq_getD_getElem?, hi, hi', hrow, hj, hjN]

end arrays

/-! ### reading as Mathlib matrices -/
section matrices
variable {S : Type} [Zero S]

/-- a square array as a matrix -/
def sq (n : Nat) (M : Mat S) : Matrix (Fin n) (Fin n) S := Matrix.of fun i j => getM M i.val j.val

/-- position of a block index in the concatenated index range -/
def pos (a : Nat) {b : Nat} : Fin a ⊕ Fin b → Nat := Sum.elim (fun i => i.val) (fun j => a + j.val)

/-- an `(a+b)`-square array read with row/column index set `Fin a ⊕ Fin b` -/
def blk (a b : Nat) (M : Mat S) : Matrix (Fin a ⊕ Fin b) (Fin a ⊕ Fin b) S :=
  Matrix.of fun i j => getM M (pos a i) (pos a j)

/-- the array `M[:a, a:]` as an `a × b` matrix -/
def rect (a b : Nat) (M : Mat S) : Matrix (Fin a) (Fin b) S := Matrix.of fun i j => getM M i.val j.val

/-- **`big_mat` is the block upper-triangular matrix `[[Ts, c·e₀e₀ᵀ],[0, Tg]]`** -/
theorem blk_bigMat {a b : Nat} {Ts Tg : Mat S} (hA : Shape a Ts) (hB : Shape b Tg) (ha : 0 < a) (hb : 0 < b) (c : S) :
    blk a b (bigMat Ts Tg a c)
      = Matrix.fromBlocks (sq a Ts) (Matrix.single ⟨0, ha⟩ ⟨0, hb⟩ c) 0 (sq b Tg) := by
  ext i j
  rcases i with i | i <;> rcases j with j | j
  · have := getM_bigMat hA hB ha hb c i.val j.val (by omega) (by omega)
    simp only [blk, pos, Matrix.of_apply, Sum.elim_inl, Matrix.fromBlocks_apply₁₁, sq, this]
    have hj : ¬ (j.val = a) := by omega
    simp [hj, i.isLt, j.isLt]
  · have := getM_bigMat hA hB ha hb c i.val (a + j.val) (by omega) (by omega)
    simp only [blk, pos, Matrix.of_apply, Sum.elim_inl, Sum.elim_inr, Matrix.fromBlocks_apply₁₂, this, Matrix.single_apply]
    by_cases h : i.val = 0 ∧ j.val = 0
    · have hi : (⟨0, ha⟩ : Fin a) = i := Fin.ext h.1.symm
      have hj : (⟨0, hb⟩ : Fin b) = j := Fin.ext h.2.symm
      simp [h.1, h.2, hi, hj]
    · have h' : ¬ ((⟨0, ha⟩ : Fin a) = i ∧ (⟨0, hb⟩ : Fin b) = j) := by
        intro hh; exact h ⟨(congrArg Fin.val hh.1).symm, (congrArg Fin.val hh.2).symm⟩
      have h1 : ¬ (i.val = 0 ∧ a + j.val = a) := by intro hh; exact h ⟨hh.1, by omega⟩
      have h2 : ¬ (i.val < a ∧ a + j.val < a) := by omega
      have h3 : ¬ (a ≤ i.val ∧ a ≤ a + j.val) := by omega
      rw [if_neg h1, if_neg h2, if_neg h3, if_neg h']
  · have := getM_bigMat hA hB ha hb c (a + i.val) j.val (by omega) (by omega)
    simp only [blk, pos, Matrix.of_apply, Sum.elim_inl, Sum.elim_inr, Matrix.fromBlocks_apply₂₁, this, Matrix.zero_apply]
    have h1 : ¬ (a + i.val = 0 ∧ j.val = a) := by omega
    have h2 : ¬ (a + i.val < a ∧ j.val < a) := by omega
    have h3 : ¬ (a ≤ a + i.val ∧ a ≤ j.val) := by omega
    rw [if_neg h1, if_neg h2, if_neg h3]
  · have := getM_bigMat hA hB ha hb c (a + i.val) (a + j.val) (by omega) (by omega)
    simp only [blk, pos, Matrix.of_apply, Sum.elim_inr, Matrix.fromBlocks_apply₂₂, sq, this]
    have h1 : ¬ (a + i.val = 0 ∧ a + j.val = a) := by omega
    have h2 : ¬ (a + i.val < a ∧ a + j.val < a) := by omega
    have h3 : a ≤ a + i.val ∧ a ≤ a + j.val := by omega
    rw [if_neg h1, if_neg h2, if_pos h3]
    simp

/-- **the returned `dS = X[:size_s, size_s:]` is the top-right block of `X`** -/
theorem sliceTR_eq_toBlocks₁₂ {a b : Nat} {X : Mat S} (hX : Shape (a + b) X) :
    rect a b (sliceTR X a a) = (blk a b X).toBlocks₁₂ := by
  ext i j
  have := getM_sliceTR hX a a i.val j.val (by omega) i.isLt (by omega)
  simp [rect, blk, pos, Matrix.toBlocks₁₂, this]

end matrices

/-! ### `lanczos`: exceptions and sizes -/
section lanczos
variable {S R V : Type} [OfNat S 0] [OfNat S 1] [Mul S]
variable [LT R] [DecidableLT R] [Sub R] [Mul R] [Div R]

theorem mgs_foldl_length (O : VecOps S R V) (ql : List V) (acc : V × List S) :
    (ql.foldl (mgsStep O) acc).2.length = acc.2.length + ql.length := by
  induction ql generalizing acc with
  | nil => simp
  | cons q ql ih => simp [List.foldl_cons, ih, mgsStep]; omega

theorem mgs_length (O : VecOps S R V) (ql : List V) (w : V) : (mgs O ql w).2.length = ql.length := by
  simp [mgs, mgs_foldl_length]

theorem iterVals_shape (O : VecOps S R V) (cfg : ExpCfg R) (hc : cfg.isHermitian = true) {n : Nat} (j : Nat)
    (st : ExpSt S R V) (hlen : st.qs.length = j + 1) (hT : Shape n st.T) (hj : j + 1 ≤ n) :
    Shape n (iterVals O cfg j st).T := by
  unfold iterVals
  simp only
  apply shape_setM
  apply shape_writeCol hT (by omega)
  rw [mgs_length, List.length_drop, hlen]
  simp only [kStart, hc, if_true]
  omega

/-- one iteration of `lanczos` and one of `krylov_exp_impl` took the same branch and agree on everything they share -/
def IterAgree : LanOut S R V → StepOut S R V → Prop
  | .done r, .done r' => r'.converged = true ∧ r'.iterationCount = r.iters ∧ r'.happyBreakdown = r.happy
      ∧ r.T = sliceM r'.ghost.T r.qs.length ∧ r'.ghost.opCalls = r.opCalls
  | .cont s, .cont s' => s = s'
  | _, _ => False

/-- **`lanczos`' loop body is `krylov_exp_impl`'s** (Hermitian branch, both tolerances equal): same branch taken, same ghost
`T`, same iteration count and breakdown flag, same next state; `lanczos` additionally returns the vectors and the slice -/
theorem lanIter_eq_expIter (O : VecOps S R V) (mexp : Nat → Mat S → Mat S) (tol : R) (maxDim : Nat) (n0 : R) (j : Nat)
    (st : ExpSt S R V) :
    IterAgree (lanIter O mexp tol maxDim j st) (expIter O mexp (lanCfg tol maxDim) n0 j st) := by
  unfold lanIter expIter
  simp only [show (lanCfg tol maxDim).expTol = tol from rfl]
  split_ifs with hb he
  · simp [IterAgree, breakdownResult]
  · simp [IterAgree, convergedResult]
  · simp [IterAgree]

theorem lanIter_spec (O : VecOps S R V) (mexp : Nat → Mat S → Mat S) (tol : R) (maxDim : Nat) (j : Nat)
    (st : ExpSt S R V) (hlen : st.qs.length = j + 1) :
    match lanIter O mexp tol maxDim j st with
    | .done r => r.qs.length = (if r.happy then r.iters else r.iters + 1) ∧ r.iters = j + 1
    | .cont st' => st'.qs.length = j + 1 + 1 := by
  unfold lanIter
  simp only
  split_ifs with hb he
  · simp [hlen]
  · simp [extVals, hlen]
  · simp [nextSt, extVals, hlen]

theorem lanLoop_spec (O : VecOps S R V) (mexp : Nat → Mat S → Mat S) (tol : R) (maxDim : Nat) :
    ∀ (fuel j : Nat) (st : ExpSt S R V), st.qs.length = j + 1 →
      match lanLoop O mexp tol maxDim fuel j st with
      | .error e => e = Err.recursion
      | .ok r => r.qs.length = (if r.happy then r.iters else r.iters + 1) ∧ j < r.iters ∧ r.iters ≤ j + fuel := by
  intro fuel
  induction fuel with
  | zero => intro j st _; simp [lanLoop]
  | succ fuel ih =>
    intro j st hlen
    have hs := lanIter_spec O mexp tol maxDim j st hlen
    unfold lanLoop
    cases hit : lanIter O mexp tol maxDim j st with
    | done r =>
      rw [hit] at hs
      simp only
      exact ⟨hs.1, by omega, by omega⟩
    | cont st' =>
      rw [hit] at hs
      simp only
      have := ih (j + 1) st' hs
      revert this
      cases lanLoop O mexp tol maxDim fuel (j + 1) st' with
      | error e => exact id
      | ok r => intro h; exact ⟨h.1, by omega, by omega⟩

/-- `lanczos` raises nothing but `RecursionError`; on return `1 ≤ len(lanczos_vectors) = iters (+1) ≤ max_krylov_dim + 1` -/
theorem lanczos_spec (O : VecOps S R V) (mexp : Nat → Mat S → Mat S) (tol : R) (maxDim : Nat) (v : V) :
    match lanczos O mexp tol maxDim v with
    | .error e => e = Err.recursion
    | .ok r => r.qs.length = (if r.happy then r.iters else r.iters + 1) ∧ 0 < r.iters ∧ r.iters ≤ maxDim := by
  have := lanLoop_spec O mexp tol maxDim maxDim 0 (expInit O (lanCfg tol maxDim) v) (by simp [expInit])
  unfold lanczos
  revert this
  cases lanLoop O mexp tol maxDim maxDim 0 (expInit O (lanCfg tol maxDim) v) with
  | error e => exact id
  | ok r => intro h; exact ⟨h.1, h.2.1, by omega⟩

theorem lanIter_shape (O : VecOps S R V) (mexp : Nat → Mat S → Mat S) (tol : R) (maxDim : Nat) (j : Nat)
    (st : ExpSt S R V) (hlen : st.qs.length = j + 1) (hT : Shape (maxDim + 2) st.T) (hj : j < maxDim) :
    match lanIter O mexp tol maxDim j st with
    | .done r => Shape r.qs.length r.T
    | .cont st' => Shape (maxDim + 2) st'.T := by
  have hiv := iterVals_shape O (lanCfg tol maxDim) rfl j st hlen hT (by omega)
  unfold lanIter
  simp only
  split_ifs with hb he
  · simp only
    exact shape_sliceM hiv _ (by omega)
  · simp only [extVals]
    refine shape_sliceM (shape_setM hiv _ _ _) _ ?_
    simp [hlen]; omega
  · simp only [nextSt, extVals]
    exact shape_setM hiv _ _ _

theorem lanLoop_shape (O : VecOps S R V) (mexp : Nat → Mat S → Mat S) (tol : R) (maxDim : Nat) :
    ∀ (fuel j : Nat) (st : ExpSt S R V), st.qs.length = j + 1 → Shape (maxDim + 2) st.T → j + fuel ≤ maxDim →
      ∀ r, lanLoop O mexp tol maxDim fuel j st = .ok r → Shape r.qs.length r.T := by
  intro fuel
  induction fuel with
  | zero => intro j st _ _ _ r h; simp [lanLoop] at h
  | succ fuel ih =>
    intro j st hlen hT hj r h
    have hs := lanIter_spec O mexp tol maxDim j st hlen
    have hsh := lanIter_shape O mexp tol maxDim j st hlen hT (by omega)
    unfold lanLoop at h
    cases hit : lanIter O mexp tol maxDim j st with
    | done r' =>
      rw [hit] at h hsh
      simp only [Except.ok.injEq] at h
      subst h
      exact hsh
    | cont st' =>
      rw [hit] at h hs hsh
      exact ih (j + 1) st' hs hsh (by omega) r h

/-- the `T` returned by `lanczos` is square of size `len(lanczos_vectors)` -/
theorem lanczos_shape (O : VecOps S R V) (mexp : Nat → Mat S → Mat S) (tol : R) (maxDim : Nat) (v : V)
    (r : LanResult S V) (h : lanczos O mexp tol maxDim v = .ok r) : Shape r.qs.length r.T :=
  lanLoop_shape O mexp tol maxDim maxDim 0 _ (by simp [expInit]) (by simpa [expInit, lanCfg] using shape_zerosM (S := S) (maxDim + 2)) (by omega) r h

end lanczos
end EmuVerif.DoubleKrylov
