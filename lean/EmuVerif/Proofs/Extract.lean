/-
  Lemmas about `Model.Extract`: the knots `0 … T-1`, the mid-points, `evalAll`, the clamp and
  the per-qubit column loop.
-/
import EmuVerif.Model.Extract
import EmuVerif.Proofs.PchipEval
import Mathlib.Data.Nat.Cast.Order.Ring

set_option linter.unusedSectionVars false
set_option linter.unusedVariables false

namespace EmuVerif.Extract
open EmuVerif EmuVerif.Pchip
variable {α : Type} [Field α] [LinearOrder α] [IsStrictOrderedRing α]

theorem natScalar_eq_cast (k : Nat) : (natScalar k : α) = (k : α) := by
  induction k with
  | zero => simp [natScalar]
  | succ k ih => simp [natScalar, ih]

theorem length_knots (T : Nat) : (knots T : List α).length = T := by simp [knots]

theorem knots_getElem? {T i : Nat} (h : i < T) : (knots T : List α)[i]? = some (i : α) := by
  simp [knots, List.getElem?_range h, natScalar_eq_cast]

theorem knots_sorted (T : Nat) : (knots T : List α).Pairwise (· < ·) := by
  rw [List.pairwise_iff_getElem]
  intro i j hi hj hij
  rw [length_knots] at hi hj
  have a := knots_getElem? (α := α) hi
  have b := knots_getElem? (α := α) hj
  rw [List.getElem?_eq_getElem (by rw [length_knots]; exact hi)] at a
  rw [List.getElem?_eq_getElem (by rw [length_knots]; exact hj)] at b
  rw [Option.some.inj a, Option.some.inj b]
  exact_mod_cast hij

theorem length_midpoints (t : List α) : (midpoints t).length = t.length - 1 := by
  simp [midpoints]

theorem midpoints_getElem? {t : List α} {k : Nat} {a b : α} (h0 : t[k]? = some a) (h1 : t[k + 1]? = some b) :
    (midpoints t)[k]? = some ((1 / 2) * (a + b)) := by
  simp [midpoints, List.getElem?_zipWith, h0, h1]

/-- `evalAll` evaluates point-wise. -/
theorem evalAll_spec {P : Interp α} : ∀ {qs vs : List α}, evalAll P qs = some vs →
    vs.length = qs.length ∧ ∀ (k : Nat) (q : α), qs[k]? = some q → ∃ v, P.eval q = some v ∧ vs[k]? = some v := by
  intro qs
  induction qs with
  | nil =>
    intro vs h
    simp only [evalAll] at h
    cases h
    exact ⟨rfl, fun k q hq => by simp at hq⟩
  | cons q qs ih =>
    intro vs h
    simp only [evalAll] at h
    cases hv : P.eval q with
    | none => rw [hv] at h; simp at h
    | some v =>
      cases hr : evalAll P qs with
      | none => rw [hv, hr] at h; simp at h
      | some r =>
        rw [hv, hr] at h
        simp only [Option.some.injEq] at h
        subst h
        obtain ⟨hl, hk⟩ := ih hr
        refine ⟨by simp [hl], ?_⟩
        intro k q' hq'
        cases k with
        | zero =>
          simp only [List.getElem?_cons_zero, Option.some.injEq] at hq'
          subst hq'
          exact ⟨v, hv, by simp⟩
        | succ k =>
          simp only [List.getElem?_cons_succ] at hq' ⊢
          exact hk k q' hq'

theorem evalAll_isSome {P : Interp α} : ∀ {qs : List α}, (∀ q ∈ qs, ∃ v, P.eval q = some v) →
    ∃ vs, evalAll P qs = some vs := by
  intro qs
  induction qs with
  | nil => intro _; exact ⟨[], rfl⟩
  | cons q qs ih =>
    intro h
    obtain ⟨v, hv⟩ := h q (by simp)
    obtain ⟨vs, hvs⟩ := ih (fun q' hq' => h q' (by simp [hq']))
    exact ⟨v :: vs, by simp [evalAll, hv, hvs]⟩

theorem clampCol_nonneg (v : List α) : ∀ a ∈ clampCol v, 0 ≤ a := by
  intro a ha
  simp only [clampCol, List.mem_map] at ha
  obtain ⟨b, _, rfl⟩ := ha
  split
  · exact le_of_lt ‹_›
  · exact le_rfl

theorem clampCol_getElem? {v : List α} {k : Nat} {a : α} (h : v[k]? = some a) :
    (clampCol v)[k]? = some (if 0 < a then a else 0) := by
  simp [clampCol, h]

/-- What a successful column loop returns: one `column` per qubit, in order. -/
theorem columnsOf_ok {k : Kind} {atol : α} {T : Nat} {tt : List α} :
    ∀ {qs : List (QS α)} {cols : List (List α)}, columnsOf k atol T tt qs = .ok cols →
      List.Forall₂ (fun q c => imagOk atol (k.im q) = true ∧ column k T (k.re q) tt = some c) qs cols := by
  intro qs
  induction qs with
  | nil =>
    intro cols h
    simp only [columnsOf] at h
    cases h
    exact List.Forall₂.nil
  | cons q qs ih =>
    intro cols h
    simp only [columnsOf] at h
    by_cases him : imagOk atol (k.im q) = true
    swap
    · simp [him] at h
    simp only [him, Bool.not_true, Bool.false_eq_true, if_false] at h
    cases hc : column k T (k.re q) tt with
    | none => rw [hc] at h; simp at h
    | some c =>
      rw [hc] at h
      cases hr : columnsOf k atol T tt qs with
      | error e => rw [hr] at h; simp [Except.map] at h
      | ok r =>
        rw [hr] at h
        simp only [Except.map, Except.ok.injEq] at h
        subst h
        exact List.Forall₂.cons ⟨him, hc⟩ (ih hr)

end EmuVerif.Extract
