/-
  Algebra behind `emu_base/math/double_krylov.py` and `EvolveStateVector.backward` (C30): powers of a block-triangular
  matrix, the first-order term of `(A + tE)^k`, intertwining with a Krylov basis, cyclicity under the trace.

  Everything in this file is *finite* algebra (no limits): entries in an arbitrary (non-commutative) semiring / ring.
  The exponential level is `Proofs/FrechetExp.lean`.

  * `dpow A E B k`  — `D_0 = 0`, `D_{k+1} = A·D_k + E·B^k`  (rectangular: `A : n×n`, `E : n×m`, `B : m×m`)
  * `fromBlocks_pow`  `[[A,E],[0,B]]^k = [[A^k, D_k],[0, B^k]]`
  * `dpow_eq_sum`     `D_k = Σ_{j<k} A^j E B^{k-1-j}`
  * `dpow_intertwine` `A Va = Va Ta`, `Wb A = Tb Wb`  ⇒  `D_k(A, Va E' Wb, A) = Va D_k(Ta, E', Tb) Wb`
  * `trace_mul_dpow`  `tr(X · D_k(A,E,A)) = tr(D_k(A,X,A) · E)` (commutative entries)
  * ring version `rdpow a e b k` with the same recursion in any ring `S`; `add_smul_pow` : for a central scalar `t`,
    `(a + t•e)^k = a^k + t • D_k(a,e,a) + t² • R_k(t)` with an explicit polynomial remainder `rrem`; dual numbers:
    `(a + ε e)^k = a^k + ε D_k(a,e,a)` in `TrivSqZeroExt S S`.
-/
import Mathlib.Data.Matrix.Block
import Mathlib.Data.Matrix.Basis
import Mathlib.LinearAlgebra.Matrix.Trace
import Mathlib.Algebra.BigOperators.Intervals
import Mathlib.Algebra.TrivSqZeroExt.Basic
import Mathlib.Algebra.Algebra.Defs

set_option linter.unusedSectionVars false

namespace EmuVerif.Frechet
open Matrix

/-! ### ring version -/
section ring
variable {S : Type*} [Semiring S]

/-- `D_0 = 0`, `D_{k+1} = a·D_k + e·b^k` -/
def rdpow (a e b : S) : ℕ → S
  | 0 => 0
  | k + 1 => a * rdpow a e b k + e * b ^ k

@[simp] theorem rdpow_zero (a e b : S) : rdpow a e b 0 = 0 := rfl
theorem rdpow_succ (a e b : S) (k : ℕ) : rdpow a e b (k + 1) = a * rdpow a e b k + e * b ^ k := rfl

/-- closed form `D_k = Σ_{j<k} a^j e b^{k-1-j}` -/
theorem rdpow_eq_sum (a e b : S) (k : ℕ) :
    rdpow a e b k = ∑ j ∈ Finset.range k, a ^ j * e * b ^ (k - 1 - j) := by
  induction k with
  | zero => simp
  | succ k ih =>
    rw [rdpow_succ, ih, Finset.sum_range_succ', Finset.mul_sum]
    congr 1
    · refine Finset.sum_congr rfl fun j hj => ?_
      have hj' : j < k := Finset.mem_range.mp hj
      have : k + 1 - 1 - (j + 1) = k - 1 - j := by omega
      rw [this, pow_succ', mul_assoc, mul_assoc, mul_assoc]
    · simp

/-- the other recursion: `D_{k+1} = a^k·e + D_k·b` -/
theorem rdpow_succ' (a e b : S) (k : ℕ) : rdpow a e b (k + 1) = a ^ k * e + rdpow a e b k * b := by
  induction k with
  | zero => simp [rdpow_succ]
  | succ k ih =>
    calc rdpow a e b (k + 1 + 1) = a * rdpow a e b (k + 1) + e * b ^ (k + 1) := rfl
      _ = a * (a ^ k * e + rdpow a e b k * b) + e * b ^ (k + 1) := by rw [ih]
      _ = a ^ (k + 1) * e + (a * rdpow a e b k + e * b ^ k) * b := by
          rw [mul_add, add_mul, pow_succ' a k, pow_succ b k]; simp only [mul_assoc, add_assoc]
      _ = a ^ (k + 1) * e + rdpow a e b (k + 1) * b := rfl

/-- `D_k` is additive in the direction -/
theorem rdpow_add (a e e' b : S) (k : ℕ) : rdpow a (e + e') b k = rdpow a e b k + rdpow a e' b k := by
  induction k with
  | zero => simp
  | succ k ih => rw [rdpow_succ, rdpow_succ, rdpow_succ, ih, mul_add, add_mul]; abel

/-- explicit second-order remainder of `(a + t•e)^k`: `R_0 = 0`, `R_{k+1} = e·D_k + (a + t•e)·R_k` -/
def rrem {K : Type*} [CommSemiring K] [Algebra K S] (t : K) (a e : S) : ℕ → S
  | 0 => 0
  | k + 1 => e * rdpow a e a k + (a + t • e) * rrem t a e k

/-- **`D_k(a, e, a)` is the directional derivative of `x ↦ x^k` at `a` along `e`** (polynomial sense, explicit
remainder): for every scalar `t`, `(a + t•e)^k = a^k + t • D_k + t² • R_k(t)`, `R_k` a polynomial in `t, a, e`. -/
theorem add_smul_pow {K : Type*} [CommSemiring K] [Algebra K S] (t : K) (a e : S) (k : ℕ) :
    (a + t • e) ^ k = a ^ k + t • rdpow a e a k + (t * t) • rrem t a e k := by
  induction k with
  | zero => simp [rrem]
  | succ k ih =>
    have h1 : (a + t • e) * a ^ k = a ^ (k + 1) + t • (e * a ^ k) := by
      rw [add_mul, smul_mul_assoc, pow_succ']
    have h2 : (a + t • e) * (t • rdpow a e a k) = t • (a * rdpow a e a k) + (t * t) • (e * rdpow a e a k) := by
      rw [add_mul, smul_mul_assoc, mul_smul_comm, mul_smul_comm, smul_smul]
    have h3 : (a + t • e) * ((t * t) • rrem t a e k) = (t * t) • ((a + t • e) * rrem t a e k) := by
      rw [mul_smul_comm]
    rw [pow_succ', ih, mul_add, mul_add, h1, h2, h3, rdpow_succ, rrem, smul_add, smul_add]
    abel

end ring

/-! ### dual numbers: `(a + ε e)^k = a^k + ε D_k(a, e, a)` -/
section dual
variable {S : Type*} [Semiring S]
open TrivSqZeroExt

theorem dual_pow (a e : S) (k : ℕ) :
    ((inl a + inr e : TrivSqZeroExt S S)) ^ k = inl (a ^ k) + inr (rdpow a e a k) := by
  induction k with
  | zero => simp
  | succ k ih =>
    rw [pow_succ', ih]
    ext
    · simp [pow_succ']
    · simp [rdpow_succ, add_comm]

end dual

/-! ### rectangular matrix version -/
section matrix
variable {R : Type*} [Semiring R] {n m p q : Type*} [Fintype n] [Fintype m] [Fintype p] [Fintype q]
  [DecidableEq n] [DecidableEq m] [DecidableEq p] [DecidableEq q]

/-- `D_0 = 0`, `D_{k+1} = A·D_k + E·B^k` -/
def dpow (A : Matrix n n R) (E : Matrix n m R) (B : Matrix m m R) : ℕ → Matrix n m R
  | 0 => 0
  | k + 1 => A * dpow A E B k + E * B ^ k

@[simp] theorem dpow_zero (A : Matrix n n R) (E : Matrix n m R) (B : Matrix m m R) : dpow A E B 0 = 0 := rfl
theorem dpow_succ (A : Matrix n n R) (E : Matrix n m R) (B : Matrix m m R) (k : ℕ) :
    dpow A E B (k + 1) = A * dpow A E B k + E * B ^ k := rfl

/-- **powers of a block upper-triangular matrix**: `[[A,E],[0,B]]^k = [[A^k, D_k],[0, B^k]]` -/
theorem fromBlocks_pow (A : Matrix n n R) (E : Matrix n m R) (B : Matrix m m R) (k : ℕ) :
    (fromBlocks A E 0 B) ^ k = fromBlocks (A ^ k) (dpow A E B k) 0 (B ^ k) := by
  induction k with
  | zero => simp [fromBlocks_one]
  | succ k ih => rw [pow_succ', ih, fromBlocks_multiply]; simp [dpow_succ, pow_succ']

/-- closed form `D_k = Σ_{j<k} A^j E B^{k-1-j}` -/
theorem dpow_eq_sum (A : Matrix n n R) (E : Matrix n m R) (B : Matrix m m R) (k : ℕ) :
    dpow A E B k = ∑ j ∈ Finset.range k, A ^ j * E * B ^ (k - 1 - j) := by
  induction k with
  | zero => simp
  | succ k ih =>
    rw [dpow_succ, ih, Finset.sum_range_succ', Matrix.mul_sum]
    congr 1
    · refine Finset.sum_congr rfl fun j hj => ?_
      have hj' : j < k := Finset.mem_range.mp hj
      have : k + 1 - 1 - (j + 1) = k - 1 - j := by omega
      rw [this, pow_succ', Matrix.mul_assoc, Matrix.mul_assoc, Matrix.mul_assoc]
    · simp

/-- the other recursion: `D_{k+1} = A^k·E + D_k·B` -/
theorem dpow_succ' (A : Matrix n n R) (E : Matrix n m R) (B : Matrix m m R) (k : ℕ) :
    dpow A E B (k + 1) = A ^ k * E + dpow A E B k * B := by
  induction k with
  | zero => simp [dpow_succ]
  | succ k ih =>
    calc dpow A E B (k + 1 + 1) = A * dpow A E B (k + 1) + E * B ^ (k + 1) := rfl
      _ = A * (A ^ k * E + dpow A E B k * B) + E * B ^ (k + 1) := by rw [ih]
      _ = A ^ (k + 1) * E + (A * dpow A E B k + E * B ^ k) * B := by
          rw [Matrix.mul_add, Matrix.add_mul, pow_succ' A k, pow_succ B k]
          simp only [Matrix.mul_assoc, add_assoc]
      _ = A ^ (k + 1) * E + dpow A E B (k + 1) * B := rfl

/-- on square blocks the matrix version is the ring version in the ring `Matrix n n R` -/
theorem dpow_eq_rdpow (A E B : Matrix n n R) (k : ℕ) : dpow A E B k = rdpow A E B k := by
  induction k with
  | zero => rfl
  | succ k ih => rw [dpow_succ, rdpow_succ, ih]

theorem dpow_add (A : Matrix n n R) (E E' : Matrix n m R) (B : Matrix m m R) (k : ℕ) :
    dpow A (E + E') B k = dpow A E B k + dpow A E' B k := by
  induction k with
  | zero => simp
  | succ k ih => rw [dpow_succ, dpow_succ, dpow_succ, ih, Matrix.mul_add, Matrix.add_mul]; abel

/-! #### intertwining with a (Krylov) basis -/

theorem pow_intertwine_right {A : Matrix n n R} {V : Matrix n p R} {T : Matrix p p R} (h : A * V = V * T) (j : ℕ) :
    A ^ j * V = V * T ^ j := by
  induction j with
  | zero => simp
  | succ j ih => rw [pow_succ', Matrix.mul_assoc, ih, ← Matrix.mul_assoc, h, Matrix.mul_assoc, ← pow_succ']

theorem pow_intertwine_left {A : Matrix n n R} {W : Matrix q n R} {T : Matrix q q R} (h : W * A = T * W) (j : ℕ) :
    W * A ^ j = T ^ j * W := by
  induction j with
  | zero => simp
  | succ j ih => rw [pow_succ, ← Matrix.mul_assoc, ih, Matrix.mul_assoc, h, ← Matrix.mul_assoc, ← pow_succ]

/-- **Krylov compression of `D_k`**: if `A V = V Ta` and `W A = Tb W` then for a direction supported on the two bases,
`D_k(A, V E' W, A) = V · D_k(Ta, E', Tb) · W`. -/
theorem dpow_intertwine {A : Matrix n n R} {V : Matrix n p R} {Ta : Matrix p p R} {W : Matrix q n R}
    {Tb : Matrix q q R} (hV : A * V = V * Ta) (hW : W * A = Tb * W) (E' : Matrix p q R) (k : ℕ) :
    dpow A (V * E' * W) A k = V * dpow Ta E' Tb k * W := by
  induction k with
  | zero => simp
  | succ k ih =>
    rw [dpow_succ, dpow_succ, ih, Matrix.mul_add, Matrix.add_mul]
    congr 1
    · rw [← Matrix.mul_assoc, ← Matrix.mul_assoc, hV, Matrix.mul_assoc V Ta]
    · rw [Matrix.mul_assoc (V * E') W, pow_intertwine_left hW k]
      simp only [Matrix.mul_assoc]

/-- entry of `V · (c at (i0, j0)) · W` -/
theorem mul_single_mul_apply {n' : Type*} [Fintype n'] (V : Matrix n p R) (W : Matrix q n' R) (i0 : p) (j0 : q) (c : R)
    (x : n) (y : n') : (V * single i0 j0 c * W) x y = V x i0 * c * W j0 y := by
  rw [Matrix.mul_apply, Finset.sum_eq_single j0]
  · rw [mul_single_apply_same]
  · intro j _ hj; rw [mul_single_apply_of_ne _ _ _ _ _ hj, zero_mul]
  · intro h; exact absurd (Finset.mem_univ j0) h

end matrix

/-! ### cyclicity under the trace (commutative entries) -/
section trace
variable {R : Type*} [CommSemiring R] {n m : Type*} [Fintype n] [Fintype m] [DecidableEq n] [DecidableEq m]

/-- `tr(X · D_k(A, E, B)) = tr(D_k(B, X, A) · E)`: the direction and the "weight" can be exchanged under the trace
(the step `⟨g| dU(H, ∂H) |ψ⟩ = Tr(∂H · dU(H, |ψ⟩⟨g|))` of `EvolveStateVector.backward`, at the level of powers). -/
theorem trace_mul_dpow (A : Matrix n n R) (B : Matrix m m R) (E : Matrix n m R) (X : Matrix m n R) (k : ℕ) :
    trace (X * dpow A E B k) = trace (dpow B X A k * E) := by
  rw [dpow_eq_sum, dpow_eq_sum, Matrix.mul_sum, Matrix.sum_mul, trace_sum, trace_sum,
    ← Finset.sum_range_reflect (fun j => trace (B ^ j * X * A ^ (k - 1 - j) * E)) k]
  refine Finset.sum_congr rfl fun j hj => ?_
  have hj' : j < k := Finset.mem_range.mp hj
  have : k - 1 - (k - 1 - j) = j := by omega
  rw [this, ← Matrix.mul_assoc, ← Matrix.mul_assoc, trace_mul_comm (X * A ^ j * E) (B ^ (k - 1 - j))]
  simp only [Matrix.mul_assoc]

end trace
end EmuVerif.Frechet
