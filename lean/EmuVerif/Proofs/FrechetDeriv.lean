/-
  The non-commuting derivative of the exponential: in a complete normed `ℂ`-algebra,
    `exp (a + t•e) = exp a + t • L + t² • S(t)`,  `L = Σ_k D_k(a,e,a)/k!`,  `‖S(t)‖ ≤ exp(3(‖a‖+‖e‖))` for `|t| ≤ 1`,
  hence `HasDerivAt (fun t => exp (a + t•e)) L 0` (Mathlib's `hasFDerivAt_exp` covers commuting algebras only).
  For complex matrices (operator norm) `L = expBlock A E A`.
-/
import EmuVerif.Proofs.FrechetExp
import Mathlib.Analysis.Calculus.Deriv.Basic
import Mathlib.Analysis.SpecialFunctions.Exponential
import Mathlib.Analysis.Calculus.Deriv.Comp
import Mathlib.Analysis.Complex.RealDeriv

set_option linter.unusedSectionVars false

namespace EmuVerif.Frechet
open NormedSpace
open scoped Nat Topology

section banach
variable {𝔸 : Type*} [NormedRing 𝔸] [NormedAlgebra ℂ 𝔸] [CompleteSpace 𝔸]

theorem norm_mul_pow_le (e a : 𝔸) (k : ℕ) : ‖e * a ^ k‖ ≤ ‖e‖ * ‖a‖ ^ k := by
  induction k with
  | zero => simp
  | succ k ih =>
    rw [pow_succ, ← mul_assoc, pow_succ, ← mul_assoc]
    exact (norm_mul_le _ _).trans (mul_le_mul_of_nonneg_right ih (norm_nonneg a))

theorem norm_rdpow_le (a e : 𝔸) (c : ℝ) (ha : ‖a‖ ≤ c) (he : ‖e‖ ≤ c) (k : ℕ) : ‖rdpow a e a k‖ ≤ (2 * c) ^ k := by
  have hc : 0 ≤ c := le_trans (norm_nonneg a) ha
  induction k with
  | zero => simp
  | succ k ih =>
    have h1 : ‖a * rdpow a e a k‖ ≤ c * (2 * c) ^ k :=
      (norm_mul_le _ _).trans (mul_le_mul ha ih (norm_nonneg _) hc)
    have h2 : ‖e * a ^ k‖ ≤ c * (2 * c) ^ k := by
      refine (norm_mul_pow_le e a k).trans (mul_le_mul he ?_ (pow_nonneg (norm_nonneg a) k) hc)
      exact pow_le_pow_left₀ (norm_nonneg a) (ha.trans (by linarith)) k
    rw [rdpow_succ]
    calc ‖a * rdpow a e a k + e * a ^ k‖ ≤ c * (2 * c) ^ k + c * (2 * c) ^ k := (norm_add_le _ _).trans (add_le_add h1 h2)
      _ = (2 * c) ^ (k + 1) := by ring

theorem norm_rrem_le (t : ℂ) (a e : 𝔸) (c : ℝ) (ha : ‖a‖ ≤ c) (he : ‖e‖ ≤ c) (hb : ‖a + t • e‖ ≤ c) (k : ℕ) :
    ‖rrem t a e k‖ ≤ (3 * c) ^ k := by
  have hc : 0 ≤ c := le_trans (norm_nonneg a) ha
  induction k with
  | zero => simp [rrem]
  | succ k ih =>
    have h1 : ‖e * rdpow a e a k‖ ≤ c * (3 * c) ^ k := by
      refine (norm_mul_le _ _).trans (mul_le_mul he ((norm_rdpow_le a e c ha he k).trans ?_) (norm_nonneg _) hc)
      exact pow_le_pow_left₀ (by linarith) (by linarith) k
    have h2 : ‖(a + t • e) * rrem t a e k‖ ≤ c * (3 * c) ^ k :=
      (norm_mul_le _ _).trans (mul_le_mul hb ih (norm_nonneg _) hc)
    have h3 : 0 ≤ c * (3 * c) ^ k := mul_nonneg hc (pow_nonneg (by linarith) k)
    rw [rrem]
    calc ‖e * rdpow a e a k + (a + t • e) * rrem t a e k‖ ≤ c * (3 * c) ^ k + c * (3 * c) ^ k :=
          (norm_add_le _ _).trans (add_le_add h1 h2)
      _ ≤ (3 * c) ^ (k + 1) := by rw [pow_succ]; nlinarith

/-- summability of a series dominated by `C^k / k!` -/
theorem summable_of_norm_le_pow (f : ℕ → 𝔸) (C : ℝ) (h : ∀ k, ‖f k‖ ≤ C ^ k) :
    Summable fun k : ℕ => ((k ! : ℂ)⁻¹) • f k := by
  refine Summable.of_norm_bounded (g := fun k : ℕ => C ^ k / k !) (Real.summable_pow_div_factorial C) fun k => ?_
  rw [norm_smul, norm_inv, Complex.norm_natCast, div_eq_inv_mul]
  exact mul_le_mul_of_nonneg_left (h k) (by positivity)

theorem norm_tsum_le_of_norm_le_pow (f : ℕ → 𝔸) (C : ℝ) (h : ∀ k, ‖f k‖ ≤ C ^ k) :
    ‖∑' k : ℕ, ((k ! : ℂ)⁻¹) • f k‖ ≤ Real.exp C := by
  have hs : HasSum (fun k : ℕ => C ^ k / k !) (Real.exp C) := by
    rw [Real.exp_eq_exp_ℝ]; exact NormedSpace.expSeries_div_hasSum_exp C
  refine tsum_of_norm_bounded hs fun k => ?_
  rw [norm_smul, norm_inv, Complex.norm_natCast, div_eq_inv_mul]
  exact mul_le_mul_of_nonneg_left (h k) (by positivity)

/-- the first-order term -/
noncomputable def frechetL (a e : 𝔸) : 𝔸 := ∑' k : ℕ, ((k ! : ℂ)⁻¹) • rdpow a e a k

/-- the second-order remainder -/
noncomputable def frechetS (t : ℂ) (a e : 𝔸) : 𝔸 := ∑' k : ℕ, ((k ! : ℂ)⁻¹) • rrem t a e k

theorem hasSum_frechetL (a e : 𝔸) : HasSum (fun k : ℕ => ((k ! : ℂ)⁻¹) • rdpow a e a k) (frechetL a e) :=
  (summable_of_norm_le_pow _ (2 * (‖a‖ + ‖e‖))
    (norm_rdpow_le a e (‖a‖ + ‖e‖) (by linarith [norm_nonneg e]) (by linarith [norm_nonneg a]))).hasSum

/-- **second-order expansion of `exp` along a non-commuting direction**, `|t| ≤ 1` -/
theorem exp_add_smul_expansion (a e : 𝔸) (t : ℂ) (ht : ‖t‖ ≤ 1) :
    exp (a + t • e) = exp a + t • frechetL a e + (t * t) • frechetS t a e
      ∧ ‖frechetS t a e‖ ≤ Real.exp (3 * (‖a‖ + ‖e‖)) := by
  set c := ‖a‖ + ‖e‖ with hc
  have ha : ‖a‖ ≤ c := by linarith [norm_nonneg e]
  have he : ‖e‖ ≤ c := by linarith [norm_nonneg a]
  have hb : ‖a + t • e‖ ≤ c := by
    refine (norm_add_le _ _).trans (add_le_add le_rfl ?_)
    rw [norm_smul]
    calc ‖t‖ * ‖e‖ ≤ 1 * ‖e‖ := mul_le_mul_of_nonneg_right ht (norm_nonneg e)
      _ = ‖e‖ := one_mul _
  have hR := norm_rrem_le t a e c ha he hb
  have hS : HasSum (fun k : ℕ => ((k ! : ℂ)⁻¹) • rrem t a e k) (frechetS t a e) :=
    (summable_of_norm_le_pow _ (3 * c) hR).hasSum
  have h0 : HasSum (fun k : ℕ => ((k ! : ℂ)⁻¹) • a ^ k) (exp a) := exp_series_hasSum_exp' (𝕂 := ℂ) a
  have h1 : HasSum (fun k : ℕ => ((k ! : ℂ)⁻¹) • (a + t • e) ^ k) (exp (a + t • e)) :=
    exp_series_hasSum_exp' (𝕂 := ℂ) (a + t • e)
  have h2 := (h0.add ((hasSum_frechetL a e).const_smul t)).add (hS.const_smul (t * t))
  refine ⟨h1.unique ?_, norm_tsum_le_of_norm_le_pow _ (3 * c) hR⟩
  convert h2 using 2 with k
  rw [add_smul_pow, smul_add, smul_add, smul_comm _ t, smul_comm _ (t * t)]

/-- **`d/dt exp(a + t•e)|_{t=0} = Σ_k D_k(a,e,a)/k!`** in any complete normed `ℂ`-algebra (no commutation assumed) -/
theorem hasDerivAt_exp_add_smul (a e : 𝔸) : HasDerivAt (fun t : ℂ => exp (a + t • e)) (frechetL a e) 0 := by
  rw [hasDerivAt_iff_isLittleO_nhds_zero, Asymptotics.isLittleO_iff]
  intro ε hε
  set M := Real.exp (3 * (‖a‖ + ‖e‖)) with hM
  have hMpos : 0 < M := Real.exp_pos _
  have hδ : 0 < min 1 (ε / M) := lt_min one_pos (div_pos hε hMpos)
  filter_upwards [Metric.ball_mem_nhds (0 : ℂ) hδ] with h hh
  rw [mem_ball_zero_iff] at hh
  have h1 : ‖h‖ ≤ 1 := (hh.trans_le (min_le_left _ _)).le
  have h2 : ‖h‖ ≤ ε / M := (hh.trans_le (min_le_right _ _)).le
  obtain ⟨hexp, hS⟩ := exp_add_smul_expansion a e h h1
  have : exp (a + (0 + h) • e) - exp (a + (0 : ℂ) • e) - h • frechetL a e = (h * h) • frechetS h a e := by
    rw [zero_add, zero_smul, add_zero, hexp]; abel
  rw [this, norm_smul, norm_mul]
  calc ‖h‖ * ‖h‖ * ‖frechetS h a e‖ ≤ ‖h‖ * (ε / M) * M :=
        mul_le_mul (mul_le_mul_of_nonneg_left h2 (norm_nonneg h)) hS (norm_nonneg _)
          (mul_nonneg (norm_nonneg h) (div_nonneg hε.le hMpos.le))
    _ = ε * ‖h‖ := by field_simp

end banach

/-! ### complex matrices -/
section matrices
open Matrix
variable {n : Type*} [Fintype n] [DecidableEq n]

set_option backward.isDefEq.respectTransparency false in
/-- for complex matrices the first-order term is the top-right block of `exp [[A,E],[0,A]]` -/
theorem frechetL_eq_expBlock (A E : Matrix n n ℂ) :
    (open scoped Matrix.Norms.Operator in frechetL A E) = expBlock A E A := by
  have h := open scoped Matrix.Norms.Operator in hasSum_frechetL A E
  have h' := hasSum_expBlock A E A
  simp only [dpow_eq_rdpow] at h'
  exact h.unique h'

set_option backward.isDefEq.respectTransparency false in
/-- **the Fréchet derivative of the matrix exponential at `A` along `E` is `expBlock A E A`** (`HasDerivAt` w.r.t. the
`L∞` operator norm on matrices; all norms on this finite-dimensional space give the same derivative) -/
theorem hasDerivAt_exp_add_smul_matrix (A E : Matrix n n ℂ) :
    open scoped Matrix.Norms.Operator in HasDerivAt (fun t : ℂ => exp (A + t • E)) (expBlock A E A) 0 := by
  rw [← frechetL_eq_expBlock]
  exact open scoped Matrix.Norms.Operator in hasDerivAt_exp_add_smul A E

/-- the linear functional `M ↦ ⟨g| M |ψ⟩` -/
def sandwich (g ψ : n → ℂ) : Matrix n n ℂ →ₗ[ℂ] ℂ where
  toFun M := star g ⬝ᵥ (M *ᵥ ψ)
  map_add' M M' := by rw [add_mulVec, dotProduct_add]
  map_smul' c M := by rw [smul_mulVec, dotProduct_smul, RingHom.id_apply]

set_option backward.isDefEq.respectTransparency false in
/-- **`d/dt ⟨g| exp(A + tE) |ψ⟩ at t = 0 is ⟨g| expBlock A E A |ψ⟩`** (a statement about a function `ℂ → ℂ`: no matrix norm in it) -/
theorem hasDerivAt_sandwich_exp (A E : Matrix n n ℂ) (g ψ : n → ℂ) :
    HasDerivAt (fun t : ℂ => star g ⬝ᵥ (exp (A + t • E) *ᵥ ψ)) (star g ⬝ᵥ (expBlock A E A *ᵥ ψ)) 0 := by
  open scoped Matrix.Norms.Operator in
  exact HasFDerivAt.comp_hasDerivAt (0 : ℂ) (LinearMap.toContinuousLinearMap (sandwich g ψ)).hasFDerivAt
    (hasDerivAt_exp_add_smul_matrix A E)

/-- the same along a real parameter (the emulator's `Ω, δ, φ, U` are real) -/
theorem hasDerivAt_sandwich_exp_real (A E : Matrix n n ℂ) (g ψ : n → ℂ) :
    HasDerivAt (fun t : ℝ => star g ⬝ᵥ (exp (A + (t : ℂ) • E) *ᵥ ψ)) (star g ⬝ᵥ (expBlock A E A *ᵥ ψ)) 0 := by
  have h := hasDerivAt_sandwich_exp A E g ψ
  have h0 : ((0 : ℝ) : ℂ) = 0 := Complex.ofReal_zero
  rw [← h0] at h
  exact HasDerivAt.comp_ofReal h

end matrices
end EmuVerif.Frechet
