/-
  Exponential level of `Proofs/Frechet.lean` (complex matrices, Mathlib's `NormedSpace.exp`):

  * `expBlock A E B`       top-right block of `exp [[A,E],[0,B]]`  (`double_krylov`'s `matrix_exp(big_mat)[:size_s, size_s:]`,
                           the test-suite's `frechet_exp`)
  * `hasSum_expBlock`      `expBlock A E B = Σ_k D_k(A,E,B)/k!`  (as a `HasSum`: summability + termwise identification)
  * `exp_fromBlocks`       `exp [[A,E],[0,B]] = [[exp A, expBlock A E B],[0, exp B]]`
  * `expBlock_intertwine`  `A V = V Ta`, `W A = Tb W` ⇒ `expBlock A (V E' W) A = V · expBlock Ta E' Tb · W`
  * `trace_mul_expBlock`   `tr(X · expBlock A E B) = tr(expBlock B X A · E)`
  * `left_intertwine_of_skew`  for `Aᴴ = −A` (the code's `op = −i·dt·H`) and orthonormal columns `Vbᴴ Vb = 1`:
                           `A Vb = Vb Tb ⇒ Vbᴴ A = Tb Vbᴴ` (this is why `block_diag(Ts, Tg)` takes `Tg` unconjugated)
-/
import EmuVerif.Proofs.Frechet
import Mathlib.Analysis.Normed.Algebra.MatrixExponential

set_option linter.unusedSectionVars false

namespace EmuVerif.Frechet
open Matrix NormedSpace
open scoped Nat

section
variable {n m p q : Type*} [Fintype n] [Fintype m] [Fintype p] [Fintype q]
  [DecidableEq n] [DecidableEq m] [DecidableEq p] [DecidableEq q]

/-- top-right block of `exp [[A,E],[0,B]]`; for `B = A` the Fréchet derivative of `exp` at `A` along `E` -/
noncomputable def expBlock (A : Matrix n n ℂ) (E : Matrix n m ℂ) (B : Matrix m m ℂ) : Matrix n m ℂ :=
  (exp (fromBlocks A E 0 B)).toBlocks₁₂

set_option backward.isDefEq.respectTransparency false in
/-- the exponential series of a square complex matrix (Mathlib's statement with the norm hidden) -/
theorem hasSum_exp (A : Matrix n n ℂ) : HasSum (fun k : ℕ => ((k ! : ℂ)⁻¹) • A ^ k) (exp A) :=
  open scoped Matrix.Norms.Operator in exp_series_hasSum_exp' (𝕂 := ℂ) A

theorem hasSum_exp_fromBlocks (A : Matrix n n ℂ) (E : Matrix n m ℂ) (B : Matrix m m ℂ) :
    HasSum (fun k : ℕ => ((k ! : ℂ)⁻¹) • fromBlocks (A ^ k) (dpow A E B k) 0 (B ^ k))
      (exp (fromBlocks A E 0 B)) := by
  simpa only [fromBlocks_pow] using hasSum_exp (fromBlocks A E 0 B)

/-- a continuous additive map commutes with `HasSum` (plain-function form of `HasSum.map`) -/
theorem hasSum_map_fun {M N ι : Type*} [AddCommMonoid M] [TopologicalSpace M] [AddCommMonoid N] [TopologicalSpace N]
    (F : M → N) (h0 : F 0 = 0) (hadd : ∀ x y, F (x + y) = F x + F y) (hc : Continuous F)
    {g : ι → M} {a : M} (h : HasSum g a) : HasSum (fun k => F (g k)) (F a) :=
  h.map ({ toFun := F, map_zero' := h0, map_add' := hadd } : M →+ N) hc

/-- **`expBlock A E B = Σ_k D_k(A,E,B) / k!`** -/
theorem hasSum_expBlock (A : Matrix n n ℂ) (E : Matrix n m ℂ) (B : Matrix m m ℂ) :
    HasSum (fun k : ℕ => ((k ! : ℂ)⁻¹) • dpow A E B k) (expBlock A E B) := by
  have := hasSum_map_fun (toBlocks₁₂ : Matrix (n ⊕ m) (n ⊕ m) ℂ → Matrix n m ℂ) rfl (fun _ _ => rfl)
    (continuous_matrix fun i j => continuous_id.matrix_elem _ _) (hasSum_exp_fromBlocks A E B)
  simpa only [fromBlocks_smul, toBlocks_fromBlocks₁₂, expBlock] using this

theorem expBlock_eq_tsum (A : Matrix n n ℂ) (E : Matrix n m ℂ) (B : Matrix m m ℂ) :
    expBlock A E B = ∑' k : ℕ, ((k ! : ℂ)⁻¹) • dpow A E B k := (hasSum_expBlock A E B).tsum_eq.symm

/-- **the exponential of a block upper-triangular matrix** -/
theorem exp_fromBlocks (A : Matrix n n ℂ) (E : Matrix n m ℂ) (B : Matrix m m ℂ) :
    exp (fromBlocks A E 0 B) = fromBlocks (exp A) (expBlock A E B) 0 (exp B) := by
  have h := hasSum_exp_fromBlocks A E B
  have h11 : (exp (fromBlocks A E 0 B)).toBlocks₁₁ = exp A := by
    have := hasSum_map_fun (toBlocks₁₁ : Matrix (n ⊕ m) (n ⊕ m) ℂ → Matrix n n ℂ) rfl (fun _ _ => rfl)
      (continuous_matrix fun i j => continuous_id.matrix_elem _ _) h
    simp only [fromBlocks_smul, toBlocks_fromBlocks₁₁] at this
    exact this.unique (hasSum_exp A)
  have h22 : (exp (fromBlocks A E 0 B)).toBlocks₂₂ = exp B := by
    have := hasSum_map_fun (toBlocks₂₂ : Matrix (n ⊕ m) (n ⊕ m) ℂ → Matrix m m ℂ) rfl (fun _ _ => rfl)
      (continuous_matrix fun i j => continuous_id.matrix_elem _ _) h
    simp only [fromBlocks_smul, toBlocks_fromBlocks₂₂] at this
    exact this.unique (hasSum_exp B)
  have h21 : (exp (fromBlocks A E 0 B)).toBlocks₂₁ = 0 := by
    have := hasSum_map_fun (toBlocks₂₁ : Matrix (n ⊕ m) (n ⊕ m) ℂ → Matrix m n ℂ) rfl (fun _ _ => rfl)
      (continuous_matrix fun i j => continuous_id.matrix_elem _ _) h
    simp only [fromBlocks_smul, toBlocks_fromBlocks₂₁, smul_zero] at this
    exact this.unique hasSum_zero
  have := (fromBlocks_toBlocks (exp (fromBlocks A E 0 B))).symm
  rw [h11, h21, h22] at this
  exact this

/-- **Krylov compression at the exponential level** -/
theorem expBlock_intertwine {A : Matrix n n ℂ} {V : Matrix n p ℂ} {Ta : Matrix p p ℂ} {W : Matrix q n ℂ}
    {Tb : Matrix q q ℂ} (hV : A * V = V * Ta) (hW : W * A = Tb * W) (E' : Matrix p q ℂ) :
    expBlock A (V * E' * W) A = V * expBlock Ta E' Tb * W := by
  have h := hasSum_map_fun (fun X : Matrix p q ℂ => V * X * W) (by simp)
    (fun X Y => by simp [Matrix.mul_add, Matrix.add_mul])
    ((continuous_const.matrix_mul continuous_id).matrix_mul continuous_const) (hasSum_expBlock Ta E' Tb)
  refine (hasSum_expBlock A (V * E' * W) A).unique ?_
  simpa only [Matrix.mul_smul, Matrix.smul_mul, ← dpow_intertwine hV hW] using h

/-- **exchange of direction and weight under the trace** -/
theorem trace_mul_expBlock (A : Matrix n n ℂ) (B : Matrix m m ℂ) (E : Matrix n m ℂ) (X : Matrix m n ℂ) :
    trace (X * expBlock A E B) = trace (expBlock B X A * E) := by
  have h1 := hasSum_map_fun (fun Y : Matrix n m ℂ => trace (X * Y)) (by simp)
    (fun Y Z => by simp [Matrix.mul_add])
    ((continuous_const.matrix_mul continuous_id).matrix_trace) (hasSum_expBlock A E B)
  have h2 := hasSum_map_fun (fun Y : Matrix m n ℂ => trace (Y * E)) (by simp)
    (fun Y Z => by simp [Matrix.add_mul])
    ((continuous_id.matrix_mul continuous_const).matrix_trace) (hasSum_expBlock B X A)
  refine h1.unique ?_
  simpa only [Matrix.mul_smul, Matrix.smul_mul, trace_smul, trace_mul_dpow] using h2

/-- for an anti-Hermitian `A` (the code's `op = −i·dt·H`, `H` Hermitian) a right Lanczos relation with orthonormal
columns is also a left one **with the same `T`** -/
theorem left_intertwine_of_skew {A : Matrix n n ℂ} (hA : Aᴴ = -A) {V : Matrix n q ℂ} {T : Matrix q q ℂ}
    (hV : Vᴴ * V = 1) (hT : A * V = V * T) : Vᴴ * A = T * Vᴴ := by
  have hT' : T = Vᴴ * A * V := by rw [Matrix.mul_assoc, hT, ← Matrix.mul_assoc, hV, Matrix.one_mul]
  have hTs : Tᴴ = -T := by
    rw [hT', conjTranspose_mul, conjTranspose_mul, conjTranspose_conjTranspose, hA]
    simp [Matrix.mul_assoc]
  have h := congrArg conjTranspose hT
  rw [conjTranspose_mul, conjTranspose_mul, hA, hTs] at h
  simpa using h

/-- same for a Hermitian `A` -/
theorem left_intertwine_of_hermitian {A : Matrix n n ℂ} (hA : Aᴴ = A) {V : Matrix n q ℂ} {T : Matrix q q ℂ}
    (hV : Vᴴ * V = 1) (hT : A * V = V * T) : Vᴴ * A = T * Vᴴ := by
  have hT' : T = Vᴴ * A * V := by rw [Matrix.mul_assoc, hT, ← Matrix.mul_assoc, hV, Matrix.one_mul]
  have hTs : Tᴴ = T := by
    rw [hT', conjTranspose_mul, conjTranspose_mul, conjTranspose_conjTranspose, hA]
    simp [Matrix.mul_assoc]
  have h := congrArg conjTranspose hT
  rw [conjTranspose_mul, conjTranspose_mul, hA, hTs] at h
  exact h

/-- `|a⟩⟨b|` for `a = na·(column i0 of Va)`, `b = nb·(column j0 of Vb)`, `na nb` real, is `Va · (na·nb at (i0,j0)) · Vbᴴ` -/
theorem vecMulVec_eq_mul_single_mul (Va : Matrix n p ℂ) (Vb : Matrix n q ℂ) (i0 : p) (j0 : q) (na nb : ℝ) :
    vecMulVec (fun x => (na : ℂ) * Va x i0) (star fun x => (nb : ℂ) * Vb x j0)
      = Va * single i0 j0 ((na * nb : ℝ) : ℂ) * Vbᴴ := by
  ext x y
  rw [mul_single_mul_apply]
  simp [vecMulVec_apply, conjTranspose_apply]
  ring

/-- `⟨g| M |ψ⟩ = tr(M · |ψ⟩⟨g|)` -/
theorem star_dotProduct_mulVec (M : Matrix n n ℂ) (ψ g : n → ℂ) :
    star g ⬝ᵥ (M *ᵥ ψ) = trace (M * vecMulVec ψ (star g)) := by
  rw [mul_vecMulVec, trace_vecMulVec, dotProduct_comm]

end
end EmuVerif.Frechet
