/-
  The bridge between `Model/HamMPO` (label-indexed MPO Hamiltonian, C05) and `Model/Tensor` (numerically
  indexed MPO factors with operator semantics `opAmp`, C11/C13Mps), through `Model/HamBridge.toTensor`.

  1. shapes: the enumerated factors `factors P` form a chain (`ShapeTo 1 (factors P) 1`: every row list has `dl`
     rows, neighbouring bond label lists have the same length — `bondsAgree_left/right`; for `N = 2` the symmetry
     of `U` is needed), hence `toTensor d ent (factors P)` satisfies what `MPO.__init__` asserts (`validChain`).
  2. key lemma: in `R = Matrix (Fin N → Fin d) (Fin N → Fin d) K` with the Kronecker site embeddings of
     `Props/C05.lean`, multiplying a matrix that is "a function of the first `n` sites times the identity on the
     rest" by `emb_n(a)` multiplies the function by `a[σ_n, τ_n]` (`mul_kron_entry`).  So C05's `contractFrom`, read
     entry by entry, IS the Tensor-model row-vector fold `ampVecF` of the converted factors on the level string
     `(σ_k·d + τ_k)_k` (`goodRow_chain`), and the entry of the contraction result is `opAmp` (`entry_of_contract`).
  3. the dense side: entries of `emb_m(a)` and `emb_i(a)·emb_j(b)` (`i < j`), hence `denseElem` (the executable dense
     builder) is the matrix entry of `Props.C05.Hdense` at the Kronecker embeddings (`denseElem_eq_Hdense`).
  4. `sumStrings d N` is the sum over all configurations `Fin N → Fin d` (`sumStrings_eq_sum`).
-/
import EmuVerif.Model.HamBridge
import EmuVerif.Props.C05
import EmuVerif.Proofs.TensorValid
import Mathlib.Data.Matrix.Mul
import Mathlib.Algebra.BigOperators.Fin
import Mathlib.Data.Fintype.BigOperators

set_option linter.unusedSectionVars false
set_option linter.unusedVariables false
set_option linter.unusedSimpArgs false

namespace EmuVerif.HamBridge
open EmuVerif EmuVerif.HamMPO EmuVerif.Tensor Finset
open EmuVerif.Props.C05 (kronEmb siteEmb Hdense)

/-! ### 1. shapes -/

section shape
variable {A : Type}

/-- the factor list is a chain from left bond `m` to right bond `m'`, every factor with `dl` rows -/
def ShapeTo : ℕ → List (Factor A) → ℕ → Prop
  | m, [], m' => m = m'
  | m, F :: Fs, m' => F.dl = m ∧ F.rows.length = m ∧ ShapeTo F.dr Fs m'

theorem shapeTo_append {m k m' : ℕ} {Fs Gs : List (Factor A)} (h1 : ShapeTo m Fs k)
    (h2 : ShapeTo k Gs m') : ShapeTo m (Fs ++ Gs) m' := by
  induction Fs generalizing m with
  | nil => simp only [ShapeTo] at h1; subst h1; exact h2
  | cons F Fs ih => exact ⟨h1.1, h1.2.1, ih h1.2.2⟩

theorem shapeTo_enum [Zero A] (LL LR : List Label) (W : Label → Label → A) :
    ShapeTo LL.length [enumFactor LL LR W] LR.length :=
  ⟨rfl, by simp [enumFactor], rfl⟩

end shape

section shapeFactors
variable {α A : Type} [CommRing α] [DecidableEq α] [AddCommGroup A] [Module α A] [One A]
variable (P : Params α A)

theorem shape_lefts (len a : ℕ) :
    ShapeTo (LLl P a).length ((List.range' a len).map (leftF P)) (LLl P (a + len)).length := by
  induction len generalizing a with
  | zero => simp [ShapeTo]
  | succ len ih =>
    rw [List.range'_succ, List.map_cons]
    refine ⟨rfl, by simp [leftF, enumFactor], ?_⟩
    have := ih (a + 1)
    have e : a + 1 + len = a + (len + 1) := by omega
    rw [e] at this
    have e2 : (leftF P a).dr = (LLl P (a + 1)).length := by
      show (LRl P a).length = _
      rw [bondsAgree_left]
    rw [e2]; exact this

theorem shape_rights (len a : ℕ) (h : a + len < P.N) :
    ShapeTo (LLr P a).length ((List.range' a len).map (rightF P)) (LLr P (a + len)).length := by
  induction len generalizing a with
  | zero => simp [ShapeTo]
  | succ len ih =>
    rw [List.range'_succ, List.map_cons]
    refine ⟨rfl, by simp [rightF, enumFactor], ?_⟩
    have := ih (a + 1) (by omega)
    have e : a + 1 + len = a + (len + 1) := by omega
    rw [e] at this
    have e2 : (rightF P a).dr = (LLr P (a + 1)).length := by
      show (LRr P a).length = _
      rw [bondsAgree_right P a (by omega)]
    rw [e2]; exact this

/-- for two atoms the channel `last_factor` closes is the one `first_factor` opened (symmetric `U`) -/
theorem LLlast2_eq (hU : ∀ i j, P.U i j = P.U j i) (hN : P.N = 2) : LLlast2 P = LLl P 1 := by
  have hb : hasLeft P 1 = curL P 1 0 := by
    unfold hasLeft curL anyRow
    rw [hN]
    simp [List.range_succ, hU 1 0]
  unfold LLlast2 LLl
  rw [chanList_range_succ, hb]
  simp [chanList]

/-- **the enumerated factors of `make_H` form a chain with outer bonds 1** (what `MPO.__init__` asserts) -/
theorem factors_shape (hU : ∀ i j, P.U i j = P.U j i) (hN : 2 ≤ P.N) : ShapeTo 1 (factors P) 1 := by
  have hfirst : (firstF P).dr = (LLl P 1).length := by
    show (LRl P 0).length = _
    rw [bondsAgree_left]
  unfold factors
  refine ⟨rfl, by simp [firstF, enumFactor], ?_⟩
  rw [hfirst]
  by_cases h3 : 3 ≤ P.N
  · have hm1 : 1 ≤ mid P := by unfold mid; omega
    have hm2 : mid P + 1 < P.N := by unfold mid; omega
    rw [if_pos h3]
    unfold lastF middleF
    rw [if_neg (by omega)]
    have s1 := shape_lefts P (mid P - 1) 1
    have e1 : 1 + (mid P - 1) = mid P := by omega
    rw [e1] at s1
    have s2 : ShapeTo (LLl P (mid P)).length [enumFactor (LLl P (mid P)) (LRr P (mid P)) (Wmid P (mid P))]
        (LLr P (mid P + 1)).length :=
      ⟨rfl, by simp [enumFactor], by
        show (LRr P (mid P)).length = _
        rw [bondsAgree_right P (mid P) hm2]⟩
    have s3 := shape_rights P (P.N - 1 - (mid P + 1)) (mid P + 1) (by omega)
    have e3 : mid P + 1 + (P.N - 1 - (mid P + 1)) = P.N - 1 := by omega
    rw [e3] at s3
    have s4 : ShapeTo (LLr P (P.N - 1)).length
        [enumFactor (LLr P (P.N - 1)) [.done] (Wright P (P.N - 1))] 1 :=
      shapeTo_enum _ _ _
    exact shapeTo_append (shapeTo_append (shapeTo_append s1 s2) s3) s4
  · have h2 : P.N = 2 := by omega
    have hmid : mid P = 1 := by unfold mid; omega
    unfold lastF
    rw [if_neg h3, if_pos h2, hmid, h2]
    simp only [Nat.reduceAdd, Nat.reduceSub, List.range', List.map_nil, List.append_nil, List.nil_append]
    exact ⟨by show (LLlast2 P).length = _; rw [LLlast2_eq P hU h2],
      by simp [enumFactor, LLlast2_eq P hU h2], rfl⟩

theorem factors_length (hN : 2 ≤ P.N) : (factors P).length = P.N := by
  unfold factors
  by_cases h3 : 3 ≤ P.N
  · have hm1 : 1 ≤ mid P := by unfold mid; omega
    have hm2 : mid P + 1 < P.N := by unfold mid; omega
    simp only [if_pos h3, List.length_cons, List.length_append, List.length_map, List.length_range',
      List.length_nil]
    omega
  · have hmid : mid P = 1 := by unfold mid; omega
    simp only [if_neg h3, hmid, List.length_cons, List.length_append, List.length_map, List.length_range',
      List.length_nil]
    omega

end shapeFactors

/-! ### the converted factors satisfy the `MPO` constructor's assertions -/

section valid
variable {A K : Type} [Zero A] [CommRing K]

@[simp] theorem toSite_dl (d : ℕ) (ent : A → ℕ → ℕ → K) (F : Factor A) : (toSite d ent F).dl = F.dl := rfl
@[simp] theorem toSite_dr (d : ℕ) (ent : A → ℕ → ℕ → K) (F : Factor A) : (toSite d ent F).dr = F.dr := rfl
@[simp] theorem toSite_d (d : ℕ) (ent : A → ℕ → ℕ → K) (F : Factor A) : (toSite d ent F).d = d * d := rfl
@[simp] theorem toSite_t (d : ℕ) (ent : A → ℕ → ℕ → K) (F : Factor A) (x l r : ℕ) :
    (toSite d ent F).t x l r = ent ((F.rows.getD l []).getD r 0) (x / d) (x % d) := by
  simp [toSite]

@[simp] theorem toTensor_length (d : ℕ) (ent : A → ℕ → ℕ → K) (fs : List (Factor A)) :
    (toTensor d ent fs).length = fs.length := by simp [toTensor]

theorem wf_toTensor (d : ℕ) (ent : A → ℕ → ℕ → K) (fs : List (Factor A)) (m : ℕ) (h : ShapeTo m fs 1) :
    Wf (toTensor d ent fs) ∧ headDl (toTensor d ent fs) = m := by
  induction fs generalizing m with
  | nil => simp only [ShapeTo] at h; subst h; exact ⟨trivial, rfl⟩
  | cons F Fs ih =>
    obtain ⟨h1, _, h3⟩ := h
    obtain ⟨w, hd⟩ := ih F.dr h3
    exact ⟨⟨by simpa [toTensor] using hd.symm, w⟩, by simpa [toTensor] using h1⟩

theorem wf_getLast (fs : List (Site K)) (h : Wf fs) (hne : fs ≠ []) : fs.getLast?.map (·.dr) = some 1 := by
  induction fs with
  | nil => exact absurd rfl hne
  | cons A fs ih =>
    cases fs with
    | nil => simpa [headDl] using h.1
    | cons B fs =>
      rw [List.getLast?_cons_cons]
      exact ih h.2 (by simp)

/-- converse of `validChain_spec` -/
theorem validChain_of_wf (d : ℕ) (fs : List (Site K)) (h2 : 2 ≤ fs.length) (hw : Wf fs) (h1 : headDl fs = 1)
    (hd : ∀ A ∈ fs, A.d = d) : validChain d fs = true := by
  have hne : fs ≠ [] := by intro e; simp [e] at h2
  unfold validChain
  simp only [Bool.and_eq_true, decide_eq_true_eq, beq_iff_eq, List.all_eq_true]
  refine ⟨⟨⟨⟨by omega, chainOk_of_wf fs hw⟩, ?_⟩, wf_getLast fs hw hne⟩, hd⟩
  cases fs with
  | nil => exact absurd rfl hne
  | cons A fs => simpa using h1

theorem validChain_toTensor (d : ℕ) (ent : A → ℕ → ℕ → K) (fs : List (Factor A)) (h2 : 2 ≤ fs.length)
    (h : ShapeTo 1 fs 1) : validChain (d * d) (toTensor d ent fs) = true := by
  obtain ⟨w, hd⟩ := wf_toTensor d ent fs 1 h
  refine validChain_of_wf _ _ (by simpa using h2) w hd ?_
  intro B hB
  simp only [toTensor, List.mem_map] at hB
  obtain ⟨F, _, rfl⟩ := hB
  rfl

end valid

/-! ### 2. the key lemma: matrix entries of products of site-embedded operators -/

/-- configurations of `N` sites with `d` levels: the index set of the dense matrices -/
abbrev Cfg (N d : ℕ) := Fin N → Fin d

section key
variable {K : Type} [CommRing K] [DecidableEq K] {N d : ℕ}

/-- entry of a local operator, `0` outside `d × d` (what `ent` is in the theorems) -/
def matEnt (M : Matrix (Fin d) (Fin d) K) (o i : ℕ) : K :=
  if h : o < d ∧ i < d then M ⟨o, h.1⟩ ⟨i, h.2⟩ else 0

/-- the two configurations agree on every site `≥ n` -/
def AgreeFrom (n : ℕ) (σ ρ : Cfg N d) : Prop := ∀ m : Fin N, n ≤ m.val → σ m = ρ m

instance (n : ℕ) (σ ρ : Cfg N d) : Decidable (AgreeFrom n σ ρ) := by
  unfold AgreeFrom; infer_instance

/-- level of site `k` as a natural number (`0` beyond the register) -/
def natOf (σ : Cfg N d) (k : ℕ) : ℕ := if h : k < N then (σ ⟨k, h⟩).val else 0

/-- operator level `σ_k·d + τ_k` of site `k` -/
def lvl (σ τ : Cfg N d) (k : ℕ) : ℕ := natOf σ k * d + natOf τ k

/-- a configuration as the level string the Tensor model reads -/
def strOf (σ : Cfg N d) : List ℕ := List.ofFn (fun k => (σ k).val)

theorem natOf_lt (σ : Cfg N d) (k : ℕ) (hk : k < N) : natOf σ k = (σ ⟨k, hk⟩).val := by
  simp [natOf, hk]

theorem strOf_length (σ : Cfg N d) : (strOf σ).length = N := by simp [strOf]

theorem strOf_getD (σ : Cfg N d) (k : ℕ) : (strOf σ).getD k 0 = natOf σ k := by
  unfold strOf natOf
  by_cases hk : k < N
  · simp [List.getD_eq_getElem?_getD, hk]
  · simp [List.getD_eq_getElem?_getD, hk]

theorem strOf_lt (σ : Cfg N d) : ∀ x ∈ strOf σ, x < d := by
  intro x hx
  simp only [strOf, List.mem_ofFn] at hx
  obtain ⟨k, rfl⟩ := hx
  exact (σ k).isLt

theorem opString_strOf (σ τ : Cfg N d) :
    opString d (strOf σ) (strOf τ) = (List.range' 0 N).map (lvl σ τ) := by
  apply List.ext_getElem
  · simp [opString, strOf]
  · intro i h1 h2
    have hi : i < N := by simpa using h2
    simp [opString, strOf, lvl, opLevel, natOf, hi]

theorem matEnt_lvl (M : Matrix (Fin d) (Fin d) K) (σ τ : Cfg N d) (n : ℕ) (hn : n < N) :
    matEnt M (lvl σ τ n / d) (lvl σ τ n % d) = M (σ ⟨n, hn⟩) (τ ⟨n, hn⟩) := by
  have hd : 0 < d := lt_of_le_of_lt (Nat.zero_le _) (σ ⟨n, hn⟩).isLt
  have ha := (σ ⟨n, hn⟩).isLt
  have hb := (τ ⟨n, hn⟩).isLt
  have e1 : lvl σ τ n / d = (σ ⟨n, hn⟩).val := by
    rw [lvl, natOf_lt σ n hn, natOf_lt τ n hn, Nat.add_comm, Nat.add_mul_div_right _ _ hd,
      Nat.div_eq_of_lt hb, Nat.zero_add]
  have e2 : lvl σ τ n % d = (τ ⟨n, hn⟩).val := by
    rw [lvl, natOf_lt σ n hn, natOf_lt τ n hn, Nat.add_comm, Nat.add_mul_mod_self_right,
      Nat.mod_eq_of_lt hb]
  rw [e1, e2]
  unfold matEnt
  rw [dif_pos ⟨ha, hb⟩]

variable (hN : 0 < N)

theorem kronEmb_apply (n : ℕ) (hn : n < N) (a : Matrix (Fin d) (Fin d) K) (σ τ : Cfg N d) :
    kronEmb (α := K) N d hN n a σ τ
      = if (∀ m : Fin N, m ≠ ⟨n, hn⟩ → σ m = τ m) then a (σ ⟨n, hn⟩) (τ ⟨n, hn⟩) else 0 := by
  have hmod : (⟨n % N, Nat.mod_lt _ hN⟩ : Fin N) = ⟨n, hn⟩ := Fin.ext (Nat.mod_eq_of_lt hn)
  simp only [kronEmb, siteEmb, LinearMap.coe_mk, AddHom.coe_mk, Matrix.of_apply, hmod]

/-- **Key lemma.**  If `X` is a function `g` of the first `n` sites times the identity on the sites `≥ n`, then
`X · emb_n(a)` is `g · a[σ_n, τ_n]` times the identity on the sites `> n`. -/
theorem mul_kron_entry (n : ℕ) (hn : n < N) (X : Matrix (Cfg N d) (Cfg N d) K) (g : Cfg N d → Cfg N d → K)
    (hX : ∀ σ ρ, X σ ρ = if AgreeFrom n σ ρ then g σ ρ else 0)
    (hg : ∀ σ ρ ρ', (∀ m : Fin N, m.val < n → ρ m = ρ' m) → g σ ρ = g σ ρ')
    (a : Matrix (Fin d) (Fin d) K) (σ τ : Cfg N d) :
    (X * kronEmb (α := K) N d hN n a) σ τ
      = if AgreeFrom (n + 1) σ τ then g σ τ * a (σ ⟨n, hn⟩) (τ ⟨n, hn⟩) else 0 := by
  rw [Matrix.mul_apply]
  simp only [kronEmb_apply hN n hn]
  have hup : ∀ m : Fin N, m ≠ ⟨n, hn⟩ → Function.update τ ⟨n, hn⟩ (σ ⟨n, hn⟩) m = τ m :=
    fun m hm => Function.update_of_ne hm _ _
  rw [Finset.sum_eq_single (Function.update τ ⟨n, hn⟩ (σ ⟨n, hn⟩))]
  · rw [if_pos hup, Function.update_self, hX]
    have hiff : AgreeFrom n σ (Function.update τ ⟨n, hn⟩ (σ ⟨n, hn⟩)) ↔ AgreeFrom (n + 1) σ τ := by
      constructor
      · intro h m hm
        have hne : m ≠ ⟨n, hn⟩ := by intro e; rw [e] at hm; simp at hm
        rw [h m (by omega), hup m hne]
      · intro h m hm
        by_cases hne : m = ⟨n, hn⟩
        · rw [hne, Function.update_self]
        · have : n + 1 ≤ m.val := by
            have : m.val ≠ n := fun e => hne (Fin.ext e)
            omega
          rw [hup m hne]; exact h m this
    by_cases h : AgreeFrom (n + 1) σ τ
    · rw [if_pos (hiff.mpr h), if_pos h]
      congr 1
      exact hg σ _ τ (fun m hm => hup m (by intro e; rw [e] at hm; simp at hm))
    · rw [if_neg (mt hiff.mp h), if_neg h, zero_mul]
  · intro ρ _ hne
    rw [hX]
    by_cases h1 : AgreeFrom n σ ρ
    · by_cases h2 : ∀ m : Fin N, m ≠ ⟨n, hn⟩ → ρ m = τ m
      · exfalso
        apply hne
        funext m
        by_cases hm : m = ⟨n, hn⟩
        · rw [hm, Function.update_self]; exact (h1 ⟨n, hn⟩ (le_refl n)).symm
        · rw [hup m hm]; exact h2 m hm
      · rw [if_neg h2, mul_zero]
    · rw [if_neg h1, zero_mul]
  · intro h; exact absurd (Finset.mem_univ _) h

theorem list_sum_apply {m n : Type} (l : List (Matrix m n K)) (i : m) (j : n) :
    l.sum i j = (l.map (fun M => M i j)).sum := by
  induction l with
  | nil => simp
  | cons M l ih => simp [Matrix.add_apply, ih]

theorem sum_zipWith_range {X Y M : Type} [AddCommMonoid M] (f : X → Y → M) (dx : X) (dy : Y)
    (xs : List X) (ys : List Y) (h : xs.length = ys.length) :
    (List.zipWith f xs ys).sum = ∑ l ∈ range xs.length, f (xs.getD l dx) (ys.getD l dy) := by
  induction xs generalizing ys with
  | nil => simp
  | cons x xs ih =>
    cases ys with
    | nil => simp at h
    | cons y ys =>
      simp only [List.zipWith_cons_cons, List.sum_cons, List.length_cons]
      rw [Finset.sum_range_succ', ih ys (by simpa using h)]
      simp [add_comm]

/-- the row vector of C05's contraction in front of site `n`: entry `l` is the function `v · · l` of the first
`n` sites (prefix dependence in the second argument) times the identity on the sites `≥ n` -/
def GoodRow (n : ℕ) (r : List (Matrix (Cfg N d) (Cfg N d) K)) (v : Cfg N d → Cfg N d → ℕ → K) : Prop :=
  (∀ l, l < r.length → ∀ σ ρ, r.getD l 0 σ ρ = if AgreeFrom n σ ρ then v σ ρ l else 0) ∧
  (∀ l σ ρ ρ', (∀ m : Fin N, m.val < n → ρ m = ρ' m) → v σ ρ l = v σ ρ' l)

/-- one site: C05's `rowStep` at the Kronecker embedding is the Tensor-model `rowStepF` of the converted factor
on the level `σ_n·d + τ_n` -/
theorem goodRow_step (n : ℕ) (hn : n < N) (r : List (Matrix (Cfg N d) (Cfg N d) K))
    (v : Cfg N d → Cfg N d → ℕ → K) (F : Factor (Matrix (Fin d) (Fin d) K)) (h : GoodRow n r v)
    (hl : F.dl = r.length) (hrows : F.rows.length = r.length) :
    GoodRow (n + 1) (HamMPO.rowStep (⇑(kronEmb (α := K) N d hN n)) r F)
        (fun σ τ => rowStepF (v σ τ) (toSite d matEnt F) (lvl σ τ n))
      ∧ (HamMPO.rowStep (⇑(kronEmb (α := K) N d hN n)) r F).length = F.dr := by
  refine ⟨⟨?_, ?_⟩, by simp [HamMPO.rowStep]⟩
  · intro b hb σ τ
    have hb' : b < F.dr := by simpa [HamMPO.rowStep] using hb
    have e0 : (HamMPO.rowStep (⇑(kronEmb (α := K) N d hN n)) r F).getD b 0
        = (List.zipWith (fun x (row : List (Matrix (Fin d) (Fin d) K)) =>
            x * kronEmb (α := K) N d hN n (row.getD b 0)) r F.rows).sum := by
      simp [HamMPO.rowStep, List.getD_eq_getElem?_getD, hb']
    rw [e0, sum_zipWith_range _ 0 [] r F.rows hrows.symm, Matrix.sum_apply]
    have e1 : ∀ l ∈ range r.length,
        (r.getD l 0 * kronEmb (α := K) N d hN n ((F.rows.getD l []).getD b 0)) σ τ
          = if AgreeFrom (n + 1) σ τ then
              v σ τ l * (toSite d matEnt F).t (lvl σ τ n) l b else 0 := by
      intro l hlr
      rw [mul_kron_entry hN n hn (r.getD l 0) (fun σ ρ => v σ ρ l)
        (h.1 l (Finset.mem_range.mp hlr)) (h.2 l)]
      rw [toSite_t, matEnt_lvl _ σ τ n hn]
    rw [Finset.sum_congr rfl e1]
    by_cases hag : AgreeFrom (n + 1) σ τ
    · simp only [if_pos hag, rowStepF, toSite_dl, hl]
    · simp only [if_neg hag, Finset.sum_const_zero]
  · intro b σ ρ ρ' hpre
    have e1 : lvl σ ρ n = lvl σ ρ' n := by
      unfold lvl
      rw [natOf_lt ρ n hn, natOf_lt ρ' n hn, hpre ⟨n, hn⟩ (Nat.lt_succ_self n)]
    have e2 : ∀ l, v σ ρ l = v σ ρ' l := fun l => h.2 l σ ρ ρ' (fun m hm => hpre m (Nat.lt_succ_of_lt hm))
    simp only [rowStepF, e1, e2]

/-- **C05's `contractFrom` at the Kronecker embeddings is, entry by entry, the Tensor-model fold `ampVecF` of the
converted factors** (every chain of factors with matching shapes, started anywhere). -/
theorem goodRow_chain (fs : List (Factor (Matrix (Fin d) (Fin d) K))) :
    ∀ (n k : ℕ) (r : List (Matrix (Cfg N d) (Cfg N d) K)) (v : Cfg N d → Cfg N d → ℕ → K) (m' : ℕ),
      k = n + fs.length → k ≤ N → ShapeTo r.length fs m' → GoodRow n r v →
      GoodRow k (contractFrom (fun j => ⇑(kronEmb (α := K) N d hN j)) n r fs)
        (fun σ τ => ampVecF (toTensor d matEnt fs) ((List.range' n fs.length).map (lvl σ τ)) (v σ τ))
      ∧ (contractFrom (fun j => ⇑(kronEmb (α := K) N d hN j)) n r fs).length = m' := by
  induction fs with
  | nil =>
    intro n k r v m' hk _ hs hg
    simp only [ShapeTo] at hs
    simp only [List.length_nil, Nat.add_zero] at hk
    subst hk
    simpa [contractFrom, toTensor, ampVecF] using ⟨hg, hs⟩
  | cons F Fs ih =>
    intro n k r v m' hk hkN hs hg
    obtain ⟨s1, s2, s3⟩ := hs
    simp only [List.length_cons] at hk
    obtain ⟨g1, l1⟩ := goodRow_step hN n (by omega) r v F hg s1 s2
    rw [← l1] at s3
    have := ih (n + 1) k _ _ m' (by omega) hkN s3 g1
    simpa [contractFrom, toTensor, List.range'_succ, ampVecF] using this

/-- **the entry of the contracted MPO is the operator semantics of the converted factors** -/
theorem entry_of_contract (fs : List (Factor (Matrix (Fin d) (Fin d) K))) (hlen : fs.length = N)
    (hs : ShapeTo 1 fs 1) (H : Matrix (Cfg N d) (Cfg N d) K)
    (hc : contractFrom (fun j => ⇑(kronEmb (α := K) N d hN j)) 0 [1] fs = [H]) (σ τ : Cfg N d) :
    opAmp d (toTensor d matEnt fs) (strOf σ) (strOf τ) = H σ τ := by
  have g0 : GoodRow (N := N) (d := d) (K := K) 0 [1] (fun _ _ _ => 1) := by
    refine ⟨?_, fun _ _ _ _ _ => rfl⟩
    intro l hl σ ρ
    have : l = 0 := by simpa using hl
    subst this
    simp only [List.getD_cons_zero, Matrix.one_apply]
    have : AgreeFrom 0 σ ρ ↔ σ = ρ :=
      ⟨fun h => funext (fun m => h m (Nat.zero_le _)), fun h m _ => by rw [h]⟩
    by_cases hσ : σ = ρ
    · rw [if_pos hσ, if_pos (this.mpr hσ)]
    · rw [if_neg hσ, if_neg (mt this.mp hσ)]
  obtain ⟨g, _⟩ := goodRow_chain hN fs 0 N [1] (fun _ _ _ => 1) 1 (by omega) (le_refl _) hs g0
  rw [hc] at g
  have := g.1 0 (by simp) σ τ
  simp only [List.getD_cons_zero] at this
  have hall : AgreeFrom N σ τ := fun m hm => absurd m.isLt (by omega)
  rw [this, if_pos hall, opAmp, amp_eq, opString_strOf, hlen]

end key

/-! ### 3. the dense side -/

section dense
variable {K : Type} [CommRing K] [DecidableEq K] {N d : ℕ} (hN : 0 < N)

/-- `emb_i(a) · emb_j(b)` for `i < j`: both local entries, identity elsewhere -/
theorem pair_entry (i j : ℕ) (hij : i < j) (hj : j < N) (a b : Matrix (Fin d) (Fin d) K) (σ τ : Cfg N d) :
    (kronEmb (α := K) N d hN i a * kronEmb (α := K) N d hN j b) σ τ
      = if (∀ m : Fin N, m.val ≠ i → m.val ≠ j → σ m = τ m) then
          a (σ ⟨i, by omega⟩) (τ ⟨i, by omega⟩) * b (σ ⟨j, hj⟩) (τ ⟨j, hj⟩) else 0 := by
  have hi : i < N := by omega
  rw [mul_kron_entry hN j hj (kronEmb (α := K) N d hN i a)
    (fun σ ρ => if (∀ m : Fin N, m.val < j → m.val ≠ i → σ m = ρ m) then a (σ ⟨i, hi⟩) (ρ ⟨i, hi⟩) else 0)]
  · have hiff : (AgreeFrom (j + 1) σ τ ∧ ∀ m : Fin N, m.val < j → m.val ≠ i → σ m = τ m)
        ↔ ∀ m : Fin N, m.val ≠ i → m.val ≠ j → σ m = τ m := by
      constructor
      · rintro ⟨h1, h2⟩ m hmi hmj
        by_cases hlt : m.val < j
        · exact h2 m hlt hmi
        · exact h1 m (by omega)
      · intro h
        exact ⟨fun m hm => h m (by omega) (by omega), fun m hm hmi => h m hmi (by omega)⟩
    by_cases h1 : AgreeFrom (j + 1) σ τ
    · by_cases h2 : ∀ m : Fin N, m.val < j → m.val ≠ i → σ m = τ m
      · rw [if_pos h1, if_pos h2, if_pos (hiff.mp ⟨h1, h2⟩)]
      · rw [if_pos h1, if_neg h2, if_neg (fun h => h2 (hiff.mpr h).2), zero_mul]
    · rw [if_neg h1, if_neg (fun h => h1 (hiff.mpr h).1)]
  · intro σ ρ
    rw [kronEmb_apply hN i hi]
    have hiff : (∀ m : Fin N, m ≠ ⟨i, hi⟩ → σ m = ρ m)
        ↔ (AgreeFrom j σ ρ ∧ ∀ m : Fin N, m.val < j → m.val ≠ i → σ m = ρ m) := by
      constructor
      · intro h
        refine ⟨fun m hm => h m (fun e => ?_), fun m _ hmi => h m (fun e => hmi (by rw [e]))⟩
        rw [e] at hm; simp at hm; omega
      · rintro ⟨h1, h2⟩ m hm
        have hmi : m.val ≠ i := fun e => hm (Fin.ext e)
        by_cases hlt : m.val < j
        · exact h2 m hlt hmi
        · exact h1 m (by omega)
    by_cases h1 : AgreeFrom j σ ρ
    · by_cases h2 : ∀ m : Fin N, m.val < j → m.val ≠ i → σ m = ρ m
      · rw [if_pos (hiff.mpr ⟨h1, h2⟩), if_pos h1, if_pos h2]
      · rw [if_neg (fun h => h2 (hiff.mp h).2), if_pos h1, if_neg h2]
    · rw [if_neg (fun h => h1 (hiff.mp h).1), if_neg h1]
  · intro σ ρ ρ' hpre
    have e : ρ ⟨i, hi⟩ = ρ' ⟨i, hi⟩ := hpre ⟨i, hi⟩ hij
    have hiff : (∀ m : Fin N, m.val < j → m.val ≠ i → σ m = ρ m)
        ↔ (∀ m : Fin N, m.val < j → m.val ≠ i → σ m = ρ' m) := by
      constructor
      · intro h m hm hmi; rw [← hpre m hm]; exact h m hm hmi
      · intro h m hm hmi; rw [hpre m hm]; exact h m hm hmi
    simp only [e, hiff]

theorem agreeOff_strOf (i j : ℕ) (σ τ : Cfg N d) :
    agreeOff N i j (strOf σ) (strOf τ) = true ↔ ∀ m : Fin N, m.val ≠ i → m.val ≠ j → σ m = τ m := by
  unfold agreeOff
  simp only [List.all_eq_true, List.mem_range, Bool.or_eq_true, beq_iff_eq, strOf_getD]
  constructor
  · intro h m hmi hmj
    rcases h m.val m.isLt with (h | h) | h
    · exact absurd h hmi
    · exact absurd h hmj
    · rw [natOf_lt σ _ m.isLt, natOf_lt τ _ m.isLt] at h
      exact Fin.ext h
  · intro h m hm
    by_cases hmi : m = i
    · exact Or.inl (Or.inl hmi)
    · by_cases hmj : m = j
      · exact Or.inl (Or.inr hmj)
      · right
        rw [natOf_lt σ _ hm, natOf_lt τ _ hm, h ⟨m, hm⟩ hmi hmj]

theorem matEnt_natOf (M : Matrix (Fin d) (Fin d) K) (σ τ : Cfg N d) (n : ℕ) (hn : n < N) :
    matEnt M (natOf σ n) (natOf τ n) = M (σ ⟨n, hn⟩) (τ ⟨n, hn⟩) := by
  rw [natOf_lt σ n hn, natOf_lt τ n hn]
  unfold matEnt
  rw [dif_pos ⟨(σ ⟨n, hn⟩).isLt, (τ ⟨n, hn⟩).isLt⟩]

/-- **the executable dense builder is the matrix entry of C05's dense Hamiltonian at the Kronecker embeddings** -/
theorem denseElem_eq_Hdense (P : Params K (Matrix (Fin d) (Fin d) K)) (hP : P.N = N) (σ τ : Cfg N d) :
    denseElem P matEnt id (strOf σ) (strOf τ) = Hdense P (kronEmb (α := K) N d hN) σ τ := by
  subst hP
  unfold denseElem denseSingle densePair Hdense
  simp only [sumTo_eq, Matrix.add_apply, Matrix.sum_apply, Matrix.smul_apply, smul_eq_mul, id]
  congr 1
  · refine Finset.sum_congr rfl (fun m hm => ?_)
    have hm' := Finset.mem_range.mp hm
    rw [kronEmb_apply hN m hm', strOf_getD, strOf_getD, matEnt_natOf _ σ τ m hm']
    have hiff : agreeOff P.N m m (strOf σ) (strOf τ) = true ↔ ∀ k : Fin P.N, k ≠ ⟨m, hm'⟩ → σ k = τ k := by
      rw [agreeOff_strOf]
      constructor
      · intro h k hk
        have : k.val ≠ m := fun e => hk (Fin.ext e)
        exact h k this this
      · intro h k hk _
        exact h k (fun e => hk (by rw [e]))
    by_cases h : ∀ k : Fin P.N, k ≠ ⟨m, hm'⟩ → σ k = τ k
    · rw [if_pos (hiff.mpr h), if_pos h]
    · rw [if_neg (fun e => h (hiff.mp e)), if_neg h]
  · refine Finset.sum_congr rfl (fun j hj => Finset.sum_congr rfl (fun i hi => Finset.sum_congr rfl (fun k _ => ?_)))
    have hj' := Finset.mem_range.mp hj
    have hi' := Finset.mem_range.mp hi
    rw [pair_entry hN i j hi' hj', strOf_getD, strOf_getD, strOf_getD, strOf_getD,
      matEnt_natOf _ σ τ i (by omega), matEnt_natOf _ σ τ j hj']
    by_cases h : ∀ m : Fin P.N, m.val ≠ i → m.val ≠ j → σ m = τ m
    · rw [if_pos ((agreeOff_strOf i j σ τ).mpr h), if_pos h]
    · rw [if_neg (fun e => h ((agreeOff_strOf i j σ τ).mp e)), if_neg h, mul_zero]

end dense

/-! ### 4. `sumStrings` is the sum over all configurations -/

section strings
variable {K : Type} [CommRing K]

theorem strOf_cons {n d : ℕ} (x : Fin d) (σ : Cfg n d) :
    strOf (Fin.cons x σ : Cfg (n + 1) d) = x.val :: strOf σ := by
  unfold strOf
  rw [List.ofFn_succ]
  simp

theorem sumStrings_eq_sum (d : ℕ) : ∀ (N : ℕ) (f : List ℕ → K),
    sumStrings d N f = ∑ σ : Cfg N d, f (strOf σ)
  | 0, f => by
    simp [sumStrings, strOf]
  | n + 1, f => by
    simp only [sumStrings, sumTo_eq]
    have ih := fun x : ℕ => sumStrings_eq_sum d n (fun s => f (x :: s))
    simp only [ih]
    rw [← (Fin.consEquiv (fun _ : Fin (n + 1) => Fin d)).sum_comp, Fintype.sum_prod_type,
      ← Fin.sum_univ_eq_sum_range (fun x => ∑ σ : Cfg n d, f (x :: strOf σ)) d]
    refine Finset.sum_congr rfl (fun x _ => Finset.sum_congr rfl (fun σ _ => ?_))
    rw [← strOf_cons]
    rfl

/-- the configuration a level string denotes (levels reduced mod `d`, missing sites level 0) -/
def cfgOf (N d : ℕ) (hd : 0 < d) (s : List ℕ) : Cfg N d := fun k => ⟨s.getD k.val 0 % d, Nat.mod_lt _ hd⟩

theorem strOf_cfgOf (N d : ℕ) (hd : 0 < d) (s : List ℕ) (hs : s.length = N) (hsd : ∀ x ∈ s, x < d) :
    strOf (cfgOf N d hd s) = s := by
  apply List.ext_getElem
  · simp [strOf, hs]
  · intro i h1 h2
    have hx : s[i] < d := hsd _ (List.getElem_mem h2)
    simp [strOf, cfgOf, List.getD_eq_getElem?_getD, h2, Nat.mod_eq_of_lt hx]

theorem cfgOf_strOf (N d : ℕ) (hd : 0 < d) (σ : Cfg N d) : cfgOf N d hd (strOf σ) = σ := by
  funext k
  apply Fin.ext
  simp only [cfgOf, strOf_getD, natOf_lt σ k.val k.isLt]
  exact Nat.mod_eq_of_lt (σ k).isLt

end strings

end EmuVerif.HamBridge
