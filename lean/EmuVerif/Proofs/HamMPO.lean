/-
  The row-vector invariant of the MPO contraction (`Model.HamMPO`) and its step lemmas.

  `R` is any (non-commutative) `α`-algebra, `emb n : A →ₗ[α] R` the site embeddings (only
  linearity and `emb n 1 = 1` are used; no commutation between sites is needed because the
  contraction and the Hamiltonian are both written in site order).

  Invariant on the bond in front of site `n` (row vector `r : Label → R`):
  * left half  (`rhoL n`): `done ↦ Hpre n`, `idle ↦ 1`, `chan i k ↦ emb i (op k)`;
  * right half (`rhoR n`): `done ↦ Hpre n`, `idle ↦ 1`,
      `chan j k ↦ X n j k = Σ_{i<n} (c·U i j) • emb i (op k)`   (channels indexed by the *target* `j`).
  `Hpre n` = all single-site terms and all pair terms with both sites `< n`.
-/
import EmuVerif.Proofs.HamMPOLists
import Mathlib.Algebra.Algebra.Basic
import Mathlib.Algebra.Module.LinearMap.Defs
import Mathlib.Algebra.BigOperators.Ring.Finset
import Mathlib.Algebra.BigOperators.GroupWithZero.Action
import Mathlib.Tactic.Abel

set_option linter.unusedSectionVars false
set_option linter.unusedVariables false

namespace EmuVerif.HamMPO
open Finset

section
variable {α A R : Type} [CommRing α] [DecidableEq α] [AddCommGroup A] [Module α A] [One A]
  [Ring R] [Algebra α R]
variable (P : Params α A) (emb : ℕ → A →ₗ[α] R)

/-- all pair terms whose later site is `j` -/
def pairTerm (j : ℕ) : R :=
  ∑ k ∈ range P.K, ∑ i ∈ range j, (P.c * P.U i j) • (emb i (P.op k) * emb j (P.op k))

/-- the part of the Hamiltonian supported on sites `< n` -/
def Hpre (n : ℕ) : R := ∑ m ∈ range n, (emb m (P.h m) + pairTerm P emb m)

/-- what the channel towards `j` has accumulated from the sites `< n` -/
def X (n j k : ℕ) : R := ∑ i ∈ range n, (P.c * P.U i j) • emb i (P.op k)

def rhoL (n : ℕ) : Label → R
  | .done => Hpre P emb n
  | .idle => 1
  | .chan i k => emb i (P.op k)

def rhoR (n : ℕ) : Label → R
  | .done => Hpre P emb n
  | .idle => 1
  | .chan j k => X P emb n j k

theorem Hpre_succ (n : ℕ) :
    Hpre P emb (n + 1) = Hpre P emb n + (emb n (P.h n) + pairTerm P emb n) := by
  unfold Hpre; rw [Finset.sum_range_succ]

theorem X_succ (n j k : ℕ) :
    X P emb (n + 1) j k = X P emb n j k + (P.c * P.U n j) • emb n (P.op k) := by
  unfold X; rw [Finset.sum_range_succ]

theorem pairTerm_eq_X (n : ℕ) :
    pairTerm P emb n = ∑ k ∈ range P.K, X P emb n n k * emb n (P.op k) := by
  unfold pairTerm X
  apply Finset.sum_congr rfl
  intro k _
  rw [Finset.sum_mul]
  apply Finset.sum_congr rfl
  intro i _
  rw [smul_mul_assoc]

/-! ### single-hit double sums -/

theorem sum_sum_single (n K : ℕ) (p : ℕ → Prop) [DecidablePred p] (g : ℕ → ℕ → R)
    (i' k' : ℕ) (hi : i' < n) (hk : k' < K) (hp : p i') :
    (∑ i ∈ range n, if p i then ∑ k ∈ range K, (if i = i' ∧ k = k' then g i k else 0) else 0)
      = g i' k' := by
  rw [Finset.sum_eq_single i']
  · rw [if_pos hp, Finset.sum_eq_single k']
    · simp
    · intro k _ hkk; simp [hkk]
    · intro h; exact absurd (Finset.mem_range.mpr hk) h
  · intro i _ hii
    split_ifs
    · apply Finset.sum_eq_zero; intro k _; simp [hii]
    · rfl
  · intro h; exact absurd (Finset.mem_range.mpr hi) h

theorem sum_sum_none (n K : ℕ) (p : ℕ → Prop) [DecidablePred p] (g : ℕ → ℕ → R)
    (i' k' : ℕ) (hne : ∀ i, i < n → p i → i ≠ i') :
    (∑ i ∈ range n, if p i then ∑ k ∈ range K, (if i = i' ∧ k = k' then g i k else 0) else 0) = 0 := by
  apply Finset.sum_eq_zero
  intro i hi
  split_ifs with hp
  · apply Finset.sum_eq_zero; intro k _
    simp [hne i (Finset.mem_range.mp hi) hp]
  · rfl

/-! ### sums over the four kinds of label list -/

theorem sum_LLl (f : Label → R) (n : ℕ) :
    ((LLl P n).map f).sum
      = f .done + (f .idle + ∑ i ∈ range n, if curL P n i then ∑ k ∈ range P.K, f (.chan i k) else 0) := by
  unfold LLl
  rw [List.map_cons, List.sum_cons, List.map_cons, List.sum_cons, sum_chanList_range]

theorem sum_LLr (f : Label → R) (n : ℕ) :
    ((LLr P n).map f).sum
      = f .done + (f .idle + ((if hasLeft P n then ∑ k ∈ range P.K, f (.chan n k) else 0)
          + ∑ j ∈ range P.N, if n < j ∧ keepR P n j then ∑ k ∈ range P.K, f (.chan j k) else 0)) := by
  unfold LLr
  rw [List.map_cons, List.sum_cons, List.map_cons, List.sum_cons, List.map_append, List.sum_append,
    sum_optChans, sum_chanList_after]

/-! ### closing the channels of the left half at site `n` (column `done` of `left`/`middle`) -/

theorem close_left (n : ℕ) (hn : n < P.N) :
    (∑ i ∈ range n, if curL P n i then
        ∑ k ∈ range P.K, emb i (P.op k) * emb n ((P.c * P.U i n) • P.op k) else 0)
      = pairTerm P emb n := by
  unfold pairTerm
  rw [Finset.sum_comm]
  apply Finset.sum_congr rfl
  intro i _
  by_cases h : curL P n i = true
  · rw [if_pos h]
    apply Finset.sum_congr rfl
    intro k _
    rw [map_smul, mul_smul_comm]
  · have h0 : P.U i n = 0 := anyRow_false (by simpa [curL] using h) (le_refl n) hn
    rw [if_neg h]
    simp [h0]

/-! ### step lemmas: one column of `row vector × factor` -/

variable (hemb : ∀ n, emb n 1 = 1)
include hemb

theorem hit_rewrite (n i i' k k' : ℕ) (x : R) :
    x * emb n (if i = i' ∧ k = k' then (1 : A) else 0) = if i = i' ∧ k = k' then x else 0 := by
  split_ifs <;> simp [hemb]

/-- `first_factor` (n = 0) / `left_factor(n)`: every column of the product. -/
theorem step_left (n : ℕ) (hn : n < P.N) (l' : Label) (hl : l' ∈ LRl P n) :
    ((LLl P n).map (fun l => rhoL P emb n l * emb n (Wleft P n l l'))).sum
      = rhoL P emb (n + 1) l' := by
  rw [sum_LLl]
  simp only [LRl, List.mem_cons, List.mem_append] at hl
  rcases hl with rfl | rfl | hl | hl
  · simp only [rhoL, Wleft, hemb, mul_one, one_mul]
    rw [close_left P emb n hn, Hpre_succ]
  · simp [rhoL, Wleft, hemb]
  · obtain ⟨i', k', rfl, hi, hp, hk⟩ := mem_chanList hl
    have hi' : i' < n := List.mem_range.mp hi
    have hne : i' ≠ n := ne_of_lt hi'
    have hcur : curL P n i' = true := anyRow_mono (Nat.le_succ n) hp
    simp only [rhoL, Wleft, hne, if_false, map_zero, mul_zero, zero_add, hit_rewrite emb hemb]
    exact sum_sum_single n P.K (fun i => curL P n i = true) (fun i k => emb i (P.op k)) i' k' hi' hk hcur
  · obtain ⟨k', rfl, hb, hk⟩ := mem_optChans hl
    simp only [rhoL, Wleft, if_true, map_zero, mul_zero, zero_add, one_mul, hit_rewrite emb hemb]
    rw [sum_sum_none n P.K (fun i => curL P n i = true) (fun i k => emb i (P.op k)) n k'
      (fun i hi _ => ne_of_lt hi)]
    simp

theorem mid_rewrite (n k k' : ℕ) (a : α) (x : R) :
    x * emb n (if k = k' then a • (1 : A) else 0) = if k = k' then a • x else 0 := by
  split_ifs <;> simp [hemb]

variable (hU : ∀ i j, P.U i j = P.U j i)
include hU

/-- `middle_factor` at any site `n`: every column of the product. The left-half channels
(`emb i (op k)`, indexed by their source) are converted into right-half channels (indexed by their
target `j`, carrying `X (n+1) j k`). -/
theorem step_mid (n : ℕ) (hn : n < P.N) (l' : Label) (hl : l' ∈ LRr P n) :
    ((LLl P n).map (fun l => rhoL P emb n l * emb n (Wmid P n l l'))).sum
      = rhoR P emb (n + 1) l' := by
  rw [sum_LLl]
  simp only [LRr, List.mem_cons] at hl
  rcases hl with rfl | rfl | hl
  · simp only [rhoL, rhoR, Wmid, hemb, mul_one, one_mul]
    rw [close_left P emb n hn, Hpre_succ]
  · simp [rhoL, rhoR, Wmid, hemb]
  · obtain ⟨j, k', rfl, hj, hp, hk⟩ := mem_chanList hl
    obtain ⟨hjN, hnj⟩ := mem_after.mp hj
    simp only [rhoL, rhoR, Wmid, map_zero, mul_zero, zero_add, one_mul, mid_rewrite emb hemb,
      Finset.sum_ite_eq', Finset.mem_range, hk, if_true, map_smul]
    rw [X_succ, hU j n, add_comm]
    congr 1
    unfold X
    apply Finset.sum_congr rfl
    intro i _
    by_cases h : curL P n i = true
    · rw [if_pos h]
    · have h0 : P.U i j = 0 := anyRow_false (by simpa [curL] using h) (le_of_lt hnj) hjN
      rw [if_neg h, h0]; simp

/-- closing the channel that targets site `n` (column `done` of `right`/`last`). -/
theorem close_right (n : ℕ) :
    (if hasLeft P n then ∑ k ∈ range P.K, X P emb n n k * emb n (P.op k) else 0)
      = pairTerm P emb n := by
  by_cases h : hasLeft P n = true
  · rw [if_pos h, pairTerm_eq_X]
  · rw [if_neg h]
    unfold pairTerm
    symm
    apply Finset.sum_eq_zero; intro k _
    apply Finset.sum_eq_zero; intro i hi
    have h0 : P.U n i = 0 :=
      anyRow_false (by simpa [hasLeft] using h) (Nat.zero_le i) (Finset.mem_range.mp hi)
    rw [hU i n, h0]; simp

/-- `right_factor(n)` (and, through its column `done`, `last_factor` for `N ≥ 3`). -/
theorem step_right (n : ℕ) (hn : n < P.N) (l' : Label) (hl : l' ∈ LRr P n) :
    ((LLr P n).map (fun l => rhoR P emb n l * emb n (Wright P n l l'))).sum
      = rhoR P emb (n + 1) l' := by
  rw [sum_LLr]
  simp only [LRr, List.mem_cons] at hl
  rcases hl with rfl | rfl | hl
  · simp only [rhoR, Wright, hemb, mul_one, one_mul, if_true]
    rw [close_right P emb hemb hU n, Hpre_succ]
    have : (∑ j ∈ range P.N, if n < j ∧ keepR P n j = true then
        ∑ k ∈ range P.K, X P emb n j k * emb n (if j = n then P.op k else 0) else 0) = 0 := by
      apply Finset.sum_eq_zero; intro j _
      by_cases hj : n < j ∧ keepR P n j = true
      · rw [if_pos hj]
        apply Finset.sum_eq_zero; intro k _
        simp [ne_of_gt hj.1]
      · rw [if_neg hj]
    rw [this, add_zero]
  · simp [rhoR, Wright, hemb]
  · obtain ⟨j, k', rfl, hj, hp, hk⟩ := mem_chanList hl
    obtain ⟨hjN, hnj⟩ := mem_after.mp hj
    simp only [rhoR, Wright, map_zero, mul_zero, zero_add, one_mul, hit_rewrite emb hemb, map_smul]
    have e1 : (if hasLeft P n = true then
        ∑ k ∈ range P.K, (if n = j ∧ k = k' then X P emb n n k else 0) else 0) = 0 := by
      split_ifs
      · apply Finset.sum_eq_zero; intro k _; simp [ne_of_lt hnj]
      · rfl
    rw [e1, zero_add, X_succ, hU j n, add_comm]
    congr 1
    by_cases hkeep : keepR P n j = true
    · exact sum_sum_single P.N P.K (fun j' => n < j' ∧ keepR P n j' = true)
        (fun j' k => X P emb n j' k) j k' hjN hk ⟨hnj, hkeep⟩
    · rw [sum_sum_none P.N P.K (fun j' => n < j' ∧ keepR P n j' = true)
        (fun j' k => X P emb n j' k) j k' (fun j' _ hp' hjj => hkeep (hjj ▸ hp'.2))]
      unfold X
      symm
      apply Finset.sum_eq_zero; intro i hi
      have h0 : P.U j i = 0 :=
        anyRow_false (by simpa [keepR] using hkeep) (Nat.zero_le i) (Finset.mem_range.mp hi)
      rw [hU i j, h0]; simp

/-! ### whole factors: `rowStep` maps the invariant of one bond to the invariant of the next -/

omit hU in
theorem rowStep_first (hN : 0 < P.N) :
    rowStep (emb 0) [1] (firstF P) = (LLl P 1).map (rhoL P emb 1) := by
  have e : ([1] : List R) = [Label.idle].map (rhoL P emb 0) := rfl
  unfold firstF
  rw [e, rowStep_enum, ← bondsAgree_left]
  apply List.map_congr_left
  intro l' hl
  rw [← step_left P emb hemb 0 hN l' hl, sum_LLl]
  simp [rhoL, Hpre]

omit hU in
theorem rowStep_left (n : ℕ) (hn : n < P.N) :
    rowStep (emb n) ((LLl P n).map (rhoL P emb n)) (leftF P n)
      = (LLl P (n + 1)).map (rhoL P emb (n + 1)) := by
  unfold leftF
  rw [rowStep_enum, ← bondsAgree_left]
  exact List.map_congr_left (step_left P emb hemb n hn)

theorem rowStep_mid (n : ℕ) (hn : n + 1 < P.N) :
    rowStep (emb n) ((LLl P n).map (rhoL P emb n)) (enumFactor (LLl P n) (LRr P n) (Wmid P n))
      = (LLr P (n + 1)).map (rhoR P emb (n + 1)) := by
  rw [rowStep_enum, ← bondsAgree_right P n hn]
  exact List.map_congr_left (step_mid P emb hemb hU n (by omega))

theorem rowStep_right (n : ℕ) (hn : n + 1 < P.N) :
    rowStep (emb n) ((LLr P n).map (rhoR P emb n)) (rightF P n)
      = (LLr P (n + 1)).map (rhoR P emb (n + 1)) := by
  unfold rightF
  rw [rowStep_enum, ← bondsAgree_right P n hn]
  exact List.map_congr_left (step_right P emb hemb hU n (by omega))

theorem rowStep_last (n : ℕ) (hn : n < P.N) :
    rowStep (emb n) ((LLr P n).map (rhoR P emb n)) (enumFactor (LLr P n) [.done] (Wright P n))
      = [Hpre P emb (n + 1)] := by
  rw [rowStep_enum, List.map_singleton,
    step_right P emb hemb hU n hn .done (by simp [LRr])]
  rfl

/-- `N = 2`: `last_factor` closes the channel opened by `first_factor` with the explicit
coefficient `U[0,1]`. -/
theorem rowStep_last2 (hN : P.N = 2) :
    rowStep (emb 1) ((LLl P 1).map (rhoL P emb 1)) (enumFactor (LLlast2 P) [.done] (Wlast2 P))
      = [Hpre P emb 2] := by
  have hb : hasLeft P 1 = curL P 1 0 := by
    unfold hasLeft curL anyRow
    rw [hN]
    simp [List.range_succ, hU 1 0]
  have hLL : LLlast2 P = LLl P 1 := by
    unfold LLlast2 LLl
    rw [chanList_range_succ, hb]
    simp [chanList]
  rw [hLL, rowStep_enum, List.map_singleton, sum_LLl]
  simp only [rhoL, Wlast2, hemb, mul_one, one_mul]
  rw [Hpre_succ P emb 1, ← close_left P emb 1 (by omega)]
  simp only [Finset.sum_range_one]

/-! ### chains of factors -/

omit hemb hU in
theorem contract_append (e : ℕ → A → R) (Fs Gs : List (Factor A)) (n : ℕ) (r : List R) :
    contractFrom e n r (Fs ++ Gs) = contractFrom e (n + Fs.length) (contractFrom e n r Fs) Gs := by
  induction Fs generalizing n r with
  | nil => simp [contractFrom]
  | cons F Fs ih =>
    simp only [List.cons_append, contractFrom, List.length_cons]
    rw [ih]
    congr 1
    omega

omit hemb hU in
theorem contract_append' (e : ℕ → A → R) (Fs Gs : List (Factor A)) (n : ℕ) (r : List R) (k : ℕ)
    (hk : k = n + Fs.length) :
    contractFrom e n r (Fs ++ Gs) = contractFrom e k (contractFrom e n r Fs) Gs := by
  rw [hk, contract_append]

omit hU in
theorem contract_lefts (len a : ℕ) (h : a + len ≤ P.N) :
    contractFrom (fun n => ⇑(emb n)) a ((LLl P a).map (rhoL P emb a))
        ((List.range' a len).map (leftF P))
      = (LLl P (a + len)).map (rhoL P emb (a + len)) := by
  induction len generalizing a with
  | zero => simp [contractFrom]
  | succ len ih =>
    rw [List.range'_succ, List.map_cons]
    simp only [contractFrom]
    rw [rowStep_left P emb hemb a (by omega), ih (a + 1) (by omega)]
    congr 2 <;> omega

theorem contract_rights (len a : ℕ) (h : a + len < P.N) :
    contractFrom (fun n => ⇑(emb n)) a ((LLr P a).map (rhoR P emb a))
        ((List.range' a len).map (rightF P))
      = (LLr P (a + len)).map (rhoR P emb (a + len)) := by
  induction len generalizing a with
  | zero => simp [contractFrom]
  | succ len ih =>
    rw [List.range'_succ, List.map_cons]
    simp only [contractFrom]
    rw [rowStep_right P emb hemb hU a (by omega), ih (a + 1) (by omega)]
    congr 2 <;> omega

/-- The chain `first, left(1..m-1), middle(m), right(m+1..N-2), last` contracts to the whole
Hamiltonian, for **any** split point `1 ≤ m ≤ N-2` (the code uses `m = N / 2`). -/
theorem contract_split (m : ℕ) (h1 : 1 ≤ m) (h2 : m + 1 < P.N) :
    contractFrom (fun n => ⇑(emb n)) 0 [1]
      (firstF P :: ((List.range' 1 (m - 1)).map (leftF P)
        ++ [enumFactor (LLl P m) (LRr P m) (Wmid P m)]
        ++ (List.range' (m + 1) (P.N - 1 - (m + 1))).map (rightF P)
        ++ [enumFactor (LLr P (P.N - 1)) [.done] (Wright P (P.N - 1))]))
      = [Hpre P emb P.N] := by
  simp only [contractFrom]
  rw [rowStep_first P emb hemb (by omega),
    contract_append' _ _ _ _ _ (P.N - 1) (by simp; omega),
    contract_append' _ _ _ _ _ (m + 1) (by simp; omega),
    contract_append' _ _ _ _ _ m (by simp; omega),
    contract_lefts P emb hemb (m - 1) 1 (by omega)]
  have e1 : 1 + (m - 1) = m := by omega
  simp only [contractFrom]
  rw [e1, rowStep_mid P emb hemb hU m h2, contract_rights P emb hemb hU _ (m + 1) (by omega)]
  have e2 : m + 1 + (P.N - 1 - (m + 1)) = P.N - 1 := by omega
  rw [e2, rowStep_last P emb hemb hU (P.N - 1) (by omega)]
  congr 2
  omega

end
end EmuVerif.HamMPO
