/-
  List / mask bookkeeping lemmas for `Model.HamMPO`:
  sums over the label lists as `Finset.range` sums, what a `false` mask says about `U`,
  membership in the label lists, agreement of neighbouring bonds, and the enumeration lemma
  `rowStep_enum` (positional row-vector × factor product = label-indexed sum).
-/
import EmuVerif.Model.HamMPO
import Mathlib.Algebra.BigOperators.Group.Finset.Basic
import Mathlib.Algebra.BigOperators.Group.List.Basic
import Mathlib.Algebra.Ring.Defs

set_option linter.unusedSectionVars false
set_option linter.unusedVariables false

namespace EmuVerif.HamMPO
open Finset

section sums
variable {M : Type} [AddCommMonoid M]

theorem sum_map_range (f : ℕ → M) (n : ℕ) :
    ((List.range n).map f).sum = ∑ i ∈ range n, f i := by
  induction n with
  | zero => simp
  | succ n ih => rw [List.range_succ, List.map_append, List.sum_append, ih, Finset.sum_range_succ]; simp

theorem sum_map_filter {ι : Type} (l : List ι) (p : ι → Bool) (f : ι → M) :
    ((l.filter p).map f).sum = (l.map fun i => if p i then f i else 0).sum := by
  induction l with
  | nil => simp
  | cons a l ih =>
    by_cases h : p a = true
    · simp [h, ih]
    · simp [h, ih]

theorem sum_map_flatMap {ι κ : Type} (l : List ι) (g : ι → List κ) (f : κ → M) :
    ((l.flatMap g).map f).sum = (l.map fun i => ((g i).map f).sum).sum := by
  induction l with
  | nil => simp
  | cons a l ih => simp [List.flatMap_cons, ih]

theorem sum_chans (f : Label → M) (K i : ℕ) :
    ((chans K i).map f).sum = ∑ k ∈ range K, f (.chan i k) := by
  unfold chans
  rw [List.map_map, sum_map_range]
  rfl

theorem sum_optChans (f : Label → M) (K : ℕ) (b : Bool) (i : ℕ) :
    ((optChans K b i).map f).sum = if b then ∑ k ∈ range K, f (.chan i k) else 0 := by
  unfold optChans
  cases b <;> simp [sum_chans]

theorem sum_chanList_range (f : Label → M) (K n : ℕ) (p : ℕ → Bool) :
    ((chanList K (List.range n) p).map f).sum
      = ∑ i ∈ range n, if p i then ∑ k ∈ range K, f (.chan i k) else 0 := by
  unfold chanList
  rw [sum_map_flatMap, sum_map_filter, sum_map_range]
  simp only [sum_chans]

theorem sum_chanList_after (f : Label → M) (K N n : ℕ) (p : ℕ → Bool) :
    ((chanList K (after N n) p).map f).sum
      = ∑ j ∈ range N, if n < j ∧ p j then ∑ k ∈ range K, f (.chan j k) else 0 := by
  unfold chanList after
  rw [sum_map_flatMap, sum_map_filter, sum_map_filter, sum_map_range]
  apply Finset.sum_congr rfl
  intro j _
  by_cases h1 : n < j <;> by_cases h2 : p j = true <;> simp [h1, h2, sum_chans]

end sums

/-! ### masks -/
section masks
variable {α A : Type} [Zero α] [DecidableEq α]

theorem anyRow_false {U : ℕ → ℕ → α} {i lo hi : ℕ} (h : anyRow U i lo hi = false)
    {j : ℕ} (h1 : lo ≤ j) (h2 : j < hi) : U i j = 0 := by
  unfold anyRow at h
  rw [List.any_eq_false] at h
  have := h j (List.mem_range.mpr h2)
  simpa [nz, h1] using this

theorem anyRow_mono {U : ℕ → ℕ → α} {i lo lo' hi : ℕ} (hl : lo' ≤ lo)
    (h : anyRow U i lo hi = true) : anyRow U i lo' hi = true := by
  unfold anyRow at h ⊢
  rw [List.any_eq_true] at h ⊢
  obtain ⟨j, hj, hp⟩ := h
  refine ⟨j, hj, ?_⟩
  simp only [Bool.and_eq_true, decide_eq_true_eq] at hp ⊢
  exact ⟨le_trans hl hp.1, hp.2⟩

/-- membership in a channel list -/
theorem mem_chanList {K : ℕ} {is : List ℕ} {p : ℕ → Bool} {l : Label}
    (h : l ∈ chanList K is p) : ∃ i k, l = .chan i k ∧ i ∈ is ∧ p i = true ∧ k < K := by
  unfold chanList chans at h
  rw [List.mem_flatMap] at h
  obtain ⟨i, hi, hl⟩ := h
  rw [List.mem_filter] at hi
  rw [List.mem_map] at hl
  obtain ⟨k, hk, rfl⟩ := hl
  exact ⟨i, k, rfl, hi.1, hi.2, List.mem_range.mp hk⟩

theorem mem_optChans {K : ℕ} {b : Bool} {i : ℕ} {l : Label}
    (h : l ∈ optChans K b i) : ∃ k, l = .chan i k ∧ b = true ∧ k < K := by
  unfold optChans at h
  cases b
  · simp at h
  · simp only [if_true, chans, List.mem_map, List.mem_range] at h
    obtain ⟨k, hk, rfl⟩ := h
    exact ⟨k, rfl, rfl, hk⟩

theorem mem_after {N n j : ℕ} : j ∈ after N n ↔ j < N ∧ n < j := by
  unfold after
  simp [List.mem_filter]

/-- `chanList` over `0..n` splits off site `n`. -/
theorem chanList_range_succ (K n : ℕ) (p : ℕ → Bool) :
    chanList K (List.range (n + 1)) p = chanList K (List.range n) p ++ optChans K (p n) n := by
  unfold chanList optChans
  rw [List.range_succ, List.filter_append, List.flatMap_append]
  cases h : p n <;> simp [h]

theorem filter_ge_split (N n : ℕ) (hn : n < N) (p : ℕ → Bool) :
    (List.range N).filter (fun j => decide (n ≤ j) && p j)
      = (if p n then [n] else []) ++ (List.range N).filter (fun j => decide (n < j) && p j) := by
  induction N with
  | zero => omega
  | succ M ih =>
    rw [List.range_succ, List.filter_append, List.filter_append]
    rcases Nat.lt_succ_iff_lt_or_eq.mp hn with h | h
    · have h1 : n ≤ M := le_of_lt h
      have e : [M].filter (fun j => decide (n ≤ j) && p j) = [M].filter (fun j => decide (n < j) && p j) := by
        simp [List.filter_cons, h, h1]
      rw [ih h, List.append_assoc, e]
    · subst h
      have e1 : (List.range n).filter (fun j => decide (n ≤ j) && p j) = [] := by
        rw [List.filter_eq_nil_iff]
        intro a ha
        have := List.mem_range.mp ha
        simp; omega
      have e2 : (List.range n).filter (fun j => decide (n < j) && p j) = [] := by
        rw [List.filter_eq_nil_iff]
        intro a ha
        have := List.mem_range.mp ha
        simp; omega
      rw [e1, e2]
      cases h : p n <;> simp [h]

/-- the channels after site `n` split off site `n+1`. -/
theorem chanList_after_split (K N n : ℕ) (hn : n + 1 < N) (p : ℕ → Bool) :
    chanList K (after N n) p = optChans K (p (n + 1)) (n + 1) ++ chanList K (after N (n + 1)) p := by
  unfold chanList after optChans
  rw [List.filter_filter, List.filter_filter]
  have := filter_ge_split N (n + 1) hn p
  have e : (fun j => p j && decide (n < j)) = (fun j => decide (n + 1 ≤ j) && p j) := by
    funext j; rw [Bool.and_comm]; rfl
  have e' : (fun j => p j && decide (n + 1 < j)) = (fun j => decide (n + 1 < j) && p j) := by
    funext j; rw [Bool.and_comm]
  rw [e, e', this, List.flatMap_append]
  cases h : p (n + 1) <;> simp [h]

variable (P : Params α A)

/-- **Bond agreement, left half**: the right bond of `first/left_factor(n)` is, label by label and
in the same order, the left bond of `left_factor(n+1)` / `middle_factor`. -/
theorem bondsAgree_left (n : ℕ) : LRl P n = LLl P (n + 1) := by
  unfold LRl LLl
  rw [chanList_range_succ]
  rfl

/-- **Bond agreement, right half**: the right bond of `middle/right_factor(n)` is the left bond of
`right_factor(n+1)` / `last_factor`. -/
theorem bondsAgree_right (n : ℕ) (hn : n + 1 < P.N) : LRr P n = LLr P (n + 1) := by
  unfold LRr LLr
  rw [chanList_after_split _ _ _ hn]
  rfl

end masks

/-! ### positional product = label-indexed sum -/
section enum
variable {A R : Type} [Zero A] [Ring R]

theorem rowStep_enum (e : A → R) (ρ : Label → R) (LL LR : List Label) (W : Label → Label → A) :
    rowStep e (LL.map ρ) (enumFactor LL LR W)
      = LR.map (fun l' => (LL.map (fun l => ρ l * e (W l l'))).sum) := by
  unfold rowStep enumFactor
  apply List.ext_getElem
  · simp
  · intro b h1 h2
    simp only [List.length_map, List.length_range] at h1 h2
    simp only [List.getElem_map, List.getElem_range, List.zipWith_map, List.zipWith_self]
    congr 1
    apply List.map_congr_left
    intro l _
    simp [List.getD_eq_getElem?_getD, h1]

end enum

end EmuVerif.HamMPO
