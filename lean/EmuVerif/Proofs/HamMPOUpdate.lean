/-
  `update_H` on the model: overwriting the single-site slots of the enumerated factors is the same
  as rebuilding the factors with the new single-site terms.
-/
import EmuVerif.Proofs.HamMPOLists

set_option linter.unusedSectionVars false
set_option linter.unusedVariables false

namespace EmuVerif.HamMPO

def Label.isChan : Label → Bool
  | .chan _ _ => true
  | _ => false

section
variable {α A : Type} [Zero α] [Mul α] [DecidableEq α] [Zero A] [One A] [SMul α A]

theorem isChan_chanList {K : ℕ} {is : List ℕ} {p : ℕ → Bool} {l : Label}
    (h : l ∈ chanList K is p) : l.isChan = true := by
  obtain ⟨i, k, rfl, _⟩ := mem_chanList h
  rfl

theorem isChan_optChans {K : ℕ} {b : Bool} {i : ℕ} {l : Label}
    (h : l ∈ optChans K b i) : l.isChan = true := by
  obtain ⟨k, rfl, _⟩ := mem_optChans h
  rfl

/-- the parameters with other single-site terms -/
def withH (P : Params α A) (h' : ℕ → A) : Params α A := { P with h := h' }

/-- `factor[1, :, :, 0] = x` on an enumerated factor whose bonds start `done, idle` / `done`. -/
theorem setEntry_enum (LLc LRc : List Label) (W W' : Label → Label → A) (x : A)
    (hW : ∀ l l', ¬(l = .idle ∧ l' = .done) → W' l l' = W l l') (hx : W' .idle .done = x)
    (hL : ∀ l ∈ LLc, l.isChan = true) (hR : ∀ l ∈ LRc, l ≠ .done) :
    setEntry (enumFactor (.done :: .idle :: LLc) (.done :: LRc) W) 1 0 x
      = enumFactor (.done :: .idle :: LLc) (.done :: LRc) W' := by
  unfold setEntry enumFactor
  simp only [List.map_cons, List.getD_cons_succ, List.getD_cons_zero, List.set_cons_succ,
    List.set_cons_zero, List.length_cons, List.length_map]
  have r0 : ∀ l', W' .done l' = W .done l' := fun l' => hW _ _ (by simp)
  have r1 : LRc.map (W' .idle) = LRc.map (W .idle) :=
    List.map_congr_left (fun l' hl' => hW _ _ (by simp [hR l' hl']))
  have r2 : LLc.map (fun l => W' l .done :: LRc.map (W' l))
      = LLc.map (fun l => W l .done :: LRc.map (W l)) := by
    apply List.map_congr_left
    intro l hl
    have hne : l ≠ .idle := by
      intro e; have := hL l hl; rw [e] at this; simp [Label.isChan] at this
    have : ∀ l', W' l l' = W l l' := fun l' => hW _ _ (by simp [hne])
    simp [this]
  simp only [r0, r1, r2, hx]
  congr 3
  exact funext r0 ▸ rfl

/-- `factor[0, :, :, 0] = x` on the first factor. -/
theorem setEntry_enum_first (LRc : List Label) (W W' : Label → Label → A) (x : A)
    (hW : ∀ l l', ¬(l = .idle ∧ l' = .done) → W' l l' = W l l') (hx : W' .idle .done = x)
    (hR : ∀ l ∈ LRc, l ≠ .done) :
    setEntry (enumFactor [.idle] (.done :: LRc) W) 0 0 x = enumFactor [.idle] (.done :: LRc) W' := by
  unfold setEntry enumFactor
  simp only [List.map_cons, List.map_nil, List.getD_cons_zero, List.set_cons_zero]
  have r1 : LRc.map (W' .idle) = LRc.map (W .idle) :=
    List.map_congr_left (fun l' hl' => hW _ _ (by simp [hR l' hl']))
  rw [r1, hx]

variable (P : Params α A) (h' : ℕ → A)

theorem Wleft_withH (n : ℕ) (l l' : Label) (hne : ¬(l = .idle ∧ l' = .done)) :
    Wleft (withH P h') n l l' = Wleft P n l l' := by
  cases l <;> cases l' <;> first | rfl | exact absurd ⟨rfl, rfl⟩ hne

theorem Wmid_withH (n : ℕ) (l l' : Label) (hne : ¬(l = .idle ∧ l' = .done)) :
    Wmid (withH P h') n l l' = Wmid P n l l' := by
  cases l <;> cases l' <;> first | rfl | exact absurd ⟨rfl, rfl⟩ hne

theorem Wright_withH (n : ℕ) (l l' : Label) (hne : ¬(l = .idle ∧ l' = .done)) :
    Wright (withH P h') n l l' = Wright P n l l' := by
  cases l <;> cases l' <;> first | rfl | exact absurd ⟨rfl, rfl⟩ hne

theorem Wlast2_withH (l l' : Label) (hne : ¬(l = .idle ∧ l' = .done)) :
    Wlast2 (withH P h') l l' = Wlast2 P l l' := by
  cases l <;> cases l' <;> first | rfl | exact absurd ⟨rfl, rfl⟩ hne

theorem ne_done_of_LRl {n : ℕ} {l : Label}
    (h : l ∈ Label.idle :: (chanList P.K (List.range n) (keepL P n) ++ optChans P.K (hasRight P n) n)) :
    l ≠ .done := by
  simp only [List.mem_cons, List.mem_append] at h
  rcases h with rfl | h | h
  · simp
  · intro e; have := isChan_chanList h; rw [e] at this; simp [Label.isChan] at this
  · intro e; have := isChan_optChans h; rw [e] at this; simp [Label.isChan] at this

theorem ne_done_of_LRr {n : ℕ} {l : Label}
    (h : l ∈ Label.idle :: chanList P.K (after P.N n) (curR P n)) : l ≠ .done := by
  simp only [List.mem_cons] at h
  rcases h with rfl | h
  · simp
  · intro e; have := isChan_chanList h; rw [e] at this; simp [Label.isChan] at this

theorem isChan_LLr_rest {n : ℕ} {l : Label}
    (h : l ∈ optChans P.K (hasLeft P n) n ++ chanList P.K (after P.N n) (keepR P n)) :
    l.isChan = true := by
  rcases List.mem_append.mp h with h | h
  · exact isChan_optChans h
  · exact isChan_chanList h

theorem update_first : setEntry (firstF P) 0 0 (h' 0) = firstF (withH P h') :=
  setEntry_enum_first _ _ _ (h' 0) (Wleft_withH P h' 0) rfl (fun _ h => ne_done_of_LRl P h)

theorem update_left (n : ℕ) : setEntry (leftF P n) 1 0 (h' n) = leftF (withH P h') n :=
  setEntry_enum _ _ _ _ (h' n) (Wleft_withH P h' n) rfl (fun _ h => isChan_chanList h)
    (fun _ h => ne_done_of_LRl P h)

theorem update_middle : setEntry (middleF P) 1 0 (h' (mid P)) = middleF (withH P h') :=
  setEntry_enum _ _ _ _ (h' (mid P)) (Wmid_withH P h' (mid P)) rfl (fun _ h => isChan_chanList h)
    (fun _ h => ne_done_of_LRr P h)

theorem update_right (n : ℕ) : setEntry (rightF P n) 1 0 (h' n) = rightF (withH P h') n :=
  setEntry_enum _ _ _ _ (h' n) (Wright_withH P h' n) rfl (fun _ h => isChan_LLr_rest P h)
    (fun _ h => ne_done_of_LRr P h)

theorem update_last (hN : 2 ≤ P.N) : setEntry (lastF P) 1 0 (h' (P.N - 1)) = lastF (withH P h') := by
  unfold lastF
  have e : (withH P h').N = P.N := rfl
  rw [e]
  by_cases h2 : P.N = 2
  · rw [if_pos h2, if_pos h2, h2]
    exact setEntry_enum _ [] _ _ (h' 1) (Wlast2_withH P h') rfl (fun _ h => isChan_optChans h)
      (fun _ h => by simp at h)
  · rw [if_neg h2, if_neg h2]
    exact setEntry_enum _ [] _ _ (h' (P.N - 1)) (Wright_withH P h' (P.N - 1)) rfl
      (fun _ h => isChan_LLr_rest P h) (fun _ h => by simp at h)

/-! ### the whole list -/

theorem updateFrom_append (h : ℕ → A) (i : ℕ) (Fs Gs : List (Factor A)) :
    updateFrom h i (Fs ++ Gs) = updateFrom h i Fs ++ updateFrom h (i + Fs.length) Gs := by
  induction Fs generalizing i with
  | nil => simp [updateFrom]
  | cons F Fs ih =>
    simp only [List.cons_append, updateFrom, List.length_cons, ih]
    congr 3
    omega

theorem updateFrom_map (f g : ℕ → Factor A) (len a : ℕ) (ha : 1 ≤ a)
    (hfg : ∀ n, setEntry (f n) 1 0 (h' n) = g n) :
    updateFrom h' a ((List.range' a len).map f) = (List.range' a len).map g := by
  induction len generalizing a with
  | zero => simp [updateFrom]
  | succ len ih =>
    rw [List.range'_succ, List.map_cons, List.map_cons]
    simp only [updateFrom]
    rw [if_neg (by omega), hfg, ih (a + 1) (by omega)]

/-- **`update_H` after `make_H`/any earlier `update_H` = the factors built with the new terms.** -/
theorem updateH_factors (hN : 2 ≤ P.N) :
    updateH (factors P) h' = factors (withH P h') := by
  have hm : 1 ≤ mid P := by unfold mid; omega
  have emid : mid (withH P h') = mid P := rfl
  have eN : (withH P h').N = P.N := rfl
  unfold updateH factors
  rw [emid, eN]
  by_cases h3 : 3 ≤ P.N
  · have hm2 : mid P + 1 < P.N := by unfold mid at *; omega
    simp only [if_pos h3, updateFrom, if_true]
    rw [update_first, updateFrom_append, updateFrom_append, updateFrom_append,
      updateFrom_map h' (leftF P) (leftF (withH P h')) _ 1 (le_refl 1) (update_left P h')]
    simp only [List.length_append, List.length_map, List.length_range', List.length_singleton]
    have i1 : 0 + 1 + (mid P - 1) = mid P := by omega
    have i2 : 0 + 1 + (mid P - 1 + 1) = mid P + 1 := by omega
    have i3 : 0 + 1 + (mid P - 1 + 1 + (P.N - 1 - (mid P + 1))) = P.N - 1 := by omega
    rw [i1, i2, i3,
      updateFrom_map h' (rightF P) (rightF (withH P h')) _ (mid P + 1) (by omega) (update_right P h')]
    simp only [updateFrom]
    rw [if_neg (by omega), if_neg (by omega), update_middle, update_last P h' hN]
  · have h2 : P.N = 2 := by omega
    have hmid : mid P = 1 := by unfold mid; omega
    have hl := update_last P h' hN
    rw [h2] at hl
    simp only [if_neg h3]
    simp only [hmid, h2, updateFrom, if_true, Nat.reduceAdd, Nat.reduceSub, List.range',
      List.map_nil, List.append_nil, List.nil_append] at hl ⊢
    rw [update_first, if_neg (by omega), hl]

end
end EmuVerif.HamMPO
