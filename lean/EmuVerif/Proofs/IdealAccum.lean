/- Error accumulation over a product of isometries (any seminormed group): the lemma that turns a
   per-step relative accuracy contract (C07) into an end-to-end bound (C01/C16). -/
import Mathlib.Analysis.Normed.Group.Basic
import Mathlib.Analysis.Normed.Operator.LinearIsometry
import Mathlib.Tactic.Linarith
import Mathlib.Tactic.Ring
import Mathlib.Tactic.GCongr

namespace EmuVerif.Accum

variable {E : Type*} [SeminormedAddCommGroup E]

/-- One step of a run: the exact propagator (additive, norm preserving — e.g. `exp(-i dt H)` for
Hermitian `H`) next to the map the program actually applies. -/
structure IsoStep (E : Type*) [SeminormedAddCommGroup E] where
  exact : E → E
  comp : E → E
  map_sub : ∀ x y, exact (x - y) = exact x - exact y
  norm_map : ∀ x, ‖exact x‖ = ‖x‖

/-- State after applying the computed steps in order. -/
def runComp (l : List (IsoStep E)) (x : E) : E := l.foldl (fun s p => p.comp s) x
/-- State after applying the exact propagators in order. -/
def runExact (l : List (IsoStep E)) (x : E) : E := l.foldl (fun s p => p.exact s) x

theorem norm_runExact (l : List (IsoStep E)) (x : E) : ‖runExact l x‖ = ‖x‖ := by
  induction l generalizing x with
  | nil => rfl
  | cons p l ih => simp only [runExact, List.foldl_cons] at ih ⊢; rw [ih, p.norm_map]

/-- Generalised invariant: starting from two different states `c` (computed) and `e` (exact). -/
theorem accumulate_aux (ε : ℝ) (hε : 0 ≤ ε) (l : List (IsoStep E))
    (h : ∀ p ∈ l, ∀ x, ‖p.comp x - p.exact x‖ ≤ ε * ‖x‖) (c e : E) :
    ‖runComp l c - runExact l e‖
      ≤ (1 + ε) ^ l.length * ‖c - e‖ + ((1 + ε) ^ l.length - 1) * ‖e‖ := by
  induction l generalizing c e with
  | nil => simp [runComp, runExact]
  | cons p l ih =>
    have hp := h p (List.mem_cons_self)
    have hl : ∀ q ∈ l, ∀ x, ‖q.comp x - q.exact x‖ ≤ ε * ‖x‖ :=
      fun q hq => h q (List.mem_cons_of_mem _ hq)
    have ih' := ih hl (p.comp c) (p.exact e)
    simp only [runComp, runExact, List.foldl_cons, List.length_cons] at ih' ⊢
    rw [p.norm_map] at ih'
    -- one step: d' ≤ (1+ε) d + ε ‖e‖
    have hd : ‖p.comp c - p.exact e‖ ≤ (1 + ε) * ‖c - e‖ + ε * ‖e‖ := by
      have e1 : p.comp c - p.exact e = (p.comp c - p.exact c) + p.exact (c - e) := by
        rw [p.map_sub]; abel
      have hc : ‖c‖ ≤ ‖e‖ + ‖c - e‖ := by
        have : c = e + (c - e) := by abel
        calc ‖c‖ = ‖e + (c - e)‖ := by rw [← this]
          _ ≤ ‖e‖ + ‖c - e‖ := norm_add_le _ _
      calc ‖p.comp c - p.exact e‖
          = ‖(p.comp c - p.exact c) + p.exact (c - e)‖ := by rw [e1]
        _ ≤ ‖p.comp c - p.exact c‖ + ‖p.exact (c - e)‖ := norm_add_le _ _
        _ ≤ ε * ‖c‖ + ‖c - e‖ := by rw [p.norm_map]; linarith [hp c]
        _ ≤ ε * (‖e‖ + ‖c - e‖) + ‖c - e‖ := by
            have := mul_le_mul_of_nonneg_left hc hε; linarith
        _ = (1 + ε) * ‖c - e‖ + ε * ‖e‖ := by ring
    have hP : 0 ≤ (1 + ε) ^ l.length := pow_nonneg (by linarith) _
    calc _ ≤ (1 + ε) ^ l.length * ‖p.comp c - p.exact e‖ + ((1 + ε) ^ l.length - 1) * ‖e‖ := ih'
      _ ≤ (1 + ε) ^ l.length * ((1 + ε) * ‖c - e‖ + ε * ‖e‖)
            + ((1 + ε) ^ l.length - 1) * ‖e‖ := by
          have := mul_le_mul_of_nonneg_left hd hP; linarith
      _ = (1 + ε) ^ (l.length + 1) * ‖c - e‖ + ((1 + ε) ^ (l.length + 1) - 1) * ‖e‖ := by ring

end EmuVerif.Accum
