/- Bridge from the `Matrix` picture to the normed space `EuclideanSpace ℂ n` (the 2-norm the
   Krylov tolerance is measured in): a matrix with `Uᴴ U = 1` acts as an additive isometry. -/
import EmuVerif.Proofs.IdealUnitary
import EmuVerif.Proofs.IdealAccum
import Mathlib.Analysis.InnerProductSpace.PiL2

set_option linter.unusedSectionVars false

namespace EmuVerif.Ideal
open Matrix WithLp

variable {n : Type} [Fintype n] [DecidableEq n]

/-- A matrix acting on a vector of the Euclidean space. -/
noncomputable def actE (U : Matrix n n ℂ) (x : EuclideanSpace ℂ n) : EuclideanSpace ℂ n :=
  toLp 2 (U *ᵥ ofLp x)

theorem normSq_eq_norm_sq (x : EuclideanSpace ℂ n) : normSq (ofLp x) = ((‖x‖ ^ 2 : ℝ) : ℂ) := by
  rw [EuclideanSpace.norm_sq_eq]
  unfold normSq dotProduct
  push_cast
  refine Finset.sum_congr rfl fun i _ => ?_
  simp only [Pi.star_apply, Complex.star_def]
  exact Complex.conj_mul' _

theorem norm_actE {U : Matrix n n ℂ} (hU : Uᴴ * U = 1) (x : EuclideanSpace ℂ n) :
    ‖actE U x‖ = ‖x‖ := by
  have h : ((‖actE U x‖ ^ 2 : ℝ) : ℂ) = ((‖x‖ ^ 2 : ℝ) : ℂ) := by
    rw [← normSq_eq_norm_sq, ← normSq_eq_norm_sq]
    exact normSq_mulVec_of_isometry hU _
  have h2 : ‖actE U x‖ ^ 2 = ‖x‖ ^ 2 := by exact_mod_cast h
  exact (sq_eq_sq₀ (norm_nonneg _) (norm_nonneg _)).mp h2

theorem actE_sub (U : Matrix n n ℂ) (x y : EuclideanSpace ℂ n) :
    actE U (x - y) = actE U x - actE U y := by
  unfold actE
  rw [ofLp_sub, mulVec_sub, toLp_sub]

/-- The exact propagator `exp(-i t H)` of a Hermitian `H`, paired with any computed step, is an
`IsoStep` of the accumulation lemma. -/
noncomputable def isoStepOf (H : Matrix n n ℂ) (hH : H.IsHermitian) (t : ℝ)
    (comp : EuclideanSpace ℂ n → EuclideanSpace ℂ n) : Accum.IsoStep (EuclideanSpace ℂ n) where
  exact := actE (expU H t)
  comp := comp
  map_sub := actE_sub _
  norm_map := norm_actE (expU_conjTranspose_mul hH t)

end EmuVerif.Ideal
