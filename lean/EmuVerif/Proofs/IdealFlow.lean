/- The exact Lindblad flow `exp(t·𝓛)` (exponential series in the Banach algebra of ℝ-linear
   maps on `Matrix n n ℂ`) preserves the trace and commutes with the adjoint. -/
import EmuVerif.Proofs.IdealLindblad
import Mathlib.Analysis.Normed.Algebra.Exponential
import Mathlib.Analysis.Matrix.Normed
import Mathlib.Analysis.Normed.Operator.Bilinear
import Mathlib.Analysis.Normed.Operator.NormedSpace
import Mathlib.Analysis.Normed.Operator.Basic
import Mathlib.Analysis.Normed.Module.FiniteDimension
import Mathlib.Topology.Algebra.InfiniteSum.Module

set_option linter.unusedSectionVars false

namespace EmuVerif.Lindblad
open Matrix

noncomputable section

variable {n ι : Type} [Fintype n] [DecidableEq n] [Fintype ι]

theorem dissip_add (L ρ σ : Matrix n n ℂ) : dissip L (ρ + σ) = dissip L ρ + dissip L σ := by
  unfold dissip
  simp only [mul_add, add_mul]
  module

theorem dissip_smul (c : ℂ) (L ρ : Matrix n n ℂ) : dissip L (c • ρ) = c • dissip L ρ := by
  unfold dissip
  simp only [mul_smul_comm, smul_mul_assoc]
  module

/-- `𝓛` as a ℂ-linear map. -/
def lindL (H : Matrix n n ℂ) (L : ι → Matrix n n ℂ) : Matrix n n ℂ →ₗ[ℂ] Matrix n n ℂ where
  toFun := lind H L
  map_add' ρ σ := by
    unfold lind
    simp only [dissip_add, Finset.sum_add_distrib, mul_add, add_mul]
    module
  map_smul' c ρ := by
    unfold lind
    simp only [dissip_smul, ← Finset.smul_sum, mul_smul_comm, smul_mul_assoc, RingHom.id_apply]
    module

end
end EmuVerif.Lindblad

/-! ### Exponential series of a generator, abstractly -/
namespace EmuVerif.Flow
open scoped Nat

variable {E F : Type*} [NormedAddCommGroup E] [NormedSpace ℝ E] [CompleteSpace E]
  [NormedAddCommGroup F] [NormedSpace ℝ F]

theorem functional_pow (X : E →L[ℝ] E) (τ : E →L[ℝ] F) (h : ∀ x, τ (X x) = 0) (k : ℕ) (x : E) :
    τ ((X ^ (k + 1)) x) = 0 := by
  rw [pow_succ']
  exact h _

/-- If a continuous linear functional `τ` is annihilated by the generator (`τ ∘ X = 0`), the flow
`exp(t·X)` preserves it (term-by-term on the exponential series). -/
theorem functional_exp (X : E →L[ℝ] E) (τ : E →L[ℝ] F) (h : ∀ x, τ (X x) = 0) (t : ℝ) (x : E) :
    τ (NormedSpace.exp (t • X) x) = τ x := by
  have hs := NormedSpace.exp_series_hasSum_exp' (𝕂 := ℝ) (t • X)
  let Φ : (E →L[ℝ] E) →L[ℝ] F := τ.comp (ContinuousLinearMap.apply ℝ E x)
  have h2 := Φ.hasSum hs
  have ht : ∀ y, τ ((t • X) y) = 0 := fun y => by
    show τ (t • X y) = 0
    rw [map_smul, h, smul_zero]
  have h3 : HasSum (fun k : ℕ => Φ (((k ! : ℝ)⁻¹) • (t • X) ^ k)) (τ x) := by
    have h0 : Φ (((0 ! : ℝ)⁻¹) • (t • X) ^ 0) = τ x := by
      simp [Φ]
    rw [← h0]
    refine hasSum_single 0 fun k hk => ?_
    obtain ⟨m, rfl⟩ := Nat.exists_eq_succ_of_ne_zero hk
    show τ ((((m + 1) ! : ℝ)⁻¹) • ((t • X) ^ (m + 1)) x) = 0
    rw [map_smul, functional_pow (t • X) τ ht m x, smul_zero]
  exact h2.unique h3

/-- A continuous linear symmetry `J` commuting with the generator commutes with the flow. -/
theorem symmetry_exp (J X : E →L[ℝ] E) (h : ∀ x, J (X x) = X (J x)) (t : ℝ) (x : E) :
    J (NormedSpace.exp (t • X) x) = NormedSpace.exp (t • X) (J x) := by
  have hc : Commute J X := by
    ext y : 1
    exact h y
  have := congrArg (fun f => f x) ((hc.smul_right t).exp_right).eq
  exact this

end EmuVerif.Flow

/-! ### The Lindblad flow on matrices
`Matrix n n ℂ` carries Mathlib's (scoped) L∞-operator norm here only to make the space of
continuous maps a Banach algebra; the statements below do not mention the norm. The option below
is the one Mathlib's own `MatrixExponential` uses to let the norm-induced topology unify with the
entry-wise one. -/
namespace EmuVerif.Lindblad
open Matrix
open scoped Matrix.Norms.Operator

set_option backward.isDefEq.respectTransparency false

noncomputable section

variable {n ι : Type} [Fintype n] [DecidableEq n] [Fintype ι]

/-- `𝓛` as an element of the Banach algebra of continuous ℝ-linear maps on the matrices. -/
def lindC (H : Matrix n n ℂ) (L : ι → Matrix n n ℂ) : Matrix n n ℂ →L[ℝ] Matrix n n ℂ :=
  LinearMap.toContinuousLinearMap ((lindL H L).restrictScalars ℝ)

@[simp] theorem lindC_apply (H : Matrix n n ℂ) (L : ι → Matrix n n ℂ) (ρ : Matrix n n ℂ) :
    lindC H L ρ = lind H L ρ := rfl

/-- **The exact flow** over a time `t`: `exp(t·𝓛)`. -/
def flow (H : Matrix n n ℂ) (L : ι → Matrix n n ℂ) (t : ℝ) : Matrix n n ℂ →L[ℝ] Matrix n n ℂ :=
  NormedSpace.exp (t • lindC H L)

/-- the trace as a continuous ℝ-linear functional -/
def trC : Matrix n n ℂ →L[ℝ] ℂ :=
  LinearMap.toContinuousLinearMap ((Matrix.traceLinearMap n ℝ ℂ))

/-- the adjoint as a continuous ℝ-linear map -/
def adjC : Matrix n n ℂ →L[ℝ] Matrix n n ℂ :=
  LinearMap.toContinuousLinearMap
    { toFun := fun A => Aᴴ
      map_add' := conjTranspose_add
      map_smul' := fun r A => by simp [conjTranspose_smul] }

/-- **The exact flow preserves the trace.** -/
theorem trace_flow (H : Matrix n n ℂ) (L : ι → Matrix n n ℂ) (t : ℝ) (ρ : Matrix n n ℂ) :
    trace (flow H L t ρ) = trace ρ :=
  Flow.functional_exp (lindC H L) trC (fun x => trace_lind H L x) t ρ

/-- **The exact flow commutes with the adjoint** (Hermitian `H`). -/
theorem conjTranspose_flow {H : Matrix n n ℂ} (hH : H.IsHermitian) (L : ι → Matrix n n ℂ) (t : ℝ)
    (ρ : Matrix n n ℂ) : (flow H L t ρ)ᴴ = flow H L t ρᴴ :=
  Flow.symmetry_exp adjC (lindC H L) (fun x => conjTranspose_lind hH L x) t ρ

end
end EmuVerif.Lindblad
