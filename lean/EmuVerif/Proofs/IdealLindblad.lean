/- Algebra of the Lindblad generator over complex matrices (C16): trace annihilation,
   Hermiticity preservation, and the identity between the code's `Heff ρ − (Heff ρ)†` evaluation
   (`emu_sv/lindblad_operator.py: RydbergLindbladian.__matmul__`, times `-1j*dt` in
   `EvolveDensityMatrix.apply`) and the textbook generator for Hermitian `ρ`. -/
import Mathlib.LinearAlgebra.Matrix.Trace
import Mathlib.LinearAlgebra.Matrix.Hermitian
import Mathlib.LinearAlgebra.Matrix.ConjTranspose
import Mathlib.Analysis.Complex.Basic
import Mathlib.Tactic.Module
import Mathlib.Tactic.Ring

set_option linter.unusedSectionVars false

namespace EmuVerif.Lindblad
noncomputable section
open Matrix

variable {n ι : Type} [Fintype n] [DecidableEq n] [Fintype ι]

/-- One dissipator `L ρ L† − ½ {L†L, ρ}`. -/
def dissip (L ρ : Matrix n n ℂ) : Matrix n n ℂ :=
  L * ρ * Lᴴ - (1 / 2 : ℂ) • (Lᴴ * L * ρ + ρ * (Lᴴ * L))

/-- The Lindblad generator `𝓛(ρ) = −i[H,ρ] + Σ_k (L_k ρ L_k† − ½{L_k†L_k, ρ})`. -/
def lind (H : Matrix n n ℂ) (L : ι → Matrix n n ℂ) (ρ : Matrix n n ℂ) : Matrix n n ℂ :=
  (-Complex.I) • (H * ρ - ρ * H) + ∑ k, dissip (L k) ρ

/-- `Σ_k L_k† L_k`. -/
def ksum (L : ι → Matrix n n ℂ) : Matrix n n ℂ := ∑ k, (L k)ᴴ * L k

/-- The code's effective Hamiltonian `Heff = H − 0.5i Σ L†L`
(`compute_noise_from_lindbladians` returns `-0.5j * sum(L.mH @ L)`, added to the local terms). -/
def heff (H : Matrix n n ℂ) (L : ι → Matrix n n ℂ) : Matrix n n ℂ :=
  H + (-(1 / 2 : ℂ) * Complex.I) • ksum L

/-- `RydbergLindbladian.__matmul__`: `Heff ρ − (Heff ρ)† + 1j · Σ L ρ L†`. -/
def codeGen (H : Matrix n n ℂ) (L : ι → Matrix n n ℂ) (ρ : Matrix n n ℂ) : Matrix n n ℂ :=
  heff H L * ρ - (heff H L * ρ)ᴴ + Complex.I • ∑ k, L k * ρ * (L k)ᴴ

/-- The operator `EvolveDensityMatrix.apply` exponentiates: `-1j * dt * (ham @ x)`. -/
def codeOp (dt : ℝ) (H : Matrix n n ℂ) (L : ι → Matrix n n ℂ) (ρ : Matrix n n ℂ) :
    Matrix n n ℂ :=
  (-Complex.I * (dt : ℂ)) • codeGen H L ρ

theorem trace_dissip (L ρ : Matrix n n ℂ) : trace (dissip L ρ) = 0 := by
  unfold dissip
  rw [trace_sub, trace_smul, trace_add, trace_mul_comm ρ (Lᴴ * L), trace_mul_cycle L ρ Lᴴ]
  simp only [smul_eq_mul]
  ring

/-- **The generator annihilates the trace** (for every `H`, `L`, `ρ`). -/
theorem trace_lind (H : Matrix n n ℂ) (L : ι → Matrix n n ℂ) (ρ : Matrix n n ℂ) :
    trace (lind H L ρ) = 0 := by
  unfold lind
  rw [trace_add, trace_smul, trace_sub, trace_mul_comm H ρ, sub_self, smul_zero, zero_add,
    trace_sum]
  exact Finset.sum_eq_zero fun k _ => trace_dissip _ _

theorem conjTranspose_dissip (L ρ : Matrix n n ℂ) : (dissip L ρ)ᴴ = dissip L ρᴴ := by
  unfold dissip
  have h2 : star (1 / 2 : ℂ) = 1 / 2 := by simp
  rw [conjTranspose_sub, conjTranspose_smul, h2, conjTranspose_add]
  simp only [conjTranspose_mul, conjTranspose_conjTranspose, Matrix.mul_assoc]
  rw [add_comm]

/-- **The generator commutes with the adjoint** when `H` is Hermitian. -/
theorem conjTranspose_lind {H : Matrix n n ℂ} (hH : H.IsHermitian) (L : ι → Matrix n n ℂ)
    (ρ : Matrix n n ℂ) : (lind H L ρ)ᴴ = lind H L ρᴴ := by
  unfold lind
  rw [conjTranspose_add, conjTranspose_smul, conjTranspose_sub, conjTranspose_mul,
    conjTranspose_mul, hH.eq, conjTranspose_sum]
  simp only [conjTranspose_dissip]
  congr 1
  have : star (-Complex.I) = Complex.I := by simp
  rw [this]
  module

theorem ksum_isHermitian (L : ι → Matrix n n ℂ) : (ksum L).IsHermitian := by
  unfold ksum Matrix.IsHermitian
  rw [conjTranspose_sum]
  simp [conjTranspose_mul]

/-- The generator with the sums pulled out: `−i[H,ρ] + Σ LρL† − ½(Kρ + ρK)`, `K = Σ L†L`. -/
theorem lind_eq (H : Matrix n n ℂ) (L : ι → Matrix n n ℂ) (ρ : Matrix n n ℂ) :
    lind H L ρ = (-Complex.I) • (H * ρ - ρ * H) + (∑ k, L k * ρ * (L k)ᴴ)
      - (1 / 2 : ℂ) • (ksum L * ρ + ρ * ksum L) := by
  unfold lind dissip ksum
  rw [Finset.sum_sub_distrib, ← Finset.smul_sum, Finset.sum_add_distrib, Finset.sum_mul,
    Finset.mul_sum]
  abel

/-- **What the code evaluates is the Lindblad generator** — for Hermitian `H` and Hermitian `ρ`:
`-1j·dt·(Heff ρ − (Heff ρ)† + 1j Σ LρL†) = dt · 𝓛(ρ)`. -/
theorem codeOp_eq_lind (dt : ℝ) {H ρ : Matrix n n ℂ} (hH : H.IsHermitian) (hρ : ρ.IsHermitian)
    (L : ι → Matrix n n ℂ) : codeOp dt H L ρ = (dt : ℂ) • lind H L ρ := by
  rw [lind_eq]
  unfold codeOp codeGen heff
  have hK := (ksum_isHermitian L).eq
  have hs : star (-(1 / 2 : ℂ) * Complex.I) = (1 / 2 : ℂ) * Complex.I := by simp
  rw [conjTranspose_mul, conjTranspose_add, conjTranspose_smul, hH.eq, hρ.eq, hK, hs]
  simp only [add_mul, mul_add, smul_mul_assoc, mul_smul_comm]
  generalize H * ρ = a
  generalize ρ * H = b
  generalize ksum L * ρ = c
  generalize ρ * ksum L = d
  generalize (∑ k, L k * ρ * (L k)ᴴ) = S
  have hI : Complex.I * Complex.I = -1 := Complex.I_mul_I
  match_scalars <;> ring_nf <;> simp [Complex.I_sq] <;> ring

end
end EmuVerif.Lindblad
