/- Helper lemmas about `Model.SvLoop`: the index-driven loop of `_run` equals the structural
   "sampled piecewise-constant schedule". No Mathlib needed: everything holds for *any* scalar
   type with the notation classes (so also at `Float`, the executable reading). -/
import EmuVerif.Model.SvLoop

set_option linter.unusedSectionVars false

namespace EmuVerif.SvLoop

variable {α ρ μ σ : Type} [Add α] [Sub α] [Mul α] [Div α] [LT α] [DecidableLT α] [OfNat α 0]

/-- **Specification.** The sampled piecewise-constant schedule on a grid: interval number
`off + k` is `[t_k, t_{k+1})`, its Hamiltonian has drive row `k` and the interaction matrix in
force at the *start* `t_k`, and it lasts `(t_{k+1} − t_k)·coeff`. Structural recursion on the
grid and the row table; stops with the shorter of the two. -/
def sched (coeff : α) (umat : α → μ) : Nat → List α → List ρ → List (StepArgs α ρ μ)
  | off, t0 :: t1 :: ts, r :: rs =>
    { idx := off, dt := (t1 - t0) * coeff, row := r, u := umat t0 }
      :: sched coeff umat (off + 1) (t1 :: ts) rs
  | _, _, _ => []

/-- The events the loop should emit after the initial observable pass. -/
def evs (coeff tl : α) (umat : α → μ) : Nat → List α → List ρ → List (Ev α ρ μ)
  | off, t0 :: t1 :: ts, r :: rs =>
    Ev.step { idx := off, dt := (t1 - t0) * coeff, row := r, u := umat t0 }
      :: Ev.obs (off + 1) (t1 / tl) :: evs coeff tl umat (off + 1) (t1 :: ts) rs
  | _, _, _ => []

/-- Apply a list of exponentiation requests to a state, in order. -/
def applyAll (expStep : α → ρ → μ → σ → σ) (l : List (StepArgs α ρ μ)) (s : σ) : σ :=
  l.foldl (fun s a => expStep a.dt a.row a.u s) s

theorem stepsOf_evs (coeff tl : α) (umat : α → μ) :
    ∀ (rows : List ρ) (times : List α) (off : Nat),
      stepsOf (evs coeff tl umat off times rows) = sched coeff umat off times rows := by
  intro rows
  induction rows with
  | nil => intro times off; cases times with
    | nil => simp [evs, sched, stepsOf]
    | cons t ts => cases ts <;> simp [evs, sched, stepsOf]
  | cons r rs ih =>
    intro times off
    match times with
    | [] => simp [evs, sched, stepsOf]
    | [_] => simp [evs, sched, stepsOf]
    | t0 :: t1 :: ts => simp [evs, sched, stepsOf, ih]

theorem sched_length (coeff : α) (umat : α → μ) :
    ∀ (rows : List ρ) (times : List α) (off : Nat), rows.length + 1 ≤ times.length →
      (sched coeff umat off times rows).length = rows.length := by
  intro rows
  induction rows with
  | nil => intro times off _; cases times with
    | nil => simp [sched]
    | cons t ts => cases ts <;> simp [sched]
  | cons r rs ih =>
    intro times off h
    match times, h with
    | t0 :: t1 :: ts, h =>
      simp only [sched, List.length_cons]
      rw [ih (t1 :: ts) (off + 1) (by simpa using h)]

/-- Pointwise form of the schedule: entry `k` is `(off+k, (t[k+1]−t[k])·coeff, row k, U(t[k]))`. -/
theorem sched_getElem? (coeff : α) (umat : α → μ) :
    ∀ (rows : List ρ) (times : List α) (off k : Nat) (hk : k < rows.length)
      (ht : k + 1 < times.length),
      (sched coeff umat off times rows)[k]? =
        some { idx := off + k, dt := (times[k + 1] - times[k]) * coeff, row := rows[k],
               u := umat times[k] } := by
  intro rows
  induction rows with
  | nil => intro _ _ _ hk; simp at hk
  | cons r rs ih =>
    intro times off k hk ht
    match times, ht with
    | t0 :: t1 :: ts, ht =>
      cases k with
      | zero => simp [sched]
      | succ k =>
        simp only [sched, List.getElem?_cons_succ, List.getElem_cons_succ]
        rw [ih (t1 :: ts) (off + 1) k (by simpa using hk) (by simpa using ht)]
        simp only [List.getElem_cons_succ, Option.some.injEq, StepArgs.mk.injEq, and_true]
        omega

/-- The schedule visits every interval index once, in order. -/
theorem sched_idx (coeff : α) (umat : α → μ) :
    ∀ (rows : List ρ) (times : List α) (off : Nat), rows.length + 1 ≤ times.length →
      (sched coeff umat off times rows).map (·.idx) = List.range' off rows.length := by
  intro rows
  induction rows with
  | nil => intro times off _; cases times with
    | nil => simp [sched]
    | cons t ts => cases ts <;> simp [sched]
  | cons r rs ih =>
    intro times off h
    match times, h with
    | t0 :: t1 :: ts, h =>
      simp only [sched, List.map_cons, List.length_cons, List.range'_succ]
      rw [ih (t1 :: ts) (off + 1) (by simpa using h)]

/-! ### The loop with an index offset (so that the grid can be peeled from the front) -/

/-- `step` where the lookups use `k` and the recorded index is `off + k`. -/
def stepO (off : Nat) (coeff tl : α) (times : List α) (rows : List ρ) (umat : α → μ)
    (expStep : α → ρ → μ → σ → σ) (acc : σ × List (Ev α ρ μ)) (k : Nat) :
    Except Err (σ × List (Ev α ρ μ)) := do
  let dt ← computeDt times k
  let a ← evolveArgs coeff times rows umat k dt
  let nt ← normTime tl times (k + 1)
  pure (expStep a.dt a.row a.u acc.1,
        Ev.obs (off + k + 1) nt :: Ev.step { a with idx := off + k } :: acc.2)

theorem evolveArgs_idx {coeff : α} {times : List α} {rows : List ρ} {umat : α → μ} {k : Nat}
    {dt : α} {a : StepArgs α ρ μ} (h : evolveArgs coeff times rows umat k dt = .ok a) :
    a.idx = k := by
  unfold evolveArgs at h
  split at h
  · cases h; rfl
  · cases h

theorem step_eq_stepO (coeff tl : α) (times : List α) (rows : List ρ) (umat : α → μ)
    (expStep : α → ρ → μ → σ → σ) :
    step coeff tl times rows umat expStep = stepO 0 coeff tl times rows umat expStep := by
  funext acc k
  simp only [step, stepO, computeDt, evolveArgs, normTime, Nat.zero_add]
  cases times[k + 1]? <;> cases times[k]? <;> cases rows[k]? <;> rfl

theorem stepO_shift (off : Nat) (coeff tl t0 : α) (times : List α) (r : ρ) (rows : List ρ)
    (umat : α → μ) (expStep : α → ρ → μ → σ → σ) (acc : σ × List (Ev α ρ μ)) (k : Nat) :
    stepO off coeff tl (t0 :: times) (r :: rows) umat expStep acc (k + 1)
      = stepO (off + 1) coeff tl times rows umat expStep acc k := by
  have e : off + (k + 1) = off + 1 + k := by omega
  simp only [stepO, computeDt, evolveArgs, normTime, List.getElem?_cons_succ, e]
  cases times[k + 1]? <;> cases times[k]? <;> cases rows[k]? <;> rfl

theorem foldlM_error {β γ : Type} (f : β → γ → Except Err β) (e : Err) (l : List γ) :
    l.foldlM (fun b c => f b c) (m := Except Err) =<< (Except.error e : Except Err β)
      = Except.error e := rfl

theorem fold_stepO (coeff tl : α) (umat : α → μ) (expStep : α → ρ → μ → σ → σ) :
    ∀ (rows : List ρ) (times : List α) (off : Nat) (acc : σ × List (Ev α ρ μ)),
      rows.length + 1 ≤ times.length →
      (List.range rows.length).foldlM (stepO off coeff tl times rows umat expStep) acc
        = .ok (applyAll expStep (sched coeff umat off times rows) acc.1,
               (evs coeff tl umat off times rows).reverse ++ acc.2) := by
  intro rows
  induction rows with
  | nil =>
    intro times off acc _
    cases times with
    | nil => simp [sched, evs, applyAll]; rfl
    | cons t ts => cases ts <;> (simp [sched, evs, applyAll]; rfl)
  | cons r rs ih =>
    intro times off acc h
    match times, h with
    | t0 :: t1 :: ts, h =>
      rw [List.length_cons, List.range_succ_eq_map, List.foldlM_cons]
      have h0 : stepO off coeff tl (t0 :: t1 :: ts) (r :: rs) umat expStep acc 0
          = .ok (expStep ((t1 - t0) * coeff) r (umat t0) acc.1,
              Ev.obs (off + 1) (t1 / tl)
                :: Ev.step { idx := off, dt := (t1 - t0) * coeff, row := r, u := umat t0 }
                :: acc.2) := by
        simp [stepO, computeDt, evolveArgs, normTime]; rfl
      rw [h0]
      simp only [List.foldlM_map]
      have hs : (fun (b : σ × List (Ev α ρ μ)) (k : Nat) =>
          stepO off coeff tl (t0 :: t1 :: ts) (r :: rs) umat expStep b (k + 1))
          = stepO (off + 1) coeff tl (t1 :: ts) rs umat expStep := by
        funext b k; exact stepO_shift off coeff tl t0 (t1 :: ts) r rs umat expStep b k
      show (List.foldlM _ _ (List.range rs.length)) = _
      simp only [Nat.succ_eq_add_one, hs]
      rw [ih (t1 :: ts) (off + 1) _ (by simpa using h)]
      simp [sched, evs, applyAll]

theorem fold_stepO_short (coeff tl : α) (umat : α → μ) (expStep : α → ρ → μ → σ → σ) :
    ∀ (rows : List ρ) (times : List α) (off : Nat) (acc : σ × List (Ev α ρ μ)),
      times ≠ [] → times.length < rows.length + 1 →
      (List.range rows.length).foldlM (stepO off coeff tl times rows umat expStep) acc
        = .error .index := by
  intro rows
  induction rows with
  | nil =>
    intro times off acc hne h
    cases times with
    | nil => exact absurd rfl hne
    | cons t ts => simp at h
  | cons r rs ih =>
    intro times off acc hne h
    match times, hne, h with
    | [t0], _, _ =>
      rw [List.length_cons, List.range_succ_eq_map, List.foldlM_cons]
      have h0 : stepO off coeff tl [t0] (r :: rs) umat expStep acc 0 = .error .index := by
        simp [stepO, computeDt]; rfl
      rw [h0]; rfl
    | t0 :: t1 :: ts, _, h =>
      rw [List.length_cons, List.range_succ_eq_map, List.foldlM_cons]
      have h0 : stepO off coeff tl (t0 :: t1 :: ts) (r :: rs) umat expStep acc 0
          = .ok (expStep ((t1 - t0) * coeff) r (umat t0) acc.1,
              Ev.obs (off + 1) (t1 / tl)
                :: Ev.step { idx := off, dt := (t1 - t0) * coeff, row := r, u := umat t0 }
                :: acc.2) := by
        simp [stepO, computeDt, evolveArgs, normTime]; rfl
      rw [h0]
      simp only [List.foldlM_map]
      have hs : (fun (b : σ × List (Ev α ρ μ)) (k : Nat) =>
          stepO off coeff tl (t0 :: t1 :: ts) (r :: rs) umat expStep b (k + 1))
          = stepO (off + 1) coeff tl (t1 :: ts) rs umat expStep := by
        funext b k; exact stepO_shift off coeff tl t0 (t1 :: ts) r rs umat expStep b k
      show (List.foldlM _ _ (List.range rs.length)) = _
      simp only [Nat.succ_eq_add_one, hs]
      exact ih (t1 :: ts) (off + 1) _ (by simp) (by simpa using h)

end EmuVerif.SvLoop
