/- Ideal-kernel facts for noiseless evolution (C28, used by C01): for a Hermitian matrix `H` and
   real `t`, `exp(-i t H)` is unitary and commutes with `H`; hence the squared norm and the
   expectation of anything commuting with the propagator are conserved. Pure `Matrix` algebra
   over ℂ — the dense picture C06 ties the matrix-free code to. -/
import Mathlib.Analysis.Normed.Algebra.MatrixExponential
import Mathlib.Analysis.Complex.Basic
import Mathlib.LinearAlgebra.Matrix.Hermitian
import Mathlib.LinearAlgebra.Matrix.ConjTranspose

set_option linter.unusedSectionVars false

namespace EmuVerif.Ideal
open Matrix NormedSpace

variable {n : Type} [Fintype n] [DecidableEq n]

/-- The exact propagator over a time `t` (in the Hamiltonian's units): `exp(-i t H)`. -/
noncomputable def expU (H : Matrix n n ℂ) (t : ℝ) : Matrix n n ℂ :=
  NormedSpace.exp ((-(Complex.I * (t : ℂ))) • H)

/-- Squared 2-norm of a state vector, `⟨ψ|ψ⟩ = Σ conj ψ_i · ψ_i`. -/
def normSq (ψ : n → ℂ) : ℂ := star ψ ⬝ᵥ ψ

/-- Expectation `⟨ψ|A|ψ⟩`. -/
def expect (A : Matrix n n ℂ) (ψ : n → ℂ) : ℂ := star ψ ⬝ᵥ (A *ᵥ ψ)

theorem gen_conjTranspose {H : Matrix n n ℂ} (hH : H.IsHermitian) (t : ℝ) :
    ((-(Complex.I * (t : ℂ))) • H)ᴴ = -((-(Complex.I * (t : ℂ))) • H) := by
  rw [conjTranspose_smul, hH.eq, ← neg_smul]
  congr 1
  simp [Complex.conj_ofReal]

theorem expU_conjTranspose {H : Matrix n n ℂ} (hH : H.IsHermitian) (t : ℝ) :
    (expU H t)ᴴ = NormedSpace.exp (-((-(Complex.I * (t : ℂ))) • H)) := by
  unfold expU
  rw [← Matrix.exp_conjTranspose, gen_conjTranspose hH]

theorem expU_conjTranspose_mul {H : Matrix n n ℂ} (hH : H.IsHermitian) (t : ℝ) :
    (expU H t)ᴴ * expU H t = 1 := by
  rw [expU_conjTranspose hH]
  unfold expU
  generalize (-(Complex.I * (t : ℂ))) • H = A
  have hc : Commute (-A) A := (Commute.refl A).neg_left
  rw [← Matrix.exp_add_of_commute _ _ hc, neg_add_cancel, NormedSpace.exp_zero]

theorem expU_mul_conjTranspose {H : Matrix n n ℂ} (hH : H.IsHermitian) (t : ℝ) :
    expU H t * (expU H t)ᴴ = 1 := by
  rw [expU_conjTranspose hH]
  unfold expU
  generalize (-(Complex.I * (t : ℂ))) • H = A
  have hc : Commute A (-A) := (Commute.refl A).neg_right
  rw [← Matrix.exp_add_of_commute _ _ hc, add_neg_cancel, NormedSpace.exp_zero]

/-- `H` commutes with its own propagator (no Hermiticity needed). -/
theorem commute_expU (H : Matrix n n ℂ) (t : ℝ) : Commute H (expU H t) := by
  unfold expU
  exact ((Commute.refl H).smul_right _).exp_right

/-- A matrix with `Uᴴ U = 1` preserves the squared norm. -/
theorem normSq_mulVec_of_isometry {U : Matrix n n ℂ} (hU : Uᴴ * U = 1) (ψ : n → ℂ) :
    normSq (U *ᵥ ψ) = normSq ψ := by
  unfold normSq
  rw [star_mulVec, dotProduct_mulVec, vecMul_vecMul, hU, vecMul_one]

/-- …and the expectation of every operator that commutes with it. -/
theorem expect_mulVec_of_commute {U A : Matrix n n ℂ} (hU : Uᴴ * U = 1) (hc : Commute A U)
    (ψ : n → ℂ) : expect A (U *ᵥ ψ) = expect A ψ := by
  unfold expect
  rw [star_mulVec, mulVec_mulVec, hc.eq, ← mulVec_mulVec, dotProduct_mulVec, vecMul_vecMul, hU,
    vecMul_one]

end EmuVerif.Ideal
