/- Helper lemmas about `Model.Interact` over a linear ordered field. -/
import EmuVerif.Model.Interact
import EmuVerif.Proofs.Scalar

set_option linter.unusedSectionVars false

namespace EmuVerif.Interact
variable {α : Type} [Field α] [LinearOrder α] [IsStrictOrderedRing α]

def Symm (m : Mat α) : Prop := ∀ i j, m i j = m j i

theorem applyCutoff_apply (c : α) (m : Mat α) (i j : ℕ) :
    applyCutoff c m i j = if |m i j| < c then 0 else m i j := by
  simp [applyCutoff, absv_eq_abs]

theorem applyMask_cons (t : ℕ) (ts : List ℕ) (m : Mat α) :
    applyMask (t :: ts) m = applyMask ts (maskOne t m) := rfl

theorem applyMask_apply : ∀ (ts : List ℕ) (m : Mat α) (i j : ℕ),
    applyMask ts m i j = if i ∈ ts ∨ j ∈ ts then 0 else m i j
  | [], m, i, j => by simp [applyMask]
  | t :: ts, m, i, j => by
    rw [applyMask_cons, applyMask_apply ts (maskOne t m) i j]
    by_cases h1 : i ∈ ts ∨ j ∈ ts
    · have : i ∈ t :: ts ∨ j ∈ t :: ts := by
        rcases h1 with h | h
        · exact Or.inl (List.mem_cons_of_mem _ h)
        · exact Or.inr (List.mem_cons_of_mem _ h)
      rw [if_pos h1, if_pos this]
    · have h1' : ¬ i ∈ ts ∧ ¬ j ∈ ts := not_or.1 h1
      rw [if_neg h1]
      by_cases hi : i = t
      · simp [maskOne, hi]
      · by_cases hj : j = t
        · simp [maskOne, hi, hj]
        · simp [maskOne, hi, hj, h1'.1, h1'.2]

end EmuVerif.Interact
