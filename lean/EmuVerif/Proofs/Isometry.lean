/-
  Mixed-canonical form in an abstract isometry setting (Mathlib matrices over a commutative *-ring):
  a chain of left-orthonormal site tensors composes to an isometry, a chain of right-orthonormal ones
  to a co-isometry, and the squared Frobenius norm of `ψ = (U ⊗ 1) · C · V` is that of the centre `C`.
  Chains are inductive families, so the statements hold for every number of sites.
  `U ⊗ 1_D` is written `kronOne D U = blockDiagonal (fun _ : D => U) : Matrix (P × D) (B × D) R`
  (`Mathlib.LinearAlgebra.Matrix.Kronecker` is avoided only because importing it costs ≈ 40 s per audit).

  Reading of an MPS factor `A` of shape `(χ_l, d, χ_r)`: `A.view(χ_l·d, χ_r)` is a `Matrix (B × D) B'`
  (left-orthonormal: `Aᴴ A = 1`), `A.view(χ_l, d·χ_r)` a `Matrix B (B' × D)` (right-orthonormal: `A Aᴴ = 1`;
  the order of the two factors of the product index type is immaterial).
-/
import Mathlib.LinearAlgebra.Matrix.Trace
import Mathlib.LinearAlgebra.Matrix.ConjTranspose
import Mathlib.Data.Matrix.Block

set_option linter.unusedSectionVars false

namespace EmuVerif.Isometry
open Matrix

variable {R : Type} [CommRing R] [StarRing R]

section lemmas
variable {p b b' p' d : Type} [Fintype p] [Fintype b] [Fintype b'] [Fintype p'] [Fintype d]
  [DecidableEq p] [DecidableEq b] [DecidableEq b'] [DecidableEq p'] [DecidableEq d]

/-- Squared Frobenius norm `Σ_ij conj(a_ij) a_ij`. -/
def frob2 (A : Matrix p b R) : R := ∑ i, ∑ j, star (A i j) * A i j

theorem trace_eq_frob2 (A : Matrix p b R) : (Aᴴ * A).trace = frob2 A := by
  unfold frob2
  simp only [trace, diag_apply, mul_apply, conjTranspose_apply]
  rw [Finset.sum_comm]

theorem iso_mul {U : Matrix p b R} {A : Matrix b b' R} (hU : Uᴴ * U = 1) (hA : Aᴴ * A = 1) :
    (U * A)ᴴ * (U * A) = 1 := by
  rw [conjTranspose_mul, Matrix.mul_assoc, ← Matrix.mul_assoc Uᴴ, hU, Matrix.one_mul, hA]

theorem coiso_mul {A : Matrix b b' R} {V : Matrix b' p' R} (hA : A * Aᴴ = 1) (hV : V * Vᴴ = 1) :
    (A * V) * (A * V)ᴴ = 1 := by
  rw [conjTranspose_mul, Matrix.mul_assoc, ← Matrix.mul_assoc V, hV, Matrix.one_mul, hA]

/-- `U ⊗ 1_D`: the same block `U` for every value of the physical index. -/
def kronOne (δ : Type) [DecidableEq δ] (U : Matrix p b R) : Matrix (p × δ) (b × δ) R :=
  blockDiagonal (fun _ : δ => U)

theorem iso_kron_one {U : Matrix p b R} (hU : Uᴴ * U = 1) :
    (kronOne d U)ᴴ * kronOne d U = 1 := by
  unfold kronOne
  rw [blockDiagonal_conjTranspose, ← blockDiagonal_mul]
  simp only [hU]
  exact blockDiagonal_one

theorem coiso_kron_one {V : Matrix b p R} (hV : V * Vᴴ = 1) :
    kronOne d V * (kronOne d V)ᴴ = 1 := by
  unfold kronOne
  rw [blockDiagonal_conjTranspose, ← blockDiagonal_mul]
  simp only [hV]
  exact blockDiagonal_one

/-- **Isometry sandwich**: `‖U C V‖_F = ‖C‖_F` when `U` has orthonormal columns and `V` orthonormal rows. -/
theorem sandwich_norm (U : Matrix p b R) (C : Matrix b b' R) (V : Matrix b' p' R)
    (hU : Uᴴ * U = 1) (hV : V * Vᴴ = 1) :
    ((U * C * V)ᴴ * (U * C * V)).trace = (Cᴴ * C).trace := by
  have h1 : (U * C * V)ᴴ * (U * C * V) = Vᴴ * (Cᴴ * C) * V := by
    rw [conjTranspose_mul, conjTranspose_mul]
    calc Vᴴ * (Cᴴ * Uᴴ) * (U * C * V) = Vᴴ * (Cᴴ * ((Uᴴ * U) * C)) * V := by
          simp only [Matrix.mul_assoc]
      _ = _ := by rw [hU, Matrix.one_mul]
  rw [h1, trace_mul_cycle, hV, Matrix.one_mul]

end lemmas

/-- Sites `0..c-1`, all left-orthonormal, contracted into the map `U : bond → physical`. -/
inductive LeftChain (R : Type) [CommRing R] [StarRing R] (D : Type) [Fintype D] [DecidableEq D] :
    (P B : Type) → [Fintype P] → [DecidableEq P] → [Fintype B] → [DecidableEq B] → Matrix P B R → Prop
  | nil : LeftChain R D Unit Unit (1 : Matrix Unit Unit R)
  | snoc {P B B' : Type} [Fintype P] [DecidableEq P] [Fintype B] [DecidableEq B] [Fintype B'] [DecidableEq B']
      (U : Matrix P B R) (A : Matrix (B × D) B' R) :
      LeftChain R D P B U → Aᴴ * A = 1 → LeftChain R D (P × D) B' (kronOne D U * A)

/-- Sites `c+1..n-1`, all right-orthonormal, contracted into the map `V : bond → physical`. -/
inductive RightChain (R : Type) [CommRing R] [StarRing R] (D : Type) [Fintype D] [DecidableEq D] :
    (B P : Type) → [Fintype B] → [DecidableEq B] → [Fintype P] → [DecidableEq P] → Matrix B P R → Prop
  | nil : RightChain R D Unit Unit (1 : Matrix Unit Unit R)
  | cons {B B' P : Type} [Fintype B] [DecidableEq B] [Fintype B'] [DecidableEq B'] [Fintype P] [DecidableEq P]
      (A : Matrix B (B' × D) R) (V : Matrix B' P R) :
      RightChain R D B' P V → A * Aᴴ = 1 → RightChain R D B (P × D) (A * kronOne D V)

variable {D : Type} [Fintype D] [DecidableEq D]

theorem LeftChain.iso {P B : Type} [Fintype P] [DecidableEq P] [Fintype B] [DecidableEq B]
    {U : Matrix P B R} (h : LeftChain R D P B U) : Uᴴ * U = 1 := by
  induction h with
  | nil => simp
  | snoc U A _ hA ih => exact iso_mul (iso_kron_one ih) hA

theorem RightChain.coiso {B P : Type} [Fintype B] [DecidableEq B] [Fintype P] [DecidableEq P]
    {V : Matrix B P R} (h : RightChain R D B P V) : V * Vᴴ = 1 := by
  induction h with
  | nil => simp
  | cons A V _ hA ih => exact coiso_mul hA (coiso_kron_one ih)

/-- **Norm of a mixed-canonical MPS = Frobenius norm of its centre tensor**, any number of sites on
either side. `C` is the centre tensor as a `(χ_l·d) × χ_r` matrix. -/
theorem norm_eq_centre {P B B' P' : Type} [Fintype P] [DecidableEq P] [Fintype B] [DecidableEq B]
    [Fintype B'] [DecidableEq B'] [Fintype P'] [DecidableEq P']
    {U : Matrix P B R} {V : Matrix B' P' R} (hU : LeftChain R D P B U) (hV : RightChain R D B' P' V)
    (C : Matrix (B × D) B' R) :
    frob2 (kronOne D U * C * V) = frob2 C := by
  rw [← trace_eq_frob2, ← trace_eq_frob2]
  exact sandwich_norm _ _ _ (iso_kron_one hU.iso) hV.coiso

end EmuVerif.Isometry
