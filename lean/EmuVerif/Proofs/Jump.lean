/- Bridges from `Model.Jump` (functions + list sums, any scalar) to Mathlib matrices over ℂ,
   and list lemmas for the `random.choices` model. -/
import EmuVerif.Model.Jump
import Mathlib.Data.Complex.Basic
import Mathlib.Data.Matrix.Basic
import Mathlib.Data.Matrix.Mul
import Mathlib.LinearAlgebra.Matrix.ConjTranspose
import Mathlib.Algebra.BigOperators.Fin
import Mathlib.Algebra.Order.Field.Basic
import Mathlib.Tactic.Module
import Mathlib.Tactic.Linarith

set_option linter.unusedSectionVars false

namespace EmuVerif.Jump
open Matrix Complex

/-- the proof-side reading of the scalar's conjugation -/
instance : Conj ℂ := ⟨star⟩

variable {d : Nat}

theorem lsum_eq_sum {β : Type} [AddCommMonoid β] (l : List β) : lsum l = l.sum := by
  induction l with
  | nil => rfl
  | cons a l ih => simp [lsum, List.sum_cons] at ih ⊢; rw [← ih]

theorem matMul_eq (A B : Mat d ℂ) : (Matrix.of (matMul A B)) = Matrix.of A * Matrix.of B := by
  ext i j
  simp only [Matrix.of_apply, matMul, lsum_eq_sum, Matrix.mul_apply, Fin.sum_univ_def]

theorem matH_eq (A : Mat d ℂ) : Matrix.of (matH A) = (Matrix.of A)ᴴ := by
  ext i j
  simp [matH, Matrix.conjTranspose_apply, Conj.conj]

theorem dagMul_eq (L : Mat d ℂ) : Matrix.of (dagMul L) = (Matrix.of L)ᴴ * Matrix.of L := by
  unfold dagMul; rw [matMul_eq, matH_eq]

theorem foldl_acc (Ls : List (Mat d ℂ)) (a : Mat d ℂ) :
    Matrix.of (Ls.foldl (fun acc L => matAdd acc (dagMul L)) a)
      = Matrix.of a + (Ls.map fun L => (Matrix.of L)ᴴ * Matrix.of L).sum := by
  induction Ls generalizing a with
  | nil => simp
  | cons L Ls ih =>
    simp only [List.foldl_cons, List.map_cons, List.sum_cons]
    rw [ih]
    have : Matrix.of (matAdd a (dagMul L)) = Matrix.of a + Matrix.of (dagMul L) := by
      ext i j; simp [matAdd]
    rw [this, dagMul_eq, add_assoc]

theorem sumDagMul_eq (Ls : List (Mat d ℂ)) :
    Matrix.of (sumDagMul Ls) = (Ls.map fun L => (Matrix.of L)ᴴ * Matrix.of L).sum := by
  unfold sumDagMul
  rw [foldl_acc]
  have : Matrix.of (matZero : Mat d ℂ) = 0 := by ext i j; simp [matZero]
  rw [this, zero_add]

theorem noiseTerm_eq (c : ℂ) (Ls : List (Mat d ℂ)) :
    Matrix.of (noiseTerm c Ls) = c • (Ls.map fun L => (Matrix.of L)ᴴ * Matrix.of L).sum := by
  rw [← sumDagMul_eq]
  ext i j
  simp [noiseTerm]

theorem aggregated_eq (Ls : List (Mat d ℂ)) :
    (aggregated Ls).map Matrix.of = Ls.map fun L => (Matrix.of L)ᴴ * Matrix.of L := by
  simp [aggregated, List.map_map, Function.comp_def, dagMul_eq]

/-! ### matrix identities -/

variable {n : Type} [Fintype n] [DecidableEq n]

theorem core_identity (H G J ρ : Matrix n n ℂ) :
    (-I) • ((H - (I / 2) • G) * ρ - ρ * (H + (I / 2) • G)) + J
      = (-I) • (H * ρ - ρ * H) + (J - (1/2 : ℂ) • (G * ρ + ρ * G)) := by
  have h : (-I) * (I / 2) = 1 / 2 := by
    rw [mul_div_assoc', neg_mul, I_mul_I]; norm_num
  simp only [sub_mul, mul_add, smul_mul_assoc, mul_smul_comm, smul_sub, smul_add, smul_smul, h]
  module

theorem sum_split (Ls : List (Matrix n n ℂ)) (ρ : Matrix n n ℂ) :
    (Ls.map (fun L => L * ρ * Lᴴ - (1/2 : ℂ) • (Lᴴ * L * ρ + ρ * (Lᴴ * L)))).sum
      = (Ls.map (fun L => L * ρ * Lᴴ)).sum
        - (1/2 : ℂ) • ((Ls.map (fun L => Lᴴ * L)).sum * ρ + ρ * (Ls.map (fun L => Lᴴ * L)).sum) := by
  induction Ls with
  | nil => simp
  | cons L Ls ih =>
    simp only [List.map_cons, List.sum_cons]
    rw [ih]
    simp only [add_mul, mul_add]
    module

theorem herm_sum (Ls : List (Matrix n n ℂ)) :
    ((Ls.map (fun L => Lᴴ * L)).sum)ᴴ = (Ls.map (fun L => Lᴴ * L)).sum := by
  induction Ls with
  | nil => simp
  | cons L Ls ih => simp [List.sum_cons, conjTranspose_add, conjTranspose_mul, ih]

/-! ### `random.choices` -/

section choice
variable {α : Type} [Field α] [LinearOrder α] [IsStrictOrderedRing α]

theorem cumWeights_length (ws : List α) (acc : α) : (cumWeights ws acc).length = ws.length := by
  induction ws generalizing acc with
  | nil => rfl
  | cons w ws ih => simp [cumWeights, ih]

theorem cumWeights_get (ws : List α) (acc : α) (j : Nat) (h : j < ws.length) :
    (cumWeights ws acc)[j]'(by rw [cumWeights_length]; exact h) = acc + (ws.take (j + 1)).sum := by
  induction ws generalizing acc j with
  | nil => simp at h
  | cons w ws ih =>
    cases j with
    | zero => simp [cumWeights]
    | succ j =>
      simp only [cumWeights, List.getElem_cons_succ]
      rw [ih (acc + w) j (by simpa using h)]
      simp [List.take_succ_cons, List.sum_cons, add_assoc]

theorem cumWeights_getLastD (ws : List α) (acc : α) :
    (cumWeights ws acc).getLastD acc = acc + ws.sum := by
  induction ws generalizing acc with
  | nil => simp [cumWeights]
  | cons w ws ih =>
    simp only [cumWeights, List.sum_cons]
    cases ws with
    | nil => simp [cumWeights]
    | cons w' ws' =>
      have := ih (acc + w)
      simp only [cumWeights] at this ⊢
      simp only [List.getLastD_cons] at this ⊢
      rw [this]; simp [List.sum_cons, add_assoc]

/-- what `bisect_right(cs, x, 0, hi)` returns: every earlier entry is `≤ x`, and it stopped either at
the cap or at the first entry `> x`. -/
theorem bisectRight_spec (cs : List α) (x : α) (hi : Nat) :
    bisectRight cs x hi ≤ min cs.length hi
    ∧ (∀ j (hj : j < cs.length), j < bisectRight cs x hi → cs[j] ≤ x)
    ∧ (∀ (h : bisectRight cs x hi < cs.length), bisectRight cs x hi < hi → x < cs[bisectRight cs x hi]) := by
  induction cs generalizing hi with
  | nil => simp [bisectRight]
  | cons c cs ih =>
    cases hi with
    | zero => simp [bisectRight]
    | succ hi =>
      unfold bisectRight
      by_cases hx : x < c
      · simp [hx]
      · simp only [hx, if_false]
        obtain ⟨h1, h2, h3⟩ := ih hi
        refine ⟨?_, ?_, ?_⟩
        · simp only [List.length_cons]; omega
        · intro j hj hlt
          cases j with
          | zero => simpa using not_lt.mp hx
          | succ j =>
            simp only [List.getElem_cons_succ]
            exact h2 j (by simpa using hj) (by omega)
        · intro h hlt
          have h' : bisectRight cs x hi < cs.length := by simp only [List.length_cons] at h; omega
          have : x < cs[bisectRight cs x hi] := h3 h' (by omega)
          simpa [Nat.add_comm 1] using this

end choice

end EmuVerif.Jump
