/-
  `Model.Krylov.energyImpl` read in a real or complex inner-product space (exact arithmetic):
  unit norm of everything returned, the variational bound, Lanczos orthonormality and the
  three-term recurrence for a symmetric operator, the Ritz identities.
-/
import EmuVerif.Proofs.KrylovIP
import Mathlib.Analysis.InnerProductSpace.Rayleigh
import EmuVerif.Proofs.Scalar

set_option linter.unusedSectionVars false
set_option linter.unusedVariables false

namespace EmuVerif.Krylov

open scoped InnerProductSpace

variable {𝕜 E : Type} [RCLike 𝕜] [NormedAddCommGroup E] [InnerProductSpace 𝕜 E]

/-! ### the variational bound -/

/-- A symmetric operator on a finite-dimensional space has a smallest eigenvalue, and it bounds
every Rayleigh quotient from below. -/
theorem exists_min_eigenvalue [FiniteDimensional 𝕜 E] [Nontrivial E] {T : E →ₗ[𝕜] E}
    (hT : T.IsSymmetric) :
    ∃ μ : ℝ, Module.End.HasEigenvalue T (μ : 𝕜) ∧
      (∀ ν : ℝ, Module.End.HasEigenvalue T (ν : 𝕜) → μ ≤ ν) ∧
      ∀ x : E, ‖x‖ = 1 → μ ≤ RCLike.re ⟪x, T x⟫_𝕜 := by
  have : CompleteSpace E := FiniteDimensional.complete 𝕜 E
  refine ⟨_, hT.hasEigenvalue_iInf_of_finiteDimensional, ?_, ?_⟩
  all_goals
    have hbdd : BddBelow (Set.range fun x : { x : E // x ≠ 0 } =>
        RCLike.re ⟪T x, x⟫_𝕜 / ‖(x : E)‖ ^ 2) := by
      refine ⟨-‖hT.toSelfAdjoint.val‖, ?_⟩
      rintro _ ⟨x, rfl⟩
      have := ContinuousLinearMap.rayleighQuotient_le_norm hT.toSelfAdjoint.val (x : E)
      exact (abs_le.mp this).1
  · intro ν hν
    obtain ⟨x, hx⟩ := hν.exists_hasEigenvector
    have hx0 : x ≠ 0 := hx.2
    have hTx : T x = (ν : 𝕜) • x := hx.apply_eq_smul
    refine le_trans (ciInf_le hbdd ⟨x, hx0⟩) (le_of_eq ?_)
    show RCLike.re ⟪T x, x⟫_𝕜 / ‖x‖ ^ 2 = ν
    rw [hTx, inner_smul_left, RCLike.conj_ofReal, inner_self_eq_norm_sq_to_K]
    have hn : ‖x‖ ^ 2 ≠ 0 := by
      have : ‖x‖ ≠ 0 := by simpa using hx0
      positivity
    rw [← RCLike.ofReal_pow, ← RCLike.ofReal_mul, RCLike.ofReal_re]
    field_simp
  · intro x hx
    have hx0 : x ≠ 0 := by
      intro h; rw [h, norm_zero] at hx; exact zero_ne_one hx
    refine le_trans (ciInf_le hbdd ⟨x, hx0⟩) (le_of_eq ?_)
    show RCLike.re ⟪T x, x⟫_𝕜 / ‖x‖ ^ 2 = _
    rw [hx, one_pow, div_one, hT x x]

/-! ### unit norm of everything the search returns (any `eigh` oracle) -/
section Norm
variable (A : E → E) (eigh : Nat → Nat → List ℝ → List ℝ → ℝ × List ℝ) (cfg : EnergyCfg ℝ)

theorem norm_divR_self {w : E} (hw : ‖w‖ ≠ 0) : ‖(ipOps (𝕜 := 𝕜) A).divR w ((ipOps (𝕜 := 𝕜) A).norm w)‖ = 1 :=
  norm_divR A hw

/-- `_ritz_vector` returns a unit vector or raises. -/
theorem ritzVector_norm (hnum : 0 ≤ cfg.numTol) {y : List ℝ} {qs : List E} {rv : E}
    (h : ritzVector (ipOps (𝕜 := 𝕜) A) cfg.numTol y qs = .ok rv) : ‖rv‖ = 1 := by
  unfold ritzVector at h
  simp only at h
  split at h
  · simp at h
  · rename_i hgt
    simp only [Except.ok.injEq] at h
    rw [← h]
    refine norm_divR A ?_
    intro h0
    apply hgt
    show ‖_‖ ≤ cfg.numTol
    rw [h0]; exact hnum

theorem cycLoop_best_norm (hnum : 0 ≤ cfg.numTol) (c ops : Nat) :
    ∀ (fuel j : Nat) (st : CycSt ℝ E), j + fuel = cfg.maxDim → ‖st.best‖ = 1 →
      ∀ r, cycLoop (ipOps (𝕜 := 𝕜) A) eigh cfg c ops fuel j st = .ok r → ‖r.groundState‖ = 1 := by
  refine cycLoop_rule (ipOps (𝕜 := 𝕜) A) eigh cfg (I := fun _ st => ‖st.best‖ = 1)
    (Q := fun r => ‖r.groundState‖ = 1) ?_ ?_ ?_
  · intro j st st' _ hI h
    obtain ⟨rv, yj, hrv, _, hout⟩ := cycIter_spec _ eigh cfg h
    have hn := ritzVector_norm A cfg hnum hrv
    split at hout
    · simp at hout
    · split at hout
      · simp at hout
      · simp only [CycOut.cont.injEq] at hout
        rw [hout]
        simp only [cycNext, cycUpd]
        split <;> assumption
  · intro j st st' cv hb _ hI h
    obtain ⟨rv, yj, hrv, _, hout⟩ := cycIter_spec _ eigh cfg h
    have hn := ritzVector_norm A cfg hnum hrv
    have : ‖st'.best‖ = 1 := by
      split at hout
      · simp only [CycOut.done.injEq] at hout
        rw [hout.1]; simp only [cycUpd]; split <;> assumption
      · split at hout
        · simp only [CycOut.done.injEq] at hout
          rw [hout.1]; simp only [cycUpd]; split <;> assumption
        · simp at hout
    exact this
  · intro st hI
    exact hI

theorem cycle_norm (hnum : 0 ≤ cfg.numTol) (c ops : Nat) (v : E) (hv : v ≠ 0) {r : EnergyResult ℝ E}
    (h : cycle (ipOps (𝕜 := 𝕜) A) eigh cfg c ops v = .ok r) : ‖r.groundState‖ = 1 := by
  unfold cycle at h
  simp only at h
  split at h
  · simp at h
  · refine cycLoop_best_norm A eigh cfg hnum c ops cfg.maxDim 0 _ (by omega) ?_ r h
    exact norm_divR A (by simpa using hv)

theorem energyImpl_norm (hnum : 0 ≤ cfg.numTol) (psi : E) (hpsi : psi ≠ 0) {r : EnergyResult ℝ E}
    (h : energyImpl (ipOps (𝕜 := 𝕜) A) eigh cfg psi = .ok r) : ‖r.groundState‖ = 1 := by
  unfold energyImpl at h
  refine restartLoop_rule (ipOps (𝕜 := 𝕜) A) eigh cfg (I := fun _ res => res.groundState ≠ 0)
    (Q := fun r => ‖r.groundState‖ = 1) ?_ (cfg.maxRestarts + 1) 0 _ (by omega) hpsi (by omega) r h
  intro r res cyc _ hI hc
  have := cycle_norm A eigh cfg hnum r _ _ hI hc
  refine ⟨fun _ => this, fun _ => ?_⟩
  show cyc.groundState ≠ 0
  intro h0
  rw [h0, norm_zero] at this
  exact zero_ne_one this

end Norm

/-! ### the Ritz identities, abstractly (sequences indexed by `ℕ`) -/
section Ritz
open Finset

variable (A : E →ₗ[𝕜] E) (q : ℕ → E) (a b y : ℕ → ℝ) (j : ℕ) (w : E) (θ : ℝ)

/-- The Ritz vector `Σ_{i ≤ j} y_i q_i`. -/
def ritzSum : E := ∑ i ∈ range (j + 1), (y i : 𝕜) • q i

/-- Three-term recurrence for all `k ≤ j` (the last residual is `w`, not yet normalised). -/
def ThreeTerm : Prop :=
  ∀ k, k ≤ j → A (q k) = (if k = 0 then 0 else (b (k - 1) : 𝕜) • q (k - 1)) + (a k : 𝕜) • q k
      + (if k < j then (b k : 𝕜) • q (k + 1) else w)

/-- `T y = θ y` for the tridiagonal `T = tridiag(b, a, b)` of size `j + 1`. -/
def TriEig : Prop :=
  ∀ i, i ≤ j → a i * y i + (if i = 0 then 0 else b (i - 1) * y (i - 1))
      + (if i < j then b i * y (i + 1) else 0) = θ * y i

/-- **Saad, Prop. 6.8**: `A ψ − θ ψ = y_j • w` for the Ritz pair of the Lanczos tridiagonal. -/
theorem ritz_residual_vec (h3 : ThreeTerm (𝕜 := 𝕜) A q a b j w) (hT : TriEig a b y j θ) :
    A (ritzSum (𝕜 := 𝕜) q y j) = (θ : 𝕜) • ritzSum (𝕜 := 𝕜) q y j + (y j : 𝕜) • w := by
  unfold ritzSum
  -- left-hand side
  have hL : A (∑ i ∈ range (j + 1), (y i : 𝕜) • q i)
      = (∑ k ∈ range j, ((y (k + 1) * b k : ℝ) : 𝕜) • q k)
        + (∑ k ∈ range (j + 1), ((y k * a k : ℝ) : 𝕜) • q k)
        + ((∑ k ∈ range j, ((y k * b k : ℝ) : 𝕜) • q (k + 1)) + (y j : 𝕜) • w) := by
    rw [map_sum]
    have : ∀ k ∈ range (j + 1), A ((y k : 𝕜) • q k)
        = (y k : 𝕜) • (if k = 0 then 0 else (b (k - 1) : 𝕜) • q (k - 1))
          + ((y k * a k : ℝ) : 𝕜) • q k
          + (y k : 𝕜) • (if k < j then (b k : 𝕜) • q (k + 1) else w) := by
      intro k hk
      rw [map_smul, h3 k (Nat.lt_succ_iff.mp (mem_range.mp hk)), smul_add, smul_add, smul_smul]
      push_cast; rfl
    rw [sum_congr rfl this, sum_add_distrib, sum_add_distrib]
    congr 1
    · congr 1
      rw [sum_range_succ']
      simp only [↓reduceIte, smul_zero, add_zero, Nat.add_sub_cancel, Nat.succ_ne_zero]
      refine sum_congr rfl (fun k _ => ?_)
      rw [smul_smul]; push_cast; rfl
    · rw [sum_range_succ]
      simp only [lt_self_iff_false, ↓reduceIte]
      congr 1
      refine sum_congr rfl (fun k hk => ?_)
      rw [if_pos (mem_range.mp hk), smul_smul]; push_cast; rfl
  -- right-hand side
  have hR : (θ : 𝕜) • ∑ i ∈ range (j + 1), (y i : 𝕜) • q i
      = (∑ k ∈ range (j + 1), ((y k * a k : ℝ) : 𝕜) • q k)
        + (∑ k ∈ range j, ((y k * b k : ℝ) : 𝕜) • q (k + 1))
        + (∑ k ∈ range j, ((y (k + 1) * b k : ℝ) : 𝕜) • q k) := by
    rw [smul_sum]
    have : ∀ i ∈ range (j + 1), (θ : 𝕜) • (y i : 𝕜) • q i
        = ((y i * a i : ℝ) : 𝕜) • q i
          + (((if i = 0 then 0 else b (i - 1) * y (i - 1) : ℝ)) : 𝕜) • q i
          + (((if i < j then b i * y (i + 1) else 0 : ℝ)) : 𝕜) • q i := by
      intro i hi
      rw [smul_smul, ← add_smul, ← add_smul, ← RCLike.ofReal_mul, ← RCLike.ofReal_add,
        ← RCLike.ofReal_add, ← hT i (Nat.lt_succ_iff.mp (mem_range.mp hi)), mul_comm (y i) (a i)]
    rw [sum_congr rfl this, sum_add_distrib, sum_add_distrib]
    congr 1
    · congr 1
      rw [sum_range_succ']
      simp only [↓reduceIte, RCLike.ofReal_zero, zero_smul, add_zero, Nat.add_sub_cancel,
        Nat.succ_ne_zero]
      refine sum_congr rfl (fun k _ => ?_)
      rw [mul_comm]
    · rw [sum_range_succ]
      simp only [lt_self_iff_false, ↓reduceIte, RCLike.ofReal_zero, zero_smul, add_zero]
      refine sum_congr rfl (fun k hk => ?_)
      rw [if_pos (mem_range.mp hk), mul_comm]
  rw [hL, hR]
  abel

end Ritz

/-! ### one Lanczos cycle for a symmetric operator -/
section Lanczos
variable (A : E →ₗ[𝕜] E) (eigh : Nat → Nat → List ℝ → List ℝ → ℝ × List ℝ) (cfg : EnergyCfg ℝ)

theorem getD_snoc_lt {α : Type} (l : List α) (x d : α) {k : ℕ} (h : k < l.length) :
    (l ++ [x]).getD k d = l.getD k d := by
  simp [List.getD_eq_getElem?_getD, List.getElem?_append_left h]

theorem getD_snoc_eq {α : Type} (l : List α) (x d : α) {k : ℕ} (h : k = l.length) :
    (l ++ [x]).getD k d = x := by
  subst h; simp [List.getD_eq_getElem?_getD]

/-- Orthonormal list, as a statement about `getD`. -/
theorem orthoN_getD {ql : List E} (h : OrthoN (𝕜 := 𝕜) ql) {a b : ℕ} (ha : a < ql.length)
    (hb : b < ql.length) : ⟪ql.getD a 0, ql.getD b 0⟫_𝕜 = if a = b then 1 else 0 := by
  have e1 : ql.getD a 0 = ql[a] := by simp [List.getD_eq_getElem?_getD, ha]
  have e2 : ql.getD b 0 = ql[b] := by simp [List.getD_eq_getElem?_getD, hb]
  rw [e1, e2]
  by_cases hab : a = b
  · subst hab
    rw [if_pos rfl, inner_self_eq_norm_sq_to_K, h.1 _ (List.getElem_mem _)]; simp
  · rw [if_neg hab]; exact orthoN_getElem_inner h ha hb hab

/-- Invariant of `_lowest_eigenvector_krylov_method` at the top of iteration `j`. -/
structure LanInv (j : ℕ) (st : CycSt ℝ E) : Prop where
  ortho : OrthoN (𝕜 := 𝕜) st.qs
  len : st.qs.length = j + 1
  cur : st.qs.getD j 0 = st.cur
  prev : st.prev = if j = 0 then none else some (st.qs.getD (j - 1) 0)
  alen : st.alphas.length = j
  blen : st.betas.length = j
  rec3 : ∀ k, k < j → A (st.qs.getD k 0) =
      (if k = 0 then 0 else (st.betas.getD (k - 1) 0 : 𝕜) • st.qs.getD (k - 1) 0)
      + (st.alphas.getD k 0 : 𝕜) • st.qs.getD k 0 + (st.betas.getD k 0 : 𝕜) • st.qs.getD (k + 1) 0

/-- `_next_lanczos_iteration` spelled out. -/
theorem lanczosNext_eq {j : ℕ} {st : CycSt ℝ E} (h : LanInv (𝕜 := 𝕜) A j st) :
    (lanczosNext (ipOps (𝕜 := 𝕜) A) st).2.1 = RCLike.re ⟪st.cur, A st.cur⟫_𝕜 ∧
    (lanczosNext (ipOps (𝕜 := 𝕜) A) st).2.2 = ‖(lanczosNext (ipOps (𝕜 := 𝕜) A) st).1‖ ∧
    (lanczosNext (ipOps (𝕜 := 𝕜) A) st).1
      = A st.cur - ((RCLike.re ⟪st.cur, A st.cur⟫_𝕜 : ℝ) : 𝕜) • st.cur
        - (if j = 0 then 0 else (st.betas.getD (j - 1) 0 : 𝕜) • st.qs.getD (j - 1) 0) := by
  refine ⟨rfl, rfl, ?_⟩
  unfold lanczosNext
  simp only [ipOps]
  rw [h.prev]
  by_cases hj : j = 0
  · simp [hj]
  · have hl : st.betas.getLast? = some (st.betas.getD (j - 1) 0) := by
      rw [List.getLast?_eq_getElem?, h.blen, List.getD_eq_getElem?_getD,
        List.getElem?_eq_getElem (by rw [h.blen]; omega)]
      simp
    rw [if_neg hj, hl, if_neg hj]

theorem lan_inner_q_Aq (hA : A.IsSymmetric) {j : ℕ} {st : CycSt ℝ E} (h : LanInv (𝕜 := 𝕜) A j st)
    {i : ℕ} (hi : i < j) :
    ⟪st.qs.getD i 0, A st.cur⟫_𝕜 = if i + 1 = j then (st.betas.getD i 0 : 𝕜) else 0 := by
  rw [← hA (st.qs.getD i 0) st.cur, h.rec3 i hi, ← h.cur]
  have hq : ∀ a, a ≤ j → ⟪st.qs.getD a 0, st.qs.getD j 0⟫_𝕜 = if a = j then 1 else 0 :=
    fun a ha => orthoN_getD h.ortho (by rw [h.len]; omega) (by rw [h.len]; omega)
  have h0 : ⟪(if i = 0 then (0 : E) else (st.betas.getD (i - 1) 0 : 𝕜) • st.qs.getD (i - 1) 0),
      st.qs.getD j 0⟫_𝕜 = 0 := by
    split
    · simp
    · rw [inner_smul_left, hq (i - 1) (by omega), if_neg (show ¬ i - 1 = j by omega), mul_zero]
  rw [inner_add_left, inner_add_left, h0, inner_smul_left, inner_smul_left, hq i (by omega),
    hq (i + 1) (by omega), RCLike.conj_ofReal, RCLike.conj_ofReal]
  have hne : ¬ i = j := by omega
  by_cases hij : i + 1 = j <;> simp [hij, hne]

/-- The new direction is orthogonal to every Lanczos vector built so far. -/
theorem lan_w_orth (hA : A.IsSymmetric) {j : ℕ} {st : CycSt ℝ E} (h : LanInv (𝕜 := 𝕜) A j st)
    {i : ℕ} (hi : i ≤ j) : ⟪st.qs.getD i 0, (lanczosNext (ipOps (𝕜 := 𝕜) A) st).1⟫_𝕜 = 0 := by
  rw [(lanczosNext_eq A h).2.2]
  have hq : ∀ a b, a ≤ j → b ≤ j → ⟪st.qs.getD a 0, st.qs.getD b 0⟫_𝕜 = if a = b then 1 else 0 :=
    fun a b ha hb => orthoN_getD h.ortho (by rw [h.len]; omega) (by rw [h.len]; omega)
  have e2 : ⟪st.qs.getD i 0, st.cur⟫_𝕜 = if i = j then 1 else 0 := by
    rw [← h.cur]; exact hq i j hi le_rfl
  have h3 : ⟪st.qs.getD i 0, (if j = 0 then (0 : E) else (st.betas.getD (j - 1) 0 : 𝕜) • st.qs.getD (j - 1) 0)⟫_𝕜
      = if i + 1 = j then (st.betas.getD (j - 1) 0 : 𝕜) else 0 := by
    by_cases hj : j = 0
    · rw [if_pos hj, if_neg (by omega)]; simp
    · rw [if_neg hj, inner_smul_right, hq i (j - 1) hi (by omega)]
      by_cases hij : i + 1 = j
      · rw [if_pos (by omega), if_pos hij, mul_one]
      · rw [if_neg (by omega), if_neg hij, mul_zero]
  rw [inner_sub_right, inner_sub_right, inner_smul_right, e2, h3]
  rcases Nat.lt_or_eq_of_le hi with hlt | heq
  · have e1 := lan_inner_q_Aq A hA h hlt
    rw [e1]
    have hne : ¬ i = j := by omega
    by_cases hij : i + 1 = j
    · have hj1 : j - 1 = i := by omega
      rw [hj1]
      simp [hij, hne]
    · simp [hij, hne]
  · subst heq
    rw [if_pos rfl, if_neg (show ¬ i + 1 = i by omega), mul_one, sub_zero,
      hA.coe_re_inner_self_apply, h.cur, sub_self]

/-- Three-term recurrence including the current, not yet normalised residual. -/
theorem lan_three_term {j : ℕ} {st : CycSt ℝ E} (h : LanInv (𝕜 := 𝕜) A j st) :
    ThreeTerm (𝕜 := 𝕜) A (fun k => st.qs.getD k 0) (fun k => (cycAlphas (ipOps (𝕜 := 𝕜) A) st).getD k 0)
      (fun k => st.betas.getD k 0) j (lanczosNext (ipOps (𝕜 := 𝕜) A) st).1 := by
  intro k hk
  simp only
  rcases Nat.lt_or_eq_of_le hk with hlt | heq
  · rw [if_pos hlt, h.rec3 k hlt]
    congr 2
    unfold cycAlphas
    rw [getD_snoc_lt _ _ _ (by rw [h.alen]; exact hlt)]
  · subst heq
    rw [if_neg (lt_irrefl _)]
    unfold cycAlphas
    rw [getD_snoc_eq _ _ _ h.alen.symm, (lanczosNext_eq A h).2.2, (lanczosNext_eq A h).1, h.cur]
    abel

theorem lanInv_init (v : E) (hv : v ≠ 0) :
    LanInv (𝕜 := 𝕜) A 0
      { qs := [(ipOps (𝕜 := 𝕜) A).divR v ‖v‖], cur := (ipOps (𝕜 := 𝕜) A).divR v ‖v‖, prev := none,
        alphas := [], betas := [], best := (ipOps (𝕜 := 𝕜) A).divR v ‖v‖, bestE := none,
        bestR := none, nIter := 0 } := by
  refine ⟨⟨?_, by simp⟩, rfl, rfl, rfl, rfl, rfl, by intro k hk; omega⟩
  intro q hq
  simp only [List.mem_singleton] at hq
  rw [hq]
  exact norm_divR A (by simpa using hv)

/-- The invariant survives `lanczos_vectors.append(w / betas[j])`. -/
theorem lanInv_step (hA : A.IsSymmetric) (hpos : 0 < cfg.normTol) {c j : ℕ} {st st' : CycSt ℝ E}
    (h : LanInv (𝕜 := 𝕜) A j st)
    (hstep : cycIter (ipOps (𝕜 := 𝕜) A) eigh cfg c j st = .ok (.cont st')) :
    LanInv (𝕜 := 𝕜) A (j + 1) st' := by
  obtain ⟨rv, yj, _, _, hout⟩ := cycIter_spec _ eigh cfg hstep
  by_cases hb : cycBeta (ipOps (𝕜 := 𝕜) A) st < cfg.normTol
  · rw [if_pos hb] at hout; simp at hout
  rw [if_neg hb] at hout
  by_cases hr : cycResid (ipOps (𝕜 := 𝕜) A) st yj < cfg.residTol
  · rw [if_pos hr] at hout; simp at hout
  rw [if_neg hr] at hout
  simp only [CycOut.cont.injEq] at hout
  subst hout
  set w := (lanczosNext (ipOps (𝕜 := 𝕜) A) st).1 with hw
  have hbeta : cycBeta (ipOps (𝕜 := 𝕜) A) st = ‖w‖ := (lanczosNext_eq A h).2.1
  have hne : ‖w‖ ≠ 0 := by
    intro h0
    rw [hbeta, h0] at hb
    exact hb hpos
  set q' := (ipOps (𝕜 := 𝕜) A).divR w (cycBeta (ipOps (𝕜 := 𝕜) A) st) with hq'
  have hq'n : ‖q'‖ = 1 := by rw [hq', hbeta]; exact norm_divR A hne
  have hwq : w = ((cycBeta (ipOps (𝕜 := 𝕜) A) st : ℝ) : 𝕜) • q' := by
    rw [hq', hbeta]
    simp only [ipOps]
    rw [smul_smul, mul_inv_cancel₀ (by exact_mod_cast hne), one_smul]
  have hjl : j < st.qs.length := by rw [h.len]; omega
  refine ⟨?_, ?_, ?_, ?_, ?_, ?_, ?_⟩
  · show OrthoN (𝕜 := 𝕜) (st.qs ++ [q'])
    refine h.ortho.append_one hq'n ?_
    intro p hp
    obtain ⟨i, hi, rfl⟩ := List.mem_iff_getElem.mp hp
    have : st.qs[i] = st.qs.getD i 0 := by simp [List.getD_eq_getElem?_getD, hi]
    rw [this, hq']
    simp only [ipOps]
    rw [inner_smul_right, lan_w_orth A hA h (by rw [h.len] at hi; omega), mul_zero]
  · show (st.qs ++ [q']).length = j + 1 + 1
    rw [List.length_append, h.len]; rfl
  · show (st.qs ++ [q']).getD (j + 1) 0 = q'
    exact getD_snoc_eq _ _ _ h.len.symm
  · show some st.cur = if j + 1 = 0 then none else some ((st.qs ++ [q']).getD (j + 1 - 1) 0)
    rw [if_neg (by omega), Nat.add_sub_cancel, getD_snoc_lt _ _ _ hjl, h.cur]
  · show (cycAlphas (ipOps (𝕜 := 𝕜) A) st).length = j + 1
    simp [cycAlphas, h.alen]
  · show (st.betas ++ [cycBeta (ipOps (𝕜 := 𝕜) A) st]).length = j + 1
    simp [h.blen]
  · intro k hk
    show A ((st.qs ++ [q']).getD k 0) =
      (if k = 0 then 0 else ((st.betas ++ [cycBeta (ipOps (𝕜 := 𝕜) A) st]).getD (k - 1) 0 : 𝕜)
          • (st.qs ++ [q']).getD (k - 1) 0)
      + ((cycAlphas (ipOps (𝕜 := 𝕜) A) st).getD k 0 : 𝕜) • (st.qs ++ [q']).getD k 0
      + ((st.betas ++ [cycBeta (ipOps (𝕜 := 𝕜) A) st]).getD k 0 : 𝕜) • (st.qs ++ [q']).getD (k + 1) 0
    have h3 := lan_three_term A h k (by omega)
    simp only at h3
    rw [getD_snoc_lt st.qs q' 0 (show k < st.qs.length by rw [h.len]; omega)]
    rw [h3]
    congr 1
    · congr 1
      by_cases hk0 : k = 0
      · rw [if_pos hk0, if_pos hk0]
      · rw [if_neg hk0, if_neg hk0, getD_snoc_lt _ _ _ (by rw [h.blen]; omega),
          getD_snoc_lt _ _ _ (by rw [h.len]; omega)]
    · rcases Nat.lt_or_eq_of_le (Nat.lt_succ_iff.mp hk) with hlt | heq
      · rw [if_pos hlt, getD_snoc_lt _ _ _ (by rw [h.blen]; exact hlt),
          getD_snoc_lt _ _ _ (by rw [h.len]; omega)]
      · subst heq
        rw [if_neg (lt_irrefl _), getD_snoc_eq _ _ _ h.blen.symm, getD_snoc_eq _ _ _ h.len.symm]
        exact hwq

end Lanczos

/-! ### the Ritz pair of one iteration -/
section RitzPair
open Finset
variable (A : E →ₗ[𝕜] E) (eigh : Nat → Nat → List ℝ → List ℝ → ℝ × List ℝ) (cfg : EnergyCfg ℝ)

theorem lincomb_foldl (cs : List 𝕜) (vs : List E) (acc : E) :
    (cs.zip vs).foldl (fun acc cv => (ipOps (𝕜 := 𝕜) A).add acc ((ipOps (𝕜 := 𝕜) A).smul cv.1 cv.2)) acc
      = acc + wsum cs vs := by
  induction cs generalizing vs acc with
  | nil => simp [wsum]
  | cons c cs ih =>
    cases vs with
    | nil => simp [wsum]
    | cons v vs =>
      simp only [List.zip_cons_cons, List.foldl_cons, wsum_cons]
      rw [ih]
      simp only [ipOps]
      abel

theorem lincomb_eq_wsum (cs : List 𝕜) (vs : List E) :
    lincomb (ipOps (𝕜 := 𝕜) A) cs vs = wsum cs vs := by
  unfold lincomb
  rw [lincomb_foldl]
  simp [ipOps]

theorem wsum_eq_sum_range (ys : List ℝ) (ql : List E) (h : ys.length = ql.length) :
    wsum (ys.map (fun (r : ℝ) => (r : 𝕜))) ql
      = ∑ i ∈ range ql.length, ((ys.getD i 0 : ℝ) : 𝕜) • ql.getD i 0 := by
  induction ql generalizing ys with
  | nil => cases ys <;> simp [wsum]
  | cons q ql ih =>
    cases ys with
    | nil => simp at h
    | cons y ys =>
      simp only [List.map_cons, wsum_cons, List.length_cons]
      rw [sum_range_succ', ih ys (by simpa using h)]
      simp [add_comm]

/-- Contract of `_lowest_ritz_pair_tridiagonal` (`torch.linalg.eigh` on the tridiagonal matrix
`tridiag(be, al, be)`): the answer `(θ, y)` has `T y = θ y` and `‖y‖ = 1`. (LAPACK also
returns the *smallest* eigenvalue; nothing proved here needs it: the variational bound holds
for every unit vector.) -/
def EighContract : Prop :=
  ∀ (c j : ℕ) (al be : List ℝ), al.length = be.length + 1 →
    (eigh c j al be).2.length = al.length ∧
    (∑ i ∈ range al.length, ((eigh c j al be).2.getD i 0) ^ 2 = 1) ∧
    TriEig (fun i => al.getD i 0) (fun i => be.getD i 0)
      (fun i => (eigh c j al be).2.getD i 0) be.length (eigh c j al be).1

variable (q : ℕ → E) (y : ℕ → ℝ) (j : ℕ)

theorem inner_q_ritzSum (hq : ∀ a b, a ≤ j → b ≤ j → ⟪q a, q b⟫_𝕜 = if a = b then 1 else 0)
    {k : ℕ} (hk : k ≤ j) : ⟪q k, ritzSum (𝕜 := 𝕜) q y j⟫_𝕜 = (y k : 𝕜) := by
  unfold ritzSum
  rw [inner_sum]
  have : ∀ i ∈ range (j + 1), ⟪q k, (y i : 𝕜) • q i⟫_𝕜 = if k = i then (y i : 𝕜) else 0 := by
    intro i hi
    rw [inner_smul_right, hq k i hk (Nat.lt_succ_iff.mp (mem_range.mp hi))]
    split <;> simp
  rw [sum_congr rfl this, sum_ite_eq, if_pos (mem_range.mpr (Nat.lt_succ_iff.mpr hk))]

theorem inner_ritzSum_self (hq : ∀ a b, a ≤ j → b ≤ j → ⟪q a, q b⟫_𝕜 = if a = b then 1 else 0) :
    ⟪ritzSum (𝕜 := 𝕜) q y j, ritzSum (𝕜 := 𝕜) q y j⟫_𝕜 = ((∑ i ∈ range (j + 1), (y i) ^ 2 : ℝ) : 𝕜) := by
  show ⟪∑ i ∈ range (j + 1), (y i : 𝕜) • q i, ritzSum (𝕜 := 𝕜) q y j⟫_𝕜 = _
  rw [sum_inner]
  have : ∀ i ∈ range (j + 1), ⟪(y i : 𝕜) • q i, ritzSum (𝕜 := 𝕜) q y j⟫_𝕜 = (((y i) ^ 2 : ℝ) : 𝕜) := by
    intro i hi
    rw [inner_smul_left, inner_q_ritzSum q y j hq (Nat.lt_succ_iff.mp (mem_range.mp hi)),
      RCLike.conj_ofReal]
    push_cast; ring
  rw [sum_congr rfl this]
  push_cast; rfl

theorem norm_ritzSum (hq : ∀ a b, a ≤ j → b ≤ j → ⟪q a, q b⟫_𝕜 = if a = b then 1 else 0)
    (hy : ∑ i ∈ range (j + 1), (y i) ^ 2 = 1) : ‖ritzSum (𝕜 := 𝕜) q y j‖ = 1 := by
  have h := inner_ritzSum_self (𝕜 := 𝕜) q y j hq
  rw [hy, inner_self_eq_norm_sq_to_K] at h
  have h2 : ‖ritzSum (𝕜 := 𝕜) q y j‖ ^ 2 = 1 := by exact_mod_cast h
  exact (pow_eq_one_iff_of_nonneg (norm_nonneg _) two_ne_zero).mp h2

theorem inner_ritzSum_w (w : E) (hw : ∀ i, i ≤ j → ⟪q i, w⟫_𝕜 = 0) :
    ⟪ritzSum (𝕜 := 𝕜) q y j, w⟫_𝕜 = 0 := by
  unfold ritzSum
  rw [sum_inner]
  refine sum_eq_zero (fun i hi => ?_)
  rw [inner_smul_left, hw i (Nat.lt_succ_iff.mp (mem_range.mp hi)), mul_zero]

end RitzPair

/-! ### the Ritz triple kept by the search -/
section Facts
open Finset
variable (A : E →ₗ[𝕜] E) (eigh : Nat → Nat → List ℝ → List ℝ → ℝ × List ℝ) (cfg : EnergyCfg ℝ)

/-- `ψ` is a unit vector, `e` its Rayleigh quotient, `ρ` its residual norm. -/
def RitzOK (ψ : E) (e ρ : ℝ) : Prop :=
  ‖ψ‖ = 1 ∧ ⟪ψ, A ψ⟫_𝕜 = (e : 𝕜) ∧ ‖A ψ - (e : 𝕜) • ψ‖ = ρ

/-- One iteration, exact arithmetic, symmetric `op`, `eigh` contract: `_ritz_vector` does not
raise, `y[j]` exists, and `(ritz_vec, ritz_value, resid)` is a genuine Ritz triple:
`⟪ψ, Hψ⟫ = θ` and `‖Hψ − θψ‖ = |betas[j]·y[j]|`. -/
theorem ritz_facts (hA : A.IsSymmetric) (hc : EighContract eigh) (hnum : cfg.numTol < 1)
    {c j : ℕ} {st : CycSt ℝ E} (h : LanInv (𝕜 := 𝕜) A j st) :
    ∃ rv yj, ritzVector (ipOps (𝕜 := 𝕜) A) cfg.numTol (cycTy (ipOps (𝕜 := 𝕜) A) eigh c j st).2 st.qs = .ok rv ∧
      (cycTy (ipOps (𝕜 := 𝕜) A) eigh c j st).2[j]? = some yj ∧
      RitzOK (𝕜 := 𝕜) A rv (cycTy (ipOps (𝕜 := 𝕜) A) eigh c j st).1 (cycResid (ipOps (𝕜 := 𝕜) A) st yj) := by
  have hal : (cycAlphas (ipOps (𝕜 := 𝕜) A) st).length = st.betas.length + 1 := by
    simp [cycAlphas, h.alen, h.blen]
  obtain ⟨hlen, hnorm, htri⟩ := hc c j (cycAlphas (ipOps (𝕜 := 𝕜) A) st) st.betas hal
  change (cycTy (ipOps (𝕜 := 𝕜) A) eigh c j st).2.length = _ at hlen
  rw [hal, h.blen] at hlen hnorm
  rw [h.blen] at htri
  set θ := (cycTy (ipOps (𝕜 := 𝕜) A) eigh c j st).1 with hθ
  set ys := (cycTy (ipOps (𝕜 := 𝕜) A) eigh c j st).2 with hys
  set q : ℕ → E := fun k => st.qs.getD k 0 with hqdef
  set y : ℕ → ℝ := fun k => ys.getD k 0 with hydef
  set w := (lanczosNext (ipOps (𝕜 := 𝕜) A) st).1 with hw
  have hq : ∀ a b, a ≤ j → b ≤ j → ⟪q a, q b⟫_𝕜 = if a = b then 1 else 0 :=
    fun a b ha hb => orthoN_getD h.ortho (by rw [h.len]; omega) (by rw [h.len]; omega)
  -- the Ritz vector of the model is `Σ y_i q_i`
  have hritz : lincomb (ipOps (𝕜 := 𝕜) A) (ys.map (ipOps (𝕜 := 𝕜) A).ofReal) st.qs
      = ritzSum (𝕜 := 𝕜) q y j := by
    rw [lincomb_eq_wsum]
    have := wsum_eq_sum_range (𝕜 := 𝕜) ys st.qs (by rw [hlen, h.len])
    rw [h.len] at this
    exact this
  have hn1 : ‖ritzSum (𝕜 := 𝕜) q y j‖ = 1 := norm_ritzSum q y j hq hnorm
  have hyj : ys[j]? = some (y j) := by
    rw [List.getElem?_eq_getElem (by rw [hlen]; omega)]
    simp [hydef, List.getD_eq_getElem?_getD, hlen]
  refine ⟨ritzSum (𝕜 := 𝕜) q y j, y j, ?_, hyj, hn1, ?_, ?_⟩
  · unfold ritzVector
    simp only
    rw [hritz]
    have hnn : (ipOps (𝕜 := 𝕜) A).norm (ritzSum (𝕜 := 𝕜) q y j) = 1 := hn1
    rw [hnn, if_neg (not_le.mpr hnum)]
    simp [ipOps]
  all_goals
    have hres := ritz_residual_vec (𝕜 := 𝕜) A q
      (fun k => (cycAlphas (ipOps (𝕜 := 𝕜) A) st).getD k 0) (fun k => st.betas.getD k 0) y j w θ
      (lan_three_term A h) htri
  · rw [hres, inner_add_right, inner_smul_right, inner_smul_right, inner_self_eq_norm_sq_to_K, hn1,
      inner_ritzSum_w q y j w (fun i hi => lan_w_orth A hA h hi)]
    simp
  · rw [hres, add_sub_cancel_left, norm_smul, RCLike.norm_ofReal]
    unfold cycResid
    have hbw : cycBeta (ipOps (𝕜 := 𝕜) A) st = ‖w‖ := (lanczosNext_eq A h).2.1
    rw [absv_eq_abs, abs_mul, hbw, abs_norm, mul_comm]

/-- The triple `(best_state, best_energy, best_resid)` is `inf`-initialised or a Ritz triple. -/
def BestInv (st : CycSt ℝ E) : Prop :=
  st.bestR = none ∨ ∃ e ρ, st.bestE = some e ∧ st.bestR = some ρ ∧ RitzOK (𝕜 := 𝕜) A st.best e ρ

/-- The same for a result object. -/
def ResInv (r : EnergyResult ℝ E) : Prop :=
  r.residualNorm = none ∨
    ∃ e ρ, r.groundEnergy = some e ∧ r.residualNorm = some ρ ∧ RitzOK (𝕜 := 𝕜) A r.groundState e ρ

theorem bestInv_upd (hA : A.IsSymmetric) (hc : EighContract eigh) (hnum : cfg.numTol < 1)
    {c j : ℕ} {st : CycSt ℝ E} (h : LanInv (𝕜 := 𝕜) A j st) (hb : BestInv (𝕜 := 𝕜) A st) {rv : E} {yj : ℝ}
    (hrv : ritzVector (ipOps (𝕜 := 𝕜) A) cfg.numTol (cycTy (ipOps (𝕜 := 𝕜) A) eigh c j st).2 st.qs = .ok rv)
    (hyj : (cycTy (ipOps (𝕜 := 𝕜) A) eigh c j st).2[j]? = some yj) :
    BestInv (𝕜 := 𝕜) A (cycUpd (ipOps (𝕜 := 𝕜) A) eigh c j st rv yj) ∧
      (cycUpd (ipOps (𝕜 := 𝕜) A) eigh c j st rv yj).bestR ≠ none := by
  obtain ⟨rv', yj', hrv', hyj', hok⟩ := ritz_facts A eigh cfg hA hc hnum (c := c) h
  rw [hrv] at hrv'
  rw [hyj] at hyj'
  have e1 : rv = rv' := Except.ok.inj hrv'
  have e2 : yj = yj' := Option.some.inj hyj'
  subst e1 e2
  unfold cycUpd BestInv
  simp only
  cases hlt : ltInf (cycResid (ipOps (𝕜 := 𝕜) A) st yj) st.bestR with
  | true =>
    simp only [if_true]
    exact ⟨Or.inr ⟨_, _, rfl, rfl, hok⟩, by simp⟩
  | false =>
    simp only [Bool.false_eq_true, if_false]
    have hne : st.bestR ≠ none := by
      intro h0; rw [h0] at hlt; simp [ltInf] at hlt
    exact ⟨hb, hne⟩

theorem cycLoop_ritz (hA : A.IsSymmetric) (hc : EighContract eigh) (hnum : cfg.numTol < 1)
    (hpos : 0 < cfg.normTol) (c ops : Nat) :
    ∀ (fuel j : Nat) (st : CycSt ℝ E), j + fuel = cfg.maxDim →
      (LanInv (𝕜 := 𝕜) A j st ∧ BestInv (𝕜 := 𝕜) A st ∧ (0 < j → st.bestR ≠ none)) →
      ∀ r, cycLoop (ipOps (𝕜 := 𝕜) A) eigh cfg c ops fuel j st = .ok r →
        ResInv (𝕜 := 𝕜) A r ∧ (0 < cfg.maxDim → r.residualNorm ≠ none) := by
  refine cycLoop_rule (ipOps (𝕜 := 𝕜) A) eigh cfg
    (I := fun j st => LanInv (𝕜 := 𝕜) A j st ∧ BestInv (𝕜 := 𝕜) A st ∧ (0 < j → st.bestR ≠ none))
    (Q := fun r => ResInv (𝕜 := 𝕜) A r ∧ (0 < cfg.maxDim → r.residualNorm ≠ none)) ?_ ?_ ?_
  · intro j st st' _ hI hstep
    obtain ⟨rv, yj, hrv, hyj, hout⟩ := cycIter_spec _ eigh cfg hstep
    have hu := bestInv_upd A eigh cfg hA hc hnum hI.1 hI.2.1 hrv hyj
    have hl := lanInv_step A eigh cfg hA hpos hI.1 hstep
    have hst' : st' = cycNext (ipOps (𝕜 := 𝕜) A) eigh c j st rv yj := by
      split at hout
      · simp at hout
      · split at hout
        · simp at hout
        · simp only [CycOut.cont.injEq] at hout; exact hout
    subst hst'
    exact ⟨hl, hu.1, fun _ => hu.2⟩
  · intro j st st' cv hb _ hI hstep
    obtain ⟨rv, yj, hrv, hyj, hout⟩ := cycIter_spec _ eigh cfg hstep
    have hu := bestInv_upd A eigh cfg hA hc hnum hI.1 hI.2.1 hrv hyj
    have hst' : st' = cycUpd (ipOps (𝕜 := 𝕜) A) eigh c j st rv yj := by
      split at hout
      · simp only [CycOut.done.injEq] at hout; exact hout.1
      · split at hout
        · simp only [CycOut.done.injEq] at hout; exact hout.1
        · simp at hout
    subst hst'
    exact ⟨hu.1, fun _ => hu.2⟩
  · intro st hI
    exact ⟨hI.2.1, hI.2.2⟩

theorem cycle_ritz (hA : A.IsSymmetric) (hc : EighContract eigh) (hnum : cfg.numTol < 1)
    (hpos : 0 < cfg.normTol) (c ops : Nat) (v : E) (hv : v ≠ 0) {r : EnergyResult ℝ E}
    (h : cycle (ipOps (𝕜 := 𝕜) A) eigh cfg c ops v = .ok r) :
    ResInv (𝕜 := 𝕜) A r ∧ (0 < cfg.maxDim → r.residualNorm ≠ none) := by
  unfold cycle at h
  simp only at h
  split at h
  · simp at h
  · exact cycLoop_ritz A eigh cfg hA hc hnum hpos c ops cfg.maxDim 0 _ (by omega)
      ⟨lanInv_init A v hv, Or.inl rfl, fun h0 => absurd h0 (lt_irrefl 0)⟩ r h

/-- **The search, exact arithmetic.** Whatever `krylov_energy_minimization_impl` returns is
`inf`-initialised (only if no iteration ran) or a Ritz triple: unit vector, its Rayleigh quotient,
its residual norm. -/
theorem energyImpl_ritz (hA : A.IsSymmetric) (hc : EighContract eigh) (hnum0 : 0 ≤ cfg.numTol)
    (hnum : cfg.numTol < 1) (hpos : 0 < cfg.normTol) (psi : E) (hpsi : psi ≠ 0)
    {r : EnergyResult ℝ E} (h : energyImpl (ipOps (𝕜 := 𝕜) A) eigh cfg psi = .ok r) :
    ResInv (𝕜 := 𝕜) A r ∧ (0 < cfg.maxDim → r.residualNorm ≠ none) := by
  unfold energyImpl at h
  refine restartLoop_rule (ipOps (𝕜 := 𝕜) A) eigh cfg (I := fun _ res => res.groundState ≠ 0)
    (Q := fun r => ResInv (𝕜 := 𝕜) A r ∧ (0 < cfg.maxDim → r.residualNorm ≠ none))
    ?_ (cfg.maxRestarts + 1) 0 _ (by omega) hpsi (by omega) r h
  intro r res cyc _ hI hcy
  have h1 := cycle_ritz A eigh cfg hA hc hnum hpos r _ _ hI hcy
  have h2 := cycle_norm (𝕜 := 𝕜) A eigh cfg hnum0 r _ _ hI hcy
  refine ⟨fun _ => h1, fun _ => ?_⟩
  show cyc.groundState ≠ 0
  intro h0
  rw [h0, norm_zero] at h2
  exact zero_ne_one h2

end Facts

end EmuVerif.Krylov
