/-
  `Model.Krylov` read in a real or complex inner-product space (exact arithmetic):
  modified Gram–Schmidt, the Arnoldi/Lanczos relation, orthonormality of the vectors built.
-/
import EmuVerif.Proofs.KrylovLogic
import Mathlib.Analysis.InnerProductSpace.Basic

set_option linter.unusedSectionVars false
set_option linter.unusedVariables false

namespace EmuVerif.Krylov

open scoped InnerProductSpace

variable {𝕜 E : Type} [RCLike 𝕜] [NormedAddCommGroup E] [InnerProductSpace 𝕜 E]

/-- The tensor operations of `krylov_exp.py` / `krylov_energy_min.py` in an inner-product space:
`tensordot(a.conj(), b)` is `⟪a, b⟫`, `x.norm()` is `‖x‖`, `w -= c*q`, `v / r`, … -/
noncomputable def ipOps (A : E → E) : VecOps 𝕜 ℝ E where
  op := A
  inner a b := ⟪a, b⟫_𝕜
  norm x := ‖x‖
  axpy c q w := w - c • q
  divR v r := ((r : 𝕜)⁻¹) • v
  zero := 0
  add := (· + ·)
  smul c x := c • x
  ofReal r := (r : 𝕜)
  re := RCLike.re
  cabs z := ‖z‖

variable (A : E → E)

/-! ### modified Gram–Schmidt -/

theorem mgs_foldl_acc (ql : List E) (w : E) (acc : List 𝕜) :
    ql.foldl (mgsStep (ipOps (𝕜 := 𝕜) A)) (w, acc)
      = ((ql.foldl (mgsStep (ipOps (𝕜 := 𝕜) A)) (w, [])).1,
         acc ++ (ql.foldl (mgsStep (ipOps (𝕜 := 𝕜) A)) (w, [])).2) := by
  induction ql generalizing w acc with
  | nil => simp
  | cons q ql ih =>
    simp only [List.foldl_cons, mgsStep]
    rw [ih _ (acc ++ _), ih _ ([] ++ _)]
    simp

theorem mgs_nil (w : E) : mgs (ipOps (𝕜 := 𝕜) A) [] w = (w, []) := rfl

theorem mgs_cons (q : E) (ql : List E) (w : E) :
    mgs (ipOps (𝕜 := 𝕜) A) (q :: ql) w
      = ((mgs (ipOps (𝕜 := 𝕜) A) ql (w - ⟪q, w⟫_𝕜 • q)).1,
         ⟪q, w⟫_𝕜 :: (mgs (ipOps (𝕜 := 𝕜) A) ql (w - ⟪q, w⟫_𝕜 • q)).2) := by
  unfold mgs
  simp only [List.foldl_cons, mgsStep]
  rw [mgs_foldl_acc]
  rfl

/-- `Σ_i c_i • q_i` over two lists in step. -/
def wsum (cs : List 𝕜) (ql : List E) : E := (List.zipWith (fun c q => c • q) cs ql).sum

@[simp] theorem wsum_nil_left (ql : List E) : wsum ([] : List 𝕜) ql = 0 := by simp [wsum]
@[simp] theorem wsum_cons (c : 𝕜) (cs : List 𝕜) (q : E) (ql : List E) :
    wsum (c :: cs) (q :: ql) = c • q + wsum cs ql := by simp [wsum]

theorem mgs_length (ql : List E) (w : E) : (mgs (ipOps (𝕜 := 𝕜) A) ql w).2.length = ql.length := by
  induction ql generalizing w with
  | nil => rfl
  | cons q ql ih => rw [mgs_cons]; simp [ih]

/-- The loop only subtracts: `w = w_final + Σ overlap_k • q_k` (no hypothesis on the `q_k`). -/
theorem mgs_decomp (ql : List E) (w : E) :
    w = (mgs (ipOps (𝕜 := 𝕜) A) ql w).1 + wsum (mgs (ipOps (𝕜 := 𝕜) A) ql w).2 ql := by
  induction ql generalizing w with
  | nil => simp [mgs_nil]
  | cons q ql ih =>
    rw [mgs_cons]
    simp only [wsum_cons]
    have := ih (w - ⟪q, w⟫_𝕜 • q)
    rw [add_left_comm, ← this]
    abel

/-- A vector orthogonal to all `q_k` keeps its overlap with `w` through the loop. -/
theorem mgs_inner_of_orth (ql : List E) (w p : E) (hp : ∀ q ∈ ql, ⟪p, q⟫_𝕜 = 0) :
    ⟪p, (mgs (ipOps (𝕜 := 𝕜) A) ql w).1⟫_𝕜 = ⟪p, w⟫_𝕜 := by
  induction ql generalizing w with
  | nil => simp [mgs_nil]
  | cons q ql ih =>
    rw [mgs_cons]
    simp only
    rw [ih _ (fun q' hq' => hp q' (List.mem_cons_of_mem _ hq'))]
    rw [inner_sub_right, inner_smul_right, hp q (List.mem_cons_self), mul_zero, sub_zero]

/-- Unit vectors, pairwise orthogonal. -/
def OrthoN (ql : List E) : Prop :=
  (∀ q ∈ ql, ‖q‖ = 1) ∧ ql.Pairwise (fun a b => ⟪a, b⟫_𝕜 = 0)

theorem OrthoN.tail {q : E} {ql : List E} (h : OrthoN (𝕜 := 𝕜) (q :: ql)) : OrthoN (𝕜 := 𝕜) ql :=
  ⟨fun x hx => h.1 x (List.mem_cons_of_mem _ hx), (List.pairwise_cons.mp h.2).2⟩

theorem OrthoN.drop {ql : List E} (h : OrthoN (𝕜 := 𝕜) ql) (k : Nat) : OrthoN (𝕜 := 𝕜) (ql.drop k) :=
  ⟨fun x hx => h.1 x (List.mem_of_mem_drop hx), h.2.sublist (List.drop_sublist k ql)⟩

/-- Modified Gram–Schmidt against orthonormal vectors leaves a vector orthogonal to all of them. -/
theorem mgs_orth (ql : List E) (w : E) (h : OrthoN (𝕜 := 𝕜) ql) :
    ∀ q ∈ ql, ⟪q, (mgs (ipOps (𝕜 := 𝕜) A) ql w).1⟫_𝕜 = 0 := by
  induction ql generalizing w with
  | nil => intro q hq; simp at hq
  | cons q0 ql ih =>
    intro q hq
    rw [mgs_cons]
    simp only
    rcases List.mem_cons.mp hq with rfl | hq'
    · rw [mgs_inner_of_orth A ql _ q (fun q' hq' => (List.pairwise_cons.mp h.2).1 q' hq')]
      rw [inner_sub_right, inner_smul_right, inner_self_eq_norm_sq_to_K, h.1 q List.mem_cons_self]
      simp
    · exact ih _ h.tail q hq'

/-- Appending a unit vector orthogonal to all the others. -/
theorem OrthoN.append_one {ql : List E} {q : E} (h : OrthoN (𝕜 := 𝕜) ql) (hn : ‖q‖ = 1)
    (ho : ∀ p ∈ ql, ⟪p, q⟫_𝕜 = 0) : OrthoN (𝕜 := 𝕜) (ql ++ [q]) := by
  refine ⟨?_, ?_⟩
  · intro x hx
    rcases List.mem_append.mp hx with hx | hx
    · exact h.1 x hx
    · simp at hx; rw [hx]; exact hn
  · rw [List.pairwise_append]
    refine ⟨h.2, List.pairwise_singleton _ _, ?_⟩
    intro a ha b hb
    simp at hb
    rw [hb]
    exact ho a ha

theorem norm_divR {w : E} (hw : ‖w‖ ≠ 0) : ‖(ipOps (𝕜 := 𝕜) A).divR w ‖w‖‖ = 1 := by
  simp only [ipOps]
  rw [norm_smul, norm_inv, RCLike.norm_ofReal, abs_norm, inv_mul_cancel₀ hw]


/-! ### one iteration of `krylov_exp_impl` -/

section Iter
variable (mexp : Nat → Mat 𝕜 → Mat 𝕜) (cfg : ExpCfg ℝ) (n0 : ℝ)

/-- The Krylov relation carried by the loop: `op q_k ∈ span{q_0 … q_{k+1}}` for every `k` whose
successor has been built. -/
def KrInv (qs : List E) : Prop :=
  ∀ k, k + 1 < qs.length → A (qs.getD k 0) ∈ Submodule.span 𝕜 {x | x ∈ qs.take (k + 2)}

/-- Loop invariant at the top of iteration `j` (exact arithmetic). -/
structure ExpInv (j : Nat) (st : ExpSt 𝕜 ℝ E) : Prop where
  ortho : OrthoN (𝕜 := 𝕜) st.qs
  len : st.qs.length = j + 1
  cur : st.qs.getD j 0 = st.cur
  kr : KrInv (𝕜 := 𝕜) A st.qs

theorem wsum_mem_span (cs : List 𝕜) (ql : List E) (T : Set E) (h : ∀ q ∈ ql, q ∈ T) :
    wsum cs ql ∈ Submodule.span 𝕜 T := by
  induction ql generalizing cs with
  | nil => cases cs <;> simp [wsum]
  | cons q ql ih =>
    cases cs with
    | nil => simp [wsum]
    | cons c cs =>
      rw [wsum_cons]
      exact Submodule.add_mem _ (Submodule.smul_mem _ _ (Submodule.subset_span (h q List.mem_cons_self)))
        (ih cs (fun q' hq' => h q' (List.mem_cons_of_mem _ hq')))

/-- If `y` is orthogonal to a set it is orthogonal to its span. -/
theorem inner_span_eq_zero {T : Set E} {x y : E} (hx : x ∈ Submodule.span 𝕜 T)
    (h : ∀ t ∈ T, ⟪t, y⟫_𝕜 = 0) : ⟪x, y⟫_𝕜 = 0 := by
  induction hx using Submodule.span_induction with
  | mem t ht => exact h t ht
  | zero => simp
  | add a b _ _ ha hb => rw [inner_add_left, ha, hb, add_zero]
  | smul c a _ ha => rw [inner_smul_left, ha, mul_zero]

theorem orthoN_getElem_inner {ql : List E} (h : OrthoN (𝕜 := 𝕜) ql) {a b : Nat} (ha : a < ql.length)
    (hb : b < ql.length) (hab : a ≠ b) : ⟪ql[a], ql[b]⟫_𝕜 = 0 := by
  have hp := List.pairwise_iff_getElem.mp h.2
  rcases Nat.lt_or_gt_of_ne hab with hlt | hgt
  · exact hp a b ha hb hlt
  · exact inner_eq_zero_symm.mp (hp b a hb ha hgt)

/-- `w` of iteration `j` (after the orthogonalisation loop). -/
theorem iterVals_w (j : Nat) (st : ExpSt 𝕜 ℝ E) :
    (iterVals (ipOps (𝕜 := 𝕜) A) cfg j st).w
      = (mgs (ipOps (𝕜 := 𝕜) A) (st.qs.drop (kStart cfg.isHermitian j)) (A st.cur)).1 := rfl

theorem iterVals_ovs (j : Nat) (st : ExpSt 𝕜 ℝ E) :
    (iterVals (ipOps (𝕜 := 𝕜) A) cfg j st).ovs
      = (mgs (ipOps (𝕜 := 𝕜) A) (st.qs.drop (kStart cfg.isHermitian j)) (A st.cur)).2 := rfl

theorem iterVals_n2 (j : Nat) (st : ExpSt 𝕜 ℝ E) :
    (iterVals (ipOps (𝕜 := 𝕜) A) cfg j st).n2 = ‖(iterVals (ipOps (𝕜 := 𝕜) A) cfg j st).w‖ := rfl

/-- **Arnoldi/Lanczos relation, by construction** (no hypothesis on `op` or on the vectors):
`op q_j = Σ_k overlap_k • q_k + w`, the sum over `k_start ≤ k ≤ j`. -/
theorem arnoldi_relation_w (j : Nat) (st : ExpSt 𝕜 ℝ E) :
    A st.cur = wsum (iterVals (ipOps (𝕜 := 𝕜) A) cfg j st).ovs (st.qs.drop (kStart cfg.isHermitian j))
      + (iterVals (ipOps (𝕜 := 𝕜) A) cfg j st).w := by
  rw [iterVals_w, iterVals_ovs, add_comm]
  exact mgs_decomp A _ _

/-- …and `w = n2 • q_{j+1}` whenever the loop continues (`n2 ≠ 0`). -/
theorem w_eq_n2_smul (j : Nat) (st : ExpSt 𝕜 ℝ E)
    (h : (iterVals (ipOps (𝕜 := 𝕜) A) cfg j st).n2 ≠ 0) :
    (iterVals (ipOps (𝕜 := 𝕜) A) cfg j st).w
      = ((iterVals (ipOps (𝕜 := 𝕜) A) cfg j st).n2 : 𝕜) •
          (ipOps (𝕜 := 𝕜) A).divR (iterVals (ipOps (𝕜 := 𝕜) A) cfg j st).w
            (iterVals (ipOps (𝕜 := 𝕜) A) cfg j st).n2 := by
  simp only [ipOps]
  rw [smul_smul, mul_inv_cancel₀ (by exact_mod_cast h), one_smul]

/-- Orthogonality of the new direction to everything built so far. In the Arnoldi branch this is
modified Gram–Schmidt; in the Lanczos branch (`k_start = j-1`) the vectors not subtracted are
orthogonal to `op q_j` because `⟪x, op y⟫ = c ⟪op x, y⟫` and `op q_k ∈ span{q_0…q_{k+1}}`. -/
theorem iter_w_orth (j : Nat) (st : ExpSt 𝕜 ℝ E) (hinv : ExpInv (𝕜 := 𝕜) A j st)
    (hadj : cfg.isHermitian = true → ∃ c : 𝕜, ∀ x y, ⟪x, A y⟫_𝕜 = c * ⟪A x, y⟫_𝕜) :
    ∀ p ∈ st.qs, ⟪p, (iterVals (ipOps (𝕜 := 𝕜) A) cfg j st).w⟫_𝕜 = 0 := by
  intro p hp
  rw [iterVals_w]
  set k0 := kStart cfg.isHermitian j with hk0
  rw [← List.take_append_drop k0 st.qs] at hp
  rcases List.mem_append.mp hp with hpt | hpd
  · -- only possible in the Lanczos branch
    obtain ⟨a, ha, rfl⟩ := List.mem_take_iff_getElem.mp hpt
    have ha0 : a < k0 := lt_of_lt_of_le ha (min_le_left _ _)
    have hal : a < st.qs.length := lt_of_lt_of_le ha (min_le_right _ _)
    have hherm : cfg.isHermitian = true := by
      by_contra hne
      simp [kStart, hne] at hk0
      omega
    have hk0' : k0 = j - 1 := by simp [hk0, kStart, hherm]
    obtain ⟨c, hc⟩ := hadj hherm
    rw [mgs_inner_of_orth]
    · rw [hc]
      have hjl : j < st.qs.length := by rw [hinv.len]; omega
      have hcur : st.cur = st.qs[j] := by
        rw [← hinv.cur]; simp [List.getD_eq_getElem?_getD, hjl]
      have hmem := hinv.kr a (by rw [hinv.len]; omega)
      have hga : st.qs.getD a 0 = st.qs[a] := by simp [List.getD_eq_getElem?_getD, hal]
      rw [hga] at hmem
      rw [inner_span_eq_zero hmem, mul_zero]
      intro t ht
      obtain ⟨b, hb, rfl⟩ := List.mem_take_iff_getElem.mp ht
      have hb1 : b < a + 2 := lt_of_lt_of_le hb (min_le_left _ _)
      have hbl : b < st.qs.length := lt_of_lt_of_le hb (min_le_right _ _)
      rw [hcur]
      exact orthoN_getElem_inner hinv.ortho hbl hjl (by omega)
    · intro q hq
      obtain ⟨b, hb, rfl⟩ := List.mem_iff_getElem.mp hq
      rw [List.getElem_drop]
      have hbl : k0 + b < st.qs.length := by
        rw [List.length_drop] at hb; omega
      exact orthoN_getElem_inner hinv.ortho hal hbl (by omega)
  · exact mgs_orth A _ _ (hinv.ortho.drop k0) p hpd

/-- The invariant is preserved by an iteration that falls through to `lanczos_vectors.append`. -/
theorem expInv_step (j : Nat) (st st' : ExpSt 𝕜 ℝ E) (hinv : ExpInv (𝕜 := 𝕜) A j st)
    (hpos : 0 < cfg.normTol)
    (hadj : cfg.isHermitian = true → ∃ c : 𝕜, ∀ x y, ⟪x, A y⟫_𝕜 = c * ⟪A x, y⟫_𝕜)
    (hstep : expIter (ipOps (𝕜 := 𝕜) A) mexp cfg n0 j st = .cont st') :
    ExpInv (𝕜 := 𝕜) A (j + 1) st' := by
  have hne := (expIter_cont_iff (ipOps (𝕜 := 𝕜) A) mexp cfg n0).mp ⟨st', hstep⟩
  have hb : isBreakdown cfg (iterVals (ipOps (𝕜 := 𝕜) A) cfg j st) = false := by
    cases h : isBreakdown cfg (iterVals (ipOps (𝕜 := 𝕜) A) cfg j st) with
    | false => rfl
    | true => exact absurd (Or.inl h) hne
  have he : errOk cfg.expTol (extVals (ipOps (𝕜 := 𝕜) A) mexp j st (iterVals (ipOps (𝕜 := 𝕜) A) cfg j st)).err1
      (extVals (ipOps (𝕜 := 𝕜) A) mexp j st (iterVals (ipOps (𝕜 := 𝕜) A) cfg j st)).err2 = false := by
    cases h : errOk cfg.expTol (extVals (ipOps (𝕜 := 𝕜) A) mexp j st (iterVals (ipOps (𝕜 := 𝕜) A) cfg j st)).err1
      (extVals (ipOps (𝕜 := 𝕜) A) mexp j st (iterVals (ipOps (𝕜 := 𝕜) A) cfg j st)).err2 with
    | false => rfl
    | true => exact absurd (Or.inr h) hne
  rw [expIter_cont _ mexp cfg n0 hb he] at hstep
  have hst' := (StepOut.cont.inj hstep).symm
  set iv := iterVals (ipOps (𝕜 := 𝕜) A) cfg j st with hiv
  have hn2 : iv.n2 ≠ 0 := by
    have : ¬ iv.n2 < cfg.normTol := by simpa [isBreakdown] using hb
    intro h0
    rw [h0] at this
    exact this hpos
  have hn2' : ‖iv.w‖ ≠ 0 := hn2
  set q' := (ipOps (𝕜 := 𝕜) A).divR iv.w iv.n2 with hq'
  have hqs : st'.qs = st.qs ++ [q'] := by rw [hst']; rfl
  have hcur' : st'.cur = q' := by rw [hst']; rfl
  have horth := iter_w_orth A cfg j st hinv hadj
  refine ⟨?_, ?_, ?_, ?_⟩
  · rw [hqs]
    refine hinv.ortho.append_one ?_ ?_
    · exact norm_divR A hn2'
    · intro p hp
      have := horth p hp
      simp only [hq', ipOps]
      rw [inner_smul_right, this, mul_zero]
  · rw [hqs, List.length_append, hinv.len]; rfl
  · rw [hqs, hcur']
    simp [List.getD_eq_getElem?_getD, hinv.len]
  · intro k hk
    rw [hqs, List.length_append, hinv.len] at hk
    simp only [List.length_singleton] at hk
    rw [hqs]
    by_cases hkj : k < j
    · have h1 : (st.qs ++ [q']).getD k 0 = st.qs.getD k 0 := by
        simp [List.getD_eq_getElem?_getD, List.getElem?_append_left (show k < st.qs.length by rw [hinv.len]; omega)]
      have h2 : (st.qs ++ [q']).take (k + 2) = st.qs.take (k + 2) := by
        rw [List.take_append_of_le_length (by rw [hinv.len]; omega)]
      rw [h1, h2]
      exact hinv.kr k (by rw [hinv.len]; omega)
    · have hkj' : k = j := by omega
      subst hkj'
      have h1 : (st.qs ++ [q']).getD k 0 = st.cur := by
        rw [← hinv.cur]
        simp [List.getD_eq_getElem?_getD, List.getElem?_append_left (show k < st.qs.length by rw [hinv.len]; omega)]
      have h2 : (st.qs ++ [q']).take (k + 2) = st.qs ++ [q'] := by
        rw [List.take_of_length_le]; simp [hinv.len]
      rw [h1, h2, arnoldi_relation_w A cfg k st]
      refine Submodule.add_mem _ ?_ ?_
      · refine wsum_mem_span _ _ _ ?_
        intro q hq
        exact List.mem_append_left _ (List.mem_of_mem_drop hq)
      · rw [w_eq_n2_smul A cfg k st hn2]
        exact Submodule.smul_mem _ _ (Submodule.subset_span (by simp [hq', hiv]))

theorem expInv_init (v : E) (hv : v ≠ 0) :
    ExpInv (𝕜 := 𝕜) A 0 (expInit (ipOps (𝕜 := 𝕜) A) cfg v) := by
  have hn : ‖v‖ ≠ 0 := by simpa using hv
  refine ⟨⟨?_, by simp [expInit]⟩, rfl, rfl, ?_⟩
  · intro q hq
    simp only [expInit, List.mem_singleton] at hq
    rw [hq]
    exact norm_divR A hn
  · intro k hk
    simp [expInit] at hk

/-- Every state the loop reaches satisfies the invariant. -/
theorem expInv_reach (v : E) (hv : v ≠ 0) (hpos : 0 < cfg.normTol)
    (hadj : cfg.isHermitian = true → ∃ c : 𝕜, ∀ x y, ⟪x, A y⟫_𝕜 = c * ⟪A x, y⟫_𝕜) :
    ∀ j st, Reach (ipOps (𝕜 := 𝕜) A) mexp cfg n0 (expInit (ipOps (𝕜 := 𝕜) A) cfg v) j st →
      ExpInv (𝕜 := 𝕜) A j st := by
  intro j st h
  induction h with
  | zero => exact expInv_init A cfg v hv
  | step _ hs ih => exact expInv_step A mexp cfg n0 _ _ _ ih hpos hadj hs

end Iter

end EmuVerif.Krylov
