/-
  Control-flow lemmas about `Model.Krylov` that hold for *every* interpretation of the scalar and
  tensor operations and every oracle (no algebra is used: `S`, `R`, `V` carry notation only).
-/
import EmuVerif.Model.Krylov

set_option linter.unusedSectionVars false
set_option linter.unusedVariables false

namespace EmuVerif.Krylov

variable {S R V : Type}

/-! ## `krylov_exp_impl` -/
section Exp
variable [OfNat S 0] [OfNat S 1] [Mul S]
variable [LT R] [DecidableLT R] [Sub R] [Mul R] [Div R]
variable (O : VecOps S R V) (mexp : Nat → Mat S → Mat S) (cfg : ExpCfg R) (n0 : R)

/-- Iteration `j` started in state `st` leaves the loop (through either `return`). -/
def Exits (j : Nat) (st : ExpSt S R V) : Prop :=
  isBreakdown cfg (iterVals O cfg j st) = true ∨
  errOk cfg.expTol (extVals O mexp j st (iterVals O cfg j st)).err1
    (extVals O mexp j st (iterVals O cfg j st)).err2 = true

/-- `Reach s0 j st`: the loop started in `s0` at iteration 0 arrives at the top of iteration `j`
in state `st` (all earlier iterations fell through to the bottom of the body). -/
inductive Reach (s0 : ExpSt S R V) : Nat → ExpSt S R V → Prop
  | zero : Reach s0 0 s0
  | step {j st st'} : Reach s0 j st → expIter O mexp cfg n0 j st = .cont st' → Reach s0 (j + 1) st'

theorem expIter_breakdown {j st} (h : isBreakdown cfg (iterVals O cfg j st) = true) :
    expIter O mexp cfg n0 j st = .done (breakdownResult O mexp n0 j st (iterVals O cfg j st)) := by
  simp [expIter, h]

theorem expIter_converged {j st} (h : isBreakdown cfg (iterVals O cfg j st) = false)
    (h2 : errOk cfg.expTol (extVals O mexp j st (iterVals O cfg j st)).err1
      (extVals O mexp j st (iterVals O cfg j st)).err2 = true) :
    expIter O mexp cfg n0 j st
      = .done (convergedResult O n0 j st (extVals O mexp j st (iterVals O cfg j st))) := by
  simp [expIter, h, h2]

theorem expIter_cont {j st} (h : isBreakdown cfg (iterVals O cfg j st) = false)
    (h2 : errOk cfg.expTol (extVals O mexp j st (iterVals O cfg j st)).err1
      (extVals O mexp j st (iterVals O cfg j st)).err2 = false) :
    expIter O mexp cfg n0 j st = .cont (nextSt st (extVals O mexp j st (iterVals O cfg j st))) := by
  simp [expIter, h, h2]

/-- The body continues exactly when neither exit test fires. -/
theorem expIter_cont_iff {j st} :
    (∃ st', expIter O mexp cfg n0 j st = .cont st') ↔ ¬ Exits O mexp cfg j st := by
  unfold Exits
  cases h : isBreakdown cfg (iterVals O cfg j st) <;>
    cases h2 : errOk cfg.expTol (extVals O mexp j st (iterVals O cfg j st)).err1
      (extVals O mexp j st (iterVals O cfg j st)).err2
  · simp [expIter_cont O mexp cfg n0 h h2]
  · simp [expIter_converged O mexp cfg n0 h h2]
  · simp [expIter_breakdown O mexp cfg n0 h]
  · simp [expIter_breakdown O mexp cfg n0 h]

/-- Reachability is functional. -/
theorem Reach.unique {s0 : ExpSt S R V} : ∀ (k : Nat) (a b : ExpSt S R V),
    Reach O mexp cfg n0 s0 k a → Reach O mexp cfg n0 s0 k b → a = b := by
  intro k
  induction k with
  | zero => intro a b ha hb'; cases ha; cases hb'; rfl
  | succ k ihk =>
    intro a b ha hb'
    cases ha with
    | step ha1 ha2 =>
      cases hb' with
      | step hb1 hb2 =>
        have := ihk _ _ ha1 hb1
        subst this
        rw [ha2] at hb2
        exact StepOut.cont.inj hb2

/-- What a returned `KrylovExpResult` says, relative to the loop started in `s0`. -/
structure ExpSpec (s0 : ExpSt S R V) (r : ExpResult S R V) : Prop where
  /-- converged ⇒ some reached iteration `j < max_krylov_dim` fired an exit test, it is the
  last one run, and `happy_breakdown` tells which test. -/
  conv : r.converged = true → ∃ j st, j < cfg.maxDim ∧ Reach O mexp cfg n0 s0 j st ∧
      Exits O mexp cfg j st ∧ r.iterationCount = j + 1 ∧
      (r.happyBreakdown = isBreakdown cfg (iterVals O cfg j st))
  /-- not converged ⇒ no reached iteration below `max_krylov_dim` fired an exit test, and all
  `max_krylov_dim` iterations were run. -/
  nconv : r.converged = false → r.happyBreakdown = false ∧ r.iterationCount = cfg.maxDim ∧
      ∀ j st, j < cfg.maxDim → Reach O mexp cfg n0 s0 j st → ¬ Exits O mexp cfg j st
  ops : r.ghost.opCalls = r.iterationCount

theorem expLoop_spec (s0 : ExpSt S R V) :
    ∀ (fuel j : Nat) (st : ExpSt S R V), Reach O mexp cfg n0 s0 j st → j + fuel = cfg.maxDim →
      st.opCalls = j → (0 < j → st.expd.isSome = true) →
      (∀ i sti, i < j → Reach O mexp cfg n0 s0 i sti → ¬ Exits O mexp cfg i sti) →
      (∀ r, expLoop O mexp cfg n0 fuel j st = .ok r → ExpSpec O mexp cfg n0 s0 r) ∧
      (∀ e, expLoop O mexp cfg n0 fuel j st = .error e → e = .unboundLocal ∧ cfg.maxDim = 0) := by
  intro fuel
  induction fuel with
  | zero =>
    intro j st hr hj hops hexpd hno
    simp only [Nat.add_zero] at hj
    unfold expLoop exhaustedResult
    cases he : st.expd with
    | none =>
      refine ⟨by intro r h; simp at h, ?_⟩
      intro e h
      simp only [Except.error.injEq] at h
      refine ⟨h.symm, ?_⟩
      cases j with
      | zero => exact hj.symm
      | succ k => simp [he] at hexpd
    | some ex =>
      refine ⟨?_, by intro e h; simp at h⟩
      intro r h
      simp only [Except.ok.injEq] at h
      subst h
      refine ⟨by simp, ?_, by simp [hops, hj]⟩
      intro _
      refine ⟨rfl, rfl, ?_⟩
      intro i sti hi hri
      exact hno i sti (by omega) hri
  | succ fuel ih =>
    intro j st hr hj hops hexpd hno
    unfold expLoop
    cases hb : isBreakdown cfg (iterVals O cfg j st) with
    | true =>
      rw [expIter_breakdown O mexp cfg n0 hb]
      refine ⟨?_, by intro e h; simp at h⟩
      intro r h
      simp only [Except.ok.injEq] at h
      subst h
      refine ⟨?_, by simp [breakdownResult], by simp [breakdownResult, hops]⟩
      intro _
      exact ⟨j, st, by omega, hr, Or.inl hb, rfl, by simp [breakdownResult, hb]⟩
    | false =>
      cases he : errOk cfg.expTol (extVals O mexp j st (iterVals O cfg j st)).err1
          (extVals O mexp j st (iterVals O cfg j st)).err2 with
      | true =>
        rw [expIter_converged O mexp cfg n0 hb he]
        refine ⟨?_, by intro e h; simp at h⟩
        intro r h
        simp only [Except.ok.injEq] at h
        subst h
        refine ⟨?_, by simp [convergedResult], by simp [convergedResult, hops]⟩
        intro _
        exact ⟨j, st, by omega, hr, Or.inr he, rfl, by simp [convergedResult, hb]⟩
      | false =>
        have hc := expIter_cont O mexp cfg n0 hb he
        rw [hc]
        have hne : ¬ Exits O mexp cfg j st := by
          unfold Exits; simp [hb, he]
        refine ih (j + 1) _ (Reach.step hr hc) (by omega) (by simp [nextSt, hops])
          (by intro _; simp [nextSt]) ?_
        intro i sti hi hri
        by_cases hij : i < j
        · exact hno i sti hij hri
        · have : i = j := by omega
          subst this
          rw [Reach.unique O mexp cfg n0 i sti st hri hr]
          exact hne

/-- Reaching iteration `j + 1` means iteration `j` did not exit. -/
theorem Reach.no_exit_before {s0 : ExpSt S R V} {j : Nat} {st' : ExpSt S R V}
    (h : Reach O mexp cfg n0 s0 (j + 1) st') :
    ∃ st, Reach O mexp cfg n0 s0 j st ∧ ¬ Exits O mexp cfg j st := by
  cases h with
  | step h1 h2 => exact ⟨_, h1, (expIter_cont_iff O mexp cfg n0).mp ⟨_, h2⟩⟩

end Exp

/-! ## `krylov_energy_minimization_impl` -/
section Energy
variable [LT R] [DecidableLT R] [LE R] [DecidableLE R] [Mul R] [Neg R] [OfNat R 0]
variable (O : VecOps S R V) (eigh : Nat → Nat → List R → List R → R × List R)
variable (cfg : EnergyCfg R)

/-- `betas[j]` of the iteration started in `st`. -/
def cycBeta (st : CycSt R V) : R := (lanczosNext O st).2.2
/-- `alphas[:m]` handed to `eigh`. -/
def cycAlphas (st : CycSt R V) : List R := st.alphas ++ [(lanczosNext O st).2.1]
/-- the oracle's answer `(ritz_value, y)` -/
def cycTy (c j : Nat) (st : CycSt R V) : R × List R := eigh c j (cycAlphas O st) st.betas
/-- `resid = (betas[j] * y[j]).abs()` -/
def cycResid (st : CycSt R V) (yj : R) : R := absv (cycBeta O st * yj)

/-- State after the best-residual bookkeeping of an iteration (`rv` = normalised Ritz vector). -/
def cycUpd (c j : Nat) (st : CycSt R V) (rv : V) (yj : R) : CycSt R V :=
  { st with alphas := cycAlphas O st, betas := st.betas ++ [cycBeta O st], nIter := st.nIter + 1,
            best := if ltInf (cycResid O st yj) st.bestR then rv else st.best,
            bestE := if ltInf (cycResid O st yj) st.bestR then some (cycTy O eigh c j st).1 else st.bestE,
            bestR := if ltInf (cycResid O st yj) st.bestR then some (cycResid O st yj) else st.bestR }

/-- State handed to the next iteration (`lanczos_vectors.append(w / betas[j])`). -/
def cycNext (c j : Nat) (st : CycSt R V) (rv : V) (yj : R) : CycSt R V :=
  { cycUpd O eigh c j st rv yj with
      qs := st.qs ++ [O.divR (lanczosNext O st).1 (cycBeta O st)],
      cur := O.divR (lanczosNext O st).1 (cycBeta O st), prev := some st.cur }

/-- Every non-raising iteration: the Ritz vector and `y[j]` exist and the outcome is decided by
`betas[j] < norm_tolerance`, then `resid < residual_tolerance`. -/
theorem cycIter_spec {c j : Nat} {st : CycSt R V} {out : CycOut R V}
    (h : cycIter O eigh cfg c j st = .ok out) :
    ∃ rv yj, ritzVector O cfg.numTol (cycTy O eigh c j st).2 st.qs = .ok rv ∧
      (cycTy O eigh c j st).2[j]? = some yj ∧
      out = (if cycBeta O st < cfg.normTol then .done (cycUpd O eigh c j st rv yj) true true
             else if cycResid O st yj < cfg.residTol then .done (cycUpd O eigh c j st rv yj) true false
             else .cont (cycNext O eigh c j st rv yj)) := by
  unfold cycIter at h
  simp only at h
  change (match ritzVector O cfg.numTol (cycTy O eigh c j st).2 st.qs with
    | .error e => _ | .ok rv => _) = _ at h
  cases hr : ritzVector O cfg.numTol (cycTy O eigh c j st).2 st.qs with
  | error e => rw [hr] at h; simp at h
  | ok rv =>
    rw [hr] at h
    simp only at h
    change (match (cycTy O eigh c j st).2[j]? with | none => _ | some yj => _) = _ at h
    cases hy : (cycTy O eigh c j st).2[j]? with
    | none => rw [hy] at h; simp at h
    | some yj =>
      rw [hy] at h
      refine ⟨rv, yj, rfl, rfl, ?_⟩
      simp only at h
      by_cases hb : cycBeta O st < cfg.normTol
      · rw [if_pos hb]
        have hb' : (lanczosNext O st).2.2 < cfg.normTol := hb
        rw [if_pos hb'] at h
        exact (Except.ok.inj h).symm
      · rw [if_neg hb]
        have hb' : ¬ (lanczosNext O st).2.2 < cfg.normTol := hb
        rw [if_neg hb'] at h
        by_cases hrs : cycResid O st yj < cfg.residTol
        · rw [if_pos hrs]
          have hrs' : absv ((lanczosNext O st).2.2 * yj) < cfg.residTol := hrs
          rw [if_pos hrs'] at h
          exact (Except.ok.inj h).symm
        · rw [if_neg hrs]
          have hrs' : ¬ absv ((lanczosNext O st).2.2 * yj) < cfg.residTol := hrs
          rw [if_neg hrs'] at h
          exact (Except.ok.inj h).symm

/-- Hoare rule for one Lanczos cycle: an invariant of the continuing states and a
post-condition established by both `break`s and by exhaustion. -/
theorem cycLoop_rule {c ops : Nat} {I : Nat → CycSt R V → Prop} {Q : EnergyResult R V → Prop}
    (hcont : ∀ j st st', j < cfg.maxDim → I j st → cycIter O eigh cfg c j st = .ok (.cont st') → I (j + 1) st')
    (hdone : ∀ j st st' cv hb, j < cfg.maxDim → I j st → cycIter O eigh cfg c j st = .ok (.done st' cv hb) →
      Q (cycResult st' cv hb ops))
    (hexh : ∀ st, I cfg.maxDim st → Q (cycResult st false false ops)) :
    ∀ (fuel j : Nat) (st : CycSt R V), j + fuel = cfg.maxDim → I j st →
      ∀ r, cycLoop O eigh cfg c ops fuel j st = .ok r → Q r := by
  intro fuel
  induction fuel with
  | zero =>
    intro j st hj hI r h
    simp only [Nat.add_zero] at hj
    subst hj
    simp only [cycLoop, Except.ok.injEq] at h
    subst h
    exact hexh st hI
  | succ fuel ih =>
    intro j st hj hI r h
    unfold cycLoop at h
    cases hc : cycIter O eigh cfg c j st with
    | error e => rw [hc] at h; simp at h
    | ok out =>
      rw [hc] at h
      cases out with
      | done st' cv hb =>
        simp only [Except.ok.injEq] at h
        subst h
        exact hdone j st st' cv hb (by omega) hI hc
      | cont st' =>
        exact ih (j + 1) st' (by omega) (hcont j st st' (by omega) hI hc) r h

/-- Hoare rule for the restart loop. `I r res` holds at the top of restart `r`. -/
theorem restartLoop_rule {I : Nat → EnergyResult R V → Prop} {Q : EnergyResult R V → Prop}
    (hcyc : ∀ r res cyc, r ≤ cfg.maxRestarts → I r res →
      cycle O eigh cfg r res.ghost.opCalls res.groundState = .ok cyc →
      (((cyc.happyBreakdown || cyc.converged) = true ∨ r = cfg.maxRestarts) →
        Q { cyc with restartCount := r, iterationCount := res.iterationCount + cyc.iterationCount }) ∧
      ((cyc.happyBreakdown || cyc.converged) = false →
        I (r + 1) { cyc with restartCount := r, iterationCount := res.iterationCount + cyc.iterationCount })) :
    ∀ (fuel r : Nat) (res : EnergyResult R V), r + fuel = cfg.maxRestarts + 1 → I r res →
      (fuel = 0 → Q res) →
      ∀ out, restartLoop O eigh cfg fuel r res = .ok out → Q out := by
  intro fuel
  induction fuel with
  | zero =>
    intro r res _ _ h0 out h
    simp only [restartLoop, Except.ok.injEq] at h
    subst h
    exact h0 rfl
  | succ fuel ih =>
    intro r res hr hI _ out h
    unfold restartLoop at h
    cases hc : cycle O eigh cfg r res.ghost.opCalls res.groundState with
    | error e => rw [hc] at h; simp at h
    | ok cyc =>
      rw [hc] at h
      simp only at h
      have hh := hcyc r res cyc (by omega) hI hc
      cases hx : (cyc.happyBreakdown || cyc.converged) with
      | true =>
        rw [if_pos hx] at h
        simp only [Except.ok.injEq] at h
        subst h
        exact hh.1 (Or.inl hx)
      | false =>
        rw [if_neg (by simp [hx])] at h
        refine ih (r + 1) _ (by omega) (hh.2 hx) ?_ out h
        intro hf
        subst hf
        exact hh.1 (Or.inr (by omega))

/-- The only exceptions of the search are the two `ValueError`s and the `IndexError`. -/
def RaisesOnly (e : Err) : Prop := e = .valueError ∨ e = .indexError

theorem cycIter_error {c j : Nat} {st : CycSt R V} {e : Err}
    (h : cycIter O eigh cfg c j st = .error e) : RaisesOnly e := by
  unfold cycIter at h
  simp only at h
  change (match ritzVector O cfg.numTol (cycTy O eigh c j st).2 st.qs with
    | .error e => _ | .ok rv => _) = _ at h
  cases hr : ritzVector O cfg.numTol (cycTy O eigh c j st).2 st.qs with
  | error e' =>
    rw [hr] at h
    simp only [Except.error.injEq] at h
    subst h
    unfold ritzVector at hr
    simp only at hr
    split at hr
    · simp only [Except.error.injEq] at hr; exact Or.inl hr.symm
    · simp at hr
  | ok rv =>
    rw [hr] at h
    simp only at h
    change (match (cycTy O eigh c j st).2[j]? with | none => _ | some yj => _) = _ at h
    cases hy : (cycTy O eigh c j st).2[j]? with
    | none => rw [hy] at h; simp only [Except.error.injEq] at h; exact Or.inr h.symm
    | some yj =>
      rw [hy] at h
      simp only at h
      split at h
      · simp at h
      · split at h <;> simp at h

theorem cycLoop_error {c ops : Nat} : ∀ (fuel j : Nat) (st : CycSt R V) (e : Err),
    cycLoop O eigh cfg c ops fuel j st = .error e → RaisesOnly e := by
  intro fuel
  induction fuel with
  | zero => intro j st e h; simp [cycLoop] at h
  | succ fuel ih =>
    intro j st e h
    unfold cycLoop at h
    cases hc : cycIter O eigh cfg c j st with
    | error e' => rw [hc] at h; simp only [Except.error.injEq] at h; subst h; exact cycIter_error O eigh cfg hc
    | ok out =>
      rw [hc] at h
      cases out with
      | done st' cv hb => simp at h
      | cont st' => exact ih _ _ _ h

theorem cycle_error {c ops : Nat} {v : V} {e : Err} (h : cycle O eigh cfg c ops v = .error e) :
    RaisesOnly e := by
  unfold cycle at h
  simp only at h
  split at h
  · simp only [Except.error.injEq] at h; exact Or.inl h.symm
  · exact cycLoop_error O eigh cfg _ _ _ _ h

theorem restartLoop_error : ∀ (fuel r : Nat) (res : EnergyResult R V) (e : Err),
    restartLoop O eigh cfg fuel r res = .error e → RaisesOnly e := by
  intro fuel
  induction fuel with
  | zero => intro r res e h; simp [restartLoop] at h
  | succ fuel ih =>
    intro r res e h
    unfold restartLoop at h
    cases hc : cycle O eigh cfg r res.ghost.opCalls res.groundState with
    | error e' => rw [hc] at h; simp only [Except.error.injEq] at h; subst h; exact cycle_error O eigh cfg hc
    | ok cyc =>
      rw [hc] at h
      simp only at h
      split at h
      · simp at h
      · exact ih _ _ _ h

end Energy

end EmuVerif.Krylov
