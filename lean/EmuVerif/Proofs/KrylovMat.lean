/-
  Bookkeeping lemmas for the local matrix `T` of `krylov_exp_impl` (`Model.Krylov.Mat`):
  reads after writes on a square zero-initialised array. No algebra is used.
-/
import EmuVerif.Model.Krylov

set_option linter.unusedSectionVars false
set_option linter.unusedVariables false

namespace EmuVerif.Krylov

variable {S : Type} [OfNat S 0]

/-- `T` is an `n × n` array. -/
def Shape (n : Nat) (T : Mat S) : Prop := T.size = n ∧ ∀ i (h : i < T.size), T[i].size = n

theorem shape_zerosM (n : Nat) : Shape n (zerosM n : Mat S) := by
  refine ⟨by simp [zerosM], ?_⟩
  intro i h
  simp [zerosM]

theorem getM_zerosM (n i j : Nat) : getM (zerosM n : Mat S) i j = 0 := by
  unfold getM zerosM
  simp only [Array.getD_eq_getD_getElem?, Array.getElem?_replicate]
  by_cases hi : i < n
  · simp only [hi, if_true, Option.getD_some, Array.getElem?_replicate]
    by_cases hj : j < n <;> simp [hj]
  · simp [hi]

theorem shape_setM {n : Nat} {T : Mat S} (h : Shape n T) (i j : Nat) (x : S) :
    Shape n (setM T i j x) := by
  refine ⟨by simp [setM, h.1], ?_⟩
  intro a ha
  simp only [setM, Array.size_modify] at ha
  simp only [setM, Array.getElem_modify]
  split
  · simp [Array.size_setIfInBounds, h.2 a ha]
  · exact h.2 a ha

/-- Read after write, all indices in range. -/
theorem getM_setM {n : Nat} {T : Mat S} (h : Shape n T) {i j : Nat} (hi : i < n) (hj : j < n)
    (x : S) (i' j' : Nat) :
    getM (setM T i j x) i' j' = if i = i' ∧ j = j' then x else getM T i' j' := by
  unfold getM setM
  simp only [Array.getD_eq_getD_getElem?, Array.getElem?_modify]
  by_cases hii : i = i'
  · subst hii
    have hi' : i < T.size := by rw [h.1]; exact hi
    have hs : T[i].size = n := h.2 i hi'
    simp only [if_true, Array.getElem?_eq_getElem hi', Option.map_some, Option.getD_some,
      Array.getElem?_setIfInBounds, true_and]
    by_cases hjj : j = j'
    · subst hjj
      simp [hs, hj]
    · simp [hjj]
  · simp [hii]

theorem writeCol_aux {n : Nat} (j k0 : Nat) (hj : j < n) :
    ∀ (ovs : List S) (s : Nat) (T : Mat S), Shape n T → k0 + s + ovs.length ≤ n →
      Shape n ((ovs.zipIdx s).foldl (fun T ci => setM T (k0 + ci.2) j ci.1) T) ∧
      ∀ i' j', getM ((ovs.zipIdx s).foldl (fun T ci => setM T (k0 + ci.2) j ci.1) T) i' j'
        = if j' = j ∧ k0 + s ≤ i' ∧ i' < k0 + s + ovs.length then ovs.getD (i' - k0 - s) 0
          else getM T i' j' := by
  intro ovs
  induction ovs with
  | nil => intro s T hT _; refine ⟨hT, ?_⟩; intro i' j'; simp; omega
  | cons c ovs ih =>
    intro s T hT hlen
    simp only [List.length_cons] at hlen
    simp only [List.zipIdx_cons, List.foldl_cons]
    have hT' := shape_setM hT (k0 + s) j c
    obtain ⟨h1, h2⟩ := ih (s + 1) (setM T (k0 + s) j c) hT' (by omega)
    refine ⟨h1, ?_⟩
    intro i' j'
    rw [h2 i' j', getM_setM hT (by omega) hj]
    simp only [List.length_cons]
    by_cases hjj : j' = j
    · subst hjj
      by_cases hlo : k0 + (s + 1) ≤ i' ∧ i' < k0 + (s + 1) + ovs.length
      · have : k0 + s ≤ i' ∧ i' < k0 + s + (ovs.length + 1) := by omega
        rw [if_pos ⟨rfl, hlo⟩, if_pos ⟨rfl, this⟩]
        have : i' - k0 - s = (i' - k0 - (s + 1)) + 1 := by omega
        rw [this, List.getD_cons_succ]
      · rw [if_neg (by intro h; exact hlo h.2)]
        by_cases heq : k0 + s = i'
        · subst heq
          rw [if_pos ⟨rfl, rfl⟩, if_pos ⟨rfl, by omega, by omega⟩]
          simp
        · rw [if_neg (by intro h; exact heq h.1), if_neg (by intro h; omega)]
    · rw [if_neg (by intro h; exact hjj h.1), if_neg (by intro h; exact hjj h.2.symm),
        if_neg (by intro h; exact hjj h.1)]

/-- `T[k0 + i, j] = ovs[i]` for all `i`, nothing else touched. -/
theorem getM_writeCol {n : Nat} {T : Mat S} (hT : Shape n T) {j k0 : Nat} (hj : j < n)
    (ovs : List S) (hlen : k0 + ovs.length ≤ n) (i' j' : Nat) :
    getM (writeCol T j k0 ovs) i' j'
      = if j' = j ∧ k0 ≤ i' ∧ i' < k0 + ovs.length then ovs.getD (i' - k0) 0 else getM T i' j' := by
  have := (writeCol_aux (S := S) j k0 hj ovs 0 T hT (by omega)).2 i' j'
  simpa [writeCol] using this

theorem shape_writeCol {n : Nat} {T : Mat S} (hT : Shape n T) {j k0 : Nat} (hj : j < n)
    (ovs : List S) (hlen : k0 + ovs.length ≤ n) : Shape n (writeCol T j k0 ovs) := by
  have := (writeCol_aux (S := S) j k0 hj ovs 0 T hT (by omega)).1
  simpa [writeCol] using this

end EmuVerif.Krylov
