/-
  Helper lemmas for `Props/C13Mps.lean`: transfer-matrix algebra for product operators on a matrix product
  state.  `xferAccF fs ops G` pushes a bra/ket environment `G` through the sites with one local operator per
  site; it is (a) the `new_left_bath` recursion of C11 for a bond-dimension-1 MPO, hence the dense sesquilinear
  form `Σ_{s,t} conj(amp s)·Π_k f_k(s_k,t_k)·amp t` (`xfer_eq_dense`), and (b) what the centre walks of
  `MPS.expect_batch` / `MPS.get_correlation_matrix` compute when the factors on the left of the walk are
  left-isometries and those on the right are right-isometries.
-/
import EmuVerif.Model.MpsObs
import EmuVerif.Proofs.Dark
import EmuVerif.Proofs.TensorCx
import Mathlib.Algebra.Order.Ring.Defs
import Mathlib.Tactic.Linarith

set_option linter.unusedSectionVars false
set_option linter.unusedVariables false
set_option linter.unusedSimpArgs false

namespace EmuVerif.MpsObs
open EmuVerif.Tensor Finset

variable {K : Type} [CommRing K] [StarRing K]

/-! ### the transfer map -/

/-- the sandwich `Σ_{a,a'} G[a,a']·conj(A[a,x,r])·A[a',y,r']` -/
def sandL (G : Nat → Nat → K) (A : Site K) (x y r r' : Nat) : K :=
  ∑ a ∈ range A.dl, ∑ a' ∈ range A.dl, G a a' * star (A.t x a r) * A.t y a' r'

/-- the mirrored sandwich `Σ_{b,b'} conj(A[a,x,b])·A[a',y,b']·E[b,b']` -/
def sandR (A : Site K) (E : Nat → Nat → K) (x y a a' : Nat) : K :=
  ∑ b ∈ range A.dr, ∑ b' ∈ range A.dr, star (A.t x a b) * A.t y a' b' * E b b'

/-- one site of the transfer: bra/ket environment `G`, local operator `f` -/
def xferF (f : Nat → Nat → K) (G : Nat → Nat → K) (A : Site K) : Nat → Nat → K :=
  fun r r' => ∑ x ∈ range A.d, ∑ y ∈ range A.d, f x y * sandL G A x y r r'

def xferAccF : List (Site K) → List (Nat → Nat → K) → (Nat → Nat → K) → (Nat → Nat → K)
  | A :: As, f :: fs, G => xferAccF As fs (xferF f G A)
  | _, _, G => G

/-- right environment of a tail with identity operators -/
def rightEnvF : List (Site K) → Nat → Nat → K
  | [] => fun a a' => if a = 0 ∧ a' = 0 then 1 else 0
  | A :: S => fun a a' => ∑ x ∈ range A.d, sandR A (rightEnvF S) x x a a'

theorem sandL_congr (G G' : Nat → Nat → K) (A : Site K)
    (h : ∀ a < A.dl, ∀ a' < A.dl, G a a' = G' a a') : sandL G A = sandL G' A := by
  funext x y r r'
  unfold sandL
  exact Finset.sum_congr rfl (fun a ha => Finset.sum_congr rfl (fun a' ha' => by
    rw [h a (Finset.mem_range.mp ha) a' (Finset.mem_range.mp ha')]))

theorem xferF_congr (f : Nat → Nat → K) (G G' : Nat → Nat → K) (A : Site K)
    (h : ∀ a < A.dl, ∀ a' < A.dl, G a a' = G' a a') : xferF f G A = xferF f G' A := by
  unfold xferF; rw [sandL_congr G G' A h]

theorem sandR_congr (A : Site K) (E E' : Nat → Nat → K)
    (h : ∀ b < A.dr, ∀ b' < A.dr, E b b' = E' b b') : sandR A E = sandR A E' := by
  funext x y a a'
  unfold sandR
  exact Finset.sum_congr rfl (fun b hb => Finset.sum_congr rfl (fun b' hb' => by
    rw [h b (Finset.mem_range.mp hb) b' (Finset.mem_range.mp hb')]))

/-- Kronecker delta on bond indices -/
def delta : Nat → Nat → K := fun a a' => if a = a' then 1 else 0

theorem identOp_eq_delta : (identOp : Nat → Nat → K) = delta := rfl

theorem sum_delta_left (n : Nat) (g : Nat → Nat → K) :
    ∑ a ∈ range n, ∑ a' ∈ range n, delta a a' * g a a' = ∑ a ∈ range n, g a a := by
  refine Finset.sum_congr rfl (fun a ha => ?_)
  simp only [delta, ite_mul, one_mul, zero_mul]
  rw [Finset.sum_ite_eq]
  simp [ha]

theorem sum_delta_right (n : Nat) (g : Nat → Nat → K) :
    ∑ a ∈ range n, ∑ a' ∈ range n, g a a' * delta a a' = ∑ a ∈ range n, g a a := by
  rw [← sum_delta_left n g]
  exact Finset.sum_congr rfl (fun a _ => Finset.sum_congr rfl (fun a' _ => mul_comm _ _))

theorem sandL_delta (A : Site K) (x y r r' : Nat) :
    sandL delta A x y r r' = ∑ a ∈ range A.dl, star (A.t x a r) * A.t y a r' := by
  unfold sandL
  rw [← sum_delta_left A.dl (fun a a' => star (A.t x a r) * A.t y a' r')]
  exact Finset.sum_congr rfl (fun a _ => Finset.sum_congr rfl (fun a' _ => by ring))

theorem sandR_delta (A : Site K) (x y a a' : Nat) :
    sandR A delta x y a a' = ∑ b ∈ range A.dr, star (A.t x a b) * A.t y a' b := by
  unfold sandR
  exact sum_delta_right A.dr (fun b b' => star (A.t x a b) * A.t y a' b')

theorem xferF_ident (G : Nat → Nat → K) (A : Site K) (r r' : Nat) :
    xferF identOp G A r r' = ∑ x ∈ range A.d, sandL G A x x r r' := by
  unfold xferF
  rw [identOp_eq_delta]
  exact sum_delta_left A.d (fun x y => sandL G A x y r r')

/-! ### link with `new_left_bath` for a bond-dimension-1 MPO -/

theorem bath_opSite_identity (n d : Nat) (acc : Nat → Nat → K) (L R : Nat → Nat → K) (f : Nat → Nat → K) :
    ∑ c ∈ range n, ∑ y ∈ range d, (∑ x ∈ range d, (∑ a ∈ range n, acc a c * L x a) * f x y) * R y c
    = ∑ x ∈ range d, ∑ y ∈ range d, f x y * ∑ a ∈ range n, ∑ a' ∈ range n, acc a a' * L x a * R y a' := by
  simp only [Finset.sum_mul, Finset.mul_sum]
  simp only [← Finset.sum_product']
  refine Finset.sum_nbij' (fun z => (z.2.2.1, z.2.1, z.2.2.2, z.1)) (fun z => (z.2.2.2, z.2.1, z.1, z.2.2.1))
    ?_ ?_ ?_ ?_ ?_ <;> reorder_finish

theorem bathStepF_opSite (d : Nat) (acc : Nat → Nat → Nat → K) (A : Site K) (hd : A.d = d) (f : Nat → Nat → K)
    (r br r' : Nat) :
    bathStepF acc A (opSite d f) r br r' = xferF f (fun a c => acc a 0 c) A r r' := by
  unfold bathStepF xferF sandL
  simp only [opSite, Site.make_t, Site.make_dl, Finset.sum_range_one, hd]
  have : ∀ c y, (∑ x ∈ range d, (∑ a ∈ range A.dl, acc a 0 c * star (A.t x a r))
        * f (opLevel d x y / d) (opLevel d x y % d)) * A.t y c r'
      = if y < d then (∑ x ∈ range d, (∑ a ∈ range A.dl, acc a 0 c * star (A.t x a r)) * f x y) * A.t y c r'
        else (∑ x ∈ range d, (∑ a ∈ range A.dl, acc a 0 c * star (A.t x a r))
        * f (opLevel d x y / d) (opLevel d x y % d)) * A.t y c r' := by
    intro c y
    split
    · rename_i hy
      simp only [opLevel_div d _ y hy, opLevel_mod d _ y hy]
    · rfl
  rw [Finset.sum_congr rfl (fun c _ => Finset.sum_congr rfl (fun y hy => by
    rw [this c y, if_pos (Finset.mem_range.mp hy)]))]
  exact bath_opSite_identity A.dl d (fun a c => acc a 0 c) (fun x a => star (A.t x a r)) (fun y c => A.t y c r') f

theorem expectAccF_opSites (d : Nat) (As : List (Site K)) (ops : List (Nat → Nat → K)) (hd : ∀ A ∈ As, A.d = d)
    (acc : Nat → Nat → Nat → K) :
    expectAccF As (ops.map (opSite d)) acc 0 0 0 = xferAccF As ops (fun a c => acc a 0 c) 0 0 := by
  induction As generalizing ops acc with
  | nil => cases ops <;> simp [expectAccF, xferAccF]
  | cons A As ih =>
    cases ops with
    | nil => simp [expectAccF, xferAccF]
    | cons f ops =>
      simp only [List.map_cons, expectAccF, xferAccF]
      rw [ih ops (fun B hB => hd B (List.mem_cons_of_mem _ hB))]
      congr 1
      funext a c
      exact bathStepF_opSite d acc A (hd A (List.mem_cons_self ..)) f a 0 c

theorem prodOp_eq_prodEntries (ops : List (Nat → Nat → K)) (s t : List Nat) :
    prodOp ops s t = prodEntries ops s t := by
  induction ops generalizing s t with
  | nil => cases s <;> cases t <;> rfl
  | cons f ops ih =>
    cases s with
    | nil => cases t <;> rfl
    | cons x s =>
      cases t with
      | nil => rfl
      | cons y t => simp only [prodOp, prodEntries, ih]

theorem wf_opSites (d : Nat) (ops : List (Nat → Nat → K)) : Wf (ops.map (opSite d)) := by
  induction ops with
  | nil => trivial
  | cons f ops ih =>
    refine ⟨?_, ih⟩
    cases ops <;> simp [headDl, opSite]

theorem headDl_opSites (d : Nat) (ops : List (Nat → Nat → K)) : headDl (ops.map (opSite d)) = 1 := by
  cases ops <;> simp [headDl, opSite]

/-- the transfer of a product operator through a valid chain is the dense sesquilinear form -/
theorem xfer_eq_dense (d : Nat) (fs : List (Site K)) (ops : List (Nat → Nat → K)) (hW : Wf fs)
    (h1 : headDl fs = 1) (hd : ∀ A ∈ fs, A.d = d) (hlen : fs.length = ops.length) :
    xferAccF fs ops (fun _ _ => 1) 0 0 = denseProd d ops fs := by
  have := expectAccF_opSites d fs ops hd (fun _ _ _ => 1)
  rw [← this, expectAccF_eq d fs (ops.map (opSite d)) (by simpa using hlen) hW (wf_opSites d ops) hd]
  unfold denseProd
  refine Dark.sumStrings_congr' _ _ _ _ (fun s hs _ => Dark.sumStrings_congr' _ _ _ _ (fun t ht htd => ?_))
  have hcol : colAmp (ops.map (opSite d)) (opString d s t) 0 = prodOp ops s t := by
    rw [← amp_eq_col _ (wf_opSites d ops) (headDl_opSites d ops), amp_eq, ampVecF_opSites d ops s t htd,
      if_pos (by rw [hs, ht]), prodOp_eq_prodEntries]
    simp
  simp only [h1, headDl_opSites, Finset.sum_range_one, one_mul, hcol, amp_eq_col fs hW h1]
  rfl

/-! ### splitting the chain -/

theorem xferAccF_append (P S : List (Site K)) (fP fS : List (Nat → Nat → K)) (h : P.length = fP.length)
    (G : Nat → Nat → K) :
    xferAccF (P ++ S) (fP ++ fS) G = xferAccF S fS (xferAccF P fP G) := by
  induction P generalizing fP G with
  | nil =>
    cases fP with
    | nil => cases S <;> cases fS <;> simp [xferAccF]
    | cons f fP => simp at h
  | cons A P ih =>
    cases fP with
    | nil => simp at h
    | cons f fP =>
      simp only [List.cons_append, xferAccF]
      exact ih fP (by simpa using h) _

theorem headDl_append_cons (P : List (Site K)) (A : Site K) (S : List (Site K)) :
    headDl (P ++ A :: S) = headDl (P ++ [A]) := by
  cases P <;> rfl

theorem wf_append_right (P S : List (Site K)) (h : Wf (P ++ S)) : Wf S := by
  induction P with
  | nil => exact h
  | cons A P ih => exact ih h.2

/-- a left-isometry: `Σ_{l,x} conj(A[l,x,r])·A[l,x,r'] = δ(r,r')` (`q†·q = 1` for `q = A.view(-1, dr)`) -/
def LeftIso (A : Site K) : Prop :=
  ∀ r < A.dr, ∀ r' < A.dr, ∑ l ∈ range A.dl, ∑ x ∈ range A.d, star (A.t x l r) * A.t x l r' = delta r r'

/-- a right-isometry: `Σ_{x,r} conj(A[l,x,r])·A[l',x,r] = δ(l,l')` -/
def RightIso (A : Site K) : Prop :=
  ∀ l < A.dl, ∀ l' < A.dl, ∑ x ∈ range A.d, ∑ r ∈ range A.dr, star (A.t x l r) * A.t x l' r = delta l l'

theorem xferF_ident_delta_leftIso (A : Site K) (h : LeftIso A) (r r' : Nat) (hr : r < A.dr) (hr' : r' < A.dr) :
    xferF identOp delta A r r' = delta r r' := by
  rw [xferF_ident, ← h r hr r' hr', Finset.sum_comm]
  exact Finset.sum_congr rfl (fun x _ => sandL_delta A x x r r')

/-- the left environment of a block of left-isometries is the identity -/
theorem leftEnv_delta (P S : List (Site K)) (hW : Wf (P ++ S)) (hP : ∀ A ∈ P, LeftIso A) (G : Nat → Nat → K)
    (hG : ∀ a < headDl (P ++ S), ∀ a' < headDl (P ++ S), G a a' = delta a a') :
    ∀ r < headDl S, ∀ r' < headDl S, xferAccF P (List.replicate P.length identOp) G r r' = delta r r' := by
  induction P generalizing G with
  | nil => simpa [xferAccF] using hG
  | cons A P ih =>
    simp only [List.length_cons, List.replicate_succ, xferAccF]
    refine ih hW.2 (fun B hB => hP B (List.mem_cons_of_mem _ hB)) _ ?_
    intro a ha a' ha'
    have hdr : A.dr = headDl (P ++ S) := hW.1
    rw [xferF_congr identOp G delta A (by simpa using hG)]
    exact xferF_ident_delta_leftIso A (hP A (List.mem_cons_self ..)) a a' (by rw [hdr]; exact ha) (by rw [hdr]; exact ha')

/-- the right environment of a block of right-isometries is the identity -/
theorem rightEnv_delta (S : List (Site K)) (hW : Wf S) (hS : ∀ A ∈ S, RightIso A) :
    ∀ a < headDl S, ∀ a' < headDl S, rightEnvF S a a' = delta a a' := by
  induction S with
  | nil =>
    intro a ha a' ha'
    simp only [headDl_nil, Nat.lt_one_iff] at ha ha'
    subst ha; subst ha'
    simp [rightEnvF, delta]
  | cons A S ih =>
    intro a ha a' ha'
    simp only [headDl_cons] at ha ha'
    simp only [rightEnvF]
    have hE : sandR A (rightEnvF S) = sandR A delta :=
      sandR_congr A _ _ (by rw [hW.1]; exact ih hW.2 (fun B hB => hS B (List.mem_cons_of_mem _ hB)))
    rw [hE, ← hS A (List.mem_cons_self ..) a ha a' ha']
    exact Finset.sum_congr rfl (fun x _ => sandR_delta A x x a a')

/-- main shuffle: contracting a transferred environment with a right environment -/
theorem xfer_env_identity (p n d : Nat) (O : Nat → Nat → K) (G E : Nat → Nat → K) (L R : Nat → Nat → Nat → K) :
    ∑ b ∈ range p, ∑ b' ∈ range p,
      (∑ x ∈ range d, ∑ y ∈ range d, O x y * ∑ a ∈ range n, ∑ a' ∈ range n, G a a' * L x a b * R y a' b') * E b b'
    = ∑ x ∈ range d, ∑ y ∈ range d, O x y * ∑ a ∈ range n, ∑ a' ∈ range n, G a a' *
        ∑ b ∈ range p, ∑ b' ∈ range p, L x a b * R y a' b' * E b b' := by
  simp only [Finset.sum_mul, Finset.mul_sum]
  simp only [← Finset.sum_product']
  refine Finset.sum_nbij' (fun z => (z.2.2.1, z.2.2.2.1, z.2.2.2.2.1, z.2.2.2.2.2, z.1, z.2.1))
    (fun z => (z.2.2.2.2.1, z.2.2.2.2.2, z.1, z.2.1, z.2.2.1, z.2.2.2.1)) ?_ ?_ ?_ ?_ ?_ <;> reorder_finish

theorem xfer_env (O : Nat → Nat → K) (G E : Nat → Nat → K) (A : Site K) :
    ∑ b ∈ range A.dr, ∑ b' ∈ range A.dr, xferF O G A b b' * E b b'
    = ∑ x ∈ range A.d, ∑ y ∈ range A.d, O x y * ∑ a ∈ range A.dl, ∑ a' ∈ range A.dl, G a a' * sandR A E x y a a' := by
  unfold xferF sandL sandR
  exact xfer_env_identity A.dr A.dl A.d O G E (fun x a b => star (A.t x a b)) A.t

/-- a tail with identity operators contracts the incoming environment with its right environment -/
theorem xferAccF_tail (S : List (Site K)) (hW : Wf S) (G : Nat → Nat → K) :
    xferAccF S (List.replicate S.length identOp) G 0 0
      = ∑ a ∈ range (headDl S), ∑ a' ∈ range (headDl S), G a a' * rightEnvF S a a' := by
  induction S generalizing G with
  | nil => simp [xferAccF, rightEnvF]
  | cons A S ih =>
    simp only [List.length_cons, List.replicate_succ, xferAccF, headDl_cons]
    rw [ih hW.2, ← hW.1, xfer_env identOp G (rightEnvF S) A, identOp_eq_delta,
      sum_delta_left A.d (fun x y => ∑ a ∈ range A.dl, ∑ a' ∈ range A.dl, G a a' * sandR A (rightEnvF S) x y a a')]
    simp only [rightEnvF, Finset.mul_sum]
    rw [Finset.sum_comm]
    refine Finset.sum_congr rfl (fun a _ => ?_)
    rw [Finset.sum_comm]

/-! ### one-site targets and environments at a position -/

/-- left environment in front of site `q` -/
def leftEnv (fs : List (Site K)) (q : Nat) : Nat → Nat → K :=
  xferAccF (fs.take q) (List.replicate q identOp) (fun _ _ => 1)

/-- right environment behind site `q` -/
def rightEnv (fs : List (Site K)) (q : Nat) : Nat → Nat → K := rightEnvF (fs.drop (q + 1))

/-- `⟨ψ| 1 ⊗ … ⊗ O_q ⊗ … ⊗ 1 |ψ⟩` in transfer form -/
def siteVal (O : Nat → Nat → K) (fs : List (Site K)) (q : Nat) : K :=
  xferAccF fs (oneSiteOps fs.length q O) (fun _ _ => 1) 0 0

theorem list_split {β : Type} (fs : List β) (q : Nat) (F : β) (h : fs[q]? = some F) :
    fs = fs.take q ++ F :: fs.drop (q + 1) ∧ (fs.take q).length = q ∧
      (fs.drop (q + 1)).length = fs.length - q - 1 := by
  obtain ⟨hq, hF⟩ := List.getElem?_eq_some_iff.mp h
  refine ⟨?_, by simp; omega, by simp; omega⟩
  conv_lhs => rw [← List.take_append_drop q fs]
  rw [List.drop_eq_getElem_cons hq, hF]

theorem siteVal_split (O : Nat → Nat → K) (P S : List (Site K)) (F : Site K) (hW : Wf (P ++ F :: S))
    (G : Nat → Nat → K) :
    xferAccF (P ++ F :: S) (List.replicate P.length identOp ++ O :: List.replicate S.length identOp) G 0 0
      = ∑ b ∈ range F.dr, ∑ b' ∈ range F.dr,
          xferF O (xferAccF P (List.replicate P.length identOp) G) F b b' * rightEnvF S b b' := by
  rw [xferAccF_append P (F :: S) _ _ (by simp)]
  simp only [xferAccF]
  have hFS : Wf (F :: S) := wf_append_right P _ hW
  rw [xferAccF_tail S hFS.2, ← hFS.1]

theorem siteVal_eq (O : Nat → Nat → K) (fs : List (Site K)) (q : Nat) (F : Site K) (hF : fs[q]? = some F)
    (hW : Wf fs) :
    siteVal O fs q = ∑ b ∈ range F.dr, ∑ b' ∈ range F.dr, xferF O (leftEnv fs q) F b b' * rightEnv fs q b b' := by
  obtain ⟨e, lp, ls⟩ := list_split fs q F hF
  unfold siteVal oneSiteOps leftEnv rightEnv
  have := siteVal_split O (fs.take q) (fs.drop (q + 1)) F (by rw [← e]; exact hW) (fun _ _ => 1)
  rw [lp, ls, ← e] at this
  exact this

theorem leftEnv_succ (fs : List (Site K)) (q : Nat) (F : Site K) (hF : fs[q]? = some F) :
    leftEnv fs (q + 1) = xferF identOp (leftEnv fs q) F := by
  obtain ⟨_, lp, _⟩ := list_split fs q F hF
  unfold leftEnv
  rw [List.take_add_one, hF, List.replicate_succ', xferAccF_append _ _ _ _ (by simp [lp])]
  simp [xferAccF]

theorem rightEnv_pred (fs : List (Site K)) (q : Nat) (F : Site K) (hF : fs[q + 1]? = some F) :
    rightEnv fs q = fun a a' => ∑ x ∈ range F.d, sandR F (rightEnv fs (q + 1)) x x a a' := by
  obtain ⟨hq, hF'⟩ := List.getElem?_eq_some_iff.mp hF
  unfold rightEnv
  rw [List.drop_eq_getElem_cons hq, hF']
  rfl

theorem leftEnv_delta_at (fs : List (Site K)) (q : Nat) (F : Site K) (hF : fs[q]? = some F) (hW : Wf fs)
    (h1 : headDl fs = 1) (hL : ∀ A ∈ fs.take q, LeftIso A) :
    ∀ r < F.dl, ∀ r' < F.dl, leftEnv fs q r r' = delta r r' := by
  obtain ⟨e, lp, _⟩ := list_split fs q F hF
  have := leftEnv_delta (fs.take q) (F :: fs.drop (q + 1)) (by rw [← e]; exact hW) hL (fun _ _ => 1)
    (by rw [← e, h1]; intro a ha a' ha'; simp only [Nat.lt_one_iff] at ha ha'; subst ha; subst ha'; simp [delta])
  rw [lp] at this
  exact this

theorem rightEnv_delta_at (fs : List (Site K)) (q : Nat) (F : Site K) (hF : fs[q]? = some F) (hW : Wf fs)
    (hR : ∀ A ∈ fs.drop (q + 1), RightIso A) :
    ∀ b < F.dr, ∀ b' < F.dr, rightEnv fs q b b' = delta b b' := by
  obtain ⟨e, _, _⟩ := list_split fs q F hF
  have hFS : Wf (F :: fs.drop (q + 1)) := wf_append_right (fs.take q) _ (by rw [← e]; exact hW)
  rw [hFS.1]
  exact rightEnv_delta _ hFS.2 hR

/-! ### the local contraction of `expect_batch` -/

/-- `Σ_{x,y} O[x,y]·Σ_{l,r} conj(C[l,x,r])·C[l,y,r]` -/
def localValF (d : Nat) (O : Nat → Nat → K) (C : Site K) : K :=
  ∑ x ∈ range d, ∑ y ∈ range d, O x y * ∑ l ∈ range C.dl, ∑ r ∈ range C.dr, star (C.t x l r) * C.t y l r

theorem localExpect_eq (d : Nat) (ops : List (Nat → Nat → K)) (C : Site K) :
    localExpect d ops C = ops.map (fun O => localValF d O C) := by
  unfold localExpect localGram localValF
  simp only [sumTo_eq, get2_memo2, conj_eq_star]

/-- invariant of the left-to-right walk: `C†·C = F†·(left environment)·F` on the physical and right indices -/
def InvR (LE : Nat → Nat → K) (F C : Site K) : Prop :=
  C.dr = F.dr ∧ C.d = F.d ∧
    ∀ x y r r', ∑ l ∈ range C.dl, star (C.t x l r) * C.t y l r' = sandL LE F x y r r'

/-- invariant of the right-to-left walk -/
def InvL (RE : Nat → Nat → K) (F C : Site K) : Prop :=
  C.dl = F.dl ∧ C.d = F.d ∧
    ∀ x y a a', ∑ k ∈ range C.dr, star (C.t x a k) * C.t y a' k = sandR F RE x y a a'

/-- contract of an `r` recorded in the first loop: `r†·r = m†·m` for `m = C.view(-1, dr)` -/
def GramR (f : RMat K) (C : Site K) : Prop :=
  ∀ j < C.dr, ∀ j' < C.dr, ∑ k ∈ range f.k, star (f.r k j) * f.r k j'
    = ∑ l ∈ range C.dl, ∑ x ∈ range C.d, star (C.t x l j) * C.t x l j'

/-- contract of an `r` recorded in the second loop: `r†·r = m†·m` for `m = C.view(dl, -1).mT` -/
def GramL (f : RMat K) (C : Site K) : Prop :=
  ∀ j < C.dl, ∀ j' < C.dl, ∑ k ∈ range f.k, star (f.r k j) * f.r k j'
    = ∑ x ∈ range C.d, ∑ m ∈ range C.dr, star (C.t x j m) * C.t x j' m

theorem invR_base (LE : Nat → Nat → K) (F : Site K) (h : ∀ a < F.dl, ∀ a' < F.dl, LE a a' = delta a a') :
    InvR LE F F := by
  refine ⟨rfl, rfl, fun x y r r' => ?_⟩
  rw [sandL_congr LE delta F h, sandL_delta]

theorem invL_base (RE : Nat → Nat → K) (F : Site K) (h : ∀ b < F.dr, ∀ b' < F.dr, RE b b' = delta b b') :
    InvL RE F F := by
  refine ⟨rfl, rfl, fun x y a a' => ?_⟩
  rw [sandR_congr F RE delta h, sandR_delta]

theorem value_right (d : Nat) (O : Nat → Nat → K) (LE RE : Nat → Nat → K) (F C : Site K) (hd : F.d = d)
    (h : InvR LE F C) (hRE : ∀ b < F.dr, ∀ b' < F.dr, RE b b' = delta b b') :
    localValF d O C = ∑ b ∈ range F.dr, ∑ b' ∈ range F.dr, xferF O LE F b b' * RE b b' := by
  rw [Finset.sum_congr rfl (fun b hb => Finset.sum_congr rfl (fun b' hb' => by
    rw [hRE b (Finset.mem_range.mp hb) b' (Finset.mem_range.mp hb')]))]
  rw [sum_delta_right F.dr (fun b b' => xferF O LE F b b')]
  unfold localValF xferF
  rw [hd]
  have e : ∀ x y, ∑ l ∈ range C.dl, ∑ r ∈ range C.dr, star (C.t x l r) * C.t y l r
      = ∑ b ∈ range F.dr, sandL LE F x y b b := by
    intro x y
    rw [Finset.sum_comm, h.1]
    exact Finset.sum_congr rfl (fun b _ => h.2.2 x y b b)
  simp only [e, Finset.mul_sum]
  conv_rhs => rw [Finset.sum_comm]
  refine Finset.sum_congr rfl (fun x _ => ?_)
  rw [Finset.sum_comm]

theorem value_left (d : Nat) (O : Nat → Nat → K) (LE RE : Nat → Nat → K) (F C : Site K) (hd : F.d = d)
    (h : InvL RE F C) (hLE : ∀ a < F.dl, ∀ a' < F.dl, LE a a' = delta a a') :
    localValF d O C = ∑ b ∈ range F.dr, ∑ b' ∈ range F.dr, xferF O LE F b b' * RE b b' := by
  rw [xfer_env O LE RE F, hd]
  unfold localValF
  refine Finset.sum_congr rfl (fun x _ => Finset.sum_congr rfl (fun y _ => ?_))
  congr 1
  have e2 : ∑ a ∈ range F.dl, ∑ a' ∈ range F.dl, LE a a' * sandR F RE x y a a'
      = ∑ a ∈ range F.dl, sandR F RE x y a a := by
    rw [← sum_delta_left F.dl (fun a a' => sandR F RE x y a a')]
    exact Finset.sum_congr rfl (fun a ha => Finset.sum_congr rfl (fun a' ha' => by
      rw [hLE a (Finset.mem_range.mp ha) a' (Finset.mem_range.mp ha')]))
  rw [e2, h.1]
  exact Finset.sum_congr rfl (fun l _ => h.2.2 x y l l)

theorem absorbLeft_identity (k n : Nat) (r : Nat → Nat → K) (L R : Nat → K) :
    ∑ kk ∈ range k, star (∑ j ∈ range n, r kk j * L j) * ∑ j' ∈ range n, r kk j' * R j'
    = ∑ j ∈ range n, ∑ j' ∈ range n, (∑ kk ∈ range k, star (r kk j) * r kk j') * star (L j) * R j' := by
  simp only [star_sum, star_mul', Finset.sum_mul, Finset.mul_sum]
  simp only [← Finset.sum_product']
  refine Finset.sum_nbij' (fun z => (z.2.2, z.2.1, z.1)) (fun z => (z.2.2, z.2.1, z.1)) ?_ ?_ ?_ ?_ ?_
    <;> reorder_finish

theorem invR_step (LE : Nat → Nat → K) (F C F' : Site K) (f : RMat K) (h : InvR LE F C) (hg : GramR f C)
    (hch : C.dr = F'.dl) : InvR (xferF identOp LE F) F' (absorbLeft f F') := by
  refine ⟨rfl, rfl, fun x y r r' => ?_⟩
  simp only [absorbLeft, Site.make_t, Site.make_dl, sumTo_eq]
  rw [absorbLeft_identity f.k F'.dl f.r (fun j => F'.t x j r) (fun j => F'.t y j r')]
  unfold sandL
  refine Finset.sum_congr rfl (fun j hj => Finset.sum_congr rfl (fun j' hj' => ?_))
  rw [hg j (by rw [hch]; exact Finset.mem_range.mp hj) j' (by rw [hch]; exact Finset.mem_range.mp hj'),
    xferF_ident, Finset.sum_comm, h.2.1]
  congr 2
  exact Finset.sum_congr rfl (fun x' _ => h.2.2 x' x' j j')

theorem absorbRight_identity (k n : Nat) (r : Nat → Nat → K) (L R : Nat → K) :
    ∑ kk ∈ range k, star (∑ j ∈ range n, L j * r kk j) * ∑ j' ∈ range n, R j' * r kk j'
    = ∑ j ∈ range n, ∑ j' ∈ range n, star (L j) * R j' * (∑ kk ∈ range k, star (r kk j) * r kk j') := by
  simp only [star_sum, star_mul', Finset.sum_mul, Finset.mul_sum]
  simp only [← Finset.sum_product']
  refine Finset.sum_nbij' (fun z => (z.2.2, z.2.1, z.1)) (fun z => (z.2.2, z.2.1, z.1)) ?_ ?_ ?_ ?_ ?_
    <;> reorder_finish

theorem invL_step (RE : Nat → Nat → K) (F1 C F : Site K) (f : RMat K) (h : InvL RE F1 C) (hg : GramL f C)
    (hch : F.dr = C.dl) :
    InvL (fun a a' => ∑ x ∈ range F1.d, sandR F1 RE x x a a') F (absorbRight F f) := by
  refine ⟨rfl, rfl, fun x y a a' => ?_⟩
  simp only [absorbRight, Site.make_t, Site.make_dr, sumTo_eq]
  rw [absorbRight_identity f.k F.dr f.r (fun j => F.t x a j) (fun j => F.t y a' j)]
  unfold sandR
  refine Finset.sum_congr rfl (fun j hj => Finset.sum_congr rfl (fun j' hj' => ?_))
  rw [hg j (by rw [← hch]; exact Finset.mem_range.mp hj) j' (by rw [← hch]; exact Finset.mem_range.mp hj'), h.2.1]
  congr 1
  exact Finset.sum_congr rfl (fun x' _ => h.2.2 x' x' j j')

/-! ### the two loops of `expect_batch` -/

/-- every `r` read in the first loop satisfies its Gram contract w.r.t. the centre factor it was computed from -/
def RightOk (n : Nat) (fs : List (Site K)) : List Nat → Site K → List (RMat K) → Prop
  | [], _, _ => True
  | q :: qs, C, tape =>
    (q < n - 1 → ∀ f t', tape = f :: t' → GramR f C) ∧
      ∀ C' t', ebRightMove n fs C tape q = some (C', t') → RightOk n fs qs C' t'

/-- the same for the second loop -/
def LeftOk (fs : List (Site K)) : List Nat → Site K → List (RMat K) → Prop
  | [], _, _ => True
  | q :: qs, C, tape =>
    (∀ f t', tape = f :: t' → GramL f C) ∧
      ∀ C' t', ebLeftMove fs C tape q = some (C', t') → LeftOk fs qs C' t'

theorem ebRight_fold (d : Nat) (ops : List (Nat → Nat → K)) (fs : List (Site K)) (hW : Wf fs)
    (hd : ∀ A ∈ fs, A.d = d) :
    ∀ (len q : Nat) (st st' : EbState K), q + len = fs.length →
      (∀ A ∈ fs.drop (q + 1), RightIso A) →
      (∀ F, fs[q]? = some F → InvR (leftEnv fs q) F st.C) →
      RightOk fs.length fs (List.range' q len) st.C st.tape →
      foldOpt (ebRightStep d fs.length ops fs) (List.range' q len) st = some st' →
      st'.res.length = st.res.length ∧ (∀ i, i < q → st'.res[i]? = st.res[i]?) ∧
        (∀ i, q ≤ i → i < fs.length → i < st.res.length →
          st'.res[i]? = some (ops.map (fun O => siteVal O fs i))) := by
  intro len
  induction len with
  | zero =>
    intro q st st' hq hR hI hok h
    simp only [List.range'_zero, foldOpt, Option.some.injEq] at h
    subst h
    exact ⟨rfl, fun _ _ => rfl, fun i h1 h2 _ => by omega⟩
  | succ len ih =>
    intro q st st' hq hR hI hok h
    rw [List.range'_succ] at h hok
    simp only [foldOpt] at h
    cases hs : ebRightStep d fs.length ops fs st q with
    | none => rw [hs] at h; simp at h
    | some s1 =>
      rw [hs] at h
      simp only at h
      unfold ebRightStep at hs
      cases hm : ebRightMove fs.length fs st.C st.tape q with
      | none => rw [hm] at hs; simp at hs
      | some p =>
        obtain ⟨C', t'⟩ := p
        rw [hm] at hs
        simp only [Option.some.injEq] at hs
        subst hs
        have hqn : q < fs.length := by omega
        have hF : fs[q]? = some fs[q] := List.getElem?_eq_getElem hqn
        generalize fs[q] = F at hF
        have hIq := hI F hF
        have hFd : F.d = d := hd F (List.mem_of_getElem? hF)
        have hval : localExpect d ops st.C = ops.map (fun O => siteVal O fs q) := by
          rw [localExpect_eq]
          apply List.map_congr_left
          intro O _
          rw [siteVal_eq O fs q F hF hW]
          exact value_right d O _ _ F st.C hFd hIq (rightEnv_delta_at fs q F hF hW hR)
        have hR' : ∀ A ∈ fs.drop (q + 1 + 1), RightIso A := by
          intro A hA
          refine hR A ?_
          have : fs.drop (q + 1 + 1) = (fs.drop (q + 1)).drop 1 := by rw [List.drop_drop]
          rw [this] at hA
          exact List.mem_of_mem_drop hA
        have hI' : ∀ F', fs[q + 1]? = some F' → InvR (leftEnv fs (q + 1)) F' C' := by
          intro F' hF'
          have hlt : q < fs.length - 1 := by
            have := (List.getElem?_eq_some_iff.mp hF').1
            omega
          unfold ebRightMove at hm
          rw [if_pos hlt] at hm
          cases ht : st.tape with
          | nil => rw [ht] at hm; simp at hm
          | cons f tp =>
            rw [ht, hF'] at hm
            simp only at hm
            split at hm
            · simp at hm
            · rename_i hch
              simp only [ne_eq, not_not] at hch
              simp only [Option.some.injEq, Prod.mk.injEq] at hm
              obtain ⟨rfl, rfl⟩ := hm
              rw [leftEnv_succ fs q F hF]
              exact invR_step _ F st.C F' f hIq (hok.1 hlt f tp ht) hch
        obtain ⟨r1, r2, r3⟩ := ih (q + 1) ⟨C', t', st.res.set q (localExpect d ops st.C)⟩ st' (by omega) hR' hI'
          (hok.2 C' t' hm) h
        simp only [List.length_set] at r1 r3
        refine ⟨r1, ?_, ?_⟩
        · intro i hi
          rw [r2 i (by omega)]
          exact List.getElem?_set_ne (by omega)
        · intro i hqi hin hil
          by_cases hiq : i = q
          · subst hiq
            rw [r2 i (by omega)]
            simp only [List.getElem?_set_self hil, hval]
          · exact r3 i (by omega) hin hil

theorem pyRangeDown_succ (q : Nat) : pyRangeDown (q + 1) = q :: pyRangeDown q := by
  unfold pyRangeDown
  rw [List.range_succ, List.reverse_append]
  rfl

theorem ebLeft_fold (d : Nat) (ops : List (Nat → Nat → K)) (fs : List (Site K)) (hW : Wf fs)
    (h1 : headDl fs = 1) (hd : ∀ A ∈ fs, A.d = d) :
    ∀ (q : Nat) (st st' : EbState K), q < fs.length →
      (∀ A ∈ fs.take q, LeftIso A) →
      (∀ F, fs[q]? = some F → InvL (rightEnv fs q) F st.C) →
      LeftOk fs (pyRangeDown q) st.C st.tape →
      foldOpt (ebLeftStep d ops fs) (pyRangeDown q) st = some st' →
      st'.res.length = st.res.length ∧ (∀ i, q ≤ i → st'.res[i]? = st.res[i]?) ∧
        (∀ i, i < q → i < st.res.length → st'.res[i]? = some (ops.map (fun O => siteVal O fs i))) := by
  intro q
  induction q with
  | zero =>
    intro st st' hq hL hI hok h
    simp only [pyRangeDown, List.range_zero, List.reverse_nil, foldOpt, Option.some.injEq] at h
    subst h
    exact ⟨rfl, fun _ _ => rfl, fun i h1 _ => by omega⟩
  | succ q ih =>
    intro st st' hq hL hI hok h
    rw [pyRangeDown_succ] at h hok
    simp only [foldOpt] at h
    cases hs : ebLeftStep d ops fs st q with
    | none => rw [hs] at h; simp at h
    | some s1 =>
      rw [hs] at h
      simp only at h
      unfold ebLeftStep at hs
      cases hm : ebLeftMove fs st.C st.tape q with
      | none => rw [hm] at hs; simp at hs
      | some p =>
        obtain ⟨C', t'⟩ := p
        rw [hm] at hs
        simp only [Option.some.injEq] at hs
        subst hs
        have hF1 : fs[q + 1]? = some fs[q + 1] := List.getElem?_eq_getElem hq
        generalize fs[q + 1] = F1 at hF1
        have hI1 := hI F1 hF1
        have hF : fs[q]? = some fs[q] := List.getElem?_eq_getElem (by omega)
        generalize fs[q] = F at hF
        have hFd : F.d = d := hd F (List.mem_of_getElem? hF)
        have hL' : ∀ A ∈ fs.take q, LeftIso A := by
          intro A hA
          refine hL A ?_
          rw [List.take_add_one]
          exact List.mem_append_left _ hA
        -- the move
        have hmove : InvL (rightEnv fs q) F C' := by
          unfold ebLeftMove at hm
          cases ht : st.tape with
          | nil => rw [ht] at hm; simp at hm
          | cons f tp =>
            rw [ht, hF] at hm
            simp only at hm
            split at hm
            · simp at hm
            · rename_i hch
              simp only [ne_eq, not_not] at hch
              simp only [Option.some.injEq, Prod.mk.injEq] at hm
              obtain ⟨rfl, rfl⟩ := hm
              rw [rightEnv_pred fs q F1 hF1]
              exact invL_step _ F1 st.C F f hI1 (hok.1 f tp ht) hch
        have hval : localExpect d ops C' = ops.map (fun O => siteVal O fs q) := by
          rw [localExpect_eq]
          apply List.map_congr_left
          intro O _
          rw [siteVal_eq O fs q F hF hW]
          exact value_left d O _ _ F C' hFd hmove (leftEnv_delta_at fs q F hF hW h1 hL')
        have hI' : ∀ F', fs[q]? = some F' → InvL (rightEnv fs q) F' C' := by
          intro F' hF'
          rw [hF] at hF'
          simp only [Option.some.injEq] at hF'
          subst hF'
          exact hmove
        obtain ⟨r1, r2, r3⟩ := ih ⟨C', t', st.res.set q (localExpect d ops C')⟩ st' (by omega) hL' hI'
          (hok.2 C' t' hm) h
        simp only [List.length_set] at r1 r3
        refine ⟨r1, ?_, ?_⟩
        · intro i hi
          rw [r2 i (by omega)]
          exact List.getElem?_set_ne (by omega)
        · intro i hiq hil
          by_cases hiq' : i = q
          · subst hiq'
            rw [r2 i (le_refl _)]
            simp only [List.getElem?_set_self hil, hval]
          · exact r3 i (by omega) hil

/-! ### `expect_batch` as a whole -/

theorem mem_drop_index {β : Type} (fs : List β) (k : Nat) (A : β) (h : A ∈ fs.drop k) :
    ∃ i, k ≤ i ∧ fs[i]? = some A := by
  obtain ⟨j, hj, e⟩ := List.mem_drop_iff_getElem.mp h
  exact ⟨k + j, by omega, by rw [← e]; exact List.getElem?_eq_getElem (by omega)⟩

theorem mem_take_index {β : Type} (fs : List β) (k : Nat) (A : β) (h : A ∈ fs.take k) :
    ∃ i, i < k ∧ fs[i]? = some A := by
  obtain ⟨j, hj, e⟩ := List.mem_take_iff_getElem.mp h
  exact ⟨j, by omega, by rw [← e]; exact List.getElem?_eq_getElem (by omega)⟩

/-- canonical form with centre `c`: left-isometries on the left, right-isometries on the right -/
def Canonical (fs : List (Site K)) (c : Nat) : Prop :=
  (∀ i, i < c → ∀ A, fs[i]? = some A → LeftIso A) ∧ (∀ i, c < i → ∀ A, fs[i]? = some A → RightIso A)

theorem expectBatchAt_spec (d : Nat) (ops : List (Nat → Nat → K)) (fs : List (Site K)) (c : Nat)
    (rt lt : List (RMat K)) (res : List (List K)) (h : expectBatchAt d ops fs c rt lt = some res)
    (hW : Wf fs) (h1 : headDl fs = 1) (hd : ∀ A ∈ fs, A.d = d) (hc : Canonical fs c)
    (hrt : ∀ Fc, fs[c]? = some Fc → RightOk fs.length fs (pyRange c fs.length) Fc rt)
    (hlt : ∀ Fc, fs[c]? = some Fc → LeftOk fs (pyRangeDown c) Fc lt) :
    res.length = fs.length ∧
      ∀ i, i < fs.length → res[i]? = some (ops.map (fun O => siteVal O fs i)) := by
  unfold expectBatchAt at h
  simp only at h
  cases hFc : fs[c]? with
  | none => rw [hFc] at h; simp at h
  | some Fc =>
    rw [hFc] at h
    simp only at h
    split at h
    · simp at h
    · cases hf1 : foldOpt (ebRightStep d fs.length ops fs) (pyRange c fs.length)
          ⟨Fc, rt, List.replicate fs.length (List.replicate ops.length 0)⟩ with
      | none => rw [hf1] at h; simp at h
      | some st1 =>
        rw [hf1] at h
        simp only at h
        cases hf2 : foldOpt (ebLeftStep d ops fs) (pyRangeDown c) ⟨Fc, lt, st1.res⟩ with
        | none => rw [hf2] at h; simp at h
        | some st2 =>
          rw [hf2] at h
          simp only [Option.some.injEq] at h
          subst h
          have hcn : c < fs.length := (List.getElem?_eq_some_iff.mp hFc).1
          have hRm : ∀ A ∈ fs.drop (c + 1), RightIso A := by
            intro A hA
            obtain ⟨i, hi, e⟩ := mem_drop_index fs (c + 1) A hA
            exact hc.2 i (by omega) A e
          have hLm : ∀ A ∈ fs.take c, LeftIso A := by
            intro A hA
            obtain ⟨i, hi, e⟩ := mem_take_index fs c A hA
            exact hc.1 i hi A e
          have hIR : ∀ F, fs[c]? = some F → InvR (leftEnv fs c) F Fc := by
            intro F hF
            rw [hFc] at hF
            simp only [Option.some.injEq] at hF
            subst hF
            exact invR_base _ _ (leftEnv_delta_at fs c Fc hFc hW h1 hLm)
          have hIL : ∀ F, fs[c]? = some F → InvL (rightEnv fs c) F Fc := by
            intro F hF
            rw [hFc] at hF
            simp only [Option.some.injEq] at hF
            subst hF
            exact invL_base _ _ (rightEnv_delta_at fs c Fc hFc hW hRm)
          obtain ⟨a1, a2, a3⟩ := ebRight_fold d ops fs hW hd (fs.length - c) c
            ⟨Fc, rt, List.replicate fs.length (List.replicate ops.length 0)⟩ st1 (by omega) hRm hIR
            (hrt Fc hFc) hf1
          obtain ⟨b1, b2, b3⟩ := ebLeft_fold d ops fs hW h1 hd c ⟨Fc, lt, st1.res⟩ st2 hcn hLm hIL
            (hlt Fc hFc) hf2
          simp only [List.length_replicate] at a1 a3
          refine ⟨by rw [b1, a1], fun i hi => ?_⟩
          by_cases hic : c ≤ i
          · rw [b2 i hic]
            exact a3 i hic hi hi
          · exact b3 i (by omega) (by rw [a1]; exact hi)

/-! ### diagonal product operators -/

theorem prodOp_diag (ops : List (Nat → Nat → K)) (hdiag : ∀ f ∈ ops, ∀ x y, x ≠ y → f x y = 0)
    (s t : List Nat) : prodOp ops s t = if s = t then prodOp ops s s else 0 := by
  induction ops generalizing s t with
  | nil => cases s <;> cases t <;> simp [prodOp]
  | cons f ops ih =>
    cases s with
    | nil => cases t <;> simp [prodOp]
    | cons x s =>
      cases t with
      | nil => simp [prodOp]
      | cons y t =>
        simp only [prodOp, List.cons.injEq]
        rw [ih (fun g hg => hdiag g (List.mem_cons_of_mem _ hg)) s t]
        by_cases hxy : x = y
        · subst hxy
          by_cases hst : s = t <;> simp [hst]
        · simp [hxy, hdiag f (List.mem_cons_self ..) x y hxy]

theorem denseProd_diag (d : Nat) (ops : List (Nat → Nat → K)) (fs : List (Site K))
    (hdiag : ∀ f ∈ ops, ∀ x y, x ≠ y → f x y = 0) :
    denseProd d ops fs = denseDiag d (fun s => prodOp ops s s) fs := by
  unfold denseProd denseDiag
  refine Dark.sumStrings_congr' _ _ _ _ (fun s hs hsd => ?_)
  have : (fun t => conj (amp fs s) * prodOp ops s t * amp fs t)
      = fun t => if t = s then conj (amp fs s) * prodOp ops s s * amp fs t else 0 := by
    funext t
    rw [prodOp_diag ops hdiag s t]
    by_cases hst : s = t
    · subst hst; simp
    · simp [hst, Ne.symm hst]
  rw [this, ← hs, sumStrings_indicator d s hsd]
  ring

theorem prodOp_ident (s : List Nat) : prodOp (List.replicate s.length (identOp : Nat → Nat → K)) s s = 1 := by
  induction s with
  | nil => rfl
  | cons x s ih => simp [List.replicate_succ, prodOp, ih, identOp]

theorem prodOp_skip (i : Nat) (rest : List (Nat → Nat → K)) (s : List Nat) (hi : i ≤ s.length) :
    prodOp (List.replicate i identOp ++ rest) s s = prodOp rest (s.drop i) (s.drop i) := by
  induction i generalizing s with
  | zero => simp
  | succ i ih =>
    cases s with
    | nil => simp at hi
    | cons x s =>
      simp only [List.replicate_succ, List.cons_append, prodOp, List.drop_succ_cons]
      rw [ih s (by simpa using hi)]
      simp [identOp]

theorem identOp_diag : ∀ x y : Nat, x ≠ y → (identOp : Nat → Nat → K) x y = 0 := by
  intro x y h; simp [identOp, h]

theorem nOp_diag : ∀ x y : Nat, x ≠ y → (nOp : Nat → Nat → K) x y = 0 := by
  intro x y h
  simp only [nOp]
  split
  · rename_i h'; exact absurd (h'.1.trans h'.2.symm) h
  · rfl

theorem oneSiteOps_length (n i : Nat) (O : Nat → Nat → K) (hi : i < n) : (oneSiteOps n i O).length = n := by
  simp [oneSiteOps]; omega

theorem twoSiteOps_length (n i j : Nat) (O : Nat → Nat → K) (hij : i < j) (hj : j < n) :
    (twoSiteOps n i j O).length = n := by
  simp [twoSiteOps]; omega

theorem oneSiteOps_diag (n i : Nat) (O : Nat → Nat → K) (hO : ∀ x y, x ≠ y → O x y = 0) :
    ∀ f ∈ oneSiteOps n i O, ∀ x y, x ≠ y → f x y = 0 := by
  intro f hf
  simp only [oneSiteOps, List.mem_append, List.mem_cons, List.mem_replicate] at hf
  rcases hf with ⟨_, rfl⟩ | rfl | ⟨_, rfl⟩
  · exact identOp_diag
  · exact hO
  · exact identOp_diag

theorem twoSiteOps_diag (n i j : Nat) (O : Nat → Nat → K) (hO : ∀ x y, x ≠ y → O x y = 0) :
    ∀ f ∈ twoSiteOps n i j O, ∀ x y, x ≠ y → f x y = 0 := by
  intro f hf
  simp only [twoSiteOps, List.mem_append, List.mem_cons, List.mem_replicate] at hf
  rcases hf with ⟨_, rfl⟩ | rfl | ⟨_, rfl⟩ | rfl | ⟨_, rfl⟩
  · exact identOp_diag
  · exact hO
  · exact identOp_diag
  · exact hO
  · exact identOp_diag

theorem drop_eq_getD_cons (s : List Nat) (i : Nat) (hi : i < s.length) :
    s.drop i = s.getD i 0 :: s.drop (i + 1) := by
  rw [List.drop_eq_getElem_cons hi]
  congr 1
  simp [List.getD_eq_getElem?_getD, List.getElem?_eq_getElem hi]

/-- diagonal matrix element of a one-site operator -/
theorem prodOp_oneSite (n i : Nat) (O : Nat → Nat → K) (s : List Nat) (hs : s.length = n) (hi : i < n) :
    prodOp (oneSiteOps n i O) s s = O (s.getD i 0) (s.getD i 0) := by
  unfold oneSiteOps
  rw [prodOp_skip i _ s (by omega), drop_eq_getD_cons s i (by omega)]
  simp only [prodOp]
  have : n - i - 1 = (s.drop (i + 1)).length := by simp; omega
  rw [this, prodOp_ident]
  ring

/-- diagonal matrix element of a two-site operator -/
theorem prodOp_twoSite (n i j : Nat) (O : Nat → Nat → K) (s : List Nat) (hs : s.length = n) (hij : i < j)
    (hj : j < n) :
    prodOp (twoSiteOps n i j O) s s = O (s.getD i 0) (s.getD i 0) * O (s.getD j 0) (s.getD j 0) := by
  unfold twoSiteOps
  rw [prodOp_skip i _ s (by omega), drop_eq_getD_cons s i (by omega)]
  simp only [prodOp]
  rw [prodOp_skip (j - i - 1) _ _ (by simp; omega), List.drop_drop,
    show i + 1 + (j - i - 1) = j by omega, drop_eq_getD_cons s j (by omega)]
  simp only [prodOp]
  have : n - j - 1 = (s.drop (j + 1)).length := by simp; omega
  rw [this, prodOp_ident]
  ring

/-! ### the walk of `get_correlation_matrix` -/

theorem corrAcc0_identity (n d : Nat) (op : Nat → Nat → K) (L R : Nat → Nat → K) :
    ∑ l ∈ range n, ∑ s ∈ range d, ∑ t ∈ range d, R s l * op t s * L t l
    = ∑ x ∈ range d, ∑ y ∈ range d, op x y * ∑ a ∈ range n, L x a * R y a := by
  simp only [Finset.mul_sum]
  simp only [← Finset.sum_product']
  refine Finset.sum_nbij' (fun z => (z.2.2, z.2.1, z.1)) (fun z => (z.2.2, z.2.1, z.1)) ?_ ?_ ?_ ?_ ?_
    <;> reorder_finish

theorem corrAcc0_eq (d : Nat) (op : Nat → Nat → K) (A : Site K) (hd : A.d = d) (r r' : Nat) :
    get2 (corrAcc0 d op A) r r' = xferF op delta A r' r := by
  unfold corrAcc0 xferF
  simp only [get2_memo2, sumTo_eq, conj_eq_star, sandL_delta, hd]
  exact corrAcc0_identity A.dl d op (fun t l => star (A.t t l r')) (fun s l => A.t s l r)

theorem corrEntry_identity (n d : Nat) (op G : Nat → Nat → K) (L R : Nat → Nat → K) :
    ∑ t ∈ range d, ∑ t' ∈ range d, (∑ a ∈ range n, ∑ a' ∈ range n, G a' a * R t a * L t' a') * op t' t
    = ∑ x ∈ range d, ∑ y ∈ range d, op x y * ∑ a ∈ range n, ∑ a' ∈ range n, G a a' * L x a * R y a' := by
  simp only [Finset.sum_mul, Finset.mul_sum]
  simp only [← Finset.sum_product']
  refine Finset.sum_nbij' (fun z => (z.2.1, z.1, z.2.2.2, z.2.2.1)) (fun z => (z.2.1, z.1, z.2.2.2, z.2.2.1))
    ?_ ?_ ?_ ?_ ?_ <;> reorder_finish

theorem corrEntry_eq (d : Nat) (op : Nat → Nat → K) (B : Site K) (hd : B.d = d) (acc : Arr (Arr K))
    (G : Nat → Nat → K) (hG : ∀ a a', get2 acc a a' = G a' a) :
    corrEntry d op B (corrPartial d acc B) = ∑ b ∈ range B.dr, xferF op G B b b := by
  unfold corrEntry corrPartial xferF sandL
  simp only [get4_memo4, sumTo_eq, conj_eq_star, hG, hd]
  refine Finset.sum_congr rfl (fun b _ => ?_)
  exact corrEntry_identity B.dl d op G (fun x a => star (B.t x a b)) (fun y a => B.t y a b)

theorem corrNext_eq (d : Nat) (B : Site K) (hd : B.d = d) (acc : Arr (Arr K))
    (G : Nat → Nat → K) (hG : ∀ a a', get2 acc a a' = G a' a) (b b' : Nat) :
    get2 (corrNext d B (corrPartial d acc B)) b b' = xferF identOp G B b' b := by
  rw [xferF_ident]
  unfold corrNext corrPartial sandL
  simp only [get2_memo2, get4_memo4, sumTo_eq, conj_eq_star, hG, hd]
  refine Finset.sum_congr rfl (fun t _ => ?_)
  rw [Finset.sum_comm]
  exact Finset.sum_congr rfl (fun a _ => Finset.sum_congr rfl (fun a' _ => by ring))

theorem oneSiteOps_zero (n : Nat) (O : Nat → Nat → K) :
    oneSiteOps (n + 1) 0 O = O :: List.replicate n identOp := by
  simp [oneSiteOps]

theorem oneSiteOps_succ (n k : Nat) (O : Nat → Nat → K) :
    oneSiteOps (n + 1) (k + 1) O = identOp :: oneSiteOps n k O := by
  simp only [oneSiteOps, List.replicate_succ, List.cons_append]
  have : n + 1 - (k + 1) - 1 = n - k - 1 := by omega
  rw [this]

theorem corrWalk_spec (d : Nat) (op : Nat → Nat → K) (rest : List (Site K)) (hW : Wf rest)
    (hd : ∀ A ∈ rest, A.d = d) (hR : ∀ A ∈ rest, RightIso A) (acc : Arr (Arr K)) (G : Nat → Nat → K)
    (hG : ∀ a a', get2 acc a a' = G a' a) (k : Nat) (hk : k < rest.length) :
    (corrWalk d op rest acc)[k]? = some (xferAccF rest (oneSiteOps rest.length k op) G 0 0) := by
  induction rest generalizing acc G k with
  | nil => simp at hk
  | cons B rest ih =>
    have hBd : B.d = d := hd B (List.mem_cons_self ..)
    have hR' : ∀ A ∈ rest, RightIso A := fun A hA => hR A (List.mem_cons_of_mem _ hA)
    cases k with
    | zero =>
      simp only [corrWalk, List.getElem?_cons_zero, List.length_cons, oneSiteOps_zero, xferAccF]
      rw [corrEntry_eq d op B hBd acc G hG, xferAccF_tail rest hW.2, ← hW.1]
      rw [Finset.sum_congr rfl (fun b hb => Finset.sum_congr rfl (fun b' hb' => by
        rw [rightEnv_delta rest hW.2 hR' b (by rw [← hW.1]; exact Finset.mem_range.mp hb) b'
          (by rw [← hW.1]; exact Finset.mem_range.mp hb')]))]
      rw [sum_delta_right]
    | succ k =>
      simp only [corrWalk, List.getElem?_cons_succ, List.length_cons, oneSiteOps_succ, xferAccF]
      exact ih hW.2 (fun A hA => hd A (List.mem_cons_of_mem _ hA)) hR' _ _
        (corrNext_eq d B hBd acc G hG) k (by simpa using hk)

/-- `⟨ψ| O_i O_j |ψ⟩` (`i < j`) in transfer form -/
def pairVal (O : Nat → Nat → K) (fs : List (Site K)) (i j : Nat) : K :=
  xferAccF fs (twoSiteOps fs.length i j O) (fun _ _ => 1) 0 0

theorem twoSiteOps_eq (n i j : Nat) (O : Nat → Nat → K) (hij : i < j) (hj : j < n) :
    twoSiteOps n i j O = List.replicate i identOp ++ O :: oneSiteOps (n - i - 1) (j - i - 1) O := by
  unfold twoSiteOps oneSiteOps
  have : n - i - 1 - (j - i - 1) - 1 = n - j - 1 := by omega
  rw [this]

theorem corrRow_spec (d : Nat) (op : Nat → Nat → K) (fs : List (Site K)) (i : Nat) (hi : i < fs.length)
    (hW : Wf fs) (h1 : headDl fs = 1) (hd : ∀ A ∈ fs, A.d = d) (hc : Canonical fs i) :
    (corrRow d op (fs.drop i))[0]? = some (siteVal op fs i) ∧
      ∀ k, 0 < k → i + k < fs.length → (corrRow d op (fs.drop i))[k]? = some (pairVal op fs i (i + k)) := by
  have hA : fs[i]? = some fs[i] := List.getElem?_eq_getElem hi
  generalize fs[i] = A at hA
  obtain ⟨e, lp, ls⟩ := list_split fs i A hA
  have hAd : A.d = d := hd A (List.mem_of_getElem? hA)
  have hRm : ∀ B ∈ fs.drop (i + 1), RightIso B := by
    intro B hB
    obtain ⟨j, hj, e'⟩ := mem_drop_index fs (i + 1) B hB
    exact hc.2 j (by omega) B e'
  have hLm : ∀ B ∈ fs.take i, LeftIso B := by
    intro B hB
    obtain ⟨j, hj, e'⟩ := mem_take_index fs i B hB
    exact hc.1 j hj B e'
  have hLE := leftEnv_delta_at fs i A hA hW h1 hLm
  have hdrop : fs.drop i = A :: fs.drop (i + 1) := by
    rw [List.drop_eq_getElem_cons hi]
    congr 1
    have := List.getElem?_eq_getElem hi
    rw [hA] at this
    exact (Option.some.inj this).symm
  have hWA : Wf (A :: fs.drop (i + 1)) := wf_append_right (fs.take i) _ (by rw [← e]; exact hW)
  rw [hdrop]
  constructor
  · simp only [corrRow, List.getElem?_cons_zero, corrTrace, sumTo_eq]
    rw [siteVal_eq op fs i A hA hW]
    rw [Finset.sum_congr rfl (fun b hb => Finset.sum_congr rfl (fun b' hb' => by
      rw [rightEnv_delta_at fs i A hA hW hRm b (Finset.mem_range.mp hb) b' (Finset.mem_range.mp hb')]))]
    rw [sum_delta_right, xferF_congr op _ delta A hLE]
    exact congrArg some (Finset.sum_congr rfl (fun r _ => corrAcc0_eq d op A hAd r r))
  · intro k hk hik
    obtain ⟨k', rfl⟩ : ∃ k', k = k' + 1 := ⟨k - 1, by omega⟩
    simp only [corrRow, List.getElem?_cons_succ]
    rw [corrWalk_spec d op (fs.drop (i + 1)) hWA.2
      (fun B hB => hd B (List.mem_of_mem_drop hB)) hRm (corrAcc0 d op A) (xferF op delta A)
      (fun a a' => corrAcc0_eq d op A hAd a a') k' (by rw [ls]; omega)]
    congr 1
    unfold pairVal
    rw [twoSiteOps_eq fs.length i (i + (k' + 1)) op (by omega) hik]
    conv_rhs => rw [e]
    rw [xferAccF_append _ _ _ _ (by simp [lp])]
    simp only [xferAccF]
    have e1 : (fs.take i ++ A :: fs.drop (i + 1)).length - i - 1 = (fs.drop (i + 1)).length := by
      rw [← e, ls]
    have e2 : i + (k' + 1) - i - 1 = k' := by omega
    rw [e1, e2]
    congr 1
    have := xferF_congr op (leftEnv fs i) delta A hLE
    unfold leftEnv at this
    exact this.symm

/-! ### general matrix element of a one-site operator -/

theorem prodOp_skip2 (i : Nat) (rest : List (Nat → Nat → K)) (s t : List Nat) (hs : i ≤ s.length)
    (ht : i ≤ t.length) :
    prodOp (List.replicate i identOp ++ rest) s t
      = if s.take i = t.take i then prodOp rest (s.drop i) (t.drop i) else 0 := by
  induction i generalizing s t with
  | zero => simp
  | succ i ih =>
    cases s with
    | nil => simp at hs
    | cons x s =>
      cases t with
      | nil => simp at ht
      | cons y t =>
        simp only [List.replicate_succ, List.cons_append, prodOp, List.drop_succ_cons, List.take_succ_cons,
          List.cons.injEq]
        rw [ih s t (by simpa using hs) (by simpa using ht)]
        by_cases hxy : x = y
        · subst hxy; simp [identOp]
        · simp [identOp, hxy]

theorem prodOp_ident2 (m : Nat) (s t : List Nat) (hs : s.length = m) :
    prodOp (List.replicate m (identOp : Nat → Nat → K)) s t = if s = t then 1 else 0 := by
  rw [prodOp_diag _ (by intro f hf; rw [List.eq_of_mem_replicate hf]; exact identOp_diag)]
  split
  · rw [← hs, prodOp_ident]
  · rfl

theorem prodOp_oneSite_general (n i : Nat) (O : Nat → Nat → K) (s t : List Nat) (hs : s.length = n)
    (ht : t.length = n) (hi : i < n) :
    prodOp (oneSiteOps n i O) s t =
      if s.take i = t.take i ∧ s.drop (i + 1) = t.drop (i + 1) then O (s.getD i 0) (t.getD i 0) else 0 := by
  unfold oneSiteOps
  rw [prodOp_skip2 i _ s t (by omega) (by omega), drop_eq_getD_cons s i (by omega),
    drop_eq_getD_cons t i (by omega)]
  simp only [prodOp]
  rw [prodOp_ident2 (n - i - 1) _ _ (by simp; omega)]
  by_cases h1 : s.take i = t.take i <;> by_cases h2 : s.drop (i + 1) = t.drop (i + 1) <;> simp [h1, h2]

/-! ### `MPS.norm()` squared -/

theorem normSqAt_spec (d : Nat) (fs : List (Site K)) (c : Nat) (hW : Wf fs) (h1 : headDl fs = 1)
    (hd : ∀ A ∈ fs, A.d = d) (hc : Canonical fs c) (hcn : c < fs.length) :
    normSqAt d fs c = some (denseNormSq d fs) := by
  have hF : fs[c]? = some fs[c] := List.getElem?_eq_getElem hcn
  generalize fs[c] = Fc at hF
  unfold normSqAt
  rw [hF]
  simp only [Option.map_some, Option.some.injEq, sumTo_eq, conj_eq_star]
  have hRm : ∀ A ∈ fs.drop (c + 1), RightIso A := by
    intro A hA
    obtain ⟨i, hi, e⟩ := mem_drop_index fs (c + 1) A hA
    exact hc.2 i (by omega) A e
  have hLm : ∀ A ∈ fs.take c, LeftIso A := by
    intro A hA
    obtain ⟨i, hi, e⟩ := mem_take_index fs c A hA
    exact hc.1 i hi A e
  have hval : localValF d identOp Fc = siteVal identOp fs c := by
    rw [siteVal_eq identOp fs c Fc hF hW]
    exact value_right d identOp _ _ Fc Fc (hd Fc (List.mem_of_getElem? hF))
      (invR_base _ _ (leftEnv_delta_at fs c Fc hF hW h1 hLm)) (rightEnv_delta_at fs c Fc hF hW hRm)
  have hloc : localValF d identOp Fc
      = ∑ l ∈ range Fc.dl, ∑ x ∈ range d, ∑ r ∈ range Fc.dr, star (Fc.t x l r) * Fc.t x l r := by
    unfold localValF
    rw [identOp_eq_delta, sum_delta_left d (fun x y => ∑ l ∈ range Fc.dl, ∑ r ∈ range Fc.dr, star (Fc.t x l r) * Fc.t y l r)]
    rw [Finset.sum_comm]
  rw [← hloc, hval]
  unfold siteVal
  rw [xfer_eq_dense d fs _ hW h1 hd (oneSiteOps_length _ _ _ hcn).symm,
    denseProd_diag d _ fs (oneSiteOps_diag _ _ _ identOp_diag)]
  unfold denseDiag denseNormSq
  refine Dark.sumStrings_congr' _ _ _ _ (fun s hs _ => ?_)
  simp only []
  rw [prodOp_oneSite _ c identOp s hs hcn]
  simp [identOp, conj_eq_star]

/-! ### the Gram contracts follow from `q·r = m`, `q†·q = 1` -/

theorem gram_qr_identity (n d p : Nat) (Q : Nat → Nat → Nat → K) (r : Nat → Nat → K) (j j' : Nat) :
    ∑ l ∈ range n, ∑ x ∈ range d, star (∑ k ∈ range p, Q x l k * r k j) * ∑ k' ∈ range p, Q x l k' * r k' j'
    = ∑ k ∈ range p, ∑ k' ∈ range p, star (r k j) * r k' j' * ∑ l ∈ range n, ∑ x ∈ range d, star (Q x l k) * Q x l k' := by
  simp only [star_sum, star_mul', Finset.sum_mul, Finset.mul_sum]
  simp only [← Finset.sum_product']
  refine Finset.sum_nbij' (fun z => (z.2.2.2, z.2.2.1, z.1, z.2.1)) (fun z => (z.2.2.1, z.2.2.2, z.2.1, z.1))
    ?_ ?_ ?_ ?_ ?_ <;> reorder_finish

/-- a reduced `qr` of `C.view(-1, dr)`: `q·r = m` and `q†·q = 1` give the Gram contract of the first loop -/
theorem gramR_of_qr (f : RMat K) (C : Site K) (q : Nat → Nat → Nat → K)
    (hqr : ∀ x < C.d, ∀ l < C.dl, ∀ j < C.dr, ∑ k ∈ range f.k, q x l k * f.r k j = C.t x l j)
    (hqq : ∀ k < f.k, ∀ k' < f.k, ∑ l ∈ range C.dl, ∑ x ∈ range C.d, star (q x l k) * q x l k' = delta k k') :
    GramR f C := by
  intro j hj j' hj'
  rw [Finset.sum_congr rfl (fun l hl => Finset.sum_congr rfl (fun x hx => by
    rw [← hqr x (Finset.mem_range.mp hx) l (Finset.mem_range.mp hl) j hj,
      ← hqr x (Finset.mem_range.mp hx) l (Finset.mem_range.mp hl) j' hj']))]
  rw [gram_qr_identity C.dl C.d f.k q f.r j j']
  rw [Finset.sum_congr rfl (fun k hk => Finset.sum_congr rfl (fun k' hk' => by
    rw [hqq k (Finset.mem_range.mp hk) k' (Finset.mem_range.mp hk')]))]
  exact (sum_delta_right f.k (fun k k' => star (f.r k j) * f.r k' j')).symm

/-- a reduced `qr` of `C.view(dl, -1).mT`: `q·r = m` (`q[(x, m), k]`) and `q†·q = 1` give the contract of the second loop -/
theorem gramL_of_qr (f : RMat K) (C : Site K) (q : Nat → Nat → Nat → K)
    (hqr : ∀ x < C.d, ∀ m < C.dr, ∀ j < C.dl, ∑ k ∈ range f.k, q x m k * f.r k j = C.t x j m)
    (hqq : ∀ k < f.k, ∀ k' < f.k, ∑ m ∈ range C.dr, ∑ x ∈ range C.d, star (q x m k) * q x m k' = delta k k') :
    GramL f C := by
  intro j hj j' hj'
  rw [Finset.sum_comm]
  rw [Finset.sum_congr rfl (fun m hm => Finset.sum_congr rfl (fun x hx => by
    rw [← hqr x (Finset.mem_range.mp hx) m (Finset.mem_range.mp hm) j hj,
      ← hqr x (Finset.mem_range.mp hx) m (Finset.mem_range.mp hm) j' hj']))]
  rw [gram_qr_identity C.dr C.d f.k q f.r j j']
  rw [Finset.sum_congr rfl (fun k hk => Finset.sum_congr rfl (fun k' hk' => by
    rw [hqq k (Finset.mem_range.mp hk) k' (Finset.mem_range.mp hk')]))]
  exact (sum_delta_right f.k (fun k k' => star (f.r k j) * f.r k' j')).symm

/-! ### scaling one factor -/

theorem scaleAux_getElem? (c : K) (which k : Nat) (fs : List (Site K)) (i : Nat) :
    (scaleAux c which k fs)[i]? = if k + i = which then (fs[i]?).map (scaleSite c) else fs[i]? := by
  induction fs generalizing k i with
  | nil => simp [scaleAux]
  | cons A fs ih =>
    cases i with
    | zero =>
      simp only [scaleAux, List.getElem?_cons_zero, Nat.add_zero]
      split <;> simp
    | succ i =>
      simp only [scaleAux, List.getElem?_cons_succ]
      rw [ih (k + 1) i]
      have : k + 1 + i = k + (i + 1) := by omega
      rw [this]

theorem scaleFactors_getElem?_ne (c : K) (which : Nat) (fs : List (Site K)) (i : Nat) (h : i ≠ which) :
    (scaleFactors c which fs)[i]? = fs[i]? := by
  unfold scaleFactors
  rw [scaleAux_getElem?, if_neg (by omega)]

theorem scaleFactors_length (c : K) (which : Nat) (fs : List (Site K)) :
    (scaleFactors c which fs).length = fs.length := (scaleAux_dims c which 0 fs).2.1

theorem amp_scaleFactors (c : K) (which : Nat) (fs : List (Site K)) (hw : which < fs.length) (s : List Nat) :
    amp (scaleFactors c which fs) s = c * amp fs s := by
  simp only [amp_eq, scaleFactors, ampVecF_scaleAux c which 0 fs (Nat.zero_le _) (by omega)]

theorem denseProd_scale (d : Nat) (ops : List (Nat → Nat → K)) (c : K) (which : Nat) (fs : List (Site K))
    (hw : which < fs.length) :
    denseProd d ops (scaleFactors c which fs) = star c * c * denseProd d ops fs := by
  unfold denseProd
  rw [scaleFactors_length]
  simp only [amp_scaleFactors c which fs hw, conj_eq_star, star_mul']
  rw [← sumStrings_mul_left]
  refine sumStrings_congr _ _ _ _ (fun s _ => ?_)
  rw [← sumStrings_mul_left]
  refine sumStrings_congr _ _ _ _ (fun t _ => ?_)
  ring

theorem denseDiag_scale (d : Nat) (w : List Nat → K) (c : K) (which : Nat) (fs : List (Site K))
    (hw : which < fs.length) :
    denseDiag d w (scaleFactors c which fs) = star c * c * denseDiag d w fs := by
  unfold denseDiag
  rw [scaleFactors_length]
  simp only [amp_scaleFactors c which fs hw, conj_eq_star, star_mul']
  rw [← sumStrings_mul_left]
  refine sumStrings_congr _ _ _ _ (fun s _ => ?_)
  ring

theorem denseNormSq_scale (d : Nat) (c : K) (which : Nat) (fs : List (Site K)) (hw : which < fs.length) :
    denseNormSq d (scaleFactors c which fs) = star c * c * denseNormSq d fs := by
  unfold denseNormSq
  rw [scaleFactors_length]
  simp only [amp_scaleFactors c which fs hw, conj_eq_star, star_mul']
  rw [← sumStrings_mul_left]
  refine sumStrings_congr _ _ _ _ (fun s _ => ?_)
  ring

/-! ### real parts and ranges over `Cx α` -/

section real
variable {α : Type} [Field α] [LinearOrder α] [IsStrictOrderedRing α]

theorem sumTo_re (n : Nat) (g : Nat → Cx α) : (sumTo n g).re = sumTo n (fun i => (g i).re) := by
  induction n with
  | zero => rfl
  | succ n ih => simp only [sumTo, Cx.add_re, ih]

theorem sumTo_im (n : Nat) (g : Nat → Cx α) : (sumTo n g).im = sumTo n (fun i => (g i).im) := by
  induction n with
  | zero => rfl
  | succ n ih => simp only [sumTo, Cx.add_im, ih]

theorem sumStrings_re (d n : Nat) (f : List Nat → Cx α) :
    (sumStrings d n f).re = sumStrings d n (fun s => (f s).re) := by
  induction n generalizing f with
  | zero => rfl
  | succ n ih => simp only [sumStrings, sumTo_re, ih]

theorem sumStrings_im (d n : Nat) (f : List Nat → Cx α) :
    (sumStrings d n f).im = sumStrings d n (fun s => (f s).im) := by
  induction n generalizing f with
  | zero => rfl
  | succ n ih => simp only [sumStrings, sumTo_im, ih]

theorem sumTo_mono (n : Nat) (g g' : Nat → α) (h : ∀ i, g i ≤ g' i) : sumTo n g ≤ sumTo n g' := by
  induction n with
  | zero => exact le_refl _
  | succ n ih => simp only [sumTo]; exact add_le_add ih (h n)

theorem sumStrings_mono (d n : Nat) (f g : List Nat → α) (h : ∀ s, f s ≤ g s) :
    sumStrings d n f ≤ sumStrings d n g := by
  induction n generalizing f g with
  | zero => exact h []
  | succ n ih => simp only [sumStrings]; exact sumTo_mono d _ _ (fun x => ih _ _ (fun s => h (x :: s)))

theorem sumStrings_zero' (d n : Nat) : sumStrings d n (fun _ => (0 : α)) = 0 := sumStrings_zero d n

/-- `|z|²` as a complex number: real, non-negative -/
theorem normsq_re (z : Cx α) : (conj z * z).re = z.re * z.re + z.im * z.im := by
  simp only [Cx.mul_re, Cx.conj_re, Cx.conj_im]; ring

theorem normsq_im (z : Cx α) : (conj z * z).im = 0 := by
  simp only [Cx.mul_im, Cx.conj_re, Cx.conj_im]; ring

/-- expectation value of a diagonal 0/1-valued operator: real, between 0 and `⟨ψ|ψ⟩` -/
theorem denseDiag_bounds (d : Nat) (w : List Nat → Cx α) (hw : ∀ s, w s = 0 ∨ w s = 1) (fs : List (Site (Cx α))) :
    (denseDiag d w fs).im = 0 ∧ 0 ≤ (denseDiag d w fs).re ∧ (denseDiag d w fs).re ≤ (denseNormSq d fs).re := by
  unfold denseDiag denseNormSq
  rw [sumStrings_im, sumStrings_re, sumStrings_re]
  have hre : ∀ s, 0 ≤ (w s * (conj (amp fs s) * amp fs s)).re ∧
      (w s * (conj (amp fs s) * amp fs s)).re ≤ (conj (amp fs s) * amp fs s).re ∧
      (w s * (conj (amp fs s) * amp fs s)).im = 0 := by
    intro s
    have hn : 0 ≤ (conj (amp fs s) * amp fs s).re := by
      rw [normsq_re]; exact add_nonneg (mul_self_nonneg _) (mul_self_nonneg _)
    have hi := normsq_im (amp fs s)
    rcases hw s with h | h
    · rw [h]
      refine ⟨?_, ?_, ?_⟩
      · simp [Cx.mul_re]
      · simpa [Cx.mul_re] using hn
      · simp [Cx.mul_im]
    · rw [h]
      refine ⟨?_, ?_, ?_⟩
      · simpa [Cx.mul_re] using hn
      · simp [Cx.mul_re]
      · simpa [Cx.mul_im] using hi
  refine ⟨?_, ?_, ?_⟩
  · rw [show (fun s => (w s * (conj (amp fs s) * amp fs s)).im) = fun _ => (0 : α) from funext (fun s => (hre s).2.2)]
    exact sumStrings_zero' d _
  · rw [← sumStrings_zero' d fs.length]
    exact sumStrings_mono d _ _ _ (fun s => (hre s).1)
  · exact sumStrings_mono d _ _ _ (fun s => (hre s).2.1)

end real

/-! ### `orthogonalize` keeps the number of sites -/

theorem rlSweep_length (cnt i : Nat) (fs fs' : List (Site K)) (tape : List (QRr K))
    (h : rlSweep cnt i fs tape = some fs') : fs'.length = fs.length := by
  induction cnt generalizing i fs tape with
  | zero => simp [rlSweep] at h; subst h; rfl
  | succ cnt ih =>
    cases tape with
    | nil => simp [rlSweep] at h
    | cons f tape =>
      cases i with
      | zero => simp [rlSweep] at h
      | succ i' =>
        simp only [rlSweep] at h
        split at h
        · rw [ih _ _ _ h]; simp [setPair]
        · exact absurd h (by simp)

theorem lrSweep_length (cnt i : Nat) (fs fs' : List (Site K)) (tape : List (QRl K))
    (h : lrSweep cnt i fs tape = some fs') : fs'.length = fs.length := by
  induction cnt generalizing i fs tape with
  | zero => simp [lrSweep] at h; subst h; rfl
  | succ cnt ih =>
    cases tape with
    | nil => simp [lrSweep] at h
    | cons f tape =>
      simp only [lrSweep] at h
      split at h
      · rw [ih _ _ _ h]; simp [setPair]
      · exact absurd h (by simp)

theorem orthogonalize_length (fs fs' : List (Site K)) (center : Option Nat) (desired : Nat)
    (ltape : List (QRl K)) (rtape : List (QRr K)) (h : orthogonalize fs center desired ltape rtape = some fs') :
    fs'.length = fs.length := by
  unfold orthogonalize at h
  split at h
  · exact absurd h (by simp)
  · simp only at h
    split at h
    · exact absurd h (by simp)
    · rename_i fs1 h1
      rw [rlSweep_length _ _ _ _ _ h, lrSweep_length _ _ _ _ _ h1]

theorem denseProd_congr_amp (d : Nat) (ops : List (Nat → Nat → K)) (fs gs : List (Site K))
    (hl : gs.length = fs.length) (ha : ∀ s, amp gs s = amp fs s) : denseProd d ops gs = denseProd d ops fs := by
  unfold denseProd; rw [hl]; simp only [ha]

end EmuVerif.MpsObs
