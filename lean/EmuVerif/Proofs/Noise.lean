/- Helper lemmas for `Props/C24.lean`: `Cx α` is a commutative star ring when `α` is a
commutative ring; the (doubled) Lindblad dissipator and its elementary algebra. -/
import EmuVerif.Model.Noise
import Mathlib.Algebra.Ring.Basic
import Mathlib.Algebra.Star.Basic
import Mathlib.Data.Matrix.Basic
import Mathlib.LinearAlgebra.Matrix.ConjTranspose
import Mathlib.Data.Fin.VecNotation
import Mathlib.Algebra.BigOperators.Fin
import Mathlib.Tactic.Ring
import Mathlib.Tactic.LinearCombination
import Mathlib.Tactic.FinCases

set_option linter.unusedSectionVars false

namespace EmuVerif.Noise

namespace Cx
variable {α : Type}

@[ext] theorem ext {a b : Cx α} (hr : a.re = b.re) (hi : a.im = b.im) : a = b := by
  cases a; cases b; simp_all

section ring
variable [CommRing α]

@[simp] theorem add_re (a b : Cx α) : (a + b).re = a.re + b.re := rfl
@[simp] theorem add_im (a b : Cx α) : (a + b).im = a.im + b.im := rfl
@[simp] theorem sub_re (a b : Cx α) : (a - b).re = a.re - b.re := rfl
@[simp] theorem sub_im (a b : Cx α) : (a - b).im = a.im - b.im := rfl
@[simp] theorem neg_re (a : Cx α) : (-a).re = -a.re := rfl
@[simp] theorem neg_im (a : Cx α) : (-a).im = -a.im := rfl
@[simp] theorem mul_re (a b : Cx α) : (a * b).re = a.re * b.re - a.im * b.im := rfl
@[simp] theorem mul_im (a b : Cx α) : (a * b).im = a.re * b.im + a.im * b.re := rfl
@[simp] theorem ofReal_re (x : α) : (ofReal x).re = x := rfl
@[simp] theorem ofReal_im (x : α) : (ofReal x).im = 0 := rfl
@[simp] theorem zero_re' : (zero : Cx α).re = 0 := rfl
@[simp] theorem zero_im' : (zero : Cx α).im = 0 := rfl
@[simp] theorem one_re' : (one : Cx α).re = 1 := rfl
@[simp] theorem one_im' : (one : Cx α).im = 0 := rfl
@[simp] theorem I_re : (I : Cx α).re = 0 := rfl
@[simp] theorem I_im : (I : Cx α).im = 1 := rfl
@[simp] theorem conj_re (a : Cx α) : (conj a).re = a.re := rfl
@[simp] theorem conj_im (a : Cx α) : (conj a).im = -a.im := rfl

instance : Zero (Cx α) := ⟨⟨0, 0⟩⟩
instance : One (Cx α) := ⟨⟨1, 0⟩⟩
@[simp] theorem zero_re : (0 : Cx α).re = 0 := rfl
@[simp] theorem zero_im : (0 : Cx α).im = 0 := rfl
@[simp] theorem one_re : (1 : Cx α).re = 1 := rfl
@[simp] theorem one_im : (1 : Cx α).im = 0 := rfl

/-- The ring structure uses exactly the `Add`/`Sub`/`Neg`/`Mul` instances of the model. -/
instance : CommRing (Cx α) where
  add := (· + ·)
  zero := 0
  neg := Neg.neg
  sub := (· - ·)
  mul := (· * ·)
  one := 1
  nsmul := nsmulRec
  zsmul := zsmulRec
  add_assoc a b c := by ext <;> simp [add_assoc]
  zero_add a := by ext <;> simp
  add_zero a := by ext <;> simp
  add_comm a b := by ext <;> simp [add_comm]
  neg_add_cancel a := by ext <;> simp
  sub_eq_add_neg a b := by ext <;> simp [sub_eq_add_neg]
  left_distrib a b c := by ext <;> simp <;> ring
  right_distrib a b c := by ext <;> simp <;> ring
  zero_mul a := by ext <;> simp
  mul_zero a := by ext <;> simp
  mul_assoc a b c := by ext <;> simp <;> ring
  one_mul a := by ext <;> simp
  mul_one a := by ext <;> simp
  mul_comm a b := by ext <;> simp <;> ring

theorem zero_eq : (zero : Cx α) = 0 := rfl
theorem one_eq : (one : Cx α) = 1 := rfl

instance : StarRing (Cx α) where
  star := conj
  star_involutive a := by ext <;> simp
  star_mul a b := by ext <;> simp <;> ring
  star_add a b := by ext <;> simp; ring

@[simp] theorem star_re (a : Cx α) : (star a).re = a.re := rfl
@[simp] theorem star_im (a : Cx α) : (star a).im = -a.im := rfl

theorem natCast_re (n : ℕ) : ((n : Cx α)).re = n := by
  induction n with
  | zero => simp
  | succ k ih => simp [Nat.cast_succ, ih]
theorem natCast_im (n : ℕ) : ((n : Cx α)).im = 0 := by
  induction n with
  | zero => simp
  | succ k ih => simp [Nat.cast_succ, ih]
@[simp] theorem ofNat_re (n : ℕ) [n.AtLeastTwo] : (ofNat(n) : Cx α).re = ofNat(n) := by
  rw [← Nat.cast_ofNat (R := Cx α), natCast_re]; simp
@[simp] theorem ofNat_im (n : ℕ) [n.AtLeastTwo] : (ofNat(n) : Cx α).im = 0 := by
  rw [← Nat.cast_ofNat (R := Cx α), natCast_im]

theorem star_ofReal (x : α) : star (ofReal x) = ofReal x := by ext <;> simp
theorem ofReal_mul (x y : α) : ofReal x * ofReal y = ofReal (x * y) := by ext <;> simp
theorem ofReal_neg (x : α) : ofReal (-x) = -ofReal x := by ext <;> simp

end ring
end Cx

/-! ### The dissipator -/
section diss
open Matrix
variable {α : Type} [CommRing α]

/-- Twice the Lindblad dissipator of one jump operator: `2 L ρ L† − L†L ρ − ρ L†L`
(doubled so that no division is needed). -/
def diss2 {n : Nat} (L ρ : Matrix (Fin n) (Fin n) (Cx α)) : Matrix (Fin n) (Fin n) (Cx α) :=
  (2 : Cx α) • (L * ρ * Lᴴ) - Lᴴ * L * ρ - ρ * (Lᴴ * L)

/-- Twice the dissipator of a list of jump operators. -/
def diss2L {n : Nat} (Ls : List (Matrix (Fin n) (Fin n) (Cx α))) (ρ : Matrix (Fin n) (Fin n) (Cx α)) :
    Matrix (Fin n) (Fin n) (Cx α) :=
  (Ls.map (fun L => diss2 L ρ)).sum

theorem diss2_neg {n : Nat} (L ρ : Matrix (Fin n) (Fin n) (Cx α)) : diss2 (-L) ρ = diss2 L ρ := by
  simp [diss2, Matrix.conjTranspose_neg]

theorem diss2_smul {n : Nat} (c : Cx α) (L ρ : Matrix (Fin n) (Fin n) (Cx α)) :
    diss2 (c • L) ρ = (c * star c) • diss2 L ρ := by
  simp only [diss2, Matrix.conjTranspose_smul, Matrix.smul_mul, Matrix.mul_smul, smul_smul, smul_sub]
  simp only [mul_comm, mul_left_comm]

/-- A model tensor read as a Mathlib matrix. -/
def toM {n : Nat} (m : Mat n α) : Matrix (Fin n) (Fin n) (Cx α) := Matrix.of m
omit [CommRing α] in
@[simp] theorem toM_apply {n : Nat} (m : Mat n α) (i j : Fin n) : toM m i j = m i j := rfl

theorem toM_smulM {n : Nat} (c : Cx α) (m : Mat n α) : toM (smulM c m) = c • toM m := by
  apply Matrix.ext; intro i j; simp [smulM]

theorem toM_neg {n : Nat} (m : Mat n α) : toM (fun i j => - m i j) = - toM m := by
  apply Matrix.ext; intro i j; simp

/-- `σ_z`-like operator of the emulator and the projector on index 1 (the `r` / `d` level) give the
same dissipator up to the factor 4 — in dimension 2. -/
theorem diss2_Z_two (ρ : Matrix (Fin 2) (Fin 2) (Cx α)) :
    diss2 (toM (subM (ketbra 2 0 0) (ketbra 2 1 1))) ρ = (4 : Cx α) • diss2 (toM (ketbra 2 1 1)) ρ := by
  apply Matrix.ext; intro i j
  fin_cases i <;> fin_cases j <;>
    simp [diss2, Matrix.mul_apply, Fin.sum_univ_two, conjTranspose_apply, subM, ketbra,
      Cx.one_eq, Cx.zero_eq] <;> ring

/-- In dimension 3 the same holds only on states without coherences to the leakage level. -/
theorem diss2_Z_three (ρ : Matrix (Fin 3) (Fin 3) (Cx α))
    (h02 : ρ 0 2 = 0) (h20 : ρ 2 0 = 0) (h12 : ρ 1 2 = 0) (h21 : ρ 2 1 = 0) :
    diss2 (toM (subM (ketbra 3 0 0) (ketbra 3 1 1))) ρ = (4 : Cx α) • diss2 (toM (ketbra 3 1 1)) ρ := by
  apply Matrix.ext; intro i j
  fin_cases i <;> fin_cases j <;>
    simp [diss2, Matrix.mul_apply, Fin.sum_univ_three, conjTranspose_apply, subM, ketbra,
      Cx.one_eq, Cx.zero_eq, h02, h20, h12, h21] <;> ring

end diss

/-! ### The emulator's operators against Pulser's, entry by entry -/
section ops
variable {α : Type} [CommRing α]

/-- Decide an entry-wise identity between index-pattern tensors by the cases
`i, j ∈ {0, 1, other}`. -/
macro "idx_split" i:ident j:ident : tactic => `(tactic| (
  have hi2 : ($i).val < 2 ↔ (($i).val = 0 ∨ ($i).val = 1) := by omega
  have hj2 : ($j).val < 2 ↔ (($j).val = 0 ∨ ($j).val = 1) := by omega
  by_cases hi0 : ($i).val = 0 <;> by_cases hi1 : ($i).val = 1 <;>
  by_cases hj0 : ($j).val = 0 <;> by_cases hj1 : ($j).val = 1 <;>
  first | (exfalso; omega) | (ext <;> simp [hi2, hj2, hi0, hi1, hj0, hj1])))

theorem toPulser_ising_val {n : Nat} (h : 2 ≤ n) (i : Fin n) :
    (toPulser .ising i).val = if i.val < 2 then 1 - i.val else i.val := by
  unfold toPulser; split_ifs <;> simp_all

omit [CommRing α] in
theorem toEmu_xy [Add α] [Sub α] [Mul α] [Neg α] [OfNat α 0] [OfNat α 1] {n : Nat} (m : Mat n α) :
    toEmu .xy m = m := rfl

theorem relaxOp_eq (n : Nat) (h : 2 ≤ n) (c : α) :
    relaxOp n c = toEmu .ising (pulserRelax n c) := by
  funext i j
  simp only [relaxOp, toEmu, pulserRelax, smulM, ketbra, toPulser_ising_val h]
  idx_split i j

/-- `√Γ |g⟩⟨r|` in the emulator's ordering (`g` = 0, `r` = 1). -/
theorem relaxOp_ketbra (n : Nat) (c : α) :
    relaxOp n c = smulM (Cx.ofReal c) (ketbra n 0 1) := by
  funext i j
  simp only [relaxOp, smulM, ketbra]
  idx_split i j

theorem dephOp_eq (n : Nat) (c : α) :
    (dephOp n c : Mat n α) = smulM (Cx.ofReal c) (subM (ketbra n 0 0) (ketbra n 1 1)) := by
  funext i j
  simp only [dephOp, smulM, subM, ketbra]
  idx_split i j

theorem pulserDeph_emu (it : Interact) (n : Nat) (h : 2 ≤ n) (p : α) :
    toEmu it (pulserDeph it n p) = smulM (Cx.ofReal p) (ketbra n 1 1) := by
  cases it with
  | xy => rfl
  | ising =>
    funext i j
    simp only [toEmu, pulserDeph, smulM, ketbra, toPulser_ising_val h]
    idx_split i j

theorem depolX_eq (it : Interact) (n : Nat) (h : 2 ≤ n) (c : α) :
    depolX n c = toEmu it (smulM (Cx.ofReal c) (addM (ketbra n 1 0) (ketbra n 0 1))) := by
  cases it with
  | xy =>
    funext i j
    simp only [depolX, toEmu, toPulser, smulM, addM, ketbra]
    idx_split i j
  | ising =>
    funext i j
    simp only [depolX, toEmu, smulM, addM, ketbra, toPulser_ising_val h]
    idx_split i j

theorem depolY_eq_xy (n : Nat) (c : α) :
    depolY n c = toEmu .xy
      (smulM (Cx.ofReal c) (subM (smulM Cx.I (ketbra n 1 0)) (smulM Cx.I (ketbra n 0 1)))) := by
  funext i j
  simp only [depolY, toEmu, toPulser, smulM, subM, ketbra]
  idx_split i j

theorem depolY_eq_ising (n : Nat) (h : 2 ≤ n) (c : α) :
    depolY n c = fun i j => - (toEmu .ising
      (smulM (Cx.ofReal c) (subM (smulM Cx.I (ketbra n 1 0)) (smulM Cx.I (ketbra n 0 1))))) i j := by
  funext i j
  simp only [depolY, toEmu, smulM, subM, ketbra, toPulser_ising_val h]
  idx_split i j

theorem depolZ_eq_xy (n : Nat) (c : α) :
    dephOp n c = toEmu .xy (smulM (Cx.ofReal c) (subM (ketbra n 0 0) (ketbra n 1 1))) :=
  dephOp_eq n c

theorem depolZ_eq_ising (n : Nat) (h : 2 ≤ n) (c : α) :
    dephOp n c = fun i j => - (toEmu .ising
      (smulM (Cx.ofReal c) (subM (ketbra n 0 0) (ketbra n 1 1)))) i j := by
  funext i j
  simp only [dephOp, toEmu, smulM, subM, ketbra, toPulser_ising_val h]
  idx_split i j

omit [CommRing α] in
theorem flipFull_eq [Add α] [Sub α] [Mul α] [Neg α] [OfNat α 0] [OfNat α 1] {n : Nat} (m : Mat n α) :
    flipFull m = toEmu .ising m := by
  funext i j
  simp only [flipFull, toEmu, toPulser]

theorem flipBlock_two (m : Mat 2 α) : flipBlock m = toEmu .ising m := by
  funext i j
  fin_cases i <;> fin_cases j <;> simp [flipBlock, toEmu, toPulser]

/-- The guard the as-found code needs: outside the `{0,1}×{0,1}` block the operator must not
change when `r` and `g` are exchanged. -/
def SwapInvariantOutsideBlock {n : Nat} (a : Mat n α) : Prop :=
  ∀ i j : Fin n, ¬ (i.val < 2 ∧ j.val < 2) → a (toPulser .ising i) (toPulser .ising j) = a i j

theorem flipBlock_guard {n : Nat} (h : 2 ≤ n) (m : Mat n α) (hg : SwapInvariantOutsideBlock m) :
    flipBlock m = toEmu .ising m := by
  funext i j
  by_cases hb : i.val < 2 ∧ j.val < 2
  · have h1 : i.val < min 2 n ∧ j.val < min 2 n := by omega
    simp only [flipBlock, toEmu]
    rw [dif_pos h1]
    congr 1
    · apply Fin.ext; rw [toPulser_ising_val h, if_pos hb.1]; show min 2 n - 1 - i.val = _; omega
    · apply Fin.ext; rw [toPulser_ising_val h, if_pos hb.2]; show min 2 n - 1 - j.val = _; omega
  · have h1 : ¬ (i.val < min 2 n ∧ j.val < min 2 n) := by omega
    simp only [flipBlock, toEmu]
    rw [dif_neg h1]
    exact (hg i j hb).symm

theorem swapInvariant_scale {n : Nat} (c : α) (m : Mat n α) (hg : SwapInvariantOutsideBlock m) :
    SwapInvariantOutsideBlock (scaleOp c m) := by
  intro i j hb; simp only [scaleOp]; rw [hg i j hb]

end ops

end EmuVerif.Noise
