/-
  Evaluation lemmas: which cubic `PCHIP1D.__call__` uses for a query, the value on a closed
  knot interval, and existence of a bracketing interval inside the knot range.
-/
import EmuVerif.Proofs.PchipList

set_option linter.unusedSectionVars false
set_option linter.unusedVariables false

namespace EmuVerif.Pchip
variable {α : Type} [Field α] [LinearOrder α] [IsStrictOrderedRing α]

/-- All the data attached to interval `i` of a built interpolant. -/
structure IntervalData (x y d : List α) (i : Nat) (a b ya yb da db : α) : Prop where
  xa : x[i]? = some a
  xb : x[i + 1]? = some b
  ya : y[i]? = some ya
  yb : y[i + 1]? = some yb
  da : d[i]? = some da
  db : d[i + 1]? = some db

/-- The cubic of interval `i` in terms of the data. -/
def pieceOf (a b ya yb da db : α) : Cubic α := cubic ya (b - a) ((yb - ya) / (b - a)) da db

/-- Every interval `i + 1 < n` has data. -/
theorem intervalData_exists {x y d : List α} {P : Interp α} (hb : build x y = some P)
    (hd : slopes x y = some d) {i : Nat} (hi : i + 1 < x.length) :
    ∃ a b ya yb da db, IntervalData x y d i a b ya yb da db := by
  obtain ⟨hl, _, _, d', hd', hdl, _⟩ := build_some hb
  rw [hd] at hd'; cases hd'
  obtain ⟨a, ha⟩ := getElem?_of_lt (l := x) (i := i) (by omega)
  obtain ⟨b, hb'⟩ := getElem?_of_lt (l := x) (i := i + 1) (by omega)
  obtain ⟨ya, hya⟩ := getElem?_of_lt (l := y) (i := i) (by omega)
  obtain ⟨yb, hyb⟩ := getElem?_of_lt (l := y) (i := i + 1) (by omega)
  obtain ⟨da, hda⟩ := getElem?_of_lt (l := d) (i := i) (by omega)
  obtain ⟨db, hdb⟩ := getElem?_of_lt (l := d) (i := i + 1) (by omega)
  exact ⟨a, b, ya, yb, da, db, ⟨ha, hb', hya, hyb, hda, hdb⟩⟩

theorem IntervalData.lt {x y d : List α} {P : Interp α} (hb : build x y = some P)
    {i : Nat} {a b ya yb da db : α} (D : IntervalData x y d i a b ya yb da db) : a < b := by
  obtain ⟨_, _, hs, _⟩ := build_some hb
  exact sorted_lt hs D.xa D.xb (by omega)

/-- If `_interval_index` selects `i`, `__call__` evaluates the cubic of interval `i` at `q - x_i`. -/
theorem eval_of_index {x y d : List α} {P : Interp α} (hb : build x y = some P) (hd : slopes x y = some d)
    {i : Nat} {a b ya yb da db q : α} (D : IntervalData x y d i a b ya yb da db)
    (hi : intervalIndex x q = i) : P.eval q = some ((pieceOf a b ya yb da db).eval (q - a)) := by
  obtain ⟨hxs, hc⟩ := build_coeff hb hd D.xa D.xb D.ya D.yb D.da D.db
  unfold Interp.eval
  rw [hxs, hi]
  simp only [D.xa, hc, pieceOf, Option.bind_eq_bind, Option.bind_some]

/-- The slopes at both ends of interval `i` are admissible for its secant. -/
theorem intervalData_slopeOK {x y d : List α} {P : Interp α} (hb : build x y = some P)
    (hd : slopes x y = some d) {i : Nat} {a b ya yb da db : α} (D : IntervalData x y d i a b ya yb da db) :
    SlopeOK ((yb - ya) / (b - a)) da ∧ SlopeOK ((yb - ya) / (b - a)) db := by
  obtain ⟨_, _, hs, _⟩ := build_some hb
  exact derivs_slopeOK hd (diffs_pos hs)
    (secants_getElem? D.ya D.yb (diffs_getElem? D.xa D.xb)) D.da D.db

/-- Value at a knot that is the left end of interval `i`. -/
theorem eval_left_knot {x y d : List α} {P : Interp α} (hb : build x y = some P) (hd : slopes x y = some d)
    {i : Nat} {a b ya yb da db : α} (D : IntervalData x y d i a b ya yb da db) : P.eval a = some ya := by
  obtain ⟨_, _, hs, _⟩ := build_some hb
  have hi := intervalIndex_mid hs D.xa D.xb le_rfl (D.lt hb)
  rw [eval_of_index hb hd D hi, sub_self]
  simp [pieceOf, cubic_eval_zero]

/-- Value at the right end knot of interval `i` (whichever interval `_interval_index` picks). -/
theorem eval_right_knot {x y d : List α} {P : Interp α} (hb : build x y = some P) (hd : slopes x y = some d)
    {i : Nat} {a b ya yb da db : α} (D : IntervalData x y d i a b ya yb da db) : P.eval b = some yb := by
  obtain ⟨hl, h2, hs, d', hd', hdl, _⟩ := build_some hb
  rw [hd] at hd'; cases hd'
  have hi1 := lt_of_getElem? D.xb
  rcases Nat.lt_or_ge (i + 2) x.length with hlt | hge
  · obtain ⟨a', b', ya', yb', da', db', D'⟩ := intervalData_exists hb hd (i := i + 1) (by omega)
    have e1 : a' = b := by have := D'.xa; rw [D.xb] at this; exact (Option.some.inj this).symm
    have e2 : ya' = yb := by have := D'.ya; rw [D.yb] at this; exact (Option.some.inj this).symm
    subst e1 e2
    exact eval_left_knot hb hd D'
  · have e : i = x.length - 2 := by omega
    have hxn : x[x.length - 1]? = some b := by
      have : x.length - 1 = i + 1 := by omega
      rw [this]; exact D.xb
    have hi := intervalIndex_right hs h2 hxn le_rfl
    rw [← e] at hi
    rw [eval_of_index hb hd D hi]
    have hne : b - a ≠ 0 := (sub_pos.mpr (D.lt hb)).ne'
    simp only [pieceOf]
    rw [cubic_eval_h ya yb (b - a) da db hne]

/-- On the closed interval `[x_i, x_{i+1}]` the interpolant is the cubic of interval `i`. -/
theorem eval_on_interval {x y d : List α} {P : Interp α} (hb : build x y = some P) (hd : slopes x y = some d)
    {i : Nat} {a b ya yb da db q : α} (D : IntervalData x y d i a b ya yb da db) (h1 : a ≤ q) (h2 : q ≤ b) :
    P.eval q = some ((pieceOf a b ya yb da db).eval (q - a)) := by
  obtain ⟨_, _, hs, _⟩ := build_some hb
  rcases h2.eq_or_lt with e | l
  · subst e
    rw [eval_right_knot hb hd D]
    have hne : q - a ≠ 0 := (sub_pos.mpr (D.lt hb)).ne'
    simp only [pieceOf]
    rw [cubic_eval_h ya yb (q - a) da db hne]
  · exact eval_of_index hb hd D (intervalIndex_mid hs D.xa D.xb h1 l)

/-- A point of the knot range lies in some closed knot interval. -/
theorem exists_bracket {x : List α} {q : α} : ∀ (k : Nat) (hk : k < x.length), 0 < k →
    x[0]'(by omega) ≤ q → q ≤ x[k] → ∃ i, ∃ (hi : i + 1 < x.length), x[i] ≤ q ∧ q ≤ x[i + 1] := by
  intro k
  induction k with
  | zero => intro _ h; omega
  | succ k ih =>
    intro hk _ h0 hq
    rcases le_or_gt q (x[k]'(by omega)) with hle | hgt
    · rcases Nat.eq_zero_or_pos k with k0 | kp
      · subst k0
        exact ⟨0, hk, h0, hq⟩
      · exact ih (by omega) kp h0 hle
    · exact ⟨k, hk, hgt.le, hq⟩

end EmuVerif.Pchip
