/-
  List-level lemmas about `Model.Pchip` (any number of knots): element access into `diffs`,
  `secants`, `interior`, `derivs`, `polyCoeffs`; what `build` succeeding means; the interval
  index selected by `_interval_index` on strictly increasing knots.
  Element access is phrased with `l[i]? = some v` throughout (no dependent bound proofs).
-/
import EmuVerif.Proofs.PchipSlopes
import Mathlib.Data.List.Chain

set_option linter.unusedSectionVars false
set_option linter.unusedVariables false

namespace EmuVerif.Pchip
variable {α : Type} [Field α] [LinearOrder α] [IsStrictOrderedRing α]

theorem getElem?_of_lt {β : Type} {l : List β} {i : Nat} (h : i < l.length) : ∃ v, l[i]? = some v :=
  ⟨l[i], List.getElem?_eq_getElem h⟩

theorem lt_of_getElem? {β : Type} {l : List β} {i : Nat} {v : β} (h : l[i]? = some v) : i < l.length := by
  obtain ⟨h', _⟩ := List.getElem?_eq_some_iff.mp h; exact h'

/-! ### element access -/

theorem length_diffs (a : List α) : (diffs a).length = a.length - 1 := by
  simp [diffs]

theorem diffs_getElem? {a : List α} {i : Nat} {u v : α} (h0 : a[i]? = some u) (h1 : a[i + 1]? = some v) :
    (diffs a)[i]? = some (v - u) := by
  simp [diffs, List.getElem?_zipWith, h0, h1]

theorem length_secants (y h : List α) : (secants y h).length = min (y.length - 1) h.length := by
  simp [secants, length_diffs]

theorem secants_getElem? {y h : List α} {i : Nat} {u v w : α} (h0 : y[i]? = some u) (h1 : y[i + 1]? = some v)
    (hh : h[i]? = some w) : (secants y h)[i]? = some ((v - u) / w) := by
  simp [secants, List.getElem?_zipWith, diffs_getElem? h0 h1, hh]

theorem length_interior (h delta : List α) :
    (interior h delta).length = min (delta.length - 1) (h.length - 1) := by
  simp [interior]

theorem interior_getElem? {h delta : List α} {i : Nat} {dl dr hl hr : α}
    (a : delta[i]? = some dl) (b : delta[i + 1]? = some dr) (c : h[i]? = some hl) (d : h[i + 1]? = some hr) :
    (interior h delta)[i]? = some (interiorAt dl dr hl hr) := by
  simp [interior, List.zip, List.getElem?_zipWith, a, b, c, d]

theorem length_polyCoeffs (y h delta d : List α) :
    (polyCoeffs y h delta d).length = min (min y.length (min h.length delta.length)) (d.length - 1) := by
  simp [polyCoeffs]

theorem polyCoeffs_getElem? {y h delta d : List α} {i : Nat} {y0 hh dl d0 d1 : α}
    (a : y[i]? = some y0) (b : h[i]? = some hh) (c : delta[i]? = some dl) (e : d[i]? = some d0)
    (f : d[i + 1]? = some d1) : (polyCoeffs y h delta d)[i]? = some (cubic y0 hh dl d0 d1) := by
  simp [polyCoeffs, List.zip, List.getElem?_zipWith, a, b, c, e, f]

/-! ### `_pchip_derivatives` -/

theorem derivs_length_eq {h delta d : List α} (hd : derivs h delta = some d) : delta.length = h.length := by
  unfold derivs at hd
  by_contra hne
  simp [hne] at hd

theorem derivs_one {h delta : List α} {d0 : α} (hh : h.length = 1) (hl : delta.length = 1)
    (h0 : delta[0]? = some d0) : derivs h delta = some [d0, d0] := by
  unfold derivs
  rw [if_neg (by omega), if_pos hh, h0]
  rfl

theorem derivs_ge_two {h delta : List α} {d0 d1 h0 h1 dn dm hn hm : α} (hl : delta.length = h.length)
    (h2 : 2 ≤ h.length)
    (a0 : delta[0]? = some d0) (a1 : delta[1]? = some d1) (b0 : h[0]? = some h0) (b1 : h[1]? = some h1)
    (an : delta[h.length - 1]? = some dn) (am : delta[h.length - 2]? = some dm)
    (bn : h[h.length - 1]? = some hn) (bm : h[h.length - 2]? = some hm) :
    derivs h delta = some (limitEndpoint (endpointSlope d0 d1 h0 h1) d0 d1
      :: (interior h delta ++ [limitEndpoint (endpointSlope dn dm hn hm) dn dm])) := by
  have hne : h.length ≠ 1 := by omega
  simp [derivs, hl, hne, a0, a1, b0, b1, an, am, bn, bm]

theorem derivs_length {h delta d : List α} (hd : derivs h delta = some d) : d.length = h.length + 1 := by
  have hl := derivs_length_eq hd
  rcases Nat.lt_or_ge h.length 2 with hlt | hge
  · rcases Nat.eq_zero_or_pos h.length with hz | hp
    · have : delta[0]? = none := List.getElem?_eq_none (by omega)
      unfold derivs at hd
      rw [if_neg (by omega), if_neg (by omega), this] at hd
      cases hd
    · have h1 : h.length = 1 := by omega
      obtain ⟨d0, e0⟩ := getElem?_of_lt (l := delta) (i := 0) (by omega)
      rw [derivs_one h1 (by omega) e0] at hd
      cases hd; simp [h1]
  · obtain ⟨d0, a0⟩ := getElem?_of_lt (l := delta) (i := 0) (by omega)
    obtain ⟨d1, a1⟩ := getElem?_of_lt (l := delta) (i := 1) (by omega)
    obtain ⟨dn, an⟩ := getElem?_of_lt (l := delta) (i := h.length - 1) (by omega)
    obtain ⟨dm, am⟩ := getElem?_of_lt (l := delta) (i := h.length - 2) (by omega)
    obtain ⟨h0, b0⟩ := getElem?_of_lt (l := h) (i := 0) (by omega)
    obtain ⟨h1, b1⟩ := getElem?_of_lt (l := h) (i := 1) (by omega)
    obtain ⟨hn, bn⟩ := getElem?_of_lt (l := h) (i := h.length - 1) (by omega)
    obtain ⟨hm, bm⟩ := getElem?_of_lt (l := h) (i := h.length - 2) (by omega)
    rw [derivs_ge_two hl hge a0 a1 b0 b1 an am bn bm] at hd
    cases hd
    simp [length_interior, hl]; omega

/-- Knot slopes, by position: first, interior, last. -/
theorem derivs_first {h delta d : List α} {d0 d1 h0 h1 : α} (hd : derivs h delta = some d) (h2 : 2 ≤ h.length)
    (a0 : delta[0]? = some d0) (a1 : delta[1]? = some d1) (b0 : h[0]? = some h0) (b1 : h[1]? = some h1) :
    d[0]? = some (limitEndpoint (endpointSlope d0 d1 h0 h1) d0 d1) := by
  have hl := derivs_length_eq hd
  obtain ⟨dn, an⟩ := getElem?_of_lt (l := delta) (i := h.length - 1) (by omega)
  obtain ⟨dm, am⟩ := getElem?_of_lt (l := delta) (i := h.length - 2) (by omega)
  obtain ⟨hn, bn⟩ := getElem?_of_lt (l := h) (i := h.length - 1) (by omega)
  obtain ⟨hm, bm⟩ := getElem?_of_lt (l := h) (i := h.length - 2) (by omega)
  rw [derivs_ge_two hl h2 a0 a1 b0 b1 an am bn bm] at hd
  cases hd; simp

theorem derivs_last {h delta d : List α} {dn dm hn hm : α} (hd : derivs h delta = some d) (h2 : 2 ≤ h.length)
    (an : delta[h.length - 1]? = some dn) (am : delta[h.length - 2]? = some dm)
    (bn : h[h.length - 1]? = some hn) (bm : h[h.length - 2]? = some hm) :
    d[h.length]? = some (limitEndpoint (endpointSlope dn dm hn hm) dn dm) := by
  have hl := derivs_length_eq hd
  obtain ⟨d0, a0⟩ := getElem?_of_lt (l := delta) (i := 0) (by omega)
  obtain ⟨d1, a1⟩ := getElem?_of_lt (l := delta) (i := 1) (by omega)
  obtain ⟨h0, b0⟩ := getElem?_of_lt (l := h) (i := 0) (by omega)
  obtain ⟨h1, b1⟩ := getElem?_of_lt (l := h) (i := 1) (by omega)
  rw [derivs_ge_two hl h2 a0 a1 b0 b1 an am bn bm] at hd
  cases hd
  have e : h.length = (interior h delta).length + 1 := by rw [length_interior, hl]; omega
  rw [e]
  simp

theorem derivs_interior {h delta d : List α} {j : Nat} {dl dr hl hr : α} (hd : derivs h delta = some d)
    (a : delta[j]? = some dl) (b : delta[j + 1]? = some dr) (c : h[j]? = some hl) (e : h[j + 1]? = some hr) :
    d[j + 1]? = some (interiorAt dl dr hl hr) := by
  have hlen := derivs_length_eq hd
  have hj := lt_of_getElem? b
  have h2 : 2 ≤ h.length := by omega
  obtain ⟨d0, a0⟩ := getElem?_of_lt (l := delta) (i := 0) (by omega)
  obtain ⟨d1, a1⟩ := getElem?_of_lt (l := delta) (i := 1) (by omega)
  obtain ⟨h0, b0⟩ := getElem?_of_lt (l := h) (i := 0) (by omega)
  obtain ⟨h1, b1⟩ := getElem?_of_lt (l := h) (i := 1) (by omega)
  obtain ⟨dn, an⟩ := getElem?_of_lt (l := delta) (i := h.length - 1) (by omega)
  obtain ⟨dm, am⟩ := getElem?_of_lt (l := delta) (i := h.length - 2) (by omega)
  obtain ⟨hn, bn⟩ := getElem?_of_lt (l := h) (i := h.length - 1) (by omega)
  obtain ⟨hm, bm⟩ := getElem?_of_lt (l := h) (i := h.length - 2) (by omega)
  rw [derivs_ge_two hlen h2 a0 a1 b0 b1 an am bn bm] at hd
  cases hd
  rw [List.getElem?_cons_succ, List.getElem?_append_left (by rw [length_interior]; omega)]
  exact interior_getElem? a b c e

/-- Every slope the model computes is admissible for both intervals it touches. -/
theorem derivs_slopeOK {h delta d : List α} {i : Nat} {Δ a b : α} (hd : derivs h delta = some d)
    (hpos : ∀ v ∈ h, 0 < v) (hΔ : delta[i]? = some Δ) (ha : d[i]? = some a) (hb : d[i + 1]? = some b) :
    SlopeOK Δ a ∧ SlopeOK Δ b := by
  have hlen := derivs_length_eq hd
  have hi := lt_of_getElem? hΔ
  have hp : ∀ {k : Nat} {v : α}, h[k]? = some v → 0 < v := fun {k v} hk =>
    hpos v (List.mem_of_getElem? hk)
  rcases Nat.lt_or_ge h.length 2 with hlt | h2
  · have h1 : h.length = 1 := by omega
    have i0 : i = 0 := by omega
    subst i0
    rw [derivs_one h1 (by omega) hΔ] at hd
    cases hd
    simp at ha hb
    subst ha hb
    exact ⟨slopeOK_self _, slopeOK_self _⟩
  · obtain ⟨hi_, ehi⟩ := getElem?_of_lt (l := h) (i := i) (by omega)
    constructor
    · -- left knot of interval i
      rcases Nat.eq_zero_or_pos i with i0 | ipos
      · subst i0
        obtain ⟨d1, a1⟩ := getElem?_of_lt (l := delta) (i := 1) (by omega)
        obtain ⟨h1, b1⟩ := getElem?_of_lt (l := h) (i := 1) (by omega)
        have := derivs_first hd h2 hΔ a1 ehi b1
        rw [this] at ha; cases ha
        exact limit_slopeOK (hp ehi) (hp b1)
      · obtain ⟨j, rfl⟩ : ∃ j, i = j + 1 := ⟨i - 1, by omega⟩
        obtain ⟨dl, al⟩ := getElem?_of_lt (l := delta) (i := j) (by omega)
        obtain ⟨hl, bl⟩ := getElem?_of_lt (l := h) (i := j) (by omega)
        have := derivs_interior hd al hΔ bl ehi
        rw [this] at ha; cases ha
        exact (interiorAt_slopeOK (hp bl) (hp ehi)).2
    · -- right knot of interval i
      rcases Nat.lt_or_ge (i + 1) h.length with hlt | hge
      · obtain ⟨dr, ar⟩ := getElem?_of_lt (l := delta) (i := i + 1) (by omega)
        obtain ⟨hr, br⟩ := getElem?_of_lt (l := h) (i := i + 1) (by omega)
        have := derivs_interior hd hΔ ar ehi br
        rw [this] at hb; cases hb
        exact (interiorAt_slopeOK (hp ehi) (hp br)).1
      · have e : i = h.length - 1 := by omega
        obtain ⟨dm, am⟩ := getElem?_of_lt (l := delta) (i := h.length - 2) (by omega)
        obtain ⟨hm, bm⟩ := getElem?_of_lt (l := h) (i := h.length - 2) (by omega)
        have e2 : i + 1 = h.length := by omega
        rw [e] at hΔ ehi
        have := derivs_last hd h2 hΔ am ehi bm
        rw [e2, this] at hb; cases hb
        exact limit_slopeOK (hp ehi) (hp bm)

/-! ### strictly increasing knots -/

theorem strictlyIncreasing_iff_chain (x : List α) :
    strictlyIncreasing x = true ↔ List.IsChain (· < ·) x := by
  induction x with
  | nil => simp [strictlyIncreasing]
  | cons a t ih =>
    cases t with
    | nil => simp [strictlyIncreasing]
    | cons b t =>
      have e : strictlyIncreasing (a :: b :: t) = (decide (a < b) && strictlyIncreasing (b :: t)) := by
        simp [strictlyIncreasing]
      rw [e, List.isChain_cons_cons, ← ih]
      simp

theorem strictlyIncreasing_iff_pairwise (x : List α) :
    strictlyIncreasing x = true ↔ x.Pairwise (· < ·) := by
  rw [strictlyIncreasing_iff_chain, List.isChain_iff_pairwise]

theorem sorted_lt {x : List α} (hs : x.Pairwise (· < ·)) {i j : Nat} {u v : α} (hi : x[i]? = some u)
    (hj : x[j]? = some v) (hij : i < j) : u < v := by
  obtain ⟨h1, rfl⟩ := List.getElem?_eq_some_iff.mp hi
  obtain ⟨h2, rfl⟩ := List.getElem?_eq_some_iff.mp hj
  exact List.pairwise_iff_getElem.mp hs i j h1 h2 hij

theorem sorted_le {x : List α} (hs : x.Pairwise (· < ·)) {i j : Nat} {u v : α} (hi : x[i]? = some u)
    (hj : x[j]? = some v) (hij : i ≤ j) : u ≤ v := by
  rcases Nat.eq_or_lt_of_le hij with e | l
  · subst e; rw [hi] at hj; cases hj; exact le_rfl
  · exact (sorted_lt hs hi hj l).le

theorem diffs_pos {x : List α} (hs : x.Pairwise (· < ·)) : ∀ v ∈ diffs x, 0 < v := by
  intro v hv
  obtain ⟨i, hi, rfl⟩ := List.getElem_of_mem hv
  rw [length_diffs] at hi
  obtain ⟨u, eu⟩ := getElem?_of_lt (l := x) (i := i) (by omega)
  obtain ⟨w, ew⟩ := getElem?_of_lt (l := x) (i := i + 1) (by omega)
  have := diffs_getElem? eu ew
  rw [List.getElem?_eq_getElem (by rw [length_diffs]; omega)] at this
  rw [Option.some.inj this]
  exact sub_pos.mpr (sorted_lt hs eu ew (by omega))

/-! ### `_interval_index` -/

theorem countLE_eq {x : List α} {q : α} {k : Nat} (hk : k ≤ x.length)
    (hle : ∀ j v, x[j]? = some v → j < k → v ≤ q) (hgt : ∀ j v, x[j]? = some v → k ≤ j → q < v) :
    countLE x q = k := by
  unfold countLE
  rw [← List.take_append_drop k x, List.countP_append]
  have h1 : List.countP (fun a => decide (a ≤ q)) (List.take k x) = (List.take k x).length := by
    rw [List.countP_eq_length]
    intro a ha
    obtain ⟨j, hj, rfl⟩ := List.mem_take_iff_getElem.mp ha
    have hj' : j < k ∧ j < x.length := by omega
    simpa using hle j x[j] (List.getElem?_eq_getElem hj'.2) hj'.1
  have h2 : List.countP (fun a => decide (a ≤ q)) (List.drop k x) = 0 := by
    rw [List.countP_eq_zero]
    intro a ha
    obtain ⟨j, hj, rfl⟩ := List.mem_drop_iff_getElem.mp ha
    have := hgt (k + j) x[k + j] (List.getElem?_eq_getElem (by omega)) (by omega)
    simpa using this
  rw [h1, h2, List.length_take]; omega

/-- Query left of the first knot: interval 0. -/
theorem intervalIndex_left {x : List α} (hs : x.Pairwise (· < ·)) {q x0 : α} (h0 : x[0]? = some x0)
    (hq : q < x0) : intervalIndex x q = 0 := by
  have : countLE x q = 0 := countLE_eq (by omega) (fun j v _ hj => by omega)
    (fun j v hv _ => lt_of_lt_of_le hq (sorted_le hs h0 hv (by omega)))
  simp [intervalIndex, this]

/-- Query inside `[x_i, x_{i+1})`: interval `i`. -/
theorem intervalIndex_mid {x : List α} (hs : x.Pairwise (· < ·)) {q a b : α} {i : Nat} (ha : x[i]? = some a)
    (hb : x[i + 1]? = some b) (h1 : a ≤ q) (h2 : q < b) : intervalIndex x q = i := by
  have hlt := lt_of_getElem? hb
  have : countLE x q = i + 1 := countLE_eq (by omega)
    (fun j v hv hj => le_trans (sorted_le hs hv ha (by omega)) h1)
    (fun j v hv hj => lt_of_lt_of_le h2 (sorted_le hs hb hv hj))
  (simp [intervalIndex, this]; omega)

/-- Query at or right of the last knot: the last interval. -/
theorem intervalIndex_right {x : List α} (hs : x.Pairwise (· < ·)) {q xn : α} (h2 : 2 ≤ x.length)
    (hn : x[x.length - 1]? = some xn) (hq : xn ≤ q) : intervalIndex x q = x.length - 2 := by
  have : countLE x q = x.length := countLE_eq le_rfl
    (fun j v hv hj => le_trans (sorted_le hs hv hn (by omega)) hq)
    (fun j v hv hj => absurd (lt_of_getElem? hv) (by omega))
  (simp [intervalIndex, this]; omega)

/-! ### `PCHIP1D.__init__` -/

/-- The knot slopes of the data `(x, y)`. -/
def slopes (x y : List α) : Option (List α) := derivs (diffs x) (secants y (diffs x))

theorem build_some {x y : List α} {P : Interp α} (hb : build x y = some P) :
    x.length = y.length ∧ 2 ≤ x.length ∧ x.Pairwise (· < ·) ∧
      ∃ d, slopes x y = some d ∧ d.length = x.length ∧
        P = { xs := x, coeffs := polyCoeffs y (diffs x) (secants y (diffs x)) d } := by
  unfold build at hb
  by_cases h1 : x.length ≠ y.length
  · rw [if_pos h1] at hb; cases hb
  rw [if_neg h1] at hb
  by_cases h2 : x.length < 2
  · rw [if_pos h2] at hb; cases hb
  rw [if_neg h2] at hb
  by_cases h3 : (!strictlyIncreasing x) = true
  · rw [if_pos h3] at hb; cases hb
  rw [if_neg h3] at hb
  dsimp only at hb
  obtain ⟨d, hd, hP⟩ := Option.map_eq_some_iff.mp hb
  have h3' : strictlyIncreasing x = true := by simpa using h3
  refine ⟨not_not.mp h1, by omega, (strictlyIncreasing_iff_pairwise x).mp h3', d, hd, ?_, hP.symm⟩
  have := derivs_length hd
  rw [length_diffs] at this; omega

theorem build_of_valid {x y : List α} (h1 : x.length = y.length) (h2 : 2 ≤ x.length)
    (hs : x.Pairwise (· < ·)) : ∃ P, build x y = some P := by
  have hlen : (secants y (diffs x)).length = (diffs x).length := by
    rw [length_secants, length_diffs]; omega
  have hm : 1 ≤ (diffs x).length := by rw [length_diffs]; omega
  have : ∃ d, derivs (diffs x) (secants y (diffs x)) = some d := by
    rcases Nat.lt_or_ge (diffs x).length 2 with hlt | hge
    · obtain ⟨d0, e0⟩ := getElem?_of_lt (l := secants y (diffs x)) (i := 0) (by omega)
      exact ⟨_, derivs_one (by omega) (by omega) e0⟩
    · obtain ⟨d0, a0⟩ := getElem?_of_lt (l := secants y (diffs x)) (i := 0) (by omega)
      obtain ⟨d1, a1⟩ := getElem?_of_lt (l := secants y (diffs x)) (i := 1) (by omega)
      obtain ⟨dn, an⟩ := getElem?_of_lt (l := secants y (diffs x)) (i := (diffs x).length - 1) (by omega)
      obtain ⟨dm, am⟩ := getElem?_of_lt (l := secants y (diffs x)) (i := (diffs x).length - 2) (by omega)
      obtain ⟨h0, b0⟩ := getElem?_of_lt (l := diffs x) (i := 0) (by omega)
      obtain ⟨h1', b1⟩ := getElem?_of_lt (l := diffs x) (i := 1) (by omega)
      obtain ⟨hn, bn⟩ := getElem?_of_lt (l := diffs x) (i := (diffs x).length - 1) (by omega)
      obtain ⟨hm', bm⟩ := getElem?_of_lt (l := diffs x) (i := (diffs x).length - 2) (by omega)
      exact ⟨_, derivs_ge_two hlen hge a0 a1 b0 b1 an am bn bm⟩
  obtain ⟨d, hd⟩ := this
  refine ⟨{ xs := x, coeffs := polyCoeffs y (diffs x) (secants y (diffs x)) d }, ?_⟩
  have h3 : strictlyIncreasing x = true := (strictlyIncreasing_iff_pairwise x).mpr hs
  unfold build
  rw [if_neg (not_not.mpr h1), if_neg (by omega), if_neg (by simp [h3])]
  simp [hd]

/-- The cubic stored for interval `i`. -/
theorem build_coeff {x y d : List α} {P : Interp α} (hb : build x y = some P) (hd : slopes x y = some d)
    {i : Nat} {a b ya yb da db : α} (ha : x[i]? = some a) (hb' : x[i + 1]? = some b)
    (hya : y[i]? = some ya) (hyb : y[i + 1]? = some yb) (hda : d[i]? = some da) (hdb : d[i + 1]? = some db) :
    P.xs = x ∧ P.coeffs[i]? = some (cubic ya (b - a) ((yb - ya) / (b - a)) da db) := by
  obtain ⟨_, _, _, d', hd', _, rfl⟩ := build_some hb
  rw [hd] at hd'; cases hd'
  refine ⟨rfl, ?_⟩
  exact polyCoeffs_getElem? hya (diffs_getElem? ha hb')
    (secants_getElem? hya hyb (diffs_getElem? ha hb')) hda hdb

end EmuVerif.Pchip
