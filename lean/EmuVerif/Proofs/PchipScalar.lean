/-
  Scalar (per-interval, per-knot) lemmas about `Model.Pchip` over a linear ordered field:
  Hermite conditions of the cubic, the difference-quotient factorisation, monotonicity in the
  Fritsch–Carlson region `0 ≤ d/Δ ≤ 3`, and the fact that the harmonic mean and the limited
  end slope lie in that region.
-/
import EmuVerif.Model.Pchip
import EmuVerif.Proofs.Scalar
import Mathlib.Tactic.NormNum
import Mathlib.Data.Sign.Basic

set_option linter.unusedSectionVars false
set_option linter.unusedVariables false

namespace EmuVerif.Pchip
variable {α : Type} [Field α] [LinearOrder α] [IsStrictOrderedRing α]

/-! ### Hermite conditions -/

theorem cubic_eval_zero (y0 h dl d0 d1 : α) : (cubic y0 h dl d0 d1).eval 0 = y0 := by
  simp [cubic, Cubic.eval]

theorem cubic_deriv_zero (y0 h dl d0 d1 : α) : (cubic y0 h dl d0 d1).deriv 0 = d0 := by
  simp [cubic, Cubic.deriv]

theorem cubic_eval_h (y0 y1 h d0 d1 : α) (hh : h ≠ 0) :
    (cubic y0 h ((y1 - y0) / h) d0 d1).eval h = y1 := by
  simp only [cubic, Cubic.eval]
  field_simp
  ring

theorem cubic_deriv_h (y0 h dl d0 d1 : α) (hh : h ≠ 0) :
    (cubic y0 h dl d0 d1).deriv h = d1 := by
  simp only [cubic, Cubic.deriv]
  field_simp
  ring

/-- `Cubic.deriv` is the derivative: exact first-order expansion with a polynomial remainder. -/
theorem eval_expand (c : Cubic α) (t e : α) :
    c.eval (t + e) = c.eval t + e * c.deriv t + e * e * (c.p2 + 3 * c.p3 * t + c.p3 * e) := by
  simp only [Cubic.eval, Cubic.deriv]; ring

/-- Mean slope of the cubic between `s` and `t`. -/
def Cubic.chord (c : Cubic α) (s t : α) : α := c.p1 + c.p2 * (s + t) + c.p3 * (s * s + s * t + t * t)

theorem eval_sub (c : Cubic α) (s t : α) : c.eval t - c.eval s = (t - s) * c.chord s t := by
  simp only [Cubic.eval, Cubic.chord]; ring

/-! ### The monotonicity region -/

/-- `d` is an admissible knot slope next to an interval of secant `Δ`:
`d = 0` on a flat interval, otherwise `0 ≤ d/Δ ≤ 3` (written without division). -/
def SlopeOK (Δ d : α) : Prop := (Δ = 0 → d = 0) ∧ 0 ≤ d * Δ ∧ d * Δ ≤ 3 * (Δ * Δ)

theorem slopeOK_iff_ratio {Δ d : α} (hΔ : Δ ≠ 0) : SlopeOK Δ d ↔ 0 ≤ d / Δ ∧ d / Δ ≤ 3 := by
  have h2 : 0 < Δ * Δ := mul_self_pos.mpr hΔ
  have e : d / Δ = d * Δ / (Δ * Δ) := by field_simp
  unfold SlopeOK
  rw [e, div_le_iff₀ h2]
  constructor
  · rintro ⟨_, h0, h3⟩; exact ⟨div_nonneg h0 h2.le, h3⟩
  · rintro ⟨h0, h3⟩
    refine ⟨fun h => absurd h hΔ, ?_, h3⟩
    by_contra hneg
    have := div_neg_of_neg_of_pos (not_le.mp hneg) h2
    linarith

theorem slopeOK_zero (Δ : α) : SlopeOK Δ 0 := by
  refine ⟨fun _ => rfl, by simp, ?_⟩
  have := mul_self_nonneg Δ
  linarith [this]

theorem slopeOK_self (Δ : α) : SlopeOK Δ Δ := by
  refine ⟨fun h => h, mul_self_nonneg Δ, ?_⟩
  have := mul_self_nonneg Δ
  linarith

theorem slopeOK_three (Δ : α) : SlopeOK Δ (3 * Δ) := by
  refine ⟨fun h => by simp [h], ?_, ?_⟩
  · have := mul_self_nonneg Δ; nlinarith
  · exact le_of_eq (by ring)

theorem slopeOK_neg {Δ d : α} (h : SlopeOK (-Δ) (-d)) : SlopeOK Δ d := by
  obtain ⟨h0, h1, h2⟩ := h
  refine ⟨fun hz => ?_, ?_, ?_⟩
  · have := h0 (by simp [hz]); simpa using this
  · simpa using h1
  · simpa using h2

theorem slopeOK_pos {Δ d : α} (hΔ : 0 < Δ) : SlopeOK Δ d ↔ 0 ≤ d ∧ d ≤ 3 * Δ := by
  unfold SlopeOK
  constructor
  · rintro ⟨_, h1, h2⟩
    constructor
    · by_contra hn
      have := mul_neg_of_neg_of_pos (not_le.mp hn) hΔ
      linarith
    · by_contra hn
      have := mul_lt_mul_of_pos_right (not_le.mp hn) hΔ
      linarith
  · rintro ⟨h1, h2⟩
    refine ⟨fun hz => absurd hz hΔ.ne', mul_nonneg h1 hΔ.le, ?_⟩
    have := mul_le_mul_of_nonneg_right h2 hΔ.le
    linarith

theorem slopeOK_negΔ {Δ d : α} (hΔ : Δ < 0) : SlopeOK Δ d ↔ 3 * Δ ≤ d ∧ d ≤ 0 := by
  constructor
  · intro h
    have h' : SlopeOK (-Δ) (-d) := by
      obtain ⟨h0, h1, h2⟩ := h
      exact ⟨fun hz => absurd (neg_eq_zero.mp hz) hΔ.ne, by simpa using h1, by simpa using h2⟩
    have := (slopeOK_pos (neg_pos.mpr hΔ)).mp h'
    constructor <;> linarith [this.1, this.2]
  · rintro ⟨h1, h2⟩
    apply slopeOK_neg
    exact (slopeOK_pos (neg_pos.mpr hΔ)).mpr ⟨by linarith, by linarith⟩

/-! ### Monotone on the interval -/

private theorem ab_nonneg (a b : α) : 0 ≤ a * a + b * b + a * b := by
  nlinarith [mul_self_nonneg (a + b), mul_self_nonneg a, mul_self_nonneg b]

/-- `h² · chord` as a combination of the slopes and the secant. -/
theorem chord_scaled (y0 h Δ d0 d1 s t : α) (hh : h ≠ 0) :
    h * h * (cubic y0 h Δ d0 d1).chord s t
      = d0 * (h * h - 2 * h * (s + t) + (s * s + s * t + t * t))
        + d1 * (-(h * (s + t)) + (s * s + s * t + t * t))
        + Δ * (3 * h * (s + t) - 2 * (s * s + s * t + t * t)) := by
  simp only [cubic, Cubic.chord]
  field_simp
  ring

/-- Sum-of-squares core: in the region the scaled chord has the sign of `Δ`. -/
theorem chord_region {h Δ d0 d1 s t : α} (hs0 : 0 ≤ s) (hsh : s ≤ h) (ht0 : 0 ≤ t) (hth : t ≤ h)
    (hp : (0 ≤ d0 ∧ 0 ≤ d1 ∧ 0 ≤ 3 * Δ - d0 ∧ 0 ≤ 3 * Δ - d1) ∨
          (d0 ≤ 0 ∧ d1 ≤ 0 ∧ 3 * Δ - d0 ≤ 0 ∧ 3 * Δ - d1 ≤ 0)) :
    0 ≤ 9 * Δ * (d0 * (h * h - 2 * h * (s + t) + (s * s + s * t + t * t))
        + d1 * (-(h * (s + t)) + (s * s + s * t + t * t))
        + Δ * (3 * h * (s + t) - 2 * (s * s + s * t + t * t))) := by
  have hC : 0 ≤ 3 * h * (s + t) - 2 * (s * s + s * t + t * t) := by
    have e : 3 * h * (s + t) - 2 * (s * s + s * t + t * t)
        = 2 * (s * (h - s)) + 2 * (t * (h - t)) + s * (h - t) + t * (h - s) := by ring
    rw [e]
    have := mul_nonneg hs0 (sub_nonneg.mpr hsh)
    have := mul_nonneg ht0 (sub_nonneg.mpr hth)
    have := mul_nonneg hs0 (sub_nonneg.mpr hth)
    have := mul_nonneg ht0 (sub_nonneg.mpr hsh)
    linarith
  have hAC : 0 ≤ 3 * h * h - 3 * h * (s + t) + (s * s + s * t + t * t) := by
    have e : 3 * h * h - 3 * h * (s + t) + (s * s + s * t + t * t)
        = (h - s) * (h - s) + (h - t) * (h - t) + (h - s) * (h - t) := by ring
    rw [e]; exact ab_nonneg _ _
  have hBC : 0 ≤ s * s + s * t + t * t := by
    have := ab_nonneg s t; linarith
  have hABC : 0 ≤ 3 * h * h - 6 * h * (s + t) + 4 * (s * s + s * t + t * t) := by
    have e : 3 * h * h - 6 * h * (s + t) + 4 * (s * s + s * t + t * t)
        = (h - 2 * s) * (h - 2 * s) + (h - 2 * t) * (h - 2 * t) + (h - 2 * s) * (h - 2 * t) := by ring
    rw [e]; exact ab_nonneg _ _
  have key : 9 * Δ * (d0 * (h * h - 2 * h * (s + t) + (s * s + s * t + t * t))
        + d1 * (-(h * (s + t)) + (s * s + s * t + t * t))
        + Δ * (3 * h * (s + t) - 2 * (s * s + s * t + t * t)))
      = (3 * Δ - d0) * (3 * Δ - d1) * (3 * h * (s + t) - 2 * (s * s + s * t + t * t))
        + d0 * (3 * Δ - d1) * (3 * h * h - 3 * h * (s + t) + (s * s + s * t + t * t))
        + (3 * Δ - d0) * d1 * (s * s + s * t + t * t)
        + d0 * d1 * (3 * h * h - 6 * h * (s + t) + 4 * (s * s + s * t + t * t)) := by ring
  rw [key]
  rcases hp with ⟨a, b, c, d⟩ | ⟨a, b, c, d⟩
  · have := mul_nonneg (mul_nonneg c d) hC
    have := mul_nonneg (mul_nonneg a d) hAC
    have := mul_nonneg (mul_nonneg c b) hBC
    have := mul_nonneg (mul_nonneg a b) hABC
    linarith
  · have := mul_nonneg (mul_nonneg_of_nonpos_of_nonpos c d) hC
    have := mul_nonneg (mul_nonneg_of_nonpos_of_nonpos a d) hAC
    have := mul_nonneg (mul_nonneg_of_nonpos_of_nonpos c b) hBC
    have := mul_nonneg (mul_nonneg_of_nonpos_of_nonpos a b) hABC
    linarith

/-- In the region the chord slope is `≥ 0` when `Δ ≥ 0` … -/
theorem chord_nonneg {y0 h Δ d0 d1 s t : α} (hh : 0 < h) (h0 : SlopeOK Δ d0) (h1 : SlopeOK Δ d1)
    (hs0 : 0 ≤ s) (hsh : s ≤ h) (ht0 : 0 ≤ t) (hth : t ≤ h) (hΔ : 0 ≤ Δ) :
    0 ≤ (cubic y0 h Δ d0 d1).chord s t := by
  rcases hΔ.eq_or_lt with hz | hpos
  · have e0 := h0.1 hz.symm
    have e1 := h1.1 hz.symm
    subst e0 e1
    simp [cubic, Cubic.chord, ← hz]
  · have a := (slopeOK_pos hpos).mp h0
    have b := (slopeOK_pos hpos).mp h1
    have k := chord_region (h := h) (Δ := Δ) (d0 := d0) (d1 := d1) hs0 hsh ht0 hth
      (Or.inl ⟨a.1, b.1, by linarith [a.2], by linarith [b.2]⟩)
    rw [← chord_scaled y0 h Δ d0 d1 s t hh.ne'] at k
    have hpos2 : 0 < 9 * Δ * (h * h) := by positivity
    by_contra hn
    have := mul_neg_of_pos_of_neg hpos2 (not_le.mp hn)
    nlinarith

/-- … and `≤ 0` when `Δ ≤ 0`. -/
theorem chord_nonpos {y0 h Δ d0 d1 s t : α} (hh : 0 < h) (h0 : SlopeOK Δ d0) (h1 : SlopeOK Δ d1)
    (hs0 : 0 ≤ s) (hsh : s ≤ h) (ht0 : 0 ≤ t) (hth : t ≤ h) (hΔ : Δ ≤ 0) :
    (cubic y0 h Δ d0 d1).chord s t ≤ 0 := by
  rcases hΔ.eq_or_lt with hz | hneg
  · have e0 := h0.1 hz
    have e1 := h1.1 hz
    subst e0 e1
    simp [cubic, Cubic.chord, hz]
  · have a := (slopeOK_negΔ hneg).mp h0
    have b := (slopeOK_negΔ hneg).mp h1
    have k := chord_region (h := h) (Δ := Δ) (d0 := d0) (d1 := d1) hs0 hsh ht0 hth
      (Or.inr ⟨a.2, b.2, by linarith [a.1], by linarith [b.1]⟩)
    rw [← chord_scaled y0 h Δ d0 d1 s t hh.ne'] at k
    have hneg2 : 9 * Δ * (h * h) < 0 := by
      have : 0 < h * h := by positivity
      nlinarith
    by_contra hn
    have := mul_neg_of_neg_of_pos hneg2 (not_le.mp hn)
    nlinarith

/-- Monotone non-decreasing on `[0, h]` when the secant is `≥ 0`. -/
theorem cubic_mono {y0 h Δ d0 d1 s t : α} (hh : 0 < h) (h0 : SlopeOK Δ d0) (h1 : SlopeOK Δ d1)
    (hs0 : 0 ≤ s) (hst : s ≤ t) (hth : t ≤ h) (hΔ : 0 ≤ Δ) :
    (cubic y0 h Δ d0 d1).eval s ≤ (cubic y0 h Δ d0 d1).eval t := by
  have := eval_sub (cubic y0 h Δ d0 d1) s t
  have c := chord_nonneg (y0 := y0) hh h0 h1 hs0 (hst.trans hth) (hs0.trans hst) hth hΔ
  have := mul_nonneg (sub_nonneg.mpr hst) c
  linarith

/-- Monotone non-increasing on `[0, h]` when the secant is `≤ 0`. -/
theorem cubic_anti {y0 h Δ d0 d1 s t : α} (hh : 0 < h) (h0 : SlopeOK Δ d0) (h1 : SlopeOK Δ d1)
    (hs0 : 0 ≤ s) (hst : s ≤ t) (hth : t ≤ h) (hΔ : Δ ≤ 0) :
    (cubic y0 h Δ d0 d1).eval t ≤ (cubic y0 h Δ d0 d1).eval s := by
  have := eval_sub (cubic y0 h Δ d0 d1) s t
  have c := chord_nonpos (y0 := y0) hh h0 h1 hs0 (hst.trans hth) (hs0.trans hst) hth hΔ
  have := mul_nonpos_of_nonneg_of_nonpos (sub_nonneg.mpr hst) c
  linarith

/-- Between the end values. -/
theorem cubic_between {y0 y1 h d0 d1 t : α} (hh : 0 < h)
    (h0 : SlopeOK ((y1 - y0) / h) d0) (h1 : SlopeOK ((y1 - y0) / h) d1)
    (ht0 : 0 ≤ t) (hth : t ≤ h) :
    min y0 y1 ≤ (cubic y0 h ((y1 - y0) / h) d0 d1).eval t ∧
      (cubic y0 h ((y1 - y0) / h) d0 d1).eval t ≤ max y0 y1 := by
  have e0 := cubic_eval_zero y0 h ((y1 - y0) / h) d0 d1
  have e1 := cubic_eval_h y0 y1 h d0 d1 hh.ne'
  rcases le_total y0 y1 with hle | hle
  · have hΔ : 0 ≤ (y1 - y0) / h := div_nonneg (sub_nonneg.mpr hle) hh.le
    have a := cubic_mono (y0 := y0) hh h0 h1 le_rfl ht0 hth hΔ
    have b := cubic_mono (y0 := y0) hh h0 h1 ht0 hth le_rfl hΔ
    rw [e0] at a; rw [e1] at b
    rw [min_eq_left hle, max_eq_right hle]; exact ⟨a, b⟩
  · have hΔ : (y1 - y0) / h ≤ 0 := div_nonpos_of_nonpos_of_nonneg (sub_nonpos.mpr hle) hh.le
    have a := cubic_anti (y0 := y0) hh h0 h1 le_rfl ht0 hth hΔ
    have b := cubic_anti (y0 := y0) hh h0 h1 ht0 hth le_rfl hΔ
    rw [e0] at a; rw [e1] at b
    rw [min_eq_right hle, max_eq_left hle]; exact ⟨b, a⟩

end EmuVerif.Pchip
