/-
  Knot-slope lemmas: the sign function, the interior (Fritsch–Carlson) slope and the limited
  end slope of `Model.Pchip` lie in the monotonicity region of both neighbouring intervals.
-/
import EmuVerif.Proofs.PchipScalar

set_option linter.unusedSectionVars false
set_option linter.unusedVariables false

namespace EmuVerif.Pchip
variable {α : Type} [Field α] [LinearOrder α] [IsStrictOrderedRing α]

/-! ### `sgn` -/

theorem sgn_of_neg {x : α} (h : x < 0) : sgn x = -1 := by simp [sgn, h]
theorem sgn_of_pos {x : α} (h : 0 < x) : sgn x = 1 := by simp [sgn, h, not_lt.mpr h.le]
theorem sgn_zero : sgn (0 : α) = 0 := by simp [sgn]

theorem sgn_eq_neg_one {x : α} : sgn x = -1 ↔ x < 0 := by
  rcases lt_trichotomy x 0 with h | h | h
  · simp [sgn_of_neg h, h]
  · subst h; simp [sgn_zero]
  · simp [sgn_of_pos h, not_lt.mpr h.le]

theorem sgn_eq_one {x : α} : sgn x = 1 ↔ 0 < x := by
  rcases lt_trichotomy x 0 with h | h | h
  · simp [sgn_of_neg h, not_lt.mpr h.le]
  · subst h; simp [sgn_zero]
  · simp [sgn_of_pos h, h]

theorem sgn_eq_zero {x : α} : sgn x = 0 ↔ x = 0 := by
  rcases lt_trichotomy x 0 with h | h | h
  · simp [sgn_of_neg h, h.ne]
  · subst h; simp [sgn_zero]
  · simp [sgn_of_pos h, h.ne']

/-- The model's `sgn` agrees with Mathlib's `SignType.sign`. -/
theorem sgn_eq_iff (a b : α) : sgn a = sgn b ↔ SignType.sign a = SignType.sign b := by
  rcases lt_trichotomy a 0 with ha | ha | ha <;> rcases lt_trichotomy b 0 with hb | hb | hb
  all_goals first
    | subst ha
    | skip
  all_goals first
    | subst hb
    | skip
  all_goals simp [sgn_of_neg, sgn_of_pos, sgn_zero, sign_neg, sign_pos, *]

/-- Bridging lemma: the sign-comparing mask of the code is the product test of the textbook
(over an ordered field; in binary64 the product can underflow, the signs cannot). -/
theorem sameSign_iff (dl dr : α) : sameSign dl dr = true ↔ 0 < dl * dr := by
  unfold sameSign
  rw [decide_eq_true_iff]
  rcases lt_trichotomy dl 0 with hl | hl | hl <;> rcases lt_trichotomy dr 0 with hr | hr | hr
  · simp [sgn_of_neg hl, sgn_of_neg hr, mul_pos_of_neg_of_neg hl hr]
  · subst hr; simp [sgn_of_neg hl, sgn_zero]
  · simp [sgn_of_neg hl, sgn_of_pos hr, not_lt.mpr (mul_neg_of_neg_of_pos hl hr).le]
  · subst hl; simp [sgn_zero]
  · subst hl; simp [sgn_zero]
  · subst hl; simp [sgn_zero]
  · simp [sgn_of_pos hl, sgn_of_neg hr, not_lt.mpr (mul_neg_of_pos_of_neg hl hr).le]
  · subst hr; simp [sgn_of_pos hl, sgn_zero]
  · simp [sgn_of_pos hl, sgn_of_pos hr, mul_pos hl hr]

theorem sameSignByProduct_eq (dl dr : α) : sameSignByProduct dl dr = sameSign dl dr := by
  rw [Bool.eq_iff_iff, sameSign_iff]; simp [sameSignByProduct]

theorem interiorAt_eq (dl dr hl hr : α) :
    interiorAt dl dr hl hr = if 0 < dl * dr then whm dl dr hl hr else 0 := by
  unfold interiorAt safeArg
  by_cases h : 0 < dl * dr
  · simp [(sameSign_iff dl dr).mpr h, h]
  · have : sameSign dl dr = false := by
      rw [← Bool.not_eq_true]; exact fun hh => h ((sameSign_iff dl dr).mp hh)
    simp [this, h]

theorem limitEndpoint_eq (d sl sr : α) :
    limitEndpoint d sl sr
      = if sgn d ≠ sgn sl then 0
        else if sgn sl ≠ sgn sr ∧ 3 * |sl| < |d| then 3 * sl else d := by
  unfold limitEndpoint zeroIfWrongSign capNeeded
  by_cases h1 : sgn d = sgn sl
  · by_cases h2 : sgn sl = sgn sr <;> simp [h1, h2, absv_eq_abs]
  · have hsl : ¬ (3 * |sl| < 0) := not_lt.mpr (by positivity)
    simp [h1, absv_eq_abs, hsl]

/-! ### Weighted harmonic mean -/

theorem whm_neg (dl dr hl hr : α) : whm (-dl) (-dr) hl hr = -whm dl dr hl hr := by
  unfold whm
  simp only [div_neg, ← neg_add]

theorem whm_pos_bounds {dl dr hl hr : α} (hl0 : 0 < hl) (hr0 : 0 < hr) (hdl : 0 < dl) (hdr : 0 < dr) :
    0 < whm dl dr hl hr ∧ whm dl dr hl hr ≤ 3 * dl ∧ whm dl dr hl hr ≤ 3 * dr := by
  unfold whm
  have hwl : 0 < hl + 2 * hr := by positivity
  have hwr : 0 < 2 * hl + hr := by positivity
  have hS : 0 < (hl + 2 * hr) / dl + (2 * hl + hr) / dr := by positivity
  refine ⟨by positivity, ?_, ?_⟩
  · rw [div_le_iff₀ hS]
    have e : 3 * dl * ((hl + 2 * hr) / dl + (2 * hl + hr) / dr)
        = 3 * (hl + 2 * hr) + 3 * dl * ((2 * hl + hr) / dr) := by
      field_simp
    rw [e]
    have : 0 ≤ 3 * dl * ((2 * hl + hr) / dr) := by positivity
    linarith
  · rw [div_le_iff₀ hS]
    have e : 3 * dr * ((hl + 2 * hr) / dl + (2 * hl + hr) / dr)
        = 3 * dr * ((hl + 2 * hr) / dl) + 3 * (2 * hl + hr) := by
      field_simp
    rw [e]
    have : 0 ≤ 3 * dr * ((hl + 2 * hr) / dl) := by positivity
    linarith

/-- "harmonic mean ≤ 3·min": the interior slope is admissible for both neighbours. -/
theorem whm_slopeOK {dl dr hl hr : α} (hl0 : 0 < hl) (hr0 : 0 < hr) (hm : 0 < dl * dr) :
    SlopeOK dl (whm dl dr hl hr) ∧ SlopeOK dr (whm dl dr hl hr) := by
  rcases mul_pos_iff.mp hm with ⟨a, b⟩ | ⟨a, b⟩
  · obtain ⟨p, q, r⟩ := whm_pos_bounds hl0 hr0 a b
    exact ⟨(slopeOK_pos a).mpr ⟨p.le, q⟩, (slopeOK_pos b).mpr ⟨p.le, r⟩⟩
  · obtain ⟨p, q, r⟩ := whm_pos_bounds hl0 hr0 (neg_pos.mpr a) (neg_pos.mpr b)
    rw [whm_neg] at p q r
    exact ⟨(slopeOK_negΔ a).mpr ⟨by linarith, by linarith⟩, (slopeOK_negΔ b).mpr ⟨by linarith, by linarith⟩⟩

theorem interiorAt_slopeOK {dl dr hl hr : α} (hl0 : 0 < hl) (hr0 : 0 < hr) :
    SlopeOK dl (interiorAt dl dr hl hr) ∧ SlopeOK dr (interiorAt dl dr hl hr) := by
  rw [interiorAt_eq]
  by_cases hm : 0 < dl * dr
  · simp only [hm, if_true]; exact whm_slopeOK hl0 hr0 hm
  · simp only [hm, if_false]; exact ⟨slopeOK_zero _, slopeOK_zero _⟩

/-! ### Limited end slope -/

/-- "the limiter caps at 3Δ": the end slope is admissible for the end interval. -/
theorem limit_slopeOK {sl sr hl hr : α} (hl0 : 0 < hl) (hr0 : 0 < hr) :
    SlopeOK sl (limitEndpoint (endpointSlope sl sr hl hr) sl sr) := by
  rw [limitEndpoint_eq]
  generalize hd : endpointSlope sl sr hl hr = d
  by_cases h1 : sgn d = sgn sl
  swap
  · simp only [ne_eq, h1, not_false_eq_true, if_true]; exact slopeOK_zero _
  simp only [ne_eq, h1, not_true_eq_false, if_false]
  by_cases h2 : ¬sgn sl = sgn sr ∧ 3 * |sl| < |d|
  · rw [if_pos h2]; exact slopeOK_three _
  rw [if_neg h2]
  have hsum : 0 < hl + hr := by positivity
  rcases lt_trichotomy sl 0 with hs | hs | hs
  · rw [sgn_of_neg hs] at h1 h2
    have hdneg : d < 0 := sgn_eq_neg_one.mp h1
    refine (slopeOK_negΔ hs).mpr ⟨?_, hdneg.le⟩
    by_cases h3 : 3 * |sl| < |d|
    · have hsr : sr < 0 := by
        have : (-1 : Int) = sgn sr := by
          by_contra hne; exact h2 ⟨hne, h3⟩
        exact sgn_eq_neg_one.mp this.symm
      rw [← hd]; unfold endpointSlope
      rw [le_div_iff₀ hsum]
      nlinarith [mul_pos hl0 (neg_pos.mpr hsr), mul_pos hl0 (neg_pos.mpr hs), mul_pos hr0 (neg_pos.mpr hs)]
    · rw [abs_of_neg hs, abs_of_neg hdneg] at h3
      linarith
  · subst hs
    rw [sgn_zero] at h1
    rw [sgn_eq_zero.mp h1]; exact slopeOK_zero _
  · rw [sgn_of_pos hs] at h1 h2
    have hdpos : 0 < d := sgn_eq_one.mp h1
    refine (slopeOK_pos hs).mpr ⟨hdpos.le, ?_⟩
    by_cases h3 : 3 * |sl| < |d|
    · have hsr : 0 < sr := by
        have : (1 : Int) = sgn sr := by
          by_contra hne; exact h2 ⟨hne, h3⟩
        exact sgn_eq_one.mp this.symm
      rw [← hd]; unfold endpointSlope
      rw [div_le_iff₀ hsum]
      nlinarith [mul_pos hl0 hsr, mul_pos hl0 hs, mul_pos hr0 hs]
    · rw [abs_of_pos hs, abs_of_pos hdpos] at h3
      linarith

end EmuVerif.Pchip
