/- Helper lemmas about `Model.Perm`: the gather, permutations of `0..n-1`, inverse, composition. -/
import EmuVerif.Model.Perm
import Mathlib.Data.List.Nodup
import Mathlib.Data.List.Perm.Subperm
import Mathlib.Data.List.Range

namespace EmuVerif.Perm

variable {β : Type}

/-- `p` is a permutation of `0..n-1`. -/
def IsPerm (n : Nat) (p : List Nat) : Prop := p.length = n ∧ (∀ i ∈ p, i < n) ∧ p.Nodup

/-! ### the gather -/

theorem gatherT_eq (xs : List β) (p : List Nat) : gatherT xs p = p.filterMap (fun i => xs[i]?) := by
  simp [gatherT]

theorem inRange_iff {n : Nat} {p : List Nat} : inRange n p = true ↔ ∀ i ∈ p, i < n := by
  simp [inRange]

theorem getElem?_filterMap_total {γ δ : Type} (f : γ → Option δ) :
    ∀ (p : List γ), (∀ i ∈ p, (f i).isSome) → ∀ k : Nat, (p.filterMap f)[k]? = p[k]?.bind f
  | [], _, k => by simp
  | i :: p, h, k => by
    obtain ⟨y, hy⟩ := Option.isSome_iff_exists.mp (h i (by simp))
    have ih := getElem?_filterMap_total f p (fun j hj => h j (by simp [hj]))
    rw [List.filterMap_cons_some hy]
    cases k with
    | zero => simp [hy]
    | succ k => simpa using ih k

theorem getElem?_gatherT {xs : List β} {p : List Nat} (h : ∀ i ∈ p, i < xs.length) (k : Nat) :
    (gatherT xs p)[k]? = p[k]?.bind (fun i => xs[i]?) := by
  rw [gatherT_eq]
  apply getElem?_filterMap_total
  intro i hi
  simp [h i hi]

theorem length_gatherT {xs : List β} {p : List Nat} (h : ∀ i ∈ p, i < xs.length) :
    (gatherT xs p).length = p.length := by
  rw [gatherT_eq]
  induction p with
  | nil => simp
  | cons i p ih =>
    have hi : i < xs.length := h i (by simp)
    rw [List.filterMap_cons_some (List.getElem?_eq_getElem hi)]
    simp [ih (fun j hj => h j (by simp [hj]))]

theorem mem_gatherT {xs : List β} {p : List Nat} {y : β} (hy : y ∈ gatherT xs p) :
    ∃ i ∈ p, xs[i]? = some y := by
  rw [gatherT_eq, List.mem_filterMap] at hy
  exact hy

/-- `permute_list` is the gather, and raises exactly when an index is out of range. -/
theorem permuteList_eq (xs : List β) (p : List Nat) :
    permuteList xs p = if inRange xs.length p then some (gatherT xs p) else none := by
  induction p with
  | nil => simp [permuteList, inRange, gatherT]
  | cons i p ih =>
    unfold permuteList
    by_cases hi : i < xs.length
    · rw [List.getElem?_eq_getElem hi, ih]
      by_cases hp : inRange xs.length p = true
      · have : inRange xs.length (i :: p) = true := by
          simp only [inRange, List.all_cons, decide_eq_true_eq, Bool.and_eq_true] at hp ⊢
          exact ⟨hi, hp⟩
        simp [hp, this, gatherT_eq, List.filterMap_cons_some (List.getElem?_eq_getElem hi)]
      · have : ¬ inRange xs.length (i :: p) = true := by
          simp only [inRange, List.all_cons, Bool.and_eq_true] at hp ⊢
          exact fun h => hp h.2
        simp [hp, this]
    · have h1 : xs[i]? = none := by simp; omega
      have : ¬ inRange xs.length (i :: p) = true := by
        simp only [inRange, List.all_cons, Bool.and_eq_true, decide_eq_true_eq]
        exact fun h => hi h.1
      simp [h1, this]

theorem gatherT_range (xs : List β) : gatherT xs (List.range xs.length) = xs := by
  apply List.ext_getElem?
  intro k
  rw [getElem?_gatherT (by simp)]
  by_cases hk : k < xs.length
  · simp [hk]
  · simp [hk]

/-- **Composition law**: `permute(permute(x, p), q) = permute(x, permute(p, q))`
(the index map is `k ↦ p[q[k]]`). -/
theorem gatherT_gatherT {xs : List β} {p q : List Nat} (hp : ∀ i ∈ p, i < xs.length)
    (hq : ∀ i ∈ q, i < p.length) :
    gatherT (gatherT xs p) q = gatherT xs (gatherT p q) := by
  apply List.ext_getElem?
  intro k
  have hpq : ∀ i ∈ gatherT p q, i < xs.length := by
    intro i hi
    obtain ⟨j, _, hj⟩ := mem_gatherT hi
    exact hp i (List.mem_of_getElem? hj)
  rw [getElem?_gatherT (by rw [length_gatherT hp]; exact hq), getElem?_gatherT hpq,
    getElem?_gatherT hq]
  cases hqk : q[k]? with
  | none => simp
  | some j => simp [getElem?_gatherT hp]

theorem gatherT_map {γ : Type} (f : β → γ) (xs : List β) (p : List Nat) :
    gatherT (xs.map f) p = (gatherT xs p).map f := by
  rw [gatherT_eq, gatherT_eq, List.map_filterMap]
  congr 1
  funext i
  simp

/-! ### permutations of `0..n-1` -/

theorem nodupB_iff {p : List Nat} : nodupB p = true ↔ p.Nodup := by
  induction p with
  | nil => simp [nodupB]
  | cons x xs ih => simp [nodupB, ih]

theorem isPermOf_iff {n : Nat} {p : List Nat} : isPermOf n p = true ↔ IsPerm n p := by
  simp [isPermOf, IsPerm, inRange_iff, nodupB_iff, and_assoc]

theorem isPerm_range (n : Nat) : IsPerm n (List.range n) :=
  ⟨by simp, by simp, List.nodup_range⟩

theorem IsPerm.perm_range {n : Nat} {p : List Nat} (h : IsPerm n p) : p.Perm (List.range n) := by
  have hsub : p ⊆ List.range n := fun i hi => List.mem_range.mpr (h.2.1 i hi)
  exact (List.subperm_of_subset h.2.2 hsub).perm_of_length_le (by simp [h.1])

theorem isPerm_iff_perm_range {n : Nat} {p : List Nat} : IsPerm n p ↔ p.Perm (List.range n) := by
  constructor
  · exact IsPerm.perm_range
  · intro h
    refine ⟨by simpa using h.length_eq, fun i hi => List.mem_range.mp (h.subset hi), ?_⟩
    exact h.symm.nodup List.nodup_range

/-- A permutation of `0..n-1` contains every index (surjectivity). -/
theorem IsPerm.mem {n : Nat} {p : List Nat} (h : IsPerm n p) {j : Nat} (hj : j < n) : j ∈ p :=
  h.perm_range.symm.subset (List.mem_range.mpr hj)

theorem IsPerm.lt {n : Nat} {p : List Nat} (h : IsPerm n p) : ∀ i ∈ p, i < n := h.2.1

/-- Composition of permutations is a permutation (`acc_permutation = permute_tensor(acc, opt)`). -/
theorem IsPerm.gatherT {n : Nat} {p q : List Nat} (hp : IsPerm n p) (hq : IsPerm n q) :
    IsPerm n (gatherT p q) := by
  have hq' : ∀ i ∈ q, i < p.length := by rw [hp.1]; exact hq.2.1
  refine ⟨by rw [length_gatherT hq', hq.1], ?_, ?_⟩
  · intro i hi
    obtain ⟨j, _, hj⟩ := mem_gatherT hi
    exact hp.2.1 i (List.mem_of_getElem? hj)
  · rw [gatherT_eq]
    apply List.Nodup.filterMap _ hq.2.2
    intro a a' b hb hb'
    have ha : p[a]? = some b := hb
    have ha' : p[a']? = some b := hb'
    obtain ⟨h1, e1⟩ := List.getElem?_eq_some_iff.mp ha
    obtain ⟨h2, e2⟩ := List.getElem?_eq_some_iff.mp ha'
    exact (hp.2.2.getElem_inj_iff).mp (e1.trans e2.symm)

/-! ### `inv_permutation` -/

theorem length_invPermT (p : List Nat) : (invPermT p).length = p.length := by simp [invPermT]

theorem getElem?_invPermT (p : List Nat) {j : Nat} (hj : j < p.length) :
    (invPermT p)[j]? = some (p.idxOf j) := by
  simp [invPermT, hj]

theorem IsPerm.inv {n : Nat} {p : List Nat} (h : IsPerm n p) : IsPerm n (invPermT p) := by
  refine ⟨by rw [length_invPermT, h.1], ?_, ?_⟩
  · intro i hi
    simp only [invPermT, List.mem_map, List.mem_range] at hi
    obtain ⟨j, hj, rfl⟩ := hi
    rw [← h.1]
    exact List.idxOf_lt_length_of_mem (h.mem (h.1 ▸ hj))
  · unfold invPermT
    apply List.Nodup.map_on _ List.nodup_range
    intro x hx y _ hxy
    exact (List.idxOf_inj (h.mem (h.1 ▸ List.mem_range.mp hx))).mp hxy

/-- `perm[inv_permutation(perm)] = arange(n)`. -/
theorem gatherT_inv_right {n : Nat} {p : List Nat} (h : IsPerm n p) :
    gatherT p (invPermT p) = List.range n := by
  apply List.ext_getElem?
  intro k
  rw [getElem?_gatherT (by rw [h.1]; exact h.inv.2.1)]
  by_cases hk : k < n
  · have hm : k ∈ p := h.mem hk
    rw [getElem?_invPermT p (h.1 ▸ hk)]
    simp [hk, hm]
  · have : (invPermT p)[k]? = none := by
      rw [List.getElem?_eq_none_iff, length_invPermT, h.1]; omega
    simp [this, hk]

/-- `inv_permutation(perm)[perm] = arange(n)`. -/
theorem gatherT_inv_left {n : Nat} {p : List Nat} (h : IsPerm n p) :
    gatherT (invPermT p) p = List.range n := by
  apply List.ext_getElem?
  intro k
  rw [getElem?_gatherT (by rw [length_invPermT, h.1]; exact h.2.1)]
  by_cases hk : k < n
  · have hk' : k < p.length := h.1 ▸ hk
    have hlt : p[k] < p.length := by rw [h.1]; exact h.2.1 _ (List.getElem_mem hk')
    rw [List.getElem?_eq_getElem hk']
    simp only [Option.bind_some]
    rw [getElem?_invPermT p hlt, h.2.2.idxOf_getElem k hk']
    simp [hk]
  · have : p[k]? = none := by rw [List.getElem?_eq_none_iff, h.1]; omega
    simp [this, hk]

/-- Un-permuting with the inverse returns the original sequence. -/
theorem gatherT_gatherT_inv {n : Nat} {p : List Nat} (h : IsPerm n p) {xs : List β}
    (hx : xs.length = n) : gatherT (gatherT xs p) (invPermT p) = xs := by
  rw [gatherT_gatherT (by rw [hx]; exact h.2.1) (by rw [h.1]; exact h.inv.2.1),
    gatherT_inv_right h, ← hx, gatherT_range]

theorem gatherT_inv_gatherT {n : Nat} {p : List Nat} (h : IsPerm n p) {xs : List β}
    (hx : xs.length = n) : gatherT (gatherT xs (invPermT p)) p = xs := by
  rw [gatherT_gatherT (by rw [hx]; exact h.inv.2.1) (by rw [length_invPermT, h.1]; exact h.2.1),
    gatherT_inv_left h, ← hx, gatherT_range]

/-- `arange(n)[perm] = perm`. -/
theorem gatherT_range_left {n : Nat} {p : List Nat} (h : ∀ i ∈ p, i < n) :
    gatherT (List.range n) p = p := by
  apply List.ext_getElem?
  intro k
  rw [getElem?_gatherT (by simpa using h)]
  cases hk : p[k]? with
  | none => simp
  | some i => simp [h i (List.mem_of_getElem? hk)]

/-- The inverse of the inverse is the permutation itself. -/
theorem invPermT_invPermT {n : Nat} {p : List Nat} (h : IsPerm n p) :
    invPermT (invPermT p) = p := by
  have h3 : gatherT (gatherT (invPermT (invPermT p)) (invPermT p)) p = invPermT (invPermT p) :=
    gatherT_inv_gatherT h (xs := invPermT (invPermT p)) h.inv.inv.1
  rw [gatherT_inv_left h.inv, gatherT_range_left h.2.1] at h3
  exact h3.symm

/-! ### square matrices -/

/-- `m` is an `n × n` matrix. -/
def IsSquareN (n : Nat) (m : List (List β)) : Prop := m.length = n ∧ ∀ row ∈ m, row.length = n

theorem isSquare_iff {m : List (List β)} : isSquare m = true ↔ IsSquareN m.length m := by
  simp [isSquare, IsSquareN]

theorem IsSquareN.permuteMatT {n : Nat} {m : List (List β)} {p : List Nat} (hm : IsSquareN n m)
    (hp : ∀ i ∈ p, i < n) (hl : p.length = n) : IsSquareN n (permuteMatT m p) := by
  have hp' : ∀ i ∈ p, i < m.length := by rw [hm.1]; exact hp
  refine ⟨by simp [Perm.permuteMatT, length_gatherT hp', hl], ?_⟩
  intro row hrow
  simp only [Perm.permuteMatT, List.mem_map] at hrow
  obtain ⟨r, hr, rfl⟩ := hrow
  obtain ⟨i, _, hi⟩ := mem_gatherT hr
  have : r.length = n := hm.2 r (List.mem_of_getElem? hi)
  rw [length_gatherT (by rw [this]; exact hp), hl]

/-- Composition law on matrices: `permute(permute(M, p), q) = permute(M, permute(p, q))`. -/
theorem permuteMatT_permuteMatT {n : Nat} {m : List (List β)} {p q : List Nat}
    (hm : IsSquareN n m) (hp : ∀ i ∈ p, i < n) (hq : ∀ i ∈ q, i < p.length) :
    permuteMatT (permuteMatT m p) q = permuteMatT m (gatherT p q) := by
  have hp' : ∀ i ∈ p, i < m.length := by rw [hm.1]; exact hp
  unfold Perm.permuteMatT
  rw [gatherT_map, List.map_map, gatherT_gatherT hp' hq]
  apply List.map_congr_left
  intro row hrow
  obtain ⟨i, _, hi⟩ := mem_gatherT hrow
  have : row.length = n := hm.2 row (List.mem_of_getElem? hi)
  exact gatherT_gatherT (by rw [this]; exact hp) hq

theorem permuteMatT_range {n : Nat} {m : List (List β)} (hm : IsSquareN n m) :
    permuteMatT m (List.range n) = m := by
  unfold Perm.permuteMatT
  have : gatherT m (List.range n) = m := by rw [← hm.1, gatherT_range]
  rw [this]
  conv_rhs => rw [← List.map_id m]
  apply List.map_congr_left
  intro row hrow
  rw [← hm.2 row hrow, gatherT_range]; rfl

/-- Un-permuting a matrix with the inverse returns the original matrix. -/
theorem permuteMatT_inv {n : Nat} {m : List (List β)} {p : List Nat} (hm : IsSquareN n m)
    (h : IsPerm n p) : permuteMatT (permuteMatT m p) (invPermT p) = m := by
  rw [permuteMatT_permuteMatT hm h.2.1 (by rw [h.1]; exact h.inv.2.1), gatherT_inv_right h,
    permuteMatT_range hm]

/-- Entry formula: `permute(M, p)[a][b] = M[p[a]][p[b]]`. -/
theorem getElem?_permuteMatT {n : Nat} {m : List (List β)} {p : List Nat} (hm : IsSquareN n m)
    (hp : ∀ i ∈ p, i < n) (a b : Nat) :
    (permuteMatT m p)[a]?.bind (fun row => row[b]?) =
      p[a]?.bind (fun i => p[b]?.bind (fun j => m[i]?.bind (fun row => row[j]?))) := by
  have hp' : ∀ i ∈ p, i < m.length := by rw [hm.1]; exact hp
  unfold Perm.permuteMatT
  rw [List.getElem?_map, getElem?_gatherT hp']
  cases ha : p[a]? with
  | none => simp
  | some i =>
    have hi : i < m.length := hp' i (List.mem_of_getElem? ha)
    have hr : (m[i]).length = n := hm.2 _ (List.getElem_mem hi)
    simp only [Option.bind_some, List.getElem?_eq_getElem hi, Option.map_some]
    rw [getElem?_gatherT (by rw [hr]; exact hp)]

/-! ### `permute_results` -/

theorem allSome_map {γ δ : Type} (f : γ → Option δ) (g : γ → δ) :
    ∀ (l : List γ), (∀ x ∈ l, f x = some (g x)) → allSome (l.map f) = some (l.map g)
  | [], _ => rfl
  | x :: l, h => by
    have ih := allSome_map f g l (fun y hy => h y (by simp [hy]))
    simp [allSome, h x (by simp), ih]

theorem dictInsert_fresh {κ ν : Type} [DecidableEq κ] :
    ∀ (d : List (κ × ν)) (k : κ) (v : ν), k ∉ d.map Prod.fst → dictInsert d k v = d ++ [(k, v)]
  | [], _, _, _ => rfl
  | (k', v') :: r, k, v, h => by
    have hne : k' ≠ k := fun e => h (by simp [e])
    have ih := dictInsert_fresh r k v (fun hm => h (by simp [hm]))
    simp [dictInsert, hne, ih]

/-- A dict comprehension over pairwise distinct keys keeps every pair, in order. -/
theorem dictOfPairs_nodup {κ ν : Type} [DecidableEq κ] (l : List (κ × ν))
    (h : (l.map Prod.fst).Nodup) : dictOfPairs l = l := by
  have gen : ∀ (l d : List (κ × ν)), ((d ++ l).map Prod.fst).Nodup →
      l.foldl (fun d kv => dictInsert d kv.1 kv.2) d = d ++ l := by
    intro l
    induction l with
    | nil => intro d _; simp
    | cons kv l ih =>
      intro d hd
      have hfresh : kv.1 ∉ d.map Prod.fst := by
        intro hm
        rw [List.map_append, List.nodup_append] at hd
        exact hd.2.2 _ hm _ (by simp) rfl
      rw [List.foldl_cons, dictInsert_fresh d kv.1 kv.2 hfresh, ih _ (by simpa using hd)]
      simp
  simpa [dictOfPairs] using gen l [] (by simpa using h)

/-- The gather by a permutation is injective on sequences of length `n`. -/
theorem gatherT_injective {n : Nat} {p : List Nat} (h : IsPerm n p) {xs ys : List β}
    (hx : xs.length = n) (hy : ys.length = n) (e : gatherT xs p = gatherT ys p) : xs = ys := by
  rw [← gatherT_gatherT_inv h hx, ← gatherT_gatherT_inv h hy, e]

end EmuVerif.Perm
