/-
  Helper lemmas for `Props/C03Ideal.lean`: the site-permutation matrix `P_σ` on the configuration space
  `Fin N → Fin d` and what conjugation by it does to the Kronecker site embeddings and the dense Hamiltonian of C05.

  Conventions (fixed against `Model/Perm.lean`: a list permuted by `p` is `k ↦ x[p[k]]`, "site `k` holds atom `p[k]`"):
    * `cfgPerm σ t = t ∘ σ⁻¹` on configurations; `siteP σ` is its permutation matrix, so
      `(siteP σ *ᵥ ψ) t = ψ (t ∘ σ⁻¹)` and `siteP σ *ᵥ e_s = e_{s ∘ σ}`: the basis string `s` (one symbol per atom, register
      order) becomes `k ↦ s (σ k)` = `permute_string(s, p)`.
    * `siteP σ * siteEmb (σ k) a * (siteP σ)ᵀ = siteEmb k a`: the operator of atom `σ k` becomes the operator of site `k`.
    * `siteP σ * HFin h U * (siteP σ)ᵀ = HFin (h ∘ σ) (U ∘ (σ × σ))`.
  Everything here is over an arbitrary commutative ring (no analysis).
-/
import EmuVerif.Props.C05
import EmuVerif.Proofs.Perm
import Mathlib.LinearAlgebra.Matrix.Permutation
import Mathlib.LinearAlgebra.Matrix.Reindex

set_option linter.unusedSectionVars false
set_option linter.unusedVariables false

namespace EmuVerif.PermEquiv
open EmuVerif EmuVerif.HamMPO EmuVerif.Props.C05 Matrix Finset

/-- basis strings: one level per atom -/
abbrev Cfg (N d : ℕ) := Fin N → Fin d

variable {N d : ℕ}

/-! ### the permutation of configurations and its matrix -/

/-- `t ↦ t ∘ σ⁻¹`; its inverse is `s ↦ s ∘ σ` (the gather `k ↦ s (σ k)` of `permute_string`). -/
def cfgPerm (σ : Equiv.Perm (Fin N)) : Equiv.Perm (Cfg N d) := Equiv.arrowCongr σ (Equiv.refl (Fin d))

@[simp] theorem cfgPerm_apply (σ : Equiv.Perm (Fin N)) (t : Cfg N d) (k : Fin N) :
    cfgPerm σ t k = t (σ.symm k) := rfl

@[simp] theorem cfgPerm_symm_apply (σ : Equiv.Perm (Fin N)) (s : Cfg N d) (k : Fin N) :
    (cfgPerm σ).symm s k = s (σ k) := rfl

theorem cfgPerm_comp (σ : Equiv.Perm (Fin N)) (s : Cfg N d) : cfgPerm σ (s ∘ σ) = s := by
  funext k; simp

section ring
variable {α : Type} [CommRing α]

/-- **the site-permutation matrix** `P_σ` -/
def siteP (σ : Equiv.Perm (Fin N)) : Matrix (Cfg N d) (Cfg N d) α := (cfgPerm σ).permMatrix α

theorem siteP_apply (σ : Equiv.Perm (Fin N)) (t s : Cfg N d) :
    (siteP σ : Matrix _ _ α) t s = if t = s ∘ σ then 1 else 0 := by
  unfold siteP Equiv.Perm.permMatrix
  rw [PEquiv.toMatrix_apply]
  simp only [Equiv.toPEquiv_apply, Option.mem_def, Option.some.injEq]
  have : cfgPerm σ t = s ↔ t = s ∘ σ := by
    constructor
    · intro h; subst h; funext k; simp
    · intro h; subst h; exact cfgPerm_comp σ s
  simp only [this]

/-- `(P_σ ψ)(t) = ψ(t ∘ σ⁻¹)` -/
theorem siteP_mulVec (σ : Equiv.Perm (Fin N)) (ψ : Cfg N d → α) :
    siteP σ *ᵥ ψ = fun t => ψ (cfgPerm σ t) := by
  unfold siteP
  rw [Matrix.permMatrix_mulVec]
  rfl

/-- `(P_σ ψ)(s ∘ σ) = ψ(s)`: the weight of the basis string `s` moves to the relabelled string `k ↦ s (σ k)`, no phase. -/
theorem siteP_mulVec_comp (σ : Equiv.Perm (Fin N)) (ψ : Cfg N d → α) (s : Cfg N d) :
    (siteP σ *ᵥ ψ) (s ∘ σ) = ψ s := by
  rw [siteP_mulVec]
  show ψ (cfgPerm σ (s ∘ σ)) = ψ s
  rw [cfgPerm_comp]

/-- `P_σ e_s = e_{s ∘ σ}` -/
theorem siteP_basis (σ : Equiv.Perm (Fin N)) (s : Cfg N d) :
    siteP σ *ᵥ (Pi.single s (1 : α)) = Pi.single (s ∘ σ) 1 := by
  rw [siteP_mulVec]
  funext t
  by_cases h : t = s ∘ σ
  · subst h; simp [cfgPerm_comp]
  · rw [Pi.single_apply, Pi.single_apply, if_neg h, if_neg]
    intro h'
    apply h
    rw [← h']
    funext k; simp

theorem siteP_transpose (σ : Equiv.Perm (Fin N)) :
    (siteP σ : Matrix (Cfg N d) (Cfg N d) α)ᵀ = ((cfgPerm σ)⁻¹).permMatrix α := by
  unfold siteP
  rw [Matrix.transpose_permMatrix]

/-- inverse = transpose -/
theorem siteP_mul_transpose (σ : Equiv.Perm (Fin N)) :
    (siteP σ : Matrix (Cfg N d) (Cfg N d) α) * (siteP σ)ᵀ = 1 := by
  rw [siteP_transpose]
  unfold siteP
  rw [← Matrix.permMatrix_mul, inv_mul_cancel, Matrix.permMatrix_one]

theorem siteP_transpose_mul (σ : Equiv.Perm (Fin N)) :
    (siteP σ : Matrix (Cfg N d) (Cfg N d) α)ᵀ * siteP σ = 1 := by
  rw [siteP_transpose]
  unfold siteP
  rw [← Matrix.permMatrix_mul, mul_inv_cancel, Matrix.permMatrix_one]

theorem siteP_isUnit (σ : Equiv.Perm (Fin N)) : IsUnit (siteP σ : Matrix (Cfg N d) (Cfg N d) α) :=
  ⟨⟨siteP σ, (siteP σ)ᵀ, siteP_mul_transpose σ, siteP_transpose_mul σ⟩, rfl⟩

theorem siteP_inv (σ : Equiv.Perm (Fin N)) : (siteP σ : Matrix (Cfg N d) (Cfg N d) α)⁻¹ = (siteP σ)ᵀ :=
  Matrix.inv_eq_right_inv (siteP_mul_transpose σ)

/-- `σ ↦ P_σ` is a group anti-homomorphism… -/
theorem siteP_one : (siteP (1 : Equiv.Perm (Fin N)) : Matrix (Cfg N d) (Cfg N d) α) = 1 := by
  ext t s
  rw [siteP_apply, Matrix.one_apply]
  rfl

/-- conjugation by `P_σ` re-indexes rows and columns: `(P M Pᵀ)(t, t') = M(t ∘ σ⁻¹, t' ∘ σ⁻¹)` -/
theorem siteP_conj (σ : Equiv.Perm (Fin N)) (M : Matrix (Cfg N d) (Cfg N d) α) :
    siteP σ * M * (siteP σ)ᵀ = M.submatrix (cfgPerm σ) (cfgPerm σ) := by
  rw [siteP_transpose]
  unfold siteP Equiv.Perm.permMatrix
  rw [PEquiv.toMatrix_toPEquiv_mul, PEquiv.mul_toMatrix_toPEquiv]
  ext t t'
  simp [Equiv.Perm.inv_def]

/-- conjugation by `P_σ` as an algebra automorphism of the `d^N × d^N` matrices -/
def conjA (σ : Equiv.Perm (Fin N)) : Matrix (Cfg N d) (Cfg N d) α ≃ₐ[α] Matrix (Cfg N d) (Cfg N d) α :=
  Matrix.reindexAlgEquiv α α (cfgPerm σ).symm

theorem conjA_apply (σ : Equiv.Perm (Fin N)) (M : Matrix (Cfg N d) (Cfg N d) α) :
    conjA σ M = siteP σ * M * (siteP σ)ᵀ := by
  rw [siteP_conj]
  rfl

/-! ### site embeddings -/

/-- **`P_σ · (1 ⊗ … a at atom σ k … ⊗ 1) · P_σᵀ = 1 ⊗ … a at site k … ⊗ 1`** -/
theorem siteEmb_conj (σ : Equiv.Perm (Fin N)) (k : Fin N) (a : Matrix (Fin d) (Fin d) α) :
    siteP σ * siteEmb N d (σ k) a * (siteP σ)ᵀ = siteEmb N d k a := by
  rw [siteP_conj]
  ext t t'
  simp only [siteEmb, LinearMap.coe_mk, AddHom.coe_mk, submatrix_apply, of_apply, cfgPerm_apply,
    Equiv.symm_apply_apply]
  have : (∀ m, m ≠ σ k → t (σ.symm m) = t' (σ.symm m)) ↔ (∀ m, m ≠ k → t m = t' m) := by
    constructor
    · intro h m hm
      have := h (σ m) (fun e => hm (σ.injective e))
      simpa using this
    · intro h m hm
      exact h (σ.symm m) (fun e => hm (by rw [← e]; simp))
  simp only [this]

theorem conjA_siteEmb (σ : Equiv.Perm (Fin N)) (k : Fin N) (a : Matrix (Fin d) (Fin d) α) :
    conjA σ (siteEmb N d (σ k) a) = siteEmb N d k a := by
  rw [conjA_apply, siteEmb_conj]

/-- the same, written with the inverse: atom `k` sits on site `σ⁻¹ k` -/
theorem siteEmb_conj_symm (σ : Equiv.Perm (Fin N)) (k : Fin N) (a : Matrix (Fin d) (Fin d) α) :
    siteP σ * siteEmb N d k a * (siteP σ)ᵀ = siteEmb N d (σ.symm k) a := by
  have := siteEmb_conj (α := α) (d := d) σ (σ.symm k) a
  rwa [Equiv.apply_symm_apply] at this

/-- entries of a product of operators on two different sites -/
theorem siteEmb_mul_apply_of_ne {i j : Fin N} (hij : i ≠ j) (a b : Matrix (Fin d) (Fin d) α) (s t : Cfg N d) :
    (siteEmb N d i a * siteEmb N d j b) s t
      = if (∀ m, m ≠ i → m ≠ j → s m = t m) then a (s i) (t i) * b (s j) (t j) else 0 := by
  rw [Matrix.mul_apply]
  simp only [siteEmb, LinearMap.coe_mk, AddHom.coe_mk, of_apply]
  rw [Finset.sum_eq_single (Function.update s i (t i))]
  · by_cases h : ∀ m, m ≠ i → m ≠ j → s m = t m
    · have h1 : ∀ m, m ≠ i → s m = Function.update s i (t i) m := fun m hm => by
        rw [Function.update_of_ne hm]
      have h2 : ∀ m, m ≠ j → Function.update s i (t i) m = t m := fun m hm => by
        by_cases hmi : m = i
        · subst hmi; simp
        · rw [Function.update_of_ne hmi]; exact h m hmi hm
      rw [if_pos h1, if_pos h2, if_pos h]
      simp [Function.update_of_ne hij.symm]
    · rw [if_neg h]
      by_cases h2 : ∀ m, m ≠ j → Function.update s i (t i) m = t m
      · exfalso
        apply h
        intro m hmi hmj
        have := h2 m hmj
        rwa [Function.update_of_ne hmi] at this
      · rw [if_neg h2, mul_zero]
  · intro r _ hr
    by_cases h1 : ∀ m, m ≠ i → s m = r m
    · by_cases h2 : ∀ m, m ≠ j → r m = t m
      · exfalso
        apply hr
        funext m
        by_cases hmi : m = i
        · subst hmi; simp [h2 m hij]
        · rw [Function.update_of_ne hmi, h1 m hmi]
      · rw [if_neg h2, mul_zero]
    · rw [if_neg h1, zero_mul]
  · intro h; exact absurd (Finset.mem_univ _) h

/-- **operators on different sites commute** -/
theorem siteEmb_commute {i j : Fin N} (hij : i ≠ j) (a b : Matrix (Fin d) (Fin d) α) :
    siteEmb N d i a * siteEmb N d j b = siteEmb N d j b * siteEmb N d i a := by
  ext s t
  rw [siteEmb_mul_apply_of_ne hij, siteEmb_mul_apply_of_ne hij.symm]
  have : (∀ m, m ≠ i → m ≠ j → s m = t m) ↔ (∀ m, m ≠ j → m ≠ i → s m = t m) :=
    ⟨fun h m a b => h m b a, fun h m a b => h m b a⟩
  simp only [this, mul_comm]

end ring

/-! ### sums over pairs `i < j` of a symmetric function are invariant under relabelling -/

theorem sum_lt_perm {M : Type} [AddCommMonoid M] (σ : Equiv.Perm (Fin N)) (T : Fin N → Fin N → M)
    (hT : ∀ i j, T i j = T j i) :
    (∑ j, ∑ i, if i < j then T (σ i) (σ j) else 0) = ∑ j, ∑ i, if i < j then T i j else 0 := by
  have key : ∀ F : Fin N → Fin N → M,
      (∑ j, ∑ i, if i < j then F i j else 0)
        = ∑ q ∈ (Finset.univ : Finset (Fin N × Fin N)).filter (fun q => q.1 < q.2), F q.1 q.2 := by
    intro F
    rw [Finset.sum_comm, Finset.sum_filter, ← Finset.univ_product_univ, Finset.sum_product]
  rw [key, key]
  refine Finset.sum_nbij'
    (fun q => if σ q.1 < σ q.2 then (σ q.1, σ q.2) else (σ q.2, σ q.1))
    (fun q => if σ.symm q.1 < σ.symm q.2 then (σ.symm q.1, σ.symm q.2) else (σ.symm q.2, σ.symm q.1))
    ?_ ?_ ?_ ?_ ?_
  · intro q hq
    simp only [Finset.mem_filter, Finset.mem_univ, true_and] at hq ⊢
    split_ifs with h
    · exact h
    · exact lt_of_le_of_ne (not_lt.mp h) (fun e => (ne_of_lt hq) (σ.injective e.symm))
  · intro q hq
    simp only [Finset.mem_filter, Finset.mem_univ, true_and] at hq ⊢
    split_ifs with h
    · exact h
    · exact lt_of_le_of_ne (not_lt.mp h) (fun e => (ne_of_lt hq) (σ.symm.injective e.symm))
  · intro q hq
    simp only [Finset.mem_filter, Finset.mem_univ, true_and] at hq
    by_cases h : σ q.1 < σ q.2
    · simp [h, hq]
    · simp [h, not_lt.mpr (le_of_lt hq)]
  · intro q hq
    simp only [Finset.mem_filter, Finset.mem_univ, true_and] at hq
    by_cases h : σ.symm q.1 < σ.symm q.2
    · simp [h, hq]
    · simp [h, not_lt.mpr (le_of_lt hq)]
  · intro q hq
    by_cases h : σ q.1 < σ q.2
    · simp [h]
    · simp only [h, if_false]
      exact hT _ _

/-! ### the dense Hamiltonian of C05, indexed by `Fin N`, and its conjugate -/
section ham
variable {α : Type} [CommRing α] [DecidableEq α]

/-- `Σ_m emb_m (h m) + Σ_{i<j} Σ_{k<K} (c · U i j) • (emb_i (op k) · emb_j (op k))` with the Kronecker site embeddings
(Rydberg: `K = 1`, `c = 1`, `op = n̂`; XY: `K = 2`, `c = 2`, `op = σˣ, σʸ`) — `C05.Hdense` with `Fin N` indices. -/
def HFin (N d K : ℕ) (c : α) (op : ℕ → Matrix (Fin d) (Fin d) α) (h : Fin N → Matrix (Fin d) (Fin d) α)
    (U : Fin N → Fin N → α) : Matrix (Cfg N d) (Cfg N d) α :=
  ∑ m, siteEmb N d m (h m)
    + ∑ j, ∑ i, if i < j then ∑ k ∈ range K, (c * U i j) • (siteEmb N d i (op k) * siteEmb N d j (op k)) else 0

theorem kronEmb_fin (hN : 0 < N) (m : Fin N) : kronEmb (α := α) N d hN m.val = siteEmb N d m := by
  unfold kronEmb
  congr 1
  exact Fin.ext (Nat.mod_eq_of_lt m.2)

/-- `HFin` is the dense Hamiltonian `C05.Hdense` of the matrix instantiation (`kronEmb`) -/
theorem Hdense_kronEmb_eq_HFin (P : Params α (Matrix (Fin d) (Fin d) α)) (hN : 0 < P.N) :
    Hdense P (kronEmb P.N d hN) = HFin P.N d P.K P.c P.op (fun m => P.h m) (fun i j => P.U i j) := by
  unfold Hdense HFin
  congr 1
  · rw [Finset.sum_range]
    exact Finset.sum_congr rfl (fun m _ => by rw [kronEmb_fin])
  · rw [Finset.sum_range]
    refine Finset.sum_congr rfl (fun j _ => ?_)
    have hf : (Finset.range P.N).filter (fun i => i < j.val) = Finset.range j.val := by
      ext i
      simp only [Finset.mem_filter, Finset.mem_range]
      constructor
      · exact fun h => h.2
      · exact fun h => ⟨lt_trans h j.2, h⟩
    rw [← hf, Finset.sum_filter]
    refine (Fin.sum_univ_eq_sum_range (fun i : ℕ => if i < j.val then
      ∑ k ∈ range P.K, (P.c * P.U i j) • (kronEmb P.N d hN i (P.op k) * kronEmb P.N d hN j (P.op k)) else 0)
      P.N).symm.trans ?_
    refine Finset.sum_congr rfl (fun i _ => ?_)
    simp only [Fin.lt_def, kronEmb_fin]

/-- **`P_σ H(h, U) P_σᵀ = H(h ∘ σ, U ∘ (σ × σ))`**: conjugating the dense Hamiltonian by the site-permutation matrix gives
the Hamiltonian of the relabelled problem (site `k` carries the single-site term and the couplings of atom `σ k`). `U` symmetric. -/
theorem HFin_conj (σ : Equiv.Perm (Fin N)) (K : ℕ) (c : α) (op : ℕ → Matrix (Fin d) (Fin d) α)
    (h : Fin N → Matrix (Fin d) (Fin d) α) (U : Fin N → Fin N → α) (hU : ∀ i j, U i j = U j i) :
    siteP σ * HFin N d K c op h U * (siteP σ)ᵀ
      = HFin N d K c op (fun m => h (σ m)) (fun i j => U (σ i) (σ j)) := by
  rw [← conjA_apply]
  unfold HFin
  rw [map_add, map_sum]
  congr 1
  · rw [← Equiv.sum_comp σ]
    exact Finset.sum_congr rfl (fun k _ => by rw [conjA_siteEmb])
  · set T : Fin N → Fin N → Matrix (Cfg N d) (Cfg N d) α :=
      fun i j => ∑ k ∈ range K, (c * U i j) • (siteEmb N d i (op k) * siteEmb N d j (op k)) with hTdef
    have hT : ∀ i j, T i j = T j i := by
      intro i j
      by_cases hij : i = j
      · subst hij; rfl
      · simp only [hTdef]
        exact Finset.sum_congr rfl (fun k _ => by rw [hU i j, siteEmb_commute hij])
    have hpush : conjA σ (∑ j, ∑ i, if i < j then T i j else 0)
        = ∑ j, ∑ i, if i < j then conjA σ (T i j) else 0 := by
      rw [map_sum]
      refine Finset.sum_congr rfl (fun j _ => ?_)
      rw [map_sum]
      refine Finset.sum_congr rfl (fun i _ => ?_)
      split_ifs
      · rfl
      · exact map_zero _
    rw [hpush, ← sum_lt_perm σ (fun i j => conjA σ (T i j)) (fun i j => by rw [hT])]
    refine Finset.sum_congr rfl (fun j _ => Finset.sum_congr rfl (fun i _ => ?_))
    split_ifs
    · simp only [hTdef, map_sum, map_smul, map_mul, conjA_siteEmb]
    · rfl

end ham

/-! ### index lists as permutations of `Fin N`; the gather on `List.ofFn` -/
section lists
open EmuVerif.Perm
variable {β : Type}

/-- the permutation of `Fin N` listed by `p`: `σ k = p[k]` (site `k` holds atom `p[k]`) -/
noncomputable def permOf {N : ℕ} {p : List ℕ} (h : IsPerm N p) : Equiv.Perm (Fin N) :=
  Equiv.ofBijective (fun k => ⟨p[k.1]'(by rw [h.1]; exact k.2), h.2.1 _ (List.getElem_mem _)⟩) (by
    apply Finite.injective_iff_bijective.mp
    intro a b hab
    have hab' := congrArg Fin.val hab
    simp only at hab'
    exact Fin.ext ((h.2.2.getElem_inj_iff).mp hab'))

theorem getElemOpt_permOf {N : ℕ} {p : List ℕ} (h : IsPerm N p) (k : Fin N) :
    p[k.val]? = some (permOf h k).val := by
  have hk : k.val < p.length := by rw [h.1]; exact k.2
  rw [List.getElem?_eq_getElem hk]
  rfl

theorem getElemOpt_gatherT_fin {N : ℕ} {p : List ℕ} (h : IsPerm N p) {xs : List β} (hx : N ≤ xs.length)
    (k : Fin N) : (gatherT xs p)[k.val]? = xs[(permOf h k).val]? := by
  rw [getElem?_gatherT (fun i hi => lt_of_lt_of_le (h.2.1 i hi) hx), getElemOpt_permOf h k]
  rfl

theorem getD_gatherT {N : ℕ} {p : List ℕ} (h : IsPerm N p) {xs : List β} (hx : N ≤ xs.length)
    (k : Fin N) (dflt : β) : (gatherT xs p).getD k.val dflt = xs.getD (permOf h k).val dflt := by
  rw [List.getD_eq_getElem?_getD, List.getD_eq_getElem?_getD, getElemOpt_gatherT_fin h hx]

theorem length_gatherT_of_le {N : ℕ} {p : List ℕ} (h : IsPerm N p) {xs : List β} (hx : N ≤ xs.length) :
    (gatherT xs p).length = N := by
  rw [length_gatherT (fun i hi => lt_of_lt_of_le (h.2.1 i hi) hx), h.1]

theorem length_filterMap_lt {γ δ : Type} (f : γ → Option δ) :
    ∀ (l : List γ), (∃ a ∈ l, f a = none) → (l.filterMap f).length < l.length
  | [], h => by obtain ⟨a, ha, _⟩ := h; simp at ha
  | a :: l, h => by
    cases hfa : f a with
    | none =>
      rw [List.filterMap_cons_none hfa]
      exact Nat.lt_succ_of_le (List.length_filterMap_le f l)
    | some b =>
      rw [List.filterMap_cons_some hfa]
      obtain ⟨x, hx, hfx⟩ := h
      rcases List.mem_cons.mp hx with e | hx'
      · subst e; rw [hfa] at hfx; exact absurd hfx (by simp)
      · simp only [List.length_cons]
        exact Nat.succ_lt_succ (length_filterMap_lt f l ⟨x, hx', hfx⟩)

theorem length_gatherT_lt {N : ℕ} {p : List ℕ} (h : IsPerm N p) {xs : List β} (hx : xs.length < N) :
    (gatherT xs p).length < N := by
  rw [gatherT_eq]
  have := length_filterMap_lt (fun i => xs[i]?) p ⟨xs.length, h.mem hx, by simp⟩
  rwa [h.1] at this

/-- a list has an entry for every atom iff its gather has one for every site -/
theorem le_length_gatherT_iff {N : ℕ} {p : List ℕ} (h : IsPerm N p) {xs : List β} :
    N ≤ (gatherT xs p).length ↔ N ≤ xs.length := by
  constructor
  · intro hle
    by_contra hcon
    exact absurd hle (not_le.mpr (length_gatherT_lt h (not_le.mp hcon)))
  · intro hle
    rw [length_gatherT_of_le h hle]

/-- **gathering a tabulated function by `p` tabulates the function composed with `σ_p`** -/
theorem gatherT_ofFn {N : ℕ} {p : List ℕ} (h : IsPerm N p) (f : Fin N → β) :
    gatherT (List.ofFn f) p = List.ofFn (fun k => f (permOf h k)) := by
  apply List.ext_getElem?
  intro k
  by_cases hk : k < N
  · have := getElemOpt_gatherT_fin h (xs := List.ofFn f) (by simp) ⟨k, hk⟩
    simp only at this
    rw [this]
    simp [hk]
  · have h1 : (gatherT (List.ofFn f) p).length = N := length_gatherT_of_le h (by simp)
    rw [List.getElem?_eq_none (by rw [h1]; exact not_lt.mp hk),
      List.getElem?_eq_none (by simpa using not_lt.mp hk)]

/-- the same for tabulated square matrices: `permute_tensor(M, p)[a][b] = M[p[a]][p[b]]` -/
theorem permuteMatT_ofFn {N : ℕ} {p : List ℕ} (h : IsPerm N p) (g : Fin N → Fin N → β) :
    permuteMatT (List.ofFn (fun i => List.ofFn (g i))) p
      = List.ofFn (fun i => List.ofFn (fun j => g (permOf h i) (permOf h j))) := by
  unfold Perm.permuteMatT
  rw [gatherT_ofFn h, List.map_ofFn]
  congr 1
  funext i
  exact gatherT_ofFn h _

end lists

end EmuVerif.PermEquiv
