/-
  Helper lemmas for `Props/C15.lean`: counters, the batch loop, the telescoping identity of the
  conditional weights, and the read-out flips.
-/
import EmuVerif.Model.Sampling
import EmuVerif.Proofs.TensorForms
import Mathlib.Algebra.Field.Basic
import Mathlib.Algebra.Order.Ring.Defs
import Mathlib.Tactic.FieldSimp

set_option linter.unusedSectionVars false
set_option linter.unusedVariables false
set_option linter.unusedSimpArgs false

namespace EmuVerif.Sampling
open EmuVerif.Tensor Finset

/-! ### counters -/

theorem counterTotal_add (c : Counter) (key : String) (k : Nat) :
    counterTotal (counterAdd c key k) = counterTotal c + k := by
  induction c with
  | nil => simp [counterAdd, counterTotal]
  | cons p rest ih =>
    obtain ⟨key', n⟩ := p
    simp only [counterAdd]
    split
    · simp [counterTotal]; omega
    · simp only [counterTotal, List.map_cons, List.sum_cons] at ih ⊢; omega

theorem counterTotal_addAll (c : Counter) (keys : List String) :
    counterTotal (counterAddAll c keys) = counterTotal c + keys.length := by
  unfold counterAddAll
  induction keys generalizing c with
  | nil => simp
  | cons k keys ih => simp only [List.foldl_cons, ih, counterTotal_add, List.length_cons]; omega

/-! ### the batch loop -/

theorem sampleLoop_total (maxB nSites numShots : Nat) (k : Nat) :
    ∀ (done : Nat) (tape : List (List Nat)) (ctr c : Counter), numShots - done = k →
      sampleLoop maxB nSites numShots done tape ctr = some c →
      counterTotal c = counterTotal ctr + (numShots - done) := by
  induction k using Nat.strong_induction_on with
  | _ k ih =>
    intro done tape ctr c hk h
    rw [sampleLoop] at h
    split at h
    · rename_i hlt
      split at h
      · exact absurd h (by simp)
      · rename_i hB
        simp only at h
        split at h
        · exact absurd h (by simp)
        · have hb : 0 < min maxB (numShots - done) := by omega
          have := ih (numShots - (done + min maxB (numShots - done))) (by omega) _ _ _ c rfl h
          rw [this, counterTotal_addAll]
          simp [batchRows]
          omega
    · simp only [Option.some.injEq] at h
      subst h; omega

theorem batchSizes_spec (maxB numShots : Nat) (hB : 0 < maxB) (k : Nat) :
    ∀ done, numShots - done = k →
      (batchSizes maxB numShots done).sum = numShots - done ∧
      ∀ b ∈ batchSizes maxB numShots done, 0 < b ∧ b ≤ maxB := by
  induction k using Nat.strong_induction_on with
  | _ k ih =>
    intro done hk
    rw [batchSizes]
    split
    · rename_i hlt
      have hb : 0 < min maxB (numShots - done) := by omega
      obtain ⟨i1, i2⟩ := ih (numShots - (done + min maxB (numShots - done))) (by omega) _ rfl
      refine ⟨by simp only [List.sum_cons, i1]; omega, ?_⟩
      intro b hb'
      rcases List.mem_cons.mp hb' with rfl | hb'
      · exact ⟨hb, Nat.min_le_left _ _⟩
      · exact i2 b hb'
    · refine ⟨by simp; omega, by simp⟩

/-! ### bits -/

theorem bitOf_eq_one_iff (x : Nat) : bitOf x = '1' ↔ x = 1 := by
  unfold bitOf; split <;> simp_all

theorem bitOf_injOn_qubit (x y : Nat) (hx : x < 2) (hy : y < 2) (h : bitOf x = bitOf y) : x = y := by
  unfold bitOf at h
  split at h <;> split at h <;> simp_all
  all_goals omega

/-! ### conditional weights -/

section born
variable {K : Type} [Field K] [StarRing K]

theorem nsq_eq (z : K) : nsq z = star z * z := rfl

/-- pure twin of one row of `probn` -/
def weightF (acc : Nat → K) (A : Site K) (x : Nat) : K := ∑ r ∈ range A.dr, nsq (rowStepF acc A x r)

theorem condWeights_eq (acc : Arr K) (A : Site K) :
    condWeights acc A = (List.range A.d).map (weightF acc.get A) := by
  unfold condWeights weightF
  simp only [sumTo_eq, rowStep_get]

theorem foldl_add_eq_sum (l : List K) (a : K) : l.foldl (· + ·) a = a + l.sum := by
  induction l generalizing a with
  | nil => simp
  | cons x l ih => simp [ih, add_assoc]

theorem sum_map_range (n : Nat) (f : Nat → K) : ((List.range n).map f).sum = ∑ x ∈ range n, f x := by
  induction n with
  | zero => simp
  | succ n ih => simp [List.range_succ, Finset.sum_range_succ, ih]

/-- squared norm of the first `k` entries -/
def normV (k : Nat) (v : Nat → K) : K := ∑ l ∈ range k, nsq (v l)

/-- right-orthonormality of a factor: `Σ_x A[x]·A[x]† = 1` -/
def RightOrth (A : Site K) : Prop :=
  ∀ l < A.dl, ∀ l' < A.dl, ∑ x ∈ range A.d, ∑ r ∈ range A.dr, A.t x l r * star (A.t x l' r)
    = if l = l' then 1 else 0

/-- telescoping step: for a right-orthonormal factor the weights of all outcomes add up to the
squared norm of the incoming accumulator -/
theorem weights_sum_eq_norm (A : Site K) (h : RightOrth A) (acc : Nat → K) :
    ∑ x ∈ range A.d, weightF acc A x = normV A.dl acc := by
  unfold weightF normV
  simp only [nsq_eq, rowStepF, star_sum, star_mul']
  have : ∑ x ∈ range A.d, ∑ r ∈ range A.dr,
      (∑ l ∈ range A.dl, star (acc l) * star (A.t x l r)) * ∑ l' ∈ range A.dl, acc l' * A.t x l' r
      = ∑ l ∈ range A.dl, ∑ l' ∈ range A.dl, star (acc l) * acc l' *
          ∑ x ∈ range A.d, ∑ r ∈ range A.dr, A.t x l' r * star (A.t x l r) := by
    simp only [Finset.sum_mul, Finset.mul_sum]
    simp only [← Finset.sum_product']
    refine Finset.sum_nbij' (fun z => (z.2.2.2, z.2.2.1, z.1, z.2.1)) (fun z => (z.2.2.1, z.2.2.2, z.2.1, z.1))
      ?_ ?_ ?_ ?_ ?_ <;> reorder_finish
  rw [this]
  refine Finset.sum_congr rfl (fun l hl => ?_)
  rw [Finset.sum_congr rfl (fun l' hl' => by
    rw [h l' (Finset.mem_range.mp hl') l (Finset.mem_range.mp hl)])]
  simp [Finset.mem_range.mp hl]

/-- pure twin of `shotProb` -/
def shotProbF : List (Site K) → List Nat → (Nat → K) → K
  | [], [], _ => 1
  | A :: fs, x :: xs, acc =>
    (weightF acc A x / ∑ x' ∈ range A.d, weightF acc A x') * shotProbF fs xs (rowStepF acc A x)
  | _, _, _ => 0

theorem shotProb_eq (fs : List (Site K)) (s : List Nat) (acc : Arr K) (hs : ∀ A ∈ fs, ∀ x ∈ s, x < A.d) :
    shotProb fs s acc = shotProbF fs s acc.get := by
  induction fs generalizing s acc with
  | nil => cases s <;> simp [shotProb, shotProbF]
  | cons A fs ih =>
    cases s with
    | nil => simp [shotProb, shotProbF]
    | cons x xs =>
      have hx : x < A.d := hs A (List.mem_cons_self ..) x (List.mem_cons_self ..)
      simp only [shotProb, shotProbF]
      rw [ih xs _ (fun B hB y hy => hs B (List.mem_cons_of_mem _ hB) y (List.mem_cons_of_mem _ hy))]
      rw [condWeights_eq, foldl_add_eq_sum, sum_map_range, rowStep_get]
      simp [hx]

/-- all the squared norms met along the path of `s` are non-zero (the string is reachable) -/
def PathPos : List (Site K) → List Nat → (Nat → K) → Prop
  | [], _, acc => normV 1 acc ≠ 0
  | A :: fs, x :: xs, acc => normV A.dl acc ≠ 0 ∧ PathPos fs xs (rowStepF acc A x)
  | _ :: _, [], _ => True

/-- Telescoping identity: over a right-orthonormal chain the product of the conditional
probabilities is `|amplitude|² / ‖acc‖²`. -/
theorem shotProbF_orth (fs : List (Site K)) (hw : Wf fs) (ho : ∀ A ∈ fs, RightOrth A)
    (s : List Nat) (hlen : s.length = fs.length) (acc : Nat → K) (hp : PathPos fs s acc) :
    shotProbF fs s acc = nsq (ampVecF fs s acc 0) / normV (headDl fs) acc := by
  induction fs generalizing s acc with
  | nil =>
    cases s with
    | nil =>
      simp only [shotProbF, ampVecF, headDl_nil, normV, Finset.sum_range_one]
      simp only [PathPos, normV, Finset.sum_range_one] at hp
      rw [div_self hp]
    | cons _ _ => simp at hlen
  | cons A fs ih =>
    cases s with
    | nil => simp at hlen
    | cons x xs =>
      simp only [shotProbF, ampVecF, headDl_cons]
      obtain ⟨hp1, hp2⟩ := hp
      rw [weights_sum_eq_norm A (ho A (List.mem_cons_self ..))]
      rw [ih hw.2 (fun B hB => ho B (List.mem_cons_of_mem _ hB)) xs (by simpa using hlen) _ hp2]
      have hwx : weightF acc A x = normV (headDl fs) (rowStepF acc A x) := by
        unfold weightF normV; rw [hw.1]
      rw [hwx]
      have hne : normV (headDl fs) (rowStepF acc A x) ≠ 0 := by
        cases fs with
        | nil => simpa [PathPos] using hp2
        | cons B fs' =>
          cases xs with
          | nil => simp at hlen
          | cons y ys => exact hp2.1
      field_simp

/-- total weight: over a right-orthonormal chain `Σ_s |amp(s)|² = ‖acc‖²` -/
theorem norm_total_orth (d : Nat) (fs : List (Site K)) (hw : Wf fs) (ho : ∀ A ∈ fs, RightOrth A)
    (hd : ∀ A ∈ fs, A.d = d) (acc : Nat → K) :
    sumStrings d fs.length (fun s => nsq (ampVecF fs s acc 0)) = normV (headDl fs) acc := by
  induction fs generalizing acc with
  | nil => simp [sumStrings, ampVecF, normV]
  | cons A fs ih =>
    simp only [List.length_cons, sumStrings, sumTo_eq, ampVecF, headDl_cons]
    rw [Finset.sum_congr rfl (fun x _ => ih hw.2 (fun B hB => ho B (List.mem_cons_of_mem _ hB))
      (fun B hB => hd B (List.mem_cons_of_mem _ hB)) (rowStepF acc A x))]
    rw [← hd A (List.mem_cons_self ..), ← weights_sum_eq_norm A (ho A (List.mem_cons_self ..))]
    refine Finset.sum_congr rfl (fun x _ => ?_)
    unfold weightF normV; rw [hw.1]

end born

/-! ### read-out flips -/

section readout
variable {β : Type} [LinearOrder β] [Zero β]

theorem flipChars_spec (pfp pfn : β) (cs : List Char) (us : List β) (cs' : List Char) (rest : List β)
    (h : flipChars pfp pfn cs us = some (cs', rest)) :
    cs' = List.zipWith (fun c u => readoutWithError c u pfp pfn) cs us ∧ rest = us.drop cs.length ∧
      cs.length ≤ us.length := by
  induction cs generalizing us cs' rest with
  | nil => simp [flipChars] at h; obtain ⟨rfl, rfl⟩ := h; simp
  | cons c cs ih =>
    cases us with
    | nil => simp [flipChars] at h
    | cons u us =>
      simp only [flipChars] at h
      split at h
      · exact absurd h (by simp)
      · rename_i cs1 rest1 h1
        simp only [Option.some.injEq, Prod.mk.injEq] at h
        obtain ⟨rfl, rfl⟩ := h
        obtain ⟨i1, i2, i3⟩ := ih us cs1 rest1 h1
        simp [i1, i2, i3]

theorem flipRepeat_total (pfp pfn : β) (bits : List Char) (k : Nat) (us : List β) (res res' : Counter)
    (rest : List β) (h : flipRepeat pfp pfn bits k us res = some (res', rest)) :
    counterTotal res' = counterTotal res + k := by
  induction k generalizing us res with
  | zero => simp [flipRepeat] at h; obtain ⟨rfl, rfl⟩ := h; simp
  | succ k ih =>
    simp only [flipRepeat] at h
    split at h
    · exact absurd h (by simp)
    · rw [ih _ _ h, counterTotal_add]; omega

theorem applyErrorsAux_total (pfp pfn : β) (c : Counter) (us : List β) (res res' : Counter) (rest : List β)
    (h : applyErrorsAux pfp pfn c us res = some (res', rest)) :
    counterTotal res' = counterTotal res + counterTotal c := by
  induction c generalizing us res with
  | nil => simp [applyErrorsAux] at h; obtain ⟨rfl, rfl⟩ := h; simp [counterTotal]
  | cons p c ih =>
    obtain ⟨bits, count⟩ := p
    simp only [applyErrorsAux] at h
    split at h
    · exact absurd h (by simp)
    · rename_i r1 u1 h1
      rw [ih _ _ h, flipRepeat_total _ _ _ _ _ _ _ _ h1]
      simp [counterTotal]; omega

end readout
end EmuVerif.Sampling
