/- Bridges from the Mathlib-free scalar helpers to Mathlib's order/field vocabulary. -/
import EmuVerif.Model.Scalar
import Mathlib.Algebra.Order.Field.Basic
import Mathlib.Algebra.Order.AbsoluteValue.Basic
import Mathlib.Tactic.Linarith
import Mathlib.Tactic.Ring
import Mathlib.Tactic.FieldSimp
import Mathlib.Tactic.Positivity

set_option linter.unusedSectionVars false

namespace EmuVerif
variable {α : Type} [Field α] [LinearOrder α] [IsStrictOrderedRing α]

theorem absv_eq_abs (x : α) : absv x = |x| := by
  unfold absv
  split
  · rw [abs_of_neg ‹_›]
  · rw [abs_of_nonneg (not_lt.mp ‹_›)]

theorem pmin_eq_min (a b : α) : pmin a b = min a b := by
  unfold pmin; split
  · rw [min_eq_right (le_of_lt ‹_›)]
  · rw [min_eq_left (not_lt.mp ‹_›)]

theorem pmax_eq_max (a b : α) : pmax a b = max a b := by
  unfold pmax; split
  · rw [max_eq_right (le_of_lt ‹_›)]
  · rw [max_eq_left (not_lt.mp ‹_›)]

end EmuVerif
