/-
  Helper lemmas about the sweep position machine of `Model.Stepper` (noiseless part).
  Pure bookkeeping: no Mathlib, and valid for *every* scalar type carrying the notation the
  model uses (so also for the binary64 reading).
-/
import EmuVerif.Model.Stepper

set_option linter.unusedSectionVars false
set_option linter.unusedVariables false

namespace EmuVerif.Stepper

variable {α : Type} [Add α] [Sub α] [Mul α] [Div α] [Neg α] [LT α] [DecidableLT α]
  [LE α] [DecidableLE α] [OfNat α 0] [OfNat α 1] [OfNat α 2] [OfNat α 3] [OfNat α 4]

/-- The machine at sweep position `j`, in direction `dir`, with `r` right baths: the left bath
stack and the orthogonality centre are what the position dictates (`r = n - 1 - j` on reachable
states; kept as a parameter so that no truncated subtraction appears). -/
def posSt (s : St α) (dir : Bool) (j r : Nat) : St α :=
  { s with l2r := dir, sweep := j, lb := j + 1, rb := r, centre := j }

/-- records of the left-to-right call at position `j` (`r` right baths before the call) -/
def fwdRecs (dt : α) (j r : Nat) : List (Rec α) :=
  [⟨.pair j (dt / 2) true, j + 1, r, j⟩,
   ⟨.leftBath j, j + 1, r, j + 1⟩,
   ⟨.single (j + 1) (-dt / 2), j + 2, r, j + 1⟩]

/-- record of the turning call (rightmost pair `j = n-2`, full step) -/
def midRec (dt : α) (j : Nat) : Rec α := ⟨.pair j dt false, j + 1, 1, j⟩

/-- records of the right-to-left call that moves from position `j+1` (with `r` right baths) to `j` -/
def bwdRecs (dt : α) (j r : Nat) : List (Rec α) :=
  [⟨.rightBath (j + 2), j + 2, r, j + 1⟩,
   ⟨.single (j + 1) (-dt / 2), j + 2, r + 1, j + 1⟩,
   ⟨.pair j (dt / 2) false, j + 1, r + 1, j + 1⟩]

theorem core_fwd (c : Cfg α) (s : St α) (j r : Nat) (hj : j + 2 < c.n) :
    progressCore c (posSt s true j (r + 1))
      = .ok (posSt s true (j + 1) r, fwdRecs (s.tgt - s.cur) j (r + 1), false) := by
  have h0 : ¬ c.n = 0 := by omega
  have h2 : ¬ c.n ≤ 2 := by omega
  simp [progressCore, l2rUpdate, evolvePair, evolveSingle, St.snap, posSt, fwdRecs, h0, h2, hj]

theorem core_mid (c : Cfg α) (s : St α) (j : Nat) (hn : 3 ≤ c.n) (hj : j + 2 = c.n) :
    progressCore c (posSt s true j 1)
      = .ok (posSt s false j 1, [midRec (s.tgt - s.cur) j], false) := by
  have h0 : ¬ c.n = 0 := by omega
  have h2 : ¬ c.n ≤ 2 := by omega
  have h3 : ¬ j + 2 < c.n := by omega
  simp [progressCore, l2rUpdate, evolvePair, St.snap, posSt, midRec, h0, h2, h3]

theorem core_bwd (c : Cfg α) (s : St α) (j r : Nat) (hn : 3 ≤ c.n) :
    progressCore c (posSt s false (j + 1) (r + 1))
      = .ok (posSt s (decide (j = 0)) j (r + 2), bwdRecs (s.tgt - s.cur) j (r + 1), decide (j = 0)) := by
  have h0 : ¬ c.n = 0 := by omega
  have h2 : ¬ c.n ≤ 2 := by omega
  by_cases hz : j = 0
  · subst hz
    simp [progressCore, r2lUpdate, r2lInner, evolvePair, evolveSingle, St.snap, posSt, bwdRecs, h0, h2]
  · simp [progressCore, r2lUpdate, r2lInner, evolvePair, evolveSingle, St.snap, posSt, bwdRecs, h0, h2, hz]


/-! ### `progressMarked` and the sweep loop -/

theorem marked_of_not_start (c : Cfg α) (s : St α) (h : atSweepStart c s = false) :
    progressMarked c s = progressCore c s := by
  unfold progressMarked
  rw [h]
  cases progressCore c s with
  | error e => rfl
  | ok v => obtain ⟨s1, evs, sc⟩ := v; simp

theorem marked_fwd0 (c : Cfg α) (s : St α) (r : Nat) (hn : 3 ≤ c.n) :
    progressMarked c (posSt s true 0 (r + 1))
      = .ok (posSt s true 1 r,
             ⟨.sweep s.step s.cur s.tgt, 1, r + 1, 0⟩ :: fwdRecs (s.tgt - s.cur) 0 (r + 1), false) := by
  have h := core_fwd c s 0 r (by omega)
  unfold progressMarked
  rw [h]
  simp [atSweepStart, posSt, St.snap]

theorem marked_fwd (c : Cfg α) (s : St α) (j r : Nat) (hj : j + 3 < c.n) :
    progressMarked c (posSt s true (j + 1) (r + 1))
      = .ok (posSt s true (j + 2) r, fwdRecs (s.tgt - s.cur) (j + 1) (r + 1), false) := by
  rw [marked_of_not_start, core_fwd c s (j + 1) r (by omega)]
  have : ¬ c.n ≤ 2 := by omega
  simp [atSweepStart, posSt, this]

theorem marked_mid (c : Cfg α) (s : St α) (j : Nat) (hj : j + 3 = c.n) :
    progressMarked c (posSt s true (j + 1) 1)
      = .ok (posSt s false (j + 1) 1, [midRec (s.tgt - s.cur) (j + 1)], false) := by
  rw [marked_of_not_start, core_mid c s (j + 1) (by omega) (by omega)]
  have : ¬ c.n ≤ 2 := by omega
  simp [atSweepStart, posSt, this]

theorem marked_bwd (c : Cfg α) (s : St α) (j r : Nat) (hn : 3 ≤ c.n) :
    progressMarked c (posSt s false (j + 1) (r + 1))
      = .ok (posSt s (decide (j = 0)) j (r + 2), bwdRecs (s.tgt - s.cur) j (r + 1), decide (j = 0)) := by
  rw [marked_of_not_start, core_bwd c s j r hn]
  have : ¬ c.n ≤ 2 := by omega
  simp [atSweepStart, posSt, this]

theorem sweepLoop_step {c : Cfg α} {s s1 : St α} {evs : List (Rec α)} (f : Nat) (acc : List (Rec α))
    (h : progressMarked c s = .ok (s1, evs, false)) :
    sweepLoop c (f + 1) s acc = sweepLoop c f s1 (acc ++ evs) := by
  simp [sweepLoop, h]

theorem sweepLoop_last {c : Cfg α} {s s1 : St α} {evs : List (Rec α)} (f : Nat) (acc : List (Rec α))
    (h : progressMarked c s = .ok (s1, evs, true)) :
    sweepLoop c (f + 1) s acc = .ok (s1, acc ++ evs) := by
  simp [sweepLoop, h]

/-- records of `m` consecutive left-to-right calls starting at position `j` -/
def fwdFrom (dt : α) : Nat → Nat → List (Rec α)
  | _, 0 => []
  | j, m + 1 => fwdRecs dt j (m + 2) ++ fwdFrom dt (j + 1) m

/-- records of the right-to-left calls from position `j` (with `r` right baths) down to 0 -/
def bwdFrom (dt : α) : Nat → Nat → List (Rec α)
  | 0, _ => []
  | j + 1, r => bwdRecs dt j r ++ bwdFrom dt j (r + 1)

theorem loop_fwd (c : Cfg α) (s : St α) :
    ∀ (m j f : Nat) (acc : List (Rec α)), j + 1 + m + 2 = c.n →
      sweepLoop c (m + f) (posSt s true (j + 1) (m + 1)) acc
        = sweepLoop c f (posSt s true (j + 1 + m) 1) (acc ++ fwdFrom (s.tgt - s.cur) (j + 1) m)
  | 0, j, f, acc, _ => by simp [fwdFrom]
  | m + 1, j, f, acc, h => by
    have e : m + 1 + f = (m + f) + 1 := by omega
    rw [e, sweepLoop_step (m + f) acc (marked_fwd c s j (m + 1) (by omega))]
    rw [loop_fwd c s m (j + 1) f _ (by omega)]
    have e2 : j + 1 + 1 + m = j + 1 + (m + 1) := by omega
    simp [fwdFrom, e2]

theorem loop_bwd (c : Cfg α) (s : St α) (hn : 3 ≤ c.n) :
    ∀ (j r f R : Nat) (acc : List (Rec α)), R = r + j + 2 →
      sweepLoop c (j + 1 + f) (posSt s false (j + 1) (r + 1)) acc
        = .ok (posSt s true 0 R, acc ++ bwdFrom (s.tgt - s.cur) (j + 1) (r + 1))
  | 0, r, f, R, acc, h => by
    have e : 0 + 1 + f = f + 1 := by omega
    rw [e, sweepLoop_last f acc (by simpa using marked_bwd c s 0 r hn)]
    subst h
    simp [bwdFrom]
  | j + 1, r, f, R, acc, h => by
    have e : j + 1 + 1 + f = (j + 1 + f) + 1 := by omega
    rw [e, sweepLoop_step (j + 1 + f) acc (by simpa using marked_bwd c s (j + 1) r hn)]
    rw [loop_bwd c s hn j (r + 1) f R _ (by omega)]
    simp [bwdFrom]

/-- **One whole sweep from the sweep-start position, `n = m + 3` sites.** -/
theorem sweepCore_closed (c : Cfg α) (s : St α) (m : Nat) (hn : c.n = m + 3) :
    sweepCore c (posSt s true 0 (m + 2))
      = .ok (posSt s true 0 (m + 2),
             ⟨.sweep s.step s.cur s.tgt, 1, m + 2, 0⟩ :: fwdFrom (s.tgt - s.cur) 0 (m + 1)
               ++ midRec (s.tgt - s.cur) (m + 1) :: bwdFrom (s.tgt - s.cur) (m + 1) 1) := by
  unfold sweepCore
  have e : 2 * c.n + (posSt s true 0 (m + 2)).sweep + 3 = (m + ((m + 1 + 6) + 1)) + 1 := by
    simp [posSt]; omega
  rw [e, sweepLoop_step _ _ (marked_fwd0 c s (m + 1) (by omega))]
  have hA := loop_fwd c s m 0 ((m + 1 + 6) + 1) ([] ++ ⟨.sweep s.step s.cur s.tgt, 1, m + 2, 0⟩ :: fwdRecs (s.tgt - s.cur) 0 (m + 2)) (by omega)
  simp only [Nat.zero_add] at hA
  rw [hA]
  have hM := marked_mid c s m (by omega)
  have e3 : 1 + m = m + 1 := by omega
  rw [e3, sweepLoop_step _ _ hM]
  have hB := loop_bwd c s (by omega) m 0 6 (m + 2) (([] ++ ⟨.sweep s.step s.cur s.tgt, 1, m + 2, 0⟩ :: fwdRecs (s.tgt - s.cur) 0 (m + 2)) ++ fwdFrom (s.tgt - s.cur) 1 m ++ [midRec (s.tgt - s.cur) (m + 1)]) (by omega)
  simp only [Nat.zero_add] at hB
  rw [hB]
  simp [fwdFrom]


/-! ### The invariant that `_evolve` and the bath bookkeeping need -/

/-- What a call needs from the machine when it is issued on an `n`-site chain: the top of the
left stack is the bath of the sites `< l`, the top of the right stack the bath of the sites to
the right of the evolved block, and the orthogonality centre is on the evolved block (the
latter is what `_evolve` asserts; the former two are what its tensor contraction silently
relies on). -/
def CallInv (n : Nat) (r : Rec α) : Prop :=
  match r.ev with
  | .pair l _ _ => r.lb = l + 1 ∧ r.rb + l + 1 = n ∧ (r.centre = l ∨ r.centre = l + 1)
  | .single i _ => r.lb = i + 1 ∧ r.rb + i = n ∧ r.centre = i
  | .leftBath i => r.lb = i + 1
  | .rightBath i => r.rb + i = n
  | _ => True

theorem callInv_fwdRecs (n : Nat) (dt : α) (j r : Nat) (h : r + j + 1 = n) :
    ∀ x ∈ fwdRecs dt j r, CallInv n x := by
  intro x hx
  simp only [fwdRecs, List.mem_cons, List.not_mem_nil, or_false] at hx
  rcases hx with e | e | e <;> subst e <;> simp [CallInv] <;> omega

theorem callInv_bwdRecs (n : Nat) (dt : α) (j r : Nat) (h : r + j + 2 = n) :
    ∀ x ∈ bwdRecs dt j r, CallInv n x := by
  intro x hx
  simp only [bwdRecs, List.mem_cons, List.not_mem_nil, or_false] at hx
  rcases hx with e | e | e <;> subst e <;> simp [CallInv] <;> omega

theorem callInv_midRec (n : Nat) (dt : α) (j : Nat) (h : j + 2 = n) : CallInv n (midRec dt j) := by
  simp [CallInv, midRec]; omega

theorem callInv_fwdFrom (n : Nat) (dt : α) :
    ∀ (m j : Nat), j + m + 2 = n → ∀ x ∈ fwdFrom dt j m, CallInv n x
  | 0, _, _, x, hx => by simp [fwdFrom] at hx
  | m + 1, j, h, x, hx => by
    simp only [fwdFrom, List.mem_append] at hx
    rcases hx with hx | hx
    · exact callInv_fwdRecs n dt j (m + 2) (by omega) x hx
    · exact callInv_fwdFrom n dt m (j + 1) (by omega) x hx

theorem callInv_bwdFrom (n : Nat) (dt : α) :
    ∀ (j r : Nat), r + j + 1 = n → ∀ x ∈ bwdFrom dt j r, CallInv n x
  | 0, _, _, x, hx => by simp [bwdFrom] at hx
  | j + 1, r, h, x, hx => by
    simp only [bwdFrom, List.mem_append] at hx
    rcases hx with hx | hx
    · exact callInv_bwdRecs n dt j r (by omega) x hx
    · exact callInv_bwdFrom n dt j (r + 1) (by omega) x hx

/-! ### Event projections of the closed forms -/

def fwdEvs (dt : α) (j : Nat) : List (Ev α) := [.pair j (dt / 2) true, .leftBath j, .single (j + 1) (-dt / 2)]
def bwdEvs (dt : α) (j : Nat) : List (Ev α) := [.rightBath (j + 2), .single (j + 1) (-dt / 2), .pair j (dt / 2) false]

theorem fwdFrom_evs (dt : α) :
    ∀ (m j : Nat), (fwdFrom dt j m).map Rec.ev = (List.range' j m).flatMap (fwdEvs dt)
  | 0, _ => by simp [fwdFrom]
  | m + 1, j => by
    simp [fwdFrom, List.range'_succ, fwdFrom_evs dt m (j + 1), fwdRecs, fwdEvs]

theorem bwdFrom_evs (dt : α) :
    ∀ (j r : Nat), (bwdFrom dt j r).map Rec.ev = (List.range j).reverse.flatMap (bwdEvs dt)
  | 0, _ => by simp [bwdFrom]
  | j + 1, r => by
    simp [bwdFrom, List.range_succ, bwdFrom_evs dt j (r + 1), bwdRecs, bwdEvs]


/-! ### `timestep_complete` -/

def preRecs (c : Cfg α) (s : St α) : List (Rec α) := if c.noisy then [s.snap (.hNoNoise s.step)] else []

theorem timestepComplete_cont (c : Cfg α) (s : St α) (t : α) (hn : 2 ≤ c.n)
    (h : s.step + 1 < c.nsteps) (ht : c.times[s.step + 2]? = some t) :
    timestepComplete c s
      = .ok ({ s with step := s.step + 1, tgt := t, lb := 1, rb := c.n - 1 },
             preRecs c s ++ [s.snap (.fill s.cur), s.snap (.newH (s.step + 1) (half * (s.cur + s.tgt))),
                             ⟨.stepDone s.step, 1, c.n - 1, s.centre⟩]) := by
  have h2 : ¬ c.n < 2 := by omega
  simp [timestepComplete, h, ht, initBaths, h2, St.snap, preRecs]

theorem timestepComplete_last (c : Cfg α) (s : St α) (h : ¬ s.step + 1 < c.nsteps) :
    timestepComplete c s
      = .ok ({ s with step := s.step + 1 },
             preRecs c s ++ [s.snap (.fill s.cur), ⟨.stepDone s.step, s.lb, s.rb, s.centre⟩]) := by
  simp [timestepComplete, h, St.snap, preRecs]

/-! ### Reachable positions: no assert of `_evolve`, no empty-stack access, ever -/

structure Reach (c : Cfg α) (s : St α) : Prop where
  sweepLe : s.sweep + 2 ≤ c.n
  lb : s.lb = s.sweep + 1
  rb : s.rb + s.sweep + 1 = c.n
  centre : s.centre = s.sweep
  r2l : s.l2r = false → 1 ≤ s.sweep

/-- `target_times` has an entry for the end of every step. -/
def Grid (c : Cfg α) : Prop := c.nsteps + 1 ≤ c.times.length

def NoCall (r : Rec α) : Prop :=
  match r.ev with
  | .pair _ _ _ => False | .single _ _ => False | .leftBath _ => False | .rightBath _ => False
  | _ => True

theorem callInv_of_noCall (n : Nat) (r : Rec α) (h : NoCall r) : CallInv n r := by
  unfold NoCall at h; unfold CallInv
  cases hr : r.ev <;> simp [hr] at h ⊢

theorem timestepComplete_reach (c : Cfg α) (s : St α) (hg : Grid c) (hr : Reach c s)
    (h0 : s.sweep = 0) (hl : s.l2r = true) :
    ∃ s' evs, timestepComplete c s = .ok (s', evs) ∧ Reach c s' ∧ s'.sweep = 0 ∧ s'.l2r = true
      ∧ s'.step = s.step + 1 ∧ s'.cur = s.cur ∧ ∀ r ∈ evs, NoCall r := by
  have hn : 2 ≤ c.n := by have := hr.sweepLe; omega
  by_cases h : s.step + 1 < c.nsteps
  · have hlt : s.step + 2 < c.times.length := by unfold Grid at hg; omega
    refine ⟨_, _, timestepComplete_cont c s c.times[s.step + 2] hn h (List.getElem?_eq_getElem hlt),
      ⟨by simpa using hr.sweepLe, by simp [h0], by simp [h0]; omega, by simpa using hr.centre,
       by simp [hl]⟩, h0, hl, rfl, rfl, ?_⟩
    intro r hr'
    simp only [preRecs, List.mem_append, List.mem_cons, List.not_mem_nil, or_false] at hr'
    rcases hr' with hr' | hr' | hr' | hr'
    · split at hr' <;> simp at hr'; subst hr'; simp [NoCall, St.snap]
    all_goals subst hr'; simp [NoCall, St.snap]
  · refine ⟨_, _, timestepComplete_last c s h,
      ⟨hr.sweepLe, hr.lb, hr.rb, hr.centre, hr.r2l⟩, h0, hl, rfl, rfl, ?_⟩
    intro r hr'
    simp only [preRecs, List.mem_append, List.mem_cons, List.not_mem_nil, or_false] at hr'
    rcases hr' with hr' | hr' | hr'
    · split at hr' <;> simp at hr'; subst hr'; simp [NoCall, St.snap]
    all_goals subst hr'; simp [NoCall, St.snap]

theorem reach_eq_posSt (c : Cfg α) (s : St α) (h : Reach c s) : s = posSt s s.l2r s.sweep s.rb := by
  obtain ⟨l2r, sweep, step, lb, rb, centre, cur, tgt⟩ := s
  have h1 := h.lb; have h2 := h.centre
  simp only at h1 h2
  subst h1; subst h2
  rfl

theorem marked_two (c : Cfg α) (s : St α) (hn : c.n = 2) :
    progressMarked c (posSt s true 0 1)
      = .ok (posSt s true 0 1,
             [⟨.sweep s.step s.cur s.tgt, 1, 1, 0⟩, ⟨.pair 0 (s.tgt - s.cur) false, 1, 1, 0⟩], true) := by
  simp [progressMarked, progressCore, evolvePair, atSweepStart, posSt, St.snap, hn]

theorem callInv_sweepMark (n : Nat) (k : Nat) (a b : α) (x y z : Nat) :
    CallInv n (⟨.sweep k a b, x, y, z⟩ : Rec α) := by simp [CallInv]

/-- From a reachable position `progressMarked` succeeds, keeps the position reachable, every
call it issues satisfies `CallInv`, and when it asks for `sweep_complete` the machine is back at
the sweep-start position. -/
theorem marked_reach (c : Cfg α) (s : St α) (hr : Reach c s) :
    ∃ s' evs sc, progressMarked c s = .ok (s', evs, sc) ∧ Reach c s' ∧ (∀ r ∈ evs, CallInv c.n r)
      ∧ s'.step = s.step ∧ s'.cur = s.cur ∧ s'.tgt = s.tgt
      ∧ (sc = true → s'.sweep = 0 ∧ s'.l2r = true) := by
  obtain ⟨l2r, sweep, step, lb, rb, centre, cur, tgt⟩ := s
  have hle := hr.sweepLe; have hrb := hr.rb; have hr2 := hr.r2l
  have h1 := hr.lb; have h2 := hr.centre.symm
  simp only at hle hrb hr2 h1 h2
  subst h1; subst h2
  by_cases hn : c.n = 2
  · have h0 : sweep = 0 := by omega
    subst h0
    have hl : l2r = true := by
      cases l2r with
      | true => rfl
      | false => have := hr2 rfl; omega
    subst hl
    have h1 : rb = 1 := by omega
    subst h1
    refine ⟨_, _, _, marked_two c ⟨true, 0, step, 1, 1, 0, cur, tgt⟩ hn, ⟨by simp [posSt]; omega,
      by simp [posSt], by simp [posSt]; omega, by simp [posSt], by simp [posSt]⟩, ?_, rfl, rfl, rfl,
      fun _ => ⟨rfl, rfl⟩⟩
    intro r hm
    simp only [List.mem_cons, List.not_mem_nil, or_false] at hm
    rcases hm with e | e <;> subst e <;> simp [CallInv] ; omega
  · have hn3 : 3 ≤ c.n := by omega
    cases l2r with
    | true =>
      by_cases hj : sweep + 2 < c.n
      · obtain ⟨r, hr1⟩ : ∃ r, rb = r + 1 := ⟨rb - 1, by omega⟩
        subst hr1
        cases sweep with
        | zero =>
          refine ⟨_, _, _, marked_fwd0 c ⟨true, 0, step, 1, r + 1, 0, cur, tgt⟩ r hn3,
            ⟨by simp [posSt]; omega, by simp [posSt], by simp [posSt]; omega, by simp [posSt],
             by simp [posSt]⟩, ?_, rfl, rfl, rfl, fun h => by simp at h⟩
          intro x hx
          rcases List.mem_cons.mp hx with e | hx
          · subst e; exact callInv_sweepMark _ _ _ _ _ _ _
          · exact callInv_fwdRecs c.n _ 0 (r + 1) (by omega) x hx
        | succ j =>
          refine ⟨_, _, _, marked_fwd c ⟨true, j + 1, step, j + 1 + 1, r + 1, j + 1, cur, tgt⟩ j r (by omega),
            ⟨by simp [posSt]; omega, by simp [posSt], by simp [posSt]; omega, by simp [posSt],
             by simp [posSt]⟩, ?_, rfl, rfl, rfl, fun h => by simp at h⟩
          exact callInv_fwdRecs c.n _ (j + 1) (r + 1) (by omega)
      · obtain ⟨j, hs⟩ : ∃ j, sweep = j + 1 := ⟨sweep - 1, by omega⟩
        subst hs
        have h1 : rb = 1 := by omega
        subst h1
        refine ⟨_, _, _, marked_mid c ⟨true, j + 1, step, j + 1 + 1, 1, j + 1, cur, tgt⟩ j (by omega),
          ⟨by simp [posSt]; omega, by simp [posSt], by simp [posSt]; omega, by simp [posSt],
           by simp [posSt]⟩, ?_, rfl, rfl, rfl, fun h => by simp at h⟩
        intro x hx
        simp only [List.mem_cons, List.not_mem_nil, or_false] at hx
        subst hx
        exact callInv_midRec c.n _ (j + 1) (by omega)
    | false =>
      have h1 := hr2 rfl
      obtain ⟨j, hs⟩ : ∃ j, sweep = j + 1 := ⟨sweep - 1, by omega⟩
      subst hs
      obtain ⟨r, hr1⟩ : ∃ r, rb = r + 1 := ⟨rb - 1, by omega⟩
      subst hr1
      refine ⟨_, _, _, marked_bwd c ⟨false, j + 1, step, j + 1 + 1, r + 1, j + 1, cur, tgt⟩ j r hn3,
        ⟨by simp [posSt]; omega, by simp [posSt], by simp [posSt]; omega, by simp [posSt], ?_⟩, ?_,
        rfl, rfl, rfl, ?_⟩
      · simp [posSt]; omega
      · exact callInv_bwdRecs c.n _ j (r + 1) (by omega)
      · intro h; simpa [posSt] using h

end EmuVerif.Stepper
