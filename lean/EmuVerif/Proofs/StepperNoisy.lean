/-
  Helper lemmas about the noisy layer of `Model.Stepper` (quantum-jump stepping), read over an
  arbitrary linear ordered field. Reuses the bracket invariants of C19 (`Good`, `Forced`,
  `good_init`, `good_step`, `forced_init`, `forced_step`) and the sweep theorems of C02.
-/
import EmuVerif.Props.C19
import EmuVerif.Props.C02

set_option linter.unusedSectionVars false
set_option linter.unusedVariables false

namespace EmuVerif.Stepper
open EmuVerif EmuVerif.Brent EmuVerif.Props.C19 EmuVerif.Props.C02

variable {α : Type} [Field α] [LinearOrder α] [IsStrictOrderedRing α]

/-! ### The sweep in front of every `sweep_complete` -/

/-- the four kinds of local work a sweep consists of -/
def IsPlainCall (e : Ev α) : Prop :=
  match e with
  | .pair _ _ _ => True | .single _ _ => True | .leftBath _ => True | .rightBath _ => True
  | _ => False

theorem plain_fwdEvs (dt : α) (j : Nat) : ∀ e ∈ fwdEvs dt j, IsPlainCall e := by
  intro e he; simp only [fwdEvs, List.mem_cons, List.not_mem_nil, or_false] at he
  rcases he with h | h | h <;> subst h <;> trivial

theorem plain_bwdEvs (dt : α) (j : Nat) : ∀ e ∈ bwdEvs dt j, IsPlainCall e := by
  intro e he; simp only [bwdEvs, List.mem_cons, List.not_mem_nil, or_false] at he
  rcases he with h | h | h <;> subst h <;> trivial

theorem plain_symSeq (n : Nat) (dt : α) : ∀ e ∈ symSeq n dt, IsPlainCall e := by
  intro e he
  simp only [symSeq, List.mem_append, List.mem_flatMap, List.mem_cons, List.not_mem_nil, or_false] at he
  rcases he with (⟨j, _, h⟩ | h) | ⟨j, _, h⟩
  · exact plain_fwdEvs dt j e h
  · subst h; trivial
  · exact plain_bwdEvs dt j e h

/-- From the sweep-start position the sweep always succeeds, comes back to the same state,
and consists of the `sweep` marker followed by plain local calls. -/
theorem sweepCore_start (c : Cfg α) (b : St α) (hn : 2 ≤ c.n) (hs : SweepStart c b) :
    ∃ recs rest, sweepCore c b = .ok (b, recs)
      ∧ recs.map Rec.ev = .sweep b.step b.cur b.tgt :: rest ∧ ∀ e ∈ rest, IsPlainCall e := by
  by_cases h2 : c.n = 2
  · refine ⟨_, [.pair 0 (b.tgt - b.cur) false], two_site_step c b h2 hs, rfl, ?_⟩
    intro e he
    rw [List.mem_singleton] at he
    subst he; trivial
  · obtain ⟨recs, h, hm, _⟩ := one_step_sequence c b (by omega) hs
    exact ⟨recs, _, h, hm, plain_symSeq _ _⟩

/-! ### Marks: the `fill_results` / step-completion / jump events of a trace -/

inductive Mark (α : Type) where
  | fill (t : α)
  | done (k : Nat)

def markOf : Ev α → Option (Mark α)
  | .fill t => some (.fill t)
  | .stepDone k => some (.done k)
  | _ => none

def marks (l : List (Rec α)) : List (Mark α) := l.filterMap (fun r => markOf r.ev)

def jumpOf : Ev α → Option α
  | .jump t => some t
  | _ => none

/-- times of the jumps of a trace, in order -/
def jumps (l : List (Rec α)) : List α := l.filterMap (fun r => jumpOf r.ev)

/-- `(k, from, to)` of the sweeps of a trace, in order -/
def sweepOf : Ev α → Option (Nat × α × α)
  | .sweep k a b => some (k, a, b)
  | _ => none

def sweeps (l : List (Rec α)) : List (Nat × α × α) := l.filterMap (fun r => sweepOf r.ev)

theorem marks_append (l1 l2 : List (Rec α)) : marks (l1 ++ l2) = marks l1 ++ marks l2 := by
  simp [marks]
theorem jumps_append (l1 l2 : List (Rec α)) : jumps (l1 ++ l2) = jumps l1 ++ jumps l2 := by
  simp [jumps]
theorem sweeps_append (l1 l2 : List (Rec α)) : sweeps (l1 ++ l2) = sweeps l1 ++ sweeps l2 := by
  simp [sweeps]

theorem filterMap_evs {β : Type} (f : Ev α → Option β) (l : List (Rec α)) :
    l.filterMap (fun r => f r.ev) = (l.map Rec.ev).filterMap f := by
  rw [List.filterMap_map]; rfl

theorem plain_filter {β : Type} (f : Ev α → Option β) (hf : ∀ e, IsPlainCall e → f e = none)
    (rest : List (Ev α)) (h : ∀ e ∈ rest, IsPlainCall e) : rest.filterMap f = [] := by
  induction rest with
  | nil => rfl
  | cons a l ih =>
    have ha := hf a (h a (by simp))
    simp only [List.filterMap_cons, ha]
    exact ih (fun e he => h e (by simp [he]))

theorem markOf_plain (e : Ev α) (h : IsPlainCall e) : markOf e = none := by
  cases e <;> simp [IsPlainCall] at h <;> rfl
theorem jumpOf_plain (e : Ev α) (h : IsPlainCall e) : jumpOf e = none := by
  cases e <;> simp [IsPlainCall] at h <;> rfl
theorem sweepOf_plain (e : Ev α) (h : IsPlainCall e) : sweepOf e = none := by
  cases e <;> simp [IsPlainCall] at h <;> rfl

/-- the sweep part of a step contributes no mark, no jump and exactly one sweep record -/
theorem sweep_part (b : St α) (recs : List (Rec α)) (rest : List (Ev α))
    (hm : recs.map Rec.ev = .sweep b.step b.cur b.tgt :: rest) (hp : ∀ e ∈ rest, IsPlainCall e) :
    marks recs = [] ∧ jumps recs = [] ∧ sweeps recs = [(b.step, b.cur, b.tgt)] := by
  refine ⟨?_, ?_, ?_⟩
  · rw [marks, filterMap_evs, hm, List.filterMap_cons]
    simp only [markOf]
    exact plain_filter _ markOf_plain rest hp
  · rw [jumps, filterMap_evs, hm, List.filterMap_cons]
    simp only [jumpOf]
    exact plain_filter _ jumpOf_plain rest hp
  · rw [sweeps, filterMap_evs, hm, List.filterMap_cons]
    simp only [sweepOf]
    rw [plain_filter _ sweepOf_plain rest hp]


/-! ### Invariants of the noisy run -/

structure GridOk (c : Cfg α) : Prop where
  n2 : 2 ≤ c.n
  grid : Grid c
  mono : ∀ (i : Nat) (a b : α), c.times[i]? = some a → c.times[i + 1]? = some b → a ≤ b

/-- What is known about an open root search `r` in a step `[tk, tk1]`: it is the state handed
back by `get_next_abscissa` from a bracket state `r0` that satisfies C19's `Good` inside the
step, the abscissa asked for is the current `target_time`, and `current_time` is in the hull. -/
def SearchInv (tk tk1 : α) (b : St α) (r : Brent.St α) : Prop :=
  ∃ r0 L H w, Good L H w r0 ∧ r = (getNext r0).1 ∧ b.tgt = (getNext r0).2 ∧ tk ≤ L ∧ H ≤ tk1
    ∧ L ≤ b.cur ∧ b.cur ≤ H

structure NInv (c : Cfg α) (s : NSt α) : Prop where
  start : SweepStart c s.base
  stepLe : s.base.step ≤ c.nsteps
  fin : c.nsteps ≤ s.base.step → s.rf = none
  live : s.base.step < c.nsteps → ∃ tk tk1, c.times[s.base.step]? = some tk
      ∧ c.times[s.base.step + 1]? = some tk1 ∧ tk ≤ tk1
      ∧ (s.rf = none → s.base.tgt = tk1 ∧ tk ≤ s.base.cur ∧ s.base.cur ≤ tk1)
      ∧ (∀ r, s.rf = some r → SearchInv tk tk1 s.base r)

/-- `provide_ordinate(x, y)` makes `x` an end of the bracket, with ordinate `y`. -/
theorem provide_endpoint (r : Brent.St α) (x y : α) :
    ((provide r x y).a = x ∧ (provide r x y).fa = y) ∨ ((provide r x y).b = x ∧ (provide r x y).fb = y) := by
  unfold provide
  rcases updateInterval_cases r x y with ⟨e, _⟩ | ⟨e, _⟩ <;> rw [e]
  · rcases swap_cases ({ r with b := x, fb := y } : Brent.St α) with ⟨e2, _⟩ | ⟨e2, _⟩ <;> rw [e2]
    · right; exact ⟨rfl, rfl⟩
    · left; exact ⟨rfl, rfl⟩
  · rcases swap_cases ({ r with a := x, fa := y } : Brent.St α) with ⟨e2, _⟩ | ⟨e2, _⟩ <;> rw [e2]
    · left; exact ⟨rfl, rfl⟩
    · right; exact ⟨rfl, rfl⟩

/-- What a jump comes with: a bracket `r1` inside the step, narrower than the 1 ns tolerance,
with a sign change of the gap, one of whose ends is the jump time with the gap just measured
there. -/
def JumpFacts (tk tk1 t g : α) : Prop :=
  ∃ r1 : Brent.St α, ((r1.a = t ∧ r1.fa = g) ∨ (r1.b = t ∧ r1.fb = g)) ∧ |r1.b - r1.a| < 1
    ∧ r1.fa * r1.fb ≤ 0 ∧ tk ≤ min r1.a r1.b ∧ max r1.a r1.b ≤ tk1

/-- The four things a completed sweep can be. -/
inductive Outcome (c : Cfg α) (s : NSt α) (e : Env α) (s' : NSt α) (evs : List (Rec α)) : Prop where
  | done (h0 : s.rf = none) (h1 : s'.rf = none) (hs : s'.base.step = s.base.step + 1)
      (hm : marks evs = [.fill (c.times.getD (s.base.step + 1) 0), .done s.base.step])
      (hj : jumps evs = []) (hg : ¬ e.sq - s.thr < 0)
      (ht : s'.thr = s.thr ∧ s'.gap = e.sq - s.thr)
  | opened (h0 : s.rf = none) (h1 : s'.rf.isSome = true) (hs : s'.base.step = s.base.step)
      (hm : marks evs = []) (hj : jumps evs = []) (hg : e.sq - s.thr < 0)
      (ht : s'.thr = s.thr)
  | cont (h0 : s.rf.isSome = true) (h1 : s'.rf.isSome = true) (hs : s'.base.step = s.base.step)
      (hm : marks evs = []) (hj : jumps evs = []) (ht : s'.thr = s.thr)
      (hw : ∃ tk tk1, c.times[s.base.step]? = some tk ∧ c.times[s.base.step + 1]? = some tk1
              ∧ 1 ≤ tk1 - tk)
  | jumped (h0 : s.rf.isSome = true) (h1 : s'.rf = none) (hs : s'.base.step = s.base.step)
      (hm : marks evs = []) (hj : jumps evs = [s.base.tgt])
      (hf : ∃ tk tk1, c.times[s.base.step]? = some tk ∧ c.times[s.base.step + 1]? = some tk1
              ∧ JumpFacts tk tk1 s.base.tgt (e.sq - s.thr) ∧ s'.base.tgt = tk1)
      (ht : s'.thr = uniform0 e.psq e.u ∧ s'.gap = e.psq - uniform0 e.psq e.u
              ∧ s'.base.cur = s.base.tgt)

/-- The only two ways `NoisyMPSBackendImpl.sweep_complete` can raise from a reachable state. -/
def ErrFacts (c : Cfg α) (s : NSt α) (e : Env α) (err : Err) : Prop :=
  (err = .brentInit ∧ s.rf = none ∧ e.sq - s.thr < 0 ∧ ¬ (s.gap * (e.sq - s.thr) < 0))
  ∨ (err = .zeroDiv ∧ s.rf.isSome = true
      ∧ ∃ tk tk1, c.times[s.base.step]? = some tk ∧ c.times[s.base.step + 1]? = some tk1 ∧ 1 ≤ tk1 - tk)

theorem init_none {a b fa fb eps : α} (h : Brent.init a b fa fb eps = none) : ¬ a ≤ b ∨ ¬ fa * fb < 0 := by
  unfold Brent.init at h
  by_cases h1 : a ≤ b
  · by_cases h2 : fa * fb < 0
    · simp [h1, (Brent.oppSign_iff fa fb).mpr h2] at h
    · right; exact h2
  · left; exact h1

/-- right after `__init__` the first `get_next_abscissa` is a secant step with a non-zero
denominator: it cannot raise -/
theorem init_no_zeroDiv {a b fa fb eps : α} {r : Brent.St α} (heps : 0 < eps)
    (h : Brent.init a b fa fb eps = some r) : divZero r = false := by
  obtain ⟨hle, hlt, _, _, _, he, _, _, hcase⟩ := init_some h
  have hfc : r.fc = r.fa := by
    unfold Brent.init at h
    simp only [hle, (oppSign_iff _ _).mpr hlt, not_true_eq_false, if_false, Option.some.injEq] at h
    rw [← h]
  have hne : r.fa - r.fb ≠ 0 := by
    intro h0
    have : r.fa = r.fb := by linarith
    rcases hcase with ⟨_, _, e1, e2⟩ | ⟨_, _, e1, e2⟩
    · rw [e1, e2] at this; rw [this] at hlt; nlinarith [mul_self_nonneg fb]
    · rw [e1, e2] at this; rw [this] at hlt; nlinarith [mul_self_nonneg fa]
  have hsec : useSecant r = true := by
    simp [useSecant, hfc, absv_eq_abs, he, heps]
  simp only [divZero, hsec, if_true, isZero]
  rcases lt_or_gt_of_ne hne with h1 | h1
  · simp [h1]
  · simp [h1, not_lt.mpr (le_of_lt h1)]

theorem marks_pre (c : Cfg α) (b : St α) : marks (preRecs c b) = [] := by
  unfold preRecs; split <;> simp [marks, markOf, St.snap]
theorem jumps_pre (c : Cfg α) (b : St α) : jumps (preRecs c b) = [] := by
  unfold preRecs; split <;> simp [jumps, jumpOf, St.snap]
theorem sweeps_pre (c : Cfg α) (b : St α) : sweeps (preRecs c b) = [] := by
  unfold preRecs; split <;> simp [sweeps, sweepOf, St.snap]

/-- `NoisyMPSBackendImpl.sweep_complete`, case by case. -/
theorem nsc_cases (c : Cfg α) (hc : GridOk c) (s : NSt α) (e : Env α) (hi : NInv c s)
    (hlive : s.base.step < c.nsteps) :
    (∃ err, nsweepComplete c s e = .error err ∧ ErrFacts c s e err) ∨
    ∃ s' evs, nsweepComplete c s e = .ok (s', evs) ∧ NInv c s' ∧ sweeps evs = []
      ∧ Outcome c s e s' evs := by
  obtain ⟨tk, tk1, htk, htk1, hle, hnone, hsome⟩ := hi.live hlive
  have hst := hi.start
  have hn2 := hc.n2
  unfold nsweepComplete
  cases hrf : s.rf with
  | none =>
    obtain ⟨htgt, hcl, hcu⟩ := hnone hrf
    simp only
    by_cases hg : e.sq - s.thr < 0
    · -- a search is opened
      simp only [hg, if_true]
      unfold openSearch
      cases hin : Brent.init s.base.cur s.base.tgt s.gap (e.sq - s.thr) 1 with
      | none =>
        left
        refine ⟨.brentInit, rfl, Or.inl ⟨rfl, hrf, hg, ?_⟩⟩
        rcases init_none hin with h | h
        · exact absurd (by rw [htgt]; exact hcu) h
        · exact h
      | some r0 =>
        simp only
        have hz : ¬ divZero r0 = true := by rw [init_no_zeroDiv one_pos hin]; simp
        · right
          simp only [hz, Bool.false_eq_true, if_false]
          have hgood := good_init hin
          refine ⟨_, _, rfl, ⟨⟨hst.l2r, hst.sweep, hst.lb, hst.rb, hst.centre⟩, hi.stepLe, ?_, ?_⟩, rfl,
            .opened hrf rfl rfl rfl rfl hg rfl⟩
          · intro h; exact absurd hlive (by simpa using Nat.not_lt.mpr h)
          · intro _
            refine ⟨tk, tk1, htk, htk1, hle, fun h => by simp at h, ?_⟩
            intro r hr
            simp only [Option.some.injEq] at hr
            subst hr
            refine ⟨r0, s.base.cur, s.base.tgt, _, hgood, rfl, rfl, hcl, by rw [htgt], ?_, le_refl _⟩
            show s.base.cur ≤ s.base.tgt
            rw [htgt]; exact hcu
    · -- the step completes
      simp only [hg, if_false]
      right
      have hgetD : c.times.getD (s.base.step + 1) 0 = tk1 := by
        rw [List.getD_eq_getElem?_getD, htk1]; rfl
      by_cases hnext : s.base.step + 1 < c.nsteps
      · have hlt : s.base.step + 2 < c.times.length := by have := hc.grid; unfold Grid at this; omega
        have ht2 : c.times[s.base.step + 2]? = some c.times[s.base.step + 2] := List.getElem?_eq_getElem hlt
        have hcont := timestepComplete_cont c { s.base with cur := s.base.tgt } _ hn2 hnext ht2
        rw [hcont]
        refine ⟨_, _, rfl, ⟨⟨hst.l2r, hst.sweep, rfl, by show c.n - 1 + 1 = c.n; omega, hst.centre⟩,
          by show s.base.step + 1 ≤ c.nsteps; omega, fun _ => rfl, ?_⟩, ?_, .done hrf rfl rfl ?_ ?_ hg ⟨rfl, rfl⟩⟩
        · intro _
          refine ⟨tk1, c.times[s.base.step + 2], htk1, ht2, hc.mono _ _ _ htk1 ht2,
            fun _ => ⟨rfl, ?_, ?_⟩, fun r hr => by simp at hr⟩
          · show tk1 ≤ s.base.tgt; rw [htgt]
          · show s.base.tgt ≤ c.times[s.base.step + 2]; rw [htgt]; exact hc.mono _ _ _ htk1 ht2
        · rw [sweeps_append, sweeps_pre]; simp [sweeps, sweepOf, St.snap]
        · rw [marks_append, marks_pre, hgetD, ← htgt]; simp [marks, markOf, St.snap]
        · rw [jumps_append, jumps_pre]; simp [jumps, jumpOf, St.snap]
      · have hlast := timestepComplete_last c { s.base with cur := s.base.tgt } hnext
        rw [hlast]
        refine ⟨_, _, rfl, ⟨⟨hst.l2r, hst.sweep, hst.lb, hst.rb, hst.centre⟩,
          by show s.base.step + 1 ≤ c.nsteps; omega, fun _ => rfl, ?_⟩, ?_, .done hrf rfl rfl ?_ ?_ hg ⟨rfl, rfl⟩⟩
        · intro h; exact absurd (show s.base.step + 1 < c.nsteps from h) hnext
        · rw [sweeps_append, sweeps_pre]; simp [sweeps, sweepOf, St.snap]
        · rw [marks_append, marks_pre, hgetD, ← htgt]; simp [marks, markOf, St.snap]
        · rw [jumps_append, jumps_pre]; simp [jumps, jumpOf, St.snap]
  | some r =>
    obtain ⟨r0, L, H, w, hgood, hr, htgt, hL, hH, hcl, hcu⟩ := hsome r hrf
    simp only
    have hstep := good_step r0 (e.sq - s.thr) hgood
    subst hr
    rw [← htgt] at hstep
    obtain ⟨hg1, hx1, hx2⟩ := hstep
    by_cases hconv : isConverged (provide (getNext r0).1 s.base.tgt (e.sq - s.thr)) 1 = true
    · -- the search has converged: jump
      simp only [hconv, if_true]
      have h2 : ¬ c.n < 2 := by omega
      simp only [doJump, initBaths, h2, if_false, htk1]
      right
      refine ⟨_, _, rfl, ⟨⟨hst.l2r, hst.sweep, rfl, by show c.n - 1 + 1 = c.n; omega, rfl⟩, hi.stepLe,
        fun _ => rfl, ?_⟩, by simp [sweeps, sweepOf, St.snap],
        .jumped (by simp [hrf]) rfl rfl (by simp [marks, markOf, St.snap]) (by simp [jumps, jumpOf, St.snap])
          ⟨tk, tk1, htk, htk1, ⟨_, ?_, ?_, hg1.inv.sign, le_trans hL hg1.loL, le_trans hg1.hiH hH⟩, rfl⟩
          ⟨rfl, rfl, rfl⟩⟩
      · intro _
        refine ⟨tk, tk1, htk, htk1, hle, fun _ => ⟨rfl, le_trans hL hx1, le_trans hx2 hH⟩,
          fun r hr => by simp at hr⟩
      · exact provide_endpoint _ _ _
      · simpa [isConverged, absv_eq_abs] using hconv
    · -- one more abscissa
      simp only [hconv, Bool.false_eq_true, if_false]
      have hwide : 1 ≤ tk1 - tk := by
        have h1 : ¬ |(provide (getNext r0).1 s.base.tgt (e.sq - s.thr)).b
                    - (provide (getNext r0).1 s.base.tgt (e.sq - s.thr)).a| < 1 := by
          simpa [isConverged, absv_eq_abs] using hconv
        rw [← width_eq] at h1
        have := hg1.loL; have := hg1.hiH
        linarith [not_lt.mp h1]
      by_cases hz : divZero (provide (getNext r0).1 s.base.tgt (e.sq - s.thr)) = true
      · left
        exact ⟨.zeroDiv, by simp [hz], Or.inr ⟨rfl, by simp [hrf], tk, tk1, htk, htk1, hwide⟩⟩
      · right
        simp only [hz, Bool.false_eq_true, if_false]
        refine ⟨_, _, rfl, ⟨⟨hst.l2r, hst.sweep, hst.lb, hst.rb, hst.centre⟩, hi.stepLe, ?_, ?_⟩, rfl,
          .cont (by simp [hrf]) rfl rfl rfl rfl rfl ⟨tk, tk1, htk, htk1, hwide⟩⟩
        · intro h; exact absurd hlive (by simpa using Nat.not_lt.mpr h)
        · intro _
          refine ⟨tk, tk1, htk, htk1, hle, fun h => by simp at h, ?_⟩
          intro r' hr'
          simp only [Option.some.injEq] at hr'
          subst hr'
          exact ⟨_, L, H, w, hg1, rfl, rfl, hL, hH, hx1, hx2⟩


theorem Outcome.withPrefix {c : Cfg α} {s s' : NSt α} {e : Env α} {evs : List (Rec α)} (recs : List (Rec α))
    (hm : marks recs = []) (hj : jumps recs = []) (h : Outcome c s e s' evs) :
    Outcome c s e s' (recs ++ evs) := by
  cases h with
  | done h0 h1 hs hm' hj' hg ht => exact .done h0 h1 hs (by rw [marks_append, hm, hm']; rfl) (by rw [jumps_append, hj, hj']; rfl) hg ht
  | opened h0 h1 hs hm' hj' hg ht => exact .opened h0 h1 hs (by rw [marks_append, hm, hm']; rfl) (by rw [jumps_append, hj, hj']; rfl) hg ht
  | cont h0 h1 hs hm' hj' ht hw => exact .cont h0 h1 hs (by rw [marks_append, hm, hm']; rfl) (by rw [jumps_append, hj, hj']; rfl) ht hw
  | jumped h0 h1 hs hm' hj' hf ht => exact .jumped h0 h1 hs (by rw [marks_append, hm, hm']; rfl) (by rw [jumps_append, hj, hj']; rfl) hf ht

/-- One sweep of the noisy back-end followed by its `sweep_complete`, case by case. -/
theorem nstep_cases (c : Cfg α) (hc : GridOk c) (s : NSt α) (e : Env α) (hi : NInv c s)
    (hlive : s.base.step < c.nsteps) :
    (∃ err, nstep c s e = .error err ∧ ErrFacts c s e err) ∨
    ∃ s' evs, nstep c s e = .ok (s', evs) ∧ NInv c s'
      ∧ sweeps evs = [(s.base.step, s.base.cur, s.base.tgt)] ∧ Outcome c s e s' evs := by
  obtain ⟨recs, rest, hsw, hmap, hplain⟩ := sweepCore_start c s.base hc.n2 hi.start
  obtain ⟨hm, hj, hs⟩ := sweep_part s.base recs rest hmap hplain
  unfold nstep
  rw [hsw]
  simp only
  rcases nsc_cases c hc s e hi hlive with ⟨err, h, hE⟩ | ⟨s', evs, h, hi', hsw', ho⟩
  · left; exact ⟨err, by rw [show ({ s with base := s.base } : NSt α) = s from rfl, h], hE⟩
  · right
    refine ⟨s', recs ++ evs, by rw [show ({ s with base := s.base } : NSt α) = s from rfl, h], hi', ?_,
      ho.withPrefix recs hm hj⟩
    rw [sweeps_append, hs, hsw']; rfl

/-- `current_time` and `target_time` of a live state lie in the current step. -/
theorem ninv_times (c : Cfg α) (s : NSt α) (hi : NInv c s) (hlive : s.base.step < c.nsteps) :
    ∃ tk tk1, c.times[s.base.step]? = some tk ∧ c.times[s.base.step + 1]? = some tk1
      ∧ tk ≤ s.base.cur ∧ s.base.cur ≤ tk1 ∧ tk ≤ s.base.tgt ∧ s.base.tgt ≤ tk1 := by
  obtain ⟨tk, tk1, htk, htk1, hle, hnone, hsome⟩ := hi.live hlive
  refine ⟨tk, tk1, htk, htk1, ?_⟩
  cases hrf : s.rf with
  | none =>
    obtain ⟨h1, h2, h3⟩ := hnone hrf
    exact ⟨h2, h3, by rw [h1]; exact hle, by rw [h1]⟩
  | some r =>
    obtain ⟨r0, L, H, w, hgood, _, htgt, hL, hH, hcl, hcu⟩ := hsome r hrf
    have hm := getNext_mem r0
    exact ⟨le_trans hL hcl, le_trans hcu hH, by rw [htgt]; exact le_trans hL (le_trans hgood.loL hm.1),
      by rw [htgt]; exact le_trans hm.2 (le_trans hgood.hiH hH)⟩

theorem nrun_nil (c : Cfg α) (s : NSt α) :
    nrun c [] s = ([], s, if finished c s.base then .done else .tapeOut) := rfl

theorem nrun_finished (c : Cfg α) (e : Env α) (es : List (Env α)) (s : NSt α) (h : finished c s.base = true) :
    nrun c (e :: es) s = ([], s, .done) := by
  simp [nrun, h]

theorem nrun_error (c : Cfg α) (e : Env α) (es : List (Env α)) (s : NSt α) (err : Err)
    (hf : finished c s.base = false) (h : nstep c s e = .error err) :
    nrun c (e :: es) s = ([], s, .err err) := by
  simp [nrun, hf, h]

theorem nrun_ok (c : Cfg α) (e : Env α) (es : List (Env α)) (s s1 : NSt α) (evs : List (Rec α))
    (hf : finished c s.base = false) (h : nstep c s e = .ok (s1, evs)) :
    nrun c (e :: es) s = (evs ++ (nrun c es s1).1, (nrun c es s1).2.1, (nrun c es s1).2.2) := by
  simp [nrun, hf, h]

theorem not_finished_iff (c : Cfg α) (b : St α) : finished c b = false ↔ b.step < c.nsteps := by
  simp [finished]


/-! ### Forced bisection: the potential of an open search -/

/-- C19's forced-bisection guard (ε = 1) for every step from `k0` on, steps shorter than `2^(n+1)`. -/
def ForcedGrid (c : Cfg α) (k0 n : Nat) : Prop :=
  ∀ (k : Nat) (tk tk1 : α), k0 ≤ k → c.times[k]? = some tk → c.times[k + 1]? = some tk1 →
    0 < tk ∧ tk1 - tk < 2 * tk ∧ tk1 - tk < 2 ^ (n + 1)

/-- an open search is in C19's `Forced` regime and its bracket is narrower than `2^(h+1)` -/
def FInv (s : NSt α) (h : Nat) : Prop :=
  ∀ r, s.rf = some r → ∃ r0 L H, Forced L H r0 ∧ r = (getNext r0).1 ∧ s.base.tgt = (getNext r0).2
    ∧ |r0.b - r0.a| < 2 ^ (h + 1)

theorem nsc_forced (c : Cfg α) (hc : GridOk c) (s : NSt α) (e : Env α) (hi : NInv c s)
    (hlive : s.base.step < c.nsteps) (n h : Nat) (hF : ForcedGrid c s.base.step n) (hf : FInv s h)
    (s' : NSt α) (evs : List (Rec α)) (hok : nsweepComplete c s e = .ok (s', evs)) :
    (s.rf = none → FInv s' n) ∧ (s.rf.isSome = true → s'.rf.isSome = true → 1 ≤ h ∧ FInv s' (h - 1)) := by
  obtain ⟨tk, tk1, htk, htk1, hle, hnone, hsome⟩ := hi.live hlive
  obtain ⟨hpos, hnar, hwid⟩ := hF s.base.step tk tk1 (le_refl _) htk htk1
  have hn2 := hc.n2
  unfold nsweepComplete at hok
  cases hrf : s.rf with
  | none =>
    refine ⟨fun _ => ?_, fun h => by simp [hrf] at h⟩
    obtain ⟨htgt, hcl, hcu⟩ := hnone hrf
    rw [hrf] at hok
    simp only at hok
    by_cases hg : e.sq - s.thr < 0
    · simp only [hg, if_true] at hok
      unfold openSearch at hok
      cases hin : Brent.init s.base.cur s.base.tgt s.gap (e.sq - s.thr) 1 with
      | none => rw [hin] at hok; simp at hok
      | some r0 =>
        rw [hin] at hok
        have hz := init_no_zeroDiv one_pos hin
        simp only [hz, Bool.false_eq_true, if_false, Except.ok.injEq, Prod.mk.injEq] at hok
        obtain ⟨e1, _⟩ := hok
        subst e1
        intro r hr
        simp only [Option.some.injEq] at hr
        subst hr
        have hcp : 0 < s.base.cur := lt_of_lt_of_le hpos hcl
        have hfi := forced_init hin hcp one_pos (by rw [htgt]; linarith)
        obtain ⟨_, _, _, hlo, hhi, _⟩ := init_some hin
        refine ⟨r0, s.base.cur, s.base.tgt, hfi, rfl, rfl, ?_⟩
        rw [← width_eq, hlo, hhi, htgt]
        linarith
    · simp only [hg, if_false] at hok
      cases htc : timestepComplete c { s.base with cur := s.base.tgt } with
      | error err => rw [htc] at hok; simp at hok
      | ok v =>
        rw [htc] at hok
        simp only [Except.ok.injEq, Prod.mk.injEq] at hok
        obtain ⟨e1, _⟩ := hok
        subst e1
        intro r hr
        simp at hr
  | some r =>
    refine ⟨fun h => by simp at h, fun _ hs' => ?_⟩
    obtain ⟨r0, L, H, hFo, hr, htgt, hw⟩ := hf r hrf
    rw [hrf] at hok
    simp only at hok
    subst hr
    have hfs := forced_step r0 (e.sq - s.thr) hFo
    rw [← htgt] at hfs
    obtain ⟨hF1, hw1⟩ := hfs
    by_cases hconv : isConverged (provide (getNext r0).1 s.base.tgt (e.sq - s.thr)) 1 = true
    · exfalso
      have h2 : ¬ c.n < 2 := by omega
      simp only [hconv, if_true, doJump, initBaths, h2, if_false, htk1, Except.ok.injEq, Prod.mk.injEq] at hok
      obtain ⟨e1, _⟩ := hok
      subst e1
      simp at hs'
    · have hnc : ¬ |(provide (getNext r0).1 s.base.tgt (e.sq - s.thr)).b
                    - (provide (getNext r0).1 s.base.tgt (e.sq - s.thr)).a| < 1 := by
        simpa [isConverged, absv_eq_abs] using hconv
      rw [hw1] at hnc
      have hh : 1 ≤ h := by
        by_contra hlt
        have h0 : h = 0 := by omega
        subst h0
        apply hnc
        have : |r0.b - r0.a| < 2 := by simpa using hw
        linarith
      refine ⟨hh, ?_⟩
      simp only [hconv, Bool.false_eq_true, if_false] at hok
      by_cases hz : divZero (provide (getNext r0).1 s.base.tgt (e.sq - s.thr)) = true
      · simp [hz] at hok
      · simp only [hz, Bool.false_eq_true, if_false, Except.ok.injEq, Prod.mk.injEq] at hok
        obtain ⟨e1, _⟩ := hok
        subst e1
        intro r' hr'
        simp only [Option.some.injEq] at hr'
        subst hr'
        refine ⟨_, L, H, hF1, rfl, rfl, ?_⟩
        rw [hw1]
        have e2 : h - 1 + 1 = h := by omega
        rw [e2]
        have : (2 : α) ^ (h + 1) = 2 ^ h * 2 := pow_succ 2 h
        linarith

/-- `nstep` is the sweep followed by `nsweepComplete` on the same state. -/
theorem nstep_ok_nsc (c : Cfg α) (hc : GridOk c) (s : NSt α) (e : Env α) (hi : NInv c s)
    (s' : NSt α) (evs : List (Rec α)) (h : nstep c s e = .ok (s', evs)) :
    ∃ evs1, nsweepComplete c s e = .ok (s', evs1) := by
  obtain ⟨recs, rest, hsw, _, _⟩ := sweepCore_start c s.base hc.n2 hi.start
  unfold nstep at h
  rw [hsw] at h
  simp only at h
  rw [show ({ s with base := s.base } : NSt α) = s from rfl] at h
  cases hn : nsweepComplete c s e with
  | error err => rw [hn] at h; simp at h
  | ok v =>
    rw [hn] at h
    simp only [Except.ok.injEq, Prod.mk.injEq] at h
    exact ⟨v.2, by rw [← h.1]⟩

end EmuVerif.Stepper
