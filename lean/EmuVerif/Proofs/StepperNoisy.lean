/-
  Helper lemmas about the noisy layer of `Model.Stepper` (quantum-jump stepping), read over an
  arbitrary linear ordered field. Reuses the bracket invariants of C19 (`Good`, `Forced`,
  `good_init`, `good_step`, `forced_init`, `forced_step`) and the sweep theorems of C02.
-/
import EmuVerif.Props.C19
import EmuVerif.Props.C02

set_option linter.unusedSectionVars false
set_option linter.unusedVariables false

namespace EmuVerif.Stepper
open EmuVerif EmuVerif.Brent EmuVerif.Props.C19 EmuVerif.Props.C02

variable {α : Type} [Field α] [LinearOrder α] [IsStrictOrderedRing α]

/-! ### The sweep in front of every `sweep_complete` -/

/-- the four kinds of local work a sweep consists of -/
def IsPlainCall (e : Ev α) : Prop :=
  match e with
  | .pair _ _ _ => True | .single _ _ => True | .leftBath _ => True | .rightBath _ => True
  | _ => False

theorem plain_fwdEvs (dt : α) (j : Nat) : ∀ e ∈ fwdEvs dt j, IsPlainCall e := by
  intro e he; simp only [fwdEvs, List.mem_cons, List.not_mem_nil, or_false] at he
  rcases he with h | h | h <;> subst h <;> trivial

theorem plain_bwdEvs (dt : α) (j : Nat) : ∀ e ∈ bwdEvs dt j, IsPlainCall e := by
  intro e he; simp only [bwdEvs, List.mem_cons, List.not_mem_nil, or_false] at he
  rcases he with h | h | h <;> subst h <;> trivial

theorem plain_symSeq (n : Nat) (dt : α) : ∀ e ∈ symSeq n dt, IsPlainCall e := by
  intro e he
  simp only [symSeq, List.mem_append, List.mem_flatMap, List.mem_cons, List.not_mem_nil, or_false] at he
  rcases he with (⟨j, _, h⟩ | h) | ⟨j, _, h⟩
  · exact plain_fwdEvs dt j e h
  · subst h; trivial
  · exact plain_bwdEvs dt j e h

/-- From the sweep-start position the sweep always succeeds, comes back to the same state,
and consists of the `sweep` marker followed by plain local calls. -/
theorem sweepCore_start (c : Cfg α) (b : St α) (hn : 2 ≤ c.n) (hs : SweepStart c b) :
    ∃ recs rest, sweepCore c b = .ok (b, recs)
      ∧ recs.map Rec.ev = .sweep b.step b.cur b.tgt :: rest ∧ ∀ e ∈ rest, IsPlainCall e := by
  by_cases h2 : c.n = 2
  · refine ⟨_, _, two_site_step c b h2 hs, rfl, ?_⟩
    intro e he
    simp only [List.map_cons, List.map_nil, List.mem_cons, List.not_mem_nil, or_false] at he
    subst he; trivial
  · obtain ⟨recs, h, hm, _⟩ := one_step_sequence c b (by omega) hs
    exact ⟨recs, _, h, hm, plain_symSeq _ _⟩

/-! ### Marks: the `fill_results` / step-completion / jump events of a trace -/

inductive Mark (α : Type) where
  | fill (t : α)
  | done (k : Nat)

def markOf : Ev α → Option (Mark α)
  | .fill t => some (.fill t)
  | .stepDone k => some (.done k)
  | _ => none

def marks (l : List (Rec α)) : List (Mark α) := l.filterMap (fun r => markOf r.ev)

def jumpOf : Ev α → Option α
  | .jump t => some t
  | _ => none

/-- times of the jumps of a trace, in order -/
def jumps (l : List (Rec α)) : List α := l.filterMap (fun r => jumpOf r.ev)

/-- `(k, from, to)` of the sweeps of a trace, in order -/
def sweepOf : Ev α → Option (Nat × α × α)
  | .sweep k a b => some (k, a, b)
  | _ => none

def sweeps (l : List (Rec α)) : List (Nat × α × α) := l.filterMap (fun r => sweepOf r.ev)

theorem marks_append (l1 l2 : List (Rec α)) : marks (l1 ++ l2) = marks l1 ++ marks l2 := by
  simp [marks]
theorem jumps_append (l1 l2 : List (Rec α)) : jumps (l1 ++ l2) = jumps l1 ++ jumps l2 := by
  simp [jumps]
theorem sweeps_append (l1 l2 : List (Rec α)) : sweeps (l1 ++ l2) = sweeps l1 ++ sweeps l2 := by
  simp [sweeps]

theorem filterMap_evs {β : Type} (f : Ev α → Option β) (l : List (Rec α)) :
    l.filterMap (fun r => f r.ev) = (l.map Rec.ev).filterMap f := by
  induction l with
  | nil => rfl
  | cons a l ih => simp [List.filterMap_cons, ih]

theorem plain_filter {β : Type} (f : Ev α → Option β) (hf : ∀ e, IsPlainCall e → f e = none)
    (rest : List (Ev α)) (h : ∀ e ∈ rest, IsPlainCall e) : rest.filterMap f = [] := by
  induction rest with
  | nil => rfl
  | cons a l ih =>
    have ha := hf a (h a (by simp))
    simp only [List.filterMap_cons, ha]
    exact ih (fun e he => h e (by simp [he]))

theorem markOf_plain (e : Ev α) (h : IsPlainCall e) : markOf e = none := by
  cases e <;> simp [IsPlainCall] at h <;> rfl
theorem jumpOf_plain (e : Ev α) (h : IsPlainCall e) : jumpOf e = none := by
  cases e <;> simp [IsPlainCall] at h <;> rfl
theorem sweepOf_plain (e : Ev α) (h : IsPlainCall e) : sweepOf e = none := by
  cases e <;> simp [IsPlainCall] at h <;> rfl

/-- the sweep part of a step contributes no mark, no jump and exactly one sweep record -/
theorem sweep_part (b : St α) (recs : List (Rec α)) (rest : List (Ev α))
    (hm : recs.map Rec.ev = .sweep b.step b.cur b.tgt :: rest) (hp : ∀ e ∈ rest, IsPlainCall e) :
    marks recs = [] ∧ jumps recs = [] ∧ sweeps recs = [(b.step, b.cur, b.tgt)] := by
  refine ⟨?_, ?_, ?_⟩
  · rw [marks, filterMap_evs, hm, List.filterMap_cons]
    simp only [markOf]
    exact plain_filter _ markOf_plain rest hp
  · rw [jumps, filterMap_evs, hm, List.filterMap_cons]
    simp only [jumpOf]
    exact plain_filter _ jumpOf_plain rest hp
  · rw [sweeps, filterMap_evs, hm, List.filterMap_cons]
    simp only [sweepOf]
    rw [plain_filter _ sweepOf_plain rest hp]

end EmuVerif.Stepper
