/-
  Proofs for C30: each `DHD*Sparse @ v` is the exact partial derivative of `H·v` (H is affine in Ω_k, δ_k, U_ij:
  finite-difference identities without limits; φ through the abstract rotation), and the slot bookkeeping.
-/
import EmuVerif.Model.SvGrad
import EmuVerif.Proofs.SvSym
set_option linter.unusedSectionVars false
set_option linter.unusedVariables false
set_option linter.unusedSimpArgs false
set_option linter.unnecessarySeqFocus false
namespace EmuVerif.SvGrad
open EmuVerif EmuVerif.TreeVec EmuVerif.SvOps EmuVerif.SvState EmuVerif.SvObs EmuVerif.SvSym
variable {κ β : Type} {n : Nat}

/-- `f` with the value at `k` replaced -/
def upd {γ : Type} (f : Nat → γ) (k : Nat) (x : γ) : Nat → γ := fun j => if j = k then x else f j

theorem sum_update {M : Type} [AddCommMonoid M] (f f' : Nat → M) (k : Nat) (d : M) :
    ∀ (l : List Nat), l.Nodup → k ∈ l → f' k = f k + d → (∀ j, j ≠ k → f' j = f j) →
      (l.map f').sum = (l.map f).sum + d
  | [], _, hk, _, _ => by simp at hk
  | a :: l, hnd, hk, h1, h2 => by
    have hnd' := List.nodup_cons.mp hnd
    by_cases ha : a = k
    · subst ha
      have : l.map f' = l.map f := List.map_congr_left (fun j hj => h2 j (fun e => hnd'.1 (e ▸ hj)))
      simp only [List.map_cons, List.sum_cons, this, h1]; abel
    · have hk' : k ∈ l := by
        rcases List.mem_cons.mp hk with e | e
        · exact absurd e.symm ha
        · exact e
      simp only [List.map_cons, List.sum_cons, sum_update f f' k d l hnd'.2 hk' h1 h2, h2 a ha]; abel

section ops
variable [CommRing κ] [StarRing κ] [CxLike κ] [LawfulCx κ] [AddCommGroup β] [Module κ β]

theorem zerosLike_eq (v : Vec β n) : zerosLike v = 0 := Vec.map_const_zero v

theorem keep1_eq : ∀ {n} (k : Nat) (_ : k < n) (v : Vec β n), keep1 k v = applyAt k (M2.nOp : M2 κ) v
  | _, 0, _, .node a b => by rw [applyAt_nOp_zero]; simp [keep1, Vec.map_const_zero]
  | _, k + 1, h, .node a b => by
    have ha : keep1 k a = applyAt k (M2.nOp : M2 κ) a := keep1_eq k (Nat.lt_of_succ_lt_succ h) a
    have hb : keep1 k b = applyAt k (M2.nOp : M2 κ) b := keep1_eq k (Nat.lt_of_succ_lt_succ h) b
    simp only [keep1, applyAt, ha, hb]

/-- `DHDDeltaSparse @ v = −n_k v` -/
theorem dhdDelta_eq (k : Nat) (hk : k < n) (v : Vec β n) : dhdDelta k v = -(applyAt k (M2.nOp : M2 κ) v) := by
  unfold dhdDelta; rw [keep1_eq (κ := κ) k hk]

/-- `DHDUSparse @ v = n_i n_j v` -/
theorem dhdU_eq : ∀ {n} (i j : Nat) (_ : i < j) (_ : j < n) (v : Vec β n),
    dhdU i j v = applyAt i (M2.nOp : M2 κ) (applyAt j (M2.nOp : M2 κ) v)
  | _, 0, j + 1, _, hj, .node a b => by
    have e : applyAt (j + 1) (M2.nOp : M2 κ) (Vec.node a b)
        = Vec.node (applyAt j (M2.nOp : M2 κ) a) (applyAt j (M2.nOp : M2 κ) b) := rfl
    rw [e, applyAt_nOp_zero]
    simp [dhdU, Vec.map_const_zero, keep1_eq (κ := κ) j (Nat.lt_of_succ_lt_succ hj)]
  | _, i + 1, j + 1, hij, hj, .node a b => by
    simp only [dhdU, applyAt, Nat.add_sub_cancel]
    rw [dhdU_eq i j (Nat.lt_of_succ_lt_succ hij) (Nat.lt_of_succ_lt_succ hj) a,
      dhdU_eq i j (Nat.lt_of_succ_lt_succ hij) (Nat.lt_of_succ_lt_succ hj) b]

/-- the 2×2 block `DHDOmegaSparse` applies on qubit `k` -/
def omegaBlock (p : Phase κ) : M2 κ :=
  if p.nz then ⟨0, CxLike.conj (CxLike.half * expi p), CxLike.half * expi p, 0⟩
  else ⟨0, CxLike.half * expi p, CxLike.half * expi p, 0⟩

theorem dhdOmega_eq (p : Phase κ) (k : Nat) (hk : k < n) (v : Vec β n) :
    dhdOmega p k v = applyAt k (omegaBlock p) v := by
  unfold dhdOmega omegaBlock
  split
  · rw [indexAddAt_eq _ _ _ k hk, indexAddAt_eq _ _ _ k hk, zerosLike_eq, zero_add, ← applyAt_add_m _ _ k hk]
    congr 1; ext <;> simp [M2.unit]
  · rw [indexAddAt_eq _ _ _ k hk, indexAddAt_eq _ _ _ k hk, zerosLike_eq, zero_add, ← applyAt_add_m _ _ k hk]
    congr 1; ext <;> simp [M2.unit]

def phiBlock (ω : κ) (q : Phase κ) : M2 κ :=
  ⟨0, CxLike.conj (CxLike.half * (ω * expi q)), CxLike.half * (ω * expi q), 0⟩

theorem dhdPhi_eq (ω : κ) (q : Phase κ) (k : Nat) (hk : k < n) (v : Vec β n) :
    dhdPhi ω q k v = applyAt k (phiBlock ω q) v := by
  unfold dhdPhi phiBlock
  rw [indexAddAt_eq _ _ _ k hk, indexAddAt_eq _ _ _ k hk, zerosLike_eq, zero_add, ← applyAt_add_m _ _ k hk]
  congr 1; ext <;> simp [M2.unit]

end ops

section fd
variable [CommRing κ] [StarRing κ] [CxLike κ] [LawfulCx κ] [AddCommGroup β] [Module κ β]

theorem nodup_range (n : Nat) : (List.range n).Nodup := List.nodup_range

/-- **`DHDOmegaSparse` is the exact partial derivative w.r.t. `Ω_k`**: `H(Ω + ε e_k) v = H(Ω) v + ε · (DHDΩ_k v)` for every
real `ε` (any size — `H` is affine in `Ω_k`). `cplx` is the value of `self.complex`; a zero phase must carry the tape
values `(cos, sin) = (1, 0)`, and on the real path (`cplx = false`) the phase of qubit `k` is zero. -/
theorem omega_finite_difference (cplx : Bool) (Ω δ : Nat → κ) (ph : Nat → Phase κ) (U : Nat → Nat → κ)
    (k : Nat) (hk : k < n) (ε : κ) (hε : star ε = ε)
    (hz : (ph k).nz = false → (ph k).c = 1 ∧ (ph k).s = 0) (hr : cplx = false → (ph k).nz = false) (v : Vec β n) :
    hamMulWith cplx (upd Ω k (Ω k + ε)) δ ph U v = hamMulWith cplx Ω δ ph U v + ε • dhdOmega (ph k) k v := by
  rw [hamMulWith_eq_sum, hamMulWith_eq_sum, dhdOmega_eq _ k hk, add_assoc]
  congr 1
  refine sum_update _ _ k _ _ (nodup_range n) (List.mem_range.mpr hk) ?_ (fun j hj => ?_)
  · rw [← applyAt_smul_m _ _ k hk, ← applyAt_add_m _ _ k hk]
    congr 1
    unfold offLocal omegaBlock cOmega halfOmega upd expi
    cases cplx
    · have hnz := hr rfl
      obtain ⟨h1, h2⟩ := hz hnz
      ext <;> simp [hnz, h1, h2] <;> ring
    · cases hnz : (ph k).nz
      · obtain ⟨h1, h2⟩ := hz hnz
        ext <;> simp [h1, h2, LawfulCx.conj_eq, star_mul', hε, LawfulCx.star_half] <;> ring
      · ext <;> simp [LawfulCx.conj_eq, star_mul', star_add, hε, LawfulCx.star_half] <;> ring
  · congr 1
    unfold offLocal cOmega halfOmega upd
    simp [hj]

/-- **`DHDDeltaSparse` is the exact partial derivative w.r.t. `δ_k`** (every `ε`) -/
theorem delta_finite_difference (cplx : Bool) (Ω δ : Nat → κ) (ph : Nat → Phase κ) (U : Nat → Nat → κ)
    (k : Nat) (hk : k < n) (ε : κ) (v : Vec β n) :
    hamMulWith cplx Ω (upd δ k (δ k + ε)) ph U v = hamMulWith cplx Ω δ ph U v + ε • dhdDelta k v := by
  rw [hamMulWith_eq_sum, hamMulWith_eq_sum, dhdDelta_eq (κ := κ) k hk, hmul_createDiagonal, hmul_createDiagonal,
    add_right_comm]
  congr 1
  refine sum_update _ _ k _ _ (nodup_range n) (List.mem_range.mpr hk) ?_ (fun j hj => ?_)
  · simp only [detTerm, upd, if_true]
    rw [add_right_comm]; congr 1
    simp only [neg_add, add_smul, smul_neg, neg_smul]
  · simp [detTerm, upd, hj]

/-- **`DHDUSparse` is the exact partial derivative w.r.t. `U_ij`**, `i < j` (every `ε`) -/
theorem U_finite_difference (cplx : Bool) (Ω δ : Nat → κ) (ph : Nat → Phase κ) (U : Nat → Nat → κ)
    (i j : Nat) (hij : i < j) (hj : j < n) (ε : κ) (v : Vec β n) :
    hamMulWith cplx Ω δ ph (fun a b => if a = i ∧ b = j then U a b + ε else U a b) v
      = hamMulWith cplx Ω δ ph U v + ε • dhdU i j v := by
  rw [hamMulWith_eq_sum, hamMulWith_eq_sum, dhdU_eq (κ := κ) i j hij hj, hmul_createDiagonal, hmul_createDiagonal,
    add_right_comm]
  congr 1
  refine sum_update _ _ i _ _ (nodup_range n) (List.mem_range.mpr (by omega)) ?_ (fun a ha => ?_)
  · rw [add_assoc]; congr 1
    refine sum_update _ _ j _ _ (List.nodup_range' ..) (List.mem_range'_1.mpr (by omega)) ?_ (fun b hb => ?_)
    · simp [add_smul]
    · simp [hb]
  · congr 1
    refine sum_map_congr _ _ _ (fun b _ => ?_)
    simp [ha]

/-- **`DHDPhiSparse` is the derivative w.r.t. `φ_k`**, exactly: rotating the phase of qubit `k` by `θ`
(`(c, s) ↦ (c cθ − s sθ, s cθ + c sθ)`) changes `H v` by `sin θ · (DHDφ_k v) + (cos θ − 1) · (drive term of qubit k) v`;
as `θ → 0` the first factor is `θ + O(θ³)` and the second `O(θ²)`. `q` is the tape of `exp(i(φ_k + π/2))` with its
contract `(q.c, q.s) = (−s, c)`. -/
theorem phi_finite_rotation (Ω δ : Nat → κ) (ph : Nat → Phase κ) (U : Nat → Nat → κ) (k : Nat) (hk : k < n)
    (cθ sθ : κ) (hc : star cθ = cθ) (hs : star sθ = sθ) (q : Phase κ)
    (hq : q.c = -(ph k).s ∧ q.s = (ph k).c) (v : Vec β n) :
    hamMulWith true Ω δ (upd ph k (shiftPhase cθ sθ (ph k))) U v
      = hamMulWith true Ω δ ph U v + sθ • dhdPhi (Ω k) q k v
        + (cθ - 1) • applyAt k (offLocal true (halfOmega Ω) ph k) v := by
  rw [hamMulWith_eq_sum, hamMulWith_eq_sum, dhdPhi_eq _ _ k hk, add_assoc, add_assoc]
  congr 1
  rw [← add_assoc]
  have hI : (CxLike.I : κ) * CxLike.I = -1 := LawfulCx.I_mul_I
  have hsum := sum_update (fun j => applyAt j (offLocal true (halfOmega Ω) ph j) v)
    (fun j => applyAt j (offLocal true (halfOmega Ω) (upd ph k (shiftPhase cθ sθ (ph k))) j) v) k
    (sθ • applyAt k (phiBlock (Ω k) q) v + (cθ - 1) • applyAt k (offLocal true (halfOmega Ω) ph k) v)
    (List.range n) (nodup_range n) (List.mem_range.mpr hk) (by
      rw [← applyAt_smul_m _ _ k hk, ← applyAt_smul_m _ _ k hk, ← applyAt_add_m _ _ k hk, ← applyAt_add_m _ _ k hk]
      congr 1
      obtain ⟨h1, h2⟩ := hq
      unfold offLocal phiBlock cOmega halfOmega upd expi shiftPhase
      ext
      · simp
      · simp only [if_true, LawfulCx.conj_eq, star_mul', star_add, star_sub, star_neg, hc, hs, LawfulCx.star_I,
          LawfulCx.star_half, h1, h2, M2.add_b, M2.smul_b]
        ring
      · simp only [if_true, h1, h2, M2.add_c, M2.smul_c]
        ring
      · simp) (fun j hj => by
      congr 1
      unfold offLocal cOmega upd
      simp [hj])
  rw [hsum]; abel

end fd

/-! ### slot bookkeeping of `backward` -/
section slots
variable [CommRing κ] [StarRing κ] [CxLike κ] [LawfulCx κ]

/-- the trace is linear in the operator: if `D' x = ε · D x` then `gradEntry D' = ε · gradEntry D` -/
theorem gradEntry_smul (dt ε : κ) (D D' : Vec κ n → Vec κ n) (h : ∀ x, D' x = ε • D x) (Vg el : List (Vec κ n)) :
    gradEntry dt D' Vg el = ε * gradEntry dt D Vg el := by
  unfold gradEntry
  have gen : ∀ (l : List (Vec κ n × Vec κ n)) (a : κ),
      l.foldl (fun acc p => acc + Vec.vdot p.1 (D' p.2)) (ε * a)
        = ε * l.foldl (fun acc p => acc + Vec.vdot p.1 (D p.2)) a := by
    intro l
    induction l with
    | nil => intro a; rfl
    | cons p l ih =>
      intro a
      simp only [List.foldl_cons]
      rw [← ih (a + Vec.vdot p.1 (D p.2)), h, vdot_smul_right]; congr 1; ring
  have := gen (Vg.zip el) 0
  rw [mul_zero] at this
  rw [this]; ring

end slots

end EmuVerif.SvGrad
