/-
  Proofs about `Model.SvObs` (C13): the sub-tree sums computed by the emu-sv observables are the
  expectation values of the dense `n_k`, `n_i n_j`; energies are `⟨ψ|Hψ⟩`, `tr(Hρ)`; ranges; Cauchy–Schwarz.
-/
import EmuVerif.Model.SvObs
import EmuVerif.Proofs.SvOps
import EmuVerif.Proofs.SvState
set_option linter.unusedSectionVars false
set_option linter.unusedVariables false
set_option linter.unusedSimpArgs false
set_option linter.unnecessarySeqFocus false
namespace EmuVerif.SvObs
open EmuVerif EmuVerif.TreeVec EmuVerif.SvOps EmuVerif.SvState
variable {κ β γ : Type} {n m : Nat}

section generic
variable [CommRing κ] [StarRing κ] [CxLike κ] [LawfulCx κ]

theorem sum_zero' : ∀ n, ((0 : Vec κ n)).sum = 0
  | 0 => rfl
  | n + 1 => by rw [Vec.zero_succ, sum_node, sum_zero' n]; simp

theorem vdot_zero_right : ∀ {n} (a : Vec κ n), Vec.vdot a 0 = 0
  | _, .leaf x => by rw [Vec.zero_zero]; simp
  | _, .node a b => by rw [Vec.zero_succ, vdot_node, vdot_zero_right a, vdot_zero_right b]; simp

theorem vdot_self_eq : ∀ {n} (a : Vec κ n), Vec.vdot a a = (a.map absSq).sum
  | _, .leaf x => by simp [absSq, LawfulCx.conj_eq]
  | _, .node a b => by rw [vdot_node, vdot_self_eq a, vdot_self_eq b]; rfl

@[simp] theorem sumSel_node_zero [Add γ] (a b : Vec γ n) : sumSel 0 (Vec.node a b) = b.sum := rfl
@[simp] theorem sumSel_node_succ [Add γ] (k : Nat) (a b : Vec γ n) :
    sumSel (k + 1) (Vec.node a b) = sumSel k a + sumSel k b := rfl

theorem applyAt_nOp_zero [AddCommGroup β] [Module κ β] (a b : Vec β n) :
    applyAt 0 (M2.nOp : M2 κ) (Vec.node a b) = Vec.node 0 b := by
  simp [applyAt, M2.nOp]

/-- **occupation**: `Σ_{s : bit k of s set} |ψ_s|² = ⟨ψ| n_k ψ⟩` -/
theorem occSv_eq : ∀ {n} (k : Nat) (_ : k < n) (ψ : Vec κ n),
    occSv ψ k = Vec.vdot ψ (applyAt k (M2.nOp : M2 κ) ψ)
  | _, 0, _, .node a b => by
    rw [applyAt_nOp_zero, vdot_node, vdot_zero_right, vdot_self_eq]; simp [occSv]
  | _, k + 1, h, .node a b => by
    have ha := occSv_eq k (Nat.lt_of_succ_lt_succ h) a
    have hb := occSv_eq k (Nat.lt_of_succ_lt_succ h) b
    simp only [occSv] at ha hb
    simp [occSv, applyAt, ha, hb]

/-- **correlation**, `i < j`: `Σ_{s : bits i and j set} |ψ_s|² = ⟨ψ| n_i n_j ψ⟩` -/
theorem corrSv_lt_eq : ∀ {n} (i j : Nat) (_ : i < j) (_ : j < n) (ψ : Vec κ n),
    sumSel2 i j (ψ.map absSq) = Vec.vdot ψ (applyAt i (M2.nOp : M2 κ) (applyAt j (M2.nOp : M2 κ) ψ))
  | _, 0, j + 1, _, hj, .node a b => by
    have hb := occSv_eq j (Nat.lt_of_succ_lt_succ hj) b
    simp only [occSv] at hb
    have e : applyAt (j + 1) (M2.nOp : M2 κ) (Vec.node a b)
        = Vec.node (applyAt j (M2.nOp : M2 κ) a) (applyAt j (M2.nOp : M2 κ) b) := rfl
    rw [e, applyAt_nOp_zero, vdot_node, vdot_zero_right, ← hb]
    simp [sumSel2]
  | _, i + 1, j + 1, hij, hj, .node a b => by
    have ha := corrSv_lt_eq i j (Nat.lt_of_succ_lt_succ hij) (Nat.lt_of_succ_lt_succ hj) a
    have hb := corrSv_lt_eq i j (Nat.lt_of_succ_lt_succ hij) (Nat.lt_of_succ_lt_succ hj) b
    simp [sumSel2, applyAt, ha, hb]

/-- `n_k` is a projector (the diagonal of the correlation matrix is the occupation) -/
theorem applyAt_nOp_idem [AddCommGroup β] [Module κ β] : ∀ {n} (k : Nat) (x : Vec β n),
    applyAt k (M2.nOp : M2 κ) (applyAt k (M2.nOp : M2 κ) x) = applyAt k (M2.nOp : M2 κ) x
  | _, _, .leaf x => by simp [applyAt]
  | _, 0, .node a b => by rw [applyAt_nOp_zero, applyAt_nOp_zero]
  | _, k + 1, .node a b => by simp [applyAt, applyAt_nOp_idem k]

end generic

/-! ### density matrices -/
section dm
variable [CommRing κ] [StarRing κ] [CxLike κ] [LawfulCx κ]

theorem get_eq_left_right (x : Vec β (n + 1)) (p : Nat → Bool) :
    Vec.get x p = if p 0 then Vec.get (Vec.right x) (fun q => p (q + 1)) else Vec.get (Vec.left x) (fun q => p (q + 1)) := by
  cases x; rfl

/-- entry `p` of the main diagonal is entry `(p, p)` -/
theorem get_diagonal : ∀ {n} (ρ : Vec (Vec β n) n) (p : Nat → Bool),
    Vec.get (Vec.diagonal ρ) p = Vec.get (Vec.get ρ p) p
  | _, .leaf (.leaf x), p => rfl
  | _, .node t b, p => by
    rw [get_eq_left_right (Vec.get (Vec.node t b) p)]
    simp only [Vec.diagonal, Vec.get]
    split <;> simp [get_diagonal, Vec.get_map]

/-- entry `p` of `n_k x` is `x_p` if bit `k` of `p` is set, else 0 -/
theorem get_applyAt_nOp [AddCommGroup β] [Module κ β] : ∀ {n} (k : Nat) (_ : k < n) (x : Vec β n) (p : Nat → Bool),
    Vec.get (applyAt k (M2.nOp : M2 κ) x) p = if p k then Vec.get x p else 0
  | _, 0, _, .node a b, p => by
    rw [applyAt_nOp_zero]; simp only [Vec.get]; split <;> simp
  | _, k + 1, h, .node a b, p => by
    simp only [applyAt, Vec.get]
    split <;> exact get_applyAt_nOp k (Nat.lt_of_succ_lt_succ h) _ _

/-- summing a vector masked by bit `k` -/
theorem sum_masked : ∀ {n} (k : Nat) (_ : k < n) (w w' : Vec κ n),
    (∀ p, Vec.get w' p = if p k then Vec.get w p else 0) → w'.sum = sumSel k w
  | _, 0, _, .node a b, .node a' b', h => by
    have ha : a' = 0 := Vec.ext_get (fun p => by simpa [Vec.cons] using h (Vec.cons false p))
    have hb : b' = b := Vec.ext_get (fun p => by simpa [Vec.cons] using h (Vec.cons true p))
    rw [ha, hb]; simp [sum_zero']
  | _, k + 1, hk, .node a b, .node a' b', h => by
    have ha := sum_masked k (Nat.lt_of_succ_lt_succ hk) a a' (fun p => by simpa [Vec.cons] using h (Vec.cons false p))
    have hb := sum_masked k (Nat.lt_of_succ_lt_succ hk) b b' (fun p => by simpa [Vec.cons] using h (Vec.cons true p))
    simp [ha, hb]

/-- summing a vector masked by bits `i < j` -/
theorem sum_masked2 : ∀ {n} (i j : Nat) (_ : i < j) (_ : j < n) (w w' : Vec κ n),
    (∀ p, Vec.get w' p = if p i && p j then Vec.get w p else 0) → w'.sum = sumSel2 i j w
  | _, 0, j + 1, _, hj, .node a b, .node a' b', h => by
    have ha : a' = 0 := Vec.ext_get (fun p => by simpa [Vec.cons] using h (Vec.cons false p))
    have hb := sum_masked j (Nat.lt_of_succ_lt_succ hj) b b' (fun p => by simpa [Vec.cons] using h (Vec.cons true p))
    rw [ha]; simp [sum_zero', hb, sumSel2]
  | _, i + 1, j + 1, hij, hj, .node a b, .node a' b', h => by
    have ha := sum_masked2 i j (Nat.lt_of_succ_lt_succ hij) (Nat.lt_of_succ_lt_succ hj) a a'
      (fun p => by simpa [Vec.cons] using h (Vec.cons false p))
    have hb := sum_masked2 i j (Nat.lt_of_succ_lt_succ hij) (Nat.lt_of_succ_lt_succ hj) b b'
      (fun p => by simpa [Vec.cons] using h (Vec.cons true p))
    simp [sumSel2, ha, hb]

/-- **density-matrix occupation**: the diagonal sub-sum is `tr(n_k ρ)` -/
theorem occDm_eq (k : Nat) (hk : k < n) (ρ : RMat κ n) :
    occDm ρ k = rtrace (applyAt k (M2.nOp : M2 κ) ρ) := by
  unfold occDm rtrace
  refine (sum_masked k hk _ _ (fun p => ?_)).symm
  rw [get_diagonal, get_diagonal, get_applyAt_nOp k hk]
  split <;> simp

/-- **density-matrix correlation**, `i < j`: the diagonal sub-sum is `tr(n_i n_j ρ)` -/
theorem corrDm_lt_eq (i j : Nat) (hij : i < j) (hj : j < n) (ρ : RMat κ n) :
    sumSel2 i j (Vec.diagonal ρ) = rtrace (applyAt i (M2.nOp : M2 κ) (applyAt j (M2.nOp : M2 κ) ρ)) := by
  unfold rtrace
  refine (sum_masked2 i j hij hj _ _ (fun p => ?_)).symm
  rw [get_diagonal, get_diagonal, get_applyAt_nOp i (by omega), get_applyAt_nOp j hj]
  cases p i <;> cases p j <;> simp

/-- trace of the row-major form = block-recursive trace -/
theorem rtrace_toRows : ∀ {n} (R : Mat κ n), rtrace R.toRows = R.trace
  | _, .leaf x => rfl
  | _, .node a b c d => by
    have hl : ∀ {k l} (P Q : Vec (Vec κ k) l), (Vec.zipWith Vec.node P Q).map Vec.left = P :=
      fun P Q => Vec.ext_get (fun p => by simp [Vec.left])
    have hr : ∀ {k l} (P Q : Vec (Vec κ k) l), (Vec.zipWith Vec.node P Q).map Vec.right = Q :=
      fun P Q => Vec.ext_get (fun p => by simp [Vec.right])
    have ha := rtrace_toRows a; have hd := rtrace_toRows d
    unfold rtrace at ha hd ⊢
    simp [Mat.toRows, Vec.diagonal, hl, hr, ha, hd, Mat.trace]

end dm

/-! ### energies -/
section energy
variable [CommRing κ] [StarRing κ] [CxLike κ] [LawfulCx κ]

/-- `tr(Hρ)`: `RydbergLindbladian.expect` is the trace of the dense `H` times `ρ` -/
theorem energyDm_eq (batched : Bool) (Ω δ : Nat → κ) (ph : Nat → Phase κ) (U : Nat → Nat → κ) (R : Mat κ n) :
    energyDm batched Ω δ ph U R.toRows = (denseH Ω δ ph U n * R).trace := by
  unfold energyDm hRho denseH; rw [hEff_eq, rtrace_toRows]

/-- `tr(H·Hρ)` -/
theorem secondDm_eq (batched : Bool) (Ω δ : Nat → κ) (ph : Nat → Phase κ) (U : Nat → Nat → κ) (R : Mat κ n) :
    secondDm batched Ω δ ph U R.toRows = (denseH Ω δ ph U n * (denseH Ω δ ph U n * R)).trace := by
  unfold secondDm hRho denseH; rw [hEff_eq, hEff_eq, rtrace_toRows]

end energy

/-! ### ranges and Cauchy–Schwarz over `Cx α`, `α` an ordered field -/
section real
variable {α : Type} [Field α] [LinearOrder α] [IsStrictOrderedRing α]

theorem normSq_nonneg (z : Cx α) : 0 ≤ Cx.normSq z := by
  unfold Cx.normSq; nlinarith [mul_self_nonneg z.re, mul_self_nonneg z.im]

theorem sum_normSq_nonneg : ∀ {n} (ψ : Vec (Cx α) n), 0 ≤ (ψ.map Cx.normSq).sum
  | _, .leaf x => normSq_nonneg x
  | _, .node a b => by
    have := sum_normSq_nonneg a; have := sum_normSq_nonneg b
    simp only [Vec.map_node, sum_node]; linarith

theorem sumSel_bounds : ∀ {n} (k : Nat) (ψ : Vec (Cx α) n),
    0 ≤ sumSel k (ψ.map Cx.normSq) ∧ sumSel k (ψ.map Cx.normSq) ≤ (ψ.map Cx.normSq).sum
  | _, k, .leaf x => by cases k <;> exact ⟨normSq_nonneg x, le_refl _⟩
  | _, 0, .node a b => by
    have := sum_normSq_nonneg a; have := sum_normSq_nonneg b
    simp only [Vec.map_node, sumSel_node_zero, sum_node]; constructor <;> linarith
  | _, k + 1, .node a b => by
    obtain ⟨h1, h2⟩ := sumSel_bounds k a; obtain ⟨h3, h4⟩ := sumSel_bounds k b
    simp only [Vec.map_node, sumSel_node_succ, sum_node]; constructor <;> linarith

theorem sumSel2_bounds : ∀ {n} (i j : Nat) (ψ : Vec (Cx α) n),
    0 ≤ sumSel2 i j (ψ.map Cx.normSq) ∧ sumSel2 i j (ψ.map Cx.normSq) ≤ (ψ.map Cx.normSq).sum
  | _, i, j, .leaf x => by cases i <;> exact ⟨normSq_nonneg x, le_refl _⟩
  | _, 0, j, .node a b => by
    obtain ⟨h1, h2⟩ := sumSel_bounds (j - 1) b
    have := sum_normSq_nonneg a
    simp only [Vec.map_node, sumSel2, sum_node]; constructor <;> linarith
  | _, i + 1, j, .node a b => by
    obtain ⟨h1, h2⟩ := sumSel2_bounds i (j - 1) a; obtain ⟨h3, h4⟩ := sumSel2_bounds i (j - 1) b
    simp only [Vec.map_node, sumSel2, sum_node]; constructor <;> linarith

/-- **occupations of a normalised state lie in [0, 1]** -/
theorem occSvR_range (ψ : Vec (Cx α) n) (hψ : normSqV ψ = 1) (k : Nat) : 0 ≤ occSvR ψ k ∧ occSvR ψ k ≤ 1 := by
  have := sumSel_bounds k ψ; unfold normSqV at hψ; unfold occSvR; rw [← hψ]; exact this

/-- **correlations of a normalised state lie in [0, 1]** -/
theorem corrSvR_range (ψ : Vec (Cx α) n) (hψ : normSqV ψ = 1) (i j : Nat) : 0 ≤ corrSvR ψ i j ∧ corrSvR ψ i j ≤ 1 := by
  unfold corrSvR; unfold normSqV at hψ
  split
  · exact occSvR_range ψ hψ i
  · split <;> (rw [← hψ]; exact sumSel2_bounds _ _ ψ)

end real
/-! ### Cauchy–Schwarz and the variance -/
section cs
variable {α : Type} [Field α] [LinearOrder α] [IsStrictOrderedRing α]

theorem absSq_cx (z : Cx α) : (absSq z : Cx α) = ⟨Cx.normSq z, 0⟩ := by
  unfold absSq; ext <;> simp [CxLike.conj, Cx.conj, Cx.normSq] <;> ring

theorem sum_ofReal (f : Cx α → α) : ∀ {n} (v : Vec (Cx α) n),
    (v.map (fun z => (⟨f z, 0⟩ : Cx α))).sum = ⟨(v.map f).sum, 0⟩
  | _, .leaf x => rfl
  | _, .node a b => by
    simp only [Vec.map_node, sum_node, sum_ofReal f a, sum_ofReal f b]; ext <;> simp

theorem sumSel_ofReal (f : Cx α → α) : ∀ {n} (k : Nat) (v : Vec (Cx α) n),
    sumSel k (v.map (fun z => (⟨f z, 0⟩ : Cx α))) = ⟨sumSel k (v.map f), 0⟩
  | _, k, .leaf x => by cases k <;> rfl
  | _, 0, .node a b => by simp only [Vec.map_node, sumSel_node_zero, sum_ofReal]
  | _, k + 1, .node a b => by
    simp only [Vec.map_node, sumSel_node_succ, sumSel_ofReal f k a, sumSel_ofReal f k b]; ext <;> simp

theorem sumSel2_ofReal (f : Cx α → α) : ∀ {n} (i j : Nat) (v : Vec (Cx α) n),
    sumSel2 i j (v.map (fun z => (⟨f z, 0⟩ : Cx α))) = ⟨sumSel2 i j (v.map f), 0⟩
  | _, i, j, .leaf x => by cases i <;> rfl
  | _, 0, j, .node a b => by simp only [Vec.map_node, sumSel2, sumSel_ofReal]
  | _, i + 1, j, .node a b => by
    simp only [Vec.map_node, sumSel2, sumSel2_ofReal f i (j - 1) a, sumSel2_ofReal f i (j - 1) b]; ext <;> simp

theorem map_absSq_cx (v : Vec (Cx α) n) : v.map absSq = v.map (fun z => (⟨Cx.normSq z, 0⟩ : Cx α)) := by
  congr 1; funext z; exact absSq_cx z

/-- the complex-valued occupation of the generic theorems is the real number the code returns -/
theorem occSv_cx (ψ : Vec (Cx α) n) (k : Nat) : occSv ψ k = ⟨occSvR ψ k, 0⟩ := by
  unfold occSv occSvR; rw [map_absSq_cx, sumSel_ofReal]

theorem corrSv_cx (ψ : Vec (Cx α) n) (i j : Nat) : corrSv ψ i j = ⟨corrSvR ψ i j, 0⟩ := by
  unfold corrSv corrSvR
  split
  · exact occSv_cx ψ _
  · split <;> rw [map_absSq_cx, sumSel2_ofReal]

theorem vdot_self_cx (v : Vec (Cx α) n) : Vec.vdot v v = ⟨normSqV v, 0⟩ := by
  rw [vdot_self_eq, map_absSq_cx, sum_ofReal]; rfl

theorem vdot_sub_right : ∀ {n} (a b c : Vec (Cx α) n), Vec.vdot a (b - c) = Vec.vdot a b - Vec.vdot a c
  | _, .leaf x, .leaf y, .leaf z => by simp [mul_sub]
  | _, .node a b, .node c d, .node e f => by simp [vdot_sub_right]; ring

theorem vdot_sub_left : ∀ {n} (a b c : Vec (Cx α) n), Vec.vdot (a - b) c = Vec.vdot a c - Vec.vdot b c
  | _, .leaf x, .leaf y, .leaf z => by simp [sub_mul]
  | _, .node a b, .node c d, .node e f => by simp [vdot_sub_left]; ring

/-- **Cauchy–Schwarz against a normalised vector**: `|⟨a|b⟩|² ≤ ⟨b|b⟩` when `⟨a|a⟩ = 1` -/
theorem cauchy_schwarz_normalised (a b : Vec (Cx α) n) (ha : normSqV a = 1) :
    Cx.normSq (Vec.vdot a b) ≤ normSqV b := by
  set l := Vec.vdot a b with hl
  have hv := vdot_self_cx (b - l • a)
  have hnn : 0 ≤ normSqV (b - l • a) := sum_normSq_nonneg _
  have expand : Vec.vdot (b - l • a) (b - l • a) = Vec.vdot b b - l * star l := by
    rw [vdot_sub_right, vdot_sub_left, vdot_sub_left, vdot_smul_right, vdot_smul_right, vdot_smul_left,
      vdot_smul_left, ← vdot_conj_symm a b, ← hl, vdot_self_cx a, ha]
    ext <;> simp <;> ring
  rw [expand, vdot_self_cx b] at hv
  have hre := congrArg Cx.re hv
  simp only [Cx.sub_re, Cx.mul_re, Cx.star_re, Cx.star_im] at hre
  unfold Cx.normSq
  nlinarith [hre, hnn]

/-- **energy variance ≥ 0 on a normalised state** (`⟨Hψ|Hψ⟩ − ⟨ψ|Hψ⟩²`, the code's real parts) -/
theorem varianceSv_nonneg (Ω δ : Nat → Cx α) (ph : Nat → Phase (Cx α)) (U : Nat → Nat → Cx α) (ψ : Vec (Cx α) n)
    (hψ : normSqV ψ = 1) : 0 ≤ varianceSv Ω δ ph U ψ := by
  unfold varianceSv secondSv energySv
  have cs := cauchy_schwarz_normalised ψ (hamMul Ω δ ph U ψ) hψ
  rw [vdot_self_cx]
  unfold Cx.normSq at cs
  nlinarith [cs, mul_self_nonneg (Vec.vdot ψ (hamMul Ω δ ph U ψ)).im]

end cs

end EmuVerif.SvObs
