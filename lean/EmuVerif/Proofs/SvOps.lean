/-
  Proofs about `Model.SvOps`: the matrix-free Hamiltonian / Lindbladian code paths equal the dense
  Kronecker-built operators (helper lemmas; the property theorems are in `Props/C06.lean`).
-/
import EmuVerif.Model.SvOps
import EmuVerif.Proofs.TreeVec
set_option linter.unusedSectionVars false
set_option linter.unusedVariables false
namespace EmuVerif.SvOps
open EmuVerif EmuVerif.TreeVec
variable {κ β : Type} {n : Nat}

section batched
variable [CommRing κ] [AddCommGroup β] [Module κ β]

/-- `matmul_2x2_with_batched(m, x.view(2**k,2,-1))` is the plain (broadcast) 2×2 matmul. -/
theorem matmulBatchedAt_eq_applyAt (mm : M2 κ) (k : Nat) (h : k < n) (x : Vec β n) :
    matmulBatchedAt k mm x = applyAt k mm x := by
  unfold matmulBatchedAt
  simp only [indexAddAt_eq _ _ _ k h, Vec.map_const_zero, zero_add]
  conv_rhs => rw [M2.eq_units mm]
  simp only [applyAt_add_m _ _ k h]

theorem applyLocal_eq_applyAt (batched : Bool) (mm : M2 κ) (k : Nat) (h : k < n) (x : Vec β n) :
    applyLocal batched k mm x = applyAt k mm x := by
  unfold applyLocal; split
  · exact matmulBatchedAt_eq_applyAt mm k h x
  · rfl

end batched

section ham
variable [CommRing κ] [CxLike κ] [AddCommGroup β] [Module κ β]

theorem mulVec_matSum (l : List (Mat κ n)) (x : Vec β n) :
    Mat.mulVec (matSum l) x = (l.map (fun A => Mat.mulVec A x)).sum := by
  unfold matSum
  rw [foldl_hom (fun A => Mat.mulVec A x) (· + ·) (fun A => Mat.mulVec A x) l
    (fun s k _ => Mat.mulVec_add_mat s k x)]
  simp

theorem sigmaRealStep_eq (ω : Nat → κ) (k : Nat) (h : k < n) (v r : Vec β n) :
    sigmaRealStep ω v r k = r + applyAt k ⟨0, ω k, ω k, 0⟩ v := by
  unfold sigmaRealStep
  rw [indexAddAt_eq _ _ _ k h, indexAddAt_eq _ _ _ k h, add_assoc, ← applyAt_add_m _ _ k h]
  congr 2; ext <;> simp [M2.unit]

theorem sigmaComplexStep_eq (ω : Nat → κ) (ph : Nat → Phase κ) (k : Nat) (h : k < n) (v r : Vec β n) :
    sigmaComplexStep ω ph v r k = r + applyAt k ⟨0, CxLike.conj (cOmega ω ph k), cOmega ω ph k, 0⟩ v := by
  unfold sigmaComplexStep
  rw [indexAddAt_eq _ _ _ k h, indexAddAt_eq _ _ _ k h, add_assoc, ← applyAt_add_m _ _ k h]
  congr 2; ext <;> simp [M2.unit]

theorem sigmaReal_eq (ω : Nat → κ) (v r : Vec β n) :
    sigmaReal ω v r = r + ((List.range n).map (fun k => applyAt k ⟨0, ω k, ω k, 0⟩ v)).sum :=
  foldl_hom id _ _ _ (fun s k hk => sigmaRealStep_eq ω k (List.mem_range.mp hk) v s) r

theorem sigmaComplex_eq (ω : Nat → κ) (ph : Nat → Phase κ) (v r : Vec β n) :
    sigmaComplex ω ph v r = r + ((List.range n).map
      (fun k => applyAt k ⟨0, CxLike.conj (cOmega ω ph k), cOmega ω ph k, 0⟩ v)).sum :=
  foldl_hom id _ _ _ (fun s k hk => sigmaComplexStep_eq ω ph k (List.mem_range.mp hk) v s) r

/-- the detuning part of one outer-loop iteration of `_create_diagonal` -/
def detTerm (wd : Bool) (δ : Nat → κ) (i : Nat) (v : Vec β n) : Vec β n :=
  if wd then (-δ i) • applyAt i (M2.nOp : M2 κ) v else 0

theorem hmul_diagStepI (wd : Bool) (δ : Nat → κ) (U : Nat → Nat → κ) (i : Nat) (hi : i < n)
    (d : Vec κ n) (v : Vec β n) :
    Vec.hmul (diagStepI wd δ U d i) v = Vec.hmul d v + (detTerm wd δ i v +
      ((List.range' (i + 1) (n - i - 1)).map
        (fun j => U i j • applyAt i (M2.nOp : M2 κ) (applyAt j (M2.nOp : M2 κ) v))).sum) := by
  unfold diagStepI
  rw [foldl_hom (fun d => Vec.hmul d v) _ _ _ (fun s j hj => by
    have hj' := List.mem_range'_1.mp hj
    exact hmul_mapAt1_mapAt1_add (U i j) i j (by omega) (by omega) s v)]
  cases wd
  · simp [detTerm]
  · simp [detTerm, hmul_mapAt1_sub _ i hi, add_assoc]

theorem hmul_createDiagonal (wd : Bool) (δ : Nat → κ) (U : Nat → Nat → κ) (v : Vec β n) :
    Vec.hmul (createDiagonal wd δ U n) v = ((List.range n).map (fun i => detTerm wd δ i v +
      ((List.range' (i + 1) (n - i - 1)).map
        (fun j => U i j • applyAt i (M2.nOp : M2 κ) (applyAt j (M2.nOp : M2 κ) v))).sum)).sum := by
  unfold createDiagonal
  rw [foldl_hom (fun d => Vec.hmul d v) _ _ _ (fun s i hi => hmul_diagStepI wd δ U i (List.mem_range.mp hi) s v),
    hmul_zero, zero_add]

theorem sum_flatMap' {ι ι' M : Type} [AddCommMonoid M] (f : ι → List M) :
    ∀ l : List ι, (l.flatMap f).sum = (l.map (fun a => (f a).sum)).sum
  | [] => by simp
  | a :: l => by simp [List.flatMap_cons, List.sum_append, sum_flatMap' (ι' := ι') f l]

theorem sum_pairs {M : Type} [AddCommMonoid M] (g : Nat → Nat → M) (n : Nat) :
    ((pairs n).map (fun p => g p.1 p.2)).sum
      = ((List.range n).map (fun i => ((List.range' (i + 1) (n - i - 1)).map (fun j => g i j)).sum)).sum := by
  unfold pairs
  rw [List.map_flatMap, sum_flatMap' (ι' := Nat)]
  simp [List.map_map, Function.comp_def]

theorem mulVec_denseOf (h : Nat → M2 κ) (U : Nat → Nat → κ) (v : Vec β n) :
    Mat.mulVec (denseOf h U n) v = ((List.range n).map (fun k => applyAt k (h k) v)).sum +
      ((List.range n).map (fun i => ((List.range' (i + 1) (n - i - 1)).map
        (fun j => U i j • applyAt i (M2.nOp : M2 κ) (applyAt j (M2.nOp : M2 κ) v))).sum)).sum := by
  unfold denseOf denseInteraction
  rw [Mat.mulVec_add_mat, mulVec_matSum, mulVec_matSum, ← sum_pairs]
  simp [List.map_map, Function.comp_def, Mat.mulVec_smul_mat, Mat.mulVec_mul, ← applyAt_eq_mulVec]

end ham

section ham2
variable [CommRing κ] [CxLike κ] [AddCommGroup β] [Module κ β]

/-- the off-diagonal 2×2 matrix the σ loop adds on qubit `k` -/
def offLocal (cplx : Bool) (ω : Nat → κ) (ph : Nat → Phase κ) (k : Nat) : M2 κ :=
  if cplx then ⟨0, CxLike.conj (cOmega ω ph k), cOmega ω ph k, 0⟩ else ⟨0, ω k, ω k, 0⟩

theorem hLocal_split (cplx : Bool) (ω δ : Nat → κ) (ph : Nat → Phase κ) (k : Nat) :
    hLocal cplx ω δ ph k = (-δ k) • (M2.nOp : M2 κ) + offLocal cplx ω ph k := by
  unfold hLocal offLocal; cases cplx <;> ext <;> simp [M2.nOp]

theorem sum_map_add' {ι M : Type} [AddCommMonoid M] (f g : ι → M) :
    ∀ l : List ι, (l.map (fun i => f i + g i)).sum = (l.map f).sum + (l.map g).sum
  | [] => by simp
  | a :: l => by simp [sum_map_add' f g l]; abel

theorem sum_map_congr {ι M : Type} [AddCommMonoid M] (f g : ι → M) (l : List ι) (h : ∀ i ∈ l, f i = g i) :
    (l.map f).sum = (l.map g).sum := by rw [List.map_congr_left h]

/-- **`RydbergHamiltonian.__mul__` = dense `Σ_k I⊗…⊗h_k⊗…⊗I + Σ_{i<j} U_ij n_i n_j` times the vector**, with
`h_k` given entry by entry (`hLocal`), for either value of the `self.complex` switch. Any `n`, any
parameters, any vector (or row-major matrix). -/
theorem hamMulWith_eq_dense_entries (cplx : Bool) (Ω δ : Nat → κ) (ph : Nat → Phase κ) (U : Nat → Nat → κ)
    (v : Vec β n) :
    hamMulWith cplx Ω δ ph U v = Mat.mulVec (denseOf (hLocal cplx (halfOmega Ω) δ ph) U n) v := by
  have key : Vec.hmul (createDiagonal true δ U n) v
        + ((List.range n).map (fun k => applyAt k (offLocal cplx (halfOmega Ω) ph k) v)).sum
      = Mat.mulVec (denseOf (hLocal cplx (halfOmega Ω) δ ph) U n) v := by
    rw [mulVec_denseOf, hmul_createDiagonal, sum_map_add', add_right_comm, ← sum_map_add']
    congr 1
    refine sum_map_congr _ _ _ (fun k hk => ?_)
    have hk' := List.mem_range.mp hk
    rw [hLocal_split, applyAt_add_m _ _ k hk', applyAt_smul_m _ _ k hk']
    simp [detTerm]
  unfold hamMulWith
  cases cplx
  · simp only [Bool.false_eq_true, if_false]; rw [sigmaReal_eq, ← key]; simp [offLocal]
  · simp only [if_true]; rw [sigmaComplex_eq, ← key]; simp [offLocal]

end ham2


section lind
variable [CommRing κ] [StarRing κ] [CxLike κ] [LawfulCx κ]

/-- the model's `torch.zeros_like` is the module zero -/
theorem model_zero_eq : (@OfNat.ofNat (RMat κ n) 0 _ : RMat κ n) = (0 : Vec (Vec κ n) n) := rfl

theorem toRows_matSum (l : List (Mat κ n)) : (matSum l).toRows = (l.map Mat.toRows).sum := by
  unfold matSum
  rw [foldl_hom Mat.toRows (· + ·) Mat.toRows l (fun s k _ => Mat.toRows_add s k), Mat.toRows_zero, zero_add]

theorem hEff_eq (batched cplx : Bool) (ω δ : Nat → κ) (ph : Nat → Phase κ) (U : Nat → Nat → κ) (S : M2 κ)
    (R : Mat κ n) :
    hEff batched cplx ω δ ph U S R.toRows = (denseOf (localTerms cplx ω δ ph S) U n * R).toRows := by
  unfold hEff
  rw [← Mat.mulVec_toRows, mulVec_denseOf, hmul_createDiagonal]
  have hf : ∀ s : RMat κ n,
      List.foldl (fun acc q => acc + localLeft batched q (localTerms cplx ω δ ph S q) R.toRows) s (List.range n)
        = s + ((List.range n).map (fun q => applyAt q (localTerms cplx ω δ ph S q) R.toRows)).sum :=
    fun s => foldl_hom id _ _ _ (fun s q hq => by
      simp only [id, localLeft]
      rw [applyLocal_eq_applyAt batched _ q (List.mem_range.mp hq)]) s
  simp only [hf]
  simp [detTerm, model_zero_eq]

theorem conjT_toRows (R : Mat κ n) : conjT R.toRows = R.dagger.toRows := by
  unfold conjT Mat.dagger Mat.conj
  rw [Mat.map_map_toRows, Mat.transpose_toRows]

theorem jumpTerm_eq (batched : Bool) (L : M2 κ) (q : Nat) (hq : q < n) (R : Mat κ n) :
    localRightDag batched q L (localLeft batched q L R.toRows)
      = (Mat.embed n q L * R * (Mat.embed n q L).dagger).toRows := by
  unfold localRightDag localLeft
  have h1 : (applyLocal batched q L.conj : Vec κ n → Vec κ n) = Mat.mulVec (Mat.embed n q L.conj) := by
    funext x; rw [applyLocal_eq_applyAt batched _ q hq, applyAt_eq_mulVec]
  rw [h1, applyLocal_eq_applyAt batched _ q hq, applyAt_eq_mulVec, Mat.mulVec_toRows, Mat.map_mulVec_toRows,
    Mat.transpose_embed_conj]

theorem jumpSum_eq (batched : Bool) (Ls : List (M2 κ)) (R : Mat κ n) :
    jumpSum batched Ls R.toRows = (denseJump Ls R).toRows := by
  unfold jumpSum denseJump
  have hin : ∀ q, q < n → ∀ s : RMat κ n,
      Ls.foldl (fun acc L => acc + localRightDag batched q L (localLeft batched q L R.toRows)) s
        = s + (Ls.map (fun L => (Mat.embed n q L * R * (Mat.embed n q L).dagger).toRows)).sum :=
    fun q hq s => foldl_hom id _ _ _ (fun s L _ => by simp only [id]; rw [jumpTerm_eq batched L q hq]) s
  have hout : ∀ s : RMat κ n,
      (List.range n).foldl (fun acc q =>
          Ls.foldl (fun acc L => acc + localRightDag batched q L (localLeft batched q L R.toRows)) acc) s
        = s + ((List.range n).map (fun q =>
            (Ls.map (fun L => (Mat.embed n q L * R * (Mat.embed n q L).dagger).toRows)).sum)).sum :=
    fun s => foldl_hom id _ _ _ (fun s q hq => by simp only [id]; rw [hin q (List.mem_range.mp hq)]) s
  rw [hout, toRows_matSum, List.map_flatMap, sum_flatMap' (ι' := Nat)]
  simp [model_zero_eq, List.map_map, Function.comp_def]

/-- **`RydbergLindbladian.__matmul__` on every input** (Hermitian or not):
`Heff R − R† Heff† + i Σ_q Σ_L L_q R L_q†` with `Heff = Σ_q I⊗…⊗(h_q − (i/2) Σ_L L†L)⊗…⊗I + Σ U n n`. -/
theorem lindMatmul_eq_code (batched : Bool) (Ω δ : Nat → κ) (ph : Nat → Phase κ) (U : Nat → Nat → κ)
    (Ls : List (M2 κ)) (R : Mat κ n) :
    lindMatmul batched Ω δ ph U Ls R.toRows = (denseLindCode Ω δ ph U Ls R).toRows := by
  unfold lindMatmul denseLindCode denseHeff
  simp only [hEff_eq, conjT_toRows, jumpSum_eq, Mat.dagger_mul, Mat.toRows_add, Mat.toRows_sub, Mat.toRows_smul]

end lind

end EmuVerif.SvOps
