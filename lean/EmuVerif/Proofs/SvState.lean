/-
  Proofs about `Model.SvState` (C12): index maps, inner products, dense operator algebra in
  row-major form, the pure-state density matrix, Kronecker folds and sparse COO bags.
-/
import EmuVerif.Model.SvState
import EmuVerif.Proofs.TreeVec
import EmuVerif.Proofs.Scalar
import EmuVerif.Model.SvOps
import Mathlib.Algebra.Order.Field.Basic
import Mathlib.Tactic.Linarith
import Mathlib.Tactic.FieldSimp
set_option linter.unusedSectionVars false
set_option linter.unusedVariables false
set_option linter.unusedSimpArgs false
namespace EmuVerif.SvState
open EmuVerif EmuVerif.TreeVec
variable {κ β : Type} {n m : Nat}
/-! ### flat index ↔ qubit bits -/
section index

theorem bitIndex_lt : ∀ (n : Nat) (p : Nat → Bool), Vec.bitIndex n p < 2 ^ n
  | 0, _ => by simp [Vec.bitIndex]
  | n + 1, p => by
    have := bitIndex_lt n (fun q => p (q + 1))
    simp only [Vec.bitIndex]; split <;> omega

/-- `data[int(bits, 2)]` is the entry whose qubit-`q` bit is the `q`-th character (qubit 0 first = most significant). -/
theorem getIdx_bitIndex : ∀ {n} (v : Vec β n) (p : Nat → Bool), Vec.getIdx v (Vec.bitIndex n p) = Vec.get v p
  | _, .leaf x, _ => rfl
  | n + 1, .node a b, p => by
    have h := bitIndex_lt n (fun q => p (q + 1))
    simp only [Vec.bitIndex, Vec.getIdx, Vec.get]
    by_cases hp : p 0 = true
    · simp [hp, getIdx_bitIndex b]
    · simp [hp, h, getIdx_bitIndex a]

theorem setIdx_bitIndex : ∀ {n} (v : Vec β n) (p : Nat → Bool) (x : β),
    Vec.setIdx? v (Vec.bitIndex n p) x = some (Vec.set v p x)
  | _, .leaf y, _, x => by simp [Vec.bitIndex, Vec.setIdx?, Vec.set]
  | n + 1, .node a b, p, x => by
    have h := bitIndex_lt n (fun q => p (q + 1))
    simp only [Vec.bitIndex, Vec.setIdx?, Vec.set]
    by_cases hp : p 0 = true
    · simp [hp, setIdx_bitIndex b]
    · simp [hp, h, setIdx_bitIndex a]

/-- an index outside `0 … 2ⁿ−1` is rejected (`IndexError`) -/
theorem setIdx_none : ∀ {n} (v : Vec β n) (i : Nat) (x : β), 2 ^ n ≤ i → Vec.setIdx? v i x = none
  | _, .leaf y, i, x, h => by simp [Vec.setIdx?]; omega
  | n + 1, .node a b, i, x, h => by
    have h1 : ¬ i < 2 ^ n := by rw [Nat.pow_succ] at h; omega
    have h2 : 2 ^ n ≤ i - 2 ^ n := by rw [Nat.pow_succ] at h; omega
    simp [Vec.setIdx?, h1, setIdx_none b _ x h2]

/-- two paths address the same entry iff they agree on the first `n` qubits -/
def agree (n : Nat) (p q : Nat → Bool) : Prop := ∀ k, k < n → p k = q k

instance (n : Nat) (p q : Nat → Bool) : Decidable (agree n p q) := by unfold agree; exact inferInstance

theorem get_set : ∀ {n} (v : Vec β n) (p q : Nat → Bool) (x : β),
    Vec.get (Vec.set v p x) q = if agree n p q then x else Vec.get v q
  | _, .leaf y, p, q, x => by simp [Vec.set, agree]
  | n + 1, .node a b, p, q, x => by
    have key : agree (n + 1) p q ↔ (p 0 = q 0 ∧ agree n (fun k => p (k + 1)) (fun k => q (k + 1))) := by
      constructor
      · intro h; exact ⟨h 0 (Nat.succ_pos n), fun k hk => h (k + 1) (Nat.succ_lt_succ hk)⟩
      · rintro ⟨h0, h1⟩ k hk
        cases k with
        | zero => exact h0
        | succ k => exact h1 k (Nat.lt_of_succ_lt_succ hk)
    simp only [Vec.set]
    cases hp : p 0 <;> cases hq : q 0 <;> simp [Vec.get, hp, hq, get_set, key]

/-- the flat tensor `toList` lists the entries in index order -/
theorem toList_length : ∀ {n} (v : Vec β n), v.toList.length = 2 ^ n
  | _, .leaf x => rfl
  | n + 1, .node a b => by simp [Vec.toList, toList_length, Nat.pow_succ]; omega

theorem toList_getElem : ∀ {n} (v : Vec β n) (i : Nat), i < 2 ^ n → v.toList[i]? = some (Vec.getIdx v i)
  | _, .leaf x, i, h => by
    have : i = 0 := by simpa using h
    subst this; rfl
  | n + 1, .node a b, i, h => by
    simp only [Vec.toList, Vec.getIdx]
    by_cases hi : i < 2 ^ n
    · rw [List.getElem?_append_left (by rw [toList_length]; exact hi), if_pos hi]; exact toList_getElem a i hi
    · rw [List.getElem?_append_right (by rw [toList_length]; omega), if_neg hi, toList_length]
      exact toList_getElem b _ (by rw [Nat.pow_succ] at h; omega)

/-- Horner value of a bit string = `bitIndex` of the path it spells -/
theorem bitsToNat_eq : ∀ (bs : List Bool), bitsToNat bs = Vec.bitIndex bs.length (fun q => bs.getD q false) := by
  have gen : ∀ (bs : List Bool) (acc : Nat),
      bs.foldl (fun acc b => 2 * acc + b.toNat) acc
        = acc * 2 ^ bs.length + Vec.bitIndex bs.length (fun q => bs.getD q false) := by
    intro bs
    induction bs with
    | nil => intro acc; simp [Vec.bitIndex]
    | cons b bs ih =>
      intro acc
      simp only [List.foldl_cons, List.length_cons, Vec.bitIndex, ih]
      cases b <;> simp [Nat.pow_succ] <;> ring
  intro bs; unfold bitsToNat; simpa using gen bs 0

end index

/-! ### `_from_state_amplitudes` before normalisation -/
section raw
variable [Zero κ]

/-- If every key spells the path `path key` (i.e. is a string of `n` characters `r`/`g`), the loop
`data[int(bits,2)] = amplitude` succeeds and writes entry `path key := amplitude`, later keys winning. -/
theorem rawAmplitudes_eq (path : String → Nat → Bool) :
    ∀ (amps : List (String × κ)) (v : Vec κ n),
      (∀ sa ∈ amps, binToInt sa.1 = some (Vec.bitIndex n (path sa.1))) →
      amps.foldlM (fun v (sa : String × κ) => do
        let idx ← binToInt sa.1
        Vec.setIdx? v idx sa.2) v = some (amps.foldl (fun v sa => Vec.set v (path sa.1) sa.2) v)
  | [], v, _ => rfl
  | sa :: amps, v, h => by
    have h1 := h sa (List.mem_cons_self ..)
    simp only [List.foldlM_cons, List.foldl_cons, h1, Option.bind_eq_bind, Option.bind_some, setIdx_bitIndex]
    exact rawAmplitudes_eq path amps _ (fun sa' hs => h sa' (List.mem_cons_of_mem _ hs))

end raw

/-! ### sums, inner products -/
section sums
variable [CommRing κ]

@[simp] theorem sum_node [Add β] (a b : Vec β n) : (Vec.node a b).sum = a.sum + b.sum := rfl
@[simp] theorem sum_leaf [Add β] (x : β) : (Vec.leaf x).sum = x := rfl

theorem sum_add : ∀ {n} (a b : Vec κ n), (a + b).sum = a.sum + b.sum
  | _, .leaf x, .leaf y => rfl
  | _, .node a b, .node c d => by simp [sum_add]; ring

theorem sum_map_mul_right (c : κ) : ∀ {n} (a : Vec κ n), (a.map (· * c)).sum = a.sum * c
  | _, .leaf x => rfl
  | _, .node a b => by simp [sum_map_mul_right c]; ring

theorem sum_map_mul_left (c : κ) : ∀ {n} (a : Vec κ n), (a.map (c * ·)).sum = c * a.sum
  | _, .leaf x => rfl
  | _, .node a b => by simp [sum_map_mul_left c]; ring

/-- `Σ_c w_c • y_c` as a sum -/
theorem dotG_eq_sum : ∀ {n} (w y : Vec κ n), Vec.dotG w y = (Vec.zipWith (· * ·) w y).sum
  | _, .leaf w, .leaf y => rfl
  | _, .node a b, .node x y => by
    show Vec.dotG a x + Vec.dotG b y = _
    rw [dotG_eq_sum a x, dotG_eq_sum b y]; rfl

variable [StarRing κ] [CxLike κ] [LawfulCx κ]

@[simp] theorem vdot_node (a b c d : Vec κ n) : Vec.vdot (Vec.node a b) (Vec.node c d) = Vec.vdot a c + Vec.vdot b d := rfl
@[simp] theorem vdot_leaf (x y : κ) : Vec.vdot (Vec.leaf x) (Vec.leaf y) = star x * y := by
  simp [Vec.vdot, LawfulCx.conj_eq]

/-- `torch.vdot(a, b) = Σ_i conj(a_i) · b_i` over the flat tensors -/
theorem vdot_eq_list_sum : ∀ {n} (a b : Vec κ n),
    Vec.vdot a b = ((a.toList.zip b.toList).map (fun p => star p.1 * p.2)).sum
  | _, .leaf x, .leaf y => by simp [Vec.toList]
  | _, .node a b, .node c d => by
    simp only [vdot_node, Vec.toList]
    rw [List.zip_append (by rw [toList_length, toList_length]), List.map_append, List.sum_append,
      vdot_eq_list_sum a c, vdot_eq_list_sum b d]

theorem vdot_conj_symm : ∀ {n} (a b : Vec κ n), star (Vec.vdot a b) = Vec.vdot b a
  | _, .leaf x, .leaf y => by simp [mul_comm]
  | _, .node a b, .node c d => by simp [vdot_conj_symm]

theorem vdot_add_right : ∀ {n} (a b c : Vec κ n), Vec.vdot a (b + c) = Vec.vdot a b + Vec.vdot a c
  | _, .leaf x, .leaf y, .leaf z => by simp [mul_add]
  | _, .node a b, .node c d, .node e f => by simp [vdot_add_right]; ring

theorem vdot_smul_right (s : κ) : ∀ {n} (a b : Vec κ n), Vec.vdot a (s • b) = s * Vec.vdot a b
  | _, .leaf x, .leaf y => by simp; ring
  | _, .node a b, .node c d => by simp [vdot_smul_right s]; ring

theorem vdot_smul_left (s : κ) : ∀ {n} (a b : Vec κ n), Vec.vdot (s • a) b = star s * Vec.vdot a b
  | _, .leaf x, .leaf y => by simp; ring
  | _, .node a b, .node c d => by simp [vdot_smul_left s]; ring

end sums

/-! ### dense operators: row-major code = block-recursive linear algebra -/
section dense
variable [CommRing κ] [AddCommGroup β] [Module κ β]

theorem map_dotG_zipNode (x y : Vec β n) (P Q : Vec (Vec κ n) m) :
    (Vec.zipWith Vec.node P Q).map (fun row => Vec.dotG row (Vec.node x y))
      = P.map (fun row => Vec.dotG row x) + Q.map (fun row => Vec.dotG row y) :=
  Vec.ext_get (fun p => by simp [Vec.dotG])

/-- rows dotted with `y` = the block-recursive matrix–vector product -/
theorem map_dotG_toRows : ∀ {n} (A : Mat κ n) (y : Vec β n),
    A.toRows.map (fun row => Vec.dotG row y) = Mat.mulVec A y
  | _, .leaf a, .leaf y => rfl
  | _, .node a b c d, .node x y => by
    simp [Mat.toRows, map_dotG_zipNode, map_dotG_toRows]

/-- `DenseOperator.apply_to`: `data @ v` = `A · v` -/
theorem applyTo_toRows (A : Mat κ n) (v : Vec κ n) : applyTo A.toRows v = Mat.mulVec A v :=
  map_dotG_toRows A v

/-- `DenseOperator.__matmul__`: `A.data @ B.data` = `A · B` -/
theorem rmatMul_toRows (A B : Mat κ n) : rmatMul A.toRows B.toRows = (A * B).toRows := by
  unfold rmatMul; rw [map_dotG_toRows, Mat.mulVec_toRows]

end dense

/-! ### density matrix of a pure state -/
section dm
variable [CommRing κ] [StarRing κ] [CxLike κ] [LawfulCx κ]

theorem get_transpose : ∀ {n m} (X : Vec (Vec β m) n) (p q : Nat → Bool),
    Vec.get (Vec.get (Vec.transpose X) q) p = Vec.get (Vec.get X p) q
  | _, _, .leaf row, p, q => by simp [Vec.transpose]
  | _, _, .node t b, p, q => by
    simp only [Vec.transpose, Vec.get_zipWith]
    simp only [Vec.get]
    split <;> exact get_transpose _ _ _

theorem get_conjT (X : RMat κ n) (p q : Nat → Bool) :
    Vec.get (Vec.get (SvOps.conjT X) p) q = star (Vec.get (Vec.get X q) p) := by
  unfold SvOps.conjT; rw [get_transpose]; simp [LawfulCx.conj_eq]

theorem get_fromStateVector (ψ : Vec κ n) (p q : Nat → Bool) :
    Vec.get (Vec.get (fromStateVector ψ) p) q = Vec.get ψ p * star (Vec.get ψ q) := by
  unfold fromStateVector Vec.outer; simp [LawfulCx.conj_eq]

/-- `ρ = |ψ⟩⟨ψ|` is Hermitian -/
theorem fromStateVector_hermitian (ψ : Vec κ n) : SvOps.conjT (fromStateVector ψ) = fromStateVector ψ :=
  Vec.ext_get (fun p => Vec.ext_get (fun q => by
    rw [get_conjT, get_fromStateVector, get_fromStateVector]; simp [mul_comm]))

/-- `ρ v = ⟨ψ|v⟩ ψ`: `from_state_vector` is the rank-one projector `|ψ⟩⟨ψ|` -/
theorem fromStateVector_apply (ψ v : Vec κ n) : applyTo (fromStateVector ψ) v = Vec.vdot ψ v • ψ := by
  unfold applyTo fromStateVector Vec.outer
  rw [Vec.map_map]
  refine Vec.ext_get (fun p => ?_)
  simp only [Vec.get_map, Function.comp_def, Vec.get_smul, smul_eq_mul]
  have key : ∀ {k} (c : κ) (a b : Vec κ k), Vec.dotG ((a.map CxLike.conj).map (fun y => c * y)) b = Vec.vdot a b * c := by
    intro k c a b
    induction a with
    | leaf x => cases b; simp [Vec.dotG, LawfulCx.conj_eq]; ring
    | node a1 a2 ih1 ih2 => cases b; simp [Vec.dotG, ih1, ih2]; ring
  rw [key]

end dm


/-! ### trace and overlap of pure-state density matrices -/
section dm2
variable [CommRing κ] [StarRing κ] [CxLike κ] [LawfulCx κ]

theorem sum_smul_vec (c : κ) : ∀ {n} (a : Vec κ n), (c • a).sum = c * a.sum
  | _, .leaf x => rfl
  | _, .node a b => by simp [sum_smul_vec c]; ring

/-- `overlap(ρ_ψ, ρ_φ) = vdot(ρ_ψ.flatten(), ρ_φ.flatten()) = |⟨ψ|φ⟩|²` -/
theorem dmOverlap_pure : ∀ {n} (ψ φ : Vec κ n),
    dmOverlap (fromStateVector ψ) (fromStateVector φ) = Vec.vdot ψ φ * star (Vec.vdot ψ φ) := by
  -- generalise the two "column" vectors
  have gen : ∀ {n k} (a b : Vec κ n) (u w : Vec κ k),
      (Vec.zipWith Vec.vdot (Vec.outer a u) (Vec.outer b w)).sum = Vec.vdot a b * Vec.vdot u w := by
    intro n k a b u w
    induction a with
    | leaf x =>
      cases b with
      | leaf y =>
        simp only [Vec.outer, Vec.map_leaf, Vec.zipWith_leaf, sum_leaf, vdot_leaf]
        have : ∀ {k} (u w : Vec κ k), Vec.vdot (u.map (fun z => x * z)) (w.map (fun z => y * z))
            = star x * y * Vec.vdot u w := by
          intro k u w
          induction u with
          | leaf s => cases w; simp; ring
          | node u1 u2 ih1 ih2 => cases w; simp [ih1, ih2]; ring
        exact this u w
    | node a1 a2 ih1 ih2 =>
      cases b with
      | node b1 b2 =>
        have h1 := ih1 b1; have h2 := ih2 b2
        simp only [Vec.outer] at h1 h2 ⊢
        simp only [Vec.map_node, Vec.zipWith_node, sum_node, vdot_node, h1, h2]; ring
  intro n ψ φ
  unfold dmOverlap fromStateVector
  rw [gen]
  congr 1
  rw [← vdot_conj_symm]
  have : ∀ {k} (u w : Vec κ k), Vec.vdot (u.map CxLike.conj) (w.map CxLike.conj) = star (Vec.vdot u w) := by
    intro k u w
    induction u with
    | leaf s => cases w; simp [LawfulCx.conj_eq]
    | node u1 u2 ih1 ih2 => cases w; simp [ih1, ih2]
  rw [this, vdot_conj_symm, vdot_conj_symm]

/-- `trace(|ψ⟩⟨ψ|) = ⟨ψ|ψ⟩` -/
theorem rtrace_fromStateVector : ∀ {n} (ψ : Vec κ n), rtrace (fromStateVector ψ) = Vec.vdot ψ ψ := by
  have gen : ∀ {n} (a u : Vec κ n), (Vec.diagonal (Vec.outer a (u.map CxLike.conj))).sum = Vec.vdot u a := by
    intro n a u
    induction a with
    | leaf x => cases u; simp [Vec.outer, Vec.diagonal, LawfulCx.conj_eq]; ring
    | node a1 a2 ih1 ih2 =>
      cases u with
      | node u1 u2 =>
        have h1 := ih1 u1; have h2 := ih2 u2
        simp only [Vec.outer, Vec.map_map, Function.comp_def] at h1 h2 ⊢
        simp only [Vec.map_node, Vec.diagonal, Vec.map_map, Function.comp_def, Vec.left, Vec.right, sum_node,
          vdot_node, h1, h2]
  intro n ψ; exact gen ψ ψ

end dm2

/-! ### normalisation (`Cx α` over an ordered field) -/
section norm
variable {α : Type} [Field α] [LinearOrder α] [IsStrictOrderedRing α]

theorem sum_map_div (c : α) : ∀ {n} (a : Vec α n), (a.map (· / c)).sum = a.sum / c
  | _, .leaf x => rfl
  | _, .node a b => by simp [sum_map_div c, add_div]

theorem normSqV_divReal (r : α) (v : Vec (Cx α) n) :
    normSqV (v.map (fun z => z.divReal r)) = normSqV v / (r * r) := by
  unfold normSqV
  rw [Vec.map_map, ← sum_map_div, Vec.map_map]
  have : (Cx.normSq ∘ fun z : Cx α => z.divReal r) = ((fun x => x / (r * r)) ∘ Cx.normSq) := by
    funext z
    simp only [Function.comp_def, Cx.normSq, Cx.divReal]
    by_cases hr : r = 0
    · simp [hr]
    · field_simp
  rw [this]

/-- **`_normalize`**: when the recorded norm satisfies its contract (`nrm² = Σ|aᵢ|²`, `nrm ≠ 0`) and the code
divides, the result has norm 1; when it does not divide, `|nrm⁴ − 1| ≤ tol` and the data is untouched. -/
theorem normalize_spec (tol nrm : α) (v : Vec (Cx α) n) (hn : nrm * nrm = normSqV v) (h0 : nrm ≠ 0) :
    (tol < |nrm * nrm * nrm * nrm - 1| → normSqV (normalize tol nrm v) = 1) ∧
    (¬ tol < |nrm * nrm * nrm * nrm - 1| → normalize tol nrm v = v) := by
  unfold normalize
  rw [absv_eq_abs]
  constructor
  · intro h; rw [if_pos h, normSqV_divReal, ← hn]; field_simp
  · intro h; rw [if_neg h]

end norm


/-! ### Kronecker folds -/
section kron
variable [CommRing κ]

theorem M2.get_eq (x : M2 κ) (r c : Bool) : x.get r c =
    if r then (if c then x.d else x.c) else (if c then x.b else x.a) := by
  cases r <;> cases c <;> rfl

/-- one `torch.kron(A, m)` step: entry `[(r, rₙ), (c, cₙ)] = A[r, c] · m[rₙ, cₙ]` -/
theorem get_kronR (mm : M2 κ) : ∀ {n} (A : Mat κ n) (r c : Nat → Bool),
    (Mat.kronR A mm).get r c = A.get r c * mm.get (r n) (c n)
  | _, .leaf x, r, c => by
    simp only [Mat.kronR, Mat.get]
    cases r 0 <;> cases c 0 <;> simp [M2.get]
  | n + 1, .node a b c' d, r, c => by
    simp only [Mat.kronR, Mat.get]
    cases r 0 <;> cases c 0 <;> simp only [get_kronR mm]

/-- **`reduce(torch.kron, gates)` is the Kronecker product**: entry `[r, c]` is `Π_q gate_q[r_q, c_q]`
(qubit 0 = most significant bit of both indices). -/
theorem get_kronFold (g : Nat → M2 κ) : ∀ (n : Nat) (r c : Nat → Bool),
    (kronFold g n).get r c = ((List.range n).map (fun q => (g q).get (r q) (c q))).prod
  | 0, r, c => by simp [kronFold, Mat.get]
  | n + 1, r, c => by
    rw [kronFold, get_kronR, get_kronFold g n, List.range_succ, List.map_append, List.prod_append]
    simp

/-- entries of the row-major form -/
theorem get_toRows : ∀ {n} (A : Mat κ n) (r c : Nat → Bool), Vec.get (Vec.get A.toRows r) c = A.get r c
  | _, .leaf x, r, c => rfl
  | _, .node a b c' d, r, c => by
    cases hr : r 0 <;> cases hc : c 0 <;> simp [Mat.toRows, Mat.get, Vec.get, hr, hc, get_toRows]

theorem get_mat_add : ∀ {n} (A B : Mat κ n) (r c : Nat → Bool), (A + B).get r c = A.get r c + B.get r c
  | _, .leaf x, .leaf y, r, c => rfl
  | _, .node a b c' d, .node a' b' c'' d', r, c => by
    simp only [Mat.node_add, Mat.get]
    cases r 0 <;> cases c 0 <;> simp only [get_mat_add]

theorem get_mat_smul (s : κ) : ∀ {n} (A : Mat κ n) (r c : Nat → Bool), (s • A).get r c = s * A.get r c
  | _, .leaf x, r, c => rfl
  | _, .node a b c' d, r, c => by
    simp only [Mat.smul_node, Mat.get]
    cases r 0 <;> cases c 0 <;> simp only [get_mat_smul s]

/-- the four basis symbols are `|row⟩⟨col|` -/
theorem ketbra_get (r c r' c' : Bool) : (M2.ketbra r c : M2 κ).get r' c' = if r' = r ∧ c' = c then 1 else 0 := by
  cases r <;> cases c <;> cases r' <;> cases c' <;> simp [M2.ketbra, M2.get]

/-- assignments `gates[t] = f` for `t` in `targets`: afterwards the targeted qubits hold `f`, the others are unchanged -/
theorem targets_fold (f : M2 κ) (n : Nat) : ∀ (ts : List Int) (g g' : Nat → M2 κ),
    ts.foldlM (fun g t => (normTarget n t).map (fun q => setGate g q f)) g = some g' →
    ∀ k, g' k = if (∃ t ∈ ts, normTarget n t = some k) then f else g k
  | [], g, g', h, k => by simp at h; simp [h]
  | t :: ts, g, g', h, k => by
    simp only [List.foldlM_cons, Option.bind_eq_bind] at h
    cases ht : normTarget n t with
    | none => simp [ht] at h
    | some q =>
      simp only [ht, Option.map_some, Option.bind_some] at h
      rw [targets_fold f n ts _ g' h k]
      by_cases hk : ∃ t' ∈ ts, normTarget n t' = some k
      · have : ∃ t' ∈ t :: ts, normTarget n t' = some k := by
          obtain ⟨t', h1, h2⟩ := hk; exact ⟨t', List.mem_cons_of_mem _ h1, h2⟩
        rw [if_pos hk, if_pos this]
      · by_cases hq : k = q
        · have : ∃ t' ∈ t :: ts, normTarget n t' = some k := ⟨t, List.mem_cons_self .., by rw [ht, hq]⟩
          rw [if_neg hk, if_pos this]; simp [setGate, hq]
        · have : ¬ ∃ t' ∈ t :: ts, normTarget n t' = some k := by
            rintro ⟨t', h1, h2⟩
            rcases List.mem_cons.mp h1 with rfl | h1
            · rw [ht] at h2; exact hq (Option.some.inj h2).symm
            · exact hk ⟨t', h1, h2⟩
          rw [if_neg hk, if_neg this]; simp [setGate, hq]

/-- a Python list index `t` (negative = from the end) addresses qubit `t` resp. `n + t` -/
theorem normTarget_spec (n : Nat) (t : Int) (k : Nat) :
    normTarget n t = some k ↔ (k < n ∧ ((t : Int) = k ∨ t = (k : Int) - n)) := by
  unfold normTarget
  split_ifs with h1 h2 h3 <;> simp <;> omega

end kron


/-! ### sparse COO tensors: bag semantics -/
section sparse
variable [CommRing κ]

/-- contribution of one stored entry to position `(r, c)` -/
def at' (r c : Nat) (e : Nat × Nat × κ) : κ := if e.1 = r ∧ e.2.1 = c then e.2.2 else 0

theorem den_eq_sum (l : Coo κ) (r c : Nat) : den l r c = (l.map (at' r c)).sum := by
  unfold den
  have gen : ∀ (l : Coo κ) (acc : κ),
      l.foldl (fun acc e => if e.1 = r && e.2.1 = c then acc + e.2.2 else acc) acc = acc + (l.map (at' r c)).sum := by
    intro l
    induction l with
    | nil => intro acc; simp
    | cons e l ih =>
      intro acc
      simp only [List.foldl_cons, List.map_cons, List.sum_cons, ih, at']
      by_cases h : e.1 = r ∧ e.2.1 = c
      · simp [h, add_assoc]
      · have h' : ¬ (e.1 = r ∧ e.2.1 = c) := h
        simp only [Bool.and_eq_true, decide_eq_true_eq, h', if_false]; simp
  simpa using gen l 0

theorem den_append (a b : Coo κ) (r c : Nat) : den (a ++ b) r c = den a r c + den b r c := by
  simp [den_eq_sum]

theorem den_cons (e : Nat × Nat × κ) (l : Coo κ) (r c : Nat) : den (e :: l) r c = at' r c e + den l r c := by
  simp [den_eq_sum]

theorem den_insertC (e : Nat × Nat × κ) : ∀ (l : Coo κ) (r c : Nat), den (insertC e l) r c = at' r c e + den l r c
  | [], r, c => by simp [insertC, den_eq_sum]
  | h :: t, r, c => by
    unfold insertC
    split
    · rw [den_cons]
    · split
      · rename_i hk
        simp only [keyEq, Bool.and_eq_true, decide_eq_true_eq] at hk
        rw [den_cons, den_cons]
        simp only [at', hk.1, hk.2]
        split <;> ring
      · rw [den_cons, den_insertC e t, den_cons]; ring

/-- **`.coalesce()` does not change the matrix** -/
theorem den_coalesce (l : Coo κ) (r c : Nat) : den (coalesce l) r c = den l r c := by
  unfold coalesce
  have gen : ∀ (l acc : Coo κ), den (l.foldl (fun acc e => insertC e acc) acc) r c = den acc r c + den l r c := by
    intro l
    induction l with
    | nil => intro acc; simp [den_eq_sum]
    | cons e l ih => intro acc; rw [List.foldl_cons, ih, den_insertC, den_cons]; ring
  rw [gen]; simp [den_eq_sum]

/-- **`sparse_add` is matrix addition** -/
theorem den_sparseAdd (a b : Coo κ) (r c : Nat) : den (sparseAdd a b) r c = den a r c + den b r c := by
  unfold sparseAdd; rw [den_coalesce, den_append]

theorem den_scaleCoo (s : κ) (l : Coo κ) (r c : Nat) : den (scaleCoo s l) r c = s * den l r c := by
  simp only [den_eq_sum, scaleCoo, List.map_map]
  induction l with
  | nil => simp
  | cons e l ih =>
    simp only [List.map_cons, List.sum_cons, Function.comp_def, at', mul_add]
    congr 1; split <;> simp

theorem sum_map_mul_left' {ι : Type} (s : κ) (f : ι → κ) (l : List ι) : (l.map (fun x => s * f x)).sum = s * (l.map f).sum := by
  induction l with
  | nil => simp
  | cons e l ih => simp [ih, mul_add]

/-- Kronecker product of raw bags (no coalescing): entry `(r, c)` factorises when `b` fits in `sbr × sbc`. -/
theorem den_kronRaw (sbr sbc : Nat) (a b : Coo κ) (hb : ∀ e ∈ b, e.1 < sbr ∧ e.2.1 < sbc) (r c : Nat) :
    den (a.flatMap (fun ea => b.map (fun eb => (sbr * ea.1 + eb.1, sbc * ea.2.1 + eb.2.1, ea.2.2 * eb.2.2)))) r c
      = den a (r / sbr) (c / sbc) * den b (r % sbr) (c % sbc) := by
  induction a with
  | nil => simp [den_eq_sum]
  | cons ea a ih =>
    rw [List.flatMap_cons, den_append, ih, den_cons, add_mul]
    congr 1
    -- the block generated by `ea`
    rw [den_eq_sum, den_eq_sum, List.map_map, ← sum_map_mul_left']
    refine congrArg List.sum (List.map_congr_left (fun eb heb => ?_))
    obtain ⟨h1, h2⟩ := hb eb heb
    have hr : (sbr * ea.1 + eb.1 = r) ↔ (ea.1 = r / sbr ∧ eb.1 = r % sbr) := by
      constructor
      · intro h; subst h
        have hpos : 0 < sbr := by omega
        constructor
        · rw [Nat.mul_add_div hpos, Nat.div_eq_of_lt h1]; simp
        · rw [Nat.mul_add_mod, Nat.mod_eq_of_lt h1]
      · rintro ⟨ha, hb'⟩; rw [ha, hb']; exact Nat.div_add_mod r sbr
    have hc : (sbc * ea.2.1 + eb.2.1 = c) ↔ (ea.2.1 = c / sbc ∧ eb.2.1 = c % sbc) := by
      constructor
      · intro h; subst h
        have hpos : 0 < sbc := by omega
        constructor
        · rw [Nat.mul_add_div hpos, Nat.div_eq_of_lt h2]; simp
        · rw [Nat.mul_add_mod, Nat.mod_eq_of_lt h2]
      · rintro ⟨ha, hb'⟩; rw [ha, hb']; exact Nat.div_add_mod c sbc
    simp only [Function.comp_def, at', hr, hc]
    by_cases ha : ea.1 = r / sbr ∧ ea.2.1 = c / sbc <;> by_cases hbb : eb.1 = r % sbr ∧ eb.2.1 = c % sbc
    · simp [ha, hbb]
    · have : ¬ ((ea.1 = r / sbr ∧ eb.1 = r % sbr) ∧ ea.2.1 = c / sbc ∧ eb.2.1 = c % sbc) := by tauto
      simp [ha, hbb, this]
    · have : ¬ ((ea.1 = r / sbr ∧ eb.1 = r % sbr) ∧ ea.2.1 = c / sbc ∧ eb.2.1 = c % sbc) := by tauto
      simp [ha, hbb, this]
    · have : ¬ ((ea.1 = r / sbr ∧ eb.1 = r % sbr) ∧ ea.2.1 = c / sbc ∧ eb.2.1 = c % sbc) := by tauto
      simp [ha, hbb, this]

theorem mem_insertC (e x : Nat × Nat × κ) : ∀ (l : Coo κ), x ∈ insertC e l →
    (x.1 = e.1 ∧ x.2.1 = e.2.1) ∨ ∃ y ∈ l, x.1 = y.1 ∧ x.2.1 = y.2.1
  | [], h => by simp [insertC] at h; left; rw [h]; exact ⟨rfl, rfl⟩
  | h :: t, hx => by
    unfold insertC at hx
    split at hx
    · rcases List.mem_cons.mp hx with rfl | hx
      · left; exact ⟨rfl, rfl⟩
      · right; exact ⟨x, hx, rfl, rfl⟩
    · split at hx
      · rcases List.mem_cons.mp hx with rfl | hx
        · right; exact ⟨h, List.mem_cons_self .., rfl, rfl⟩
        · right; exact ⟨x, List.mem_cons_of_mem _ hx, rfl, rfl⟩
      · rcases List.mem_cons.mp hx with rfl | hx
        · right; exact ⟨x, List.mem_cons_self .., rfl, rfl⟩
        · rcases mem_insertC e x t hx with h1 | ⟨y, hy, h2⟩
          · left; exact h1
          · right; exact ⟨y, List.mem_cons_of_mem _ hy, h2⟩

/-- coalescing keeps the set of stored indices -/
theorem mem_coalesce (x : Nat × Nat × κ) (l : Coo κ) (hx : x ∈ coalesce l) : ∃ y ∈ l, x.1 = y.1 ∧ x.2.1 = y.2.1 := by
  unfold coalesce at hx
  have gen : ∀ (l acc : Coo κ), x ∈ l.foldl (fun acc e => insertC e acc) acc →
      (∃ y ∈ acc, x.1 = y.1 ∧ x.2.1 = y.2.1) ∨ ∃ y ∈ l, x.1 = y.1 ∧ x.2.1 = y.2.1 := by
    intro l
    induction l with
    | nil => intro acc h; left; exact ⟨x, h, rfl, rfl⟩
    | cons e l ih =>
      intro acc h
      rcases ih _ h with ⟨y, hy, h2⟩ | ⟨y, hy, h2⟩
      · rcases mem_insertC e y acc hy with h3 | ⟨z, hz, h3⟩
        · right; exact ⟨e, List.mem_cons_self .., h2.1.trans h3.1, h2.2.trans h3.2⟩
        · left; exact ⟨z, hz, h2.1.trans h3.1, h2.2.trans h3.2⟩
      · right; exact ⟨y, List.mem_cons_of_mem _ hy, h2⟩
  rcases gen l [] hx with ⟨y, hy, _⟩ | h
  · simp at hy
  · exact h

/-- **`sparse_kron` is the Kronecker product**: `(a ⊗ b)[r, c] = a[r / sb₀, c / sb₁] · b[r % sb₀, c % sb₁]`
whenever the stored indices of `b` lie inside its shape `(sb₀, sb₁)`. -/
theorem den_sparseKron (sbr sbc : Nat) (a b : Coo κ) (hb : ∀ e ∈ b, e.1 < sbr ∧ e.2.1 < sbc) (r c : Nat) :
    den (sparseKron sbr sbc a b) r c = den a (r / sbr) (c / sbc) * den b (r % sbr) (c % sbc) := by
  unfold sparseKron
  rw [den_kronRaw sbr sbc _ _ (fun e he => by
    obtain ⟨y, hy, h1, h2⟩ := mem_coalesce e b he
    rw [h1, h2]; exact hb y hy), den_coalesce, den_coalesce]

end sparse

end EmuVerif.SvState
