/-
  Proofs for C29: a common phase offset is conjugation of the Hamiltonian by `V = ⊗ diag(1, e^{iθ})`, negating all
  phases is entry-wise complex conjugation; consequences for polynomial propagators and observables.
-/
import EmuVerif.Model.SvSym
import EmuVerif.Proofs.SvObs
import Mathlib.Tactic.LinearCombination
set_option linter.unusedSectionVars false
set_option linter.unusedVariables false
set_option linter.unusedSimpArgs false
set_option linter.unnecessarySeqFocus false
namespace EmuVerif.SvSym
open EmuVerif EmuVerif.TreeVec EmuVerif.SvOps EmuVerif.SvState EmuVerif.SvObs
variable {κ β : Type} {n : Nat}

section lin
variable [CommRing κ] [AddCommGroup β] [Module κ β]

@[simp] theorem phase_node (u : κ) (a b : Vec β n) : phase u (Vec.node a b) = Vec.node (phase u a) (u • phase u b) := rfl
@[simp] theorem phase_leaf (u : κ) (x : β) : phase u (Vec.leaf x) = Vec.leaf x := rfl

theorem phase_add (u : κ) : ∀ {n} (x y : Vec β n), phase u (x + y) = phase u x + phase u y
  | _, .leaf x, .leaf y => rfl
  | _, .node a b, .node c d => by simp [phase_add u]

theorem phase_smul (u s : κ) : ∀ {n} (x : Vec β n), phase u (s • x) = s • phase u x
  | _, .leaf x => rfl
  | _, .node a b => by simp [phase_smul u s, smul_comm u s]

theorem phase_zero (u : κ) : ∀ n, phase u (0 : Vec β n) = 0
  | 0 => rfl
  | n + 1 => by rw [Vec.zero_succ, phase_node, phase_zero u n, smul_zero]

theorem phase_phase (u w : κ) (h : u * w = 1) : ∀ {n} (x : Vec β n), phase u (phase w x) = x
  | _, .leaf x => rfl
  | _, .node a b => by simp [phase_smul, phase_phase u w h, smul_smul, h]

theorem phase_sum (u : κ) {ι : Type} (f : ι → Vec β n) :
    ∀ l : List ι, phase u ((l.map f).sum) = (l.map (fun i => phase u (f i))).sum
  | [] => by simp [phase_zero]
  | a :: l => by simp [phase_add, phase_sum u f l]

theorem phase_hmul (u : κ) : ∀ {n} (d : Vec κ n) (x : Vec β n), phase u (Vec.hmul d x) = Vec.hmul d (phase u x)
  | _, .leaf d, .leaf x => rfl
  | _, .node d e, .node a b => by
    simp only [hmul_node, phase_node, phase_hmul u]
    congr 1
    exact Vec.ext_get (fun p => by simp [smul_comm u])

theorem applyAt_smul_vec (mm : M2 κ) (s : κ) : ∀ {n} (k : Nat) (x : Vec β n),
    applyAt k mm (s • x) = s • applyAt k mm x
  | _, _, .leaf x => by simp [applyAt]
  | _, 0, .node a b => by
    simp only [applyAt, Vec.smul_node]
    congr 1 <;> exact Vec.ext_get (fun p => by simp [smul_comm s, smul_add])
  | _, k + 1, .node a b => by simp [applyAt, applyAt_smul_vec mm s k]

/-- `D m D†` for `D = diag(1, u)`, `D† = diag(1, w)` -/
def conjD (u w : κ) (mm : M2 κ) : M2 κ := ⟨mm.a, mm.b * w, u * mm.c, u * mm.d * w⟩

/-- `V (I⊗…⊗m⊗…⊗I) V† = I⊗…⊗(D m D†)⊗…⊗I`, matrix-free -/
theorem phase_applyAt (u w : κ) (h : u * w = 1) (mm : M2 κ) : ∀ {n} (k : Nat) (_ : k < n) (x : Vec β n),
    phase u (applyAt k mm (phase w x)) = applyAt k (conjD u w mm) x
  | _, 0, _, .node a b => by
    simp only [phase_node, applyAt, phase_add, phase_smul, phase_phase u w h, conjD]
    congr 1
    · exact Vec.ext_get (fun p => by simp [smul_smul])
    · exact Vec.ext_get (fun p => by simp [smul_smul, smul_add, mul_assoc])
  | _, k + 1, hk, .node a b => by
    have ha := phase_applyAt u w h mm k (Nat.lt_of_succ_lt_succ hk) a
    have hb := phase_applyAt u w h mm k (Nat.lt_of_succ_lt_succ hk) b
    simp only [phase_node, applyAt, applyAt_smul_vec, phase_smul, ha, hb, smul_smul, h, one_smul]

end lin

section ham
variable [CommRing κ] [StarRing κ] [CxLike κ] [LawfulCx κ] [AddCommGroup β] [Module κ β]

/-- `H v` as "diagonal ⊙ v + Σ_k (off-diagonal 2×2 block on qubit k) v" -/
theorem hamMulWith_eq_sum (cplx : Bool) (Ω δ : Nat → κ) (ph : Nat → Phase κ) (U : Nat → Nat → κ) (v : Vec β n) :
    hamMulWith cplx Ω δ ph U v = Vec.hmul (createDiagonal true δ U n) v
      + ((List.range n).map (fun k => applyAt k (offLocal cplx (halfOmega Ω) ph k) v)).sum := by
  unfold hamMulWith
  cases cplx
  · simp only [Bool.false_eq_true, if_false]; rw [sigmaReal_eq]; simp [offLocal]
  · simp only [if_true]; rw [sigmaComplex_eq]; simp [offLocal]

/-- **A common phase offset is conjugation by `V = ⊗ diag(1, e^{iθ})`**: with `u = cθ + i sθ`, `u ū = 1` and the
`(cos, sin)` pairs rotated by the addition formulas, `H(φ+θ) v = V H(φ) V† v` for every `n`, parameters and `v`. -/
theorem phase_offset_conjugation (Ω δ : Nat → κ) (ph : Nat → Phase κ) (U : Nat → Nat → κ) (cθ sθ : κ)
    (hc : star cθ = cθ) (hs : star sθ = sθ) (hunit : cθ * cθ + sθ * sθ = 1) (v : Vec β n) :
    hamMulWith true Ω δ (fun k => shiftPhase cθ sθ (ph k)) U v
      = phase (cθ + CxLike.I * sθ) (hamMulWith true Ω δ ph U (phase (star (cθ + CxLike.I * sθ)) v)) := by
  set u := cθ + CxLike.I * sθ with hu
  have hstar : star u = cθ - CxLike.I * sθ := by
    rw [hu, star_add, star_mul', hc, hs, LawfulCx.star_I]; ring
  have huw : u * star u = 1 := by
    rw [hstar, hu]
    have : (cθ + CxLike.I * sθ) * (cθ - CxLike.I * sθ) = cθ * cθ - (CxLike.I * CxLike.I) * (sθ * sθ) := by ring
    rw [this, LawfulCx.I_mul_I]; linear_combination hunit
  rw [hamMulWith_eq_sum, hamMulWith_eq_sum, phase_add, phase_hmul, phase_phase u (star u) huw, phase_sum]
  congr 1
  refine sum_map_congr _ _ _ (fun k hk => ?_)
  rw [phase_applyAt u (star u) huw _ k (List.mem_range.mp hk)]
  congr 1
  have hI : (CxLike.I : κ) * CxLike.I = -1 := LawfulCx.I_mul_I
  unfold offLocal conjD cOmega expi shiftPhase
  ext
  · simp
  · simp only [LawfulCx.conj_eq, hstar, hu, star_mul', star_add, star_sub, hc, hs, LawfulCx.star_I, if_true]
    linear_combination (-(star (halfOmega Ω k) * star (ph k).s * sθ)) * hI
  · simp only [hu, if_true]
    linear_combination (-(halfOmega Ω k * (ph k).s * sθ)) * hI
  · simp

end ham
section consequences
variable [CommRing κ] [StarRing κ] [CxLike κ] [LawfulCx κ]

theorem absSq_mul (u z : κ) (h : u * star u = 1) : absSq (u * z) = absSq z := by
  unfold absSq; rw [LawfulCx.conj_eq, LawfulCx.conj_eq, star_mul']
  calc star u * star z * (u * z) = (u * star u) * (star z * z) := by ring
    _ = star z * z := by rw [h, one_mul]

/-- `V` only multiplies entries by unit-modulus numbers: all `|ψ_s|²` (sampling weights) are unchanged -/
theorem phase_probabilities (u : κ) (h : u * star u = 1) : ∀ {n} (ψ : Vec κ n),
    (phase u ψ).map absSq = ψ.map absSq
  | _, .leaf x => rfl
  | _, .node a b => by
    simp only [phase_node, Vec.map_node, phase_probabilities u h a]
    congr 1
    rw [← phase_probabilities u h b]
    exact Vec.ext_get (fun p => by simp [absSq_mul u _ h])

theorem occupation_phase (u : κ) (h : u * star u = 1) (ψ : Vec κ n) (k : Nat) : occSv (phase u ψ) k = occSv ψ k := by
  unfold occSv; rw [phase_probabilities u h]

theorem correlation_phase (u : κ) (h : u * star u = 1) (ψ : Vec κ n) (i j : Nat) :
    corrSv (phase u ψ) i j = corrSv ψ i j := by
  unfold corrSv occSv; rw [phase_probabilities u h]

/-- `V |g…g⟩ = |g…g⟩` -/
theorem phase_ground (u : κ) : ∀ n, phase u (ground n : Vec κ n) = ground n
  | 0 => rfl
  | n + 1 => by
    have hz : phase u (Vec.replicate n (0 : κ)) = Vec.replicate n 0 := by
      have := phase_zero (β := κ) u n; simpa using this
    simp only [ground, phase_node, phase_ground u n, hz]
    congr 1
    exact Vec.ext_get (fun p => by simp)

/-- `V` is unitary: it preserves inner products (hence energies `⟨ψ|Hψ⟩`) -/
theorem vdot_phase (u : κ) (h : u * star u = 1) : ∀ {n} (a b : Vec κ n),
    Vec.vdot (phase u a) (phase u b) = Vec.vdot a b
  | _, .leaf x, .leaf y => rfl
  | _, .node a b, .node c d => by
    simp only [phase_node, vdot_node, vdot_smul_left, vdot_smul_right, vdot_phase u h]
    have : u * (star u * Vec.vdot b d) = (u * star u) * Vec.vdot b d := by ring
    rw [this, h, one_mul]

variable [AddCommGroup β] [Module κ β]

/-- conjugated operators have conjugated polynomials: `p(V A V†) = V p(A) V†` -/
theorem polyApply_conj (V W A A' : Vec β n → Vec β n) (hVW : ∀ x, V (W x) = x)
    (hadd : ∀ x y, V (x + y) = V x + V y) (hsmul : ∀ (c : κ) x, V (c • x) = c • V x)
    (hA : ∀ x, A' x = V (A (W x))) (hWV : ∀ x, W (V x) = x) :
    ∀ (cs : List κ) (v : Vec β n), polyApply A' cs v = V (polyApply A cs (W v))
  | [], v => by
    simp only [polyApply]; rw [hsmul, hVW]
  | c :: cs, v => by
    simp only [polyApply]
    rw [polyApply_conj V W A A' hVW hadd hsmul hA hWV cs v, hA, hWV, hadd, hsmul, hVW]

/-- a whole sequence of steps, each conjugated by the same `V`, is conjugated by `V` -/
theorem evolve_conj (V W : Vec β n → Vec β n) (hWV : ∀ x, W (V x) = x) :
    ∀ (steps : List ((Vec β n → Vec β n) × (Vec β n → Vec β n)))
      (_ : ∀ s ∈ steps, ∀ x, s.2 x = V (s.1 (W x))) (v : Vec β n),
      evolve (steps.map (·.2)) (V v) = V (evolve (steps.map (·.1)) v)
  | [], _, v => rfl
  | s :: steps, h, v => by
    simp only [evolve, List.map_cons, List.foldl_cons]
    rw [h s (List.mem_cons_self ..), hWV]
    exact evolve_conj V W hWV steps (fun s' hs => h s' (List.mem_cons_of_mem _ hs)) (s.1 v)

end consequences
section negation
variable [CommRing κ] [StarRing κ] [CxLike κ] [LawfulCx κ]

/-- entry-wise complex conjugation of a state vector -/
def cj (x : Vec κ n) : Vec κ n := x.map CxLike.conj

theorem cj_add (x y : Vec κ n) : cj (x + y) = cj x + cj y :=
  Vec.ext_get (fun p => by simp [cj, LawfulCx.conj_eq])
theorem cj_smul (c : κ) (x : Vec κ n) : cj (c • x) = star c • cj x :=
  Vec.ext_get (fun p => by simp [cj, LawfulCx.conj_eq])
theorem cj_cj (x : Vec κ n) : cj (cj x) = x :=
  Vec.ext_get (fun p => by simp [cj, LawfulCx.conj_eq])
theorem cj_zero : cj (0 : Vec κ n) = 0 := Vec.ext_get (fun p => by simp [cj, LawfulCx.conj_eq])
theorem cj_sum {ι : Type} (f : ι → Vec κ n) : ∀ l : List ι, cj ((l.map f).sum) = (l.map (fun i => cj (f i))).sum
  | [] => by simp [cj_zero]
  | a :: l => by simp [cj_add, cj_sum f l]

theorem cj_applyAt (mm : M2 κ) : ∀ {n} (k : Nat) (x : Vec κ n), cj (applyAt k mm x) = applyAt k mm.conj (cj x)
  | _, _, .leaf x => by simp [applyAt, cj]
  | _, 0, .node a b => by
    have e : cj (Vec.node a b) = Vec.node (cj a) (cj b) := rfl
    rw [e]; simp only [applyAt]
    show Vec.node (cj _) (cj _) = _
    simp [cj_add, cj_smul, M2.conj, M2.map, LawfulCx.conj_eq]
  | _, k + 1, .node a b => by
    have e : cj (Vec.node a b) = Vec.node (cj a) (cj b) := rfl
    rw [e]; simp only [applyAt]
    show Vec.node (cj _) (cj _) = _
    rw [cj_applyAt mm k a, cj_applyAt mm k b]

theorem nOp_conj : (M2.nOp : M2 κ).conj = M2.nOp := by
  ext <;> simp [M2.conj, M2.map, M2.nOp, LawfulCx.conj_eq]

/-- `H` depends on the interaction matrix only through its entries `U_ij`, `i < j < n` — and on the register
only through that matrix (the model has no other geometric input) -/
theorem hamMulWith_congr_U [AddCommGroup β] [Module κ β] (cplx : Bool) (Ω δ : Nat → κ) (ph : Nat → Phase κ)
    (U U' : Nat → Nat → κ) (hU : ∀ i j, i < j → j < n → U i j = U' i j) (v : Vec β n) :
    hamMulWith cplx Ω δ ph U v = hamMulWith cplx Ω δ ph U' v := by
  rw [hamMulWith_eq_sum, hamMulWith_eq_sum, hmul_createDiagonal, hmul_createDiagonal]
  congr 1
  refine sum_map_congr _ _ _ (fun i hi => ?_)
  congr 1
  refine sum_map_congr _ _ _ (fun j hj => ?_)
  have hj' := List.mem_range'_1.mp hj
  have hi' := List.mem_range.mp hi
  rw [hU i j (by omega) (by omega)]

/-- **Negating all phases is entry-wise complex conjugation of `H`** (real drive amplitudes, detunings, interaction
matrix and `(cos, sin)` pairs): `H(−φ) v = conj(H(φ) conj(v))`. -/
theorem phase_negation_conjugation (Ω δ : Nat → κ) (ph : Nat → Phase κ) (U : Nat → Nat → κ) (v : Vec κ n)
    (hΩ : ∀ k, k < n → star (Ω k) = Ω k) (hδ : ∀ k, k < n → star (δ k) = δ k)
    (hU : ∀ i j, i < j → j < n → star (U i j) = U i j)
    (hph : ∀ k, k < n → star (ph k).c = (ph k).c ∧ star (ph k).s = (ph k).s) :
    hamMulWith true Ω δ (fun k => negPhase (ph k)) U v = cj (hamMulWith true Ω δ ph U (cj v)) := by
  rw [hamMulWith_eq_sum, hamMulWith_eq_sum, cj_add, cj_sum, hmul_createDiagonal, hmul_createDiagonal, cj_sum]
  congr 1
  · refine sum_map_congr _ _ _ (fun i hi => ?_)
    have hi' := List.mem_range.mp hi
    rw [cj_add, cj_sum]
    congr 1
    · simp only [detTerm, if_true]
      rw [cj_smul, cj_applyAt, cj_cj, nOp_conj, star_neg, hδ i hi']
    · refine sum_map_congr _ _ _ (fun j hj => ?_)
      have hj' := List.mem_range'_1.mp hj
      rw [cj_smul, cj_applyAt, cj_applyAt, cj_cj, nOp_conj, hU i j (by omega) (by omega)]
  · refine sum_map_congr _ _ _ (fun k hk => ?_)
    have hk' := List.mem_range.mp hk
    obtain ⟨h1, h2⟩ := hph k hk'
    rw [cj_applyAt, cj_cj]
    congr 1
    have hω : star (halfOmega Ω k) = halfOmega Ω k := by
      unfold halfOmega; rw [star_mul', hΩ k hk', LawfulCx.star_half]
    unfold offLocal cOmega expi negPhase M2.conj M2.map
    ext <;> simp [LawfulCx.conj_eq, star_mul', hω, h1, h2, LawfulCx.star_I]

/-- under conjugation a polynomial propagator turns into the one with conjugated coefficients
(`e^{−iHt}` becomes `e^{+iH̄t}`: time reversal, *not* the same evolution) -/
theorem polyApply_cj (A A' : Vec κ n → Vec κ n) (hA : ∀ x, A' x = cj (A (cj x))) :
    ∀ (cs : List κ) (v : Vec κ n), polyApply A' (cs.map star) (cj v) = cj (polyApply A cs v)
  | [], v => by simp only [polyApply, List.map_nil]; rw [cj_smul, star_zero]
  | c :: cs, v => by
    simp only [polyApply, List.map_cons]
    rw [polyApply_cj A A' hA cs v, hA, cj_cj, cj_add, cj_smul]

theorem cj_probabilities (ψ : Vec κ n) : (cj ψ).map absSq = ψ.map absSq :=
  Vec.ext_get (fun p => by simp [cj, absSq, LawfulCx.conj_eq, mul_comm])

end negation

end EmuVerif.SvSym
