/-
  Helper lemmas for `Props/C11.lean` (and the sampling proofs): the cache layer of `Model/Tensor.lean`
  is transparent, `sumTo` is a `Finset.range` sum, and the recursive model functions have pure
  functional twins (`ampVecF`, `innerAccF`, …) on which the algebra is done.
-/
import EmuVerif.Model.Tensor
import Mathlib.Algebra.BigOperators.Ring.Finset
import Mathlib.Algebra.BigOperators.Intervals
import Mathlib.Algebra.Star.BigOperators
import Mathlib.Tactic.Ring

set_option linter.unusedSectionVars false
set_option linter.unusedVariables false

namespace EmuVerif.Tensor
open Finset

/-! ### the cache is invisible -/
section cache
variable {β : Type}

@[simp] theorem Arr.get_ofFn (n : Nat) (f : Nat → β) (i : Nat) : (Arr.ofFn n f).get i = f i := by
  unfold Arr.get Arr.ofFn
  split
  · simp
  · rfl

@[simp] theorem get2_memo2 (n m : Nat) (f : Nat → Nat → β) (i j : Nat) : get2 (memo2 n m f) i j = f i j := by
  simp [get2, memo2]

@[simp] theorem get3_memo3 (n m p : Nat) (f : Nat → Nat → Nat → β) (i j k : Nat) :
    get3 (memo3 n m p f) i j k = f i j k := by
  simp [get3, memo3]

@[simp] theorem get4_memo4 (n m p q : Nat) (f : Nat → Nat → Nat → Nat → β) (i j k l : Nat) :
    get4 (memo4 n m p q f) i j k l = f i j k l := by
  simp [get4, memo4]

@[simp] theorem Site.make_t (dl d dr : Nat) (f : Nat → Nat → Nat → β) : (Site.make dl d dr f).t = f := by
  funext x l r; simp [Site.make]
@[simp] theorem Site.make_dl (dl d dr : Nat) (f : Nat → Nat → Nat → β) : (Site.make dl d dr f).dl = dl := rfl
@[simp] theorem Site.make_d (dl d dr : Nat) (f : Nat → Nat → Nat → β) : (Site.make dl d dr f).d = d := rfl
@[simp] theorem Site.make_dr (dl d dr : Nat) (f : Nat → Nat → Nat → β) : (Site.make dl d dr f).dr = dr := rfl
end cache

/-- In a star ring, the model's conjugation is `star`. -/
instance (priority := low) conjOfStar {K : Type} [Star K] : Conj K := ⟨star⟩

section ring
variable {K : Type} [CommRing K]

theorem sumTo_eq (n : Nat) (f : Nat → K) : sumTo n f = ∑ i ∈ range n, f i := by
  induction n with
  | zero => simp [sumTo]
  | succ n ih => simp [sumTo, ih, Finset.sum_range_succ]

/-! ### sums over strings -/

theorem sumStrings_congr (d n : Nat) (f g : List Nat → K) (h : ∀ s, s.length = n → f s = g s) :
    sumStrings d n f = sumStrings d n g := by
  induction n generalizing f g with
  | zero => simp [sumStrings, h]
  | succ n ih =>
    simp only [sumStrings, sumTo_eq]
    refine Finset.sum_congr rfl (fun x _ => ih _ _ (fun s hs => h _ (by simp [hs])))

theorem sumStrings_zero (d n : Nat) : sumStrings d n (fun _ => (0 : K)) = 0 := by
  induction n with
  | zero => simp [sumStrings]
  | succ n ih => simp [sumStrings, sumTo_eq, ih]

theorem sumStrings_add (d n : Nat) (f g : List Nat → K) :
    sumStrings d n (fun s => f s + g s) = sumStrings d n f + sumStrings d n g := by
  induction n generalizing f g with
  | zero => simp [sumStrings]
  | succ n ih => simp [sumStrings, sumTo_eq, ih, Finset.sum_add_distrib]

theorem sumStrings_mul_left (d n : Nat) (c : K) (f : List Nat → K) :
    sumStrings d n (fun s => c * f s) = c * sumStrings d n f := by
  induction n generalizing f with
  | zero => simp [sumStrings]
  | succ n ih => simp [sumStrings, sumTo_eq, ih, Finset.mul_sum]

theorem sumStrings_sum {ι : Type} (d n : Nat) (S : Finset ι) (f : ι → List Nat → K) :
    sumStrings d n (fun s => ∑ i ∈ S, f i s) = ∑ i ∈ S, sumStrings d n (f i) := by
  induction n generalizing f with
  | zero => simp [sumStrings]
  | succ n ih =>
    simp only [sumStrings, sumTo_eq, ih]
    rw [Finset.sum_comm]

/-- only the string `t` contributes to a sum against its indicator -/
theorem sumStrings_indicator (d : Nat) (t : List Nat) (ht : ∀ x ∈ t, x < d) (f : List Nat → K) :
    sumStrings d t.length (fun s => if s = t then f s else 0) = f t := by
  induction t generalizing f with
  | nil => simp [sumStrings]
  | cons y t ih =>
    simp only [List.length_cons, sumStrings, sumTo_eq]
    rw [Finset.sum_eq_single y]
    · have := ih (fun x hx => ht x (List.mem_cons_of_mem _ hx)) (fun s => f (y :: s))
      simpa using this
    · intro x _ hxy
      have : (fun s => if x :: s = y :: t then f (x :: s) else 0) = fun _ => (0 : K) := by
        funext s; simp [hxy]
      rw [this, sumStrings_zero]
    · intro hy
      exact absurd (Finset.mem_range.mpr (ht y (List.mem_cons_self ..))) hy

/-! ### pure twins of the row-vector fold -/

/-- `v · A[x]` -/
def rowStepF (v : Nat → K) (A : Site K) (x : Nat) : Nat → K :=
  fun r => ∑ l ∈ range A.dl, v l * A.t x l r

def ampVecF : List (Site K) → List Nat → (Nat → K) → (Nat → K)
  | [], [], v => v
  | A :: fs, x :: s, v => ampVecF fs s (rowStepF v A x)
  | _, _, _ => fun _ => 0

theorem rowStep_get (v : Arr K) (A : Site K) (x : Nat) : (rowStep v A x).get = rowStepF v.get A x := by
  funext r; simp [rowStep, rowStepF, sumTo_eq]

theorem ampVec_get (fs : List (Site K)) (s : List Nat) (v : Arr K) :
    (ampVec fs s v).get = ampVecF fs s v.get := by
  induction fs generalizing s v with
  | nil => cases s <;> (funext i; simp [ampVec, ampVecF])
  | cons A fs ih =>
    cases s with
    | nil => funext i; simp [ampVec, ampVecF]
    | cons x s => simp [ampVec, ampVecF, ih, rowStep_get]

theorem amp_eq (fs : List (Site K)) (s : List Nat) : amp fs s = ampVecF fs s (fun _ => 1) 0 := by
  unfold amp
  rw [ampVec_get]
  congr 1
  funext i; simp [ones1]

theorem ampVecF_length_ne (fs : List (Site K)) (s : List Nat) (v : Nat → K) (h : fs.length ≠ s.length) :
    ampVecF fs s v = fun _ => 0 := by
  induction fs generalizing s v with
  | nil => cases s <;> simp_all [ampVecF]
  | cons A fs ih =>
    cases s with
    | nil => simp [ampVecF]
    | cons x s => simp only [ampVecF]; exact ih _ _ (by simpa using h)

/-- linearity of the fold in the start vector -/
theorem ampVecF_smul (fs : List (Site K)) (s : List Nat) (c : K) (v : Nat → K) :
    ampVecF fs s (fun l => c * v l) = fun i => c * ampVecF fs s v i := by
  induction fs generalizing s v with
  | nil => cases s <;> simp [ampVecF]
  | cons A fs ih =>
    cases s with
    | nil => simp [ampVecF]
    | cons x s =>
      simp only [ampVecF]
      rw [← ih]
      congr 1
      funext r
      simp only [rowStepF, Finset.mul_sum]
      exact Finset.sum_congr rfl (fun l _ => by ring)

theorem ampVecF_add_vec (fs : List (Site K)) (s : List Nat) (v w : Nat → K) :
    ampVecF fs s (fun l => v l + w l) = fun i => ampVecF fs s v i + ampVecF fs s w i := by
  induction fs generalizing s v w with
  | nil => cases s <;> simp [ampVecF]
  | cons A fs ih =>
    cases s with
    | nil => simp [ampVecF]
    | cons x s =>
      simp only [ampVecF]
      rw [← ih]
      congr 1
      funext r
      simp only [rowStepF, ← Finset.sum_add_distrib]
      exact Finset.sum_congr rfl (fun l _ => by ring)

theorem ampVecF_zero (fs : List (Site K)) (s : List Nat) : ampVecF fs s (fun _ => 0) = fun _ => 0 := by
  have := ampVecF_smul fs s 0 (fun _ => (0 : K))
  simpa using this

/-- the fold only looks at the first `dl` entries of the start vector -/
theorem ampVecF_congr_range (A : Site K) (fs : List (Site K)) (s : List Nat) (v w : Nat → K)
    (h : ∀ l < A.dl, v l = w l) : ampVecF (A :: fs) s v = ampVecF (A :: fs) s w := by
  cases s with
  | nil => simp [ampVecF]
  | cons x s =>
    simp only [ampVecF]
    congr 1
    funext r
    exact Finset.sum_congr rfl (fun l hl => by rw [h l (Finset.mem_range.mp hl)])

/-! ### well-formed chains -/

/-- left bond dimension of the first factor (1 for the empty chain) -/
def headDl : List (Site K) → Nat
  | [] => 1
  | A :: _ => A.dl

@[simp] theorem headDl_nil : headDl ([] : List (Site K)) = 1 := rfl
@[simp] theorem headDl_cons (A : Site K) (fs : List (Site K)) : headDl (A :: fs) = A.dl := rfl

/-- consecutive bonds match and the last right bond is 1 -/
def Wf : List (Site K) → Prop
  | [] => True
  | A :: fs => A.dr = headDl fs ∧ Wf fs

theorem chainOk_cons_cons (A B : Site K) (fs : List (Site K)) :
    chainOk (A :: B :: fs) = true ↔ A.dr = B.dl ∧ chainOk (B :: fs) = true := by
  simp [chainOk]

theorem wf_of_chainOk (fs : List (Site K)) (h : chainOk fs = true) (hl : fs.getLast?.map (·.dr) = some 1) :
    Wf fs := by
  induction fs with
  | nil => trivial
  | cons A fs ih =>
    cases fs with
    | nil => simp at hl; exact ⟨by simpa [headDl] using hl, trivial⟩
    | cons B fs =>
      rw [chainOk_cons_cons] at h
      refine ⟨by simpa [headDl] using h.1, ih h.2 ?_⟩
      simpa [List.getLast?_cons_cons] using hl

theorem chainOk_of_wf (fs : List (Site K)) (h : Wf fs) : chainOk fs = true := by
  induction fs with
  | nil => rfl
  | cons A fs ih =>
    cases fs with
    | nil => rfl
    | cons B fs =>
      rw [chainOk_cons_cons]
      exact ⟨h.1, ih h.2⟩

theorem chainOk_tail (A : Site K) (fs : List (Site K)) (h : chainOk (A :: fs) = true) : chainOk fs = true := by
  cases fs with
  | nil => rfl
  | cons B fs => exact ((chainOk_cons_cons A B fs).mp h).2

/-! ### column form of the amplitude -/

/-- amplitude of the tail seen from left bond index `l` -/
def colAmp : List (Site K) → List Nat → Nat → K
  | [], [], l => if l = 0 then 1 else 0
  | A :: fs, x :: s, l => ∑ r ∈ range A.dr, A.t x l r * colAmp fs s r
  | _, _, _ => 0

theorem ampVecF_eq_col (fs : List (Site K)) (h : Wf fs) (s : List Nat) (v : Nat → K) :
    ampVecF fs s v 0 = ∑ l ∈ range (headDl fs), v l * colAmp fs s l := by
  induction fs generalizing s v with
  | nil => cases s <;> simp [ampVecF, colAmp, headDl]
  | cons A fs ih =>
    cases s with
    | nil => simp [ampVecF, colAmp]
    | cons x s =>
      simp only [ampVecF, colAmp, headDl]
      rw [ih h.2, ← h.1]
      simp only [rowStepF, Finset.sum_mul, Finset.mul_sum]
      rw [Finset.sum_comm]
      exact Finset.sum_congr rfl (fun l _ => Finset.sum_congr rfl (fun r _ => by ring))

/-! ### `add_factors` -/

/-- concatenation of two row vectors, the first of length `d` -/
def concatF (d : Nat) (v w : Nat → K) : Nat → K := fun l => if l < d then v l else w (l - d)

theorem sum_range_concat (n m : Nat) (f g : Nat → K) :
    ∑ l ∈ range (n + m), (if l < n then f l else g (l - n)) = ∑ l ∈ range n, f l + ∑ l ∈ range m, g l := by
  rw [Finset.sum_range_add]
  congr 1
  · exact Finset.sum_congr rfl (fun l hl => by simp [Finset.mem_range.mp hl])
  · exact Finset.sum_congr rfl (fun l _ => by simp)

theorem rowStepF_blockDiag (A B : Site K) (v w : Nat → K) (x : Nat) :
    rowStepF (concatF A.dl v w) (blockDiag A B) x = concatF A.dr (rowStepF v A x) (rowStepF w B x) := by
  funext r
  simp only [rowStepF, blockDiag, Site.make_t, Site.make_dl, concatF]
  have : ∀ l, (if l < A.dl then v l else w (l - A.dl)) *
      (if l < A.dl then (if r < A.dr then A.t x l r else 0)
        else (if r < A.dr then 0 else B.t x (l - A.dl) (r - A.dr)))
      = if l < A.dl then (if r < A.dr then v l * A.t x l r else 0)
        else (if r < A.dr then 0 else w (l - A.dl) * B.t x (l - A.dl) (r - A.dr)) := by
    intro l; split <;> split <;> simp
  simp only [this]
  rw [sum_range_concat A.dl B.dl (fun l => if r < A.dr then v l * A.t x l r else 0)
    (fun l => if r < A.dr then 0 else w l * B.t x l (r - A.dr))]
  split <;> simp

theorem rowStepF_catLeft (A B : Site K) (v w : Nat → K) (x : Nat) :
    rowStepF (concatF A.dl v w) (catLeft A B) x = fun r => rowStepF v A x r + rowStepF w B x r := by
  funext r
  simp only [rowStepF, catLeft, Site.make_t, Site.make_dl, concatF]
  have : ∀ l, (if l < A.dl then v l else w (l - A.dl)) * (if l < A.dl then A.t x l r else B.t x (l - A.dl) r)
      = if l < A.dl then v l * A.t x l r else w (l - A.dl) * B.t x (l - A.dl) r := by
    intro l; split <;> rfl
  simp only [this]
  exact sum_range_concat A.dl B.dl (fun l => v l * A.t x l r) (fun l => w l * B.t x l r)

theorem rowStepF_catRight (A B : Site K) (hdl : A.dl = B.dl) (v : Nat → K) (x : Nat) :
    rowStepF v (catRight A B) x = concatF A.dr (rowStepF v A x) (rowStepF v B x) := by
  funext r
  simp only [rowStepF, catRight, Site.make_t, Site.make_dl, concatF, ← hdl]
  split <;> rfl

/-- the middle and last sites of `add_factors`: the row vector stays the concatenation -/
theorem ampVecF_addAux (n : Nat) (L R S : List (Site K)) (i : Nat) (hi : 0 < i) (hn : i + L.length = n)
    (hL : L ≠ []) (hok : chainOk L = true) (h : addAux n i L R = some S) (s : List Nat) (v w : Nat → K) :
    ampVecF S s (concatF (headDl L) v w) = fun j => ampVecF L s v j + ampVecF R s w j := by
  induction L generalizing R S i s v w with
  | nil => exact absurd rfl hL
  | cons A L ih =>
    cases R with
    | nil => simp [addAux] at h
    | cons B R =>
      simp only [addAux] at h
      split at h
      · rename_i c rest hc hrest
        simp only [Option.some.injEq] at h
        subst h
        cases s with
        | nil => simp [ampVecF]
        | cons x s =>
          simp only [ampVecF, headDl]
          cases L with
          | nil =>
            -- last site: i = n - 1
            cases R with
            | nil =>
              simp only [addAux, Option.some.injEq] at hrest
              subst hrest
              have hlast : i = n - 1 := by simp at hn; omega
              have hne : i ≠ 0 := by omega
              simp only [addSite, if_neg hne, if_pos hlast] at hc
              split at hc
              · simp only [Option.some.injEq] at hc
                subst hc
                rw [rowStepF_catLeft]
                cases s <;> simp [ampVecF]
              · exact absurd hc (by simp)
            | cons B' R' => simp [addAux] at hrest
          | cons A' L' =>
            have hne : i ≠ 0 := by omega
            have hnl : i ≠ n - 1 := by simp at hn; omega
            simp only [addSite, if_neg hne, if_neg hnl] at hc
            split at hc
            · simp only [Option.some.injEq] at hc
              subst hc
              rw [rowStepF_blockDiag]
              have hdr : A.dr = headDl (A' :: L') := ((chainOk_cons_cons A A' L').mp hok).1
              rw [hdr]
              exact ih R rest (i + 1) (by omega) (by simp at hn ⊢; omega) (by simp) (chainOk_tail A _ hok) hrest s _ _
            · exact absurd hc (by simp)
      · exact absurd h (by simp)

end ring
end EmuVerif.Tensor
