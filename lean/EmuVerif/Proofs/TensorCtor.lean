/-
  `scale_factors`, the top level of `add_factors`, and the two abstract-representation constructors
  (`MPS._from_state_amplitudes`, `MPO._from_operator_repr`) before truncation.
-/
import EmuVerif.Proofs.Tensor

set_option linter.unusedSectionVars false
set_option linter.unusedVariables false
set_option linter.unusedSimpArgs false

namespace EmuVerif.Tensor
open Finset

variable {K : Type} [CommRing K]

/-! ### `add_factors`, top level and shape bookkeeping -/

theorem ampVecF_addFactors (L R S : List (Site K)) (h : addFactors L R = some S) (h2 : 2 ≤ L.length)
    (hok : chainOk L = true) (s : List Nat) (v : Nat → K) :
    ampVecF S s v = fun j => ampVecF L s v j + ampVecF R s v j := by
  unfold addFactors at h
  split at h
  · exact absurd h (by simp)
  · match L, R, h2, hok, h with
    | A :: A' :: L', B :: R', h2, hok, h =>
      simp only [addAux] at h
      split at h
      · rename_i c rest hc hrest
        simp only [Option.some.injEq] at h
        subst h
        simp only [addSite, if_true] at hc
        split at hc
        · rename_i hdl
          simp only [Option.some.injEq] at hc
          subst hc
          cases s with
          | nil => simp [ampVecF]
          | cons x s =>
            simp only [ampVecF]
            rw [rowStepF_catRight A B hdl.1]
            have hdr : A.dr = headDl (A' :: L') := ((chainOk_cons_cons A A' L').mp hok).1
            rw [hdr]
            exact ampVecF_addAux _ (A' :: L') R' rest 1 (by omega) (by simp; omega) (by simp)
              (chainOk_tail A _ hok) hrest s _ _
        · exact absurd hc (by simp)
      · exact absurd h (by simp)
    | A :: A' :: L', [], h2, hok, h => simp [addAux] at h

theorem chainOk_cons (A : Site K) (fs : List (Site K)) :
    chainOk (A :: fs) = true ↔ (fs ≠ [] → A.dr = headDl fs) ∧ chainOk fs = true := by
  cases fs with
  | nil => simp [chainOk]
  | cons B fs => rw [chainOk_cons_cons]; simp

theorem addAux_dims (n : Nat) (L R S : List (Site K)) (i : Nat) (hi : 0 < i) (hn : i + L.length = n)
    (hL : L ≠ []) (hokL : chainOk L = true) (hokR : chainOk R = true) (h : addAux n i L R = some S) :
    chainOk S = true ∧ headDl S = headDl L + headDl R ∧ S.length = L.length := by
  induction L generalizing R S i with
  | nil => exact absurd rfl hL
  | cons A L ih =>
    cases R with
    | nil => simp [addAux] at h
    | cons B R =>
      simp only [addAux] at h
      split at h
      · rename_i c rest hc hrest
        simp only [Option.some.injEq] at h
        subst h
        have hne : i ≠ 0 := by omega
        cases L with
        | nil =>
          cases R with
          | nil =>
            simp only [addAux, Option.some.injEq] at hrest
            subst hrest
            have hlast : i = n - 1 := by simp at hn; omega
            simp only [addSite, if_neg hne, if_pos hlast] at hc
            split at hc
            · simp only [Option.some.injEq] at hc
              subst hc
              simp [chainOk, catLeft]
            · exact absurd hc (by simp)
          | cons B' R' => simp [addAux] at hrest
        | cons A' L' =>
          cases R with
          | nil => simp [addAux] at hrest
          | cons B' R' =>
            have hnl : i ≠ n - 1 := by simp at hn; omega
            simp only [addSite, if_neg hne, if_neg hnl] at hc
            split at hc
            · simp only [Option.some.injEq] at hc
              subst hc
              obtain ⟨h1, h2, h3⟩ := ih (B' :: R') rest (i + 1) (by omega) (by simp at hn ⊢; omega) (by simp)
                (chainOk_tail A _ hokL) (chainOk_tail B _ hokR) hrest
              have hA := ((chainOk_cons_cons A A' L').mp hokL).1
              have hB := ((chainOk_cons_cons B B' R').mp hokR).1
              refine ⟨?_, by simp [blockDiag], by simp [h3]⟩
              rw [chainOk_cons]
              refine ⟨fun _ => ?_, h1⟩
              rw [h2]; simp [blockDiag, hA, hB]
            · exact absurd hc (by simp)
      · exact absurd h (by simp)

theorem addFactors_dims (L R S : List (Site K)) (h : addFactors L R = some S) (h2 : 2 ≤ L.length)
    (hokL : chainOk L = true) (hokR : chainOk R = true) :
    chainOk S = true ∧ S.length = L.length ∧ headDl S = headDl L := by
  unfold addFactors at h
  split at h
  · exact absurd h (by simp)
  · match L, R, h2, hokL, hokR, h with
    | A :: A' :: L', B :: B' :: R', h2, hokL, hokR, h =>
      simp only [addAux] at h
      split at h
      · rename_i c rest hc hrest
        simp only [Option.some.injEq] at h
        subst h
        simp only [addSite, if_true] at hc
        split at hc
        · simp only [Option.some.injEq] at hc
          subst hc
          obtain ⟨h1, h2', h3⟩ := addAux_dims _ (A' :: L') (B' :: R') rest 1 (by omega) (by simp; omega) (by simp)
            (chainOk_tail A _ hokL) (chainOk_tail B _ hokR) hrest
          have hA := ((chainOk_cons_cons A A' L').mp hokL).1
          have hB := ((chainOk_cons_cons B B' R').mp hokR).1
          refine ⟨?_, by simp [h3], by simp [catRight]⟩
          rw [chainOk_cons]
          refine ⟨fun _ => ?_, h1⟩
          rw [h2']; simp [catRight, hA, hB]
        · exact absurd hc (by simp)
      · exact absurd h (by simp)
    | A :: A' :: L', [B], h2, hokL, hokR, h =>
      simp only [addAux] at h
      split at h
      · rename_i c rest hc hrest
        simp [addAux] at hrest
      · exact absurd h (by simp)
    | A :: A' :: L', [], h2, hokL, hokR, h => simp [addAux] at h

/-! ### `scale_factors` -/

theorem rowStepF_scaleSite (c : K) (A : Site K) (v : Nat → K) (x : Nat) :
    rowStepF v (scaleSite c A) x = fun r => c * rowStepF v A x r := by
  funext r
  simp only [rowStepF, scaleSite, Site.make_t, Site.make_dl, Finset.mul_sum]
  exact Finset.sum_congr rfl (fun l _ => by ring)

theorem scaleAux_of_lt (c : K) (which i : Nat) (fs : List (Site K)) (h : which < i) :
    scaleAux c which i fs = fs := by
  induction fs generalizing i with
  | nil => rfl
  | cons A fs ih =>
    have : i ≠ which := by omega
    simp [scaleAux, this, ih (i + 1) (by omega)]

theorem ampVecF_scaleAux (c : K) (which i : Nat) (fs : List (Site K)) (h1 : i ≤ which)
    (h2 : which < i + fs.length) (s : List Nat) (v : Nat → K) :
    ampVecF (scaleAux c which i fs) s v = fun k => c * ampVecF fs s v k := by
  induction fs generalizing i s v with
  | nil => simp at h2; omega
  | cons A fs ih =>
    cases s with
    | nil => simp [scaleAux, ampVecF]
    | cons x s =>
      by_cases hi : i = which
      · simp only [scaleAux, hi, if_true, ampVecF]
        rw [scaleAux_of_lt c which (which + 1) fs (by omega), rowStepF_scaleSite]
        exact ampVecF_smul fs s c _
      · simp only [scaleAux, hi, if_false, ampVecF]
        exact ih (i + 1) (by omega) (by simp at h2; omega) s _

theorem scaleAux_dims (c : K) (which i : Nat) (fs : List (Site K)) :
    chainOk (scaleAux c which i fs) = chainOk fs ∧ (scaleAux c which i fs).length = fs.length
      ∧ headDl (scaleAux c which i fs) = headDl fs := by
  induction fs generalizing i with
  | nil => simp [scaleAux]
  | cons A fs ih =>
    obtain ⟨h1, h2, h3⟩ := ih (i + 1)
    refine ⟨?_, by simp [scaleAux, h2], by simp only [scaleAux]; split <;> simp [scaleSite]⟩
    simp only [scaleAux]
    cases hfs : fs with
    | nil => simp [scaleAux, chainOk]
    | cons B fs' =>
      have e : (if i = which then scaleSite c A else A).dr = A.dr := by split <;> simp [scaleSite]
      have h3' := h3; rw [hfs] at h3' h1
      cases hs : scaleAux c which (i + 1) (B :: fs') with
      | nil => simp [scaleAux] at hs
      | cons B2 fs2 =>
        rw [hs] at h1 h3'
        simp only [chainOk, e]
        simp only [headDl_cons] at h3'
        rw [h3']
        have : chainOk (B2 :: fs2) = chainOk (B :: fs') := h1
        rw [this]

theorem scaleAux_get (c : K) (which i : Nat) (fs : List (Site K)) (k : Nat) :
    (scaleAux c which i fs)[k]? = (fs[k]?).map (fun A => if i + k = which then scaleSite c A else A) := by
  induction fs generalizing i k with
  | nil => simp [scaleAux]
  | cons A fs ih =>
    cases k with
    | zero => simp [scaleAux]
    | succ k =>
      simp only [scaleAux, List.getElem?_cons_succ, ih (i + 1) k]
      congr 1; funext B
      have : i + 1 + k = i + (k + 1) := by omega
      rw [this]

/-! ### product (bond dimension 1) chains -/

theorem ampVecF_basis (dim : Nat) (lv s : List Nat) (v : Nat → K) :
    ampVecF (lv.map (basisSite dim)) s v 0 = if s = lv then v 0 else 0 := by
  induction lv generalizing s v with
  | nil => cases s <;> simp [ampVecF]
  | cons l lv ih =>
    cases s with
    | nil => simp [ampVecF]
    | cons x s =>
      simp only [List.map_cons, ampVecF, ih]
      by_cases hx : x = l
      · subst hx; simp [rowStepF, basisSite]
      · simp [rowStepF, basisSite, hx]

theorem chainOk_basis (dim : Nat) (lv : List Nat) :
    chainOk (lv.map (basisSite (α := K) dim)) = true := by
  induction lv with
  | nil => rfl
  | cons l lv ih =>
    cases lv with
    | nil => rfl
    | cons l' lv' => simp only [List.map_cons] at ih ⊢; rw [chainOk_cons_cons]; exact ⟨rfl, ih⟩

theorem ampVecF_zeroChain (dim n : Nat) (hn : 0 < n) (s : List Nat) (v : Nat → K) :
    ampVecF (List.replicate n (zeroSite dim)) s v = fun _ => 0 := by
  cases n with
  | zero => omega
  | succ n =>
    cases s with
    | nil => simp [List.replicate_succ, ampVecF]
    | cons x s =>
      simp only [List.replicate_succ, ampVecF]
      have : rowStepF v (zeroSite (α := K) dim) x = fun _ => 0 := by funext r; simp [rowStepF, zeroSite]
      rw [this, ampVecF_zero]

theorem chainOk_zeroChain (dim n : Nat) : chainOk (List.replicate n (zeroSite (α := K) dim)) = true := by
  induction n with
  | zero => rfl
  | succ n ih =>
    cases n with
    | zero => rfl
    | succ n => simp only [List.replicate_succ] at ih ⊢; rw [chainOk_cons_cons]; exact ⟨rfl, ih⟩

/-- the accumulation loop of `_from_state_amplitudes` adds `a·δ(s, levels)` per entry -/
theorem ampVecF_fromAmplitudesAux (dim : Nat) (entries : List (List Nat × K)) (acc fs : List (Site K))
    (h : fromAmplitudesAux dim entries acc = some fs) (h2 : 2 ≤ acc.length) (hok : chainOk acc = true)
    (hlen : ∀ e ∈ entries, e.1.length = acc.length) (s : List Nat) (v : Nat → K) :
    ampVecF fs s v 0 = ampVecF acc s v 0 + (entries.map (fun e => e.2 * if s = e.1 then v 0 else 0)).sum := by
  induction entries generalizing acc with
  | nil => simp [fromAmplitudesAux] at h; subst h; simp
  | cons e rest ih =>
    obtain ⟨lv, a⟩ := e
    simp only [fromAmplitudesAux] at h
    split at h
    · exact absurd h (by simp)
    · rename_i acc' hadd
      have hl : lv.length = acc.length := hlen (lv, a) (List.mem_cons_self ..)
      have hokR : chainOk (scaleFactors a 0 (lv.map (basisSite dim))) = true := by
        unfold scaleFactors; rw [(scaleAux_dims a 0 0 _).1]; exact chainOk_basis dim lv
      obtain ⟨d1, d2, _⟩ := addFactors_dims acc _ acc' hadd h2 hok hokR
      rw [ih acc' h (by omega) d1 (fun e he => by rw [d2]; exact hlen e (List.mem_cons_of_mem _ he))]
      rw [ampVecF_addFactors acc _ acc' hadd h2 hok]
      simp only [List.map_cons, List.sum_cons]
      unfold scaleFactors
      rw [ampVecF_scaleAux a 0 0 _ (le_refl _) (by simp; omega)]
      simp only [ampVecF_basis]
      ring

/-! ### product operators -/

/-- `Π_k f_k(o_k, i_k)` — the matrix element of `f₀ ⊗ f₁ ⊗ …` -/
def prodEntries : List (Nat → Nat → K) → List Nat → List Nat → K
  | [], [], [] => 1
  | f :: fs, o :: os, i :: is => f o i * prodEntries fs os is
  | _, _, _ => 0

theorem opLevel_div (d o i : Nat) (hi : i < d) : opLevel d o i / d = o := by
  unfold opLevel
  rw [Nat.add_comm, Nat.add_mul_div_right _ _ (by omega), Nat.div_eq_of_lt hi, Nat.zero_add]

theorem opLevel_mod (d o i : Nat) (hi : i < d) : opLevel d o i % d = i := by
  unfold opLevel
  rw [Nat.add_comm, Nat.add_mul_mod_self_right, Nat.mod_eq_of_lt hi]

theorem ampVecF_opSites (d : Nat) (fs : List (Nat → Nat → K)) (o i : List Nat) (hi : ∀ x ∈ i, x < d)
    (v : Nat → K) :
    ampVecF (fs.map (opSite d)) (opString d o i) v 0 =
      if o.length = i.length then v 0 * prodEntries fs o i else
        ampVecF (fs.map (opSite d)) (opString d o i) v 0 := by
  split
  · rename_i hlen
    induction fs generalizing o i v with
    | nil =>
      cases o <;> cases i <;> simp_all [ampVecF, opString, prodEntries]
    | cons f fs ih =>
      cases o with
      | nil => cases i <;> simp_all [ampVecF, opString, prodEntries]
      | cons o0 o =>
        cases i with
        | nil => simp at hlen
        | cons i0 i =>
          simp only [List.map_cons, opString, List.zipWith_cons_cons, ampVecF, prodEntries]
          have := ih o i (fun x hx => hi x (List.mem_cons_of_mem _ hx))
            (rowStepF v (opSite d f) (opLevel d o0 i0)) (by simpa using hlen)
          simp only [opString] at this
          rw [this]
          have hi0 : i0 < d := hi i0 (List.mem_cons_self ..)
          simp [rowStepF, opSite, opLevel_div d o0 i0 hi0, opLevel_mod d o0 i0 hi0]
          ring
  · rfl

theorem chainOk_opSites (d : Nat) (fs : List (Nat → Nat → K)) :
    chainOk (fs.map (opSite d)) = true := by
  induction fs with
  | nil => rfl
  | cons f fs ih =>
    cases fs with
    | nil => rfl
    | cons g fs => simp only [List.map_cons] at ih ⊢; rw [chainOk_cons_cons]; exact ⟨rfl, ih⟩

/-! ### "last assignment wins" -/

theorem assignTargets_get (f : Nat → Nat → K) (ts : List Nat) (fs fs' : List (Nat → Nat → K))
    (h : assignTargets f ts fs = some fs') :
    fs'.length = fs.length ∧ ∀ k, k < fs.length → fs'[k]? = if k ∈ ts then some f else fs[k]? := by
  induction ts generalizing fs with
  | nil => simp [assignTargets] at h; subst h; simp
  | cons t ts ih =>
    simp only [assignTargets] at h
    split at h
    · rename_i ht
      obtain ⟨h1, h2⟩ := ih _ h
      refine ⟨by simpa using h1, fun k hk => ?_⟩
      rw [h2 k (by simpa using hk)]
      by_cases hkt : k ∈ ts
      · simp [hkt]
      · by_cases hk' : k = t
        · subst hk'; simp [hkt, hk]
        · simp [hkt, hk', List.getElem?_set_ne (Ne.symm hk')]
    · exact absurd h (by simp)

theorem termFactors_append (ops : List ((Nat → Nat → K) × List Nat)) (f : Nat → Nat → K) (ts : List Nat)
    (fs : List (Nat → Nat → K)) :
    termFactors (ops ++ [(f, ts)]) fs = (termFactors ops fs).bind (assignTargets f ts) := by
  induction ops generalizing fs with
  | nil =>
    simp only [List.nil_append, termFactors]
    cases h : assignTargets f ts fs <;> simp [termFactors, h]
  | cons op ops ih =>
    obtain ⟨g, us⟩ := op
    simp only [List.cons_append, termFactors]
    cases assignTargets g us fs with
    | none => simp
    | some fs1 => simp [ih]

theorem termFactors_length (ops : List ((Nat → Nat → K) × List Nat)) (fs fs' : List (Nat → Nat → K))
    (h : termFactors ops fs = some fs') : fs'.length = fs.length := by
  induction ops generalizing fs with
  | nil => simp [termFactors] at h; subst h; rfl
  | cons op ops ih =>
    obtain ⟨g, us⟩ := op
    simp only [termFactors] at h
    split at h
    · exact absurd h (by simp)
    · rename_i fs1 h1
      rw [ih _ h, (assignTargets_get g us fs fs1 h1).1]

/-! ### `sum(mpos[1:], start=mpos[0])` and the terms of `_from_operator_repr` -/

theorem foldl_add_none (ms : List (List (Site K))) :
    ms.foldl (fun acc x => acc.bind (fun a => addFactors a x)) (none : Option (List (Site K))) = none := by
  induction ms with
  | nil => rfl
  | cons m ms ih => simpa using ih

theorem ampVecF_foldl_add (a0 : List (Site K)) (ms : List (List (Site K))) (W : List (Site K))
    (h : ms.foldl (fun acc x => acc.bind (fun a => addFactors a x)) (some a0) = some W)
    (h2 : 2 ≤ a0.length) (hok0 : chainOk a0 = true) (hok : ∀ x ∈ ms, chainOk x = true)
    (s : List Nat) (v : Nat → K) :
    ampVecF W s v 0 = ampVecF a0 s v 0 + (ms.map (fun x => ampVecF x s v 0)).sum := by
  induction ms generalizing a0 with
  | nil => simp at h; subst h; simp
  | cons m ms ih =>
    simp only [List.foldl_cons, Option.bind_some] at h
    cases hadd : addFactors a0 m with
    | none => rw [hadd, foldl_add_none] at h; exact absurd h (by simp)
    | some a1 =>
      rw [hadd] at h
      obtain ⟨d1, d2, _⟩ := addFactors_dims a0 m a1 hadd h2 hok0 (hok m (List.mem_cons_self ..))
      rw [ih a1 h (by omega) d1 (fun x hx => hok x (List.mem_cons_of_mem _ hx))]
      rw [ampVecF_addFactors a0 m a1 hadd h2 hok0]
      simp only [List.map_cons, List.sum_cons]
      ring

/-- value of one term of the operator representation: `coeff · Π_k f_k(o_k, i_k)` with the factors
left by the assignments (`0` if the Python raised) -/
def termValue (n : Nat) (t : K × List ((Nat → Nat → K) × List Nat)) (o i : List Nat) : K :=
  match termFactors t.2 (List.replicate n identOp) with
  | some fs => t.1 * prodEntries fs o i
  | none => 0

theorem termMpo_amp (d n : Nat) (hn : 0 < n) (c : K) (ops : List ((Nat → Nat → K) × List Nat))
    (m : List (Site K)) (h : termMpo d n c ops = some m) (o i : List Nat) (hlen : o.length = i.length)
    (hi : ∀ x ∈ i, x < d) (v : Nat → K) :
    ampVecF m (opString d o i) v 0 = v 0 * termValue n (c, ops) o i ∧ chainOk m = true ∧ m.length = n := by
  unfold termMpo at h
  unfold termValue
  split at h
  · exact absurd h (by simp)
  · rename_i fs hfs
    simp only [Option.some.injEq] at h
    subst h
    have hl : fs.length = n := by rw [termFactors_length _ _ _ hfs]; simp
    simp only [hfs]
    unfold scaleFactors
    refine ⟨?_, ?_, ?_⟩
    · rw [ampVecF_scaleAux c 0 0 _ (le_refl _) (by simp; omega)]
      have := ampVecF_opSites d fs o i hi v
      rw [if_pos hlen] at this
      show c * ampVecF (List.map (opSite d) fs) (opString d o i) v 0 = _
      rw [this]; ring
    · rw [(scaleAux_dims c 0 0 _).1]; exact chainOk_opSites d fs
    · rw [(scaleAux_dims c 0 0 _).2.1]; simpa using hl

theorem termMpos_amp (d n : Nat) (hn : 0 < n) (terms : List (K × List ((Nat → Nat → K) × List Nat)))
    (mpos : List (List (Site K))) (h : termMpos d n terms = some mpos) (o i : List Nat)
    (hlen : o.length = i.length) (hi : ∀ x ∈ i, x < d) (v : Nat → K) :
    (mpos.map (fun x => ampVecF x (opString d o i) v 0)).sum = (terms.map (fun t => v 0 * termValue n t o i)).sum
      ∧ (∀ x ∈ mpos, chainOk x = true ∧ x.length = n) ∧ mpos.length = terms.length := by
  induction terms generalizing mpos with
  | nil => simp [termMpos] at h; subst h; simp
  | cons t ts ih =>
    simp only [termMpos] at h
    split at h
    · rename_i m ms hm hms
      simp only [Option.some.injEq] at h
      subst h
      obtain ⟨i1, i2, i3⟩ := ih ms hms
      obtain ⟨t1, t2, t3⟩ := termMpo_amp d n hn t.1 t.2 m hm o i hlen hi v
      refine ⟨by simp only [List.map_cons, List.sum_cons, i1, t1], ?_, by simp [i3]⟩
      intro x hx
      rcases List.mem_cons.mp hx with rfl | hx
      · exact ⟨t2, t3⟩
      · exact i2 x hx
    · exact absurd h (by simp)

end EmuVerif.Tensor
