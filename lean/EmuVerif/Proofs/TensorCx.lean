/-
  `Cx β` (the pairs the driver computes with) is a commutative star ring whenever `β` is a commutative
  ring, with exactly the operations of `Model/Tensor.lean`.  Hence every theorem of `Props/C11.lean`,
  `Props/C15.lean` stated over `[CommRing K] [StarRing K]` applies literally to the scalar type of the
  exact correspondence runs (`Cx ℤ`).
-/
import EmuVerif.Model.Tensor
import Mathlib.Algebra.Star.Basic
import Mathlib.Tactic.Ring

namespace EmuVerif.Tensor
variable {β : Type} [CommRing β]

@[ext] theorem Cx.ext' {a b : Cx β} (h1 : a.re = b.re) (h2 : a.im = b.im) : a = b := by
  cases a; cases b; simp_all

@[simp] theorem Cx.add_re (a b : Cx β) : (a + b).re = a.re + b.re := rfl
@[simp] theorem Cx.add_im (a b : Cx β) : (a + b).im = a.im + b.im := rfl
@[simp] theorem Cx.mul_re (a b : Cx β) : (a * b).re = a.re * b.re - a.im * b.im := rfl
@[simp] theorem Cx.mul_im (a b : Cx β) : (a * b).im = a.re * b.im + a.im * b.re := rfl
@[simp] theorem Cx.zero_re : (0 : Cx β).re = 0 := rfl
@[simp] theorem Cx.zero_im : (0 : Cx β).im = 0 := rfl
@[simp] theorem Cx.one_re : (1 : Cx β).re = 1 := rfl
@[simp] theorem Cx.one_im : (1 : Cx β).im = 0 := rfl
@[simp] theorem Cx.conj_re (a : Cx β) : (conj a).re = a.re := rfl
@[simp] theorem Cx.conj_im (a : Cx β) : (conj a).im = -a.im := rfl

instance : Neg (Cx β) := ⟨fun a => ⟨-a.re, -a.im⟩⟩
@[simp] theorem Cx.neg_re (a : Cx β) : (-a).re = -a.re := rfl
@[simp] theorem Cx.neg_im (a : Cx β) : (-a).im = -a.im := rfl

instance : CommRing (Cx β) where
  add := (· + ·)
  zero := 0
  neg := Neg.neg
  mul := (· * ·)
  one := 1
  nsmul := nsmulRec
  zsmul := zsmulRec
  add_assoc a b c := by ext <;> simp [add_assoc]
  zero_add a := by ext <;> simp
  add_zero a := by ext <;> simp
  add_comm a b := by ext <;> simp [add_comm]
  neg_add_cancel a := by ext <;> simp
  mul_assoc a b c := by ext <;> simp <;> ring
  one_mul a := by ext <;> simp
  mul_one a := by ext <;> simp
  left_distrib a b c := by ext <;> simp <;> ring
  right_distrib a b c := by ext <;> simp <;> ring
  mul_comm a b := by ext <;> simp <;> ring
  zero_mul a := by ext <;> simp
  mul_zero a := by ext <;> simp

instance : StarRing (Cx β) where
  star := conj
  star_involutive a := by ext <;> simp [Function.Involutive]
  star_mul a b := by ext <;> simp <;> ring
  star_add a b := by ext <;> simp [add_comm]

/-- the model's conjugation on pairs is the `star` of this star ring -/
theorem Cx.conj_eq_star (a : Cx β) : conj a = star a := rfl

end EmuVerif.Tensor
