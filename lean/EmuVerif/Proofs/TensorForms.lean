/-
  `MPS.inner` and `MPO.expect` (through `new_left_bath`) equal the dense sesquilinear forms.
  Technique for the index shuffles: expand to one sum over a product `Finset` and give the
  permutation of the index tuple explicitly (`Finset.sum_nbij'`).
-/
import EmuVerif.Proofs.Tensor

set_option linter.unusedSectionVars false
set_option linter.unusedVariables false

namespace EmuVerif.Tensor
open Finset

/-- close the five goals of `Finset.sum_nbij'` for a permutation of an index tuple -/
macro "reorder_finish" : tactic => `(tactic|
  (first
    | (intro z hz; simp only [Finset.mem_product, Finset.mem_range] at hz ⊢; tauto)
    | (intro z _; rfl)
    | (intro z _; ring)))

variable {K : Type} [CommRing K] [StarRing K]

theorem conj_eq_star (x : K) : conj x = star x := rfl

/-! ### inner product -/

def innerStepF (acc : Nat → Nat → K) (A B : Site K) : Nat → Nat → K :=
  fun r r' => ∑ a ∈ range A.dl, ∑ x ∈ range A.d, star (A.t x a r) * ∑ b ∈ range B.dl, acc a b * B.t x b r'

def innerAccF : List (Site K) → List (Site K) → (Nat → Nat → K) → (Nat → Nat → K)
  | A :: As, B :: Bs, acc => innerAccF As Bs (innerStepF acc A B)
  | _, _, acc => acc

theorem innerStep_get2 (acc : Arr (Arr K)) (A B : Site K) :
    get2 (innerStep acc A B) = innerStepF (get2 acc) A B := by
  funext r r'
  simp [innerStep, innerStepF, sumTo_eq, conj_eq_star]

theorem innerAcc_get2 (As Bs : List (Site K)) (acc : Arr (Arr K)) :
    get2 (innerAcc As Bs acc) = innerAccF As Bs (get2 acc) := by
  induction As generalizing Bs acc with
  | nil => simp [innerAcc, innerAccF]
  | cons A As ih =>
    cases Bs with
    | nil => simp [innerAcc, innerAccF]
    | cons B Bs => simp only [innerAcc, innerAccF, ih, innerStep_get2]

theorem inner_step_identity (n m p q d : Nat) (acc : Nat → Nat → K) (L R : Nat → Nat → Nat → K) (P Q : Nat → K) :
    ∑ r ∈ range p, ∑ r' ∈ range q,
      (∑ a ∈ range n, ∑ x ∈ range d, L x a r * ∑ b ∈ range m, acc a b * R x b r') * P r * Q r'
    = ∑ x ∈ range d, ∑ a ∈ range n, ∑ b ∈ range m,
        acc a b * (∑ r ∈ range p, L x a r * P r) * (∑ r' ∈ range q, R x b r' * Q r') := by
  simp only [Finset.sum_mul, Finset.mul_sum]
  simp only [← Finset.sum_product']
  refine Finset.sum_nbij' (fun z => (z.2.2.2.1, z.2.2.1, z.2.2.2.2, z.2.1, z.1))
    (fun z => (z.2.2.2.2, z.2.2.2.1, z.2.1, z.1, z.2.2.1)) ?_ ?_ ?_ ?_ ?_ <;> reorder_finish

/-- the loop of `MPS.inner`, started from any `acc`, is the bilinear form of `acc` in the two tails -/
theorem innerAccF_eq (d : Nat) (As Bs : List (Site K)) (hlen : As.length = Bs.length)
    (hA : Wf As) (hB : Wf Bs) (hd : ∀ A ∈ As, A.d = d) (acc : Nat → Nat → K) :
    innerAccF As Bs acc 0 0 = sumStrings d As.length (fun s =>
      ∑ a ∈ range (headDl As), ∑ b ∈ range (headDl Bs), acc a b * star (colAmp As s a) * colAmp Bs s b) := by
  induction As generalizing Bs acc with
  | nil =>
    cases Bs with
    | nil => simp [innerAccF, sumStrings, headDl, colAmp]
    | cons B Bs => simp at hlen
  | cons A As ih =>
    cases Bs with
    | nil => simp at hlen
    | cons B Bs =>
      simp only [innerAccF, List.length_cons, sumStrings, sumTo_eq]
      rw [ih Bs (by simpa using hlen) hA.2 hB.2 (fun A' h' => hd A' (List.mem_cons_of_mem _ h'))]
      rw [← sumStrings_sum]
      refine sumStrings_congr _ _ _ _ (fun s _ => ?_)
      have hdA : A.d = d := hd A (List.mem_cons_self ..)
      have e1 : headDl As = A.dr := hA.1.symm
      have e2 : headDl Bs = B.dr := hB.1.symm
      simp only [colAmp, headDl_cons, innerStepF, star_sum, star_mul', e1, e2, hdA]
      exact inner_step_identity A.dl B.dl A.dr B.dr d acc (fun x a r => star (A.t x a r)) B.t _ _

/-! ### expectation value -/

def bathStepF (bath : Nat → Nat → Nat → K) (A W : Site K) : Nat → Nat → Nat → K :=
  fun r br r' => ∑ c ∈ range A.dl, ∑ y ∈ range A.d,
    (∑ b ∈ range W.dl, ∑ x ∈ range A.d,
      (∑ a ∈ range A.dl, bath a b c * star (A.t x a r)) * W.t (opLevel A.d x y) b br) * A.t y c r'

def expectAccF : List (Site K) → List (Site K) → (Nat → Nat → Nat → K) → (Nat → Nat → Nat → K)
  | A :: As, W :: Ws, acc => expectAccF As Ws (bathStepF acc A W)
  | _, _, acc => acc

theorem bathStep_get3 (bath : Arr (Arr (Arr K))) (A W : Site K) :
    get3 (bathStep bath A W) = bathStepF (get3 bath) A W := by
  funext r br r'
  simp [bathStep, bathStepF, sumTo_eq, conj_eq_star]

theorem expectAcc_get3 (As Ws : List (Site K)) (acc : Arr (Arr (Arr K))) :
    get3 (expectAcc As Ws acc) = expectAccF As Ws (get3 acc) := by
  induction As generalizing Ws acc with
  | nil => simp [expectAcc, expectAccF]
  | cons A As ih =>
    cases Ws with
    | nil => simp [expectAcc, expectAccF]
    | cons W Ws => simp only [expectAcc, expectAccF, ih, bathStep_get3]

theorem bath_step_identity (n nb p pb d : Nat) (acc : Nat → Nat → Nat → K) (L R : Nat → Nat → Nat → K)
    (W : Nat → Nat → Nat → Nat → K) (P V Q : Nat → K) :
    ∑ r ∈ range p, ∑ br ∈ range pb, ∑ r' ∈ range p,
      (∑ c ∈ range n, ∑ y ∈ range d, (∑ b ∈ range nb, ∑ x ∈ range d,
        (∑ a ∈ range n, acc a b c * L x a r) * W x y b br) * R y c r') * P r * V br * Q r'
    = ∑ x ∈ range d, ∑ y ∈ range d, ∑ a ∈ range n, ∑ b ∈ range nb, ∑ c ∈ range n,
        acc a b c * (∑ r ∈ range p, L x a r * P r) * (∑ br ∈ range pb, W x y b br * V br)
          * (∑ r' ∈ range p, R y c r' * Q r') := by
  simp only [Finset.sum_mul, Finset.mul_sum]
  simp only [← Finset.sum_product']
  refine Finset.sum_nbij'
    (fun z => (z.2.2.2.2.2.2.1, z.2.2.2.2.1, z.2.2.2.2.2.2.2, z.2.2.2.2.2.1, z.2.2.2.1, z.2.2.1, z.2.1, z.1))
    (fun w => (w.2.2.2.2.2.2.2, w.2.2.2.2.2.2.1, w.2.2.2.2.2.1, w.2.2.2.2.1, w.2.1, w.2.2.2.1, w.1, w.2.2.1))
    ?_ ?_ ?_ ?_ ?_ <;> reorder_finish

/-- the loop of `MPO.expect`, started from any bath, is the trilinear form of the bath in the three tails -/
theorem expectAccF_eq (d : Nat) (As Ws : List (Site K)) (hlen : As.length = Ws.length)
    (hA : Wf As) (hW : Wf Ws) (hd : ∀ A ∈ As, A.d = d) (acc : Nat → Nat → Nat → K) :
    expectAccF As Ws acc 0 0 0 = sumStrings d As.length (fun s => sumStrings d As.length (fun t =>
      ∑ a ∈ range (headDl As), ∑ b ∈ range (headDl Ws), ∑ c ∈ range (headDl As),
        acc a b c * star (colAmp As s a) * colAmp Ws (opString d s t) b * colAmp As t c)) := by
  induction As generalizing Ws acc with
  | nil =>
    cases Ws with
    | nil => simp [expectAccF, sumStrings, colAmp, opString]
    | cons W Ws => simp at hlen
  | cons A As ih =>
    cases Ws with
    | nil => simp at hlen
    | cons W Ws =>
      simp only [expectAccF, List.length_cons, sumStrings, sumTo_eq]
      rw [ih Ws (by simpa using hlen) hA.2 hW.2 (fun A' h' => hd A' (List.mem_cons_of_mem _ h'))]
      simp only [← sumStrings_sum]
      refine sumStrings_congr _ _ _ _ (fun s _ => sumStrings_congr _ _ _ _ (fun t _ => ?_))
      have hdA : A.d = d := hd A (List.mem_cons_self ..)
      have e1 : headDl As = A.dr := hA.1.symm
      have e2 : headDl Ws = W.dr := hW.1.symm
      simp only [colAmp, opString, List.zipWith_cons_cons, headDl_cons, bathStepF, star_sum, star_mul', e1, e2, hdA]
      exact bath_step_identity A.dl W.dl A.dr W.dr d acc (fun x a r => star (A.t x a r)) A.t
        (fun x y b br => W.t (opLevel d x y) b br) _ _ _

end EmuVerif.Tensor
