/- What the `MPS` / `MPO` constructor assertions (`validChain`) give the proofs. -/
import EmuVerif.Proofs.TensorZip
import EmuVerif.Proofs.TensorCtor

set_option linter.unusedSectionVars false
set_option linter.unusedVariables false

namespace EmuVerif.Tensor
variable {K : Type} [CommRing K]

theorem validChain_spec (d : Nat) (fs : List (Site K)) (h : validChain d fs = true) :
    2 ≤ fs.length ∧ chainOk fs = true ∧ Wf fs ∧ headDl fs = 1 ∧ ∀ A ∈ fs, A.d = d := by
  unfold validChain at h
  simp only [Bool.and_eq_true, decide_eq_true_eq, beq_iff_eq, List.all_eq_true] at h
  obtain ⟨⟨⟨⟨h1, h2⟩, h3⟩, h4⟩, h5⟩ := h
  refine ⟨h1, h2, wf_of_chainOk fs h2 h4, ?_, h5⟩
  cases fs with
  | nil => simp at h1
  | cons A fs => simpa using h3

/-- amplitudes of a valid chain in column form -/
theorem amp_eq_col (fs : List (Site K)) (hw : Wf fs) (h1 : headDl fs = 1) (s : List Nat) :
    amp fs s = colAmp fs s 0 := by
  rw [amp_eq, ampVecF_eq_col fs hw, h1]
  simp

end EmuVerif.Tensor
