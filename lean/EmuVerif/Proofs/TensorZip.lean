/-
  `zip_right` before truncation = operator application (given `q·r = m` for every recorded `qr`),
  and gauge freedom: replacing two neighbouring factors by a pair with the same products
  (a `qr` step of `orthogonalize`, or an inserted `X·X⁻¹`) leaves every amplitude unchanged.
-/
import EmuVerif.Proofs.TensorForms

set_option linter.unusedSectionVars false
set_option linter.unusedVariables false

namespace EmuVerif.Tensor
open Finset

variable {K : Type} [CommRing K]

/-! ### gauge freedom -/

/-- `(A', B')` has the same two-site products as `(A, B)` -/
def PairEq (A B A' B' : Site K) : Prop :=
  A'.dl = A.dl ∧ ∀ x y, ∀ l < A.dl, ∀ r,
    ∑ m ∈ range B'.dl, A'.t x l m * B'.t y m r = ∑ m ∈ range B.dl, A.t x l m * B.t y m r

theorem rowStepF_pair (A B A' B' : Site K) (h : PairEq A B A' B') (v : Nat → K) (x y : Nat) :
    rowStepF (rowStepF v A' x) B' y = rowStepF (rowStepF v A x) B y := by
  funext r
  simp only [rowStepF, h.1, Finset.sum_mul]
  rw [Finset.sum_comm]
  conv_rhs => rw [Finset.sum_comm]
  refine Finset.sum_congr rfl (fun l hl => ?_)
  have := h.2 x y l (Finset.mem_range.mp hl) r
  simp only [mul_assoc, ← Finset.mul_sum, this]

theorem ampVecF_setPair (fs : List (Site K)) (i : Nat) (A B A' B' : Site K)
    (hA : fs[i]? = some A) (hB : fs[i + 1]? = some B) (h : PairEq A B A' B') (s : List Nat) (v : Nat → K) :
    ampVecF (setPair fs i (A', B')) s v = ampVecF fs s v := by
  induction i generalizing fs s v with
  | zero =>
    match fs, hA, hB with
    | C :: D :: rest, hA, hB =>
      simp at hA hB
      subst hA; subst hB
      simp only [setPair, List.set_cons_zero, List.set_cons_succ]
      match s with
      | [] => simp [ampVecF]
      | [x] => simp [ampVecF]
      | x :: y :: s => simp only [ampVecF, rowStepF_pair _ _ _ _ h]
  | succ i ih =>
    match fs, hA, hB with
    | C :: rest, hA, hB =>
      simp at hA hB
      have : setPair (C :: rest) (i + 1) (A', B') = C :: setPair rest i (A', B') := by
        simp [setPair, List.set_cons_succ]
      rw [this]
      match s with
      | [] => simp [ampVecF]
      | x :: s => simp only [ampVecF]; exact ih rest hA hB s _

/-- contract of a recorded `qr` in the left-to-right sweep: `q·r = A` (as a `(dl·d) × dr` matrix) -/
def LrOk (f : QRl K) (A B : Site K) : Prop :=
  A.dr = B.dl ∧ ∀ x, ∀ l < A.dl, ∀ j < A.dr, ∑ k ∈ range f.k, f.q x l k * f.r k j = A.t x l j

theorem pairEq_lrStep (f : QRl K) (A B : Site K) (h : LrOk f A B) :
    PairEq A B (lrStep f A B).1 (lrStep f A B).2 := by
  refine ⟨rfl, fun x y l hl r => ?_⟩
  simp only [lrStep, Site.make_t, Site.make_dl, sumTo_eq, Finset.mul_sum]
  rw [Finset.sum_comm]
  refine Finset.sum_congr rfl (fun j hj => ?_)
  rw [← h.2 x l hl j (by rw [h.1]; exact Finset.mem_range.mp hj), Finset.sum_mul]
  exact Finset.sum_congr rfl (fun k _ => by ring)

/-- contract of a recorded `qr` in the right-to-left sweep: `rᵀ·qᵀ = B` (as a `dl × (d·dr)` matrix) -/
def RlOk (f : QRr K) (A B : Site K) : Prop :=
  A.dr = B.dl ∧ ∀ y, ∀ j < B.dl, ∀ r, ∑ k ∈ range f.k, f.r k j * f.q y k r = B.t y j r

theorem pairEq_rlStep (f : QRr K) (A B : Site K) (h : RlOk f A B) :
    PairEq A B (rlStep f A B).1 (rlStep f A B).2 := by
  refine ⟨rfl, fun x y l hl r => ?_⟩
  simp only [rlStep, Site.make_t, Site.make_dl, sumTo_eq, Finset.sum_mul]
  rw [Finset.sum_comm, ← h.1]
  refine Finset.sum_congr rfl (fun j hj => ?_)
  rw [← h.2 y j (by rw [← h.1]; exact Finset.mem_range.mp hj) r, Finset.mul_sum]
  exact Finset.sum_congr rfl (fun k _ => by ring)

/-- every step of the left-to-right sweep meets its contract -/
def LrSweepOk : Nat → Nat → List (Site K) → List (QRl K) → Prop
  | 0, _, _, _ => True
  | cnt + 1, i, fs, f :: tape =>
    ∀ A B, fs[i]? = some A → fs[i + 1]? = some B →
      LrOk f A B ∧ LrSweepOk cnt (i + 1) (setPair fs i (lrStep f A B)) tape
  | _ + 1, _, _, [] => True

def RlSweepOk : Nat → Nat → List (Site K) → List (QRr K) → Prop
  | 0, _, _, _ => True
  | cnt + 1, i, fs, f :: tape =>
    match i with
    | 0 => True
    | i' + 1 => ∀ A B, fs[i']? = some A → fs[i' + 1]? = some B →
        RlOk f A B ∧ RlSweepOk cnt i' (setPair fs i' (rlStep f A B)) tape
  | _ + 1, _, _, [] => True

theorem ampVecF_lrSweep (cnt i : Nat) (fs fs' : List (Site K)) (tape : List (QRl K))
    (h : lrSweep cnt i fs tape = some fs') (hok : LrSweepOk cnt i fs tape) (s : List Nat) (v : Nat → K) :
    ampVecF fs' s v = ampVecF fs s v := by
  induction cnt generalizing i fs tape with
  | zero => simp [lrSweep] at h; subst h; rfl
  | succ cnt ih =>
    cases tape with
    | nil => simp [lrSweep] at h
    | cons f tape =>
      simp only [lrSweep] at h
      split at h
      · rename_i A B hA hB
        obtain ⟨hok1, hok2⟩ := hok A B hA hB
        rw [ih _ _ _ h hok2]
        exact ampVecF_setPair fs i A B _ _ hA hB (pairEq_lrStep f A B hok1) s v
      · exact absurd h (by simp)

theorem ampVecF_rlSweep (cnt i : Nat) (fs fs' : List (Site K)) (tape : List (QRr K))
    (h : rlSweep cnt i fs tape = some fs') (hok : RlSweepOk cnt i fs tape) (s : List Nat) (v : Nat → K) :
    ampVecF fs' s v = ampVecF fs s v := by
  induction cnt generalizing i fs tape with
  | zero => simp [rlSweep] at h; subst h; rfl
  | succ cnt ih =>
    cases tape with
    | nil => simp [rlSweep] at h
    | cons f tape =>
      cases i with
      | zero => simp [rlSweep] at h
      | succ i' =>
        simp only [rlSweep] at h
        split at h
        · rename_i A B hA hB
          obtain ⟨hok1, hok2⟩ := hok A B hA hB
          rw [ih _ _ _ h hok2]
          exact ampVecF_setPair fs i' A B _ _ hA hB (pairEq_rlStep f A B hok1) s v
        · exact absurd h (by simp)

/-- `A·X` and `Y·B` for an inserted pair of matrices (specification-level, not Python code) -/
def mulRight (A : Site K) (k : Nat) (X : Nat → Nat → K) : Site K :=
  { dl := A.dl, d := A.d, dr := k, t := fun x l m => ∑ j ∈ range A.dr, A.t x l j * X j m }
def mulLeft (Y : Nat → Nat → K) (k : Nat) (B : Site K) : Site K :=
  { dl := k, d := B.d, dr := B.dr, t := fun y m r => ∑ j ∈ range B.dl, Y m j * B.t y j r }

theorem pairEq_insert (A B : Site K) (k : Nat) (X Y : Nat → Nat → K) (hch : A.dr = B.dl)
    (hXY : ∀ j < A.dr, ∀ j' < A.dr, ∑ m ∈ range k, X j m * Y m j' = if j = j' then 1 else 0) :
    PairEq A B (mulRight A k X) (mulLeft Y k B) := by
  refine ⟨rfl, fun x y l hl r => ?_⟩
  simp only [mulRight, mulLeft]
  have : ∑ m ∈ range k, (∑ j ∈ range A.dr, A.t x l j * X j m) * ∑ j' ∈ range B.dl, Y m j' * B.t y j' r
      = ∑ j ∈ range A.dr, ∑ j' ∈ range B.dl, A.t x l j * (∑ m ∈ range k, X j m * Y m j') * B.t y j' r := by
    simp only [Finset.sum_mul, Finset.mul_sum]
    simp only [← Finset.sum_product']
    refine Finset.sum_nbij' (fun z => (z.2.2, z.2.1, z.1)) (fun z => (z.2.2, z.2.1, z.1)) ?_ ?_ ?_ ?_ ?_
      <;> reorder_finish
  rw [this, ← hch]
  refine Finset.sum_congr rfl (fun j hj => ?_)
  rw [Finset.sum_congr rfl (fun j' hj' => by
    rw [hXY j (Finset.mem_range.mp hj) j' (Finset.mem_range.mp hj')])]
  simp [Finset.mem_range.mp hj]

/-! ### zip-up -/

/-- every recorded `qr` of the zip loop satisfies `q·r = merged matrix` -/
def ZipOk (d m : Nat) : List (Site K) → List (Site K) → List (QR3 K) → Slider K → Prop
  | top :: tops, bot :: bots, f :: tape, S =>
    (∀ a < S.sa, ∀ o < d, ∀ j < m, ∀ bt < top.dr, ∀ rb < bot.dr,
        ∑ k ∈ range f.k, f.q (opLevel m o j) a k * f.r k bt rb = zipMerged d m S.s top bot a o j bt rb)
      ∧ ZipOk d m tops bots tape { sa := f.k, sb := top.dr, sc := bot.dr, s := f.r }
  | _, _, _, _ => True

theorem zip_step_identity (na nb nc d p q : Nat) (v : Nat → K) (S T Bo : Nat → Nat → Nat → K) (P Q : Nat → K) :
    ∑ bt ∈ range p, ∑ rb ∈ range q,
      (∑ a ∈ range na, v a * ∑ b ∈ range nb, ∑ i ∈ range d, ∑ c ∈ range nc, S a b c * T i b bt * Bo i c rb)
        * P bt * Q rb
    = ∑ i ∈ range d, ∑ b ∈ range nb, ∑ c ∈ range nc,
        (∑ a ∈ range na, v a * S a b c) * (∑ bt ∈ range p, T i b bt * P bt) * (∑ rb ∈ range q, Bo i c rb * Q rb) := by
  simp only [Finset.sum_mul, Finset.mul_sum]
  simp only [← Finset.sum_product']
  refine Finset.sum_nbij'
    (fun z => (z.2.2.2.2.1, z.2.2.2.1, z.2.2.2.2.2, z.2.1, z.1, z.2.2.1))
    (fun w => (w.2.2.2.2.1, w.2.2.2.1, w.2.2.2.2.2, w.2.1, w.1, w.2.2.1)) ?_ ?_ ?_ ?_ ?_ <;> reorder_finish

/-- Invariant of the zip loop, for any start vector `v` and slider `S`: contracting the new factors
with the final slider gives the operator chain applied to the bottom chain, seeded with `v·S`. -/
theorem zipLoop_amp (d m : Nat) (tops bots : List (Site K)) (tape : List (QR3 K)) (S Sf : Slider K)
    (fs : List (Site K)) (h : zipLoop d m tops bots tape S = some (fs, Sf))
    (hok : ZipOk d m tops bots tape S) (hT : Wf tops) (hB : Wf bots)
    (o j : List Nat) (ho : o.length = tops.length) (hj : j.length = tops.length)
    (hod : ∀ x ∈ o, x < d) (hjm : ∀ x ∈ j, x < m) (v : Nat → K) :
    ∑ k ∈ range Sf.sa, ampVecF fs (opString m o j) v k * Sf.s k 0 0
      = sumStrings d tops.length (fun i => ∑ b ∈ range (headDl tops), ∑ c ∈ range (headDl bots),
          (∑ a ∈ range S.sa, v a * S.s a b c) * colAmp tops (opString d o i) b * colAmp bots (opString m i j) c) := by
  induction tops generalizing bots tape S fs o j v with
  | nil =>
    cases bots with
    | nil =>
      simp only [zipLoop, Option.some.injEq, Prod.mk.injEq] at h
      obtain ⟨rfl, rfl⟩ := h
      cases o with
      | nil =>
        cases j with
        | nil => simp [ampVecF, opString, sumStrings, colAmp]
        | cons _ _ => simp at hj
      | cons _ _ => simp at ho
    | cons _ _ => simp [zipLoop] at h
  | cons top tops ih =>
    cases bots with
    | nil => simp [zipLoop] at h
    | cons bot bots =>
      cases tape with
      | nil => simp [zipLoop] at h
      | cons f tape =>
        by_cases hc : S.sb ≠ top.dl ∨ S.sc ≠ bot.dl
        · simp [zipLoop, zipStep, hc] at h
        · simp only [zipLoop, zipStep, hc, if_false] at h
          cases hrec : zipLoop d m tops bots tape { sa := f.k, sb := top.dr, sc := bot.dr, s := f.r } with
          | none => simp [hrec] at h
          | some p =>
            obtain ⟨rest, Sf'⟩ := p
            simp only [hrec, Option.some.injEq, Prod.mk.injEq] at h
            obtain ⟨rfl, rfl⟩ := h
            cases o with
            | nil => simp at ho
            | cons o0 o' =>
              cases j with
              | nil => simp at hj
              | cons j0 j' =>
                have ho0 : o0 < d := hod o0 (List.mem_cons_self ..)
                have hj0 : j0 < m := hjm j0 (List.mem_cons_self ..)
                simp only [opString, List.zipWith_cons_cons, ampVecF, List.length_cons, sumStrings, sumTo_eq]
                have := ih bots tape _ rest hrec hok.2 hT.2 hB.2 o' j' (by simpa using ho) (by simpa using hj)
                  (fun x hx => hod x (List.mem_cons_of_mem _ hx)) (fun x hx => hjm x (List.mem_cons_of_mem _ hx))
                  (rowStepF v { dl := S.sa, d := d * m, dr := f.k, t := f.q } (opLevel m o0 j0))
                simp only [opString] at this
                rw [this, ← sumStrings_sum]
                refine sumStrings_congr _ _ _ _ (fun i' _ => ?_)
                have e1 : headDl tops = top.dr := hT.1.symm
                have e2 : headDl bots = bot.dr := hB.1.symm
                simp only [colAmp, headDl_cons, e1, e2, rowStepF]
                rw [← zip_step_identity S.sa top.dl bot.dl d top.dr bot.dr v S.s
                  (fun i b bt => top.t (opLevel d o0 i) b bt) (fun i c rb => bot.t (opLevel m i j0) c rb)]
                refine Finset.sum_congr rfl (fun bt hbt => Finset.sum_congr rfl (fun rb hrb => ?_))
                congr 2
                have hq := fun a (ha : a ∈ range S.sa) => hok.1 a (Finset.mem_range.mp ha) o0 ho0 j0 hj0 bt
                  (Finset.mem_range.mp hbt) rb (Finset.mem_range.mp hrb)
                simp only [Finset.sum_mul]
                rw [Finset.sum_comm]
                refine Finset.sum_congr rfl (fun a ha => ?_)
                have := hq a ha
                simp only [zipMerged, sumTo_eq] at this
                rw [← this, Finset.mul_sum]
                exact Finset.sum_congr rfl (fun k _ => by ring)

/-- right bond dimension of the last factor -/
def lastDr : List (Site K) → Nat
  | [] => 1
  | [A] => A.dr
  | _ :: B :: fs => lastDr (B :: fs)

theorem ampVecF_absorbLast (S : Slider K) (fs : List (Site K)) (hne : fs ≠ []) (s : List Nat) (v : Nat → K)
    (bt : Nat) :
    ampVecF (absorbLast S fs) s v bt = ∑ k ∈ range (lastDr fs), ampVecF fs s v k * S.s k bt 0 := by
  induction fs generalizing s v with
  | nil => exact absurd rfl hne
  | cons A fs ih =>
    cases fs with
    | nil =>
      match s with
      | [] => simp [absorbLast, ampVecF]
      | [x] =>
        simp only [absorbLast, ampVecF, rowStepF, Site.make_t, Site.make_dl, sumTo_eq, lastDr,
          Finset.mul_sum, Finset.sum_mul]
        rw [Finset.sum_comm]
        exact Finset.sum_congr rfl (fun k _ => Finset.sum_congr rfl (fun a _ => by ring))
      | x :: y :: s => simp [absorbLast, ampVecF]
    | cons B fs =>
      match s with
      | [] => simp [absorbLast, ampVecF]
      | x :: s =>
        simp only [absorbLast, ampVecF, lastDr]
        exact ih (by simp) s _

theorem zipLoop_lastDr (d m : Nat) (tops bots : List (Site K)) (tape : List (QR3 K)) (S Sf : Slider K)
    (fs : List (Site K)) (h : zipLoop d m tops bots tape S = some (fs, Sf)) (hne : tops ≠ []) :
    fs ≠ [] ∧ lastDr fs = Sf.sa := by
  induction tops generalizing bots tape S fs with
  | nil => exact absurd rfl hne
  | cons top tops ih =>
    cases bots with
    | nil => simp [zipLoop] at h
    | cons bot bots =>
      cases tape with
      | nil => simp [zipLoop] at h
      | cons f tape =>
        by_cases hc : S.sb ≠ top.dl ∨ S.sc ≠ bot.dl
        · simp [zipLoop, zipStep, hc] at h
        · simp only [zipLoop, zipStep, hc, if_false] at h
          cases hrec : zipLoop d m tops bots tape { sa := f.k, sb := top.dr, sc := bot.dr, s := f.r } with
          | none => simp [hrec] at h
          | some p =>
            obtain ⟨rest, Sf'⟩ := p
            simp only [hrec, Option.some.injEq, Prod.mk.injEq] at h
            obtain ⟨rfl, rfl⟩ := h
            refine ⟨by simp, ?_⟩
            cases tops with
            | nil =>
              cases bots with
              | nil =>
                simp only [zipLoop, Option.some.injEq, Prod.mk.injEq] at hrec
                obtain ⟨rfl, rfl⟩ := hrec
                rfl
              | cons _ _ => simp [zipLoop] at hrec
            | cons top' tops' =>
              obtain ⟨hne', hl⟩ := ih bots tape _ rest hrec (by simp)
              cases rest with
              | nil => exact absurd rfl hne'
              | cons R rest' => simpa [lastDr] using hl

end EmuVerif.Tensor
