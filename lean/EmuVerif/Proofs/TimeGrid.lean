/-
  Helper lemmas about `Model.TimeGrid` read over a linear ordered field:
  A. `sortedSet` is the strictly sorted list of the members;
  B. the merge loop (`mergeDesc`, `fixFirst`): sub-list, gaps, coverage, last element, identity
     on separated input;
  C. the run loop of one observable is a filter of the visited fractional times.
-/
import EmuVerif.Model.TimeGrid
import EmuVerif.Proofs.Scalar

set_option linter.unusedSectionVars false
set_option linter.unusedVariables false

namespace EmuVerif.TimeGrid
variable {α : Type} [Field α] [LinearOrder α] [IsStrictOrderedRing α]

/-! ### A. `sorted(set(l))` -/

theorem leB_iff (a b : α) : leB a b = true ↔ a ≤ b := by simp [leB]

theorem mergeSort_sorted (l : List α) : (l.mergeSort leB).Pairwise (· ≤ ·) := by
  have h := List.pairwise_mergeSort (le := (leB : α → α → Bool))
    (fun a b c hab hbc => by rw [leB_iff] at *; exact le_trans hab hbc)
    (fun a b => by simp only [Bool.or_eq_true, leB_iff]; exact le_total a b) l
  exact h.imp (fun h => (leB_iff _ _).1 h)

theorem mem_mergeSort_leB (l : List α) (x : α) : x ∈ l.mergeSort leB ↔ x ∈ l :=
  (List.mergeSort_perm l leB).mem_iff

theorem dedupAdj_subset : ∀ (l : List α) (x : α), x ∈ dedupAdj l → x ∈ l
  | [], _, h => by simp [dedupAdj] at h
  | [a], _, h => by simpa [dedupAdj] using h
  | a :: b :: l, x, h => by
    rw [dedupAdj] at h
    split_ifs at h with hab
    · rcases List.mem_cons.1 h with rfl | h'
      · simp
      · exact List.mem_cons_of_mem _ (dedupAdj_subset (b :: l) x h')
    · exact List.mem_cons_of_mem _ (dedupAdj_subset (b :: l) x h)

theorem dedupAdj_mem : ∀ (l : List α), l.Pairwise (· ≤ ·) → ∀ x, x ∈ l → x ∈ dedupAdj l
  | [], _, x, h => by simp at h
  | [a], _, x, h => by simpa [dedupAdj] using h
  | a :: b :: l, hs, x, h => by
    have hs' : (b :: l).Pairwise (· ≤ ·) := (List.pairwise_cons.1 hs).2
    have hab : a ≤ b := (List.pairwise_cons.1 hs).1 b (by simp)
    rw [dedupAdj]
    split_ifs with hlt
    · rcases List.mem_cons.1 h with rfl | h'
      · simp
      · exact List.mem_cons_of_mem _ (dedupAdj_mem _ hs' x h')
    · have hab' : a = b := le_antisymm hab (not_lt.1 hlt)
      rcases List.mem_cons.1 h with rfl | h'
      · exact dedupAdj_mem _ hs' _ (by simp [hab'])
      · exact dedupAdj_mem _ hs' x h'

theorem dedupAdj_sorted : ∀ (l : List α), l.Pairwise (· ≤ ·) → (dedupAdj l).Pairwise (· < ·)
  | [], _ => by simp [dedupAdj]
  | [a], _ => by simp [dedupAdj]
  | a :: b :: l, hs => by
    have hs' := (List.pairwise_cons.1 hs).2
    rw [dedupAdj]
    split_ifs with hlt
    · refine List.pairwise_cons.2 ⟨fun x hx => ?_, dedupAdj_sorted _ hs'⟩
      have hx' := dedupAdj_subset _ _ hx
      rcases List.mem_cons.1 hx' with rfl | hxl
      · exact hlt
      · exact lt_of_lt_of_le hlt ((List.pairwise_cons.1 hs').1 x hxl)
    · exact dedupAdj_sorted _ hs'

theorem sortedSet_sorted (l : List α) : (sortedSet l).Pairwise (· < ·) :=
  dedupAdj_sorted _ (mergeSort_sorted l)

theorem mem_sortedSet (l : List α) (x : α) : x ∈ sortedSet l ↔ x ∈ l :=
  ⟨fun h => (mem_mergeSort_leB l x).1 (dedupAdj_subset _ _ h),
   fun h => dedupAdj_mem _ (mergeSort_sorted l) x ((mem_mergeSort_leB l x).2 h)⟩

/-- Two strictly sorted lists with the same members are equal. -/
theorem sorted_ext : ∀ (s s' : List α), s.Pairwise (· < ·) → s'.Pairwise (· < ·) →
    (∀ x, x ∈ s ↔ x ∈ s') → s = s'
  | [], [], _, _, _ => rfl
  | [], b :: s', _, _, h => absurd ((h b).2 (by simp)) (by simp)
  | a :: s, [], _, _, h => absurd ((h a).1 (by simp)) (by simp)
  | a :: s, b :: s', hs, hs', h => by
    have ha := List.pairwise_cons.1 hs
    have hb := List.pairwise_cons.1 hs'
    have hab : a = b := by
      have h1 : a ∈ b :: s' := (h a).1 (by simp)
      have h2 : b ∈ a :: s := (h b).2 (by simp)
      rcases List.mem_cons.1 h1 with e | h1'
      · exact e
      · rcases List.mem_cons.1 h2 with e | h2'
        · exact e.symm
        · exact absurd (lt_trans (ha.1 b h2') (hb.1 a h1')) (lt_irrefl _)
    subst hab
    congr 1
    refine sorted_ext s s' ha.2 hb.2 (fun x => ⟨fun hx => ?_, fun hx => ?_⟩)
    · rcases List.mem_cons.1 ((h x).1 (List.mem_cons_of_mem _ hx)) with e | h'
      · exact absurd (e ▸ ha.1 x hx) (lt_irrefl _)
      · exact h'
    · rcases List.mem_cons.1 ((h x).2 (List.mem_cons_of_mem _ hx)) with e | h'
      · exact absurd (e ▸ hb.1 x hx) (lt_irrefl _)
      · exact h'

theorem sortedSet_eq_of {l s : List α} (hs : s.Pairwise (· < ·)) (hm : ∀ x, x ∈ s ↔ x ∈ l) :
    sortedSet l = s :=
  sorted_ext _ _ (sortedSet_sorted l) hs (fun x => by rw [mem_sortedSet, hm])

/-- In a strictly sorted list the head is below every member. -/
theorem head_le_of_sorted {a : α} {s : List α} (hs : (a :: s).Pairwise (· < ·)) :
    ∀ x ∈ a :: s, a ≤ x := by
  intro x hx
  rcases List.mem_cons.1 hx with rfl | h
  · exact le_rfl
  · exact le_of_lt ((List.pairwise_cons.1 hs).1 x h)

/-- In a strictly sorted list every member is below the last. -/
theorem le_getLast_of_sorted : ∀ {s : List α}, s.Pairwise (· < ·) → ∀ l, s.getLast? = some l →
    ∀ x ∈ s, x ≤ l
  | [], _, l, h, x, hx => by simp at hx
  | [a], _, l, h, x, hx => by
    simp at h hx; subst h; subst hx; exact le_rfl
  | a :: b :: s, hs, l, h, x, hx => by
    have hl : (b :: s).getLast? = some l := by simpa [List.getLast?_cons_cons] using h
    have hs' := (List.pairwise_cons.1 hs).2
    rcases List.mem_cons.1 hx with rfl | h'
    · have hb := le_getLast_of_sorted hs' l hl b (by simp)
      exact le_trans (le_of_lt ((List.pairwise_cons.1 hs).1 b (by simp))) hb
    · exact le_getLast_of_sorted hs' l hl x h'

theorem getLast?_mem : ∀ {s : List α} {l : α}, s.getLast? = some l → l ∈ s
  | [], l, h => by simp at h
  | [a], l, h => by simp at h; simp [h]
  | a :: b :: s, l, h => by
    have hl : (b :: s).getLast? = some l := by simpa [List.getLast?_cons_cons] using h
    exact List.mem_cons_of_mem _ (getLast?_mem hl)

/-! ### B. the merge loop -/

/-- Every later point is more than `tol` above every earlier one. -/
def Gap (tol : α) (l : List α) : Prop := l.Pairwise (fun a b => tol < b - a)

theorem Gap.sorted {tol : α} (h0 : 0 ≤ tol) {l : List α} (h : Gap tol l) : l.Pairwise (· < ·) :=
  List.Pairwise.imp (fun {a b} hab => by linarith) h

theorem mergeDesc_cons (tol t : α) (s : List α) :
    mergeDesc tol (t :: s) = mergeStep tol t (mergeDesc tol s) := rfl

theorem mergeStep_cases (tol t : α) (acc : List α) :
    mergeStep tol t acc = t :: acc ∨ (mergeStep tol t acc = acc ∧ ∃ m r, acc = m :: r ∧ ¬ tol < m - t) := by
  cases acc with
  | nil => left; rfl
  | cons m r =>
    by_cases h : tol < m - t
    · left; simp [mergeStep, h]
    · right; exact ⟨by simp [mergeStep, h], m, r, rfl, h⟩

theorem mergeDesc_sub (tol : α) : ∀ (s : List α) (x : α), x ∈ mergeDesc tol s → x ∈ s
  | [], x, h => by simp [mergeDesc] at h
  | t :: s, x, h => by
    rw [mergeDesc_cons] at h
    rcases mergeStep_cases tol t (mergeDesc tol s) with e | ⟨e, _⟩
    · rw [e] at h
      rcases List.mem_cons.1 h with rfl | h'
      · simp
      · exact List.mem_cons_of_mem _ (mergeDesc_sub tol s x h')
    · rw [e] at h
      exact List.mem_cons_of_mem _ (mergeDesc_sub tol s x h)

theorem mergeDesc_ne_nil (tol : α) : ∀ (s : List α), s ≠ [] → mergeDesc tol s ≠ []
  | [], h => absurd rfl h
  | t :: s, _ => by
    rw [mergeDesc_cons]
    rcases mergeStep_cases tol t (mergeDesc tol s) with e | ⟨e, m, r, hm, _⟩
    · rw [e]; simp
    · rw [e, hm]; simp

theorem mergeDesc_gap {tol : α} (h0 : 0 ≤ tol) : ∀ (s : List α), s.Pairwise (· < ·) →
    Gap tol (mergeDesc tol s)
  | [], _ => by simp [mergeDesc, Gap]
  | t :: s, hs => by
    have ih := mergeDesc_gap h0 s (List.pairwise_cons.1 hs).2
    rw [mergeDesc_cons]
    cases hR : mergeDesc tol s with
    | nil => simp [mergeStep, Gap]
    | cons m r =>
      rw [hR] at ih
      by_cases h : tol < m - t
      · simp only [mergeStep, h, if_true]
        refine List.pairwise_cons.2 ⟨fun x hx => ?_, ih⟩
        rcases List.mem_cons.1 hx with rfl | hx'
        · exact h
        · have := (List.pairwise_cons.1 ih).1 x hx'
          linarith
      · simp only [mergeStep, h, if_false]
        exact ih

/-- Every candidate is at most `tol` below a kept point. -/
theorem mergeDesc_cover {tol : α} (h0 : 0 ≤ tol) : ∀ (s : List α), s.Pairwise (· < ·) →
    ∀ x ∈ s, ∃ r ∈ mergeDesc tol s, x ≤ r ∧ r - x ≤ tol
  | [], _, x, hx => by simp at hx
  | t :: s, hs, x, hx => by
    have hs' := (List.pairwise_cons.1 hs).2
    rw [mergeDesc_cons]
    rcases List.mem_cons.1 hx with rfl | hx'
    · rcases mergeStep_cases tol x (mergeDesc tol s) with e | ⟨e, m, r, hm, hnot⟩
      · rw [e]; exact ⟨x, by simp, le_rfl, by simpa using h0⟩
      · rw [e]
        have hmem : m ∈ mergeDesc tol s := by rw [hm]; simp
        have hlt := (List.pairwise_cons.1 hs).1 m (mergeDesc_sub tol s m hmem)
        exact ⟨m, hmem, le_of_lt hlt, not_lt.1 hnot⟩
    · obtain ⟨r, hr, h1, h2⟩ := mergeDesc_cover h0 s hs' x hx'
      refine ⟨r, ?_, h1, h2⟩
      rcases mergeStep_cases tol t (mergeDesc tol s) with e | ⟨e, _⟩
      · rw [e]; exact List.mem_cons_of_mem _ hr
      · rw [e]; exact hr

theorem mergeDesc_getLast (tol : α) : ∀ (s : List α), (mergeDesc tol s).getLast? = s.getLast?
  | [] => rfl
  | [t] => rfl
  | t :: u :: s => by
    have ih := mergeDesc_getLast tol (u :: s)
    have hne := mergeDesc_ne_nil tol (u :: s) (by simp)
    rw [mergeDesc_cons, List.getLast?_cons_cons, ← ih]
    rcases mergeStep_cases tol t (mergeDesc tol (u :: s)) with e | ⟨e, _⟩
    · rw [e]
      cases h : mergeDesc tol (u :: s) with
      | nil => exact absurd h hne
      | cons m r => rw [List.getLast?_cons_cons]
    · rw [e]

theorem mergeDesc_id {tol : α} : ∀ (s : List α), Gap tol s → mergeDesc tol s = s
  | [], _ => rfl
  | [t], _ => rfl
  | t :: u :: s, h => by
    have ih := mergeDesc_id (u :: s) (List.pairwise_cons.1 h).2
    have hgap : tol < u - t := (List.pairwise_cons.1 h).1 u (by simp)
    rw [mergeDesc_cons, ih]
    simp [mergeStep, hgap]

/-- Everything the merged grid satisfies, relative to its strictly sorted input. -/
structure MergeSpec (tol : α) (s g : List α) : Prop where
  gap : Gap tol g
  sub : ∀ x ∈ g, x ∈ s
  head : g.head? = s.head?
  cover : ∀ x ∈ s, ∃ y ∈ g, |y - x| ≤ tol
  last : 2 ≤ g.length → g.getLast? = s.getLast?
  two : (∃ x ∈ s, ∃ y ∈ s, tol < y - x) → 2 ≤ g.length

theorem mergeGrid_spec {tol : α} (h0 : 0 ≤ tol) {s : List α} (hs : s.Pairwise (· < ·))
    (hne : s ≠ []) : ∃ g, mergeGrid tol s = some g ∧ MergeSpec tol s g := by
  obtain ⟨s0, s', rfl⟩ := List.exists_cons_of_ne_nil hne
  have hR := mergeDesc_ne_nil tol (s0 :: s') (by simp)
  obtain ⟨h, rt, hRe⟩ := List.exists_cons_of_ne_nil hR
  have hgapR := mergeDesc_gap h0 (s0 :: s') hs
  have hcov := mergeDesc_cover h0 (s0 :: s') hs
  have hsub := mergeDesc_sub tol (s0 :: s')
  have hlast := mergeDesc_getLast tol (s0 :: s')
  rw [hRe] at hgapR hcov hsub hlast
  have hsortR := Gap.sorted h0 hgapR
  -- the head of the kept points is within `tol` of the first candidate
  have hh1 : s0 ≤ h := head_le_of_sorted hs h (hsub h (by simp))
  have hh2 : h - s0 ≤ tol := by
    obtain ⟨r, hr, hr1, hr2⟩ := hcov s0 (by simp)
    have := head_le_of_sorted hsortR r hr
    linarith
  refine ⟨s0 :: rt, by simp [mergeGrid, hRe, fixFirst], ?_, ?_, rfl, ?_, ?_, ?_⟩
  · refine List.pairwise_cons.2 ⟨fun x hx => ?_, (List.pairwise_cons.1 hgapR).2⟩
    have := (List.pairwise_cons.1 hgapR).1 x hx
    linarith
  · intro x hx
    rcases List.mem_cons.1 hx with rfl | hx'
    · simp
    · exact hsub x (List.mem_cons_of_mem _ hx')
  · intro x hx
    obtain ⟨r, hr, hr1, hr2⟩ := hcov x hx
    rcases List.mem_cons.1 hr with rfl | hr'
    · refine ⟨s0, by simp, ?_⟩
      have hx0 := head_le_of_sorted hs x hx
      rw [abs_le]; constructor <;> linarith
    · refine ⟨r, List.mem_cons_of_mem _ hr', ?_⟩
      rw [abs_le]; constructor <;> linarith
  · intro h2
    cases rt with
    | nil => simp at h2
    | cons m r => rw [List.getLast?_cons_cons, ← hlast, List.getLast?_cons_cons]
  · rintro ⟨x, hx, y, hy, hxy⟩
    cases rt with
    | nil =>
      -- a single kept point `h` would cover both `x` and `y`
      exfalso
      obtain ⟨r1, hr1, a1, a2⟩ := hcov x hx
      obtain ⟨r2, hr2, b1, b2⟩ := hcov y hy
      simp at hr1 hr2
      rw [hr1] at a1 a2; rw [hr2] at b1 b2
      have hl : (s0 :: s').getLast? = some h := by rw [← hlast]; rfl
      have hx0 := head_le_of_sorted hs x hx
      have hy1 := le_getLast_of_sorted hs h hl y hy
      linarith
    | cons m r => simp

theorem mergeGrid_id {tol : α} {s : List α} (hne : s ≠ []) (hg : Gap tol s) :
    mergeGrid tol s = some s := by
  obtain ⟨s0, s', rfl⟩ := List.exists_cons_of_ne_nil hne
  simp [mergeGrid, mergeDesc_id _ hg, fixFirst]

theorem setLast_of_getLast : ∀ (l : List α) (d : α), l.getLast? = some d → setLast d l = l
  | [], d, h => by simp at h
  | [a], d, h => by simp at h; simp [setLast, h]
  | a :: b :: l, d, h => by
    have hl : (b :: l).getLast? = some d := by simpa [List.getLast?_cons_cons] using h
    simp [setLast, setLast_of_getLast (b :: l) d hl]

/-! ### C. the run loop of one observable -/

/-- The times an observable is effectively tested against. -/
def effTimes (dflt own : Option (List α)) : Option (List α) :=
  match own with
  | some ts => some ts
  | none => dflt

theorem evalTest_eff {dflt own : Option (List α)} {T : List α} (h : effTimes dflt own = some T)
    (tol t : α) : evalTest tol dflt own t = .ok (inTimes tol T t) := by
  cases own with
  | some ts => simp [effTimes] at h; subst h; rfl
  | none =>
    simp [effTimes] at h; subst h; rfl

/-- The selection a run performs: index-tagged visited times that pass both filters. -/
def sel (keep : α → Bool) : Nat → List α → List (α × Nat)
  | _, [] => []
  | k, t :: ts => if keep t then (t, k) :: sel keep (k + 1) ts else sel keep (k + 1) ts

theorem sel_fst (keep : α → Bool) : ∀ (k : Nat) (fr : List α),
    (sel keep k fr).map Prod.fst = fr.filter keep
  | _, [] => rfl
  | k, t :: ts => by
    by_cases h : keep t = true
    · simp [sel, h, sel_fst keep (k + 1) ts]
    · simp [sel, h, sel_fst keep (k + 1) ts]

theorem sel_index (keep : α → Bool) : ∀ (k : Nat) (fr : List α) (p : α × Nat), p ∈ sel keep k fr →
    k ≤ p.2 ∧ fr[p.2 - k]? = some p.1 ∧ keep p.1 = true
  | _, [], p, h => by simp [sel] at h
  | k, t :: ts, p, h => by
    have key : p ∈ sel keep (k + 1) ts → k ≤ p.2 ∧ (t :: ts)[p.2 - k]? = some p.1 ∧ keep p.1 = true := by
      intro h'
      obtain ⟨h1, h2, h3⟩ := sel_index keep (k + 1) ts p h'
      refine ⟨by omega, ?_, h3⟩
      have : p.2 - k = (p.2 - (k + 1)) + 1 := by omega
      rw [this, List.getElem?_cons_succ]; exact h2
    by_cases hk : keep t = true
    · simp only [sel, hk, if_true] at h
      rcases List.mem_cons.1 h with rfl | h'
      · simp [hk]
      · exact key h'
    · simp only [sel, hk] at h
      exact key h

/-- Both filters with the effective times. -/
def keepB (tol1 tol2 : α) (T : List α) (t : α) : Bool := inTimes tol1 T t && inTimes tol2 T t

theorem storeRaw_ok (rec : List (α × Nat)) (t : α) (k : Nat) (h : ∀ r ∈ rec, r.1 < t) :
    storeRaw rec t k = .ok (rec ++ [(t, k)]) := by
  have hany : rec.any (fun r => eqv r.1 t) = false := by
    rw [List.any_eq_false]
    intro r hr
    simp [eqv, h r hr]
  unfold storeRaw
  rw [hany]
  simp only [Bool.false_eq_true, if_false]
  cases hl : rec.getLast? with
  | none =>
    have : rec = [] := List.getLast?_eq_none_iff.1 hl
    simp [this]
  | some l =>
    have hmem : l ∈ rec := by
      rcases List.getLast?_eq_some_iff.1 hl with ⟨ys, rfl⟩
      simp
    simp [h l hmem]

/-- On strictly increasing visit times the run never raises and records exactly the selection. -/
theorem runFrom_ok {tol1 tol2 : α} {dflt own : Option (List α)} {T : List α}
    (heff : effTimes dflt own = some T) :
    ∀ (fr : List α) (k : Nat) (rec : List (α × Nat)), fr.Pairwise (· < ·) →
      (∀ r ∈ rec, ∀ t ∈ fr, r.1 < t) →
      runFrom false tol1 tol2 dflt own k fr rec = .ok (rec ++ sel (keepB tol1 tol2 T) k fr)
  | [], k, rec, _, _ => by simp [runFrom, sel]
  | t :: ts, k, rec, hs, hrec => by
    have hs' := List.pairwise_cons.1 hs
    have step : ∀ rec', (∀ r ∈ rec', ∀ u ∈ ts, r.1 < u) →
        runFrom false tol1 tol2 dflt own (k + 1) ts rec' = .ok (rec' ++ sel (keepB tol1 tol2 T) (k + 1) ts) :=
      fun rec' h' => runFrom_ok heff ts (k + 1) rec' hs'.2 h'
    have hrec' : ∀ r ∈ rec, ∀ u ∈ ts, r.1 < u := fun r hr u hu => hrec r hr u (List.mem_cons_of_mem _ hu)
    unfold runFrom visitObs
    simp only [Bool.false_eq_true, if_false, pass1, evalTest_eff heff]
    by_cases h1 : inTimes tol1 T t = true
    · simp only [h1, callObs, pass2, evalTest_eff heff]
      by_cases h2 : inTimes tol2 T t = true
      · simp only [h2]
        rw [storeRaw_ok rec t k (fun r hr => hrec r hr t (by simp))]
        simp only
        rw [step]
        · simp [sel, keepB, h1, h2]
        · intro r hr u hu
          rcases List.mem_append.1 hr with h | h
          · exact hrec' r h u hu
          · simp at h; subst h; exact hs'.1 u hu
      · have h2' : inTimes tol2 T t = false := by simpa using h2
        simp only [h2']
        rw [step rec hrec']
        simp [sel, keepB, h1, h2']
    · have h1' : inTimes tol1 T t = false := by simpa using h1
      simp only [h1']
      rw [step rec hrec']
      simp [sel, keepB, h1']

theorem inTimes_iff (tol : α) (T : List α) (t : α) :
    inTimes tol T t = true ↔ 0 ≤ t ∧ t ≤ 1 ∧ ∃ s ∈ T, |s - t| ≤ tol := by
  simp [inTimes, absv_eq_abs, and_assoc]

end EmuVerif.TimeGrid
