/-
  Algebra of `TreeVec`: `Vec β n` is a module whenever `β` is, the matrix-free single-qubit
  application is multiplication by the Kronecker-embedded matrix, block-recursive matrix
  algebra, and the bridge between block-recursive (`Mat`) and row-major (`RMat`) matrices.
-/
import EmuVerif.Model.TreeVec
import EmuVerif.Proofs.Cx
import Mathlib.Algebra.Module.Defs
import Mathlib.Algebra.BigOperators.Group.List.Basic
import Mathlib.Tactic.Abel
import Mathlib.Tactic.Module

set_option linter.unusedSectionVars false
set_option linter.unusedVariables false

namespace EmuVerif.TreeVec
open EmuVerif

variable {κ β γ δ : Type} {n m : Nat}

/-! ### structural lemmas -/
namespace Vec

/-- the path with first bit `b` and the rest `p` -/
def cons (b : Bool) (p : Nat → Bool) : Nat → Bool
  | 0 => b
  | q + 1 => p q

@[simp] theorem get_leaf (x : β) (p) : get (leaf x) p = x := rfl
@[simp] theorem get_node_cons (a b : Vec β n) (c : Bool) (p) :
    get (node a b) (cons c p) = if c then get b p else get a p := rfl

theorem ext_get : ∀ {n} {v w : Vec β n}, (∀ p, get v p = get w p) → v = w
  | _, leaf x, leaf y, h => by simpa using h (fun _ => false)
  | _, node a b, node c d, h => by
    have h1 : a = c := ext_get (fun p => by simpa using h (cons false p))
    have h2 : b = d := ext_get (fun p => by simpa using h (cons true p))
    rw [h1, h2]

@[simp] theorem get_map (f : β → γ) : ∀ {n} (v : Vec β n) (p), get (map f v) p = f (get v p)
  | _, leaf x, p => rfl
  | _, node a b, p => by
    simp only [map, get]; split <;> exact get_map f _ _

@[simp] theorem get_zipWith (f : β → γ → δ) :
    ∀ {n} (v : Vec β n) (w : Vec γ n) (p), get (zipWith f v w) p = f (get v p) (get w p)
  | _, leaf x, leaf y, p => rfl
  | _, node a b, node c d, p => by
    simp only [zipWith, get]; split <;> exact get_zipWith f _ _ _

@[simp] theorem get_replicate (x : β) : ∀ n p, get (replicate n x) p = x
  | 0, p => rfl
  | n + 1, p => by simp only [replicate, get]; split <;> exact get_replicate x n _

@[simp] theorem map_node (f : β → γ) (a b : Vec β n) : map f (node a b) = node (map f a) (map f b) := rfl
@[simp] theorem map_leaf (f : β → γ) (x : β) : map f (leaf x) = leaf (f x) := rfl
@[simp] theorem zipWith_node (f : β → γ → δ) (a b : Vec β n) (c d : Vec γ n) :
    zipWith f (node a b) (node c d) = node (zipWith f a c) (zipWith f b d) := rfl
@[simp] theorem zipWith_leaf (f : β → γ → δ) (x : β) (y : γ) : zipWith f (leaf x) (leaf y) = leaf (f x y) := rfl

theorem map_map (f : β → γ) (g : γ → δ) (v : Vec β n) : map g (map f v) = map (g ∘ f) v :=
  ext_get (fun p => by simp)

theorem map_id' (v : Vec β n) : map (fun x => x) v = v := ext_get (fun p => by simp)

/-! ### module structure -/

instance [Zero β] : Zero (Vec β n) := ⟨replicate n 0⟩

@[simp] theorem get_add [Add β] (v w : Vec β n) (p) : get (v + w) p = get v p + get w p := get_zipWith _ _ _ _
@[simp] theorem get_sub [Sub β] (v w : Vec β n) (p) : get (v - w) p = get v p - get w p := get_zipWith _ _ _ _
@[simp] theorem get_neg [Neg β] (v : Vec β n) (p) : get (-v) p = -get v p := get_map _ _ _
@[simp] theorem get_smul [SMul κ β] (c : κ) (v : Vec β n) (p) : get (c • v) p = c • get v p := get_map _ _ _
@[simp] theorem get_zero [Zero β] (p) : get (0 : Vec β n) p = 0 := get_replicate _ _ _
@[simp] theorem get_hmul [SMul κ β] (d : Vec κ n) (v : Vec β n) (p) : get (hmul d v) p = get d p • get v p :=
  get_zipWith _ _ _ _

@[simp] theorem node_add [Add β] (a b c d : Vec β n) : node a b + node c d = node (a + c) (b + d) := rfl
@[simp] theorem leaf_add [Add β] (x y : β) : leaf x + leaf y = leaf (x + y) := rfl
@[simp] theorem node_sub [Sub β] (a b c d : Vec β n) : node a b - node c d = node (a - c) (b - d) := rfl
@[simp] theorem leaf_sub [Sub β] (x y : β) : leaf x - leaf y = leaf (x - y) := rfl
@[simp] theorem neg_node [Neg β] (a b : Vec β n) : -node a b = node (-a) (-b) := rfl
@[simp] theorem neg_leaf [Neg β] (x : β) : -leaf x = leaf (-x) := rfl
@[simp] theorem smul_node [SMul κ β] (c : κ) (a b : Vec β n) : c • node a b = node (c • a) (c • b) := rfl
@[simp] theorem smul_leaf [SMul κ β] (c : κ) (x : β) : c • leaf x = leaf (c • x) := rfl
theorem zero_succ [Zero β] : (0 : Vec β (n + 1)) = node 0 0 := rfl
theorem zero_zero [Zero β] : (0 : Vec β 0) = leaf 0 := rfl
@[simp] theorem replicate_zero [Zero β] : replicate n (0 : β) = 0 := rfl

instance [AddCommMonoid β] : AddCommMonoid (Vec β n) where
  add_assoc a b c := ext_get (fun p => by simp [add_assoc])
  zero_add a := ext_get (fun p => by simp)
  add_zero a := ext_get (fun p => by simp)
  add_comm a b := ext_get (fun p => by simp [add_comm])
  nsmul := nsmulRec

instance [AddCommGroup β] : AddCommGroup (Vec β n) where
  neg_add_cancel a := ext_get (fun p => by simp)
  sub_eq_add_neg a b := ext_get (fun p => by simp [sub_eq_add_neg])
  zsmul := zsmulRec

instance [Semiring κ] [AddCommMonoid β] [Module κ β] : Module κ (Vec β n) where
  one_smul a := ext_get (fun p => by simp)
  mul_smul c d a := ext_get (fun p => by simp [mul_smul])
  smul_zero c := ext_get (fun p => by simp)
  smul_add c a b := ext_get (fun p => by simp)
  add_smul c d a := ext_get (fun p => by simp [add_smul])
  zero_smul a := ext_get (fun p => by simp)

end Vec

namespace Mat
section
variable [CommRing κ]

@[simp] theorem node_add (a b c d a' b' c' d' : Mat κ n) :
    node a b c d + node a' b' c' d' = node (a + a') (b + b') (c + c') (d + d') := rfl
@[simp] theorem leaf_add (x y : κ) : (leaf x + leaf y : Mat κ 0) = leaf (x + y) := rfl
@[simp] theorem node_sub (a b c d a' b' c' d' : Mat κ n) :
    node a b c d - node a' b' c' d' = node (a - a') (b - b') (c - c') (d - d') := rfl
@[simp] theorem leaf_sub (x y : κ) : (leaf x - leaf y : Mat κ 0) = leaf (x - y) := rfl
@[simp] theorem smul_node (s : κ) (a b c d : Mat κ n) : s • node a b c d = node (s • a) (s • b) (s • c) (s • d) := rfl
@[simp] theorem smul_leaf (s x : κ) : (s • leaf x : Mat κ 0) = leaf (s * x) := rfl
@[simp] theorem node_mul (a b c d a' b' c' d' : Mat κ n) :
    node a b c d * node a' b' c' d' =
      node (a * a' + b * c') (a * b' + b * d') (c * a' + d * c') (c * b' + d * d') := rfl
@[simp] theorem leaf_mul (x y : κ) : (leaf x * leaf y : Mat κ 0) = leaf (x * y) := rfl

variable [AddCommGroup β] [Module κ β]

@[simp] theorem mulVec_leaf (a : κ) (x : β) : mulVec (leaf a) (Vec.leaf x) = Vec.leaf (a • x) := rfl
@[simp] theorem mulVec_node (a b c d : Mat κ n) (x y : Vec β n) :
    mulVec (node a b c d) (Vec.node x y) = Vec.node (mulVec a x + mulVec b y) (mulVec c x + mulVec d y) := rfl

@[simp] theorem mulVec_zero_mat : ∀ {n} (x : Vec β n), mulVec (Mat.zero n : Mat κ n) x = 0
  | _, .leaf x => by simp [Mat.zero, Vec.zero_zero]
  | _, .node x y => by simp [Mat.zero, mulVec_zero_mat, Vec.zero_succ]

@[simp] theorem mulVec_one : ∀ {n} (x : Vec β n), mulVec (Mat.one n : Mat κ n) x = x
  | _, .leaf x => by simp [Mat.one]
  | _, .node x y => by simp [Mat.one, mulVec_one]

theorem mulVec_smul_mat (s : κ) : ∀ {n} (A : Mat κ n) (x : Vec β n), mulVec (s • A) x = s • mulVec A x
  | _, leaf a, .leaf x => by simp [mul_smul]
  | _, node a b c d, .node x y => by simp [mulVec_smul_mat s]

theorem mulVec_add_mat : ∀ {n} (A B : Mat κ n) (x : Vec β n), mulVec (A + B) x = mulVec A x + mulVec B x
  | _, leaf a, leaf b, .leaf x => by simp [add_smul]
  | _, node a b c d, node a' b' c' d', .node x y => by
    simp only [node_add, mulVec_node, mulVec_add_mat, Vec.node_add]; congr 1 <;> abel

theorem mulVec_add_vec : ∀ {n} (A : Mat κ n) (x y : Vec β n), mulVec A (x + y) = mulVec A x + mulVec A y
  | _, leaf a, .leaf x, .leaf y => by simp
  | _, node a b c d, .node x y, .node x' y' => by
    simp only [Vec.node_add, mulVec_node, mulVec_add_vec]; congr 1 <;> abel

theorem mulVec_smul_vec (s : κ) : ∀ {n} (A : Mat κ n) (x : Vec β n), mulVec A (s • x) = s • mulVec A x
  | _, leaf a, .leaf x => by simp only [Vec.smul_leaf, mulVec_leaf]; rw [smul_comm]
  | _, node a b c d, .node x y => by simp [mulVec_smul_vec s]

theorem mulVec_mul : ∀ {n} (A B : Mat κ n) (x : Vec β n), mulVec (A * B) x = mulVec A (mulVec B x)
  | _, leaf a, leaf b, .leaf x => by simp [mul_smul]
  | _, node a b c d, node a' b' c' d', .node x y => by
    simp only [node_mul, mulVec_node, mulVec_add_mat, mulVec_mul, mulVec_add_vec]; congr 1 <;> abel
end
end Mat

section
variable [CommRing κ] [AddCommGroup β] [Module κ β]

/-- **P4**: the matrix-free application on qubit `k` is the dense `I⊗…⊗m⊗…⊗I` times the vector. -/
theorem applyAt_eq_mulVec (mm : M2 κ) : ∀ {n} (k : Nat) (x : Vec β n),
    applyAt k mm x = Mat.mulVec (Mat.embed n k mm) x
  | _, k, .leaf x => by cases k <;> simp [applyAt, Mat.embed]
  | _, 0, .node a b => by simp [applyAt, Mat.embed, Mat.kron2, Mat.mulVec_smul_mat]
  | _, k + 1, .node a b => by simp [applyAt, Mat.embed, applyAt_eq_mulVec mm k]
end


/-! ### 2×2 matrices -/
namespace M2
@[ext] theorem ext' {x y : M2 κ} (h1 : x.a = y.a) (h2 : x.b = y.b) (h3 : x.c = y.c) (h4 : x.d = y.d) : x = y := by
  cases x; cases y; simp_all

section
variable [CommRing κ]
@[simp] theorem add_a (x y : M2 κ) : (x + y).a = x.a + y.a := rfl
@[simp] theorem add_b (x y : M2 κ) : (x + y).b = x.b + y.b := rfl
@[simp] theorem add_c (x y : M2 κ) : (x + y).c = x.c + y.c := rfl
@[simp] theorem add_d (x y : M2 κ) : (x + y).d = x.d + y.d := rfl
@[simp] theorem sub_a (x y : M2 κ) : (x - y).a = x.a - y.a := rfl
@[simp] theorem sub_b (x y : M2 κ) : (x - y).b = x.b - y.b := rfl
@[simp] theorem sub_c (x y : M2 κ) : (x - y).c = x.c - y.c := rfl
@[simp] theorem sub_d (x y : M2 κ) : (x - y).d = x.d - y.d := rfl
@[simp] theorem smul_a (s : κ) (x : M2 κ) : (s • x).a = s * x.a := rfl
@[simp] theorem smul_b (s : κ) (x : M2 κ) : (s • x).b = s * x.b := rfl
@[simp] theorem smul_c (s : κ) (x : M2 κ) : (s • x).c = s * x.c := rfl
@[simp] theorem smul_d (s : κ) (x : M2 κ) : (s • x).d = s * x.d := rfl
@[simp] theorem mul_a (x y : M2 κ) : (x * y).a = x.a * y.a + x.b * y.c := rfl
@[simp] theorem mul_b (x y : M2 κ) : (x * y).b = x.a * y.b + x.b * y.d := rfl
@[simp] theorem mul_c (x y : M2 κ) : (x * y).c = x.c * y.a + x.d * y.c := rfl
@[simp] theorem mul_d (x y : M2 κ) : (x * y).d = x.c * y.b + x.d * y.d := rfl

/-- the matrix unit with `c` at `[dst, src]` -/
def unit (dst src : Bool) (c : κ) : M2 κ :=
  ⟨if !dst && !src then c else 0, if !dst && src then c else 0, if dst && !src then c else 0, if dst && src then c else 0⟩

theorem eq_units (x : M2 κ) :
    x = unit false false x.a + unit false true x.b + unit true false x.c + unit true true x.d := by
  ext <;> simp [unit]
end
end M2

/-! ### `index_add_`, batched matmul, in-place updates of a diagonal -/
section
variable [CommRing κ] [AddCommGroup β] [Module κ β]

theorem indexAddAt_eq (dst src : Bool) (c : κ) : ∀ {n} (k : Nat) (_ : k < n) (v r : Vec β n),
    indexAddAt k dst src c v r = r + applyAt k (M2.unit dst src c) v
  | _, 0, _, .node v0 v1, .node r0 r1 => by
    cases dst <;> cases src <;> simp [indexAddAt, applyAt, M2.unit]
  | _, k + 1, h, .node v0 v1, .node r0 r1 => by
    simp [indexAddAt, applyAt, indexAddAt_eq dst src c k (Nat.lt_of_succ_lt_succ h)]

theorem applyAt_add_m (m1 m2 : M2 κ) : ∀ {n} (k : Nat) (_ : k < n) (x : Vec β n),
    applyAt k (m1 + m2) x = applyAt k m1 x + applyAt k m2 x
  | _, 0, _, .node a b => by
    simp only [applyAt, M2.add_a, M2.add_b, M2.add_c, M2.add_d, add_smul, Vec.node_add]; congr 1 <;> abel
  | _, k + 1, h, .node a b => by
    simp [applyAt, applyAt_add_m m1 m2 k (Nat.lt_of_succ_lt_succ h)]

theorem applyAt_smul_m (s : κ) (m1 : M2 κ) : ∀ {n} (k : Nat) (_ : k < n) (x : Vec β n),
    applyAt k (s • m1) x = s • applyAt k m1 x
  | _, 0, _, .node a b => by simp [applyAt, mul_smul]
  | _, k + 1, h, .node a b => by
    simp [applyAt, applyAt_smul_m s m1 k (Nat.lt_of_succ_lt_succ h)]

theorem Vec.map_const_zero (x : Vec β n) : x.map (fun _ => (0 : β)) = 0 := Vec.ext_get (fun p => by simp)

theorem hmul_map_add (c : κ) (b : Vec κ n) (y : Vec β n) :
    Vec.hmul (b.map (· + c)) y = Vec.hmul b y + c • y := Vec.ext_get (fun p => by simp [add_smul])

theorem hmul_zero (v : Vec β n) : Vec.hmul (Vec.replicate n (0 : κ)) v = 0 := Vec.ext_get (fun p => by simp)

@[simp] theorem hmul_node (a b : Vec κ n) (x y : Vec β n) :
    Vec.hmul (Vec.node a b) (Vec.node x y) = Vec.node (Vec.hmul a x) (Vec.hmul b y) := rfl

/-- `x.view(2**k,2,-1)[:,1,:] += c` on a diagonal = adding `c · n_k`. -/
theorem hmul_mapAt1_add (c : κ) : ∀ {n} (k : Nat) (_ : k < n) (d : Vec κ n) (v : Vec β n),
    Vec.hmul (mapAt1 (fun _ t => t.map (· + c)) k d) v = Vec.hmul d v + c • applyAt k (M2.nOp : M2 κ) v
  | _, 0, _, .node a b, .node x y => by simp [mapAt1, applyAt, M2.nOp, hmul_map_add]
  | _, k + 1, h, .node a b, .node x y => by
    simp [mapAt1, applyAt, hmul_mapAt1_add c k (Nat.lt_of_succ_lt_succ h)]

theorem hmul_mapAt1_sub (c : κ) (k : Nat) (h : k < n) (d : Vec κ n) (v : Vec β n) :
    Vec.hmul (mapAt1 (fun _ t => t.map (· - c)) k d) v = Vec.hmul d v + (-c) • applyAt k (M2.nOp : M2 κ) v := by
  have : (fun (m : Nat) (t : Vec κ m) => t.map (· - c)) = (fun m t => t.map (· + -c)) := by
    funext m t; congr 1; funext x; exact sub_eq_add_neg x c
  rw [this]; exact hmul_mapAt1_add (-c) k h d v

/-- `x.view(2**i,2,-1)[:,1,:].view(2**i,2**(j-i-1),2,-1)[:,:,1,:] += c` on a diagonal = adding `c · n_i n_j`. -/
theorem hmul_mapAt1_mapAt1_add (c : κ) : ∀ {n} (i j : Nat) (_ : i < j) (_ : j < n) (d : Vec κ n) (v : Vec β n),
    Vec.hmul (mapAt1 (fun _ t => mapAt1 (fun _ s => s.map (· + c)) (j - i - 1) t) i d) v
      = Vec.hmul d v + c • applyAt i (M2.nOp : M2 κ) (applyAt j (M2.nOp : M2 κ) v)
  | _, 0, j + 1, _, hj, .node a b, .node x y => by
    have := hmul_mapAt1_add (β := β) c j (Nat.lt_of_succ_lt_succ hj) b y
    simp [mapAt1, applyAt, M2.nOp, this]
  | _, i + 1, j + 1, hij, hj, .node a b, .node x y => by
    have e : j + 1 - (i + 1) - 1 = j - i - 1 := by omega
    simp only [mapAt1, applyAt, e, hmul_node, Vec.node_add, Vec.smul_node,
      hmul_mapAt1_mapAt1_add c i j (Nat.lt_of_succ_lt_succ hij) (Nat.lt_of_succ_lt_succ hj)]

end

/-- a left fold whose step adds `g k` under an observation `φ` -/
theorem foldl_hom {S ι M : Type} [AddCommMonoid M] (φ : S → M) (f : S → ι → S) (g : ι → M) :
    ∀ (l : List ι) (_ : ∀ s, ∀ k ∈ l, φ (f s k) = φ s + g k) (s : S),
      φ (l.foldl f s) = φ s + (l.map g).sum
  | [], _, s => by simp
  | k :: l, h, s => by
    rw [List.foldl_cons, foldl_hom φ f g l (fun s k' hk => h s k' (List.mem_cons_of_mem _ hk)),
      h s k (List.mem_cons_self ..), List.map_cons, List.sum_cons, add_assoc]


/-! ### transpose, conjugate, dagger of block matrices -/
namespace Mat
section
variable [CommRing κ]

@[simp] theorem map_node (f : κ → κ) (a b c d : Mat κ n) :
    map f (node a b c d) = node (map f a) (map f b) (map f c) (map f d) := rfl
@[simp] theorem map_leaf (f : κ → κ) (x : κ) : map f (leaf x) = leaf (f x) := rfl
@[simp] theorem transpose_node (a b c d : Mat κ n) :
    transpose (node a b c d) = node (transpose a) (transpose c) (transpose b) (transpose d) := rfl
@[simp] theorem transpose_leaf (x : κ) : transpose (leaf x) = leaf x := rfl

theorem transpose_add : ∀ {n} (A B : Mat κ n), (A + B).transpose = A.transpose + B.transpose
  | _, leaf a, leaf b => rfl
  | _, node a b c d, node a' b' c' d' => by simp [transpose_add]

theorem transpose_mul : ∀ {n} (A B : Mat κ n), (A * B).transpose = B.transpose * A.transpose
  | _, leaf a, leaf b => by simp [mul_comm]
  | _, node a b c d, node a' b' c' d' => by simp [transpose_add, transpose_mul]

theorem transpose_transpose : ∀ {n} (A : Mat κ n), A.transpose.transpose = A
  | _, leaf a => rfl
  | _, node a b c d => by simp [transpose_transpose]

theorem map_add (f : κ → κ) (hf : ∀ x y, f (x + y) = f x + f y) :
    ∀ {n} (A B : Mat κ n), (A + B).map f = A.map f + B.map f
  | _, leaf a, leaf b => by simp [hf]
  | _, node a b c d, node a' b' c' d' => by simp [map_add f hf]

theorem map_mul (f : κ → κ) (hf : ∀ x y, f (x + y) = f x + f y) (hm : ∀ x y, f (x * y) = f x * f y) :
    ∀ {n} (A B : Mat κ n), (A * B).map f = A.map f * B.map f
  | _, leaf a, leaf b => by simp [hm]
  | _, node a b c d, node a' b' c' d' => by simp [map_add f hf, map_mul f hf hm]

theorem map_transpose (f : κ → κ) : ∀ {n} (A : Mat κ n), (A.transpose).map f = (A.map f).transpose
  | _, leaf a => rfl
  | _, node a b c d => by simp [map_transpose f]

theorem map_zero (f : κ → κ) (h0 : f 0 = 0) : ∀ n, (Mat.zero n : Mat κ n).map f = Mat.zero n
  | 0 => by simp [Mat.zero, h0]
  | n + 1 => by simp [Mat.zero, map_zero f h0 n]

theorem map_one (f : κ → κ) (h0 : f 0 = 0) (h1 : f 1 = 1) : ∀ n, (Mat.one n : Mat κ n).map f = Mat.one n
  | 0 => by simp [Mat.one, h1]
  | n + 1 => by simp [Mat.one, map_zero f h0 n, map_one f h0 h1 n]

theorem map_smul (f : κ → κ) (hm : ∀ x y, f (x * y) = f x * f y) (s : κ) :
    ∀ {n} (A : Mat κ n), (s • A).map f = f s • A.map f
  | _, leaf a => by simp [hm]
  | _, node a b c d => by simp [map_smul f hm s]

theorem transpose_zero : ∀ n, (Mat.zero n : Mat κ n).transpose = Mat.zero n
  | 0 => rfl
  | n + 1 => by simp [Mat.zero, transpose_zero n]

theorem transpose_one : ∀ n, (Mat.one n : Mat κ n).transpose = Mat.one n
  | 0 => rfl
  | n + 1 => by simp [Mat.one, transpose_zero n, transpose_one n]

theorem transpose_smul (s : κ) : ∀ {n} (A : Mat κ n), (s • A).transpose = s • A.transpose
  | _, leaf a => rfl
  | _, node a b c d => by simp [transpose_smul s]

theorem transpose_embed (mm : M2 κ) : ∀ n k, (embed n k mm).transpose = embed n k mm.transpose
  | 0, _ => rfl
  | n + 1, 0 => by simp [embed, kron2, transpose_smul, transpose_one, M2.transpose]
  | n + 1, k + 1 => by simp [embed, transpose_zero, transpose_embed mm n k]

theorem map_embed (f : κ → κ) (h0 : f 0 = 0) (h1 : f 1 = 1) (hm : ∀ x y, f (x * y) = f x * f y) (mm : M2 κ) :
    ∀ n k, (embed n k mm).map f = embed n k (mm.map f)
  | 0, _ => by simp [embed, h1]
  | n + 1, 0 => by simp [embed, kron2, map_smul f hm, map_one f h0 h1, M2.map]
  | n + 1, k + 1 => by simp [embed, map_zero f h0, map_embed f h0 h1 hm mm n k]

variable [StarRing κ] [CxLike κ] [LawfulCx κ]

theorem conj_eq_map_star (A : Mat κ n) : A.conj = A.map star := by
  unfold conj; congr 1; funext x; exact LawfulCx.conj_eq x

theorem dagger_mul (A B : Mat κ n) : (A * B).dagger = B.dagger * A.dagger := by
  unfold dagger; rw [conj_eq_map_star, conj_eq_map_star, conj_eq_map_star,
    map_mul star star_add star_mul', transpose_mul]

theorem dagger_embed (mm : M2 κ) (k : Nat) : (embed n k mm).dagger = embed n k mm.dagger := by
  unfold dagger M2.dagger; rw [conj_eq_map_star, map_embed star (star_zero κ) (star_one κ) star_mul', transpose_embed]
  congr 2; unfold M2.conj; congr 1; funext x; exact (LawfulCx.conj_eq x).symm

/-- `(embed k conj(L))ᵀ = (embed k L)†` -/
theorem transpose_embed_conj (mm : M2 κ) (k : Nat) : (embed n k mm.conj).transpose = (embed n k mm).dagger := by
  rw [dagger_embed, transpose_embed]; rfl

end
end Mat

/-! ### block-recursive ↔ row-major -/
section
variable [CommRing κ]

theorem zipNode_add [AddCommGroup β] (P Q P' Q' : Vec (Vec β m) n) :
    Vec.zipWith Vec.node (P + P') (Q + Q') = Vec.zipWith Vec.node P Q + Vec.zipWith Vec.node P' Q' :=
  Vec.ext_get (fun p => by simp)

theorem zipNode_sub [AddCommGroup β] (P Q P' Q' : Vec (Vec β m) n) :
    Vec.zipWith Vec.node (P - P') (Q - Q') = Vec.zipWith Vec.node P Q - Vec.zipWith Vec.node P' Q' :=
  Vec.ext_get (fun p => by simp)

theorem zipNode_smul [AddCommGroup β] [Module κ β] (s : κ) (P Q : Vec (Vec β m) n) :
    Vec.zipWith Vec.node (s • P) (s • Q) = s • Vec.zipWith Vec.node P Q :=
  Vec.ext_get (fun p => by simp)

namespace Mat

theorem toRows_add : ∀ {n} (A B : Mat κ n), (A + B).toRows = A.toRows + B.toRows
  | _, leaf a, leaf b => rfl
  | _, node a b c d, node a' b' c' d' => by simp [toRows, toRows_add, zipNode_add]

theorem toRows_sub : ∀ {n} (A B : Mat κ n), (A - B).toRows = A.toRows - B.toRows
  | _, leaf a, leaf b => rfl
  | _, node a b c d, node a' b' c' d' => by simp [toRows, toRows_sub, zipNode_sub]

theorem toRows_smul (s : κ) : ∀ {n} (A : Mat κ n), (s • A).toRows = s • A.toRows
  | _, leaf a => rfl
  | _, node a b c d => by simp [toRows, toRows_smul s, zipNode_smul]

theorem toRows_zero : ∀ n, (Mat.zero n : Mat κ n).toRows = 0
  | 0 => rfl
  | n + 1 => by
    simp only [Mat.zero, toRows, toRows_zero n]
    exact Vec.ext_get (fun p => by
      simp only [Vec.get]; split <;> simp <;> exact Vec.ext_get (fun q => by simp [Vec.get]))

theorem mulVec_zipNode [AddCommGroup β] [Module κ β] : ∀ {n} (A : Mat κ n) (P Q : Vec (Vec β m) n),
    mulVec A (Vec.zipWith Vec.node P Q) = Vec.zipWith Vec.node (mulVec A P) (mulVec A Q)
  | _, leaf a, .leaf p, .leaf q => rfl
  | _, node a b c d, .node p1 p2, .node q1 q2 => by
    simp [mulVec_zipNode, zipNode_add]

/-- left multiplication: `A · R` in row-major form is `A` acting on the vector of rows -/
theorem mulVec_toRows : ∀ {n} (A R : Mat κ n), mulVec A R.toRows = (A * R).toRows
  | _, leaf a, leaf r => rfl
  | _, node a b c d, node a' b' c' d' => by
    simp [toRows, mulVec_zipNode, mulVec_toRows, toRows_add, zipNode_add]

theorem map_mulVec_zipNode (e f g h : Mat κ n) (P Q : Vec (Vec κ n) m) :
    (Vec.zipWith Vec.node P Q).map (mulVec (node e f g h))
      = Vec.zipWith Vec.node (P.map (mulVec e) + Q.map (mulVec f)) (P.map (mulVec g) + Q.map (mulVec h)) :=
  Vec.ext_get (fun p => by simp)

/-- right multiplication: every row of `R · Bᵀ` is `B` times the row of `R` -/
theorem map_mulVec_toRows : ∀ {n} (B R : Mat κ n), R.toRows.map (mulVec B) = (R * B.transpose).toRows
  | _, leaf b, leaf r => by simp [toRows, mul_comm]
  | _, node e f g h, node a b c d => by
    simp [toRows, map_mulVec_zipNode, map_mulVec_toRows, toRows_add]

theorem transpose_zipNode : ∀ {n m} (P Q : Vec (Vec β m) n),
    Vec.transpose (Vec.zipWith Vec.node P Q) = Vec.node (Vec.transpose P) (Vec.transpose Q)
  | _, _, .leaf p, .leaf q => rfl
  | _, _, .node p1 p2, .node q1 q2 => by
    simp [Vec.transpose, transpose_zipNode]

theorem transpose_toRows : ∀ {n} (R : Mat κ n), Vec.transpose R.toRows = R.transpose.toRows
  | _, leaf r => rfl
  | _, node a b c d => by simp [toRows, Vec.transpose, transpose_zipNode, transpose_toRows]

theorem map_map_toRows (f : κ → κ) : ∀ {n} (R : Mat κ n), R.toRows.map (Vec.map f) = (R.map f).toRows
  | _, leaf r => rfl
  | _, node a b c d => by
    have hz : ∀ {k l} (P Q : Vec (Vec κ k) l), (Vec.zipWith Vec.node P Q).map (Vec.map f)
        = Vec.zipWith Vec.node (P.map (Vec.map f)) (Q.map (Vec.map f)) :=
      fun P Q => Vec.ext_get (fun p => by simp)
    simp [toRows, hz, map_map_toRows f]

theorem toRows_ofRows : ∀ {n} (X : RMat κ n), (ofRows X).toRows = X
  | 0, .leaf (.leaf x) => rfl
  | n + 1, .node t b => by
    have hz : ∀ {l} (P : Vec (Vec κ (n + 1)) l), Vec.zipWith Vec.node (P.map Vec.left) (P.map Vec.right) = P :=
      fun P => Vec.ext_get (fun p => by
        simp only [Vec.get_zipWith, Vec.get_map]; cases (Vec.get P p); rfl)
    simp [ofRows, toRows, toRows_ofRows, hz]

end Mat
end


namespace Mat
section
variable [CommRing κ]

theorem ofRows_toRows : ∀ {n} (R : Mat κ n), ofRows R.toRows = R
  | _, leaf r => rfl
  | _, node a b c d => by
    have hl : ∀ {k l} (P Q : Vec (Vec κ k) l), (Vec.zipWith Vec.node P Q).map Vec.left = P :=
      fun P Q => Vec.ext_get (fun p => by simp [Vec.left])
    have hr : ∀ {k l} (P Q : Vec (Vec κ k) l), (Vec.zipWith Vec.node P Q).map Vec.right = Q :=
      fun P Q => Vec.ext_get (fun p => by simp [Vec.right])
    simp [toRows, ofRows, hl, hr, ofRows_toRows]

theorem toRows_injective {A B : Mat κ n} (h : A.toRows = B.toRows) : A = B := by
  rw [← ofRows_toRows A, ← ofRows_toRows B, h]

end
end Mat

end EmuVerif.TreeVec
