/-
  C01 — emu-sv noiseless runs reproduce the piecewise-constant Hamiltonian dynamics. **PARTIAL.**

  Statement (properties.jsonl): for every noiseless ground-rydberg sequence emu-sv accepts, the
  state and every observable reported at an evaluation time equal exact evolution under the
  piecewise-constant Hamiltonian defined by the sampled drive, to within the Krylov tolerance;
  they also agree with Pulser's reference emulator to within the time-discretisation error.

  Proved here (about `Model.SvLoop`, tied to `SVBackendImpl._run/step/_evolve_step/_compute_dt`
  by the exact schedule correspondence in `harness/props/c01.py`):
    * `run_schedule`        – for every grid, every row table, every interaction callable, every
                              kernel and every scalar type (so also binary64): if the grid has
                              at least `nsteps+1` points and a non-zero final time, `_run`
                              succeeds, exponentiates exactly the sampled piecewise-constant
                              schedule `sched` (in order, once each), offers the state to the
                              observables at index 0 and after every step, and returns
                              `applyAll expStep sched ψ₀`;
    * `schedule_pointwise`  – entry `k` of that schedule is
                              `(k, (t[k+1]−t[k])·coeff, row k, U(t[k]))` and the indices are `0..n-1`;
    * `run_short_grid`, `run_zero_duration`, `run_empty_grid` – the failure behaviour
                              (IndexError / ZeroDivisionError), so nothing is hidden by a default;
    * `error_accumulation`  – in any seminormed group: exact steps additive and norm preserving,
                              computed steps within `ε‖x‖` ⇒ after `n` steps the states differ by
                              at most `((1+ε)ⁿ − 1)‖ψ₀‖`;
    * `end_to_end_partial`  – the two combined on `EuclideanSpace ℂ n` with the exact propagators
                              `exp(-i·dt_k·H_k)` (unitary by C28's theorem, so the isometry
                              hypothesis is *discharged*, not assumed): **given** the per-step
                              Krylov contract, every state the run produces (after every prefix
                              of the schedule, i.e. at every evaluation index) is within
                              `((1+ε)ᵏ − 1)‖ψ₀‖` of the exact product.
  Assumed (named hypotheses, not proved here):
    * `KrylovContract` – C07's accuracy clause (`krylov_exp` returns `exp(A)v` to `ε‖v‖`) composed
      with C06 (`RydbergHamiltonian.__mul__` applies the dense Hermitian `ham row U`);
    * C13 (observables are functions of that state), C14/C21–C23 (grid, rows, matrices are the
      sampled ones); float rounding.
  Not provable / not checkable here: agreement with Pulser's QuTiP reference (not installed) —
  replaced in the harness by a dense `scipy.linalg.expm` propagator. The full statement is
  `FullClaim`; it is *not* proved.
-/
import EmuVerif.Proofs.IdealSched
import EmuVerif.Proofs.IdealAccum
import EmuVerif.Proofs.IdealEuclid

set_option linter.unusedSectionVars false

namespace EmuVerif.Props.C01
open EmuVerif EmuVerif.SvLoop

section Schedule
variable {α ρ μ σ : Type} [Add α] [Sub α] [Mul α] [Div α] [LT α] [DecidableLT α] [OfNat α 0]

/-- **(i) Schedule.** -/
theorem run_schedule (coeff : α) (times : List α) (rows : List ρ) (umat : α → μ)
    (expStep : α → ρ → μ → σ → σ) (s0 : σ) (t0 tl : α) (rest : List α)
    (ht : times = t0 :: rest) (hl : times.getLast? = some tl) (hz : isZero tl = false)
    (hlen : rows.length + 1 ≤ times.length) :
    run coeff times rows umat expStep s0
      = .ok (applyAll expStep (sched coeff umat 0 times rows) s0,
             Ev.obs 0 (t0 / tl) :: evs coeff tl umat 0 times rows)
    ∧ stepsOf (Ev.obs 0 (t0 / tl) :: evs coeff tl umat 0 times rows)
        = sched coeff umat 0 times rows
    ∧ (sched coeff umat 0 times rows).length = rows.length := by
  refine ⟨?_, ?_, sched_length coeff umat rows times 0 hlen⟩
  · unfold run initLast
    rw [hl]
    simp only [hz, Bool.false_eq_true, if_false]
    have hn : normTime tl times 0 = .ok (t0 / tl) := by subst ht; simp [normTime]
    show (do
      let nt0 ← normTime tl times 0
      let r ← (List.range rows.length).foldlM (step coeff tl times rows umat expStep)
            (s0, [Ev.obs 0 nt0])
      pure (r.1, r.2.reverse)) = _
    rw [hn]
    show (do
      let r ← (List.range rows.length).foldlM (step coeff tl times rows umat expStep)
            (s0, [Ev.obs 0 (t0 / tl)])
      pure (r.1, r.2.reverse)) = _
    rw [step_eq_stepO, fold_stepO coeff tl umat expStep rows times 0 _ hlen]
    show Except.ok _ = Except.ok _
    simp
  · simp [stepsOf, stepsOf_evs]

/-- Entry `k` of the schedule and the index sequence. -/
theorem schedule_pointwise (coeff : α) (times : List α) (rows : List ρ) (umat : α → μ)
    (hlen : rows.length + 1 ≤ times.length) :
    (∀ (k : Nat) (hk : k < rows.length),
      (sched coeff umat 0 times rows)[k]? =
        some { idx := k, dt := (times[k + 1]'(by omega) - times[k]'(by omega)) * coeff,
               row := rows[k], u := umat (times[k]'(by omega)) })
    ∧ (sched coeff umat 0 times rows).map (·.idx) = List.range rows.length := by
  constructor
  · intro k hk
    have := sched_getElem? coeff umat rows times 0 k hk (by omega)
    simpa using this
  · rw [sched_idx coeff umat rows times 0 hlen, List.range_eq_range']

/-- `target_times` shorter than `nsteps + 1` → IndexError (after the steps that were possible). -/
theorem run_short_grid (coeff : α) (times : List α) (rows : List ρ) (umat : α → μ)
    (expStep : α → ρ → μ → σ → σ) (s0 : σ) (tl : α)
    (hl : times.getLast? = some tl) (hz : isZero tl = false)
    (hlen : times.length < rows.length + 1) :
    run coeff times rows umat expStep s0 = .error .index := by
  have hne : times ≠ [] := by rintro rfl; simp at hl
  obtain ⟨t0, rest, ht⟩ := List.exists_cons_of_ne_nil hne
  unfold run initLast
  rw [hl]
  simp only [hz, Bool.false_eq_true, if_false]
  have hn : normTime tl times 0 = .ok (t0 / tl) := by subst ht; simp [normTime]
  show (do
    let nt0 ← normTime tl times 0
    let r ← (List.range rows.length).foldlM (step coeff tl times rows umat expStep)
          (s0, [Ev.obs 0 nt0])
    pure (r.1, r.2.reverse)) = _
  rw [hn]
  show (do
    let r ← (List.range rows.length).foldlM (step coeff tl times rows umat expStep)
          (s0, [Ev.obs 0 (t0 / tl)])
    pure (r.1, r.2.reverse)) = _
  rw [step_eq_stepO, fold_stepO_short coeff tl umat expStep rows times 0 _ hne hlen]
  rfl

/-- final time `0.0` → ZeroDivisionError in `__init__`. -/
theorem run_zero_duration (coeff : α) (times : List α) (rows : List ρ) (umat : α → μ)
    (expStep : α → ρ → μ → σ → σ) (s0 : σ) (tl : α)
    (hl : times.getLast? = some tl) (hz : isZero tl = true) :
    run coeff times rows umat expStep s0 = .error .zerodiv := by
  unfold run initLast
  rw [hl]
  simp [hz]
  rfl

/-- empty grid → IndexError in `__init__`. -/
theorem run_empty_grid (coeff : α) (rows : List ρ) (umat : α → μ)
    (expStep : α → ρ → μ → σ → σ) (s0 : σ) :
    run coeff ([] : List α) rows umat expStep s0 = .error .index := rfl

end Schedule

/-! ### (ii) Error accumulation -/

open EmuVerif.Accum in
/-- **(ii)** In any seminormed group: if every exact step is additive and norm preserving and
every computed step is within `ε‖x‖` of it, then after the whole list the computed and the exact
state differ by at most `((1+ε)ⁿ − 1)‖ψ₀‖`. -/
theorem error_accumulation {E : Type*} [SeminormedAddCommGroup E] (ε : ℝ) (hε : 0 ≤ ε)
    (l : List (IsoStep E)) (h : ∀ p ∈ l, ∀ x, ‖p.comp x - p.exact x‖ ≤ ε * ‖x‖) (ψ₀ : E) :
    ‖runComp l ψ₀ - runExact l ψ₀‖ ≤ ((1 + ε) ^ l.length - 1) * ‖ψ₀‖ := by
  have := accumulate_aux ε hε l h ψ₀ ψ₀
  simpa using this

/-! ### (iii) The end-to-end statement -/

section EndToEnd
open EmuVerif.Ideal EmuVerif.Accum

variable {ρ μ n : Type} [Fintype n] [DecidableEq n]

/-- The exact propagator of one schedule entry: `exp(-i · dt · H(row, U))` acting on a state. -/
noncomputable def exactStep (ham : ρ → μ → Matrix n n ℂ) (dt : ℝ) (r : ρ) (u : μ)
    (ψ : EuclideanSpace ℂ n) : EuclideanSpace ℂ n :=
  actE (expU (ham r u) dt) ψ

/-- **Contract assumed of the kernel** (C06 ∘ C07): `stepper.apply(dt, row, U, ψ, tol)` returns
`exp(-i dt H(row,U)) ψ` to within `ε‖ψ‖` (C07 states `ε = 10·krylov_tolerance` plus rounding). -/
def KrylovContract (ham : ρ → μ → Matrix n n ℂ)
    (krylov : ℝ → ρ → μ → EuclideanSpace ℂ n → EuclideanSpace ℂ n) (ε : ℝ) : Prop :=
  ∀ dt r u ψ, ‖krylov dt r u ψ - exactStep ham dt r u ψ‖ ≤ ε * ‖ψ‖

/-- **Full statement of C01 for a concrete stepper** (`krylov` = emu-sv's
`EvolveStateVector.evolve` at the configured tolerance, `ham` = the dense Pulser Hamiltonian):
whenever the run succeeds, the state after every prefix of the schedule — i.e. the state every
observable sees at every evaluation index `k` — is within `((1+ε)ᵏ−1)‖ψ₀‖` of the exact
piecewise-constant evolution. NOT proved for the real stepper: it needs `KrylovContract` (C07's
unprovable accuracy clause). The clause "agrees with Pulser's reference emulator" has no formal
counterpart here. -/
def FullClaim (ham : ρ → μ → Matrix n n ℂ)
    (krylov : ℝ → ρ → μ → EuclideanSpace ℂ n → EuclideanSpace ℂ n) (ε : ℝ) : Prop :=
  ∀ (coeff : ℝ) (times : List ℝ) (rows : List ρ) (umat : ℝ → μ) (ψ₀ : EuclideanSpace ℂ n)
    (r : EuclideanSpace ℂ n × List (Ev ℝ ρ μ)),
    run coeff times rows umat krylov ψ₀ = .ok r →
    ∀ k, ‖applyAll krylov ((sched coeff umat 0 times rows).take k) ψ₀
          - applyAll (exactStep ham) ((sched coeff umat 0 times rows).take k) ψ₀‖
        ≤ ((1 + ε) ^ k - 1) * ‖ψ₀‖

theorem applyAll_eq_run (ham : ρ → μ → Matrix n n ℂ) (hh : ∀ r u, (ham r u).IsHermitian)
    (krylov : ℝ → ρ → μ → EuclideanSpace ℂ n → EuclideanSpace ℂ n)
    (l : List (StepArgs ℝ ρ μ)) (ψ : EuclideanSpace ℂ n) :
    applyAll krylov l ψ
        = runComp (l.map fun a => isoStepOf (ham a.row a.u) (hh _ _) a.dt (krylov a.dt a.row a.u)) ψ
    ∧ applyAll (exactStep ham) l ψ
        = runExact (l.map fun a => isoStepOf (ham a.row a.u) (hh _ _) a.dt (krylov a.dt a.row a.u)) ψ := by
  induction l generalizing ψ with
  | nil => exact ⟨rfl, rfl⟩
  | cons a l ih =>
    simp only [applyAll, runComp, runExact, List.map_cons, List.foldl_cons] at ih ⊢
    exact ⟨(ih _).1, (ih _).2⟩

/-- **(iii) End-to-end, PARTIAL**: the Krylov contract (assumed) gives the full claim. The
isometry hypothesis of (ii) is discharged by C28's unitarity theorem for Hermitian `ham`. -/
theorem end_to_end_partial (ham : ρ → μ → Matrix n n ℂ) (hh : ∀ r u, (ham r u).IsHermitian)
    (krylov : ℝ → ρ → μ → EuclideanSpace ℂ n → EuclideanSpace ℂ n) (ε : ℝ) (hε : 0 ≤ ε)
    (hk : KrylovContract ham krylov ε) : FullClaim ham krylov ε := by
  intro coeff times rows umat ψ₀ r _ k
  set l := (sched coeff umat 0 times rows).take k with hl
  obtain ⟨h1, h2⟩ := applyAll_eq_run ham hh krylov l ψ₀
  rw [h1, h2]
  have hlen : l.length ≤ k := by rw [hl, List.length_take]; exact Nat.min_le_left _ _
  have hb := error_accumulation ε hε
    (l.map fun a => isoStepOf (ham a.row a.u) (hh _ _) a.dt (krylov a.dt a.row a.u))
    (by
      intro p hp x
      obtain ⟨a, _, rfl⟩ := List.mem_map.mp hp
      exact hk a.dt a.row a.u x) ψ₀
  rw [List.length_map] at hb
  refine le_trans hb (mul_le_mul_of_nonneg_right ?_ (norm_nonneg _))
  have : (1 + ε) ^ l.length ≤ (1 + ε) ^ k := pow_le_pow_right₀ (by linarith) hlen
  linarith

end EndToEnd

/-! ### Non-vacuity -/

/-- a concrete non-uniform grid with the SLM switching inside step 1 (ℚ, evaluated by the kernel):
the run succeeds and emits three exponentiations -/
example :
    (run (1/1000 : Rat) [0, 3, 10, 20] ["r0", "r1", "r2"] (fun t => decide (t < 5))
        (fun dt r u s => s ++ [(dt, r, u)]) []).toOption.map (·.1)
      = some [((3 : Rat)/1000, "r0", true), (7/1000, "r1", true), (10/1000, "r2", false)] := by
  decide +kernel

/-- a grid that is too short raises -/
example : (match run (1/1000 : Rat) [0, 3] ["r0", "r1"] (fun t => t) (fun _ _ _ (s : Nat) => s + 1) 0 with
    | .error .index => true | _ => false) = true := by decide +kernel

/-- the hypotheses of (ii) hold for a non-trivial step: exact = identity on ℝ, computed = 1.01·x -/
example : ∃ p : Accum.IsoStep ℝ, (∀ x, ‖p.comp x - p.exact x‖ ≤ 0.01 * ‖x‖) ∧ p.comp 1 ≠ p.exact 1 :=
  ⟨{ exact := id, comp := fun x => 1.01 * x, map_sub := fun _ _ => rfl, norm_map := fun _ => rfl },
   fun x => by
     show ‖1.01 * x - x‖ ≤ 0.01 * ‖x‖
     have : 1.01 * x - x = 0.01 * x := by ring
     rw [this, norm_mul]; norm_num,
   by show (1.01 : ℝ) * 1 ≠ 1; norm_num⟩

/-- `KrylovContract` is satisfiable (by the exact kernel, ε = 0) for the Hermitian Pauli-X drive -/
example : KrylovContract (fun (_ _ : Unit) => (!![0, 1; 1, 0] : Matrix (Fin 2) (Fin 2) ℂ))
    (exactStep fun (_ _ : Unit) => (!![0, 1; 1, 0] : Matrix (Fin 2) (Fin 2) ℂ)) 0 := by
  intro dt r u ψ; simp

example : (!![0, 1; 1, 0] : Matrix (Fin 2) (Fin 2) ℂ).IsHermitian := by
  ext i j; fin_cases i <;> fin_cases j <;> simp

end EmuVerif.Props.C01
