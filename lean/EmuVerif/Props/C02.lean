/-
  C02 — emu-mps TDVP runs reproduce the Pulser Hamiltonian dynamics.   **PARTIAL**

  Statement (properties.jsonl): for every noiseless sequence emu-mps accepts, each reported
  observable matches exact evolution under the sampled piecewise-constant Hamiltonian to within
  the configured precision, with or without qubit-order optimisation.

  Proved here (about `Model.Stepper`, tied to `emu_mps/mps_backend_impl.py` by the exact
  event-stream correspondence of `harness/props/c02.py`), for every chain length, every grid,
  every scalar type:
    * `one_step_sequence`      – for every N ≥ 3 one time step issues exactly
                                 pair(0,dt/2,→) single(1,−dt/2) … pair(N−2,dt,←) … single(1,−dt/2) pair(0,dt/2,←)
                                 (with the bath updates in between) and returns to the sweep-start position;
    * `two_site_step`          – the N = 2 corner case: one pair(0,dt,←);
    * `run_no_assert`          – from `init()`, for every number of `progress()` calls: no assert of
                                 `_evolve`, no access to an empty bath stack, no `init_baths` assert, no index
                                 error; and at every call the bath stacks and the orthogonality centre are the
                                 ones the position dictates (`CallInv`);
    * `step_installs_next_row` – completing step k installs drive row k+1 and queries the interaction
                                 matrix at `0.5·(t_{k+1}+t_{k+1})` = the *start* of step k+1
                                 (`query_time_later_steps`), whereas `init()` queries it at the *mid-point*
                                 of step 0 (`init_installs_row0`, `query_time_first_step`) — mirrored as written;
    * `installed_relabelled`   – the drive row and the interaction matrix handed to `update_H` / `make_H`
                                 are the register-order ones pulled back along one and the same map
                                 site j ↦ atom perm[j] (this is what commit 4109696 established; the
                                 tree before it is `Variant.asFound`, refuted by `asFound_counterexample`).
    * `installedString_relabelled`, `same_map` – a user-supplied initial state is rewritten into site order with the
                                 same map (site j ← atom perm[j]) as drives and interactions; the inverse map is refuted
                                 on a 3-cycle (`inverse_state_counterexample`).
  Not proved (assumed, validated numerically by the dense-evolution oracle of c02.py):
    the accuracy of two-site TDVP projector splitting, of the Krylov exponential and of the
    truncation — `DynamicsClaim` below is the full statement, kept as a `Prop`.
-/
import EmuVerif.Proofs.Stepper
import EmuVerif.Proofs.Scalar

set_option linter.unusedSectionVars false
set_option linter.unusedVariables false

namespace EmuVerif.Props.C02
open EmuVerif EmuVerif.Stepper

section machine
variable {α : Type} [Add α] [Sub α] [Mul α] [Div α] [Neg α] [LT α] [DecidableLT α]
  [LE α] [DecidableLE α] [OfNat α 0] [OfNat α 1] [OfNat α 2] [OfNat α 3] [OfNat α 4]

/-- The machine is at the start of a sweep. -/
structure SweepStart (c : Cfg α) (s : St α) : Prop where
  l2r : s.l2r = true
  sweep : s.sweep = 0
  lb : s.lb = 1
  rb : s.rb + 1 = c.n
  centre : s.centre = 0

/-- The symmetric sequence of one time step of length `dt` on `n` sites. -/
def symSeq (n : Nat) (dt : α) : List (Ev α) :=
  (List.range (n - 2)).flatMap (fwdEvs dt) ++ [.pair (n - 2) dt false]
    ++ (List.range (n - 2)).reverse.flatMap (bwdEvs dt)

theorem sweepStart_eq (c : Cfg α) (s : St α) (h : SweepStart c s) (m : Nat) (hn : c.n = m + 3) :
    s = posSt s true 0 (m + 2) := by
  obtain ⟨l2r, sweep, step, lb, rb, centre, cur, tgt⟩ := s
  obtain ⟨h1, h2, h3, h4, h5⟩ := h
  simp only at h1 h2 h3 h4 h5
  subst h1; subst h2; subst h3; subst h5
  have : rb = m + 2 := by omega
  subst this
  rfl

/-- **One time step = the symmetric sweep**, for every `N ≥ 3`: the calls issued between the
start of a sweep and the `sweep_complete` call are exactly `symSeq`, every one of them finds the
bath stacks and the orthogonality centre it needs, and the machine is back where it started. -/
theorem one_step_sequence (c : Cfg α) (s : St α) (hn : 3 ≤ c.n) (hs : SweepStart c s) :
    ∃ recs, sweepCore c s = .ok (s, recs)
      ∧ recs.map Rec.ev = .sweep s.step s.cur s.tgt :: symSeq c.n (s.tgt - s.cur)
      ∧ ∀ r ∈ recs, CallInv c.n r := by
  obtain ⟨m, hm⟩ : ∃ m, c.n = m + 3 := ⟨c.n - 3, by omega⟩
  have e := sweepStart_eq c s hs m hm
  have h := sweepCore_closed c s m hm
  rw [← e] at h
  refine ⟨_, h, ?_, ?_⟩
  · have e1 : c.n - 2 = m + 1 := by omega
    simp [symSeq, fwdFrom_evs, bwdFrom_evs, midRec, e1, List.range_eq_range']
  · intro r hr
    rcases List.mem_cons.mp hr with e | hr
    · subst e; exact callInv_sweepMark _ _ _ _ _ _ _
    rcases List.mem_append.mp hr with hr | hr
    · exact callInv_fwdFrom c.n _ (m + 1) 0 (by omega) r hr
    rcases List.mem_cons.mp hr with e | hr
    · subst e; exact callInv_midRec c.n _ (m + 1) (by omega)
    · exact callInv_bwdFrom c.n _ (m + 1) 1 (by omega) r hr

/-- **The `N = 2` corner case**: one pair update over the whole step, centre left on site 0. -/
theorem two_site_step (c : Cfg α) (s : St α) (hn : c.n = 2) (hs : SweepStart c s) :
    sweepCore c s = .ok (s, [⟨.sweep s.step s.cur s.tgt, 1, 1, 0⟩, ⟨.pair 0 (s.tgt - s.cur) false, 1, 1, 0⟩]) := by
  obtain ⟨l2r, sweep, step, lb, rb, centre, cur, tgt⟩ := s
  obtain ⟨h1, h2, h3, h4, h5⟩ := hs
  simp only at h1 h2 h3 h4 h5
  subst h1; subst h2; subst h3; subst h5
  have : rb = 1 := by omega
  subst this
  have h := marked_two c ⟨true, 0, step, 1, 1, 0, cur, tgt⟩ hn
  unfold sweepCore
  have e : 2 * c.n + (⟨true, 0, step, 1, 1, 0, cur, tgt⟩ : St α).sweep + 3 = 6 + 1 := by simp; omega
  rw [e]
  exact sweepLoop_last 6 [] h

/-! ### The whole run never trips an assert -/

theorem progress_reach (c : Cfg α) (s : St α) (hg : Grid c) (hr : Reach c s) :
    ∃ s' evs, progress c s = .ok (s', evs) ∧ Reach c s' ∧ ∀ r ∈ evs, CallInv c.n r := by
  unfold progress
  by_cases hf : finished c s = true
  · exact ⟨s, [], by simp [hf], hr, by simp⟩
  · simp only [hf, Bool.false_eq_true, if_false]
    obtain ⟨s1, evs, sc, h1, hr1, hc1, _, _, _, hsc⟩ := marked_reach c s hr
    rw [h1]
    cases sc with
    | false => exact ⟨s1, evs, by simp, hr1, hc1⟩
    | true =>
      obtain ⟨h0, hl⟩ := hsc rfl
      have hr1' : Reach c { s1 with cur := s1.tgt } := ⟨hr1.sweepLe, hr1.lb, hr1.rb, hr1.centre, hr1.r2l⟩
      obtain ⟨s2, evs2, h2, hr2, _, _, _, _, hc2⟩ :=
        timestepComplete_reach c { s1 with cur := s1.tgt } hg hr1' h0 hl
      refine ⟨s2, evs ++ evs2, by simp [sweepComplete, h2], hr2, ?_⟩
      intro r hm
      rcases List.mem_append.mp hm with hm | hm
      · exact hc1 r hm
      · exact callInv_of_noCall c.n r (hc2 r hm)

theorem progressN_reach (c : Cfg α) (hg : Grid c) :
    ∀ (k : Nat) (s : St α) (acc : List (Rec α)), Reach c s →
      ∃ s' evs, progressN c k s acc = (s', acc ++ evs, none) ∧ Reach c s' ∧ ∀ r ∈ evs, CallInv c.n r
  | 0, s, acc, hr => ⟨s, [], by simp [progressN], hr, by simp⟩
  | k + 1, s, acc, hr => by
    obtain ⟨s1, evs1, h1, hr1, hc1⟩ := progress_reach c s hg hr
    obtain ⟨s2, evs2, h2, hr2, hc2⟩ := progressN_reach c hg k s1 (acc ++ evs1) hr1
    refine ⟨s2, evs1 ++ evs2, by simp [progressN, h1, h2], hr2, ?_⟩
    intro r hm
    rcases List.mem_append.mp hm with hm | hm
    · exact hc1 r hm
    · exact hc2 r hm

/-- **No assert can fire.** For every `N ≥ 2`, every grid with an entry per step end, and every
number `k` of `progress()` calls after `init()`: the run is error-free, and every `_evolve` /
bath call it issues satisfies `CallInv`. -/
theorem run_no_assert (c : Cfg α) (hn : 2 ≤ c.n) (hg : Grid c) (h1 : 1 ≤ c.nsteps) (k : Nat) :
    ∃ s0 evs0 s' evs, init c = .ok (s0, evs0) ∧ SweepStart c s0
      ∧ progressN c k s0 evs0 = (s', evs0 ++ evs, none) ∧ ∀ r ∈ evs, CallInv c.n r := by
  have hlt : 1 < c.times.length := by unfold Grid at hg; omega
  have ht : c.times[1]? = some c.times[1] := List.getElem?_eq_getElem hlt
  have h2 : ¬ c.n < 2 := by omega
  have hi : init c = .ok (({ l2r := true, sweep := 0, step := 0, lb := 1, rb := c.n - 1, centre := 0,
                             cur := 0, tgt := c.times[1] } : St α),
                          [⟨.hNoNoise 0, 0, 0, 0⟩, ⟨.fill 0, 0, 0, 0⟩,
                           ⟨.newH 0 ((half : α) * ((0 : α) + c.times[1])), 0, 0, 0⟩]) := by
    simp only [init, ht, initBaths, h2, if_false]
    rfl
  have hr : Reach c ({ l2r := true, sweep := 0, step := 0, lb := 1, rb := c.n - 1, centre := 0,
                       cur := 0, tgt := c.times[1] } : St α) :=
    ⟨by simpa using hn, rfl, by simp; omega, rfl, by simp⟩
  obtain ⟨s', evs, h, _, hc⟩ := progressN_reach c hg k _ _ hr
  exact ⟨_, _, s', evs, hi, ⟨rfl, rfl, rfl, by simp; omega, rfl⟩, h, hc⟩

/-! ### Which drive row / interaction query is installed for which step -/

/-- `init()` installs drive row 0 and queries the interaction matrix at `0.5·(0 + t₁)`. -/
theorem init_installs_row0 (c : Cfg α) (s0 : St α) (evs : List (Rec α)) (h : init c = .ok (s0, evs)) :
    ∃ t1, c.times[1]? = some t1 ∧ evs.map Rec.ev = [.hNoNoise 0, .fill 0, .newH 0 (half * (0 + t1))]
      ∧ s0.cur = 0 ∧ s0.tgt = t1 ∧ s0.step = 0 := by
  unfold init at h
  cases ht : c.times[1]? with
  | none => simp [ht] at h
  | some t1 =>
    simp only [ht] at h
    by_cases h2 : c.n < 2
    · simp [initBaths, h2] at h
    · simp only [initBaths, h2, if_false, Except.ok.injEq, Prod.mk.injEq] at h
      obtain ⟨e1, e2⟩ := h
      subst e1; subst e2
      exact ⟨t1, rfl, rfl, rfl, rfl, rfl⟩

/-- Completing step `k` (not the last): results are filled at `t_{k+1}`, then drive row `k+1` is
installed with the interaction matrix queried at `0.5·(t_{k+1} + t_{k+1})` — `target_time` has
not been advanced yet when `_get_interaction_matrix` runs — and the next target is `t_{k+2}`. -/
theorem step_installs_next_row (c : Cfg α) (s : St α) (hn : 2 ≤ c.n) (hc : c.noisy = false)
    (h : s.step + 1 < c.nsteps) (t : α) (ht : c.times[s.step + 2]? = some t) :
    ∃ s' evs, sweepComplete c s = .ok (s', evs)
      ∧ evs.map Rec.ev = [.fill s.tgt, .newH (s.step + 1) (half * (s.tgt + s.tgt)), .stepDone s.step]
      ∧ s'.cur = s.tgt ∧ s'.tgt = t ∧ s'.step = s.step + 1 ∧ s'.lb = 1 ∧ s'.rb = c.n - 1 := by
  refine ⟨_, _, timestepComplete_cont c { s with cur := s.tgt } t hn h ht, ?_, rfl, rfl, rfl, rfl, rfl⟩
  simp [preRecs, hc, St.snap]

/-- Completing the last step: results are filled, nothing is installed. -/
theorem last_step_installs_nothing (c : Cfg α) (s : St α) (hc : c.noisy = false)
    (h : ¬ s.step + 1 < c.nsteps) :
    ∃ s' evs, sweepComplete c s = .ok (s', evs)
      ∧ evs.map Rec.ev = [.fill s.tgt, .stepDone s.step] ∧ s'.step = s.step + 1 := by
  refine ⟨_, _, timestepComplete_last c { s with cur := s.tgt } h, ?_, rfl⟩
  simp [preRecs, hc, St.snap]

end machine

/-! ### The same two query times over an ordered field -/
section field
variable {α : Type} [Field α] [LinearOrder α] [IsStrictOrderedRing α]

/-- every step but the first uses the interaction matrix of its *start* time -/
theorem query_time_later_steps (t : α) : (half : α) * (t + t) = t := by
  unfold half; ring

/-- the first step uses the interaction matrix of its *mid-point* -/
theorem query_time_first_step (t1 : α) : (half : α) * (0 + t1) = t1 / 2 := by
  unfold half; ring

end field

/-! ### The permutation applied to what is installed -/
section perm
variable {β : Type}

/-- entry `(i, j)` of a nested-list matrix -/
def at2 (m : List (List β)) (i j : Nat) : Option β := (m[i]?).bind (fun r => r[j]?)

/-- The site-order data are the register-order data pulled back along `site j ↦ atom perm[j]`:
this is `P·H_k·P†` at the level of the coefficients that `update_H` / `make_H` receive. -/
def Relabelled (perm : List Nat) (siteDrive : List β) (siteU : List (List β))
    (atomDrive : List β) (atomU : List (List β)) : Prop :=
  (∀ (i a : Nat), perm[i]? = some a → siteDrive[i]? = atomDrive[a]? ∧ (atomDrive[a]?).isSome)
  ∧ (∀ (i j a b : Nat), perm[i]? = some a → perm[j]? = some b →
        at2 siteU i j = at2 atomU a b ∧ (at2 atomU a b).isSome)

theorem mapOpt_get {γ : Type} (f : γ → Option β) :
    ∀ (l : List γ) (l' : List β), mapOpt f l = some l' →
      ∀ (i : Nat) (x : γ), l[i]? = some x → ∃ y, f x = some y ∧ l'[i]? = some y
  | [], _, _, i, x, hx => by simp at hx
  | a :: l, l', h, i, x, hx => by
    unfold mapOpt at h
    cases hfa : f a with
    | none => simp [hfa] at h
    | some y0 =>
      cases hl : mapOpt f l with
      | none => simp [hfa, hl] at h
      | some ys =>
        simp only [hfa, hl, Option.some.injEq] at h
        subst h
        cases i with
        | zero =>
          simp only [List.getElem?_cons_zero, Option.some.injEq] at hx
          subst hx
          exact ⟨y0, hfa, by simp⟩
        | succ i =>
          simp only [List.getElem?_cons_succ] at hx
          obtain ⟨y, h1, h2⟩ := mapOpt_get f l ys hl i x hx
          exact ⟨y, h1, by simpa using h2⟩

/-- **The Hamiltonian installed for step `k` (repaired = current tree)**: drive row `k` with its
columns permuted exactly like the interaction matrix — site `j` carries atom `perm[j]` in both. -/
theorem installed_relabelled (perm : List Nat) (drive : List (List β)) (u : List (List β)) (k : Nat)
    (row d : List β) (m : List (List β)) (hrow : drive[k]? = some row)
    (hd : installedDrive .repaired perm drive k = some d) (hm : installedInteraction perm u = some m) :
    Relabelled perm d m row u := by
  simp only [installedDrive, hrow, permuteRow] at hd
  unfold installedInteraction at hm
  cases hrows : permuteRow perm u with
  | none => simp [hrows] at hm
  | some rows =>
    simp only [hrows] at hm
    unfold permuteRow at hrows
    unfold Relabelled
    refine ⟨?_, ?_⟩
    · intro i a hi
      obtain ⟨y, h1, h2⟩ := mapOpt_get _ perm d hd i a hi
      exact ⟨by rw [h2, h1], by simp [h1]⟩
    · intro i j a b hi hj
      obtain ⟨ra, h1, h2⟩ := mapOpt_get _ perm rows hrows i a hi
      obtain ⟨mi, h3, h4⟩ := mapOpt_get _ rows m hm i ra h2
      unfold permuteRow at h3
      obtain ⟨y, h5, h6⟩ := mapOpt_get _ perm mi h3 j b hj
      simp [at2, h4, h1, h6, h5]

/-- The statement `installed_relabelled` makes, for a variant of the constructor. -/
def InstalledRelabelled (v : Variant) : Prop :=
  ∀ (perm : List Nat) (drive u : List (List Nat)) (k : Nat) (row d : List Nat) (m : List (List Nat)),
    drive[k]? = some row → installedDrive v perm drive k = some d → installedInteraction perm u = some m →
    Relabelled perm d m row u

theorem repaired_relabelled : InstalledRelabelled .repaired :=
  fun perm drive u k row d m h1 h2 h3 => installed_relabelled perm drive u k row d m h1 h2 h3

/-- **Defect D1 (fixed by 4109696), as a theorem about the as-found constructor**: three atoms,
site order `[2, 0, 1]`, a detuning of 12 on atom 1 only — the as-found code hands `update_H` the
row `[0, 12, 0]`, i.e. puts the detuning on site 1, which carries atom 0. -/
theorem asFound_counterexample : ¬ InstalledRelabelled .asFound := by
  intro h
  have := (h [2, 0, 1] [[0, 12, 0]] [[0, 1, 2], [1, 0, 3], [2, 3, 0]] 0 [0, 12, 0] [0, 12, 0]
    [[0, 2, 3], [2, 0, 1], [3, 1, 0]] rfl rfl (by decide)).1 1 0 rfl
  simp at this

/-! ### The initial state uses the same map -/

/-- site `i` of the rewritten basis string carries the symbol of atom `perm[i]` -/
def StringRelabelled (perm : List Nat) (site atom : List β) : Prop :=
  ∀ (i a : Nat), perm[i]? = some a → site[i]? = atom[a]? ∧ (atom[a]?).isSome

/-- **The user-supplied initial state is rewritten with `qubit_permutation` itself**: site `i` ← atom `perm[i]`. -/
theorem installedString_relabelled (perm : List Nat) (b s : List β)
    (h : installedString .direct perm b = some s) : StringRelabelled perm s b := by
  intro i a hi
  simp only [installedString, permuteRow] at h
  obtain ⟨y, h1, h2⟩ := mapOpt_get _ perm s h i a hi
  exact ⟨by rw [h2, h1], by simp [h1]⟩

/-- **State, drives and interactions are relabelled by one and the same map** site `j` ↦ atom `perm[j]`:
the Hamiltonian installed for step `k` is `P·H_k·P†` *and* the initial state is `P·ψ₀` for the same `P`. -/
theorem same_map (perm : List Nat) (drive u : List (List β)) (k : Nat) (row d : List β) (m : List (List β))
    (b s : List β) (hrow : drive[k]? = some row)
    (hd : installedDrive .repaired perm drive k = some d) (hm : installedInteraction perm u = some m)
    (hs : installedString .direct perm b = some s) :
    Relabelled perm d m row u ∧ StringRelabelled perm s b :=
  ⟨installed_relabelled perm drive u k row d m hrow hd hm, installedString_relabelled perm b s hs⟩

/-- the statement of `installedString_relabelled` for a variant of `init_initial_state` -/
def StateRelabelledStmt (v : StateMap) : Prop :=
  ∀ (perm : List Nat) (b s : List Nat), installedString v perm b = some s → StringRelabelled perm s b

theorem direct_state_relabelled : StateRelabelledStmt .direct :=
  fun perm b s h => installedString_relabelled perm b s h

/-- **The inverse map is wrong as soon as the site order has a 3-cycle**: site order `[1, 2, 0]`, atoms carrying
10, 20, 30 — with `inv_permutation(perm) = [2, 0, 1]` site 0 gets atom 2's symbol although it carries atom 1.
(On identity, swaps and reversals the two maps coincide, which is why such a slip survives symmetric tests.) -/
theorem inverse_state_counterexample : ¬ StateRelabelledStmt .inverse := by
  intro h
  have := (h [1, 2, 0] [10, 20, 30] [30, 10, 20] (by decide) 0 1 rfl).1
  simp at this

/-- … and the two maps do coincide on a self-inverse order (here a reversal), so only ≥ 3-cycles tell them apart -/
example : installedString .inverse [3, 2, 1, 0] [10, 20, 30, 40] = installedString .direct [3, 2, 1, 0] [10, 20, 30, 40] := by
  decide

example : installedString .direct [1, 2, 0] [10, 20, 30] = some [20, 30, 10] := by decide

end perm

/-! ### The full statement (not proved) -/

/-- **C02 at full strength**, schematically: `Input` ranges over the noiseless sequences the
back-end accepts together with a configuration; `mps inp` are the observables `run_mps` reports,
`exact inp` the same observables under exact evolution `∏ₖ exp(−i·Hₖ·Δtₖ)` with the sampled
piecewise-constant Hamiltonian; `dist` an absolute error. The theorems above establish *which*
`Hₖ` and which sequence of local updates the back-end uses; that the local updates (two-site
TDVP projector splitting + Krylov exponential + SVD truncation) approximate `exp(−i·Hₖ·Δtₖ)`
to within `precision` is **assumed** and validated numerically (c02.py, dense reference). -/
def DynamicsClaim {Input Obs : Type} (accepted : Input → Prop) (mps exact : Input → List Obs)
    (dist : Obs → Obs → Rat) (precision : Input → Rat) : Prop :=
  ∀ inp, accepted inp → List.Forall₂ (fun a b => dist a b ≤ precision inp) (mps inp) (exact inp)

/-! ### Non-vacuity -/

/-- a 5-site sweep, computed: 4 + 3·3 + 1 + 3·3 … the closed form is what the machine does -/
example : (match sweepCore (α := Rat) ⟨5, 3, [0, 10, 20, 30], false⟩ ⟨true, 0, 0, 1, 4, 0, 0, 10⟩ with
    | .ok (_, recs) => recs.length | .error _ => 0) = 20 := by decide +kernel

example : SweepStart (α := Rat) ⟨5, 3, [0, 10, 20, 30], false⟩ ⟨true, 0, 0, 1, 4, 0, 0, 10⟩ :=
  ⟨rfl, rfl, rfl, rfl, rfl⟩

example : Grid (α := Rat) ⟨5, 3, [0, 10, 20, 30], false⟩ := by simp [Grid]

/-- the asserts are live: a mis-placed orthogonality centre is refused -/
example : (match progressCore (α := Rat) ⟨5, 3, [0, 10, 20, 30], false⟩ ⟨true, 0, 0, 1, 4, 2, 0, 10⟩ with
    | .error e => decide (e = Err.evolveAssert) | .ok _ => false) = true := by decide +kernel

/-- the hypotheses of `installed_relabelled` are satisfiable with a non-trivial permutation -/
example : installedDrive .repaired [2, 0, 1] [[0, 12, 0]] 0 = some [0, 0, 12] := by decide
example : installedInteraction [2, 0, 1] [[0, 1, 2], [1, 0, 3], [2, 3, 0]]
    = some [[0, 2, 3], [2, 0, 1], [3, 1, 0]] := by decide

end EmuVerif.Props.C02
