/-
  C03 — Results are independent of atom labelling and internal qubit reordering.

  Statement (properties.jsonl): relabelling or reordering the atoms of a register permutes every
  per-atom result (occupations, correlations, bitstring positions) the same way; energies and
  bitstring distributions are unchanged up to the configured precision; the qubit-order
  optimisation never changes any reported value, and results always list atoms in register order.

  **PARTIAL.** The end-to-end claim is `C03_full` below (a `def … : Prop`, *not* proved): it
  needs the emulator itself to be equivariant under relabelling (`Equivariant`: the run on the
  permuted problem reports the site-order view of the run on the original problem — for an ideal
  solver this is `exp(P H P†) = P exp(H) P†`; for the real one it holds only up to the configured
  precision, and in the tree as found it is broken by defects D1/D2/D3 of DESIGN §6, which are
  being repaired separately). What is proved here, at full strength, for every `n`, every
  permutation and every payload, is the **bookkeeping** around the solver (`Model.Perm`, tied to
  `permutations.py` and `permute_results` by the exact correspondence check):

    * `same_gather`, `same_gather_matrix` – `permute_list/tuple/string/tensor` are the same gather
                                     `k ↦ x[p[k]]` (matrices: `(a,b) ↦ M[p[a]][p[b]]`), and raise
                                     exactly when an index is out of range;
    * `inverse_two_sided`          – `inv_permutation` of a permutation is a permutation and a
                                     two-sided inverse (`p[inv] = inv[p] = arange`), `inv(inv p) = p`;
    * `composition_law`, `composition_law_matrix`
                                   – `permute(permute(x,p),q) = permute(x, permute(p,q))`;
    * `inverse_undoes_permuting`   – `permute(permute(x,p), inv p) = x = permute(permute(x, inv p), p)`
                                     (sequences and square matrices);
    * `unpermute_results_register_order`
                                   – `permute_results` applied to what a run in site order reports
                                     (`atom_order = permute_tuple(qubit_ids, p)`, occupations,
                                     correlation matrices and bitstring keys gathered by `p`) returns
                                     exactly the register-order results: `atom_order = qubit_ids`,
                                     all values and all bitstring counts unchanged, other tags untouched;
    * `results_untouched_when_disabled` – with reordering off the results are returned as they are;
    * `reordering_only_with_permutable_observables`
                                   – the effective `optimize_qubit_ordering` is on only if every
                                     observable tag is one that `permute_results` un-permutes or a
                                     per-register scalar;
    * `C03_partial`                – `Equivariant run → C03_full run` (the bookkeeping closes the gap
                                     exactly when the solver is equivariant).
-/
import EmuVerif.Proofs.Perm

namespace EmuVerif.Props.C03
open EmuVerif EmuVerif.Perm

variable {β : Type}

/-! ### the helpers are the same gather -/

/-- **`permute_list`, `permute_tuple`, `permute_string` and 1-D `permute_tensor` are one and the
same gather**: they raise exactly when some index is out of range, and otherwise entry `k` of the
result is entry `p[k]` of the input. -/
theorem same_gather (xs : List β) (s : String) (p : List Nat) :
    permuteTuple xs p = permuteList xs p ∧
    permuteVec xs p = permuteList xs p ∧
    permuteString s p = (permuteList s.toList p).map String.ofList ∧
    (permuteList xs p = none ↔ ∃ i ∈ p, xs.length ≤ i) ∧
    (∀ ys, permuteList xs p = some ys →
      ys.length = p.length ∧ ∀ k : Nat, ys[k]? = p[k]?.bind (fun i => xs[i]?)) := by
  refine ⟨rfl, (permuteList_eq xs p).symm, rfl, ?_, ?_⟩
  · rw [permuteList_eq]
    constructor
    · intro hnone
      by_contra hcon
      have : inRange xs.length p = true := inRange_iff.mpr (fun i hi => by
        by_contra hlt
        exact hcon ⟨i, hi, not_lt.mp hlt⟩)
      simp [this] at hnone
    · rintro ⟨i, hi, hle⟩
      have : ¬ inRange xs.length p = true :=
        fun hr => absurd (inRange_iff.mp hr i hi) (not_lt.mpr hle)
      simp [this]
  · intro ys h
    rw [permuteList_eq] at h
    split_ifs at h with hr
    simp only [Option.some.injEq] at h
    subst h
    exact ⟨length_gatherT (inRange_iff.mp hr), getElem?_gatherT (inRange_iff.mp hr)⟩

/-- **2-D `permute_tensor` applies the same gather to rows and columns**:
`permute(M, p)[a][b] = M[p[a]][p[b]]`; `ValueError` iff not square, `IndexError` iff an index is
out of range. -/
theorem same_gather_matrix (m : List (List β)) (p : List Nat) :
    (permuteMat m p = .error .valueError ↔ isSquare m = false) ∧
    (permuteMat m p = .error .indexError ↔ isSquare m = true ∧ (∃ i ∈ p, m.length ≤ i)) ∧
    (∀ r, permuteMat m p = .ok r → IsSquareN m.length m ∧ r = permuteMatT m p ∧
      ∀ a b : Nat, r[a]?.bind (fun row => row[b]?) =
        p[a]?.bind (fun i => p[b]?.bind (fun j => m[i]?.bind (fun row => row[j]?)))) := by
  have hoor : (∃ i ∈ p, m.length ≤ i) ↔ inRange m.length p = false := by
    constructor
    · rintro ⟨i, hi, hle⟩
      by_contra hr
      exact absurd (inRange_iff.mp (by simpa using hr) i hi) (not_lt.mpr hle)
    · intro hr
      by_contra hcon
      have : inRange m.length p = true := inRange_iff.mpr (fun i hi => by
        by_contra hlt
        exact hcon ⟨i, hi, not_lt.mp hlt⟩)
      simp [this] at hr
  rw [hoor]
  refine ⟨?_, ?_, ?_⟩
  · cases hs : isSquare m <;> cases hr : inRange m.length p <;> simp [permuteMat, hs, hr]
  · cases hs : isSquare m <;> cases hr : inRange m.length p <;> simp [permuteMat, hs, hr]
  · intro r hrr
    unfold permuteMat at hrr
    split_ifs at hrr with hs hr
    simp only [Except.ok.injEq] at hrr
    subst hrr
    have hs' : isSquare m = true := by simpa using hs
    have hr' : inRange m.length p = true := by simpa using hr
    exact ⟨isSquare_iff.mp hs', rfl,
      getElem?_permuteMatT (isSquare_iff.mp hs') (inRange_iff.mp hr')⟩

/-! ### inverse and composition -/

/-- **`inv_permutation` is a two-sided inverse.** -/
theorem inverse_two_sided {n : Nat} {p : List Nat} (h : IsPerm n p) :
    ∃ q, invPermutation p = some q ∧ IsPerm n q ∧
      permuteVec p q = some (List.range n) ∧ permuteVec q p = some (List.range n) ∧
      invPermutation q = some p := by
  have hq := h.inv
  refine ⟨invPermT p, ?_, hq, ?_, ?_, ?_⟩
  · simp [invPermutation, isPermOf_iff.mpr (h.1 ▸ h)]
  · have : inRange p.length (invPermT p) = true := inRange_iff.mpr (by rw [h.1]; exact hq.2.1)
    simp [permuteVec, this, gatherT_inv_right h]
  · have : inRange (invPermT p).length p = true :=
      inRange_iff.mpr (by rw [length_invPermT, h.1]; exact h.2.1)
    simp [permuteVec, this, gatherT_inv_left h]
  · have : isPermOf (invPermT p).length (invPermT p) = true := isPermOf_iff.mpr (hq.1 ▸ hq)
    simp [invPermutation, this, invPermT_invPermT h]

/-- **Composition law** (direction as in the code, `acc = permute_tensor(acc, opt)`):
permuting by `p` and then by `q` is permuting once by `permute(p, q)`, i.e. by `k ↦ p[q[k]]`. -/
theorem composition_law {xs ys zs : List β} {p q : List Nat}
    (h1 : permuteList xs p = some ys) (h2 : permuteList ys q = some zs) :
    ∃ r, permuteVec p q = some r ∧ permuteList xs r = some zs := by
  rw [permuteList_eq] at h1 h2
  split_ifs at h1 with hp
  split_ifs at h2 with hq
  simp only [Option.some.injEq] at h1 h2
  subst h1; subst h2
  have hp' := inRange_iff.mp hp
  have hq' : ∀ i ∈ q, i < p.length := by
    rw [← length_gatherT hp']; exact inRange_iff.mp hq
  refine ⟨gatherT p q, by simp [permuteVec, inRange_iff.mpr hq'], ?_⟩
  rw [permuteList_eq]
  have : inRange xs.length (gatherT p q) = true := by
    rw [inRange_iff]
    intro i hi
    obtain ⟨j, _, hj⟩ := mem_gatherT hi
    exact hp' i (List.mem_of_getElem? hj)
  simp [this, gatherT_gatherT hp' hq']

/-- Composition law for square matrices. -/
theorem composition_law_matrix {m m1 m2 : List (List β)} {p q : List Nat}
    (h1 : permuteMat m p = .ok m1) (h2 : permuteMat m1 q = .ok m2) :
    ∃ r, permuteVec p q = some r ∧ permuteMat m r = .ok m2 := by
  obtain ⟨hsq, e1, _⟩ := (same_gather_matrix m p).2.2 m1 h1
  obtain ⟨_, e2, _⟩ := (same_gather_matrix m1 q).2.2 m2 h2
  have hp : ∀ i ∈ p, i < m.length := by
    unfold permuteMat at h1
    split_ifs at h1 with a b
    exact inRange_iff.mp (by simpa using b)
  have hq : ∀ i ∈ q, i < p.length := by
    unfold permuteMat at h2
    split_ifs at h2 with a b
    have := inRange_iff.mp (by simpa using b)
    rw [e1] at this
    simpa [permuteMatT, length_gatherT hp] using this
  refine ⟨gatherT p q, by simp [permuteVec, inRange_iff.mpr hq], ?_⟩
  have hr : inRange m.length (gatherT p q) = true := by
    rw [inRange_iff]
    intro i hi
    obtain ⟨j, _, hj⟩ := mem_gatherT hi
    exact hp i (List.mem_of_getElem? hj)
  unfold permuteMat
  simp only [isSquare_iff.mpr hsq, hr, Bool.not_true, Bool.false_eq_true, if_false,
    Except.ok.injEq]
  rw [e2, e1, permuteMatT_permuteMatT hsq hp hq]

/-- **Inverting undoes permuting** (both ways; sequences and square matrices). -/
theorem inverse_undoes_permuting {n : Nat} {p : List Nat} (h : IsPerm n p) :
    (∀ xs : List β, xs.length = n →
      (permuteList xs p).bind (fun ys => permuteList ys (invPermT p)) = some xs ∧
      (permuteList xs (invPermT p)).bind (fun ys => permuteList ys p) = some xs) ∧
    (∀ m : List (List β), IsSquareN n m →
      permuteMat m p = .ok (permuteMatT m p) ∧
      permuteMat (permuteMatT m p) (invPermT p) = .ok m) := by
  have hq := h.inv
  constructor
  · intro xs hx
    have r1 : inRange xs.length p = true := inRange_iff.mpr (hx ▸ h.2.1)
    have r2 : inRange xs.length (invPermT p) = true := inRange_iff.mpr (hx ▸ hq.2.1)
    have l1 : (gatherT xs p).length = n := by rw [length_gatherT (inRange_iff.mp r1), h.1]
    have l2 : (gatherT xs (invPermT p)).length = n := by
      rw [length_gatherT (inRange_iff.mp r2), hq.1]
    have r3 : inRange (gatherT xs p).length (invPermT p) = true := inRange_iff.mpr (l1 ▸ hq.2.1)
    have r4 : inRange (gatherT xs (invPermT p)).length p = true := inRange_iff.mpr (l2 ▸ h.2.1)
    simp [permuteList_eq, r1, r2, r3, r4, gatherT_gatherT_inv h hx, gatherT_inv_gatherT h hx]
  · intro m hm
    have hs : isSquare m = true := isSquare_iff.mpr (hm.1 ▸ hm)
    have r1 : inRange m.length p = true := inRange_iff.mpr (hm.1 ▸ h.2.1)
    have hm' := hm.permuteMatT h.2.1 h.1
    have hs' : isSquare (permuteMatT m p) = true := isSquare_iff.mpr (hm'.1 ▸ hm')
    have r2 : inRange (permuteMatT m p).length (invPermT p) = true :=
      inRange_iff.mpr (hm'.1 ▸ hq.2.1)
    simp [permuteMat, hs, r1, hs', r2, permuteMatT_inv hm h]

/-! ### `permute_results` -/

/-- Shapes of a results object for `n` atoms: one entry per atom everywhere, `n × n`
correlation matrices, bitstrings of length `n` that are distinct keys of their `Counter`. -/
structure WellShaped {α : Type} (n : Nat) (r : Res α) : Prop where
  atoms : r.atomOrder.length = n
  bits : ∀ l, r.bitstrings = some l → ∀ c ∈ l,
    (c.map Prod.fst).Nodup ∧ ∀ kv ∈ c, kv.1.length = n
  occ : ∀ l, r.occupation = some l → ∀ v ∈ l, v.length = n
  corr : ∀ l, r.correlation = some l → ∀ m ∈ l, IsSquareN n m

theorem onTag_site {γ : Type} (f : γ → Option γ) (s : γ → γ) (t : Option (List γ))
    (h : ∀ l, t = some l → ∀ x ∈ l, f (s x) = some x) :
    onTag (t.map (fun l => l.map s)) f = some t := by
  cases t with
  | none => rfl
  | some l =>
    simp only [Option.map_some, onTag, List.map_map]
    rw [allSome_map (f ∘ s) id l (fun x hx => by simpa using h l rfl x hx)]
    simp

variable {α : Type}

/-- **Un-permuting the results of a run in site order gives the results in register order.**
If a run in site order reports `siteView p r` (atom `p[k]` of the register sits on site `k`),
then `permute_results(…, True)` returns `r` itself: `atom_order` is the register's `qubit_ids`,
every occupation vector, correlation matrix and bitstring is back in register order with the
same values and counts, and every other tag is untouched. -/
theorem unpermute_results_register_order {n : Nat} {p : List Nat} (h : IsPerm n p) {r : Res α}
    (hr : WellShaped n r) : permuteResults p (siteView p r) true = some r := by
  have hq := h.inv
  have hinv : invPermutation p = some (invPermT p) := by
    simp [invPermutation, isPermOf_iff.mpr (h.1 ▸ h)]
  have hlist : ∀ {γ : Type} (xs : List γ), xs.length = n →
      permuteList (gatherT xs p) (invPermT p) = some xs := by
    intro γ xs hx
    have l1 : (gatherT xs p).length = n := by rw [length_gatherT (hx ▸ h.2.1), h.1]
    rw [permuteList_eq, inRange_iff.mpr (l1 ▸ hq.2.1), if_pos rfl, gatherT_gatherT_inv h hx]
  have hbits : onTag ((siteView p r).bitstrings) (fun c => permuteCounter c (invPermT p))
      = some r.bitstrings := by
    refine onTag_site (γ := Counter (List Char)) (fun c => permuteCounter c (invPermT p))
      (fun c => c.map (fun kv => (gatherT kv.1 p, kv.2))) r.bitstrings ?_
    intro l hl c hc
    obtain ⟨hnd, hlen⟩ := hr.bits l hl c hc
    unfold permuteCounter
    rw [List.map_map, allSome_map _ id c]
    · simp [dictOfPairs_nodup c hnd]
    · intro kv hkv
      simp [hlist kv.1 (hlen kv hkv)]
  have hocc : onTag ((siteView p r).occupation) (fun v => permuteVec v (invPermT p))
      = some r.occupation := by
    refine onTag_site (γ := List α) (fun v => permuteVec v (invPermT p))
      (fun v => gatherT v p) r.occupation ?_
    intro l hl v hv
    rw [(same_gather (gatherT v p) "" (invPermT p)).2.1]
    exact hlist v (hr.occ l hl v hv)
  have hcorr : onTag ((siteView p r).correlation) (fun m => permuteMatO m (invPermT p))
      = some r.correlation := by
    refine onTag_site (γ := List (List α)) (fun m => permuteMatO m (invPermT p))
      (fun m => permuteMatT m p) r.correlation ?_
    intro l hl m hm
    unfold permuteMatO
    rw [((inverse_undoes_permuting h).2 m (hr.corr l hl m hm)).2]
  have hatom : permuteList (siteView p r).atomOrder (invPermT p) = some r.atomOrder :=
    hlist r.atomOrder hr.atoms
  simp only [permuteResults, if_true, hinv, permuteResultsWith, hbits, hocc, hcorr, hatom]
  rfl

/-- With `optimize_qubit_ordering = False` the results are returned untouched. -/
theorem results_untouched_when_disabled (p : List Nat) (r : Res α) :
    permuteResults p r false = some r := rfl

/-- `atom_order` after un-permuting is the register's `qubit_ids`, exactly. -/
theorem atom_order_is_register_order {n : Nat} {p : List Nat} (h : IsPerm n p) {r : Res α}
    (hr : WellShaped n r) :
    (permuteResults p (siteView p r) true).map Res.atomOrder = some r.atomOrder := by
  rw [unpermute_results_register_order h hr]; rfl

/-! ### reordering is switched off for observables that cannot be un-permuted -/

/-- **The effective `optimize_qubit_ordering` is on only when every observable tag is either one
that `permute_results` un-permutes (`bitstrings`, `occupation`, `correlation_matrix`) or a
whole-register quantity (`statistics`, `energy`, `energy_variance`, `energy_second_moment`).** -/
theorem reordering_only_with_permutable_observables (requested : Bool) (tags : List String) :
    effectiveOrdering requested tags = true ↔
      requested = true ∧ ∀ t ∈ tags, t ∈ allowedPermutableObs := by
  simp [effectiveOrdering, checkPermutableObservables]

/-! ### the end-to-end claim -/

/-- What the emulator is handed, in some atom order: identifiers, interaction matrix, per-step
per-atom drives, bad-atom mask, and the amplitudes of the initial state by basis-state label. -/
structure Problem (α : Type) where
  qubitIds : List String
  interaction : List (List α)
  drives : List (List α)
  badAtoms : List Bool
  initial : List (List Char × α)

/-- The same physical problem with the atoms listed in the order `p` (site `k` = atom `p[k]`):
what `MPSBackendImpl` builds for `qubit_permutation = p` once D1/D2 are repaired, and equally what
a user gets by inserting the atoms into the register in another order. -/
def Problem.reorder (P : Problem α) (p : List Nat) : Problem α :=
  { qubitIds := gatherT P.qubitIds p
    interaction := permuteMatT P.interaction p
    drives := P.drives.map (fun row => gatherT row p)
    badAtoms := gatherT P.badAtoms p
    initial := P.initial.map (fun kv => (gatherT kv.1 p, kv.2)) }

/-- **C03, full statement** for an emulator `run` (problem ↦ results in the order the problem was
given): for every problem and every permutation of its atoms, emulating the reordered problem and
un-permuting the results gives the results of the original problem — same values for every atom,
same bitstring counts, atoms listed in register order, whole-register tags unchanged.
(Exact-arithmetic form; "up to the configured precision" for the real solver.) **Not proved.** -/
def C03_full (run : Problem α → Res α) : Prop :=
  ∀ (P : Problem α) (p : List Nat), IsPerm P.qubitIds.length p →
    permuteResults p (run (P.reorder p)) true = some (run P)

/-- The solver-side assumption: emulating the reordered problem reports the site-order view of
the original run, with well-shaped results (ideal solver: `exp(P H P†) P ψ = P exp(H) ψ`). -/
def Equivariant (run : Problem α → Res α) : Prop :=
  ∀ (P : Problem α) (p : List Nat), IsPerm P.qubitIds.length p →
    run (P.reorder p) = siteView p (run P) ∧ WellShaped P.qubitIds.length (run P)

/-- **C03, the part that is proved**: the permutation bookkeeping is exactly right — whenever
the solver is equivariant, the full claim holds. -/
theorem C03_partial (run : Problem α → Res α) (h : Equivariant run) : C03_full run := by
  intro P p hp
  obtain ⟨e, hw⟩ := h P p hp
  rw [e]
  exact unpermute_results_register_order hp hw

/-! ### Non-vacuity: concrete instances (kernel-evaluated — tests, not proofs) -/

example : IsPerm 3 [2, 0, 1] := isPermOf_iff.mp (by decide)
example : invPermutation [2, 0, 1] = some [1, 2, 0] := by decide
example : permuteList ["a", "b", "c"] [2, 0, 1] = some ["c", "a", "b"] := by decide
example : permuteString "abc" [2, 0, 1] = some "cab" := by decide
example : permuteList ["a", "b", "c"] [2, 3, 1] = none := by decide
example : permuteMat [[1, 2, 3], [4, 5, 6], [7, 8, 9]] [1, 0, 2]
    = .ok [[5, 4, 6], [2, 1, 3], [8, 7, 9]] := by decide
example : permuteMat [[1, 2, 3], [4, 5, 6]] [1, 0] = .error .valueError := by decide

/-- hypotheses of `composition_law` -/
example : permuteList ["a", "b", "c"] [2, 0, 1] = some ["c", "a", "b"] ∧
    permuteList ["c", "a", "b"] [1, 0, 2] = some ["a", "c", "b"] ∧
    permuteVec [2, 0, 1] [1, 0, 2] = some [0, 2, 1] ∧
    permuteList ["a", "b", "c"] [0, 2, 1] = some ["a", "c", "b"] := by decide

/-- A register-order result for 3 atoms (values are labels) … -/
def exRes : Res Nat :=
  { atomOrder := ["q0", "q1", "q2"]
    bitstrings := some [[("100".toList, 7), ("011".toList, 3)]]
    occupation := some [[10, 11, 12], [20, 21, 22]]
    correlation := some [[[0, 1, 2], [3, 4, 5], [6, 7, 8]]]
    others := [("energy", [5, 6])] }

/-- … is well shaped, its site-order view under `[2,0,1]` is genuinely different, and
`permute_results` brings it back (`unpermute_results_register_order`, evaluated). -/
example : WellShaped 3 exRes where
  atoms := rfl
  bits := by
    intro l hl c hc
    simp only [exRes, Option.some.injEq] at hl
    subst hl
    simp only [List.mem_singleton] at hc
    subst hc
    exact ⟨by decide, by decide⟩
  occ := by
    intro l hl v hv
    simp only [exRes, Option.some.injEq] at hl
    subst hl
    revert v; decide
  corr := by
    intro l hl m hm
    simp only [exRes, Option.some.injEq] at hl
    subst hl
    simp only [List.mem_singleton] at hm
    subst hm
    exact isSquare_iff.mp (by decide)

example : (siteView [2, 0, 1] exRes).atomOrder = ["q2", "q0", "q1"] := by decide
example : (siteView [2, 0, 1] exRes).occupation = some [[12, 10, 11], [22, 20, 21]] := by decide
example : ((permuteResults [2, 0, 1] (siteView [2, 0, 1] exRes) true).map Res.atomOrder)
    = some ["q0", "q1", "q2"] := by decide

example : effectiveOrdering true ["occupation", "energy"] = true := by decide
example : effectiveOrdering true ["occupation", "fidelity"] = false := by decide

end EmuVerif.Props.C03
