/-
  C03 (continued) — relabelling / reordering the atoms, proved for the IDEAL solver.

  `Props/C03.lean` proves the permutation bookkeeping and reduces the end-to-end claim `C03_full run` to the assumption
  `Equivariant run` ("the solver on the reordered problem reports the site-order view of the original run"). This file
  DISCHARGES that assumption for the ideal solver — the exact matrix exponential `exp(−i t_k H_k)` of the piecewise-constant
  dense Hamiltonian (`C29Exp.run`, Mathlib's `NormedSpace.exp` on `Matrix (Fin N → Fin d) (Fin N → Fin d) ℂ`) — for every
  number of atoms `N`, every number of levels `d`, every permutation `σ` of the atoms, every schedule (any number of steps,
  step-dependent single-site terms AND couplings), for the Rydberg and the XY interaction alike (`Kind`: `K`, `c`, `op`
  as in `C05.Hdense`).

  Conventions (those of `Model/Perm.lean`: a list permuted by `p` is `k ↦ x[p[k]]`; site `k` holds atom `σ k = p[k]`):
    `(siteP σ *ᵥ ψ)(t) = ψ(t ∘ σ⁻¹)`, `siteP σ *ᵥ e_s = e_{s ∘ σ}` (`permute_string`), `(siteP σ)⁻¹ = (siteP σ)ᵀ = (siteP σ)ᴴ`,
    `siteP σ * siteEmb (σ k) a * (siteP σ)ᵀ = siteEmb k a`  (`Proofs/PermEquiv.lean`).

  Matrix level (any `N`, `d`, `σ`, schedule):
    * `hamiltonian_relabel`        `P_σ H(h, U) P_σᵀ = H(h ∘ σ, U ∘ (σ × σ))` for the dense Hamiltonian of C05 (`U` symmetric);
      `hamiltonian_relabel_C05` is the same statement written with `C05.Hdense` and `C05.kronEmb`.
    * `ideal_run_relabel`          the ideal run of the relabelled schedule from `P_σ ψ₀` is `P_σ` applied to the ideal run of the
      original schedule from `ψ₀`  (`C29Exp.run_conj`); `ideal_traj_relabel` the same at every intermediate time.
    * `bitstring_prob_relabel`     `|ψ'(s ∘ σ)|² = |ψ(s)|²`: the relabelled run gives the relabelled string the weight of `s` (no phases);
      `occupation_relabel`, `correlation_relabel`  `⟨a⟩` on site `k` of the relabelled run = `⟨a⟩` on atom `σ k` of the original,
      same for two-site products; `energy_relabel` the energies agree.
  Results level (the `Problem` / `Res` / `siteView` / `permuteResults` types of `Props/C03.lean`):
    * `idealRun ph`                an emulator `Problem ℂ → Res ℂ` built on the ideal run: per-step per-atom drive value `z ↦ ph.loc z`
      (ANY function into the `d × d` matrices), couplings `½(U_ij + U_ji)`, dark atoms (`badAtoms`) lose drive and couplings, initial
      state `Σ amp • |label⟩` (default `|g…g⟩`), occupations / correlation matrices / energy after every step. A problem whose lists are
      too short for its register is answered with an empty result (Python would raise).
    * `idealRun_equivariant`       **`C03.Equivariant (idealRun ph)`**;
    * `C03_ideal`                  **`C03.C03_full (idealRun ph)`** = `C03_partial` ∘ `idealRun_equivariant`: un-permuting the results of
      the reordered problem gives exactly the results of the original problem, atoms in register order.
    * `installed_is_reorder`, `C03_ideal_installed`  what the C02 model of the back-end installs for site order `p`
      (`installedDrive .repaired`, `installedInteraction`, `installedString .direct` — the objects of `C02.same_map`) IS
      `Problem.reorder p`, so "the relabelled problem is what gets solved" is a theorem about the modelled constructor, not a hypothesis.
      (Dark atoms are not part of the C02 model: their mask is taken through the same `permuteRow`.)

  NOT covered — stays an assumption, validated by the metamorphic end-to-end search of `harness/props/c03.py`: the real solver
  (two-site TDVP, Krylov exponential, SVD truncation; DMRG) is not the ideal exponential. Its results depend on the site order at
  the 1e-8 … 1e-5 level (measured: `notes/perm.md`), far below the solver tolerance but not zero; bitstring SAMPLES (as opposed to
  the distribution) depend on the site order through the RNG stream and are not modelled (`bitstrings := none` in `idealRun`).
-/
import EmuVerif.Proofs.PermEquiv
import EmuVerif.Props.C03
import EmuVerif.Props.C29Exp
import EmuVerif.Props.C02

set_option linter.unusedSectionVars false
set_option linter.unusedVariables false

namespace EmuVerif.Props.C03Ideal
open EmuVerif EmuVerif.Ideal EmuVerif.PermEquiv EmuVerif.HamMPO EmuVerif.Props.C05 EmuVerif.Props.C29Exp Matrix

variable {N d : ℕ}

/-! ### `P_σ` over ℂ is unitary -/

theorem siteP_conjTranspose (σ : Equiv.Perm (Fin N)) :
    (siteP σ : Matrix (Cfg N d) (Cfg N d) ℂ)ᴴ = (siteP σ)ᵀ := by
  unfold siteP
  rw [Matrix.conjTranspose_permMatrix, Matrix.transpose_permMatrix]

theorem siteP_unitary (σ : Equiv.Perm (Fin N)) :
    (siteP σ : Matrix (Cfg N d) (Cfg N d) ℂ)ᴴ * siteP σ = 1 := by
  rw [siteP_conjTranspose]; exact siteP_transpose_mul σ

/-- expectation values: `⟨P ψ| P A Pᵀ |P ψ⟩ = ⟨ψ|A|ψ⟩` -/
theorem expect_siteP (σ : Equiv.Perm (Fin N)) (A : Matrix (Cfg N d) (Cfg N d) ℂ) (ψ : Cfg N d → ℂ) :
    expect (siteP σ * A * (siteP σ)ᵀ) (siteP σ *ᵥ ψ) = expect A ψ := by
  rw [← siteP_conjTranspose]
  exact expect_conj _ _ (siteP_unitary σ) ψ

/-! ### schedules and their relabelling -/

/-- which interaction: `K` channel operators `op k` with prefactor `c` (Rydberg `1, 1, n̂`; XY `2, 2, σˣ σʸ`) -/
structure Kind (d : ℕ) where
  K : ℕ
  c : ℂ
  op : ℕ → Matrix (Fin d) (Fin d) ℂ

def Kind.rydberg (nop : Matrix (Fin d) (Fin d) ℂ) : Kind d := ⟨1, 1, fun _ => nop⟩
def Kind.xy (sx sy : Matrix (Fin d) (Fin d) ℂ) : Kind d := ⟨2, 2, fun k => if k = 0 then sx else sy⟩

/-- one step of a schedule: single-site terms (drive + detuning + …) per atom, couplings, duration -/
structure Step (N d : ℕ) where
  h : Fin N → Matrix (Fin d) (Fin d) ℂ
  U : Fin N → Fin N → ℂ
  t : ℝ

/-- the step of the relabelled problem: site `k` carries atom `σ k` -/
def Step.relabel (σ : Equiv.Perm (Fin N)) (s : Step N d) : Step N d :=
  ⟨fun m => s.h (σ m), fun i j => s.U (σ i) (σ j), s.t⟩

/-- the dense Hamiltonian of a step -/
def Step.ham (kd : Kind d) (s : Step N d) : Matrix (Cfg N d) (Cfg N d) ℂ := HFin N d kd.K kd.c kd.op s.h s.U

def hamSteps (kd : Kind d) (sched : List (Step N d)) : List (Matrix (Cfg N d) (Cfg N d) ℂ × ℝ) :=
  sched.map (fun s => (s.ham kd, s.t))

/-- **`P_σ H(h, U) P_σᵀ = H(h ∘ σ, U ∘ (σ × σ))`** -/
theorem hamiltonian_relabel (kd : Kind d) (σ : Equiv.Perm (Fin N)) (s : Step N d) (hU : ∀ i j, s.U i j = s.U j i) :
    siteP σ * s.ham kd * (siteP σ)ᵀ = (s.relabel σ).ham kd :=
  HFin_conj σ kd.K kd.c kd.op s.h s.U hU

/-- the same for `C05.Hdense` with the Kronecker embeddings `C05.kronEmb`, the Hamiltonian the emu-mps MPO contracts to
(`C05.mpo_eq_dense`): relabelling = `U i j ↦ U (σ i) (σ j)`, `h m ↦ h (σ m)` on the indices `< N`. -/
theorem hamiltonian_relabel_C05 (P P' : Params ℂ (Matrix (Fin d) (Fin d) ℂ)) (hN : 0 < P.N) (hN' : P'.N = P.N)
    (σ : Equiv.Perm (Fin P.N)) (hU : ∀ i j, P.U i j = P.U j i)
    (hK : P'.K = P.K) (hc : P'.c = P.c) (hop : P'.op = P.op)
    (hh : ∀ m : Fin P.N, P'.h m = P.h (σ m)) (hUU : ∀ i j : Fin P.N, P'.U i j = P.U (σ i) (σ j)) :
    siteP σ * Hdense P (kronEmb P.N d hN) * (siteP σ)ᵀ = Hdense P' (kronEmb P.N d hN) := by
  obtain ⟨N', K', c', U', op', h'⟩ := P'
  simp only at hN' hK hc hop hh hUU
  subst hN' hK hc hop
  refine Eq.trans ?_ (Hdense_kronEmb_eq_HFin (⟨P.N, P.K, P.c, U', P.op, h'⟩ : Params ℂ (Matrix (Fin d) (Fin d) ℂ)) hN).symm
  rw [Hdense_kronEmb_eq_HFin P hN, HFin_conj σ _ _ _ _ _ (fun i j => hU i j)]
  simp only [hh, hUU]

theorem hamSteps_relabel (kd : Kind d) (σ : Equiv.Perm (Fin N)) (sched : List (Step N d))
    (hU : ∀ s ∈ sched, ∀ i j, s.U i j = s.U j i) :
    hamSteps kd (sched.map (Step.relabel σ)) = conjSteps (siteP σ) (siteP σ)ᵀ (hamSteps kd sched) := by
  unfold hamSteps conjSteps
  rw [List.map_map, List.map_map]
  apply List.map_congr_left
  intro s hs
  simp only [Function.comp_apply, Prod.mk.injEq]
  exact ⟨(hamiltonian_relabel kd σ s (hU s hs)).symm, rfl⟩

/-- **The ideal solver is equivariant**: the ideal run of the relabelled schedule from the relabelled initial state is
`P_σ` applied to the ideal run of the original schedule — every `N`, `d`, `σ`, every list of steps. -/
theorem ideal_run_relabel (kd : Kind d) (σ : Equiv.Perm (Fin N)) (sched : List (Step N d))
    (hU : ∀ s ∈ sched, ∀ i j, s.U i j = s.U j i) (ψ : Cfg N d → ℂ) :
    run (hamSteps kd (sched.map (Step.relabel σ))) (siteP σ *ᵥ ψ) = siteP σ *ᵥ run (hamSteps kd sched) ψ := by
  rw [hamSteps_relabel kd σ sched hU]
  exact run_conj _ _ (siteP_mul_transpose σ) _ ψ

/-- **bitstring distribution**: in the relabelled run the string `k ↦ s (σ k)` has the weight `s` has in the original run -/
theorem bitstring_prob_relabel (kd : Kind d) (σ : Equiv.Perm (Fin N)) (sched : List (Step N d))
    (hU : ∀ s ∈ sched, ∀ i j, s.U i j = s.U j i) (ψ : Cfg N d → ℂ) (s : Cfg N d) :
    prob (run (hamSteps kd (sched.map (Step.relabel σ))) (siteP σ *ᵥ ψ)) (s ∘ σ)
      = prob (run (hamSteps kd sched) ψ) s := by
  rw [ideal_run_relabel kd σ sched hU]
  unfold prob
  rw [siteP_mulVec_comp]

/-- **occupations** (any single-site operator `a`): site `k` of the relabelled run reports atom `σ k` of the original run -/
theorem occupation_relabel (kd : Kind d) (σ : Equiv.Perm (Fin N)) (sched : List (Step N d))
    (hU : ∀ s ∈ sched, ∀ i j, s.U i j = s.U j i) (ψ : Cfg N d → ℂ) (a : Matrix (Fin d) (Fin d) ℂ) (k : Fin N) :
    expect (siteEmb N d k a) (run (hamSteps kd (sched.map (Step.relabel σ))) (siteP σ *ᵥ ψ))
      = expect (siteEmb N d (σ k) a) (run (hamSteps kd sched) ψ) := by
  rw [ideal_run_relabel kd σ sched hU, ← siteEmb_conj σ k a, expect_siteP]

theorem pair_conj (σ : Equiv.Perm (Fin N)) (a b : Matrix (Fin d) (Fin d) ℂ) (i j : Fin N) :
    siteP σ * (siteEmb N d (σ i) a * siteEmb N d (σ j) b) * (siteP σ)ᵀ = siteEmb N d i a * siteEmb N d j b := by
  rw [← conjA_apply, map_mul, conjA_siteEmb, conjA_siteEmb]

/-- **two-site correlations** -/
theorem correlation_relabel (kd : Kind d) (σ : Equiv.Perm (Fin N)) (sched : List (Step N d))
    (hU : ∀ s ∈ sched, ∀ i j, s.U i j = s.U j i) (ψ : Cfg N d → ℂ) (a b : Matrix (Fin d) (Fin d) ℂ) (i j : Fin N) :
    expect (siteEmb N d i a * siteEmb N d j b) (run (hamSteps kd (sched.map (Step.relabel σ))) (siteP σ *ᵥ ψ))
      = expect (siteEmb N d (σ i) a * siteEmb N d (σ j) b) (run (hamSteps kd sched) ψ) := by
  rw [ideal_run_relabel kd σ sched hU, ← pair_conj σ a b i j, expect_siteP]

/-- **energies**: the energy of the relabelled run w.r.t. the relabelled Hamiltonian = that of the original run -/
theorem energy_relabel (kd : Kind d) (σ : Equiv.Perm (Fin N)) (sched : List (Step N d))
    (hU : ∀ s ∈ sched, ∀ i j, s.U i j = s.U j i) (ψ : Cfg N d → ℂ) (s : Step N d) (hs : ∀ i j, s.U i j = s.U j i) :
    expect ((s.relabel σ).ham kd) (run (hamSteps kd (sched.map (Step.relabel σ))) (siteP σ *ᵥ ψ))
      = expect (s.ham kd) (run (hamSteps kd sched) ψ) := by
  rw [ideal_run_relabel kd σ sched hU, ← hamiltonian_relabel kd σ s hs, expect_siteP]

/-! ### the whole trajectory (state after every step, with that step's Hamiltonian) -/
section traj
variable {n : Type} [Fintype n] [DecidableEq n]

noncomputable def traj : List (Matrix n n ℂ × ℝ) → (n → ℂ) → List (Matrix n n ℂ × (n → ℂ))
  | [], _ => []
  | s :: rest, ψ => (s.1, expU s.1 s.2 *ᵥ ψ) :: traj rest (expU s.1 s.2 *ᵥ ψ)

theorem traj_length (steps : List (Matrix n n ℂ × ℝ)) (ψ : n → ℂ) : (traj steps ψ).length = steps.length := by
  induction steps generalizing ψ with
  | nil => rfl
  | cons s rest ih => simp [traj, ih]

/-- the last state of the trajectory is the result of `C29Exp.run` -/
theorem traj_getLast (s : Matrix n n ℂ × ℝ) (rest : List (Matrix n n ℂ × ℝ)) (ψ : n → ℂ) :
    ((traj (s :: rest) ψ).map Prod.snd).getLast? = some (run (s :: rest) ψ) := by
  induction rest generalizing s ψ with
  | nil => rfl
  | cons s' rest' ih =>
    have h := ih s' (expU s.1 s.2 *ᵥ ψ)
    rw [run_cons, ← h]
    simp only [traj, List.map_cons, List.getLast?_cons_cons]

theorem traj_conj (V W : Matrix n n ℂ) (hVW : V * W = 1) (steps : List (Matrix n n ℂ × ℝ)) (ψ : n → ℂ) :
    traj (conjSteps V W steps) (V *ᵥ ψ) = (traj steps ψ).map (fun x => (V * x.1 * W, V *ᵥ x.2)) := by
  induction steps generalizing ψ with
  | nil => rfl
  | cons s rest ih =>
    have h1 : expU (V * s.1 * W) s.2 *ᵥ (V *ᵥ ψ) = V *ᵥ (expU s.1 s.2 *ᵥ ψ) := run_conj V W hVW [s] ψ
    show (V * s.1 * W, expU (V * s.1 * W) s.2 *ᵥ (V *ᵥ ψ))
        :: traj (conjSteps V W rest) (expU (V * s.1 * W) s.2 *ᵥ (V *ᵥ ψ)) = _
    rw [h1, ih]
    rfl

end traj

/-- the trajectory of the relabelled schedule is the `P_σ`-image of the original trajectory, step by step -/
theorem ideal_traj_relabel (kd : Kind d) (σ : Equiv.Perm (Fin N)) (sched : List (Step N d))
    (hU : ∀ s ∈ sched, ∀ i j, s.U i j = s.U j i) (ψ : Cfg N d → ℂ) :
    traj (hamSteps kd (sched.map (Step.relabel σ))) (siteP σ *ᵥ ψ)
      = (traj (hamSteps kd sched) ψ).map (fun x => (siteP σ * x.1 * (siteP σ)ᵀ, siteP σ *ᵥ x.2)) := by
  rw [hamSteps_relabel kd σ sched hU]
  exact traj_conj _ _ (siteP_mul_transpose σ) _ ψ

/-! ### an ideal emulator on the `Problem` / `Res` types of `Props/C03.lean` -/
section results
open EmuVerif.Perm EmuVerif.Props.C03

/-- the physics an emulator run is parameterised by: interaction kind, the single-site term a drive value stands for (ANY
function), the measured single-site operator (`n̂`), the level a label character stands for, the default level, the step length -/
structure Phys (d : ℕ) where
  kind : Kind d
  loc : ℂ → Matrix (Fin d) (Fin d) ℂ
  obs : Matrix (Fin d) (Fin d) ℂ
  lvl : Char → Fin d
  gnd : Fin d
  dt : ℝ

variable (ph : Phys d)

/-- atom `k` is dark -/
def badF (N : ℕ) (P : Problem ℂ) (k : Fin N) : Bool := P.badAtoms.getD k.val false

/-- coupling of atoms `i`, `j`: `½ (U_ij + U_ji)` (`= U_ij` for the symmetric matrices the back-end accepts) -/
noncomputable def couplingF (N : ℕ) (P : Problem ℂ) (i j : Fin N) : ℂ :=
  ((P.interaction.getD i.val []).getD j.val 0 + (P.interaction.getD j.val []).getD i.val 0) / 2

/-- the step a drive row stands for; dark atoms lose their drive and all their couplings -/
noncomputable def stepF (N : ℕ) (P : Problem ℂ) (row : List ℂ) : Step N d :=
  ⟨fun m => if badF N P m then 0 else ph.loc (row.getD m.val 0),
   fun i j => if badF N P i || badF N P j then 0 else couplingF N P i j, ph.dt⟩

noncomputable def schedF (N : ℕ) (P : Problem ℂ) : List (Step N d) := P.drives.map (stepF ph N P)

/-- the basis string a label stands for -/
def labelF (N : ℕ) (l : List Char) : Cfg N d := fun k => ph.lvl (l.getD k.val ' ')

/-- initial state `Σ amp • |label⟩`; `|g…g⟩` when none is given -/
noncomputable def initF (N : ℕ) (P : Problem ℂ) : Cfg N d → ℂ :=
  if P.initial.isEmpty then Pi.single (fun _ => ph.gnd) 1
  else (P.initial.map (fun kv => kv.2 • (Pi.single (labelF ph N kv.1) (1 : ℂ) : Cfg N d → ℂ))).sum

/-- (Hamiltonian, state) after every step of the ideal evolution -/
noncomputable def trajF (N : ℕ) (P : Problem ℂ) : List (Matrix (Cfg N d) (Cfg N d) ℂ × (Cfg N d → ℂ)) :=
  traj (hamSteps ph.kind (schedF ph N P)) (initF ph N P)

noncomputable def occF (N : ℕ) (ψ : Cfg N d → ℂ) : List ℂ :=
  List.ofFn (fun k : Fin N => expect (siteEmb N d k ph.obs) ψ)

noncomputable def corrF (N : ℕ) (ψ : Cfg N d → ℂ) : List (List ℂ) :=
  List.ofFn (fun i : Fin N => List.ofFn (fun j : Fin N => expect (siteEmb N d i ph.obs * siteEmb N d j ph.obs) ψ))

/-- results of the ideal run for `N` atoms, atoms in the order the problem lists them -/
noncomputable def core (N : ℕ) (P : Problem ℂ) : Res ℂ :=
  { atomOrder := P.qubitIds
    bitstrings := none
    occupation := some ((trajF ph N P).map (fun x => occF ph N x.2))
    correlation := some ((trajF ph N P).map (fun x => corrF ph N x.2))
    others := [("energy", (trajF ph N P).map (fun x => expect x.1 x.2))] }

/-- every list has (at least) one entry per atom -/
def WF (N : ℕ) (P : Problem ℂ) : Prop :=
  (∀ row ∈ P.drives, N ≤ row.length) ∧ N ≤ P.badAtoms.length ∧ (∀ kv ∈ P.initial, N ≤ kv.1.length) ∧
    N ≤ P.interaction.length ∧ ∀ i : Fin N, N ≤ (P.interaction.getD i.val []).length

/-- the answer to a malformed problem (Python raises) -/
def dflt (P : Problem ℂ) : Res ℂ := ⟨P.qubitIds, none, none, none, []⟩

open Classical in
/-- **the ideal emulator** -/
noncomputable def idealRun (P : Problem ℂ) : Res ℂ :=
  if WF P.qubitIds.length P then core ph P.qubitIds.length P else dflt P

/-! #### the reordered problem, read through the accessors -/

variable {p : List ℕ} {P : Problem ℂ}

theorem badF_reorder (hp : IsPerm N p) (hw : N ≤ P.badAtoms.length) (k : Fin N) :
    badF N (P.reorder p) k = badF N P (permOf hp k) := getD_gatherT hp hw k false

theorem getD_permuteMatT_row (hp : IsPerm N p) {m : List (List ℂ)} (hm : N ≤ m.length) (i : Fin N) :
    (permuteMatT m p).getD i.val [] = gatherT (m.getD (permOf hp i).val []) p := by
  unfold Perm.permuteMatT
  have h1 : (permOf hp i).val < m.length := lt_of_lt_of_le (permOf hp i).2 hm
  rw [List.getD_eq_getElem?_getD, List.getElem?_map, getElemOpt_gatherT_fin hp hm i,
    List.getD_eq_getElem?_getD, List.getElem?_eq_getElem h1]
  rfl

theorem couplingF_reorder (hp : IsPerm N p) (hm : N ≤ P.interaction.length)
    (hrows : ∀ i : Fin N, N ≤ (P.interaction.getD i.val []).length) (i j : Fin N) :
    couplingF N (P.reorder p) i j = couplingF N P (permOf hp i) (permOf hp j) := by
  have key : ∀ a b : Fin N, ((P.reorder p).interaction.getD a.val []).getD b.val 0
      = (P.interaction.getD (permOf hp a).val []).getD (permOf hp b).val 0 := by
    intro a b
    show ((permuteMatT P.interaction p).getD a.val []).getD b.val 0 = _
    rw [getD_permuteMatT_row hp hm a, getD_gatherT hp (hrows (permOf hp a)) b]
  unfold couplingF
  rw [key i j, key j i]

theorem stepF_reorder (hp : IsPerm N p) (hw : WF N P) {row : List ℂ} (hrow : N ≤ row.length) :
    stepF ph N (P.reorder p) (gatherT row p) = (stepF ph N P row).relabel (permOf hp) := by
  obtain ⟨_, hbad, _, hm, hrows⟩ := hw
  unfold stepF Step.relabel
  simp only [Step.mk.injEq, and_true]
  refine ⟨?_, ?_⟩
  · funext m
    rw [badF_reorder hp hbad, getD_gatherT hp hrow]
  · funext i j
    rw [badF_reorder hp hbad, badF_reorder hp hbad, couplingF_reorder hp hm hrows]

theorem schedF_reorder (hp : IsPerm N p) (hw : WF N P) :
    schedF ph N (P.reorder p) = (schedF ph N P).map (Step.relabel (permOf hp)) := by
  unfold schedF
  show ((P.drives.map (fun row => gatherT row p)).map (stepF ph N (P.reorder p))) = _
  rw [List.map_map, List.map_map]
  apply List.map_congr_left
  intro row hr
  exact stepF_reorder ph hp hw (hw.1 row hr)

theorem schedF_symmetric (N : ℕ) (P : Problem ℂ) : ∀ s ∈ schedF ph N P, ∀ i j, s.U i j = s.U j i := by
  intro s hs i j
  unfold schedF at hs
  obtain ⟨row, _, rfl⟩ := List.mem_map.mp hs
  simp only [stepF, couplingF, Bool.or_comm (badF N P i), add_comm ((P.interaction.getD i.val []).getD j.val 0)]

theorem labelF_reorder (hp : IsPerm N p) {l : List Char} (hl : N ≤ l.length) :
    labelF ph N (gatherT l p) = labelF ph N l ∘ permOf hp := by
  funext k
  simp only [labelF, Function.comp_apply]
  rw [getD_gatherT hp hl]

theorem mulVec_list_sum {n : Type} [Fintype n] (M : Matrix n n ℂ) (l : List (n → ℂ)) :
    M *ᵥ l.sum = (l.map (fun v => M *ᵥ v)).sum := by
  induction l with
  | nil => simp
  | cons v l ih => simp [Matrix.mulVec_add, ih]

theorem initF_reorder (hp : IsPerm N p) (hw : WF N P) :
    initF ph N (P.reorder p) = siteP (permOf hp) *ᵥ initF ph N P := by
  unfold initF
  have hemp : (P.reorder p).initial.isEmpty = P.initial.isEmpty := by
    show (P.initial.map _).isEmpty = _
    rw [List.isEmpty_map]
  rw [hemp]
  split_ifs with h
  · rw [siteP_basis]; rfl
  · rw [mulVec_list_sum, List.map_map]
    show ((P.initial.map (fun kv => (gatherT kv.1 p, kv.2))).map _).sum = _
    rw [List.map_map]
    congr 1
    apply List.map_congr_left
    intro kv hkv
    simp only [Function.comp_apply]
    rw [Matrix.mulVec_smul, siteP_basis, labelF_reorder ph hp (hw.2.2.1 kv hkv)]

theorem trajF_reorder (hp : IsPerm N p) (hw : WF N P) :
    trajF ph N (P.reorder p) = (trajF ph N P).map
      (fun x => (siteP (permOf hp) * x.1 * (siteP (permOf hp))ᵀ, siteP (permOf hp) *ᵥ x.2)) := by
  unfold trajF
  rw [schedF_reorder ph hp hw, initF_reorder ph hp hw]
  exact ideal_traj_relabel ph.kind (permOf hp) _ (schedF_symmetric ph N P) _

theorem occF_siteP (hp : IsPerm N p) (ψ : Cfg N d → ℂ) :
    occF ph N (siteP (permOf hp) *ᵥ ψ) = gatherT (occF ph N ψ) p := by
  unfold occF
  rw [gatherT_ofFn hp]
  congr 1
  funext k
  rw [← siteEmb_conj (permOf hp) k ph.obs, expect_siteP]

theorem corrF_siteP (hp : IsPerm N p) (ψ : Cfg N d → ℂ) :
    corrF ph N (siteP (permOf hp) *ᵥ ψ) = permuteMatT (corrF ph N ψ) p := by
  unfold corrF
  rw [permuteMatT_ofFn hp]
  congr 1
  funext i
  congr 1
  funext j
  rw [← pair_conj (permOf hp) ph.obs ph.obs i j, expect_siteP]

/-- **the results of the ideal run of the reordered problem are the site-order view of the results of the original run** -/
theorem core_reorder (hp : IsPerm N p) (hw : WF N P) :
    core ph N (P.reorder p) = siteView p (core ph N P) := by
  unfold core siteView
  rw [trajF_reorder ph hp hw]
  simp only [Option.map_some, Option.map_none, List.map_map, Res.mk.injEq, Option.some.injEq, true_and]
  refine ⟨rfl, ?_, ?_, ?_⟩
  · apply List.map_congr_left
    intro x _
    simp only [Function.comp_apply]
    exact occF_siteP ph hp x.2
  · apply List.map_congr_left
    intro x _
    simp only [Function.comp_apply]
    exact corrF_siteP ph hp x.2
  · congr 2
    apply List.map_congr_left
    intro x _
    simp only [Function.comp_apply]
    exact expect_siteP (permOf hp) x.1 x.2

/-! #### well-formedness is invariant, results are well shaped -/

theorem WF_reorder (hp : IsPerm N p) : WF N (P.reorder p) ↔ WF N P := by
  have hrow : ∀ (m : List (List ℂ)), N ≤ m.length →
      ((∀ i : Fin N, N ≤ ((permuteMatT m p).getD i.val []).length) ↔ ∀ i : Fin N, N ≤ (m.getD i.val []).length) := by
    intro m hm
    constructor
    · intro h i
      have := h ((permOf hp).symm i)
      rw [getD_permuteMatT_row hp hm, Equiv.apply_symm_apply, le_length_gatherT_iff hp] at this
      exact this
    · intro h i
      rw [getD_permuteMatT_row hp hm, le_length_gatherT_iff hp]
      exact h _
  have hlen : N ≤ (permuteMatT P.interaction p).length ↔ N ≤ P.interaction.length := by
    unfold Perm.permuteMatT
    rw [List.length_map, le_length_gatherT_iff hp]
  unfold WF
  show ((∀ row ∈ P.drives.map (fun row => gatherT row p), N ≤ row.length) ∧ N ≤ (gatherT P.badAtoms p).length ∧
    (∀ kv ∈ P.initial.map (fun kv => (gatherT kv.1 p, kv.2)), N ≤ kv.1.length) ∧
    N ≤ (permuteMatT P.interaction p).length ∧ ∀ i : Fin N, N ≤ ((permuteMatT P.interaction p).getD i.val []).length) ↔ _
  simp only [List.forall_mem_map, le_length_gatherT_iff hp, hlen]
  constructor
  · rintro ⟨h1, h2, h3, h4, h5⟩
    exact ⟨h1, h2, h3, h4, (hrow _ h4).mp h5⟩
  · rintro ⟨h1, h2, h3, h4, h5⟩
    exact ⟨h1, h2, h3, h4, (hrow _ h4).mpr h5⟩

theorem core_wellShaped (N : ℕ) (P : Problem ℂ) (hN : P.qubitIds.length = N) : WellShaped N (core ph N P) where
  atoms := hN
  bits := by intro l hl; simp [core] at hl
  occ := by
    intro l hl v hv
    simp only [core, Option.some.injEq] at hl
    subst hl
    obtain ⟨x, _, rfl⟩ := List.mem_map.mp hv
    simp [occF]
  corr := by
    intro l hl m hm
    simp only [core, Option.some.injEq] at hl
    subst hl
    obtain ⟨x, _, rfl⟩ := List.mem_map.mp hm
    refine ⟨by simp [corrF], ?_⟩
    intro row hrow
    simp only [corrF, List.mem_ofFn] at hrow
    obtain ⟨i, rfl⟩ := hrow
    simp

theorem dflt_wellShaped (P : Problem ℂ) : WellShaped P.qubitIds.length (dflt P) where
  atoms := rfl
  bits := by intro l hl; simp [dflt] at hl
  occ := by intro l hl; simp [dflt] at hl
  corr := by intro l hl; simp [dflt] at hl

/-- **The ideal emulator is equivariant** — the assumption of `C03.C03_partial`, proved. -/
theorem idealRun_equivariant : Equivariant (idealRun ph) := by
  intro P p hp
  have hlen : (P.reorder p).qubitIds.length = P.qubitIds.length := by
    show (gatherT P.qubitIds p).length = _
    exact length_gatherT_of_le hp (le_refl _)
  constructor
  · unfold idealRun
    rw [hlen]
    by_cases hw : WF P.qubitIds.length P
    · rw [if_pos hw, if_pos ((WF_reorder hp).mpr hw)]
      exact core_reorder ph hp hw
    · rw [if_neg hw, if_neg (fun h => hw ((WF_reorder hp).mp h))]
      rfl
  · unfold idealRun
    split_ifs
    · exact core_wellShaped ph _ P rfl
    · exact dflt_wellShaped P

/-- **C03 at full strength for the ideal solver**: for every problem and every permutation of its atoms, emulating the
reordered problem and un-permuting the results gives the results of the original problem — same values for every atom,
atoms listed in register order, whole-register tags (energy) unchanged. -/
theorem C03_ideal : C03_full (idealRun ph) := C03_partial (idealRun ph) (idealRun_equivariant ph)

end results

/-! ### per-atom corollaries, in the vocabulary of the property text -/
section corollaries
open EmuVerif.Perm EmuVerif.Props.C03
variable (ph : Phys d)

/-- relabelling the atoms permutes every per-atom result the same way (occupations: gather by `p`; correlation matrices:
rows and columns gathered by `p`), keeps the energies, and lists the atoms in the new order -/
theorem idealRun_relabel (P : Problem ℂ) (p : List ℕ) (hp : IsPerm P.qubitIds.length p) :
    (idealRun ph (P.reorder p)).occupation = (idealRun ph P).occupation.map (fun l => l.map (fun v => gatherT v p)) ∧
    (idealRun ph (P.reorder p)).correlation = (idealRun ph P).correlation.map (fun l => l.map (fun m => permuteMatT m p)) ∧
    (idealRun ph (P.reorder p)).others = (idealRun ph P).others ∧
    (idealRun ph (P.reorder p)).atomOrder = gatherT P.qubitIds p ∧ (idealRun ph P).atomOrder = P.qubitIds := by
  have h := (idealRun_equivariant ph P p hp).1
  rw [h]
  refine ⟨rfl, rfl, rfl, ?_, ?_⟩
  · show gatherT (idealRun ph P).atomOrder p = _
    congr 1
    unfold idealRun; split_ifs <;> rfl
  · unfold idealRun; split_ifs <;> rfl

end corollaries

/-! ### what the back-end installs (the C02 model) is the reordered problem -/
section installed
open EmuVerif.Perm EmuVerif.Props.C03 EmuVerif.Stepper
variable {β : Type}

theorem mapOpt_eq_some_map {γ δ : Type} (f : γ → Option δ) (g : γ → δ) :
    ∀ (l : List γ), (∀ x ∈ l, f x = some (g x)) → mapOpt f l = some (l.map g)
  | [], _ => rfl
  | a :: l, h => by
    unfold mapOpt
    rw [h a (by simp), mapOpt_eq_some_map f g l (fun x hx => h x (by simp [hx]))]
    rfl

theorem mapOpt_getElemOpt (row : List β) :
    ∀ (l : List ℕ), (∀ i ∈ l, i < row.length) → mapOpt (fun a => row[a]?) l = some (l.filterMap (fun a => row[a]?))
  | [], _ => rfl
  | a :: l, h => by
    have ha : a < row.length := h a (by simp)
    unfold mapOpt
    rw [mapOpt_getElemOpt row l (fun i hi => h i (by simp [hi])), List.getElem?_eq_getElem ha,
      List.filterMap_cons_some (List.getElem?_eq_getElem ha)]

/-- `row[perm]` of the C02 model is the gather of `Model/Perm.lean` -/
theorem permuteRow_eq_gatherT (perm : List ℕ) (row : List β) (h : ∀ i ∈ perm, i < row.length) :
    permuteRow perm row = some (gatherT row perm) := by
  unfold permuteRow
  rw [mapOpt_getElemOpt row perm h, gatherT_eq]

variable {p : List ℕ} {P : Problem ℂ}

/-- **What `MPSBackendImpl.__init__` installs for site order `p`** — in the C02 model: `installedInteraction` (`permute_tensor`),
`installedDrive .repaired` (the drive columns), `installedString .direct` (`permute_string` on the labels of a user-supplied
state); these are the objects `C02.same_map` speaks about — **is `Problem.reorder p`**, the problem the equivariance theorem is about. -/
theorem installed_is_reorder (hp : IsPerm N p) (hw : WF N P) :
    installedInteraction p P.interaction = some (P.reorder p).interaction ∧
    (∀ k, installedDrive .repaired p P.drives k = (P.reorder p).drives[k]?) ∧
    (∀ kv ∈ P.initial, installedString .direct p kv.1 = some (gatherT kv.1 p)) ∧
    permuteRow p P.badAtoms = some (P.reorder p).badAtoms := by
  obtain ⟨hdr, hbad, hini, hm, hrows⟩ := hw
  have hin : ∀ {γ : Type} {xs : List γ}, N ≤ xs.length → ∀ i ∈ p, i < xs.length :=
    fun hx i hi => lt_of_lt_of_le (hp.2.1 i hi) hx
  refine ⟨?_, ?_, ?_, permuteRow_eq_gatherT p _ (hin hbad)⟩
  · unfold installedInteraction
    rw [permuteRow_eq_gatherT p _ (hin hm)]
    simp only
    rw [mapOpt_eq_some_map (permuteRow p) (fun row => gatherT row p)]
    · rfl
    · intro row hrow
      obtain ⟨i, hi, hrow'⟩ := mem_gatherT hrow
      have hiN : i < N := hp.2.1 i hi
      have : P.interaction.getD i [] = row := by
        rw [List.getD_eq_getElem?_getD, hrow']; rfl
      have hlen := hrows ⟨i, hiN⟩
      simp only at hlen
      rw [this] at hlen
      exact permuteRow_eq_gatherT p row (hin hlen)
  · intro k
    unfold installedDrive
    show _ = (P.drives.map (fun row => gatherT row p))[k]?
    rw [List.getElem?_map]
    cases hk : P.drives[k]? with
    | none => rfl
    | some row =>
      simp only [Option.map_some]
      exact permuteRow_eq_gatherT p row (hin (hdr row (List.mem_of_getElem? hk)))
  · intro kv hkv
    exact permuteRow_eq_gatherT p kv.1 (hin (hini kv hkv))

/-- **C03 for the ideal solver with the installed problem**: if `Q` is what the (modelled) constructor installs for the site
order `p` — identifiers, interaction matrix, every drive row, dark-atom mask and initial-state labels all taken through the
constructor's own functions — then running the ideal solver on `Q` and un-permuting gives the results of `P` in register order.
The hypothesis "the relabelled problem is what gets solved" of `C03.Equivariant` is here a consequence of `installed_is_reorder`. -/
theorem C03_ideal_installed (ph : Phys d) (P Q : Problem ℂ) (p : List ℕ) (hp : IsPerm P.qubitIds.length p)
    (hw : WF P.qubitIds.length P)
    (hids : permuteList P.qubitIds p = some Q.qubitIds)
    (hint : installedInteraction p P.interaction = some Q.interaction)
    (hdrv : ∀ k, installedDrive .repaired p P.drives k = Q.drives[k]?)
    (hbad : permuteRow p P.badAtoms = some Q.badAtoms)
    (hini : mapOpt (fun kv => (installedString .direct p kv.1).map (fun s => (s, kv.2))) P.initial = some Q.initial) :
    permuteResults p (idealRun ph Q) true = some (idealRun ph P) := by
  obtain ⟨h1, h2, h3, h4⟩ := installed_is_reorder hp hw
  have hQ : Q = P.reorder p := by
    obtain ⟨qi, qint, qd, qb, qini⟩ := Q
    simp only at hids hint hdrv hbad hini
    unfold Problem.reorder
    simp only [Problem.mk.injEq]
    refine ⟨?_, ?_, ?_, ?_, ?_⟩
    · rw [permuteList_eq, if_pos (inRange_iff.mpr hp.2.1)] at hids
      exact (Option.some.inj hids).symm
    · rw [h1] at hint
      exact (Option.some.inj hint).symm
    · apply List.ext_getElem?
      intro k
      rw [← hdrv k, h2 k]
      rfl
    · rw [h4] at hbad
      exact (Option.some.inj hbad).symm
    · rw [mapOpt_eq_some_map _ (fun kv => (gatherT kv.1 p, kv.2))] at hini
      · exact (Option.some.inj hini).symm
      · intro kv hkv
        rw [h3 kv hkv]
        rfl
  rw [hQ]
  exact C03_ideal ph P p hp

end installed

/-- the predicate `C02.StringRelabelled` (the conclusion of `C02.installedString_relabelled` / `C02.same_map`; `C02.Relabelled`
has the same shape for a drive row) pins the installed list down to the gather of `Model/Perm.lean` -/
theorem C02_relabelled_is_gather {β : Type} (perm : List ℕ) (site atom : List β)
    (h : C02.StringRelabelled perm site atom) (hl : site.length = perm.length) :
    site = EmuVerif.Perm.gatherT atom perm := by
  have hin : ∀ i ∈ perm, i < atom.length := by
    intro a ha
    obtain ⟨i, hi, hia⟩ := List.getElem_of_mem ha
    have := (h i a (by rw [List.getElem?_eq_getElem hi, hia])).2
    by_contra hcon
    rw [List.getElem?_eq_none (not_lt.mp hcon)] at this
    simp at this
  apply List.ext_getElem?
  intro k
  rw [EmuVerif.Perm.getElem?_gatherT hin]
  by_cases hk : k < perm.length
  · rw [List.getElem?_eq_getElem hk]
    exact (h k perm[k] (List.getElem?_eq_getElem hk)).1
  · rw [List.getElem?_eq_none (by rw [hl]; exact not_lt.mp hk), List.getElem?_eq_none (not_lt.mp hk)]
    rfl

/-! ### Non-vacuity: `N = 3`, the 3-cycle listed by `[2, 0, 1]`, concrete matrices -/
section examples
open EmuVerif.Perm EmuVerif.Props.C03

theorem ex_isPerm : IsPerm 3 [2, 0, 1] := isPermOf_iff.mp (by decide)

/-- the 3-cycle `0 ↦ 2, 1 ↦ 0, 2 ↦ 1` (site `k` holds atom `[2, 0, 1][k]`) -/
noncomputable def c3 : Equiv.Perm (Fin 3) := permOf ex_isPerm

theorem c3_apply : c3 0 = 2 ∧ c3 1 = 0 ∧ c3 2 = 1 := ⟨rfl, rfl, rfl⟩

/-- `n̂ = |r⟩⟨r|`, `σˣ`, `σʸ` -/
noncomputable def nop : Matrix (Fin 2) (Fin 2) ℂ := !![0, 0; 0, 1]
noncomputable def sx : Matrix (Fin 2) (Fin 2) ℂ := !![0, 1; 1, 0]
noncomputable def sy : Matrix (Fin 2) (Fin 2) ℂ := !![0, -Complex.I; Complex.I, 0]

/-- `P_σ |r g g⟩ = |g r g⟩`: atom 0 is excited, and atom 0 sits on site 1 -/
example : (siteP c3 : Matrix (Cfg 3 2) (Cfg 3 2) ℂ) *ᵥ Pi.single ![1, 0, 0] 1 = Pi.single ![0, 1, 0] 1 := by
  rw [siteP_basis]
  congr 1
  funext k
  fin_cases k <;> rfl

/-- … so `P_σ` is not the identity -/
example : (siteP c3 : Matrix (Cfg 3 2) (Cfg 3 2) ℂ) ≠ 1 := by
  intro h
  have := congrFun (congrFun h ![0, 1, 0]) ![1, 0, 0]
  rw [siteP_apply, Matrix.one_apply, if_pos (by funext k; fin_cases k <;> rfl), if_neg (by decide)] at this
  exact one_ne_zero this

/-- `siteEmb_conj`, instantiated: `n̂` of atom `σ 0 = 2` becomes `n̂` of site 0 — two different matrices -/
example : siteP c3 * siteEmb 3 2 2 nop * (siteP c3)ᵀ = siteEmb 3 2 0 nop := siteEmb_conj c3 0 nop

example : siteEmb 3 2 2 nop ≠ siteEmb 3 2 0 nop := by
  intro h
  have := congrFun (congrFun h ![1, 0, 0]) ![1, 0, 0]
  simp [siteEmb, nop] at this

/-- a step with three different drives and three different couplings … -/
noncomputable def exStep : Step 3 2 :=
  ⟨fun m => ((m.val : ℂ) + 1) • sx,
   fun i j => if i = j then 0 else ((i.val : ℂ) + (j.val : ℂ) + 1), 1⟩

theorem exStep_symm : ∀ i j, exStep.U i j = exStep.U j i := by
  intro i j
  simp only [exStep, eq_comm (a := i), add_comm ((i.val : ℂ))]

/-- … is genuinely changed by the relabelling (`U'₀₁ = U₂₀ = 3 ≠ 2 = U₀₁`) … -/
example : (exStep.relabel c3).U 0 1 = 3 ∧ exStep.U 0 1 = 2 := by
  have h1 : (exStep.relabel c3).U 0 1 = exStep.U 2 0 := rfl
  rw [h1]
  simp only [exStep]
  constructor
  · rw [if_neg (by decide)]
    show (((2 : ℕ) : ℂ) + ((0 : ℕ) : ℂ) + 1) = 3
    norm_num
  · rw [if_neg (by decide)]
    show (((0 : ℕ) : ℂ) + ((1 : ℕ) : ℂ) + 1) = 2
    norm_num

/-- … and satisfies the hypotheses of `ideal_run_relabel` & co. for the Rydberg and for the XY interaction, any durations -/
example (t₁ t₂ : ℝ) (ψ : Cfg 3 2 → ℂ) (s : Cfg 3 2) :
    prob (run (hamSteps (Kind.rydberg nop) ([{ exStep with t := t₁ }, { exStep with t := t₂ }].map (Step.relabel c3)))
      (siteP c3 *ᵥ ψ)) (s ∘ c3)
      = prob (run (hamSteps (Kind.rydberg nop) [{ exStep with t := t₁ }, { exStep with t := t₂ }]) ψ) s :=
  bitstring_prob_relabel _ c3 _ (by
    intro st hst; simp only [List.mem_cons, List.not_mem_nil, or_false] at hst
    rcases hst with rfl | rfl <;> exact exStep_symm) ψ s

example (t₁ : ℝ) (ψ : Cfg 3 2 → ℂ) (k : Fin 3) :
    expect (siteEmb 3 2 k nop) (run (hamSteps (Kind.xy sx sy) ([{ exStep with t := t₁ }].map (Step.relabel c3))) (siteP c3 *ᵥ ψ))
      = expect (siteEmb 3 2 (c3 k) nop) (run (hamSteps (Kind.xy sx sy) [{ exStep with t := t₁ }]) ψ) :=
  occupation_relabel _ c3 _ (by
    intro st hst; simp only [List.mem_cons, List.not_mem_nil, or_false] at hst
    subst hst; exact exStep_symm) ψ nop k

/-- a concrete problem: 3 atoms, distinct couplings, two drive rows, atom 2 dark, initial state `|r g g⟩` -/
noncomputable def exP : Problem ℂ :=
  { qubitIds := ["q0", "q1", "q2"]
    interaction := [[0, 2, 3], [2, 0, 4], [3, 4, 0]]
    drives := [[1, 2, 3], [4, 5, 6]]
    badAtoms := [false, false, true]
    initial := [("rgg".toList, 1)] }

noncomputable def exPh : Phys 2 :=
  { kind := Kind.rydberg nop, loc := fun z => z • sx, obs := nop, lvl := fun c => if c = 'r' then 1 else 0, gnd := 0, dt := 1 }

theorem exP_WF : WF 3 exP := by
  refine ⟨?_, by simp [exP], ?_, by simp [exP], ?_⟩
  · intro row hrow
    simp only [exP, List.mem_cons, List.not_mem_nil, or_false] at hrow
    rcases hrow with rfl | rfl <;> simp
  · intro kv hkv
    simp only [exP, List.mem_cons, List.not_mem_nil, or_false] at hkv
    subst hkv; decide
  · intro i
    fin_cases i <;> simp [exP]

/-- the hypotheses of `C03_ideal` / `idealRun_equivariant` / `C03_ideal_installed` hold for it with the 3-cycle … -/
example : IsPerm exP.qubitIds.length [2, 0, 1] := ex_isPerm
example : permuteResults [2, 0, 1] (idealRun exPh (exP.reorder [2, 0, 1])) true = some (idealRun exPh exP) :=
  C03_ideal exPh exP [2, 0, 1] ex_isPerm

/-- … the run is the real one (not the answer to a malformed problem), with one entry per step … -/
theorem ex_run : idealRun exPh exP = core exPh 3 exP := if_pos exP_WF

example : (idealRun exPh exP).occupation.map List.length = some 2 := by
  rw [ex_run]
  simp [core, trajF, traj_length, hamSteps, schedF, exP]

/-- … and the reordered problem is a different problem, listed in site order -/
example : (exP.reorder [2, 0, 1]).qubitIds = ["q2", "q0", "q1"] ∧
    (exP.reorder [2, 0, 1]).badAtoms = [true, false, false] := by
  constructor <;> decide

example : (exP.reorder [2, 0, 1]).interaction = [[0, 3, 4], [3, 0, 2], [4, 2, 0]] := by
  simp [Problem.reorder, exP, Perm.permuteMatT, gatherT]

/-- the constructor model of C02 on the same data: hypotheses of `installed_is_reorder`, evaluated -/
example : EmuVerif.Stepper.installedDrive .repaired [2, 0, 1] exP.drives 1 = (exP.reorder [2, 0, 1]).drives[1]? :=
  (installed_is_reorder ex_isPerm exP_WF).2.1 1

/-- the hypotheses of `C03_ideal_installed` are satisfiable: `Q` := what the constructor model installs for `exP` -/
example : permuteResults [2, 0, 1] (idealRun exPh (exP.reorder [2, 0, 1])) true = some (idealRun exPh exP) := by
  obtain ⟨h1, h2, h3, h4⟩ := installed_is_reorder ex_isPerm exP_WF
  refine C03_ideal_installed exPh exP (exP.reorder [2, 0, 1]) [2, 0, 1] ex_isPerm exP_WF (by decide) h1 h2 h4 ?_
  rw [mapOpt_eq_some_map _ (fun kv => (gatherT kv.1 [2, 0, 1], kv.2))]
  · rfl
  · intro kv hkv
    rw [h3 kv hkv]
    rfl

end examples

end EmuVerif.Props.C03Ideal
