/-
  C03 (continued) — relabelling / reordering the atoms, proved for the IDEAL solver.

  `Props/C03.lean` proves the permutation bookkeeping and reduces the end-to-end claim `C03_full run` to the assumption
  `Equivariant run` ("the solver on the reordered problem reports the site-order view of the original run"). This file
  DISCHARGES that assumption for the ideal solver — the exact matrix exponential `exp(−i t_k H_k)` of the piecewise-constant
  dense Hamiltonian (`C29Exp.run`, Mathlib's `NormedSpace.exp` on `Matrix (Fin N → Fin d) (Fin N → Fin d) ℂ`) — for every
  number of atoms `N`, every number of levels `d`, every permutation `σ` of the atoms, every schedule (any number of steps,
  step-dependent single-site terms AND couplings), for the Rydberg and the XY interaction alike (`Kind`: `K`, `c`, `op`
  as in `C05.Hdense`).

  Conventions (those of `Model/Perm.lean`: a list permuted by `p` is `k ↦ x[p[k]]`; site `k` holds atom `σ k = p[k]`):
    `(siteP σ *ᵥ ψ)(t) = ψ(t ∘ σ⁻¹)`, `siteP σ *ᵥ e_s = e_{s ∘ σ}` (`permute_string`), `(siteP σ)⁻¹ = (siteP σ)ᵀ = (siteP σ)ᴴ`,
    `siteP σ * siteEmb (σ k) a * (siteP σ)ᵀ = siteEmb k a`  (`Proofs/PermEquiv.lean`).

  Matrix level (any `N`, `d`, `σ`, schedule):
    * `hamiltonian_relabel`        `P_σ H(h, U) P_σᵀ = H(h ∘ σ, U ∘ (σ × σ))` for the dense Hamiltonian of C05 (`U` symmetric);
      `hamiltonian_relabel_C05` is the same statement written with `C05.Hdense` and `C05.kronEmb`.
    * `ideal_run_relabel`          the ideal run of the relabelled schedule from `P_σ ψ₀` is `P_σ` applied to the ideal run of the
      original schedule from `ψ₀`  (`C29Exp.run_conj`); `ideal_traj_relabel` the same at every intermediate time.
    * `bitstring_prob_relabel`     `|ψ'(s ∘ σ)|² = |ψ(s)|²`: the relabelled run gives the relabelled string the weight of `s` (no phases);
      `occupation_relabel`, `correlation_relabel`  `⟨a⟩` on site `k` of the relabelled run = `⟨a⟩` on atom `σ k` of the original,
      same for two-site products; `energy_relabel` the energies agree.
  Results level (the `Problem` / `Res` / `siteView` / `permuteResults` types of `Props/C03.lean`):
    * `idealRun ph`                an emulator `Problem ℂ → Res ℂ` built on the ideal run: per-step per-atom drive value `z ↦ ph.loc z`
      (ANY function into the `d × d` matrices), couplings `½(U_ij + U_ji)`, dark atoms (`badAtoms`) lose drive and couplings, initial
      state `Σ amp • |label⟩` (default `|g…g⟩`), occupations / correlation matrices / energy after every step. A problem whose lists are
      too short for its register is answered with an empty result (Python would raise).
    * `idealRun_equivariant`       **`C03.Equivariant (idealRun ph)`**;
    * `C03_ideal`                  **`C03.C03_full (idealRun ph)`** = `C03_partial` ∘ `idealRun_equivariant`: un-permuting the results of
      the reordered problem gives exactly the results of the original problem, atoms in register order.
    * `installed_is_reorder`, `C03_ideal_installed`  what the C02 model of the back-end installs for site order `p`
      (`installedDrive .repaired`, `installedInteraction`, `installedString .direct` — the objects of `C02.same_map`) IS
      `Problem.reorder p`, so "the relabelled problem is what gets solved" is a theorem about the modelled constructor, not a hypothesis.
      (Dark atoms are not part of the C02 model: their mask is taken through the same `permuteRow`.)

  NOT covered — stays an assumption, validated by the metamorphic end-to-end search of `harness/props/c03.py`: the real solver
  (two-site TDVP, Krylov exponential, SVD truncation; DMRG) is not the ideal exponential. Its results depend on the site order at
  the 1e-8 … 1e-5 level (measured: `notes/perm.md`), far below the solver tolerance but not zero; bitstring SAMPLES (as opposed to
  the distribution) depend on the site order through the RNG stream and are not modelled (`bitstrings := none` in `idealRun`).
-/
import EmuVerif.Proofs.PermEquiv
import EmuVerif.Props.C03
import EmuVerif.Props.C29Exp
import EmuVerif.Props.C02

set_option linter.unusedSectionVars false
set_option linter.unusedVariables false

namespace EmuVerif.Props.C03Ideal
open EmuVerif EmuVerif.Ideal EmuVerif.PermEquiv EmuVerif.HamMPO EmuVerif.Props.C05 EmuVerif.Props.C29Exp Matrix

variable {N d : ℕ}

/-! ### `P_σ` over ℂ is unitary -/

theorem siteP_conjTranspose (σ : Equiv.Perm (Fin N)) :
    (siteP σ : Matrix (Cfg N d) (Cfg N d) ℂ)ᴴ = (siteP σ)ᵀ := by
  unfold siteP
  rw [Matrix.conjTranspose_permMatrix, Matrix.transpose_permMatrix]

theorem siteP_unitary (σ : Equiv.Perm (Fin N)) :
    (siteP σ : Matrix (Cfg N d) (Cfg N d) ℂ)ᴴ * siteP σ = 1 := by
  rw [siteP_conjTranspose]; exact siteP_transpose_mul σ

/-- expectation values: `⟨P ψ| P A Pᵀ |P ψ⟩ = ⟨ψ|A|ψ⟩` -/
theorem expect_siteP (σ : Equiv.Perm (Fin N)) (A : Matrix (Cfg N d) (Cfg N d) ℂ) (ψ : Cfg N d → ℂ) :
    expect (siteP σ * A * (siteP σ)ᵀ) (siteP σ *ᵥ ψ) = expect A ψ := by
  rw [← siteP_conjTranspose]
  exact expect_conj _ _ (siteP_unitary σ) ψ

/-! ### schedules and their relabelling -/

/-- which interaction: `K` channel operators `op k` with prefactor `c` (Rydberg `1, 1, n̂`; XY `2, 2, σˣ σʸ`) -/
structure Kind (d : ℕ) where
  K : ℕ
  c : ℂ
  op : ℕ → Matrix (Fin d) (Fin d) ℂ

def Kind.rydberg (nop : Matrix (Fin d) (Fin d) ℂ) : Kind d := ⟨1, 1, fun _ => nop⟩
def Kind.xy (sx sy : Matrix (Fin d) (Fin d) ℂ) : Kind d := ⟨2, 2, fun k => if k = 0 then sx else sy⟩

/-- one step of a schedule: single-site terms (drive + detuning + …) per atom, couplings, duration -/
structure Step (N d : ℕ) where
  h : Fin N → Matrix (Fin d) (Fin d) ℂ
  U : Fin N → Fin N → ℂ
  t : ℝ

/-- the step of the relabelled problem: site `k` carries atom `σ k` -/
def Step.relabel (σ : Equiv.Perm (Fin N)) (s : Step N d) : Step N d :=
  ⟨fun m => s.h (σ m), fun i j => s.U (σ i) (σ j), s.t⟩

/-- the dense Hamiltonian of a step -/
def Step.ham (kd : Kind d) (s : Step N d) : Matrix (Cfg N d) (Cfg N d) ℂ := HFin N d kd.K kd.c kd.op s.h s.U

def hamSteps (kd : Kind d) (sched : List (Step N d)) : List (Matrix (Cfg N d) (Cfg N d) ℂ × ℝ) :=
  sched.map (fun s => (s.ham kd, s.t))

/-- **`P_σ H(h, U) P_σᵀ = H(h ∘ σ, U ∘ (σ × σ))`** -/
theorem hamiltonian_relabel (kd : Kind d) (σ : Equiv.Perm (Fin N)) (s : Step N d) (hU : ∀ i j, s.U i j = s.U j i) :
    siteP σ * s.ham kd * (siteP σ)ᵀ = (s.relabel σ).ham kd :=
  HFin_conj σ kd.K kd.c kd.op s.h s.U hU

/-- the same for `C05.Hdense` with the Kronecker embeddings `C05.kronEmb`, the Hamiltonian the emu-mps MPO contracts to
(`C05.mpo_eq_dense`): relabelling = `U i j ↦ U (σ i) (σ j)`, `h m ↦ h (σ m)` on the indices `< N`. -/
theorem hamiltonian_relabel_C05 (P P' : Params ℂ (Matrix (Fin d) (Fin d) ℂ)) (hN : 0 < P.N) (hN' : P'.N = P.N)
    (σ : Equiv.Perm (Fin P.N)) (hU : ∀ i j, P.U i j = P.U j i)
    (hK : P'.K = P.K) (hc : P'.c = P.c) (hop : P'.op = P.op)
    (hh : ∀ m : Fin P.N, P'.h m = P.h (σ m)) (hUU : ∀ i j : Fin P.N, P'.U i j = P.U (σ i) (σ j)) :
    siteP σ * Hdense P (kronEmb P.N d hN) * (siteP σ)ᵀ = Hdense P' (kronEmb P.N d hN) := by
  obtain ⟨N', K', c', U', op', h'⟩ := P'
  simp only at hN' hK hc hop hh hUU
  subst hN' hK hc hop
  refine Eq.trans ?_ (Hdense_kronEmb_eq_HFin (⟨P.N, P.K, P.c, U', P.op, h'⟩ : Params ℂ (Matrix (Fin d) (Fin d) ℂ)) hN).symm
  rw [Hdense_kronEmb_eq_HFin P hN, HFin_conj σ _ _ _ _ _ (fun i j => hU i j)]
  simp only [hh, hUU]

theorem hamSteps_relabel (kd : Kind d) (σ : Equiv.Perm (Fin N)) (sched : List (Step N d))
    (hU : ∀ s ∈ sched, ∀ i j, s.U i j = s.U j i) :
    hamSteps kd (sched.map (Step.relabel σ)) = conjSteps (siteP σ) (siteP σ)ᵀ (hamSteps kd sched) := by
  unfold hamSteps conjSteps
  rw [List.map_map, List.map_map]
  apply List.map_congr_left
  intro s hs
  simp only [Function.comp_apply, Prod.mk.injEq]
  exact ⟨(hamiltonian_relabel kd σ s (hU s hs)).symm, rfl⟩

/-- **The ideal solver is equivariant**: the ideal run of the relabelled schedule from the relabelled initial state is
`P_σ` applied to the ideal run of the original schedule — every `N`, `d`, `σ`, every list of steps. -/
theorem ideal_run_relabel (kd : Kind d) (σ : Equiv.Perm (Fin N)) (sched : List (Step N d))
    (hU : ∀ s ∈ sched, ∀ i j, s.U i j = s.U j i) (ψ : Cfg N d → ℂ) :
    run (hamSteps kd (sched.map (Step.relabel σ))) (siteP σ *ᵥ ψ) = siteP σ *ᵥ run (hamSteps kd sched) ψ := by
  rw [hamSteps_relabel kd σ sched hU]
  exact run_conj _ _ (siteP_mul_transpose σ) _ ψ

/-- **bitstring distribution**: in the relabelled run the string `k ↦ s (σ k)` has the weight `s` has in the original run -/
theorem bitstring_prob_relabel (kd : Kind d) (σ : Equiv.Perm (Fin N)) (sched : List (Step N d))
    (hU : ∀ s ∈ sched, ∀ i j, s.U i j = s.U j i) (ψ : Cfg N d → ℂ) (s : Cfg N d) :
    prob (run (hamSteps kd (sched.map (Step.relabel σ))) (siteP σ *ᵥ ψ)) (s ∘ σ)
      = prob (run (hamSteps kd sched) ψ) s := by
  rw [ideal_run_relabel kd σ sched hU]
  unfold prob
  rw [siteP_mulVec_comp]

/-- **occupations** (any single-site operator `a`): site `k` of the relabelled run reports atom `σ k` of the original run -/
theorem occupation_relabel (kd : Kind d) (σ : Equiv.Perm (Fin N)) (sched : List (Step N d))
    (hU : ∀ s ∈ sched, ∀ i j, s.U i j = s.U j i) (ψ : Cfg N d → ℂ) (a : Matrix (Fin d) (Fin d) ℂ) (k : Fin N) :
    expect (siteEmb N d k a) (run (hamSteps kd (sched.map (Step.relabel σ))) (siteP σ *ᵥ ψ))
      = expect (siteEmb N d (σ k) a) (run (hamSteps kd sched) ψ) := by
  rw [ideal_run_relabel kd σ sched hU, ← siteEmb_conj σ k a, expect_siteP]

theorem pair_conj (σ : Equiv.Perm (Fin N)) (a b : Matrix (Fin d) (Fin d) ℂ) (i j : Fin N) :
    siteP σ * (siteEmb N d (σ i) a * siteEmb N d (σ j) b) * (siteP σ)ᵀ = siteEmb N d i a * siteEmb N d j b := by
  rw [← conjA_apply, map_mul, conjA_siteEmb, conjA_siteEmb]

/-- **two-site correlations** -/
theorem correlation_relabel (kd : Kind d) (σ : Equiv.Perm (Fin N)) (sched : List (Step N d))
    (hU : ∀ s ∈ sched, ∀ i j, s.U i j = s.U j i) (ψ : Cfg N d → ℂ) (a b : Matrix (Fin d) (Fin d) ℂ) (i j : Fin N) :
    expect (siteEmb N d i a * siteEmb N d j b) (run (hamSteps kd (sched.map (Step.relabel σ))) (siteP σ *ᵥ ψ))
      = expect (siteEmb N d (σ i) a * siteEmb N d (σ j) b) (run (hamSteps kd sched) ψ) := by
  rw [ideal_run_relabel kd σ sched hU, ← pair_conj σ a b i j, expect_siteP]

/-- **energies**: the energy of the relabelled run w.r.t. the relabelled Hamiltonian = that of the original run -/
theorem energy_relabel (kd : Kind d) (σ : Equiv.Perm (Fin N)) (sched : List (Step N d))
    (hU : ∀ s ∈ sched, ∀ i j, s.U i j = s.U j i) (ψ : Cfg N d → ℂ) (s : Step N d) (hs : ∀ i j, s.U i j = s.U j i) :
    expect ((s.relabel σ).ham kd) (run (hamSteps kd (sched.map (Step.relabel σ))) (siteP σ *ᵥ ψ))
      = expect (s.ham kd) (run (hamSteps kd sched) ψ) := by
  rw [ideal_run_relabel kd σ sched hU, ← hamiltonian_relabel kd σ s hs, expect_siteP]

/-! ### the whole trajectory (state after every step, with that step's Hamiltonian) -/
section traj
variable {n : Type} [Fintype n] [DecidableEq n]

noncomputable def traj : List (Matrix n n ℂ × ℝ) → (n → ℂ) → List (Matrix n n ℂ × (n → ℂ))
  | [], _ => []
  | s :: rest, ψ => (s.1, expU s.1 s.2 *ᵥ ψ) :: traj rest (expU s.1 s.2 *ᵥ ψ)

theorem traj_length (steps : List (Matrix n n ℂ × ℝ)) (ψ : n → ℂ) : (traj steps ψ).length = steps.length := by
  induction steps generalizing ψ with
  | nil => rfl
  | cons s rest ih => simp [traj, ih]

/-- the last state of the trajectory is the result of `C29Exp.run` -/
theorem traj_getLast (s : Matrix n n ℂ × ℝ) (rest : List (Matrix n n ℂ × ℝ)) (ψ : n → ℂ) :
    ((traj (s :: rest) ψ).map Prod.snd).getLast? = some (run (s :: rest) ψ) := by
  induction rest generalizing s ψ with
  | nil => rfl
  | cons s' rest' ih =>
    have h := ih s' (expU s.1 s.2 *ᵥ ψ)
    rw [run_cons, ← h]
    simp only [traj, List.map_cons, List.getLast?_cons_cons]

theorem traj_conj (V W : Matrix n n ℂ) (hVW : V * W = 1) (steps : List (Matrix n n ℂ × ℝ)) (ψ : n → ℂ) :
    traj (conjSteps V W steps) (V *ᵥ ψ) = (traj steps ψ).map (fun x => (V * x.1 * W, V *ᵥ x.2)) := by
  induction steps generalizing ψ with
  | nil => rfl
  | cons s rest ih =>
    have h1 : expU (V * s.1 * W) s.2 *ᵥ (V *ᵥ ψ) = V *ᵥ (expU s.1 s.2 *ᵥ ψ) := run_conj V W hVW [s] ψ
    show (V * s.1 * W, expU (V * s.1 * W) s.2 *ᵥ (V *ᵥ ψ))
        :: traj (conjSteps V W rest) (expU (V * s.1 * W) s.2 *ᵥ (V *ᵥ ψ)) = _
    rw [h1, ih]
    rfl

end traj

/-- the trajectory of the relabelled schedule is the `P_σ`-image of the original trajectory, step by step -/
theorem ideal_traj_relabel (kd : Kind d) (σ : Equiv.Perm (Fin N)) (sched : List (Step N d))
    (hU : ∀ s ∈ sched, ∀ i j, s.U i j = s.U j i) (ψ : Cfg N d → ℂ) :
    traj (hamSteps kd (sched.map (Step.relabel σ))) (siteP σ *ᵥ ψ)
      = (traj (hamSteps kd sched) ψ).map (fun x => (siteP σ * x.1 * (siteP σ)ᵀ, siteP σ *ᵥ x.2)) := by
  rw [hamSteps_relabel kd σ sched hU]
  exact traj_conj _ _ (siteP_mul_transpose σ) _ ψ

end EmuVerif.Props.C03Ideal
